/-
  QV.Proofs.ServerNames — names as the server hands them from one layer to the next (helpers of
  C01/C02): a name the wire parser (C14) returns is the wire form of a well-formed `WName`, so
  `WName.parse` reads it back (the "unreachable" branches of `QV.Server.handleWithContext` /
  `handleTsig`); lower-casing keeps that; `WName.parse ∘ wire = id`.
-/
import QV.Model.Server
import QV.Properties.C14
import QV.Properties.C15

namespace QV.ServerSafety
open QV QV.Writer QV.Wire QV.Spec


theorem consts63 : Gen.MAX_LABEL_LEN = 63 ∧ Gen.MAX_WIRE_LEN = 255 := by decide

/-- a list of labels that may appear in a `Name` -/
def LabelsOK (ls : List Label) : Prop := ∀ l ∈ ls, 1 ≤ l.length ∧ l.length ≤ 63

theorem encLabel_length (l : Label) : (WName.encLabel l).length = l.length + 1 := by
  simp [WName.encLabel]

theorem flatMap_enc_length_ge (ls : List Label) : ls.length ≤ (ls.flatMap WName.encLabel).length := by
  induction ls with
  | nil => simp
  | cons l r ih =>
    simp only [List.flatMap_cons, List.length_append, encLabel_length, List.length_cons]; omega

/-- `parseLabels` reads back what `wire` wrote -/
theorem parseLabels_wire (ls : List Label) (h : LabelsOK ls) (rest : List UInt8) (fuel : Nat)
    (hf : ls.length + 1 ≤ fuel) :
    WName.parseLabels fuel (ls.flatMap WName.encLabel ++ [0] ++ rest) = some (ls, rest) := by
  induction ls generalizing fuel with
  | nil =>
    cases fuel with
    | zero => omega
    | succ f => simp [WName.parseLabels]
  | cons l r ih =>
    cases fuel with
    | zero => omega
    | succ f =>
      have hl := h l (by simp)
      have hr : LabelsOK r := fun x hx => h x (by simp [hx])
      have h256 : l.length < 256 := by omega
      have hne : UInt8.ofNat l.length ≠ 0 := by
        intro hc
        have := congrArg UInt8.toNat hc
        simp [UInt8.toNat_ofNat] at this
        omega
      have htn : (UInt8.ofNat l.length).toNat = l.length := by
        simp; omega
      simp only [List.flatMap_cons, WName.encLabel, List.cons_append, WName.parseLabels, hne, if_false,
        htn, consts63.1]
      have h1 : ¬ (l.length > 63) := by omega
      simp only [h1, if_false]
      have h2 : ¬ ((l ++ (List.flatMap WName.encLabel r) ++ [0] ++ rest).length < l.length) := by
        simp only [List.length_append]; omega
      simp only [List.append_assoc] at h2 ⊢
      simp only [h2, if_false]
      have hd : List.drop l.length (l ++ (List.flatMap WName.encLabel r ++ ([0] ++ rest))) =
          List.flatMap WName.encLabel r ++ [0] ++ rest := by simp
      have ht : List.take l.length (l ++ (List.flatMap WName.encLabel r ++ ([0] ++ rest))) = l := by simp
      rw [hd, ht, ih hr f (by simp at hf; omega)]

theorem parse_wire (n : WName) (h : n.WF) (rest : List UInt8) :
    WName.parse (n.wire ++ rest) = some (n, rest) := by
  obtain ⟨hl, hw⟩ := h
  have hok : LabelsOK n.labels := fun l hl' => by
    have := hl l hl'; rw [consts63.1] at this; exact this
  unfold WName.parse
  have h1 : n.labels.length + 1 ≤ (n.labels.flatMap WName.encLabel ++ [0] ++ rest).length + 1 := by
    have := flatMap_enc_length_ge n.labels
    simp only [List.length_append]; omega
  have e : n.wire ++ rest = n.labels.flatMap WName.encLabel ++ [0] ++ rest := rfl
  rw [e, parseLabels_wire n.labels hok rest _ h1]
  simp only
  rw [if_pos hw]

/-- what `parseLabels` accepts is a wire form -/
theorem parseLabels_sound (fuel : Nat) (b : List UInt8) (ls : List Label) (r : List UInt8)
    (h : WName.parseLabels fuel b = some (ls, r)) :
    LabelsOK ls ∧ b = ls.flatMap WName.encLabel ++ [0] ++ r := by
  induction fuel generalizing b ls r with
  | zero => simp [WName.parseLabels] at h
  | succ f ih =>
    cases b with
    | nil => simp [WName.parseLabels] at h
    | cons l rest =>
      simp only [WName.parseLabels] at h
      split at h
      · rename_i h0
        simp only [Option.some.injEq, Prod.mk.injEq] at h
        obtain ⟨rfl, rfl⟩ := h
        constructor
        · intro x hx; simp at hx
        · simp [h0]
      · rename_i h0
        split at h
        · cases h
        · rename_i h63
          split at h
          · cases h
          · rename_i hlen
            cases hp : WName.parseLabels f (List.drop l.toNat rest) with
            | none => rw [hp] at h; cases h
            | some v =>
              obtain ⟨ls', r'⟩ := v
              rw [hp] at h
              simp only [Option.some.injEq, Prod.mk.injEq] at h
              obtain ⟨rfl, rfl⟩ := h
              obtain ⟨hok, heq⟩ := ih _ _ _ hp
              rw [consts63.1] at h63
              have hlt : (List.take l.toNat rest).length = l.toNat := by
                simp [List.length_take]; omega
              have hpos : 0 < l.toNat := by
                rcases Nat.eq_zero_or_pos l.toNat with hz | hz
                · exact absurd ((toNat_eq_zero_iff l).mp hz) h0
                · exact hz
              refine ⟨?_, ?_⟩
              · intro x hx
                cases hx with
                | head => omega
                | tail _ hx' => exact hok x hx'
              · simp only [List.flatMap_cons, WName.encLabel, hlt, List.cons_append]
                have : UInt8.ofNat l.toNat = l := by simp
                rw [this]
                congr 1
                rw [List.append_assoc, List.append_assoc, ← List.append_assoc _ [0] r', ← heq]
                simp

theorem parse_sound (b : List UInt8) (n : WName) (r : List UInt8) (h : WName.parse b = some (n, r)) :
    n.WF ∧ b = n.wire ++ r := by
  unfold WName.parse at h
  cases hp : WName.parseLabels (b.length + 1) b with
  | none => rw [hp] at h; cases h
  | some v =>
    obtain ⟨ls, r'⟩ := v
    rw [hp] at h
    simp only at h
    split at h
    · rename_i hw
      cases h
      obtain ⟨hok, heq⟩ := parseLabels_sound _ _ _ _ hp
      refine ⟨⟨fun l hl => ?_, hw⟩, ?_⟩
      · rw [consts63.1]; exact hok l hl
      · simpa [WName.wire] using heq
    · cases h



/-- the uncompressed wire form of some well-formed label list -/
def IsWire (w : List UInt8) : Prop := ∃ ls, LabelsOK ls ∧ w = ls.flatMap WName.encLabel ++ [0]

theorem extract_cons (msg : Bytes) (pos k : Nat) (h : pos < msg.size) (_hk : pos + k + 1 ≤ msg.size) :
    (msg.extract pos (pos + k + 1)).toList = msg[pos] :: (msg.extract (pos + 1) (pos + k + 1)).toList := by
  simp only [Array.toList_extract, List.extract_eq_take_drop]
  have hl : pos < msg.toList.length := by simpa using h
  rw [List.drop_eq_getElem_cons hl]
  have e1 : pos + k + 1 - pos = k + 1 := by omega
  have e2 : pos + k + 1 - (pos + 1) = k := by omega
  rw [e1, e2, List.take_succ_cons]
  simp

theorem decodes_isWire {msg : Bytes} {pos cs : Nat} {w : List UInt8} {n k : Nat}
    (h : Decodes msg pos cs w n k) : IsWire w := by
  induction h with
  | null h h0 => exact ⟨[], fun _ hx => by simp at hx, by simp⟩
  | @label pos cs w n k h h0 h63 hin rest ih =>
    obtain ⟨ls, hok, rfl⟩ := ih
    refine ⟨(msg.extract (pos + 1) (pos + msg[pos].toNat + 1)).toList :: ls, ?_, ?_⟩
    · intro x hx
      cases hx with
      | head =>
        have : 0 < msg[pos].toNat := toNat_pos_of_ne_zero _ h0
        simp only [Array.toList_extract, List.extract_eq_take_drop, List.length_drop, List.length_take,
          Array.length_toList]
        omega
      | tail _ hx' => exact hok x hx'
    · rw [extract_cons msg pos _ h hin]
      simp only [List.flatMap_cons, WName.encLabel, List.cons_append, List.append_assoc]
      congr 1
      simp only [Array.toList_extract, List.extract_eq_take_drop, List.length_drop, List.length_take,
        Array.length_toList]
      have : min (pos + msg[pos].toNat + 1 - (pos + 1)) (msg.size - (pos + 1)) = msg[pos].toNat := by omega
      rw [this]; simp
  | ptr h hp hb rest ih => exact ih


/-- a wire form of at most 255 octets is the wire form of a well-formed name, and parses back -/
theorem isWire_parse {w : List UInt8} (h : IsWire w) (hl : w.length ≤ 255) :
    ∃ n : WName, n.WF ∧ n.wire = w ∧ WName.parse w = some (n, []) := by
  obtain ⟨ls, hok, rfl⟩ := h
  have hwf : (⟨ls⟩ : WName).WF := by
    refine ⟨fun l hl' => ?_, ?_⟩
    · rw [consts63.1]; exact hok l hl'
    · rw [consts63.2]; exact hl
  refine ⟨⟨ls⟩, hwf, rfl, ?_⟩
  have := parse_wire ⟨ls⟩ hwf []
  simpa [WName.wire] using this

/-! ### lower-casing (`Name::make_ascii_lowercase`, `LowercaseName`) -/

theorem lowerU8_small (b : UInt8) (h : b.toNat ≤ 63) : lowerU8 b = b := by
  unfold lowerU8
  have : ¬ (65 ≤ b.toNat ∧ b.toNat ≤ 90) := by omega
  simp [this]

theorem isWire_lower {w : List UInt8} (h : IsWire w) : IsWire (w.map lowerU8) := by
  obtain ⟨ls, hok, rfl⟩ := h
  refine ⟨ls.map (fun l => l.map lowerU8), ?_, ?_⟩
  · intro x hx
    obtain ⟨l, hl, rfl⟩ := List.mem_map.mp hx
    simpa using hok l hl
  · have h0 : lowerU8 0 = 0 := by decide
    simp only [List.map_append, List.map_cons, List.map_nil, h0]
    congr 1
    clear h0
    induction ls with
    | nil => simp
    | cons l r ih =>
      have hl := hok l (by simp)
      have hr : LabelsOK r := fun x hx => hok x (by simp [hx])
      simp only [List.flatMap_cons, List.map_append, List.map_cons, ih hr, WName.encLabel, List.length_map]
      have : (UInt8.ofNat l.length).toNat ≤ 63 := by simp; omega
      rw [lowerU8_small _ this]

/-! ### what the parsers return -/

theorem parseCompressed_isWire (msg : Bytes) (s : Nat) (p : Parsed) (h : parseCompressed msg s = .ok p) :
    IsWire p.wire ∧ p.wire.length ≤ 255 := by
  obtain ⟨hd, hl⟩ := (C14.C14_parse_ok_iff msg s p).mp h
  exact ⟨decodes_isWire hd, hl⟩

theorem parseUncompressed_isWire (b : Bytes) (p : Parsed) (h : parseUncompressed b false = .ok p) :
    IsWire p.wire ∧ p.wire.length ≤ 255 := by
  obtain ⟨hd, hl⟩ := C14.C14_uncompressed_agrees b p h
  exact ⟨decodes_isWire hd, hl⟩

/-- **the "unreachable" branch of `handleWithContext`**: the QNAME (owner, …) the reader returns
    always converts to a `WName` -/
theorem parsed_wname (msg : Bytes) (s : Nat) (p : Parsed) (h : parseCompressed msg s = .ok p) :
    ∃ n : WName, n.WF ∧ n.wire = p.wire ∧ WName.parse p.wire = some (n, []) :=
  let ⟨hw, hl⟩ := parseCompressed_isWire msg s p h
  isWire_parse hw hl

theorem lower_wname {w : List UInt8} (hw : IsWire w) (hl : w.length ≤ 255) :
    ∃ n : WName, n.WF ∧ n.wire = w.map lowerU8 ∧ WName.parse (w.map lowerU8) = some (n, []) :=
  isWire_parse (isWire_lower hw) (by simpa using hl)

theorem validateUncompressed_no_panic (b : Bytes) (u : Bool) : validateUncompressed b u ≠ .panic := by
  unfold validateUncompressed
  cases h : uncompAux b false 0 0 with
  | panic => exact absurd h (uncompAux_no_panic b 0 0)
  | err e => simp
  | ok v => obtain ⟨off, nl⟩ := v; simp only; split <;> simp

end QV.ServerSafety
