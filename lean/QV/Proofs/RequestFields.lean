/-
  QV.Proofs.RequestFields — C10 (1a), field level: the specification's own readers (`labelsOf`,
  `Spec.Tsig.parseRdata`) on the TSIG record of a request, against the accessors of the model's
  `ReadTsigRr` (`time_signed`, `fudge`, `mac`, `original_id`, `error`, `other`).
-/
import QV.Proofs.RequestView
import QV.Proofs.ServerNames
import QV.Proofs.NameWireExec
import QV.Proofs.Rdata

namespace QV.ServerScan
open QV QV.Wire QV.Reader QV.Writer

theorem getD_drop' (l : List UInt8) (j i : Nat) : (l.drop j).getD i 0 = l.getD (j + i) 0 := by
  simp only [List.getD_eq_getElem?_getD, List.getElem?_drop]

theorem field16_drop (l : List UInt8) (j i : Nat) :
    Spec.Tsig.field16 (l.drop j) i = (l.getD (j + i) 0).toNat * 256 + (l.getD (j + i + 1) 0).toNat := by
  unfold Spec.Tsig.field16
  rw [getD_drop', getD_drop']
  rfl

theorem be16_toList (a : Bytes) (i : Nat) :
    be16 a i = (a.toList.getD i 0).toNat * 256 + (a.toList.getD (i + 1) 0).toNat := by
  unfold be16
  simp only [List.getD_eq_getElem?_getD, Array.getElem?_toList, Array.getD_eq_getD_getElem?]

theorem rd16_toNat (l : List UInt8) (i : Nat) :
    (Tsig.rd16 l i).toNat = (l.getD i 0).toNat * 256 + (l.getD (i + 1) 0).toNat := by
  unfold Tsig.rd16
  have h1 := (l.getD i 0).toNat_lt
  have h2 := (l.getD (i + 1) 0).toNat_lt
  simp only [UInt16.toNat_ofNat']
  omega

/-- what `Spec.Tsig.parseRdata` returns on RDATA of the RFC 8945 §4.2 layout, in terms of the octets -/
def fieldsOf (alg : List (List UInt8)) (rest : List UInt8) : Spec.Tsig.RdataFields :=
  let ms := Spec.Tsig.field16 rest 8
  let r3 := (rest.drop 10).drop ms
  ⟨alg, Spec.Tsig.nat48 rest, Spec.Tsig.field16 rest 6, (rest.drop 10).take ms, Spec.Tsig.field16 r3 0,
   Spec.Tsig.field16 r3 2, r3.drop 6⟩

theorem parseRdata_layout (alg : WName) (halg : alg.WF) (rest : List UInt8) (h10 : 10 ≤ rest.length)
    (hms : Spec.Tsig.field16 rest 8 + 16 ≤ rest.length)
    (hol : rest.length = Spec.Tsig.field16 rest 8 + 16 +
      Spec.Tsig.field16 ((rest.drop 10).drop (Spec.Tsig.field16 rest 8)) 4) :
    Spec.Tsig.parseRdata (alg.wire ++ rest) = some (fieldsOf alg.labels rest) := by
  unfold Spec.Tsig.parseRdata
  rw [ServerContent.splitName_wire alg halg rest]
  simp only
  rw [if_neg (by omega), if_neg (by simp only [List.length_drop]; omega)]
  rw [if_neg (by simp only [List.length_drop, ne_eq]; omega)]
  rfl

/-- the accessors of the model's `ReadTsigRr` against the specification's fields -/
structure FieldsAgree (t : Tsig.ReadTsigRr) (f : Spec.Tsig.RdataFields) : Prop where
  time : f.timeSigned = t.timeSigned.toUnix
  fudge : f.fudge = t.fudge.toNat
  mac : f.mac = t.mac
  origId : f.originalId = t.originalId.toNat
  error : f.error = t.error.toNat
  other : f.other = t.other

theorem fieldsAgree_of (kname : List UInt8) (alg : WName) (rest : List UInt8) (h10 : 10 ≤ rest.length) :
    FieldsAgree ⟨kname, Tsig.lowerName alg.wire, (Tsig.rd16 (alg.wire ++ rest) (alg.wire.length + 8)).toNat,
      alg.wire ++ rest⟩ (fieldsOf alg.labels rest) := by
  have ha : (Tsig.lowerName alg.wire).length = alg.wire.length := by simp [Tsig.lowerName]
  have hdrop : ∀ k, (alg.wire ++ rest).drop (alg.wire.length + k) = rest.drop k := by
    intro k; rw [← List.drop_drop, List.drop_left' rfl]
  have hget : ∀ k, (alg.wire ++ rest).getD (alg.wire.length + k) 0 = rest.getD k 0 := by
    intro k
    have := getD_drop' (alg.wire ++ rest) alg.wire.length k
    rw [List.drop_left' rfl] at this
    exact this.symm
  have hms : (Tsig.rd16 (alg.wire ++ rest) (alg.wire.length + 8)).toNat = Spec.Tsig.field16 rest 8 := by
    rw [rd16_toNat, hget 8, show alg.wire.length + 8 + 1 = alg.wire.length + 9 by omega, hget 9]; rfl
  constructor
  · show Spec.Tsig.nat48 rest = (Tsig.TimeSigned.ofList (((alg.wire ++ rest).drop (Tsig.lowerName alg.wire).length).take 6)).toUnix
    rw [ha, show alg.wire.length = alg.wire.length + 0 from rfl, hdrop 0, List.drop_zero,
      ServerTsig.toUnix_ofList _ (by simp; omega)]
    unfold Spec.Tsig.nat48
    rw [List.take_take, Nat.min_self]
  · show Spec.Tsig.field16 rest 6 = (Tsig.rd16 (alg.wire ++ rest) ((Tsig.lowerName alg.wire).length + 6)).toNat
    rw [ha, rd16_toNat, hget 6, show alg.wire.length + 6 + 1 = alg.wire.length + 7 by omega, hget 7]; rfl
  · show (rest.drop 10).take (Spec.Tsig.field16 rest 8) =
      ((alg.wire ++ rest).drop ((Tsig.lowerName alg.wire).length + 10)).take _
    rw [ha, hdrop 10, hms]
  · show Spec.Tsig.field16 ((rest.drop 10).drop (Spec.Tsig.field16 rest 8)) 0 =
      (Tsig.rd16 (alg.wire ++ rest) ((Tsig.lowerName alg.wire).length + _ + 10)).toNat
    rw [ha, hms, rd16_toNat, List.drop_drop, field16_drop]
    rw [show alg.wire.length + Spec.Tsig.field16 rest 8 + 10 = alg.wire.length + (10 + Spec.Tsig.field16 rest 8 + 0) by omega,
      hget, show alg.wire.length + (10 + Spec.Tsig.field16 rest 8 + 0) + 1 =
        alg.wire.length + (10 + Spec.Tsig.field16 rest 8 + 0 + 1) by omega, hget]
  · show Spec.Tsig.field16 ((rest.drop 10).drop (Spec.Tsig.field16 rest 8)) 2 =
      (Tsig.rd16 (alg.wire ++ rest) ((Tsig.lowerName alg.wire).length + _ + 12)).toNat
    rw [ha, hms, rd16_toNat, List.drop_drop, field16_drop]
    rw [show alg.wire.length + Spec.Tsig.field16 rest 8 + 12 = alg.wire.length + (10 + Spec.Tsig.field16 rest 8 + 2) by omega,
      hget, show alg.wire.length + (10 + Spec.Tsig.field16 rest 8 + 2) + 1 =
        alg.wire.length + (10 + Spec.Tsig.field16 rest 8 + 2 + 1) by omega, hget]
  · show ((rest.drop 10).drop (Spec.Tsig.field16 rest 8)).drop 6 =
      (alg.wire ++ rest).drop ((Tsig.lowerName alg.wire).length + _ + 16)
    rw [ha, hms, List.drop_drop, List.drop_drop,
      show alg.wire.length + Spec.Tsig.field16 rest 8 + 16 = alg.wire.length + (10 + Spec.Tsig.field16 rest 8 + 6) by omega,
      hdrop, Nat.add_assoc]

theorem labelsOf_wire (n : WName) (h : n.WF) : Spec.Tsig.labelsOf n.wire = some n.labels := by
  unfold Spec.Tsig.labelsOf
  have := ServerContent.splitName_wire n h []
  rw [List.append_nil] at this
  rw [this]

/-- **C10 (1a), the request-side link.**  On a request whose scan reaches a TSIG record, the audit's
    own view of the request (`viewRequest`: `findTsig`, `specDecodeName`, `labelsOf`, `parseRdata`, the
    request prefix) and the model's run (`TsigRun`: the `t`, `mw`, `r'` of `handle_message`) are about
    the same record `d`:
    * `mw` is the request up to `d` — the audit's `prefixOctets`;
    * `t = ReadTsigRr::try_from` of the record: key name = the decoded owner in lower case (the audit's
      `keyName` are its labels), algorithm = the RDATA's algorithm name in lower case (the audit's
      `fields.algName` are its labels), and `t`'s accessors give the audit's other fields
      (`FieldsAgree`: time signed, fudge, MAC, original ID, error, other data);
    * `viewRequest` returns exactly this view, with `specTsigOutcome` over it. -/
theorem request_view (cfg : Server.Cfg) (tr : Server.Transport) (now bufLen : Nat) (req : Bytes)
    (hbuf : minBuf tr cfg.payload ≤ bufLen) (hpay : 512 ≤ cfg.payload) (hreq : req.size ≤ Rdata.USIZE_MAX)
    (hr : (Spec.Server.specScanWith (catKind cfg) cfg.payload req).respond = true)
    (hv : (Spec.Server.specScanWith (catKind cfg) cfg.payload req).verdict = .tsigReached)
    (hm : Spec.ServerTsig.Hm) (keys : List Spec.ServerTsig.KeyCfg) :
    ∃ (t : Tsig.ReadTsigRr) (mw : Bytes) (r' : Reader) (question : Option (WName × Nat × Nat))
      (d : Spec.Server.Delim) (owner : List UInt8) (nl fl : Nat) (kn alg : WName) (rest : List UInt8),
      ServerContent.TsigRun cfg tr now bufLen req t mw r' question ∧
      Spec.ServerTsig.findTsig req = some d ∧ d.ty = 250 ∧ d.cls = 255 ∧ d.rawTtl = 0 ∧
      Spec.specDecodeName req d.pos = some (owner, nl, fl) ∧ kn.WF ∧ kn.wire = owner ∧
      alg.WF ∧ tsigRd req d = alg.wire ++ rest ∧ 10 ≤ rest.length ∧
      Spec.Tsig.field16 rest 8 + 16 ≤ rest.length ∧ 12 ≤ d.pos ∧ 1 ≤ Spec.Server.hdr req 10 ∧
      mw = req.extract 0 d.pos ∧ r'.cursor = d.next ∧
      t = ⟨Tsig.lowerName owner, Tsig.lowerName alg.wire,
        (Tsig.rd16 (alg.wire ++ rest) (alg.wire.length + 8)).toNat, alg.wire ++ rest⟩ ∧
      FieldsAgree t (fieldsOf alg.labels rest) ∧
      Spec.ServerTsig.viewRequest hm keys req now =
        some ⟨kn.labels, fieldsOf alg.labels rest, mw.toList,
          Spec.ServerTsig.specTsigOutcome keys kn.labels (fieldsOf alg.labels rest)
            (fun k => hm k.sha256 k.secret (Spec.Tsig.digestInput .request mw.toList
              (fieldsOf alg.labels rest).originalId
              { keyName := kn.labels, algName := alg.labels, timeSigned := (fieldsOf alg.labels rest).timeSigned,
                fudge := (fieldsOf alg.labels rest).fudge, error := (fieldsOf alg.labels rest).error,
                other := (fieldsOf alg.labels rest).other } [])) now,
          Spec.ServerTsig.findKey keys kn.labels⟩ := by
  obtain ⟨t, mw, r', question, d, hrun, hfind, hmw, hr', owner, nl, fl, p, hdn, hpu, hlen10, hlay, ht⟩ :=
    tsigRun_view cfg tr now bufLen req hbuf hpay hreq hr hv
  obtain ⟨d0, p1, p2, hfind0, g1, g2, g3, _, _, hdel, hplain, hwalk0, _, hpos12⟩ := findTsig_of_tsigReached _ _ req hr hv
  rw [hfind] at hfind0
  cases hfind0
  have har1 : 1 ≤ Spec.Server.hdr req 10 := by
    by_cases h0 : Spec.Server.hdr req 10 = 0
    · rw [h0] at hwalk0; simp [Spec.ServerTsig.walk] at hwalk0
    · omega
  obtain ⟨_, hnext, hnsz⟩ := delim_extent req d.pos d hdel
  -- the key name
  have hpc : ∃ p0, parseCompressed req d.pos = .ok p0 ∧ p0.wire = owner := by
    have := Spec.specDecodeName_eq_parse req d.pos
    rw [hdn] at this
    cases hp0 : parseCompressed req d.pos with
    | ok p0 =>
      rw [hp0] at this
      simp only [Option.some.injEq, Prod.mk.injEq] at this
      exact ⟨p0, rfl, this.1.symm⟩
    | err e => rw [hp0] at this; cases this
    | panic => rw [hp0] at this; cases this
  obtain ⟨p0, hp0, hp0w⟩ := hpc
  obtain ⟨kn, hknwf, hknw, _⟩ := ServerSafety.parsed_wname req d.pos p0 hp0
  rw [hp0w] at hknw
  -- the algorithm name
  obtain ⟨rest, hsplit, _, hplen, _⟩ := Rdata.parseU_ok _ p hpu
  simp only [List.toList_toArray] at hsplit
  obtain ⟨hiw, hil⟩ := ServerSafety.parseUncompressed_isWire _ p hpu
  obtain ⟨alg, halgwf, halgw, _⟩ := ServerSafety.isWire_parse hiw hil
  rw [← halgw] at hsplit
  have ha : p.len = alg.wire.length := by rw [hplen, halgw]
  -- the layout, in terms of `rest`
  have hEl : (req.extract (d.ownerEnd + 10) d.next).toList = alg.wire ++ rest := hsplit
  have hEs : (req.extract (d.ownerEnd + 10) d.next).size = d.rdlen := by
    simp only [Array.size_extract]; omega
  have hlen : (alg.wire ++ rest).length = d.rdlen := by rw [← hEl, Array.length_toList, hEs]
  have hget : ∀ k, (alg.wire ++ rest).getD (alg.wire.length + k) 0 = rest.getD k 0 := by
    intro k
    have := getD_drop' (alg.wire ++ rest) alg.wire.length k
    rw [List.drop_left' rfl] at this
    exact this.symm
  have hb1 : be16 (req.extract (d.ownerEnd + 10) d.next) (p.len + 8) = Spec.Tsig.field16 rest 8 := by
    rw [be16_toList, hEl, ha, hget 8, show alg.wire.length + 8 + 1 = alg.wire.length + 9 by omega, hget 9]; rfl
  rw [hb1] at hlay
  have hb2 : be16 (req.extract (d.ownerEnd + 10) d.next) (p.len + Spec.Tsig.field16 rest 8 + 14) =
      Spec.Tsig.field16 ((rest.drop 10).drop (Spec.Tsig.field16 rest 8)) 4 := by
    rw [be16_toList, hEl, ha, List.drop_drop, field16_drop]
    rw [show alg.wire.length + Spec.Tsig.field16 rest 8 + 14 = alg.wire.length + (10 + Spec.Tsig.field16 rest 8 + 4) by omega,
      hget, show alg.wire.length + (10 + Spec.Tsig.field16 rest 8 + 4) + 1 =
        alg.wire.length + (10 + Spec.Tsig.field16 rest 8 + 4 + 1) by omega, hget]
  rw [hb2] at hlay
  have hrl : rest.length + alg.wire.length = d.rdlen := by
    rw [← hlen, List.length_append]; omega
  have h10 : 10 ≤ rest.length := by
    have : p.len + 10 ≤ (tsigRd req d).length := hlen10
    unfold tsigRd at this
    rw [hEl, List.length_append] at this
    omega
  have htd : tsigRd req d = alg.wire ++ rest := hEl
  have ht' : t = ⟨Tsig.lowerName owner, Tsig.lowerName alg.wire,
      (Tsig.rd16 (alg.wire ++ rest) (alg.wire.length + 8)).toNat, alg.wire ++ rest⟩ := by
    rw [ht, htd, ha]
    have : p.wire = alg.wire := halgw.symm
    rw [this]
  have hparse : Spec.Tsig.parseRdata (req.extract (d.ownerEnd + 10) d.next).toList = some (fieldsOf alg.labels rest) := by
    rw [hEl]
    exact parseRdata_layout alg halgwf rest h10 (by omega) (by omega)
  refine ⟨t, mw, r', question, d, owner, nl, fl, kn, alg, rest, hrun, hfind, g1, g2, g3, hdn, hknwf, hknw, halgwf, htd,
    h10, by omega, hpos12, har1, hmw, hr', ht', ?_, ?_⟩
  · rw [ht']; exact fieldsAgree_of _ alg rest h10
  · unfold Spec.ServerTsig.viewRequest
    rw [hfind]
    simp only [hdn, hparse]
    rw [← hknw, labelsOf_wire kn hknwf]
    simp only [hmw]
    rfl

end QV.ServerScan
