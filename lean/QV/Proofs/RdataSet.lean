/-
  QV.Proofs.RdataSet — helper lemmas for C19 (second half): the length-prefixed encoding of
  `RdataSet` iterates back to its members; the insertion loop of `from_iter` computes
  `firstOfEachClass`; what `firstOfEachClass` is.
-/
import QV.Proofs.Rdata
import QV.Model.RdataSet
namespace QV.RdataSet
open QV QV.Rdata QV.Spec

def encode (xs : List Bytes) : List UInt8 := (xs.map encodeOne).flatten

theorem lenPrefix_toNat (n : Nat) (h : n ≤ 65535) :
    (UInt8.ofNat (n % 256)).toNat + 256 * (UInt8.ofNat (n / 256 % 256)).toNat = n := by
  simp only [UInt8.toNat_ofNat']
  omega

theorem iter_cons (x : Bytes) (rest : List UInt8) (h : x.size ≤ 65535) :
    iter (encodeOne x ++ rest) = x :: iter rest := by
  unfold encodeOne lenPrefix
  simp only [List.cons_append, List.nil_append]
  rw [iter]
  rw [lenPrefix_toNat x.size h]
  simp

theorem iter_nil : iter [] = [] := by rw [iter]; intro _ _ _ h; cases h

/-- encode / iterate round trip: members come back in order, octet for octet -/
theorem iter_encode (xs : List Bytes) (h : ∀ x ∈ xs, x.size ≤ 65535) : iter (encode xs) = xs := by
  induction xs with
  | nil => simp [encode, iter_nil]
  | cons x xs ih =>
    have : encode (x :: xs) = encodeOne x ++ encode xs := by simp [encode]
    rw [this, iter_cons x _ (h x (by simp)), ih (fun y hy => h y (by simp [hy]))]

theorem encode_append (xs ys : List Bytes) : encode (xs ++ ys) = encode xs ++ encode ys := by
  simp [encode]

end QV.RdataSet

namespace QV.RdataSet
open QV QV.Rdata QV.Spec

/-! ### de-duplication: the left-to-right insertion loop = first of each class -/

/-- the loop of `from_iter` on abstract members: `kept` grows by those not equal to a kept one
    (`E new existing`, the argument order of `rdata.equals(existing_rdata, …)`) -/
def dedupFold {α} (E : α → α → Bool) : List α → List α → List α
  | kept, [] => kept
  | kept, x :: xs => dedupFold E (if kept.any (fun y => E x y) then kept else kept ++ [x]) xs

theorem dedupFold_eq {α} (E : α → α → Bool)
    (hsymm : ∀ x y, E x y = E y x) (htrans : ∀ x y z, E x y = true → E y z = true → E x z = true) :
    ∀ (xs kept : List α),
      dedupFold E kept xs = kept ++ (firstOfEachClass E xs).filter (fun x => !kept.any (fun y => E y x)) := by
  intro xs
  induction xs with
  | nil => intro kept; simp [dedupFold, firstOfEachClass]
  | cons x xs ih =>
    intro kept
    simp only [dedupFold, firstOfEachClass]
    by_cases hk : kept.any (fun y => E x y) = true
    · simp only [hk, if_true]
      rw [ih kept]
      congr 1
      have hx : (!kept.any (fun y => E y x)) = false := by
        simp only [Bool.not_eq_false']
        rw [List.any_eq_true] at hk ⊢
        obtain ⟨y, hy, he⟩ := hk
        exact ⟨y, hy, by rw [hsymm]; exact he⟩
      rw [List.filter_cons, hx]
      simp only [Bool.false_eq_true, if_false, List.filter_filter]
      apply List.filter_congr
      intro z _
      -- if z is not equivalent to any kept member, it is not equivalent to x either
      cases hz : (!kept.any (fun y => E y z)) with
      | false => simp
      | true =>
        simp only [Bool.true_and]
        rw [List.any_eq_true] at hk
        obtain ⟨y, hy, he⟩ := hk
        cases hxz : E x z with
        | false => rfl
        | true =>
          exfalso
          have : E y z = true := htrans y x z (by rw [hsymm]; exact he) hxz
          have : kept.any (fun y => E y z) = true := List.any_eq_true.mpr ⟨y, hy, this⟩
          simp [this] at hz
    · simp only [hk, if_false, Bool.false_eq_true]
      rw [ih (kept ++ [x])]
      have hx : (!kept.any (fun y => E y x)) = true := by
        simp only [Bool.not_eq_true']
        cases h : kept.any (fun y => E y x) with
        | false => rfl
        | true =>
          exfalso; apply hk
          rw [List.any_eq_true] at h ⊢
          obtain ⟨y, hy, he⟩ := h
          exact ⟨y, hy, by rw [hsymm]; exact he⟩
      rw [List.filter_cons, hx]
      simp only [if_true, List.append_assoc, List.singleton_append, List.filter_filter]
      congr 2
      apply List.filter_congr
      intro z _
      simp [List.any_append, Bool.and_comm]

end QV.RdataSet

namespace QV.RdataSet
open QV QV.Rdata QV.Spec

theorem anyEquals_eq (c t : Nat) (E : Bytes → Bytes → Bool) (hE : ∀ x y, equals c t x y = .ok (E x y))
    (r : Bytes) : ∀ ys : List Bytes, anyEquals c t r ys = .ok (ys.any (fun y => E r y)) := by
  intro ys
  induction ys with
  | nil => rfl
  | cons y ys ih =>
    simp only [anyEquals, hE, Out.bind_ok, List.any_cons]
    cases E r y <;> simp [ih]

theorem insertAll_eq (c t : Nat) (E : Bytes → Bytes → Bool) (hE : ∀ x y, equals c t x y = .ok (E x y)) :
    ∀ (xs kept : List Bytes), (∀ x ∈ kept, x.size ≤ 65535) → (∀ x ∈ xs, x.size ≤ 65535) →
      insertAll c t (encode kept) xs = .ok (encode (dedupFold E kept xs)) := by
  intro xs
  induction xs with
  | nil => intro kept _ _; rfl
  | cons x xs ih =>
    intro kept hk hxs
    have hxs' : ∀ y ∈ xs, y.size ≤ 65535 := fun y hy => hxs y (by simp [hy])
    simp only [insertAll, insert, iter_encode kept hk, anyEquals_eq c t E hE, Out.bind_ok, dedupFold]
    by_cases h : kept.any (fun y => E x y) = true
    · simp only [h, if_true, Out.bind_ok]
      exact ih kept hk hxs'
    · simp only [h, if_false, Bool.false_eq_true, Out.bind_ok]
      have e : encode kept ++ encodeOne x = encode (kept ++ [x]) := by simp [encode]
      rw [e]
      apply ih _ _ hxs'
      intro y hy
      simp only [List.mem_append, List.mem_singleton] at hy
      rcases hy with hy | hy
      · exact hk y hy
      · subst hy; exact hxs y (by simp)

end QV.RdataSet

namespace QV.RdataSet
open QV QV.Rdata QV.Spec

/-! ### what `firstOfEachClass` is (sanity of the specification) -/

theorem foec_sublist {α} (E : α → α → Bool) (xs : List α) : (firstOfEachClass E xs).Sublist xs := by
  induction xs with
  | nil => exact List.Sublist.slnil
  | cons x xs ih => exact List.Sublist.cons₂ x ((List.filter_sublist).trans ih)

theorem foec_pairwise {α} (E : α → α → Bool) (xs : List α) :
    (firstOfEachClass E xs).Pairwise (fun a b => E a b = false) := by
  induction xs with
  | nil => exact List.Pairwise.nil
  | cons x xs ih =>
    simp only [firstOfEachClass]
    apply List.Pairwise.cons
    · intro y hy
      simp only [List.mem_filter, Bool.not_eq_true'] at hy
      exact hy.2
    · exact ih.filter _

theorem foec_first {α} (E : α → α → Bool) (hrefl : ∀ x, E x x = true)
    (htrans : ∀ x y z, E x y = true → E y z = true → E x z = true) :
    ∀ (xs : List α) (x : α), x ∈ xs → ∃ y, xs.find? (fun y => E y x) = some y ∧ y ∈ firstOfEachClass E xs := by
  intro xs
  induction xs with
  | nil => intro x hx; cases hx
  | cons h tl ih =>
    intro x hx
    simp only [List.find?_cons, firstOfEachClass]
    cases hhx : E h x with
    | true => exact ⟨h, rfl, by simp⟩
    | false =>
      have hxt : x ∈ tl := by
        rcases List.mem_cons.mp hx with e | e
        · subst e; rw [hrefl] at hhx; cases hhx
        · exact e
      obtain ⟨y, hy, hmem⟩ := ih x hxt
      refine ⟨y, hy, ?_⟩
      have hyx : E y x = true := by simpa using List.find?_some hy
      have : E h y = false := by
        cases hhy : E h y with
        | false => rfl
        | true => rw [htrans h y x hhy hyx] at hhx; cases hhx
      simp [hmem, this]

end QV.RdataSet
