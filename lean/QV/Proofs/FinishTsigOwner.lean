/-
  QV.Proofs.FinishTsigOwner — the owner of the TSIG record `finish` appends, compressed or not,
  decodes (with the independent RFC 1035 decoder, on the finished message) to the key name.
-/
import QV.Proofs.WriterDecodes
import QV.Proofs.FinishTsig

namespace QV.Writer
open QV QV.Wire QV.Spec QV.ServerSafety

theorem finishPrefix_length (s : State) (h12 : 12 ≤ s.cursor) (hc : s.cursor ≤ s.octets.size) :
    (finishPrefix s).length = s.cursor := by
  unfold finishPrefix
  have hl8 : (u16be s.qdcount ++ u16be s.ancount ++ u16be s.nscount ++ u16be s.arcount).length = 8 := rfl
  simp only [List.length_append, hl8, List.length_take, Array.length_toList, Array.size_extract]
  omega

/-- **the TSIG record's owner decodes to the key name.** If a TSIG is set and `finish` succeeds from a
    valid state, then at the position where the TSIG record starts — right after the message proper
    and the OPT record — the independent decoder reads, on the finished message, a name with the
    key name's label count that equals the key name up to ASCII case (octet for octet unless the
    compression mode is `Standard`), whatever `write_hinted_name(None, key_name)` made of it
    (literal, labels and a pointer, or a bare pointer); the ten fixed octets of the record follow. -/
theorem finish_tsig_owner_decodes (macFn : Tsig → List UInt8 → List UInt8) (hmac : MacLenOK macFn)
    (s : State) (hI : I s) (ts : Tsig) (hts : s.tsig = some ts)
    (m : Bytes) (mac : Option (List UInt8)) (hf : finish s macFn = .ok (m, mac)) :
    ∃ w k, specDecodeName m (finishPrefix s ++ optEnc s.edns).length = some (w, ts.rr.keyName.len, k) ∧
      (finishPrefix s ++ optEnc s.edns).length + k + 10 ≤ m.size ∧
      w.map lowerU8 = ts.rr.keyName.wire.map lowerU8 ∧ (s.mode ≠ .standard → w = ts.rr.keyName.wire) := by
  unfold finish at hf
  cases hw : finishWithMac macFn s with
  | mk r sF =>
    rw [hw] at hf
    cases r with
    | err e => cases hf
    | panic => cases hf
    | ok p =>
      obtain ⟨len, mc⟩ := p
      simp only [Out.ok.injEq, Prod.mk.injEq] at hf
      obtain ⟨hm, _⟩ := hf
      obtain ⟨_, hlc, hszF⟩ := finishWithMac_len macFn s hI.inv len mc sF hw
      unfold finishWithMac at hw
      simp only [M.bind_apply, M.gets_apply] at hw
      obtain ⟨o, hceq, hIA, hosz⟩ := finishCounts_spec s.qdcount s.ancount s.nscount s.arcount s hI
      rw [hceq] at hw
      simp only [] at hw
      have hres := inv_reserved' hI.inv
      have hav := hI.inv.av_lim; have hls := hI.inv.lim_size
      have h12 := hI.inv.hdr
      have hca := hI.inv.cur_av
      -- the OPT record
      obtain ⟨s1, ho, w1, hroom1, ht1, l1⟩ := finishOpt_spec { s with octets := o } hIA.winv hIA.log
        (tsigReserved s.tsig)
        (by intro e he; show s.available + Gen.OPT_RECORD_SIZE + _ ≤ o.size
            have he' : s.edns = some e := he
            rw [he'] at hres; simp at hres; rw [hosz]; omega)
        (by show s.available + _ ≤ o.size; rw [hosz]; omega)
      have ho' : finishOpt s.edns { s with octets := o } = (.ok (), s1) := ho
      rw [ho'] at hw
      simp only [] at hw
      obtain ⟨a1, z1, _⟩ := appB_finishOpt_any s.edns _ s1 ho'
      have hc1 : s1.cursor = s.cursor + (optEnc s.edns).length := a1.cur
      -- the TSIG record
      rcases finishTsig_inv hw with ⟨hn, _, _⟩ | ⟨ts', rdata, hts', hlen, hadd⟩
      · rw [hts] at hn; cases hn
      · rw [hts] at hts'
        cases hts'
        have ht1' : s1.tsig = some ts := by rw [ht1]; exact hts
        obtain ⟨_, hkey, _, _, _⟩ := hI.tsig ts hts
        rw [hts] at hroom1
        simp only [tsigReserved] at hroom1
        have w1' : WInv { s1 with tsig := none, available := s1.available + ts.reservedLen } := by
          have := winv_raise w1 ts.reservedLen hroom1 none
          exact this
        have hcF : sF.cursor ≤ sF.octets.size := by omega
        have hmget : ∀ i, i < sF.cursor → m[i]? = sF.octets[i]? := by
          intro i hi
          rw [← hm, hlc]
          exact extract_prefix_get _ _ hcF _ hi
        obtain ⟨w, k, hd, hk10, hcase, hexact⟩ := addRr_owner_decodes .none ts.rr.keyName T_TSIG QC_ANY (ttlFrom 0)
          rdata _ sF w1' hkey trivial hadd m hmget
        have hpos : (finishPrefix s ++ optEnc s.edns).length = s1.cursor := by
          rw [List.length_append, finishPrefix_length s h12 (by omega), hc1]
        have hmsz : m.size = sF.cursor := by rw [← hm, hlc]; exact extract_size _ _ hcF
        have hmode : s1.mode = s.mode := a1.mode
        refine ⟨w, k, by rw [hpos]; exact hd, by rw [hpos, hmsz]; exact hk10, hcase, ?_⟩
        intro hne
        exact hexact (by show s1.mode ≠ _; rw [hmode]; exact hne)

end QV.Writer
