/-
  QV.Proofs.WriterSegment — the clauses of the final check `QV.Spec.Message.checkSegment` in the
  specification's own (Bool) vocabulary: `nameEq` / `fieldsEq` / `recordEq` / `recsEq` / `listEq` hold
  between what was given (with the mode of every item) and what the decoder reads.
-/
import QV.Proofs.WriterWalk
import QV.Proofs.WriterAudit

namespace QV.Writer
open QV QV.Wire QV.Spec QV.ServerSafety

theorem nameEq_of (m : CMode) (given decoded : List UInt8) (h1 : decoded.map lowerU8 = given.map lowerU8)
    (h2 : m ≠ .standard → decoded = given) : Message.nameEq (Driver.toSpecMode m) given decoded = true := by
  unfold Message.nameEq Message.lowerName
  cases m with
  | standard => simp [Driver.toSpecMode, h1]
  | casePreserving => simp [Driver.toSpecMode, h2 (by decide)]
  | disabled => simp [Driver.toSpecMode, h2 (by decide)]

theorem fieldsEq_of (m : CMode) : ∀ {gf df : List Message.Field}, All2 (FieldMatch (m ≠ .standard)) gf df →
    Message.fieldsEq (Driver.toSpecMode m) gf df = true := by
  intro gf df h
  induction h with
  | nil => rfl
  | cons hh _ ih =>
    cases hh with
    | name h1 h2 =>
      simp only [Message.fieldsEq, Message.fieldEq, Bool.and_eq_true]
      exact ⟨nameEq_of m _ _ h1.symm (fun hm => (h2 hm).symm), ih⟩
    | bytes x =>
      simp only [Message.fieldsEq, Message.fieldEq, Bool.and_eq_true]
      exact ⟨by simp, ih⟩

/-- the record comparison of the specification holds between a typed record given and its decoding -/
theorem recordEq_of (m : CMode) (r : RRec) (dr : Message.Record) (h : RecordIs (m ≠ .standard) r dr)
    (h1 : r.ty < 65536) (h2 : r.cls < 65536) (h3 : r.ttl < 4294967296) :
    Message.recordEq (Driver.toSpecMode m) (specR r) dr = true := by
  obtain ⟨g1, g2, g3, g4, g5, gf, g6, g7⟩ := h
  unfold Message.recordEq specR
  simp only [Bool.and_eq_true, g6, Option.getD_some]
  rw [Nat.mod_eq_of_lt h1] at g3
  rw [Nat.mod_eq_of_lt h2] at g4
  rw [Nat.mod_eq_of_lt h3] at g5
  exact ⟨⟨⟨⟨nameEq_of m _ _ g1 g2, by simp [g3]⟩, by simp [g4]⟩, by simp [g5]⟩, fieldsEq_of m g7⟩

/-- a section: `recsEq` with the modes of its items (any modes may follow) -/
theorem recsEq_of : ∀ (ms : List CMode) (rs : List RRec) (drs : List Message.Record) (extra : List Message.Mode),
    All2 (fun (x : CMode × RRec) dr => RecordIs (x.1 ≠ .standard) x.2 dr) (ms.zip rs) drs → ms.length = rs.length →
    (∀ r ∈ rs, r.ty < 65536 ∧ r.cls < 65536 ∧ r.ttl < 4294967296) →
    Message.recsEq (ms.map Driver.toSpecMode ++ extra) (rs.map specR) drs = true := by
  intro ms
  induction ms with
  | nil =>
    intro rs drs extra h hl _
    have : rs = [] := by cases rs with
      | nil => rfl
      | cons _ _ => simp at hl
    subst this
    cases h
    cases extra <;> rfl
  | cons m ms ih =>
    intro rs drs extra h hl hb
    cases rs with
    | nil => simp at hl
    | cons r rs =>
      simp only [List.zip_cons_cons] at h
      cases h with
      | cons hr ht =>
        obtain ⟨b1, b2, b3⟩ := hb r List.mem_cons_self
        simp only [List.map_cons, List.cons_append, Message.recsEq, Bool.and_eq_true]
        exact ⟨recordEq_of m r _ hr b1 b2 b3,
          ih rs _ extra ht (by simpa using hl) (fun x hx => hb x (List.mem_cons_of_mem _ hx))⟩

/-- the questions: `listEq` over the (mode, question) pairs -/
theorem questionsEq_of : ∀ (ms : List CMode) (qs : List QRec) (dqs : List Message.Question),
    All2 (fun (x : CMode × QRec) dq => QuestionIs (x.1 ≠ .standard) x.2 dq) (ms.zip qs) dqs → ms.length = qs.length →
    (∀ q ∈ qs, q.qtype < 65536 ∧ q.qclass < 65536) →
    Message.listEq (fun (p : Message.Mode × Message.Question) (q : Message.Question) =>
        Message.nameEq p.1 p.2.qname q.qname && p.2.qtype == q.qtype && p.2.qclass == q.qclass)
      ((ms.map Driver.toSpecMode).zip (qs.map specQ)) dqs = true := by
  intro ms
  induction ms with
  | nil =>
    intro qs dqs h hl _
    have : qs = [] := by cases qs with
      | nil => rfl
      | cons _ _ => simp at hl
    subst this
    cases h
    rfl
  | cons m ms ih =>
    intro qs dqs h hl hb
    cases qs with
    | nil => simp at hl
    | cons q qs =>
      simp only [List.zip_cons_cons] at h
      cases h with
      | cons hr ht =>
        obtain ⟨b1, b2⟩ := hb q List.mem_cons_self
        obtain ⟨g1, g2, g3, g4⟩ := hr
        rw [Nat.mod_eq_of_lt b1] at g3
        rw [Nat.mod_eq_of_lt b2] at g4
        simp only [List.map_cons, List.zip_cons_cons, Message.listEq, Bool.and_eq_true]
        exact ⟨⟨⟨nameEq_of m _ _ g1 g2, by simp [specQ, g3]⟩, by simp [specQ, g4]⟩,
          ih qs _ ht (by simpa using hl) (fun x hx => hb x (List.mem_cons_of_mem _ hx))⟩


theorem all2_append_inv {α β : Type} {R : α → β → Prop} : ∀ {as as' : List α} {bs : List β},
    All2 R (as ++ as') bs → ∃ bs1 bs2, bs = bs1 ++ bs2 ∧ All2 R as bs1 ∧ All2 R as' bs2 := by
  intro as
  induction as with
  | nil => intro as' bs h; exact ⟨[], bs, rfl, .nil, h⟩
  | cons a as ih =>
    intro as' bs h
    cases h with
    | cons hr ht =>
      obtain ⟨b1, b2, e, h1, h2⟩ := ih ht
      exact ⟨_ :: b1, b2, by rw [e]; rfl, .cons hr h1, h2⟩

theorem zip_append_eq {α β : Type} : ∀ (a1 : List α) (b1 : List β) (a2 : List α) (b2 : List β), a1.length = b1.length →
    (a1 ++ a2).zip (b1 ++ b2) = a1.zip b1 ++ a2.zip b2 := by
  intro a1
  induction a1 with
  | nil => intro b1 a2 b2 h; have : b1 = [] := List.eq_nil_of_length_eq_zero h.symm; subst this; rfl
  | cons x xs ih =>
    intro b1 a2 b2 h
    cases b1 with
    | nil => simp at h
    | cons y ys => simp only [List.cons_append, List.zip_cons_cons, ih ys a2 b2 (by simpa using h)]

theorem take_len_append {α : Type} (A B : List α) (n : Nat) (h : n = A.length) : (A ++ B).take n = A := by
  subst h; simp

theorem drop_len_append {α : Type} (A B : List α) (n : Nat) (h : n = A.length) : (A ++ B).drop n = B := by
  subst h; simp

theorem drop_len2_append {α : Type} (A B C : List α) (n : Nat) (h : n = A.length + B.length) :
    (A ++ (B ++ C)).drop n = C := by
  rw [← List.append_assoc]; exact drop_len_append _ _ _ (by simp [h])

/-- the OPT record the specification expects is the one `finish` appends -/
theorem expected_opt (e : Option Edns) (hb : ∀ x, e = some x → x.payload < 65536 ∧ x.upper < 256) :
    (match e.map (fun x => (x.payload, x.upper)) with
      | some (p, u) => [(⟨[0], 41, p, u * 16777216, []⟩ : Message.Record)]
      | none => []) = (optRecs' e).map specR := by
  cases e with
  | none => rfl
  | some x =>
    obtain ⟨_, h2⟩ := hb x rfl
    have h41 : T_OPT = 41 := by decide +kernel
    simp only [Option.map_some, optRecs', List.map_cons, List.map_nil, specR, h41]
    have hg : ∀ c, Message.givenRdata 41 c [] = some [] := by
      intro c; simp [Message.givenRdata, Message.layoutOf, Message.givenFields, Message.normFields]
    rw [hg, Nat.mod_eq_of_lt (by omega)]
    rfl

/-- **the content clauses of `checkSegment`**: with the abstract state the walk arrives at, the
    question comparison (`listEq`) and the three section comparisons (`recsEq`, per-item modes, OPT
    record included) of the specification hold for the decoded finished message; a TSIG record, if
    configured, follows as the last additional record and is the record given -/
theorem segment_content {P : CMode → Prop} (macFn : Tsig → List UInt8 → List UInt8) (sR : State) (B : Body)
    (MB : MBody) (aF : Message.AState) (hIR : I sR) (hLR : CLay P sR B MB) (hT : B.Typed)
    (hC : AbsContent aF B MB) (hG : AbsCfg sR aF) (hmode : aF.mode = Driver.toSpecMode sR.mode)
    (m : Bytes) (mac : Option (List UInt8)) (hf : finish sR macFn = .ok (m, mac)) (hsz : m.size ≤ 65535) :
    ∃ d : Message.Decoded, Message.specDecodeMsg m = some d ∧
      let modes := aF.itemModes.reverse
      let qs := aF.questions.reverse
      let nq := qs.length
      let ex := Message.expectedRecords aF
      let rmodes := modes.drop nq
      d.msg.questions.length = nq ∧
      Message.listEq (fun (p : Message.Mode × Message.Question) (q : Message.Question) =>
          Message.nameEq p.1 p.2.qname q.qname && p.2.qtype == q.qtype && p.2.qclass == q.qclass)
        ((modes.take nq).zip qs) d.msg.questions = true ∧
      Message.recsEq rmodes ex.1 d.msg.answers = true ∧
      Message.recsEq (rmodes.drop ex.1.length) ex.2.1 d.msg.authorities = true ∧
      ∃ ds tl, d.msg.additionals = ds ++ tl ∧
        Message.recsEq (rmodes.drop (ex.1.length + ex.2.1.length) ++ [aF.mode, aF.mode]) ex.2.2 ds = true ∧
        All2 (RecordIs (sR.mode ≠ .standard)) (tsigRecs sR.tsig mac) tl := by
  have hst : ∀ r ∈ B.an ++ B.ns ++ B.ar, LayoutStable r := by
    intro r hx
    have hr : r.Typed := by
      rcases List.mem_append.mp hx with h1 | h1
      · rcases List.mem_append.mp h1 with h2 | h2
        · exact hT.an r h2
        · exact hT.ns r h2
      · exact hT.ar r h1
    exact layoutStable_of_lt hr.2.1 hr.2.2.1
  obtain ⟨d, qs, ian, ins, iar, hd, _, hq, han, hns, har, mq, ma, mn, mr, _, _, hqM, haM, hnM, hrM, _⟩ :=
    finish_refines macFn sR B MB hIR hLR hst m mac hf hsz
  refine ⟨d, hd, ?_⟩
  have lq : MB.qs.length = B.qs.length := by rw [← hqM, ← hq]; simp
  have la : MB.an.length = B.an.length := by rw [← haM, ← han]; simp
  have ln : MB.ns.length = B.ns.length := by rw [← hnM, ← hns]; simp
  have hmodes := hC.modes
  have hqs := hC.qs
  have bT : ∀ l : List RRec, (∀ r ∈ l, r.Typed) → ∀ r ∈ l, r.ty < 65536 ∧ r.cls < 65536 ∧ r.ttl < 4294967296 :=
    fun l h r hr => ⟨(h r hr).2.1, (h r hr).2.2.1, (h r hr).2.2.2.1⟩
  have hM : List.map Driver.toSpecMode (MB.qs ++ MB.an ++ MB.ns ++ MB.ar) =
      MB.qs.map Driver.toSpecMode ++ (MB.an.map Driver.toSpecMode ++ (MB.ns.map Driver.toSpecMode ++
        MB.ar.map Driver.toSpecMode)) := by simp
  have e1 : (Message.expectedRecords aF).1.length = (MB.an.map Driver.toSpecMode).length := by
    show aF.an.reverse.length = _; rw [hC.an, List.length_map, List.length_map, la]
  have e2 : (Message.expectedRecords aF).2.1.length = (MB.ns.map Driver.toSpecMode).length := by
    show aF.ns.reverse.length = _; rw [hC.ns, List.length_map, List.length_map, ln]
  simp only []
  rw [hmodes, hqs, hM]
  simp only [List.length_map]
  rw [drop_len_append _ _ _ (by rw [List.length_map, lq]), take_len_append _ _ _ (by rw [List.length_map, lq])]
  refine ⟨?_, ?_, ?_, ?_, ?_⟩
  · rw [← mq.length, ← hq]; simp
  · have h1 := questions_of_items_modes mq
    rw [hqM, hq] at h1
    exact questionsEq_of MB.qs B.qs _ h1 lq (fun q hq' => ⟨(hT.qs q hq').2.1, (hT.qs q hq').2.2⟩)
  · have h1 := records_of_items_modes ma
    rw [haM, han] at h1
    show Message.recsEq _ aF.an.reverse _ = true
    rw [hC.an]
    exact recsEq_of MB.an B.an _ _ h1 la (bT _ hT.an)
  · have h1 := records_of_items_modes mn
    rw [hnM, hns] at h1
    show Message.recsEq _ aF.ns.reverse _ = true
    rw [hC.ns]
    rw [drop_len_append _ _ _ e1]
    exact recsEq_of MB.ns B.ns _ _ h1 ln (bT _ hT.ns)
  · -- the additional section
    rw [List.append_assoc] at har hrM
    obtain ⟨ds, tl, hsplit, m1, m2⟩ := all2_append_inv (as := iar.take (B.ar ++ optRecs' sR.edns).length)
      (as' := iar.drop (B.ar ++ optRecs' sR.edns).length) (by rw [List.take_append_drop]; exact mr)
    obtain ⟨r1, r2⟩ := map_take_eq (·.r) iar (B.ar ++ optRecs' sR.edns) (tsigRecs sR.tsig mac)
      (by rw [har, List.append_assoc])
    obtain ⟨q1, q2⟩ := map_take_eq (·.m) iar (MB.ar ++ (optRecs' sR.edns).map (fun _ => sR.mode))
      ((tsigRecs sR.tsig mac).map (fun _ => sR.mode)) (by rw [hrM, List.append_assoc])
    have lar : MB.ar.length = B.ar.length := hLR.ml.2.2
    have hl1 : (MB.ar ++ (optRecs' sR.edns).map (fun _ => sR.mode)).length = (B.ar ++ optRecs' sR.edns).length := by
      simp [lar]
    rw [hl1] at q1 q2
    refine ⟨ds, tl, hsplit, ?_, ?_⟩
    · have h1 := records_of_items_modes m1
      rw [q1, r1] at h1
      -- the expected records
      have hexp : (Message.expectedRecords aF).2.2 = (B.ar ++ optRecs' sR.edns).map specR := by
        show aF.ar.reverse ++ _ = _
        rw [hC.ar, List.map_append, hG.edns]
        congr 1
        exact expected_opt sR.edns hG.eb
      rw [hexp]
      rw [drop_len2_append _ _ _ _ (by rw [e1, e2]), hmode]
      have hb : ∀ r ∈ B.ar ++ optRecs' sR.edns, r.ty < 65536 ∧ r.cls < 65536 ∧ r.ttl < 4294967296 := by
        intro r hr
        rcases List.mem_append.mp hr with h | h
        · exact bT _ hT.ar r h
        · cases he : sR.edns with
          | none => rw [he] at h; cases h
          | some e =>
            rw [he] at h
            simp only [optRecs', List.mem_singleton] at h
            subst h
            have h41 : T_OPT = 41 := by decide +kernel
            exact ⟨by show T_OPT < 65536; rw [h41]; omega, (hG.eb e he).1, Nat.mod_lt _ (by omega)⟩
      -- the modes: those of the items, then the mode at `finish` for the pseudo-records
      cases he : sR.edns with
      | none =>
        rw [he] at h1 hb
        simp only [optRecs', List.map_nil, List.append_nil] at h1 hb ⊢
        exact recsEq_of MB.ar B.ar _ _ h1 lar hb
      | some e =>
        rw [he] at h1 hb
        have := recsEq_of (MB.ar ++ [sR.mode]) (B.ar ++ optRecs' (some e)) ds [Driver.toSpecMode sR.mode]
          (by simpa [optRecs'] using h1) (by simp [optRecs', lar]) hb
        simpa [List.map_append, List.append_assoc] using this
    · have h2 := all2_map_left (R := RecordIs (sR.mode ≠ .standard)) (·.r) m2 (fun it hit dr hm => by
        have hmm : it.m = sR.mode := by
          have : it.m ∈ (iar.drop (B.ar ++ optRecs' sR.edns).length).map (·.m) := List.mem_map_of_mem hit
          rw [q2] at this
          obtain ⟨_, _, h⟩ := List.mem_map.mp this
          exact h.symm
        rw [← hmm]; exact hm)
      rw [r2] at h2
      exact h2


/-- the walk and the content clauses together, from a fresh writer (sessions without `clear_rrs`) -/
theorem segment_from_new (macFn : Tsig → List UInt8 → List UInt8) (hmac : MacLenOK macFn)
    (buf : Bytes) (limit : Nat) (s0 : State) (hnew : Writer.new buf limit = .ok s0) (hlim : limit ≤ 65535)
    (mode : CMode) (ops : List Op) (ht : ∀ op ∈ ops, op.Typed) (hb : ∀ op ∈ ops, ApiBounds op)
    (hr : Respects { w := { s0 with mode := mode } } ops) (hv : ∀ v, Op.setLimit v ∈ ops → v ≤ 65535)
    (hno : ∀ op ∈ ops, op ≠ .clearRrs ∧ NonEmptySet op) (mac' : Option (List UInt8)) :
    ∃ m mac d aF, finish (run { w := { s0 with mode := mode } } ops).1.w macFn = .ok (m, mac) ∧
      Message.specDecodeMsg m = some d ∧
      Message.walk false
          { mode := Driver.toSpecMode mode, buflen := buf.size, limit := min limit buf.size }
          (ops.map Driver.toSpecOp)
          (obs { w := { s0 with mode := mode } } ops ++ ["ok"]) [m] (some d) mac' =
        Message.checkSegment false aF d m.size mac' ∧
      aF.hdr = d.msg.header ∧ aF.hdr.z = 0 ∧ m.size ≤ aF.limit ∧
      AbsCfg (run { w := { s0 with mode := mode } } ops).1.w aF ∧
      aF.mode = Driver.toSpecMode (run { w := { s0 with mode := mode } } ops).1.w.mode ∧
      Message.auditPointers d aF.itemModes.reverse aF.mode = .ok () ∧
      (let modes := aF.itemModes.reverse
       let qs := aF.questions.reverse
       let nq := qs.length
       let ex := Message.expectedRecords aF
       let rmodes := modes.drop nq
       d.msg.questions.length = nq ∧
       Message.listEq (fun (p : Message.Mode × Message.Question) (q : Message.Question) =>
           Message.nameEq p.1 p.2.qname q.qname && p.2.qtype == q.qtype && p.2.qclass == q.qclass)
         ((modes.take nq).zip qs) d.msg.questions = true ∧
       Message.recsEq rmodes ex.1 d.msg.answers = true ∧
       Message.recsEq (rmodes.drop ex.1.length) ex.2.1 d.msg.authorities = true ∧
       ∃ ds tl, d.msg.additionals = ds ++ tl ∧
         Message.recsEq (rmodes.drop (ex.1.length + ex.2.1.length) ++ [aF.mode, aF.mode]) ex.2.2 ds = true ∧
         All2 (RecordIs ((run { w := { s0 with mode := mode } } ops).1.w.mode ≠ .standard))
           (tsigRecs (run { w := { s0 with mode := mode } } ops).1.w.tsig mac) tl) := by
  obtain ⟨m, mac, d, aF, hf, hd, hAF, hh, hz, hC, hG, hw⟩ :=
    walk_from_new macFn hmac buf limit s0 hnew hlim mode ops ht hb hr hv hno mac'
  have hI0 : I { s0 with mode := mode } := (safe_setMode mode s0 (new_i buf limit s0 hnew)).2
  have hL0 : CLay (fun _ => True) { s0 with mode := mode } {} {} := clay_new buf limit s0 hnew mode trivial
  have hIR := (run_I { w := { s0 with mode := mode } } ops hI0 hr).2
  have hLR := clay_run { w := { s0 with mode := mode } } ops {} {} hI0 hL0 hr (fun _ _ => trivial)
  have hT := typed_run ops { w := { s0 with mode := mode } } {}
    ⟨(fun _ h => by cases h), (fun _ h => by cases h), (fun _ h => by cases h), (fun _ h => by cases h)⟩ ht
  have hsz := session_size_le macFn buf limit s0 hnew hlim mode ops hr hv m mac hf
  have hlimit : m.size ≤ aF.limit := by
    rw [hAF.lim]; exact finish_size_le_limit macFn _ hIR.inv m mac hf
  obtain ⟨d', hd', hcl⟩ := segment_content macFn _ _ _ aF hIR hLR hT hC hG hAF.mode m mac hf hsz
  rw [hd] at hd'
  cases hd'
  have hst : ∀ r ∈ (bodyRun {} ops (run { w := { s0 with mode := mode } } ops).2).an ++
      (bodyRun {} ops (run { w := { s0 with mode := mode } } ops).2).ns ++
      (bodyRun {} ops (run { w := { s0 with mode := mode } } ops).2).ar, LayoutStable r := by
    intro r hx
    have hr : r.Typed := by
      rcases List.mem_append.mp hx with h1 | h1
      · rcases List.mem_append.mp h1 with h2 | h2
        · exact hT.an r h2
        · exact hT.ns r h2
      · exact hT.ar r h1
    exact layoutStable_of_lt hr.2.1 hr.2.2.1
  obtain ⟨d2, hd2, haud⟩ := segment_audit macFn _ _ _ aF hIR hLR hst hC.modes hAF.mode m mac hf hsz
  rw [hd] at hd2
  cases hd2
  exact ⟨m, mac, d, aF, hf, hd, hw, hh, hz, hlimit, hG, hAF.mode, haud, hcl⟩


/-! ### the TSIG record -/

theorem algWire_eq (a : Alg) : Message.algWireName (Driver.algNum a) = (algName a).wire := by
  cases a <;> decide +kernel

theorem toATsig_algName (ts : Tsig) : (toATsig ts).algName = (tsigAlgName ts.mode).wire := by
  unfold toATsig tsigAlgName
  cases ts.mode <;> simp only [algWire_eq]

/-- **the TSIG check of the specification** (`tsigRecordOk`): the decoded TSIG record is the key name,
    type 250, class ANY, TTL 0, and RDATA = what RFC 8945 §4.2 puts before the MAC, the MAC `finish`
    returned, what comes after — provided the MAC has the size the specification expects -/
theorem tsigRecordOk_of (m : CMode) (ts : Tsig) (mac : Option (List UInt8)) (dr : Message.Record)
    (hwf : ts.rr.keyName.WF)
    (h : RecordIs (m ≠ .standard)
      ⟨ts.rr.keyName, T_TSIG, QC_ANY, ttlFrom 0, tsigRdata ts.rr (tsigAlgName ts.mode) (mac.getD [])⟩ dr)
    (hlen : (mac.getD []).length = (toATsig ts).macLen) (mac' : Option (List UInt8))
    (hmac' : mac' = none ∨ mac' = some (mac.getD [])) :
    Message.tsigRecordOk (Driver.toSpecMode m) (toATsig ts) mac' dr = true := by
  obtain ⟨g1, g2, g3, g4, g5, gf, g6, g7⟩ := h
  have h250 : T_TSIG = 250 := by decide +kernel
  have h255 : QC_ANY = 255 := by decide +kernel
  have hbt : XR_BADTIME = 18 := by decide +kernel
  simp only [h250, h255] at g3 g4 g6
  have hrdne : tsigRdata ts.rr (tsigAlgName ts.mode) (mac.getD []) ≠ [] := by
    unfold tsigRdata
    simp only [WName.wire_eq]
    simp
  -- the RDATA is one octet field
  have hgiven : Message.givenRdata 250 255 (tsigRdata ts.rr (tsigAlgName ts.mode) (mac.getD [])) =
      some [.bytes (tsigRdata ts.rr (tsigAlgName ts.mode) (mac.getD []))] := by
    unfold Message.givenRdata Message.layoutOf
    simp only [Nat.reduceEqDiff, or_self, if_false, false_and, Message.givenFields, Option.map_some]
    cases hrd : tsigRdata ts.rr (tsigAlgName ts.mode) (mac.getD []) with
    | nil => exact absurd hrd hrdne
    | cons x xs => simp [Message.normFields]
  rw [hgiven] at g6
  simp only [Option.some.injEq] at g6
  subst g6
  have hrdata : dr.rdata = [.bytes (tsigRdata ts.rr (tsigAlgName ts.mode) (mac.getD []))] := by
    generalize dr.rdata = rdd at g7
    cases g7 with
    | cons hh tt =>
      cases tt
      cases hh
      rfl
  -- the parts
  have hpre : (Message.tsigRdataAround (toATsig ts) (toATsig ts).macLen).1 =
      (tsigAlgName ts.mode).wire ++ ts.rr.timeSigned ++ u16be ts.rr.fudge ++ u16be (mac.getD []).length := by
    simp only [Message.tsigRdataAround, toATsig_algName, hlen]; rfl
  have hpost : (Message.tsigRdataAround (toATsig ts) (toATsig ts).macLen).2 =
      u16be ts.rr.originalId ++ u16be ts.rr.error ++
        u16be (if ts.rr.error = XR_BADTIME then ts.rr.serverTime else []).length ++
        (if ts.rr.error = XR_BADTIME then ts.rr.serverTime else []) := by
    simp only [Message.tsigRdataAround, hbt]; rfl
  have hsplit : tsigRdata ts.rr (tsigAlgName ts.mode) (mac.getD []) =
      (Message.tsigRdataAround (toATsig ts) (toATsig ts).macLen).1 ++ ((mac.getD []) ++
        (Message.tsigRdataAround (toATsig ts) (toATsig ts).macLen).2) := by
    rw [hpre, hpost]; unfold tsigRdata; simp only [List.append_assoc]
  unfold Message.tsigRecordOk
  generalize hP : (Message.tsigRdataAround (toATsig ts) (toATsig ts).macLen) = pp at hsplit
  obtain ⟨pre, post⟩ := pp
  simp only at hsplit ⊢
  rw [hrdata]
  simp only [Bool.and_eq_true]
  have hkn : (toATsig ts).keyName = ts.rr.keyName.wire := rfl
  refine ⟨⟨⟨⟨?_, by simp [g3]⟩, by simp [g4]⟩, by simp [g5, ttlFrom]⟩, ?_⟩
  · rw [hkn]; exact nameEq_of m _ _ g1 g2
  · rw [hsplit, ← hlen]
    refine ⟨⟨⟨by simp [List.length_append]; omega, by simp⟩, by simp [← List.append_assoc]⟩, ?_⟩
    rcases hmac' with rfl | rfl
    · rfl
    · simp


/-! ### `checkSegment`, evaluated -/

/-- when all clauses hold, what remains of `checkSegment` is the pointer audit -/
theorem checkSegment_eq (s : Message.AState) (d : Message.Decoded) (size : Nat) (mac : Option (List UInt8))
    (an ns ar : List Message.Record) (hex : Message.expectedRecords s = (an, ns, ar))
    (hh : d.msg.header = s.hdr) (hz : s.hdr.z = 0)
    (hq1 : d.msg.questions.length = s.questions.reverse.length)
    (hq2 : Message.listEq (fun (p : Message.Mode × Message.Question) (q : Message.Question) =>
        Message.nameEq p.1 p.2.qname q.qname && p.2.qtype == q.qtype && p.2.qclass == q.qclass)
      ((s.itemModes.reverse.take s.questions.reverse.length).zip s.questions.reverse) d.msg.questions = true)
    (ha : Message.recsEq (s.itemModes.reverse.drop s.questions.reverse.length) an d.msg.answers = true)
    (hn : Message.recsEq ((s.itemModes.reverse.drop s.questions.reverse.length).drop an.length) ns
      d.msg.authorities = true)
    (har : match s.tsig with
      | none => Message.recsEq ((s.itemModes.reverse.drop s.questions.reverse.length).drop (an.length + ns.length) ++
          [s.mode, s.mode]) ar d.msg.additionals = true
      | some t => ∃ ds r, d.msg.additionals = ds ++ [r] ∧
          Message.recsEq ((s.itemModes.reverse.drop s.questions.reverse.length).drop (an.length + ns.length) ++
            [s.mode, s.mode]) ar ds = true ∧ Message.tsigRecordOk s.mode t mac r = true)
    (hsize : size ≤ s.limit) :
    Message.checkSegment false s d size mac = Message.auditPointers d s.itemModes.reverse s.mode := by
  unfold Message.checkSegment
  simp only [Bool.false_eq_true, if_false, hex]
  have hcond : ¬ (d.msg.header.id ≠ s.hdr.id ∨ d.msg.header.qr ≠ s.hdr.qr ∨ d.msg.header.opcode ≠ s.hdr.opcode ∨
      d.msg.header.aa ≠ s.hdr.aa ∨ d.msg.header.tc ≠ s.hdr.tc ∨ d.msg.header.rd ≠ s.hdr.rd ∨
      d.msg.header.ra ≠ s.hdr.ra ∨ d.msg.header.z ≠ 0 ∨ d.msg.header.rcode ≠ s.hdr.rcode) := by
    rw [hh]; simp [hz]
  simp only [List.length_reverse, List.drop_drop] at hq1 hq2 ha hn har
  cases hts : s.tsig with
  | none =>
    rw [hts] at har
    simp only at har
    simp [hcond, hq1, hq2, ha, hn, har, hsize, Nat.not_lt.mpr hsize, bind, Except.bind, pure, Except.pure]
  | some t =>
    rw [hts] at har
    obtain ⟨ds, r, hadd, h1, h2⟩ := har
    simp [hcond, hq1, hq2, ha, hn, hadd, h1, h2, hsize, Nat.not_lt.mpr hsize, bind, Except.bind, pure, Except.pure]


/-- **the walk of `checkSession` over a segment reduces to the pointer audit**: from a fresh writer,
    for sessions without `clear_rrs` and `getters`, with a MAC of the size the specification expects,
    everything `walk` and `checkSegment` check holds — failure justification, abstract state, header,
    question and record comparison by item mode, OPT and TSIG record, size — and what is left is
    `auditPointers` on the decoded message -/
theorem segment_reduces_to_audit (macFn : Tsig → List UInt8 → List UInt8) (hmac : MacLenOK macFn)
    (buf : Bytes) (limit : Nat) (s0 : State) (hnew : Writer.new buf limit = .ok s0) (hlim : limit ≤ 65535)
    (mode : CMode) (ops : List Op) (ht : ∀ op ∈ ops, op.Typed) (hb : ∀ op ∈ ops, ApiBounds op)
    (hr : Respects { w := { s0 with mode := mode } } ops) (hv : ∀ v, Op.setLimit v ∈ ops → v ≤ 65535)
    (hno : ∀ op ∈ ops, op ≠ .clearRrs ∧ NonEmptySet op)
    (hml : ∀ m mac ts, finish (run { w := { s0 with mode := mode } } ops).1.w macFn = .ok (m, mac) →
      (run { w := { s0 with mode := mode } } ops).1.w.tsig = some ts →
      (mac.getD []).length = (toATsig ts).macLen)
    (mac' : Option (List UInt8))
    (hmac' : ∀ m mac, finish (run { w := { s0 with mode := mode } } ops).1.w macFn = .ok (m, mac) →
      mac' = none ∨ mac' = some (mac.getD [])) :
    ∃ (m : Bytes) (mac : Option (List UInt8)) (d : Message.Decoded) (aF : Message.AState),
      finish (run { w := { s0 with mode := mode } } ops).1.w macFn = .ok (m, mac) ∧
      Message.specDecodeMsg m = some d ∧
      Message.walk false
          { mode := Driver.toSpecMode mode, buflen := buf.size, limit := min limit buf.size }
          (ops.map Driver.toSpecOp)
          (obs { w := { s0 with mode := mode } } ops ++ ["ok"]) [m] (some d) mac' =
        Message.auditPointers d aF.itemModes.reverse aF.mode ∧
      Message.auditPointers d aF.itemModes.reverse aF.mode = .ok () := by
  obtain ⟨m, mac, d, aF, hf, hd, hw, hh, hz, hlimit, hG, hmode, haud, hq1, hq2, ha, hn, ds, tl, hadd, har, htl⟩ :=
    segment_from_new macFn hmac buf limit s0 hnew hlim mode ops ht hb hr hv hno mac'
  have hI0 : I { s0 with mode := mode } := (safe_setMode mode s0 (new_i buf limit s0 hnew)).2
  have hIR := (run_I { w := { s0 with mode := mode } } ops hI0 hr).2
  refine ⟨m, mac, d, aF, hf, hd, ?_, haud⟩
  rw [hw]
  refine checkSegment_eq aF d m.size mac' _ _ _ rfl hh.symm hz hq1 hq2 ha hn ?_ hlimit
  generalize (run { w := { s0 with mode := mode } } ops).1.w = sR at hf hG hmode htl hIR hml hmac'
  have hat := hG.tsig
  cases hts : sR.tsig with
  | none =>
    rw [hts] at hat htl
    simp only [Option.map_none] at hat
    rw [hat]
    simp only [tsigRecs] at htl ⊢
    cases htl
    rw [hadd, List.append_nil]
    exact har
  | some ts =>
    rw [hts] at hat htl
    simp only [Option.map_some] at hat
    rw [hat]
    simp only [tsigRecs] at htl ⊢
    cases htl with
    | cons hr1 hnil =>
      cases hnil
      refine ⟨ds, _, hadd, har, ?_⟩
      rw [hmode]
      exact tsigRecordOk_of sR.mode ts mac _ (hIR.tsig ts hts).2.1 hr1 (hml m mac ts hf hts) mac' (hmac' m mac hf)

/-- **the final check of a segment passes**, from any writer state `sR` that the abstract state `aF`
    describes: `checkSegment` on the decoded message `finish` returns is `ok` — header, questions
    and records by item mode, OPT, TSIG (MAC of the algorithm's size; compared with `mac'` if
    given), size and the pointer audit -/
theorem segment_check_ok {P : CMode → Prop} (macFn : Tsig → List UInt8 → List UInt8) (sR : State) (B : Body)
    (MB : MBody) (aF : Message.AState) (hIR : I sR) (hLR : CLay P sR B MB) (hT : B.Typed)
    (hA : AbsNum sR aF) (hh : aF.hdr = specHeader sR.octets) (hz : aF.hdr.z = 0)
    (hC : AbsContent aF B MB) (hG : AbsCfg sR aF)
    (m : Bytes) (mac : Option (List UInt8)) (hf : finish sR macFn = .ok (m, mac)) (hsz : m.size ≤ 65535)
    (hml : ∀ ts, sR.tsig = some ts → (mac.getD []).length = (toATsig ts).macLen)
    (mac' : Option (List UInt8)) (hmac' : mac' = none ∨ mac' = some (mac.getD [])) :
    ∃ d : Message.Decoded, Message.specDecodeMsg m = some d ∧
      Message.checkSegment false aF d m.size mac' = .ok () := by
  have hst : ∀ r ∈ B.an ++ B.ns ++ B.ar, LayoutStable r := by
    intro r hx
    have hr : r.Typed := by
      rcases List.mem_append.mp hx with h1 | h1
      · rcases List.mem_append.mp h1 with h2 | h2
        · exact hT.an r h2
        · exact hT.ns r h2
      · exact hT.ar r h1
    exact layoutStable_of_lt hr.2.1 hr.2.2.1
  obtain ⟨d, hd, hq1, hq2, ha, hn, ds, tl, hadd, har, htl⟩ :=
    segment_content macFn sR B MB aF hIR hLR hT hC hG hA.mode m mac hf hsz
  obtain ⟨d2, hd2, haud⟩ := segment_audit macFn sR B MB aF hIR hLR hst hC.modes hA.mode m mac hf hsz
  rw [hd] at hd2
  cases hd2
  obtain ⟨d3, _, _, _, _, hd3, hh3, _⟩ := finish_refines macFn sR B MB hIR hLR hst m mac hf hsz
  rw [hd] at hd3
  cases hd3
  have hlimit : m.size ≤ aF.limit := by
    rw [hA.lim]; exact finish_size_le_limit macFn _ hIR.inv m mac hf
  refine ⟨d, hd, ?_⟩
  rw [← haud]
  refine checkSegment_eq aF d m.size mac' _ _ _ rfl (by rw [hh3, hh]) hz hq1 hq2 ha hn ?_ hlimit
  have hat := hG.tsig
  cases hts : sR.tsig with
  | none =>
    rw [hts] at hat htl
    simp only [Option.map_none] at hat
    rw [hat]
    simp only [tsigRecs] at htl ⊢
    cases htl
    rw [hadd, List.append_nil]
    exact har
  | some ts =>
    rw [hts] at hat htl
    simp only [Option.map_some] at hat
    rw [hat]
    simp only [tsigRecs] at htl ⊢
    cases htl with
    | cons hr1 hnil =>
      cases hnil
      refine ⟨ds, _, hadd, har, ?_⟩
      rw [hA.mode]
      exact tsigRecordOk_of sR.mode ts mac _ (hIR.tsig ts hts).2.1 hr1 (hml ts hts) mac' hmac'

end QV.Writer
