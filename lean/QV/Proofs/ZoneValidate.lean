/-
  QV.Proofs.ZoneValidate — `validate` (model of src/db/zone/validation.rs) reports, as a set,
  exactly the issues of the reference checker `HasIssue` over the flat record list.
-/
import QV.Proofs.ZoneIter

set_option linter.unusedSimpArgs false

namespace QV.Zone
open QV QV.NameL QV.Spec.Zone

/-! ### folding optional issue lists -/

theorem foldOpt_none {α : Type} (g : α → Option (List Issue)) (xs : List α) (init : Option (List Issue)) :
    xs.foldl (fun acc p => optAppend acc (g p)) init = none ↔
      init = none ∨ ∃ x ∈ xs, g x = none := by
  induction xs generalizing init with
  | nil => simp
  | cons x xs ih =>
    simp only [List.foldl_cons, ih, List.mem_cons]
    constructor
    · rintro (h | ⟨y, hy, hg⟩)
      · cases init with
        | none => exact Or.inl rfl
        | some a =>
          cases hx : g x with
          | none => exact Or.inr ⟨x, Or.inl rfl, hx⟩
          | some b => simp [hx, optAppend] at h
      · exact Or.inr ⟨y, Or.inr hy, hg⟩
    · rintro (h | ⟨y, hy | hy, hg⟩)
      · subst h; exact Or.inl rfl
      · subst hy; left; rw [hg]; cases init <;> rfl
      · exact Or.inr ⟨y, hy, hg⟩

theorem foldOpt_some {α : Type} (g : α → Option (List Issue)) (xs : List α) (init : Option (List Issue))
    (l : List Issue)
    (h : xs.foldl (fun acc p => optAppend acc (g p)) init = some l) :
    ∃ l0, init = some l0 ∧ ∀ i, i ∈ l ↔ (i ∈ l0 ∨ ∃ x ∈ xs, ∃ lx, g x = some lx ∧ i ∈ lx) := by
  induction xs generalizing init with
  | nil => simp only [List.foldl_nil] at h; exact ⟨l, h, by simp⟩
  | cons x xs ih =>
    simp only [List.foldl_cons] at h
    obtain ⟨l1, h1, h2⟩ := ih _ h
    cases init with
    | none => simp [optAppend] at h1
    | some a =>
      cases hx : g x with
      | none => simp [hx, optAppend] at h1
      | some b =>
        simp only [hx, optAppend, Option.some.injEq] at h1
        subst h1
        refine ⟨a, rfl, ?_⟩
        intro i
        rw [h2]
        simp only [List.mem_append, List.mem_cons]
        constructor
        · rintro ((h | h) | ⟨y, hy, ly, hgy, hi⟩)
          · exact Or.inl h
          · exact Or.inr ⟨x, Or.inl rfl, b, hx, h⟩
          · exact Or.inr ⟨y, Or.inr hy, ly, hgy, hi⟩
        · rintro (h | ⟨y, hy | hy, ly, hgy, hi⟩)
          · exact Or.inl (Or.inl h)
          · subst hy; rw [hx] at hgy; cases hgy; exact Or.inl (Or.inr hi)
          · exact Or.inr ⟨y, hy, ly, hgy, hi⟩

theorem forNames_none (nameOf : NameOf) (f : Name → List Issue) (rds : List Rdata) :
    forNames nameOf f rds = none ↔ ∃ rd ∈ rds, nameOf rd = none := by
  induction rds with
  | nil => simp [forNames]
  | cons rd rest ih =>
    simp only [forNames, List.mem_cons]
    cases hn : nameOf rd with
    | none => simp; exact Or.inl hn
    | some n =>
      simp only [Option.map_eq_none_iff, ih]
      constructor
      · rintro ⟨y, hy, hg⟩; exact ⟨y, Or.inr hy, hg⟩
      · rintro ⟨y, hy | hy, hg⟩
        · subst hy; rw [hn] at hg; cases hg
        · exact ⟨y, hy, hg⟩

theorem forNames_some (nameOf : NameOf) (f : Name → List Issue) (rds : List Rdata) (l : List Issue)
    (h : forNames nameOf f rds = some l) :
    ∀ i, i ∈ l ↔ ∃ rd ∈ rds, ∃ n, nameOf rd = some n ∧ i ∈ f n := by
  induction rds generalizing l with
  | nil => simp only [forNames, Option.some.injEq] at h; subst h; simp
  | cons rd rest ih =>
    simp only [forNames] at h
    cases hn : nameOf rd with
    | none => simp [hn] at h
    | some n =>
      simp only [hn] at h
      cases hr : forNames nameOf f rest with
      | none => simp [hr] at h
      | some lr =>
        simp only [hr, Option.map_some, Option.some.injEq] at h
        subst h
        intro i
        simp only [List.mem_append, ih lr hr, List.mem_cons]
        constructor
        · rintro (h | ⟨y, hy, m, hm, hi⟩)
          · exact ⟨rd, Or.inl rfl, n, hn, h⟩
          · exact ⟨y, Or.inr hy, m, hm, hi⟩
        · rintro ⟨y, hy | hy, m, hm, hi⟩
          · subst hy; rw [hn] at hm; cases hm; exact Or.inl hi
          · exact Or.inr ⟨y, hy, m, hm, hi⟩

/-! ### constants -/

theorem classHasAddrs_eq (cls : Nat) : classHasAddrs cls = hasAddrClass cls := by
  unfold classHasAddrs hasAddrClass
  simp only [Gen.addrClasses, IN, CH, List.contains_cons, List.contains_nil, Bool.or_false]

theorem addrsFound_eq (cls : Nat) (a aaaa : Option Rrset) : addrsFound cls a aaaa = addrsPresent cls a aaaa := by
  have : decide (cls = IN) = (cls == IN) := by by_cases h : cls = IN <;> simp [h]
  cases a <;> cases aaaa <;> simp [addrsFound, addrsPresent, CLASS_IN_eq, this]

theorem isError_eq (i : Issue) : i.isError = specIsError i := by
  cases i <;> rfl

/-! ### the individual checks, in terms of the specification's lookups -/

theorem lookupAddrs_checked {z : Zone} {s : SZone} (h : Rel z s) (g : Name) (b : Bool) :
    lookupAddrs z g ⟨false, b⟩ = .ok (specLookupAddrs s g ⟨false, b⟩) :=
  lookupAddrs_eq_spec h g ⟨false, b⟩ (by simp [constrained])

theorem mem_checkApexNs {z : Zone} {s : SZone} (h : Rel z s) (g : Name) (i : Issue) :
    i ∈ checkApexNsAddress z g ↔ i = .MissingNsAddress g ∧ noAddress s g = true := by
  unfold checkApexNsAddress noAddress defaultOpts
  rw [lookupAddrs_checked h]
  cases specLookupAddrs s g ⟨false, false⟩ with
  | found a aaaa sos =>
    simp only [addrsFound_eq, h.cls]
    cases addrsPresent s.cls a aaaa <;> simp
  | referral c ns => simp
  | nxDomain => simp
  | wrongZone => simp

theorem mem_checkMx {z : Zone} {s : SZone} (h : Rel z s) (g : Name) (i : Issue) :
    i ∈ checkMxAddress z g ↔ i = .MissingMxAddress g ∧ noAddress s g = true := by
  unfold checkMxAddress noAddress defaultOpts
  rw [lookupAddrs_checked h]
  cases specLookupAddrs s g ⟨false, false⟩ with
  | found a aaaa sos =>
    simp only [addrsFound_eq, h.cls]
    cases addrsPresent s.cls a aaaa <;> simp
  | referral c ns => simp
  | nxDomain => simp
  | wrongZone => simp

theorem mem_checkGlue {z : Zone} {s : SZone} (h : Rel z s) (g : Name) (i : Issue) :
    i ∈ checkGlue z g ↔ i = .MissingGlue g ∧ glueOk s g = false := by
  unfold checkGlue glueOk
  rw [lookupAddrs_checked h]
  cases specLookupAddrs s g ⟨false, true⟩ with
  | found a aaaa sos =>
    simp only [addrsFound_eq, h.cls]
    cases addrsPresent s.cls a aaaa <;> simp
  | referral c ns => simp
  | nxDomain => simp
  | wrongZone => simp

theorem mem_checkDeleg {z : Zone} {s : SZone} (h : Rel z s) (g child : Name) (i : Issue) :
    i ∈ checkDelegationNsAddress z g child ↔
      (i = .MissingNsAddress g ∧ noAddress s g = true) ∨
      (i = .MissingGlue g ∧ needsGlue s child g = true ∧ glueOk s g = false) := by
  unfold checkDelegationNsAddress noAddress needsGlue defaultOpts
  rw [lookupAddrs_checked h]
  cases specLookupAddrs s g ⟨false, false⟩ with
  | found a aaaa sos =>
    simp only [addrsFound_eq, h.cls]
    cases addrsPresent s.cls a aaaa <;> simp
  | referral c ns =>
    simp only [h.glue]
    cases s.glue with
    | wide => simp [mem_checkGlue h]
    | narrow =>
      by_cases hc : c = child
      · simp [hc, mem_checkGlue h]
      · simp [hc]
  | nxDomain => simp
  | wrongZone => simp

/-! ### RRsets of the flat list, element-wise -/

theorem mem_rrsetsAt (s : SZone) (n : Name) (x : Rrset) : x ∈ rrsetsAt s n ↔ rrset s n x.rtype = some x := by
  constructor
  · intro hx
    rw [← lookup_rrsetsAt]
    exact lookupRrset_of_mem (rrsetsAt_sorted s n) hx
  · intro hx
    rw [← lookup_rrsetsAt] at hx
    exact lookupRrset_mem hx

theorem mem_rdatas {s : SZone} {n : Name} {t : Nat} {x : Rrset} (hx : rrset s n t = some x) (rd : Rdata) :
    rd ∈ x.rdatas ↔ ∃ r ∈ s.recs, r.owner = n ∧ r.rtype = t ∧ r.rdata = rd := by
  rw [rrset_rdatas hx]
  simp only [List.mem_map, List.mem_filter, Bool.and_eq_true, beq_iff_eq]
  constructor
  · rintro ⟨r, ⟨hr, ho, ht⟩, hrd⟩; exact ⟨r, hr, ho, ht, hrd⟩
  · rintro ⟨r, hr, ho, ht, hrd⟩; exact ⟨r, ⟨hr, ho, ht⟩, hrd⟩

theorem rdatas_length {s : SZone} {n : Name} {t : Nat} {x : Rrset} (hx : rrset s n t = some x) :
    x.rdatas.length = (s.recs.filter (fun r => r.owner == n && r.rtype == t)).length := by
  rw [rrset_rdatas hx]; simp

theorem rdatas_pos {s : SZone} {n : Name} {t : Nat} {x : Rrset} (hx : rrset s n t = some x) : 0 < x.rdatas.length := by
  unfold rrset at hx
  split at hx
  · cases hx
  · cases hx; simp

theorem owns_iff_rrset (s : SZone) (n : Name) (t : Nat) : Owns s n t ↔ ∃ x, rrset s n t = some x := by
  constructor
  · intro ho
    cases hx : rrset s n t with
    | none => exact absurd ho ((rrset_eq_none s n t).mp hx)
    | some x => exact ⟨x, rfl⟩
  · rintro ⟨x, hx⟩; exact rrset_some_owns hx

/-- in a strictly sorted RRset list containing `x`: more than one RRset ⇔ another type is present -/
theorem length_ne_one_iff {l : List Rrset} (hs : SortedT l) {x : Rrset} (hx : x ∈ l) :
    l.length ≠ 1 ↔ ∃ y ∈ l, y.rtype ≠ x.rtype := by
  constructor
  · intro hl
    match l, hs, hx, hl with
    | [a], _, _, hl => simp at hl
    | a :: b :: rest, hs, hx, _ =>
      have hab := hs.1 b (by simp)
      by_cases ha : a.rtype = x.rtype
      · exact ⟨b, by simp, by omega⟩
      · exact ⟨a, by simp, ha⟩
  · rintro ⟨y, hy, hne⟩ hl
    match l, hx, hy, hl with
    | [a], hx, hy, _ =>
      simp at hx hy; subst hx; subst hy; exact hne rfl

/-! ### one RRset of one node -/

theorem cname_ne_mx : CNAME ≠ MX := by decide
theorem cname_ne_ns : CNAME ≠ NS := by decide
theorem mx_ne_ns : MX ≠ NS := by decide

theorem atApex_iff {apex n : Name} (h : apex <:+ n) : n.length = apex.length ↔ n = apex :=
  ⟨fun hl => (h.eq_of_length_le (by omega)).symm, fun e => by rw [e]⟩

theorem scanRrset_none {z : Zone} {s : SZone} (h : Rel z s) (nameOf : NameOf) (n : Name) (hn : s.apex <:+ n)
    (k : Nat) (x : Rrset) (hx : rrset s n x.rtype = some x) :
    scanRrset nameOf z n k x = none ↔
      hasAddrClass s.cls = true ∧
        ((x.rtype = MX ∧ ∃ r ∈ s.recs, r.owner = n ∧ r.rtype = MX ∧ mxName nameOf r.rdata = none) ∨
         (x.rtype = NS ∧ n ≠ s.apex ∧ ∃ r ∈ s.recs, r.owner = n ∧ r.rtype = NS ∧ nameOf r.rdata = none)) := by
  unfold scanRrset
  rw [T_CNAME_eq, T_MX_eq, T_NS_eq, classHasAddrs_eq, h.cls, h.apex]
  by_cases h1 : x.rtype = CNAME
  · have : x.rtype ≠ MX := by rw [h1]; exact cname_ne_mx
    have : x.rtype ≠ NS := by rw [h1]; exact cname_ne_ns
    simp [h1, cname_ne_mx, cname_ne_ns]
  · simp only [h1, if_false]
    by_cases h2 : x.rtype = MX
    · simp only [h2, if_true, mx_ne_ns, false_and, or_false, true_and]
      cases hac : hasAddrClass s.cls with
      | false => simp
      | true =>
        simp only [if_true, true_and]
        rw [forNames_none]
        rw [h2] at hx
        constructor
        · rintro ⟨rd, hrd, hnone⟩
          obtain ⟨r, hr, ho, ht, hrr⟩ := (mem_rdatas hx rd).mp hrd
          exact ⟨r, hr, ho, ht, by rw [hrr]; exact hnone⟩
        · rintro ⟨r, hr, ho, ht, hnone⟩
          exact ⟨r.rdata, (mem_rdatas hx _).mpr ⟨r, hr, ho, ht, rfl⟩, hnone⟩
    · simp only [h2, if_false, false_and, false_or]
      by_cases h3 : x.rtype = NS
      · simp only [h3, if_true, true_and]
        rw [h3] at hx
        by_cases hap : n = s.apex
        · have : (decide (n.length = s.apex.length)) = true := by simp [hap]
          simp [hap]
        · have : (decide (n.length = s.apex.length)) = false := by
            simp only [decide_eq_false_iff_not]; exact fun hl => hap ((atApex_iff hn).mp hl)
          simp only [this, Bool.not_false, Bool.true_and]
          cases hac : hasAddrClass s.cls with
          | false => simp
          | true =>
            simp only [if_true, Option.map_eq_none_iff, forNames_none, true_and, ne_eq, hap, not_false_eq_true]
            constructor
            · rintro ⟨rd, hrd, hnone⟩
              obtain ⟨r, hr, ho, ht, hrr⟩ := (mem_rdatas hx rd).mp hrd
              exact ⟨r, hr, ho, ht, by rw [hrr]; exact hnone⟩
            · rintro ⟨r, hr, ho, ht, hnone⟩
              exact ⟨r.rdata, (mem_rdatas hx _).mpr ⟨r, hr, ho, ht, rfl⟩, hnone⟩
      · simp [h3]

theorem scanRrset_mem {z : Zone} {s : SZone} (h : Rel z s) (nameOf : NameOf) (n : Name) (hn : s.apex <:+ n)
    (k : Nat) (x : Rrset) (hx : rrset s n x.rtype = some x) (l : List Issue)
    (hl : scanRrset nameOf z n k x = some l) (i : Issue) :
    i ∈ l ↔
      (x.rtype = CNAME ∧ ((i = .OtherRecordsAtCname n ∧ k ≠ 1) ∨ (i = .DuplicateCname n ∧ x.rdatas.length ≠ 1))) ∨
      (x.rtype = MX ∧ hasAddrClass s.cls = true ∧ ∃ r ∈ s.recs, r.owner = n ∧ r.rtype = MX ∧
          ∃ g, mxName nameOf r.rdata = some g ∧ i = .MissingMxAddress g ∧ noAddress s g = true) ∨
      (x.rtype = NS ∧ ((i = .NsAtWildcard n ∧ isWildcard n = true) ∨
          (n ≠ s.apex ∧ hasAddrClass s.cls = true ∧ ∃ r ∈ s.recs, r.owner = n ∧ r.rtype = NS ∧
            ∃ g, nameOf r.rdata = some g ∧
              ((i = .MissingNsAddress g ∧ noAddress s g = true) ∨
               (i = .MissingGlue g ∧ needsGlue s n g = true ∧ glueOk s g = false))))) := by
  unfold scanRrset at hl
  rw [T_CNAME_eq, T_MX_eq, T_NS_eq, classHasAddrs_eq, h.cls, h.apex] at hl
  by_cases h1 : x.rtype = CNAME
  · simp only [h1, if_true, Option.some.injEq] at hl
    subst hl
    simp only [h1, cname_ne_mx, cname_ne_ns, false_and, or_false, true_and, List.mem_append]
    constructor
    · rintro (hi | hi)
      · split at hi
        · simp at hi; exact Or.inl ⟨hi, by assumption⟩
        · simp at hi
      · split at hi
        · simp at hi; exact Or.inr ⟨hi, by assumption⟩
        · simp at hi
    · rintro (⟨hi, hk⟩ | ⟨hi, hk⟩)
      · left; simp [hk, hi]
      · right; simp [hk, hi]
  · simp only [h1, if_false, false_and, false_or] at hl ⊢
    by_cases h2 : x.rtype = MX
    · simp only [h2, if_true, mx_ne_ns, false_and, or_false, true_and] at hl ⊢
      rw [h2] at hx
      cases hac : hasAddrClass s.cls with
      | false => simp only [hac, Bool.false_eq_true, if_false, Option.some.injEq] at hl; subst hl; simp
      | true =>
        simp only [hac, if_true] at hl
        rw [forNames_some _ _ _ l hl]
        simp only [true_and]
        constructor
        · rintro ⟨rd, hrd, g, hg, hi⟩
          obtain ⟨r, hr, ho, ht, hrr⟩ := (mem_rdatas hx rd).mp hrd
          have hm := (mem_checkMx h g i).mp hi
          exact ⟨r, hr, ho, ht, g, by rw [hrr]; exact hg, hm.1, hm.2⟩
        · rintro ⟨r, hr, ho, ht, g, hg, hi, hna⟩
          exact ⟨r.rdata, (mem_rdatas hx _).mpr ⟨r, hr, ho, ht, rfl⟩, g, hg, (mem_checkMx h g i).mpr ⟨hi, hna⟩⟩
    · simp only [h2, if_false, false_and, false_or] at hl ⊢
      by_cases h3 : x.rtype = NS
      · simp only [h3, if_true, true_and] at hl ⊢
        rw [h3] at hx
        have hw : ∀ i, i ∈ (if isWildcard n = true then [Issue.NsAtWildcard n] else []) ↔
            (i = .NsAtWildcard n ∧ isWildcard n = true) := by
          intro i; split <;> simp_all
        by_cases hap : n = s.apex
        · have hd : (decide (n.length = s.apex.length)) = true := by simp [hap]
          simp only [hd, Bool.not_true, Bool.false_and, Bool.false_eq_true, if_false, Option.some.injEq] at hl
          subst hl
          rw [hw]
          simp [hap]
        · have hd : (decide (n.length = s.apex.length)) = false := by
            simp only [decide_eq_false_iff_not]; exact fun hl => hap ((atApex_iff hn).mp hl)
          simp only [hd, Bool.not_false, Bool.true_and] at hl
          cases hac : hasAddrClass s.cls with
          | false =>
            simp only [hac, Bool.false_eq_true, if_false, Option.some.injEq] at hl
            subst hl
            rw [hw]; simp
          | true =>
            simp only [hac, if_true, Option.map_eq_some_iff] at hl
            obtain ⟨l', hl', hll⟩ := hl
            subst hll
            simp only [List.mem_append, hw, forNames_some _ _ _ l' hl', ne_eq, hap, not_false_eq_true, true_and]
            constructor
            · rintro (hi | ⟨rd, hrd, g, hg, hi⟩)
              · exact Or.inl hi
              · obtain ⟨r, hr, ho, ht, hrr⟩ := (mem_rdatas hx rd).mp hrd
                exact Or.inr ⟨r, hr, ho, ht, g, by rw [hrr]; exact hg, (mem_checkDeleg h g n i).mp hi⟩
            · rintro (hi | ⟨r, hr, ho, ht, g, hg, hi⟩)
              · exact Or.inl hi
              · exact Or.inr ⟨r.rdata, (mem_rdatas hx _).mpr ⟨r, hr, ho, ht, rfl⟩, g, hg, (mem_checkDeleg h g n i).mpr hi⟩
      · simp only [h3, if_false, Option.some.injEq] at hl
        subst hl
        simp [h3]

/-! ### the whole zone -/

theorem isNode_of_rec {z : Zone} {s : SZone} (h : Rel z s) {r : Rec} (hr : r ∈ s.recs) : IsNode s r.owner := by
  rw [isNode_iff, nameExists_iff]
  exact ⟨h.inZone r hr, Or.inr ⟨r, hr, List.suffix_refl _⟩⟩

theorem isNode_apex (s : SZone) : IsNode s s.apex := Or.inl rfl

theorem isNode_suffix {s : SZone} {n : Name} (h : IsNode s n) : s.apex <:+ n := ((isNode_iff s n).mp h).1

/-- `scan_node` on a node of the zone -/
theorem scanNode_none {z : Zone} {s : SZone} (_h : Rel z s) (nameOf : NameOf) (n : Name) :
    scanNode nameOf z n (rrsetsAt s n) = none ↔
      ∃ x, rrset s n x.rtype = some x ∧ scanRrset nameOf z n (rrsetsAt s n).length x = none := by
  unfold scanNode
  rw [foldOpt_none]
  simp only [reduceCtorEq, false_or, mem_rrsetsAt]

theorem scanNode_mem {z : Zone} {s : SZone} (_h : Rel z s) (nameOf : NameOf) (n : Name) (l : List Issue)
    (hl : scanNode nameOf z n (rrsetsAt s n) = some l) (i : Issue) :
    i ∈ l ↔ ∃ x, rrset s n x.rtype = some x ∧
      ∃ lx, scanRrset nameOf z n (rrsetsAt s n).length x = some lx ∧ i ∈ lx := by
  unfold scanNode at hl
  obtain ⟨l0, h0, hmem⟩ := foldOpt_some _ _ _ l hl
  cases h0
  rw [hmem]
  simp only [List.not_mem_nil, false_or, mem_rrsetsAt]

/-- the issues found by the node scans, in terms of the flat list -/
def NodeIssue (nameOf : NameOf) (s : SZone) (i : Issue) : Prop :=
  ∃ n x, IsNode s n ∧ rrset s n x.rtype = some x ∧
    ((x.rtype = CNAME ∧ ((i = .OtherRecordsAtCname n ∧ (rrsetsAt s n).length ≠ 1) ∨
        (i = .DuplicateCname n ∧ x.rdatas.length ≠ 1))) ∨
     (x.rtype = MX ∧ hasAddrClass s.cls = true ∧ ∃ r ∈ s.recs, r.owner = n ∧ r.rtype = MX ∧
        ∃ g, mxName nameOf r.rdata = some g ∧ i = .MissingMxAddress g ∧ noAddress s g = true) ∨
     (x.rtype = NS ∧ ((i = .NsAtWildcard n ∧ isWildcard n = true) ∨
        (n ≠ s.apex ∧ hasAddrClass s.cls = true ∧ ∃ r ∈ s.recs, r.owner = n ∧ r.rtype = NS ∧
          ∃ g, nameOf r.rdata = some g ∧
            ((i = .MissingNsAddress g ∧ noAddress s g = true) ∨
             (i = .MissingGlue g ∧ needsGlue s n g = true ∧ glueOk s g = false))))))

/-- the issues found by the apex checks -/
def ApexIssue (nameOf : NameOf) (s : SZone) (i : Issue) : Prop :=
  (i = .MissingApexSoa ∧ rrset s s.apex SOA = none) ∨
  (i = .TooManyApexSoas ∧ ∃ x, rrset s s.apex SOA = some x ∧ x.rdatas.length ≠ 1) ∨
  (i = .MissingApexNs ∧ rrset s s.apex NS = none) ∨
  (hasAddrClass s.cls = true ∧ ∃ r ∈ s.recs, r.owner = s.apex ∧ r.rtype = NS ∧
      ∃ g, nameOf r.rdata = some g ∧ i = .MissingNsAddress g ∧ noAddress s g = true)

/-- invalid RDATA as the model meets it -/
def ModelInvalid (nameOf : NameOf) (s : SZone) : Prop :=
  (hasAddrClass s.cls = true ∧ ∃ r ∈ s.recs, r.owner = s.apex ∧ r.rtype = NS ∧ nameOf r.rdata = none) ∨
  ∃ n x, IsNode s n ∧ rrset s n x.rtype = some x ∧ hasAddrClass s.cls = true ∧
    ((x.rtype = MX ∧ ∃ r ∈ s.recs, r.owner = n ∧ r.rtype = MX ∧ mxName nameOf r.rdata = none) ∨
     (x.rtype = NS ∧ n ≠ s.apex ∧ ∃ r ∈ s.recs, r.owner = n ∧ r.rtype = NS ∧ nameOf r.rdata = none))

theorem apexNs_none {z : Zone} {s : SZone} (h : Rel z s) (nameOf : NameOf) :
    apexNsIssues nameOf z = none ↔
      (hasAddrClass s.cls = true ∧ ∃ r ∈ s.recs, r.owner = s.apex ∧ r.rtype = NS ∧ nameOf r.rdata = none) := by
  unfold apexNsIssues
  rw [ns_eq_spec h, classHasAddrs_eq, h.cls]
  unfold specNs
  cases hx : rrset s s.apex NS with
  | none =>
    simp only [reduceCtorEq, false_iff, not_and, not_exists]
    intro _ r hr ho ht
    exact absurd ⟨r, hr, ho, ht⟩ ((rrset_eq_none s _ _).mp hx)
  | some x =>
    simp only
    cases hac : hasAddrClass s.cls with
    | false => simp
    | true =>
      simp only [if_true, forNames_none, true_and]
      constructor
      · rintro ⟨rd, hrd, hnone⟩
        obtain ⟨r, hr, ho, ht, hrr⟩ := (mem_rdatas hx rd).mp hrd
        exact ⟨r, hr, ho, ht, by rw [hrr]; exact hnone⟩
      · rintro ⟨r, hr, ho, ht, hnone⟩
        exact ⟨r.rdata, (mem_rdatas hx _).mpr ⟨r, hr, ho, ht, rfl⟩, hnone⟩

theorem apexNs_mem {z : Zone} {s : SZone} (h : Rel z s) (nameOf : NameOf) (nsI : List Issue)
    (hI : apexNsIssues nameOf z = some nsI) (i : Issue) :
    i ∈ nsI ↔
      ((i = .MissingApexNs ∧ rrset s s.apex NS = none) ∨
       (hasAddrClass s.cls = true ∧ ∃ r ∈ s.recs, r.owner = s.apex ∧ r.rtype = NS ∧
          ∃ g, nameOf r.rdata = some g ∧ i = .MissingNsAddress g ∧ noAddress s g = true)) := by
  unfold apexNsIssues at hI
  rw [ns_eq_spec h, classHasAddrs_eq, h.cls] at hI
  unfold specNs at hI
  cases hx : rrset s s.apex NS with
  | none =>
    rw [hx] at hI
    simp only [Option.some.injEq] at hI; subst hI
    simp only [List.mem_singleton, and_true]
    constructor
    · exact Or.inl
    · rintro (hi | ⟨_, r, hr, ho, ht, _⟩)
      · exact hi
      · exact absurd ⟨r, hr, ho, ht⟩ ((rrset_eq_none s _ _).mp hx)
  | some x =>
    rw [hx] at hI
    simp only at hI
    simp only [reduceCtorEq, and_false, false_or]
    cases hac : hasAddrClass s.cls with
    | false => simp only [hac, Bool.false_eq_true, if_false, Option.some.injEq] at hI; subst hI; simp
    | true =>
      simp only [hac, if_true] at hI
      rw [forNames_some _ _ _ nsI hI]
      simp only [true_and]
      constructor
      · rintro ⟨rd, hrd, g, hg, hi⟩
        obtain ⟨r, hr, ho, ht, hrr⟩ := (mem_rdatas hx rd).mp hrd
        have hm := (mem_checkApexNs h g i).mp hi
        exact ⟨r, hr, ho, ht, g, by rw [hrr]; exact hg, hm.1, hm.2⟩
      · rintro ⟨r, hr, ho, ht, g, hg, hi, hna⟩
        exact ⟨r.rdata, (mem_rdatas hx _).mpr ⟨r, hr, ho, ht, rfl⟩, g, hg, (mem_checkApexNs h g i).mpr ⟨hi, hna⟩⟩

theorem soaIssues_mem {z : Zone} {s : SZone} (h : Rel z s) (i : Issue) :
    i ∈ soaIssues z ↔
      ((i = .MissingApexSoa ∧ rrset s s.apex SOA = none) ∨
       (i = .TooManyApexSoas ∧ ∃ x, rrset s s.apex SOA = some x ∧ x.rdatas.length ≠ 1)) := by
  unfold soaIssues
  rw [soa_eq_spec h]
  unfold specSoa
  cases rrset s s.apex SOA with
  | none => simp
  | some x =>
    simp only [reduceCtorEq, and_false, false_or, Option.some.injEq, exists_eq_left']
    split <;> simp_all

theorem validate_model {z : Zone} {s : SZone} (h : Rel z s) (hw : Node.WF z.root) (nameOf : NameOf) :
    (validate nameOf z = none ↔ ModelInvalid nameOf s) ∧
    (∀ l, validate nameOf z = some l → ∀ i, i ∈ l ↔ (ApexIssue nameOf s i ∨ NodeIssue nameOf s i)) := by
  unfold validate
  have hnode : ∀ p ∈ iterByNode z, IsNode s p.1 ∧ p.2 = rrsetsAt s p.1 := fun p hp => (mem_iterByNode h hw p).mp hp
  have hnsNone := apexNs_none h nameOf
  have hnsMem := apexNs_mem h nameOf
  constructor
  · -- failure
    cases hns : apexNsIssues nameOf z with
    | none =>
      simp only [true_iff]
      exact Or.inl (hnsNone.mp hns)
    | some nsI =>
      simp only
      rw [foldOpt_none]
      simp only [reduceCtorEq, false_or]
      have hno : ¬ (hasAddrClass s.cls = true ∧ ∃ r ∈ s.recs, r.owner = s.apex ∧ r.rtype = NS ∧ nameOf r.rdata = none) :=
        fun hh => by have := hnsNone.mpr hh; rw [hns] at this; cases this
      unfold ModelInvalid
      constructor
      · rintro ⟨p, hp, hnone⟩
        obtain ⟨hn, hrr⟩ := hnode p hp
        rw [hrr, scanNode_none h] at hnone
        obtain ⟨x, hx, hsc⟩ := hnone
        have := (scanRrset_none h nameOf p.1 (isNode_suffix hn) _ x hx).mp hsc
        exact Or.inr ⟨p.1, x, hn, hx, this.1, this.2⟩
      · rintro (hh | ⟨n, x, hn, hx, hac, hcase⟩)
        · exact absurd hh hno
        · refine ⟨(n, rrsetsAt s n), (mem_iterByNode h hw _).mpr ⟨hn, rfl⟩, ?_⟩
          rw [scanNode_none h]
          exact ⟨x, hx, (scanRrset_none h nameOf n (isNode_suffix hn) _ x hx).mpr ⟨hac, hcase⟩⟩
  · -- success
    intro l hl i
    cases hns : apexNsIssues nameOf z with
    | none => simp [hns] at hl
    | some nsI =>
      simp only [hns] at hl
      obtain ⟨l0, h0, hmem⟩ := foldOpt_some _ _ _ l hl
      simp only [Option.some.injEq] at h0
      subst h0
      rw [hmem]
      simp only [List.mem_append, hnsMem nsI hns i, soaIssues_mem h i]
      unfold ApexIssue NodeIssue
      constructor
      · rintro ((hs | hs) | ⟨p, hp, lx, hlx, hi⟩)
        · rcases hs with hs | hs
          · exact Or.inl (Or.inl hs)
          · exact Or.inl (Or.inr (Or.inl hs))
        · rcases hs with hs | hs
          · exact Or.inl (Or.inr (Or.inr (Or.inl hs)))
          · exact Or.inl (Or.inr (Or.inr (Or.inr hs)))
        · obtain ⟨hn, hrr⟩ := hnode p hp
          rw [hrr] at hlx
          obtain ⟨x, hx, lx', hlx', hi'⟩ := (scanNode_mem h nameOf p.1 lx hlx i).mp hi
          exact Or.inr ⟨p.1, x, hn, hx, (scanRrset_mem h nameOf p.1 (isNode_suffix hn) _ x hx lx' hlx' i).mp hi'⟩
      · rintro ((hs | hs | hs | hs) | ⟨n, x, hn, hx, hcase⟩)
        · exact Or.inl (Or.inl (Or.inl hs))
        · exact Or.inl (Or.inl (Or.inr hs))
        · exact Or.inl (Or.inr (Or.inl hs))
        · exact Or.inl (Or.inr (Or.inr hs))
        · right
          have hp : (n, rrsetsAt s n) ∈ iterByNode z := (mem_iterByNode h hw _).mpr ⟨hn, rfl⟩
          -- every scan succeeded, since the whole validation did
          have hall : ∀ p ∈ iterByNode z, scanNode nameOf z p.1 p.2 ≠ none := by
            intro p hp' hnone
            have := (foldOpt_none (fun p : Name × List Rrset => scanNode nameOf z p.1 p.2) (iterByNode z)
              (some (soaIssues z ++ nsI))).mpr (Or.inr ⟨p, hp', hnone⟩)
            rw [this] at hl; cases hl
          cases hsn : scanNode nameOf z n (rrsetsAt s n) with
          | none => exact absurd hsn (hall _ hp)
          | some lx =>
            refine ⟨(n, rrsetsAt s n), hp, lx, hsn, ?_⟩
            rw [scanNode_mem h nameOf n lx hsn i]
            cases hsr : scanRrset nameOf z n (rrsetsAt s n).length x with
            | none =>
              have := (scanNode_none h nameOf n).mpr ⟨x, hx, hsr⟩
              rw [hsn] at this; cases this
            | some lx' =>
              exact ⟨x, hx, lx', hsr, (scanRrset_mem h nameOf n (isNode_suffix hn) _ x hx lx' hsr i).mpr hcase⟩

/-! ### the model's sets are the reference checker's -/

theorem modelInvalid_iff {z : Zone} {s : SZone} (h : Rel z s) (nameOf : NameOf) :
    ModelInvalid nameOf s ↔ InvalidRdata nameOf s := by
  unfold ModelInvalid InvalidRdata
  constructor
  · rintro (⟨hac, r, hr, _, ht, hnone⟩ | ⟨n, x, _, _, hac, (⟨_, r, hr, _, ht, hnone⟩ | ⟨_, _, r, hr, _, ht, hnone⟩)⟩)
    · exact ⟨hac, r, hr, Or.inl ⟨ht, hnone⟩⟩
    · exact ⟨hac, r, hr, Or.inr ⟨ht, hnone⟩⟩
    · exact ⟨hac, r, hr, Or.inl ⟨ht, hnone⟩⟩
  · rintro ⟨hac, r, hr, (⟨ht, hnone⟩ | ⟨ht, hnone⟩)⟩
    · by_cases ho : r.owner = s.apex
      · exact Or.inl ⟨hac, r, hr, ho, ht, hnone⟩
      · obtain ⟨x, hx⟩ := (owns_iff_rrset s r.owner NS).mp ⟨r, hr, rfl, ht⟩
        have hxt := rrset_rtype hx
        exact Or.inr ⟨r.owner, x, isNode_of_rec h hr, by rw [hxt]; exact hx, hac,
          Or.inr ⟨hxt, ho, r, hr, rfl, ht, hnone⟩⟩
    · obtain ⟨x, hx⟩ := (owns_iff_rrset s r.owner MX).mp ⟨r, hr, rfl, ht⟩
      have hxt := rrset_rtype hx
      exact Or.inr ⟨r.owner, x, isNode_of_rec h hr, by rw [hxt]; exact hx, hac,
        Or.inl ⟨hxt, r, hr, rfl, ht, hnone⟩⟩

theorem two_le_iff {s : SZone} {n : Name} {t : Nat} :
    2 ≤ (s.recs.filter (fun r => r.owner == n && r.rtype == t)).length ↔
      ∃ x, rrset s n t = some x ∧ x.rdatas.length ≠ 1 := by
  constructor
  · intro hl
    cases hx : rrset s n t with
    | none =>
      unfold rrset at hx
      split at hx
      · rename_i hf; rw [hf] at hl; simp at hl
      · cases hx
    | some x => exact ⟨x, rfl, by rw [rdatas_length hx]; omega⟩
  · rintro ⟨x, hx, hne⟩
    have := rdatas_pos hx
    rw [← rdatas_length hx]; omega

theorem issues_iff {z : Zone} {s : SZone} (h : Rel z s) (nameOf : NameOf) (i : Issue) :
    (ApexIssue nameOf s i ∨ NodeIssue nameOf s i) ↔ HasIssue nameOf s i := by
  have node_of : ∀ {n : Name} {t : Nat}, Owns s n t → ∃ x, IsNode s n ∧ rrset s n x.rtype = some x ∧ x.rtype = t := by
    intro n t ho
    obtain ⟨x, hx⟩ := (owns_iff_rrset s n t).mp ho
    obtain ⟨r, hr, hro, _⟩ := ho
    exact ⟨x, hro ▸ isNode_of_rec h hr, by rw [rrset_rtype hx]; exact hx, rrset_rtype hx⟩
  unfold ApexIssue NodeIssue
  cases i with
  | MissingApexSoa =>
    simp only [HasIssue, reduceCtorEq, false_and, and_false, or_false, false_or, exists_false, true_and, exists_const]
    exact rrset_eq_none s _ _
  | TooManyApexSoas =>
    simp only [HasIssue, reduceCtorEq, false_and, and_false, or_false, false_or, exists_false, true_and, exists_const]
    exact two_le_iff.symm
  | MissingApexNs =>
    simp only [HasIssue, reduceCtorEq, false_and, and_false, or_false, false_or, exists_false, true_and, exists_const]
    exact rrset_eq_none s _ _
  | MissingNsAddress g =>
    simp only [HasIssue, reduceCtorEq, false_and, and_false, or_false, false_or, exists_false, Issue.MissingNsAddress.injEq]
    constructor
    · rintro (⟨hac, r, hr, _, ht, g', hg, hgg, hna⟩ | ⟨n, x, _, _, _, _, hac, r, hr, _, ht, g', hg, hgg, hna⟩)
      · subst hgg; exact ⟨hac, r, hr, ht, hg, hna⟩
      · subst hgg; exact ⟨hac, r, hr, ht, hg, hna⟩
    · rintro ⟨hac, r, hr, ht, hg, hna⟩
      by_cases ho : r.owner = s.apex
      · exact Or.inl ⟨hac, r, hr, ho, ht, g, hg, rfl, hna⟩
      · obtain ⟨x, hn, hx, hxt⟩ := node_of ⟨r, hr, rfl, ht⟩
        exact Or.inr ⟨r.owner, x, hn, hx, hxt, ho, hac, r, hr, rfl, ht, g, hg, rfl, hna⟩
  | MissingMxAddress g =>
    simp only [HasIssue, reduceCtorEq, false_and, and_false, or_false, false_or, exists_false, Issue.MissingMxAddress.injEq]
    constructor
    · rintro ⟨n, x, _, _, _, hac, r, hr, _, ht, g', hg, hgg, hna⟩
      subst hgg; exact ⟨hac, r, hr, ht, hg, hna⟩
    · rintro ⟨hac, r, hr, ht, hg, hna⟩
      obtain ⟨x, hn, hx, hxt⟩ := node_of ⟨r, hr, rfl, ht⟩
      exact ⟨r.owner, x, hn, hx, hxt, hac, r, hr, rfl, ht, g, hg, rfl, hna⟩
  | MissingGlue g =>
    simp only [HasIssue, reduceCtorEq, false_and, and_false, or_false, false_or, exists_false, Issue.MissingGlue.injEq]
    constructor
    · rintro ⟨n, x, _, _, _, hne, hac, r, hr, ho, ht, g', hg, hgg, hng, hgl⟩
      subst hgg; subst ho; exact ⟨hac, r, hr, ht, hne, hg, hng, hgl⟩
    · rintro ⟨hac, r, hr, ht, hne, hg, hng, hgl⟩
      obtain ⟨x, hn, hx, hxt⟩ := node_of ⟨r, hr, rfl, ht⟩
      exact ⟨r.owner, x, hn, hx, hxt, hne, hac, r, hr, rfl, ht, g, hg, rfl, hng, hgl⟩
  | DuplicateCname o =>
    simp only [HasIssue, reduceCtorEq, false_and, and_false, or_false, false_or, exists_false, Issue.DuplicateCname.injEq]
    rw [two_le_iff]
    constructor
    · rintro ⟨n, x, _, hx, hxt, hon, hne⟩
      subst hon; rw [hxt] at hx; exact ⟨x, hx, hne⟩
    · rintro ⟨x, hx, hne⟩
      have hxt := rrset_rtype hx
      obtain ⟨r, hr, hro, _⟩ := rrset_some_owns hx
      exact ⟨o, x, hro ▸ isNode_of_rec h hr, by rw [hxt]; exact hx, hxt, rfl, hne⟩
  | OtherRecordsAtCname o =>
    simp only [HasIssue, reduceCtorEq, false_and, and_false, or_false, false_or, exists_false,
      Issue.OtherRecordsAtCname.injEq]
    constructor
    · rintro ⟨n, x, _, hx, hxt, hon, hne⟩
      subst hon
      have hxm := (mem_rrsetsAt s o x).mpr hx
      obtain ⟨y, hy, hyt⟩ := (length_ne_one_iff (rrsetsAt_sorted s o) hxm).mp hne
      rw [hxt] at hx hyt
      exact ⟨rrset_some_owns hx, y.rtype, hyt, rrset_some_owns ((mem_rrsetsAt s o y).mp hy)⟩
    · rintro ⟨hoc, t, hne, hot⟩
      obtain ⟨x, hn, hx, hxt⟩ := node_of hoc
      obtain ⟨y, _, hy, hyt⟩ := node_of hot
      refine ⟨o, x, hn, hx, hxt, rfl, ?_⟩
      rw [length_ne_one_iff (rrsetsAt_sorted s o) ((mem_rrsetsAt s o x).mpr hx)]
      exact ⟨y, (mem_rrsetsAt s o y).mpr hy, by rw [hyt, hxt]; exact hne⟩
  | NsAtWildcard o =>
    simp only [HasIssue, reduceCtorEq, false_and, and_false, or_false, false_or, exists_false, Issue.NsAtWildcard.injEq]
    constructor
    · rintro ⟨n, x, _, hx, hxt, hon, hw⟩
      subst hon; rw [hxt] at hx; exact ⟨rrset_some_owns hx, hw⟩
    · rintro ⟨ho, hw⟩
      obtain ⟨x, hn, hx, hxt⟩ := node_of ho
      exact ⟨o, x, hn, hx, hxt, rfl, hw⟩

/-- `validate` = the reference checker, on every zone related to a flat zone -/
theorem validate_eq_spec {z : Zone} {s : SZone} (h : Rel z s) (hw : Node.WF z.root) (nameOf : NameOf) :
    (validate nameOf z = none ↔ InvalidRdata nameOf s) ∧
    (∀ l, validate nameOf z = some l → ∀ i, i ∈ l ↔ HasIssue nameOf s i) := by
  obtain ⟨h1, h2⟩ := validate_model h hw nameOf
  exact ⟨h1.trans (modelInvalid_iff h nameOf), fun l hl i => (h2 l hl i).trans (issues_iff h nameOf i)⟩

end QV.Zone
