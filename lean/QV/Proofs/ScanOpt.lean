/-
  QV.Proofs.ScanOpt — the pieces of the additional-section scan that look *inside* a record:

  * `Rdata::read` for OPT (and the dispatch for TSIG): the model's `validate_as_opt` accepts exactly
    the RDATA the spec's `optRdataOk` accepts (EDNS option TLVs exactly filling the RDATA);
  * `PeekRr::parse` on an OPT record, against `specDecodeName` + `optRdataOk`;
  * a name the parser returned is a well-formed `Name` (`WName.parse` of its wire form succeeds and
    gives back the same octets) — the `unreachable` arm of the model's question handling.
-/
import QV.Proofs.ScanBasic

namespace QV.ServerScan
open QV QV.Wire QV.Reader

/-! ### `Rdata::read` dispatch for the two pseudo-RR types -/

theorem read_opt (c : Nat) (msg : Bytes) (cur len : Nat) :
    Rdata.read c 41 msg cur len = Rdata.withoutDecompression Rdata.validateAsOpt msg cur len := by
  have : Rdata.lookup Gen.rdataReadArms Gen.rdataReadDefault c 41 = "without_decompression:validate_as_opt" := by
    simp [Rdata.lookup, Gen.rdataReadArms]
  unfold Rdata.read
  rw [this]
  simp [Rdata.readHandler]

theorem read_tsig (c : Nat) (msg : Bytes) (cur len : Nat) :
    Rdata.read c 250 msg cur len = Rdata.withoutDecompression Rdata.validateAsTsig msg cur len := by
  have : Rdata.lookup Gen.rdataReadArms Gen.rdataReadDefault c 250 = "without_decompression:validate_as_tsig" := by
    simp [Rdata.lookup, Gen.rdataReadArms]
  unfold Rdata.read
  rw [this]
  simp [Rdata.readHandler]

theorem extract_extract' (msg : Bytes) (cur len : Nat) (h : cur + len ≤ msg.size) :
    (msg.extract 0 (cur + len)).extract cur (msg.extract 0 (cur + len)).size = msg.extract cur (cur + len) := by
  simp [Array.extract_extract]
  rw [Nat.min_eq_left h]

/-- `without_decompression(validator)` when the RDATA lies inside the message -/
theorem withoutDecompression_eq (v : Bytes → Out Rdata.RErr Unit) (msg : Bytes) (cur len : Nat)
    (h : cur + len ≤ msg.size) (hm : msg.size ≤ Rdata.USIZE_MAX) (hl : len ≤ 65535) :
    Rdata.withoutDecompression v msg cur len =
      (v (msg.extract cur (cur + len)) >>= fun _ => .ok (msg.extract cur (cur + len))) := by
  unfold Rdata.withoutDecompression Rdata.prepareToReadRdata
  simp only [show ¬ cur + len > Rdata.USIZE_MAX by omega, show ¬ cur + len > msg.size by omega, if_false]
  show (Rdata.sliceFrom (msg.extract 0 (cur + len)) cur >>= _) = _
  unfold Rdata.sliceFrom
  have hs : (msg.extract 0 (cur + len)).size = cur + len := by simp; omega
  simp only [hs, show cur ≤ cur + len by omega, if_true]
  show (Rdata.mkRdata ((msg.extract 0 (cur + len)).extract cur (cur + len)) >>= _) = _
  have he : (msg.extract 0 (cur + len)).extract cur (cur + len) = msg.extract cur (cur + len) := by
    have := extract_extract' msg cur len h
    rwa [hs] at this
  rw [he]
  unfold Rdata.mkRdata
  have hs2 : (msg.extract cur (cur + len)).size = len := by simp; omega
  simp only [hs2, Rdata.RDATA_MAX, show ¬ len > 65535 by omega, if_false]
  rfl

/-! ### OPT RDATA -/

theorem getD_extract (msg : Bytes) (a b i : Nat) (h : a + i < b) (hb : b ≤ msg.size) :
    (msg.extract a b).getD i 0 = msg.getD (a + i) 0 := by
  have h1 : i < (msg.extract a b).size := by simp; omega
  have h2 : a + i < msg.size := by omega
  simp [Array.getD, h1, h2]
  rw [dif_pos (by omega)]

theorem be16_extract (msg : Bytes) (a b i : Nat) (h : a + i + 2 ≤ b) (hb : b ≤ msg.size) :
    be16 (msg.extract a b) i = be16 msg (a + i) := by
  unfold be16
  rw [getD_extract msg a b i (by omega) hb, getD_extract msg a b (i + 1) (by omega) hb]
  rfl

/-- `validate_as_opt` = the spec's "option TLVs exactly fill the RDATA" -/
theorem optLoop_spec (msg : Bytes) (cur len : Nat) (h : cur + len ≤ msg.size) :
    ∀ fuel off, off ≤ len → len - off < fuel →
      Rdata.optLoop (msg.extract cur (cur + len)) off ≠ .panic ∧
      (Rdata.optLoop (msg.extract cur (cur + len)) off = .ok () ↔
        Spec.Server.optRdataOk msg fuel (cur + off) (cur + len) = true) := by
  have hsz : (msg.extract cur (cur + len)).size = len := by simp; omega
  intro fuel
  induction fuel with
  | zero => intro off h1 h2; omega
  | succ f ih =>
    intro off h1 h2
    rw [Rdata.optLoop]
    unfold Spec.Server.optRdataOk
    by_cases hlt : off < len
    · have hne : (cur + off == cur + len) = false := by simp; omega
      simp only [hsz, hlt, if_true, hne, Bool.false_eq_true, if_false]
      unfold Rdata.validateOption
      have hsz2 : ((msg.extract cur (cur + len)).extract off len).size = len - off := by simp [hsz]; omega
      rw [specField16_eq]
      by_cases h4 : 4 ≤ len - off
      · have hbe : be16 ((msg.extract cur (cur + len)).extract off len) 2 = be16 msg (cur + off + 2) := by
          rw [be16_extract _ off len 2 (by omega) (by rw [hsz]; omega),
            be16_extract msg cur (cur + len) (off + 2) (by omega) h]
          congr 1
        simp only [hsz2, h4, if_true, hbe, show cur + off + 2 + 2 ≤ msg.size by omega]
        by_cases h5 : len - off ≥ be16 msg (cur + off + 2) + 4
        · have hn0 : ¬ be16 msg (cur + off + 2) + 4 = 0 := by omega
          simp only [h5, if_true, hn0, if_false,
            show cur + off + 4 + be16 msg (cur + off + 2) ≤ cur + len by omega]
          have := ih (off + (be16 msg (cur + off + 2) + 4)) (by omega) (by omega)
          have e : cur + (off + (be16 msg (cur + off + 2) + 4)) = cur + off + 4 + be16 msg (cur + off + 2) := by
            omega
          rw [e] at this
          exact this
        · simp only [h5, if_false, show ¬ cur + off + 4 + be16 msg (cur + off + 2) ≤ cur + len by omega]
          simp
      · simp only [hsz2, h4, if_false]
        refine ⟨by simp, ?_⟩
        constructor
        · intro hh; cases hh
        · intro hh
          split at hh
          · split at hh
            · rename_i v hv hle
              omega
            · cases hh
          · cases hh
    · have he : (cur + off == cur + len) = true := by simp; omega
      simp only [hsz, hlt, if_false, he, if_true]
      simp

/-- `Rdata::read` for OPT (as the reader sees it, `Server.rdRead`) never panics on a delimited
    record and accepts exactly the RDATA the spec accepts -/
theorem rdRead_opt (c : Nat) (msg : Bytes) (cur len : Nat) (h : cur + len ≤ msg.size)
    (hm : msg.size ≤ Rdata.USIZE_MAX) (hl : len ≤ 65535) :
    if Spec.Server.optRdataOk msg (len + 1) cur (cur + len) then
      ∃ rd, Server.rdRead c 41 msg cur len = .ok rd
    else ∃ e, Server.rdRead c 41 msg cur len = .err e := by
  unfold Server.rdRead
  rw [read_opt, withoutDecompression_eq _ _ _ _ h hm hl]
  unfold Rdata.validateAsOpt
  obtain ⟨hnp, hiff⟩ := optLoop_spec msg cur len h (len + 1) 0 (by omega) (by omega)
  simp only [Nat.add_zero] at hiff
  cases ho : Rdata.optLoop (msg.extract cur (cur + len)) 0 with
  | ok u =>
    have : Spec.Server.optRdataOk msg (len + 1) cur (cur + len) = true := hiff.mp (by rw [ho])
    rw [this]
    exact ⟨_, rfl⟩
  | err e =>
    have : ¬ Spec.Server.optRdataOk msg (len + 1) cur (cur + len) = true := by
      intro hh; have := hiff.mpr hh; rw [ho] at this; cases this
    simp only [this, if_false, Bool.false_eq_true]
    exact ⟨_, rfl⟩
  | panic => exact absurd ho hnp

/-! ### a parsed name is a `Name` -/

theorem chunk_cons (msg : Bytes) (pos l : Nat) (h : pos < msg.size) (hin : pos + l + 1 ≤ msg.size) :
    (msg.extract pos (pos + l + 1)).toList = msg[pos] :: (msg.extract (pos + 1) (pos + l + 1)).toList := by
  apply List.ext_getElem
  · simp; omega
  · intro i h1 h2
    simp at h1 h2
    cases i with
    | zero => simp
    | succ j => simp; congr 1; omega

theorem parseLabels_of_decodes {msg : Bytes} {pos cs : Nat} {w : List UInt8} {n k : Nat}
    (hd : Spec.Decodes msg pos cs w n k) :
    ∀ fuel, n ≤ fuel → ∃ ls, Writer.WName.parseLabels fuel w = some (ls, []) ∧
      (ls.flatMap Writer.WName.encLabel) ++ [0] = w := by
  induction hd with
  | null h h0 =>
    intro fuel hf
    obtain ⟨f, rfl⟩ : ∃ f, fuel = f + 1 := ⟨fuel - 1, by omega⟩
    exact ⟨[], by simp [Writer.WName.parseLabels], rfl⟩
  | @label pos cs w n k h h0 h63 hin rest ih =>
    intro fuel hf
    obtain ⟨f, rfl⟩ : ∃ f, fuel = f + 1 := ⟨fuel - 1, by omega⟩
    obtain ⟨ls, hp, hw⟩ := ih f (by omega)
    have hlen : (msg.extract (pos + 1) (pos + msg[pos].toNat + 1)).toList.length = msg[pos].toNat := by
      simp; omega
    refine ⟨(msg.extract (pos + 1) (pos + msg[pos].toNat + 1)).toList :: ls, ?_, ?_⟩
    · rw [chunk_cons msg pos _ h hin]
      simp only [List.cons_append, Writer.WName.parseLabels, h0, if_false,
        show ¬ msg[pos].toNat > Gen.MAX_LABEL_LEN by rw [Wire.consts.1]; omega]
      have e1 : ¬ ((msg.extract (pos + 1) (pos + msg[pos].toNat + 1)).toList ++ w).length < msg[pos].toNat := by
        rw [List.length_append, hlen]; omega
      simp only [e1, if_false]
      rw [List.drop_left' hlen, List.take_left' hlen, hp]
    · rw [chunk_cons msg pos _ h hin, ← hw]
      simp only [List.flatMap_cons, Writer.WName.encLabel, hlen, List.cons_append, List.append_assoc]
      congr 1
      simp
  | ptr h hp hb rest ih => exact ih

theorem decodes_labels_le {msg : Bytes} {pos cs : Nat} {w : List UInt8} {n k : Nat}
    (hd : Spec.Decodes msg pos cs w n k) : n ≤ w.length := by
  induction hd with
  | null h h0 => simp
  | label h h0 h63 hin rest ih => simp; omega
  | ptr h hp hb rest ih => exact ih

/-- the wire form a successful parse returns is accepted by `Name::try_from_uncompressed_all`, and
    converts back to the same octets -/
theorem wname_of_parse (msg : Bytes) (s : Nat) (p : Parsed) (h : parseCompressed msg s = .ok p) :
    ∃ n : Writer.WName, Writer.WName.parse p.wire = some (n, []) ∧ n.wire = p.wire := by
  obtain ⟨hd, hl⟩ := (C14.C14_parse_ok_iff msg s p).mp h
  obtain ⟨ls, hp, hw⟩ := parseLabels_of_decodes hd (p.wire.length + 1) (by
    have := decodes_labels_le hd; omega)
  refine ⟨⟨ls⟩, ?_, hw⟩
  unfold Writer.WName.parse
  rw [hp]
  simp only [Writer.WName.wire, hw, Wire.consts.2.1, hl, if_true]

end QV.ServerScan
