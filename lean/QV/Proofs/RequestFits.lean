/-
  QV.Proofs.RequestFits — C10 (1b): the audit's "the reply fits" (the uncompressed size of the
  response with its TSIG record is at most the limit) is the model's `TsigFits` on the scan state.
-/
import QV.Proofs.RequestOutcome

namespace QV.ServerScan
open QV QV.Wire QV.Reader QV.Writer

/-- without an OPT record the UDP limit of the scan is the default 512 -/
theorem scanAr_noedns (msg : Bytes) (S : Nat) : ∀ (n total pos : Nat) (e : Bool) (lim : Nat),
    (e = false → lim = 512) →
    (Spec.Server.scanAr msg S n total pos e lim).2.1 = false →
    (Spec.Server.scanAr msg S n total pos e lim).2.2 = 512 := by
  intro n
  induction n with
  | zero => intro total pos e lim h1 h2; simp only [Spec.Server.scanAr] at h2 ⊢; exact h1 h2
  | succ n ih =>
    intro total pos e lim h1
    simp only [Spec.Server.scanAr]
    repeat' split
    all_goals first
      | (intro h2; simp only at h2 ⊢; first | exact h1 h2 | (cases h2; done))
      | exact ih _ _ _ _ (by first | exact h1 | (intro h; cases h))

theorem specTail_noedns (lookup : List UInt8 → Nat → Option Spec.Server.ZoneKind) (S : Nat) (msg : Bytes)
    (q : Option Spec.DQuestion) (p1 an ns ar op : Nat)
    (h : (specTail lookup S msg q p1 an ns ar op).edns = false) :
    (specTail lookup S msg q p1 an ns ar op).limitUdp = 512 := by
  unfold specTail at h ⊢
  cases hpl : Spec.Server.scanPlain msg (an + ns) p1 with
  | none => rfl
  | some p2 =>
    rw [hpl] at h
    simp only at h ⊢
    have hp := scanAr_noedns msg S ar ar p2 false 512 (fun _ => rfl)
    generalize Spec.Server.scanAr msg S ar ar p2 false 512 = res at hp h
    obtain ⟨en, e, l⟩ := res
    simp only at hp
    cases en with
    | formErr => exact hp h
    | badVers => exact hp h
    | tsig => exact hp h
    | done p3 =>
      simp only at h ⊢
      repeat' split at h
      all_goals (repeat' split)
      all_goals exact hp h

/-- **C10 (1b): `TsigFits` on the state the scan left, in numbers.**  The reply TSIG record fits iff
    header + question + (OPT) + the reserved length of the record is within the limit — 65535 over
    TCP, the scan's UDP limit (512, or the clamped requestor payload size after an OPT) over UDP. -/
theorem tsigFits_iff (cfg : Server.Cfg) (tr : Server.Transport) (bufLen : Nat) (req : Bytes)
    (hbuf : minBuf tr cfg.payload ≤ bufLen) (hpay : 512 ≤ cfg.payload)
    (hr : (Spec.Server.specScanWith (catKind cfg) cfg.payload req).respond = true)
    (mode : TsigMode) (rr : TsigRr) :
    ServerTsig.TsigFits (preTsigState cfg tr bufLen req) mode rr ↔
      12 + (qOctets (Spec.Server.specScanWith (catKind cfg) cfg.payload req).question).length +
        (if (Spec.Server.specScanWith (catKind cfg) cfg.payload req).edns then 11 else 0) +
        ServerTsig.reservedLen mode rr ≤
      (match tr with
       | .udp => (Spec.Server.specScanWith (catKind cfg) cfg.payload req).limitUdp
       | .tcp => 65535) := by
  obtain ⟨h12, hqr, hsce⟩ := specScanWith_respond _ _ _ hr
  unfold preTsigState
  rw [hsce]
  generalize hsc : specBody (catKind cfg) cfg.payload req = sc
  obtain ⟨_, p2, p3⟩ := specBody_props (catKind cfg) cfg.payload req
  rw [hsc] at p2 p3
  have hne : sc.edns = false → sc.limitUdp = 512 := by
    intro he
    rw [← hsc] at he ⊢
    unfold specBody at he ⊢
    by_cases hq4 : Spec.Server.hdr req 4 > 1
    · simp only [hq4, if_true]
    · simp only [hq4, if_false] at he ⊢
      generalize (if Spec.Server.hdr req 4 = 0 then some ((none : Option Spec.DQuestion), 12)
        else match Spec.specQuestionAt req 12 with
          | some (w, t, c, nx) => some (some ⟨w, t, c⟩, nx)
          | none => none) = qres at he ⊢
      cases qres with
      | none => rfl
      | some qp =>
        obtain ⟨q, p1⟩ := qp
        simp only at he ⊢
        exact specTail_noedns _ _ _ _ _ _ _ _ _ he
  have hq : ∀ x, sc.question = some x → ∃ nx, Spec.specQuestionAt req 12 = some (x.qname, x.qtype, x.qclass, nx) :=
    fun x hx => specBody_question (catKind cfg) cfg.payload req x (by rw [hsc]; exact hx)
  obtain ⟨hbase, hcur, _, _, _, _, _, _, _, _, _, har, _, hsz⟩ :=
    s1_facts bufLen tr cfg.payload (Spec.Server.hdr req 0) (((req.getD 2 0).toNat &&& 120) >>> 3)
      (((req.getD 2 0).toNat &&& 1) != 0) hbuf hpay req sc.question hq
  generalize qSt (hdrSt (w0 bufLen (lim0 tr)) (Spec.Server.hdr req 0) (((req.getD 2 0).toNat &&& 120) >>> 3)
      (((req.getD 2 0).toNat &&& 1) != 0)) sc.question = s1 at *
  have hav := hbase.avail
  have hlim := hbase.lim
  have hts := hbase.tsig
  unfold ServerTsig.TsigFits
  cases he : sc.edns with
  | false =>
    have hl := hne he
    have hS : arSt s1 tr cfg.payload false sc.limitUdp = s1 := rfl
    rw [hS, hts, hcur, hav, hlim, har]
    cases tr with
    | udp =>
      simp only [lim0, hl, Bool.false_eq_true, if_false]
      constructor
      · intro h; omega
      · intro h; exact ⟨trivial, by omega, by omega⟩
    | tcp =>
      simp only [lim0, Bool.false_eq_true, if_false]
      constructor
      · intro h; omega
      · intro h; exact ⟨trivial, by omega, by omega⟩
  | true =>
    have c11 : Gen.OPT_RECORD_SIZE = 11 := rfl
    cases tr with
    | udp =>
      have hS : arSt s1 .udp cfg.payload true sc.limitUdp = stLimit sc.limitUdp (stEdns cfg.payload s1) := rfl
      rw [hS]
      simp only [stLimit, stEdns, hts, hcur, hav, hlim, har, lim0, c11, if_true]
      constructor
      · intro h; omega
      · intro h; exact ⟨trivial, by omega, by omega⟩
    | tcp =>
      have hS : arSt s1 .tcp cfg.payload true sc.limitUdp = stEdns cfg.payload s1 := rfl
      rw [hS]
      simp only [stEdns, hts, hcur, hav, hlim, har, lim0, c11, if_true]
      constructor
      · intro h; omega
      · intro h; exact ⟨trivial, by omega, by omega⟩

/-- the length of the canonical form of a name is the length of its wire form -/
theorem canonName_length (n : WName) (h : n.WF) : (Spec.Tsig.canonName n.labels).length = n.wire.length := by
  rw [← lowerName_wire n h]; simp [Tsig.lowerName]

/-- the reserved length of an unsigned reply TSIG (BADKEY / BADSIG / FORMERR rows): no MAC, no other data -/
theorem reservedLen_unsigned (an : WName) (rr : TsigRr) (he : rr.error ≠ 18) :
    ServerTsig.reservedLen (.unsigned an) rr = rr.keyName.wire.length + 10 + an.wire.length + 16 + 0 + 0 := by
  show unsignedLen rr an = _
  unfold unsignedLen
  have : XR_BADTIME = 18 := ServerTsig.xr_badtime
  rw [this, if_neg he]; omega

/-- the reserved length of a signed reply TSIG (authenticated: error 0; BADTIME: error 18, six octets
    of other data) -/
theorem reservedLen_response (a : Writer.Alg) (m k : List UInt8) (rr : TsigRr) :
    ServerTsig.reservedLen (.response a m k) rr =
      rr.keyName.wire.length + 10 + (algName a).wire.length + 16 + algOutputSize a +
        (if rr.error = 18 then 6 else 0) := by
  show signedLen rr a = _
  unfold signedLen unsignedLen
  have : XR_BADTIME = 18 := ServerTsig.xr_badtime
  rw [this]; omega

end QV.ServerScan
