/-
  QV.Proofs.ZoneIter — iteration over the tree (`Node::iter`): which (name, RRset list) pairs it
  yields, and that every node is yielded once.
-/
import QV.Proofs.ZoneLookup

namespace QV.Zone
open QV QV.NameL QV.Spec.Zone

/-! ### well-formed hash maps: every key once -/

mutual
def Node.WF : Node → Prop
  | .mk _ ch => childrenWF ch
def childrenWF : List (Label × Node) → Prop
  | [] => True
  | (l, c) :: rest => childGet rest l = none ∧ Node.WF c ∧ childrenWF rest
end

theorem Node.empty_wf : Node.WF .empty := by simp [Node.empty, Node.WF, childrenWF]

theorem childGet_wf {ch : List (Label × Node)} (h : childrenWF ch) {l : Label} {c : Node}
    (hc : childGet ch l = some c) : Node.WF c := by
  induction ch with
  | nil => simp [childGet] at hc
  | cons kv rest ih =>
    obtain ⟨k, v⟩ := kv
    simp only [childrenWF] at h
    simp only [childGet] at hc
    split at hc
    · cases hc; exact h.2.1
    · exact ih h.2.2 hc

theorem childSet_wf {ch : List (Label × Node)} (h : childrenWF ch) (l : Label) {c' : Node} (hc' : Node.WF c') :
    childrenWF (childSet ch l c') := by
  induction ch with
  | nil => simp [childSet, childrenWF, childGet, hc']
  | cons kv rest ih =>
    obtain ⟨k, v⟩ := kv
    simp only [childrenWF] at h
    simp only [childSet]
    split
    · exact ⟨h.1, hc', h.2.2⟩
    · rename_i hk
      refine ⟨?_, h.2.1, ih h.2.2⟩
      rw [childGet_childSet]
      have : ¬ l = k := fun e => hk e.symm
      simp [this, h.1]

theorem addAt_wf (eqv : Eqv) (cls t ttl : Nat) (rd : Rdata) (node : Node) (q : List Label) (h : Node.WF node) :
    Node.WF (addAt eqv cls t ttl rd node q).1 := by
  induction q generalizing node with
  | nil =>
    obtain ⟨rr, ch⟩ := node
    simp only [addAt]
    cases rrsetsAdd eqv cls t ttl rd rr <;> simpa [Node.WF] using h
  | cons l rest ih =>
    obtain ⟨rr, ch⟩ := node
    simp only [addAt, Node.WF] at h ⊢
    apply childSet_wf h
    apply ih
    cases hc : childGet ch l with
    | none => exact Node.empty_wf
    | some c => exact childGet_wf h hc

theorem addM_wf (eqv : Eqv) (z : Zone) (r : Rec) (h : Node.WF z.root) : Node.WF (addM eqv z r).1.root := by
  unfold addM
  split
  · exact h
  · split
    · exact h
    · exact addAt_wf _ _ _ _ _ _ _ h

theorem build_wf (eqv : Eqv) (z : Zone) (rs : List Rec) (h : Node.WF z.root) : Node.WF (build eqv z rs).root := by
  induction rs generalizing z with
  | nil => exact h
  | cons r rs ih => simp only [build, List.foldl_cons]; exact ih _ (addM_wf eqv z r h)

/-! ### what iteration yields -/

theorem iter_subset_children {ch : List (Label × Node)} {l : Label} {c : Node} (hc : childGet ch l = some c)
    (nm : Name) (x : Name × List Rrset) (hx : x ∈ c.iter (l :: nm)) : x ∈ iterChildren ch nm := by
  induction ch with
  | nil => simp [childGet] at hc
  | cons kv rest ih =>
    obtain ⟨k, v⟩ := kv
    simp only [childGet] at hc
    simp only [iterChildren, List.mem_append]
    split at hc
    · rename_i hk; cases hc; subst hk; exact Or.inl hx
    · exact Or.inr (ih hc)

/-- every node of the tree is yielded, with its name and RRset list -/
theorem mem_iter_of_rrs (node : Node) (nm : Name) (p : List Label) (rr : List Rrset) (h : rrs node p = some rr) :
    (p.reverse ++ nm, rr) ∈ node.iter nm := by
  induction p generalizing node nm with
  | nil =>
    obtain ⟨rr0, ch⟩ := node
    simp only [rrs_nil, Option.some.injEq] at h
    subst h
    simp [Node.iter]
  | cons l p ih =>
    obtain ⟨rr0, ch⟩ := node
    rw [rrs_cons] at h
    cases hc : childGet ch l with
    | none => simp [hc] at h
    | some c =>
      simp only [hc] at h
      have := ih c (l :: nm) h
      simp only [Node.iter, List.mem_cons]
      right
      apply iter_subset_children hc nm
      simpa using this

theorem name_branch_inj {nm : Name} {l l' : Label} {p p' : List Label}
    (h : p.reverse ++ l :: nm = p'.reverse ++ l' :: nm) : l = l' := by
  have := congrArg List.reverse h
  simp only [List.reverse_append, List.reverse_cons, List.reverse_reverse, List.append_assoc] at this
  have := List.append_cancel_left this
  simp at this
  exact this.1

mutual
/-- … and nothing else is yielded; the names are pairwise different -/
theorem iter_sound (node : Node) (nm : Name) (hw : Node.WF node) :
    (∀ x ∈ node.iter nm, ∃ p, x.1 = p.reverse ++ nm ∧ rrs node p = some x.2) ∧
      ((node.iter nm).map (·.1)).Nodup := by
  match node with
  | .mk rr ch =>
    simp only [Node.WF] at hw
    obtain ⟨ih1, ih2⟩ := iterChildren_sound ch nm hw
    constructor
    · intro x hx
      simp only [Node.iter, List.mem_cons] at hx
      rcases hx with hx | hx
      · subst hx; exact ⟨[], by simp, by simp⟩
      · obtain ⟨l, c, p, hc, h1, h2⟩ := ih1 x hx
        refine ⟨l :: p, by simp [h1], ?_⟩
        rw [rrs_cons, hc]; exact h2
    · simp only [Node.iter, List.map_cons, List.nodup_cons]
      refine ⟨?_, ih2⟩
      intro hm
      simp only [List.mem_map] at hm
      obtain ⟨x, hx, hxe⟩ := hm
      obtain ⟨l, c, p, _, h1, _⟩ := ih1 x hx
      rw [h1] at hxe
      have := congrArg List.length hxe
      simp at this
      omega
theorem iterChildren_sound (ch : List (Label × Node)) (nm : Name) (hw : childrenWF ch) :
    (∀ x ∈ iterChildren ch nm, ∃ l c p, childGet ch l = some c ∧ x.1 = p.reverse ++ (l :: nm) ∧ rrs c p = some x.2) ∧
      ((iterChildren ch nm).map (·.1)).Nodup := by
  match ch with
  | [] => simp [iterChildren]
  | (l, c) :: rest =>
    simp only [childrenWF] at hw
    obtain ⟨a1, a2⟩ := iter_sound c (l :: nm) hw.2.1
    obtain ⟨b1, b2⟩ := iterChildren_sound rest nm hw.2.2
    have hrest : ∀ x ∈ iterChildren rest nm, ∃ l' c' p, l' ≠ l ∧ childGet rest l' = some c' ∧
        x.1 = p.reverse ++ (l' :: nm) ∧ rrs c' p = some x.2 := by
      intro x hx
      obtain ⟨l', c', p, hc, h1, h2⟩ := b1 x hx
      refine ⟨l', c', p, ?_, hc, h1, h2⟩
      intro e; subst e; rw [hw.1] at hc; cases hc
    constructor
    · intro x hx
      simp only [iterChildren, List.mem_append] at hx
      rcases hx with hx | hx
      · obtain ⟨p, h1, h2⟩ := a1 x hx
        exact ⟨l, c, p, by simp [childGet], h1, h2⟩
      · obtain ⟨l', c', p, hne, hc, h1, h2⟩ := hrest x hx
        exact ⟨l', c', p, by simp [childGet, Ne.symm hne, hc], h1, h2⟩
    · simp only [iterChildren, List.map_append, List.nodup_append]
      refine ⟨a2, b2, ?_⟩
      intro a ha b hb hab
      simp only [List.mem_map] at ha hb
      obtain ⟨x, hx, hxa⟩ := ha
      obtain ⟨y, hy, hyb⟩ := hb
      obtain ⟨p, h1, _⟩ := a1 x hx
      obtain ⟨l', c', p', hne, _, h1', _⟩ := hrest y hy
      rw [← hxa, ← hyb, h1, h1'] at hab
      exact hne (name_branch_inj hab).symm
end

/-! ### iteration over a zone vs. the specification -/

theorem mem_dedup (l : List Name) (n : Name) : n ∈ dedup l ↔ n ∈ l := by
  induction l with
  | nil => simp [dedup]
  | cons a l ih =>
    simp only [dedup]
    split
    · rename_i h; rw [ih]; simp only [List.mem_cons]
      constructor
      · exact Or.inr
      · rintro (h' | h'); subst h'; exact h; exact h'
    · simp [ih]

theorem nodup_dedup (l : List Name) : (dedup l).Nodup := by
  induction l with
  | nil => simp [dedup]
  | cons a l ih =>
    simp only [dedup]
    split
    · exact ih
    · rename_i h; rw [List.nodup_cons]; exact ⟨by rwa [mem_dedup], ih⟩

theorem mem_specNodes (s : SZone) (n : Name) : n ∈ specNodes s ↔ IsNode s n := by
  unfold specNodes IsNode
  rw [mem_dedup]
  simp only [List.mem_cons, List.mem_flatMap, mem_pathBelow]
  constructor
  · rintro (h | ⟨r, hr, h1, h2, h3⟩)
    · exact Or.inl h
    · exact Or.inr ⟨h3, h2, r, hr, h1⟩
  · rintro (h | ⟨h3, h2, r, hr, h1⟩)
    · exact Or.inl h
    · exact Or.inr ⟨r, hr, h1, h2, h3⟩

theorem isNode_iff (s : SZone) (n : Name) : IsNode s n ↔ s.apex <:+ n ∧ nameExists s n = true := by
  rw [nameExists_iff]
  unfold IsNode NameExists
  constructor
  · rintro (h | ⟨_, h2, h3⟩)
    · subst h; exact ⟨List.suffix_refl _, Or.inl rfl⟩
    · exact ⟨h2, Or.inr h3⟩
  · rintro ⟨h1, h2 | h2⟩
    · exact Or.inl h2
    · by_cases hn : n = s.apex
      · exact Or.inl hn
      · exact Or.inr ⟨hn, h1, h2⟩

theorem nodup_of_map {α β : Type} (f : α → β) {l : List α} (h : (l.map f).Nodup) : l.Nodup := by
  unfold List.Nodup at *
  rw [List.pairwise_map] at h
  exact h.imp (fun hab e => hab (by rw [e]))

theorem mem_iterByNode {z : Zone} {s : SZone} (h : Rel z s) (hw : Node.WF z.root) (x : Name × List Rrset) :
    x ∈ iterByNode z ↔ IsNode s x.1 ∧ x.2 = rrsetsAt s x.1 := by
  rw [isNode_iff]
  unfold iterByNode
  rw [h.apex]
  constructor
  · intro hx
    obtain ⟨p, h1, h2⟩ := (iter_sound z.root s.apex hw).1 x hx
    have := h.rrs_eq p
    rw [h2] at this
    change x.1 = nameAt s.apex p at h1
    rw [← h1] at this
    split at this
    · rename_i hex
      exact ⟨⟨by rw [h1]; exact apex_suffix_nameAt _ _, hex⟩, Option.some.inj this⟩
    · cases this
  · rintro ⟨⟨h1, h2⟩, h3⟩
    have hn := nameAt_relPath s.apex x.1 h1
    have := h.rrs_eq (relPath s.apex.length x.1)
    rw [hn, h2, if_pos rfl, ← h3] at this
    have hm := mem_iter_of_rrs z.root s.apex _ _ this
    change (nameAt s.apex _, x.2) ∈ _ at hm
    rw [hn] at hm
    exact hm

theorem iterByNode_names_nodup {z : Zone} (hw : Node.WF z.root) : ((iterByNode z).map (·.1)).Nodup :=
  (iter_sound z.root z.apex hw).2

theorem iterByNode_perm {z : Zone} {s : SZone} (h : Rel z s) (hw : Node.WF z.root) :
    (iterByNode z).Perm (specIterByNode s) := by
  rw [List.perm_ext_iff_of_nodup (nodup_of_map _ (iterByNode_names_nodup hw))]
  · intro x
    rw [mem_iterByNode h hw]
    unfold specIterByNode
    simp only [List.mem_map, mem_specNodes]
    constructor
    · rintro ⟨h1, h2⟩; exact ⟨x.1, h1, by rw [← h2]⟩
    · rintro ⟨n, h1, h2⟩; subst h2; exact ⟨h1, rfl⟩
  · unfold specIterByNode
    apply nodup_of_map (·.1)
    rw [List.map_map]
    have : ((fun x : Name × List Rrset => x.1) ∘ fun n => (n, rrsetsAt s n)) = id := rfl
    rw [this, List.map_id]
    exact nodup_dedup _

theorem iterByRrset_perm {z : Zone} {s : SZone} (h : Rel z s) (hw : Node.WF z.root) :
    (iterByRrset z).Perm (specIterByRrset s) := by
  unfold iterByRrset specIterByRrset
  have := (iterByNode_perm h hw).flatMap_right (fun p => p.2.map (fun s => (p.1, s)))
  refine this.trans ?_
  unfold specIterByNode
  rw [List.flatMap_map]

theorem soa_eq_spec {z : Zone} {s : SZone} (h : Rel z s) : soa z = specSoa s := by
  unfold soa specSoa
  have := h.look' [] SOA
  cases hz : z.root with
  | mk rr ch =>
    simp only [hz, rrs_nil, Option.getD_some, nameAt, List.reverse_nil, List.nil_append] at this
    rw [T_SOA_eq]; exact this

theorem ns_eq_spec {z : Zone} {s : SZone} (h : Rel z s) : ns z = specNs s := by
  unfold ns specNs
  have := h.look' [] NS
  cases hz : z.root with
  | mk rr ch =>
    simp only [hz, rrs_nil, Option.getD_some, nameAt, List.reverse_nil, List.nil_append] at this
    rw [T_NS_eq]; exact this

/-! ### `add`: success conditions, error kinds, atomicity -/

theorem specAdd_ok_iff (eqv : Eqv) (s : SZone) (r : Rec) :
    (∃ s', specAdd eqv s r = .ok s') ↔
      (s.apex <:+ r.owner ∧ r.cls = s.cls ∧
        ∀ r' ∈ s.recs, r'.owner = r.owner → r'.rtype = r.rtype → r'.ttl = r.ttl) := by
  unfold specAdd
  by_cases hz : s.apex <:+ r.owner
  · have e2 : s.apex.isSuffixOf r.owner = true := List.isSuffixOf_iff_suffix.mpr hz
    simp only [e2, Bool.not_true, Bool.false_eq_true, if_false, hz, true_and]
    by_cases hc : r.cls = s.cls
    · simp only [ne_eq, hc, not_true_eq_false, if_false, true_and]
      by_cases hany : s.recs.any (fun r' => r'.owner == r.owner && r'.rtype == r.rtype && r'.ttl != r.ttl) = true
      · simp only [hany, if_true, reduceCtorEq, exists_false, false_iff]
        intro hall
        simp only [List.any_eq_true, Bool.and_eq_true, beq_iff_eq, bne_iff_ne] at hany
        obtain ⟨r', hr', ⟨ho, ht⟩, hne⟩ := hany
        exact hne (hall r' hr' ho ht)
      · rw [if_neg hany]
        constructor
        · intro _ r' hr' ho ht
          apply Classical.not_not.mp
          intro hne
          apply hany
          simp only [List.any_eq_true, Bool.and_eq_true, beq_iff_eq, bne_iff_ne]
          exact ⟨r', hr', ⟨ho, ht⟩, hne⟩
        · intro _
          split <;> exact ⟨_, rfl⟩
    · simp [hc]
  · have e2 : s.apex.isSuffixOf r.owner = false := by
      cases he : s.apex.isSuffixOf r.owner with
      | false => rfl
      | true => exact absurd (List.isSuffixOf_iff_suffix.mp he) hz
    simp [e2, hz]

theorem add_ok_iff {z : Zone} {s : SZone} (h : Rel z s) (eqv : Eqv) (r : Rec) :
    (∃ z', add eqv z r = .ok z') ↔ ∃ s', specAdd eqv s r = .ok s' := by
  have := (h.add eqv r).2
  unfold add
  cases hm : addM eqv z r with
  | mk z' e =>
    rw [hm] at this
    simp only at this
    cases hs : specAdd eqv s r with
    | ok s' =>
      rw [hs] at this; simp only at this; subst this
      simp
    | error e' =>
      rw [hs] at this; simp only at this; subst this
      simp

theorem add_err_iff {z : Zone} {s : SZone} (h : Rel z s) (eqv : Eqv) (r : Rec) (e : AddErr) :
    add eqv z r = .err e ↔ specAdd eqv s r = .error e := by
  have := (h.add eqv r).2
  unfold add
  cases hm : addM eqv z r with
  | mk z' e0 =>
    rw [hm] at this
    simp only at this
    cases hs : specAdd eqv s r with
    | ok s' =>
      rw [hs] at this; simp only at this; subst this
      simp
    | error e' =>
      rw [hs] at this; simp only at this; subst this
      simp

/-- a rejected add leaves the zone as it was -/
theorem addM_err_unchanged (eqv : Eqv) (z : Zone) (r : Rec) (z' : Zone) (e : AddErr)
    (h : addM eqv z r = (z', some e)) : z' = z := by
  unfold addM at h
  split at h
  · cases h; rfl
  · split at h
    · cases h; rfl
    · simp only [Prod.mk.injEq] at h
      obtain ⟨h1, h2⟩ := h
      rw [addAt_err_eq _ _ _ _ _ _ _ e h2] at h1
      exact h1.symm

/-! ### SOA / NS agree with iteration -/

theorem lookupRrset_of_mem {l : List Rrset} (hs : SortedT l) {x : Rrset} (hx : x ∈ l) :
    lookupRrset l x.rtype = some x := by
  induction l with
  | nil => simp at hx
  | cons a rest ih =>
    simp only [List.mem_cons] at hx
    simp only [lookupRrset]
    rcases hx with hx | hx
    · subst hx; simp
    · have := hs.1 x hx
      rw [if_neg (by omega)]
      exact ih hs.2 hx

theorem fst_unique {α β : Type} {l : List (α × β)} (h : (l.map (·.1)).Nodup) {a : α} {b b' : β}
    (h1 : (a, b) ∈ l) (h2 : (a, b') ∈ l) : b = b' := by
  induction l with
  | nil => simp at h1
  | cons x l ih =>
    simp only [List.map_cons, List.nodup_cons, List.mem_map] at h
    simp only [List.mem_cons] at h1 h2
    rcases h1 with h1 | h1 <;> rcases h2 with h2 | h2
    · rw [← h1] at h2; exact (Prod.mk.inj h2).2.symm
    · exact absurd ⟨(a, b'), h2, by rw [← h1]⟩ h.1
    · exact absurd ⟨(a, b), h1, by rw [← h2]⟩ h.1
    · exact ih h.2 h1 h2

theorem apexRrset_iff {z : Zone} {s : SZone} (h : Rel z s) (hw : Node.WF z.root) (t : Nat) (rr : Rrset) :
    lookupRrset z.root.rrsets t = some rr ↔ ((z.apex, rr) ∈ iterByRrset z ∧ rr.rtype = t) := by
  have hroot : (z.apex, z.root.rrsets) ∈ iterByNode z := by
    unfold iterByNode
    cases z.root with
    | mk rr0 ch => simp [Node.iter, Node.rrsets]
  have hsorted : SortedT z.root.rrsets := by
    cases hz : z.root with
    | mk rr0 ch => exact h.sorted [] rr0 (by rw [hz]; rfl)
  constructor
  · intro hl
    refine ⟨?_, lookupRrset_rtype hl⟩
    unfold iterByRrset
    rw [List.mem_flatMap]
    exact ⟨_, hroot, by simp [lookupRrset_mem hl]⟩
  · rintro ⟨hm, ht⟩
    unfold iterByRrset at hm
    rw [List.mem_flatMap] at hm
    obtain ⟨⟨n, rrs'⟩, hx, hm⟩ := hm
    simp only [List.mem_map, Prod.mk.injEq] at hm
    obtain ⟨x, hx', hn, hxe⟩ := hm
    subst hn; subst hxe
    have := fst_unique (iterByNode_names_nodup hw) hx hroot
    subst this
    rw [← ht]
    exact lookupRrset_of_mem hsorted hx'

end QV.Zone
