/-
  QV.Proofs.PoolTasks — the task-table invariant of the pool transition system (C29): every task
  is in exactly one place (a submitter's hands, the queue, a worker's hands, finished or
  rejected), its status only moves forward, and it is started at most once.
-/
import QV.Proofs.Pool

namespace QV.Pool

/-- the task a thread carries and the status the task table must show for it -/
def expect (t : Nat) : Local → Option (Nat × Status)
  | .subWantP k | .subInP k | .subWait k | .sosWantP k | .sosInP k | .sosWantG k | .sosInG k =>
    some (k, .pending t)
  | .wRun _ k | .auxStart k => some (k, .handed t)
  | .wRunning _ k | .auxRunning k => some (k, .running t)
  | _ => none

def Status.holder : Status → Option Nat
  | .pending t | .handed t | .running t => some t
  | _ => none

def Status.started : Status → Bool
  | .running _ | .done => true
  | _ => false

/-- expectation of the thread at index `u` -/
def E (ths : List Local) (u : Nat) : Option (Nat × Status) := (ths[u]?).bind (expect u)

theorem expect_holder {u : Nat} {l : Local} {k : Nat} {st : Status} (h : expect u l = some (k, st)) :
    st.holder = some u := by
  cases l <;> simp [expect] at h <;> obtain ⟨_, rfl⟩ := h <;> rfl

theorem E_holder {ths : List Local} {u k : Nat} {st : Status} (h : E ths u = some (k, st)) : st.holder = some u := by
  unfold E at h
  cases hg : ths[u]? with
  | none => simp [hg] at h
  | some l => simp [hg] at h; exact expect_holder h

theorem E_of_get {ths : List Local} {u : Nat} {l : Local} (h : ths[u]? = some l) : E ths u = expect u l := by
  simp [E, h]

theorem E_set_ne {ths : List Local} {t u : Nat} (b : Local) (h : u ≠ t) : E (ths.set t b) u = E ths u := by
  simp [E, List.getElem?_set, Ne.symm h]

theorem E_set_self {ths : List Local} {t : Nat} {a : Local} (b : Local) (h : ths[t]? = some a) :
    E (ths.set t b) t = expect t b := by
  simp [E, get_lt h]

/-- replacing a thread's local state by one with the same expectation changes nothing -/
theorem E_set_same {ths : List Local} {v : Nat} {l : Local} (b : Local) (h : ths[v]? = some l)
    (hb : expect v b = expect v l) (u : Nat) : E (ths.set v b) u = E ths u := by
  by_cases e : u = v
  · subst e; rw [E_set_self b h, E_of_get h, hb]
  · exact E_set_ne b e

@[simp] theorem expect_wakeTask (u : Nat) (l : Local) : expect u (wakeTask l) = expect u l := by cases l <;> rfl
@[simp] theorem expect_wakeAvail (u : Nat) (l : Local) : expect u (wakeAvail l) = expect u l := by cases l <;> rfl
@[simp] theorem expect_wakeShut (u : Nat) (l : Local) : expect u (wakeShut l) = expect u l := by cases l <;> rfl

theorem E_map (f : Local → Local) (hf : ∀ u l, expect u (f l) = expect u l) (ths : List Local) (u : Nat) :
    E (ths.map f) u = E ths u := by
  unfold E
  rw [List.getElem?_map]
  cases ths[u]? with
  | none => rfl
  | some l => simp [hf]

@[simp] theorem E_map_wakeTask (ths : List Local) (u : Nat) : E (ths.map wakeTask) u = E ths u :=
  E_map _ expect_wakeTask ths u
@[simp] theorem E_map_wakeAvail (ths : List Local) (u : Nat) : E (ths.map wakeAvail) u = E ths u :=
  E_map _ expect_wakeAvail ths u
@[simp] theorem E_map_wakeShut (ths : List Local) (u : Nat) : E (ths.map wakeShut) u = E ths u :=
  E_map _ expect_wakeShut ths u

theorem E_append (ths : List Local) (x : Local) (u : Nat) :
    E (ths ++ [x]) u = if u = ths.length then expect u x else E ths u := by
  unfold E
  by_cases h : u < ths.length
  · rw [List.getElem?_append_left h]
    have : u ≠ ths.length := by omega
    simp [this]
  · by_cases h2 : u = ths.length
    · subst h2; simp
    · have : ths.length < u := by omega
      rw [List.getElem?_eq_none (by simp; omega), List.getElem?_eq_none (by omega)]
      simp [h2]

theorem E_ge {ths : List Local} {u : Nat} (h : ths.length ≤ u) : E ths u = none := by
  simp [E, List.getElem?_eq_none h]

/-! ### the invariant -/

structure TInv' (ths : List Local) (tasks : List Status) (queue : List Nat) (runs : List Nat) : Prop where
  len : runs.length = tasks.length
  /-- a thread that carries a task is recorded as its holder, with the matching status -/
  th : ∀ (u k : Nat) (st : Status), E ths u = some (k, st) → tasks[k]? = some st
  /-- a task recorded as held by thread `u` is carried by thread `u` -/
  st : ∀ (k : Nat) (st : Status) (u : Nat), tasks[k]? = some st → st.holder = some u → E ths u = some (k, st)
  q1 : ∀ k, k ∈ queue → tasks[k]? = some .queued
  q2 : ∀ k, tasks[k]? = some .queued → k ∈ queue
  nodup : queue.Nodup
  /-- a task has been started once iff it is running or done, and never more than once -/
  runsOk : ∀ (k : Nat) (st : Status), tasks[k]? = some st → runs[k]? = some (if st.started then 1 else 0)

def TInv (s : State) : Prop := TInv' s.threads s.tasks s.queue s.runs

theorem tinv_init : TInv init := by
  refine ⟨rfl, ?_, ?_, ?_, ?_, ?_, ?_⟩ <;> simp [init, E]

/-- steps that move no task: the expectation of every thread is unchanged -/
theorem tinv_neutral {ths ths' : List Local} {tasks : List Status} {queue runs : List Nat}
    (h : TInv' ths tasks queue runs) (hE : ∀ u, E ths' u = E ths u) : TInv' ths' tasks queue runs :=
  ⟨h.len, fun u k st he => h.th u k st (hE u ▸ he), fun k st u hk hh => (hE u).symm ▸ h.st k st u hk hh,
   h.q1, h.q2, h.nodup, h.runsOk⟩

theorem set_get_self {α} {l : List α} {k : Nat} {a b : α} (h : l[k]? = some a) : (l.set k b)[k]? = some b := by
  simp [get_lt h]

theorem set_get_ne {α} {l : List α} {k j : Nat} (b : α) (h : j ≠ k) : (l.set k b)[j]? = l[j]? := by
  simp [List.getElem?_set, Ne.symm h]

/-- `th`/`st` fields when one task `k` changes status `st0 → st1` and only thread `t`'s expectation changes -/
theorem thst_update {ths ths' : List Local} {tasks : List Status} {t k : Nat} {st0 st1 : Status}
    (hth : ∀ (u k : Nat) (st : Status), E ths u = some (k, st) → tasks[k]? = some st)
    (hst : ∀ (k : Nat) (st : Status) (u : Nat), tasks[k]? = some st → st.holder = some u → E ths u = some (k, st))
    (hk : tasks[k]? = some st0)
    (h0 : st0.holder = some t ∨ st0.holder = none)
    (h0' : ∀ k' st', E ths t = some (k', st') → k' = k)
    (hE : ∀ u, u ≠ t → E ths' u = E ths u)
    (h1 : E ths' t = if st1.holder = some t then some (k, st1) else none)
    (h1' : st1.holder = some t ∨ st1.holder = none) :
    (∀ (u k2 : Nat) (st : Status), E ths' u = some (k2, st) → (tasks.set k st1)[k2]? = some st) ∧
    (∀ (k2 : Nat) (st : Status) (u : Nat), (tasks.set k st1)[k2]? = some st → st.holder = some u → E ths' u = some (k2, st)) := by
  constructor
  · intro u k2 st he
    by_cases hu : u = t
    · subst hu
      rw [h1] at he
      split at he
      · cases he; exact set_get_self hk
      · cases he
    · rw [hE u hu] at he
      have hk2 := hth u k2 st he
      have hne : k2 ≠ k := by
        intro e; subst e
        rw [hk] at hk2; cases hk2
        have := E_holder he
        rcases h0 with h0 | h0 <;> rw [h0] at this <;> cases this
        exact hu rfl
      rw [set_get_ne _ hne]; exact hk2
  · intro k2 st u hk2 hh
    by_cases hne : k2 = k
    · subst hne
      rw [set_get_self hk] at hk2; cases hk2
      rcases h1' with h1' | h1'
      · rw [h1'] at hh; cases hh
        rw [h1]; simp [h1']
      · rw [h1'] at hh; cases hh
    · rw [set_get_ne _ hne] at hk2
      have he := hst k2 st u hk2 hh
      have hu : u ≠ t := by
        intro e; subst e
        exact hne (h0' k2 st he)
      rw [hE u hu]; exact he

/-- queue fields when task `k` changes between two non-queued statuses -/
theorem q_update_same {tasks : List Status} {queue : List Nat} {k : Nat} {st0 st1 : Status}
    (hq1 : ∀ k, k ∈ queue → tasks[k]? = some .queued) (hq2 : ∀ k, tasks[k]? = some .queued → k ∈ queue)
    (hk : tasks[k]? = some st0) (n0 : st0 ≠ .queued) (n1 : st1 ≠ .queued) :
    (∀ j, j ∈ queue → (tasks.set k st1)[j]? = some .queued) ∧
    (∀ j, (tasks.set k st1)[j]? = some .queued → j ∈ queue) := by
  constructor
  · intro j hj
    have := hq1 j hj
    have hne : j ≠ k := by intro e; subst e; rw [hk] at this; cases this; exact n0 rfl
    rw [set_get_ne _ hne]; exact this
  · intro j hj
    by_cases hne : j = k
    · subst hne; rw [set_get_self hk] at hj; cases hj; exact absurd rfl n1
    · rw [set_get_ne _ hne] at hj; exact hq2 j hj

theorem bump_get_self {rs : List Nat} {k v : Nat} (h : rs[k]? = some v) : (bump rs k)[k]? = some (v + 1) := by
  unfold bump
  rw [set_get_self h, h]; rfl

/-- `runs` field when task `k` changes status -/
theorem runs_update {tasks : List Status} {runs : List Nat} {k : Nat} {st0 st1 : Status}
    (hr : ∀ (k : Nat) (st : Status), tasks[k]? = some st → runs[k]? = some (if st.started then 1 else 0))
    (hk : tasks[k]? = some st0) (hs : st1.started = st0.started) :
    ∀ (j : Nat) (st : Status), (tasks.set k st1)[j]? = some st → runs[j]? = some (if st.started then 1 else 0) := by
  intro j st hj
  by_cases hne : j = k
  · subst hne; rw [set_get_self hk] at hj; cases hj
    rw [hs]; exact hr j st0 hk
  · rw [set_get_ne _ hne] at hj; exact hr j st hj

theorem runs_update_start {tasks : List Status} {runs : List Nat} {k : Nat} {st0 st1 : Status}
    (hr : ∀ (k : Nat) (st : Status), tasks[k]? = some st → runs[k]? = some (if st.started then 1 else 0))
    (hk : tasks[k]? = some st0) (hs0 : st0.started = false) (hs1 : st1.started = true) :
    ∀ (j : Nat) (st : Status), (tasks.set k st1)[j]? = some st → (bump runs k)[j]? = some (if st.started then 1 else 0) := by
  intro j st hj
  by_cases hne : j = k
  · subst hne; rw [set_get_self hk] at hj; cases hj
    have := hr j st0 hk
    rw [hs0] at this
    rw [bump_get_self this, hs1]; rfl
  · rw [set_get_ne _ hne] at hj
    unfold bump
    rw [set_get_ne _ hne]; exact hr j st hj

/-- generic single-task update that leaves the queue alone (reject, run, finish) -/
theorem tinv_update {ths ths' : List Local} {tasks : List Status} {queue runs : List Nat} {t k : Nat} {st0 st1 : Status}
    (h : TInv' ths tasks queue runs)
    (h0 : E ths t = some (k, st0))
    (hE : ∀ u, u ≠ t → E ths' u = E ths u)
    (h1 : E ths' t = if st1.holder = some t then some (k, st1) else none)
    (h1' : st1.holder = some t ∨ st1.holder = none)
    (n1 : st1 ≠ .queued) (hs : st1.started = st0.started) :
    TInv' ths' (tasks.set k st1) queue runs := by
  have hk := h.th t k st0 h0
  have hh := E_holder h0
  have n0 : st0 ≠ .queued := by intro e; rw [e] at hh; cases hh
  obtain ⟨a, b⟩ := thst_update h.th h.st hk (Or.inl hh) (fun k' st' he => by rw [h0] at he; cases he; rfl) hE h1 h1'
  obtain ⟨c, d⟩ := q_update_same h.q1 h.q2 hk n0 n1
  exact ⟨by simp [h.len], a, b, c, d, h.nodup, runs_update h.runsOk hk hs⟩

/-- a worker starts the task it holds: `handed t → running t`, and the start counter goes 0 → 1 -/
theorem tinv_run {ths ths' : List Local} {tasks : List Status} {queue runs : List Nat} {t k : Nat}
    (h : TInv' ths tasks queue runs)
    (h0 : E ths t = some (k, .handed t))
    (hE : ∀ u, u ≠ t → E ths' u = E ths u)
    (h1 : E ths' t = some (k, .running t)) :
    TInv' ths' (tasks.set k (.running t)) queue (bump runs k) := by
  have hk := h.th t k _ h0
  obtain ⟨a, b⟩ := thst_update (st1 := .running t) h.th h.st hk (Or.inl rfl)
    (fun k' st' he => by rw [h0] at he; cases he; rfl) hE (by simp [Status.holder, h1]) (Or.inl rfl)
  obtain ⟨c, d⟩ := q_update_same (st1 := .running t) h.q1 h.q2 hk (by simp) (by simp)
  exact ⟨by simp [bump, h.len], a, b, c, d, h.nodup, runs_update_start h.runsOk hk rfl rfl⟩

/-- a submitter pushes the task it holds -/
theorem tinv_push {ths ths' : List Local} {tasks : List Status} {queue runs : List Nat} {t k : Nat}
    (h : TInv' ths tasks queue runs)
    (h0 : E ths t = some (k, .pending t))
    (hE : ∀ u, u ≠ t → E ths' u = E ths u)
    (h1 : E ths' t = none) :
    TInv' ths' (tasks.set k .queued) (queue ++ [k]) runs := by
  have hk := h.th t k _ h0
  obtain ⟨a, b⟩ := thst_update (st1 := .queued) h.th h.st hk (Or.inl rfl)
    (fun k' st' he => by rw [h0] at he; cases he; rfl) hE (by simp [Status.holder, h1]) (Or.inr rfl)
  have hnq : k ∉ queue := by
    intro hm; have := h.q1 k hm; rw [hk] at this; cases this
  refine ⟨by simp [h.len], a, b, ?_, ?_, ?_, runs_update h.runsOk hk rfl⟩
  · intro j hj
    rcases List.mem_append.mp hj with hj' | hj'
    · have hne : j ≠ k := by intro e; subst e; exact hnq hj'
      rw [set_get_ne _ hne]; exact h.q1 j hj'
    · simp at hj'; subst hj'; exact set_get_self hk
  · intro j hj
    by_cases hne : j = k
    · subst hne; simp
    · rw [set_get_ne _ hne] at hj
      exact List.mem_append.mpr (Or.inl (h.q2 j hj))
  · rw [List.nodup_append]
    refine ⟨h.nodup, by simp, ?_⟩
    intro a ha b hb
    simp at hb; subst hb
    intro e; subst e; exact hnq ha

/-- a worker pops the head of the queue -/
theorem tinv_pop {ths ths' : List Local} {tasks : List Status} {q runs : List Nat} {t k : Nat}
    (h : TInv' ths tasks (k :: q) runs)
    (h0 : E ths t = none)
    (hE : ∀ u, u ≠ t → E ths' u = E ths u)
    (h1 : E ths' t = some (k, .handed t)) :
    TInv' ths' (tasks.set k (.handed t)) q runs := by
  have hk := h.q1 k (by simp)
  obtain ⟨a, b⟩ := thst_update (st1 := .handed t) h.th h.st hk (Or.inr rfl)
    (fun k' st' he => by rw [h0] at he; cases he) hE (by simp [Status.holder, h1]) (Or.inl rfl)
  have hnd := h.nodup
  rw [List.nodup_cons] at hnd
  refine ⟨by simp [h.len], a, b, ?_, ?_, hnd.2, runs_update h.runsOk hk rfl⟩
  · intro j hj
    have hne : j ≠ k := by intro e; subst e; exact hnd.1 hj
    rw [set_get_ne _ hne]; exact h.q1 j (by simp [hj])
  · intro j hj
    by_cases hne : j = k
    · subst hne; rw [set_get_self hk] at hj; cases hj
    · rw [set_get_ne _ hne] at hj
      have := h.q2 j hj
      simp [hne] at this; exact this

/-- a thread begins a submission with a fresh task id -/
theorem tinv_newTask {ths ths' : List Local} {tasks : List Status} {queue runs : List Nat} {t : Nat}
    (h : TInv' ths tasks queue runs)
    (h0 : E ths t = none)
    (hE : ∀ u, u ≠ t → E ths' u = E ths u)
    (h1 : E ths' t = some (tasks.length, .pending t)) :
    TInv' ths' (tasks ++ [.pending t]) queue (runs ++ [0]) := by
  have old : ∀ (j : Nat) (st : Status), tasks[j]? = some st → (tasks ++ [Status.pending t])[j]? = some st := by
    intro j st hj
    rw [List.getElem?_append_left (get_lt hj)]; exact hj
  have new : ∀ (j : Nat) (st : Status), (tasks ++ [Status.pending t])[j]? = some st →
      tasks[j]? = some st ∨ (j = tasks.length ∧ st = .pending t) := by
    intro j st hj
    by_cases hl : j < tasks.length
    · rw [List.getElem?_append_left hl] at hj; exact Or.inl hj
    · rw [List.getElem?_append_right (by omega)] at hj
      have : j - tasks.length = 0 := by
        have := get_lt hj; simp at this; omega
      rw [this] at hj; simp at hj
      exact Or.inr ⟨by omega, hj.symm⟩
  refine ⟨by simp [h.len], ?_, ?_, ?_, ?_, h.nodup, ?_⟩
  · intro u k st he
    by_cases hu : u = t
    · subst hu; rw [h1] at he; cases he; simp
    · rw [hE u hu] at he; exact old _ _ (h.th u k st he)
  · intro k st u hk hh
    rcases new k st hk with hk | ⟨rfl, rfl⟩
    · have he := h.st k st u hk hh
      have hu : u ≠ t := by intro e; subst e; rw [h0] at he; cases he
      rw [hE u hu]; exact he
    · simp [Status.holder] at hh; subst hh; exact h1
  · intro j hj; exact old _ _ (h.q1 j hj)
  · intro j hj
    rcases new j _ hj with hj | ⟨_, hc⟩
    · exact h.q2 j hj
    · cases hc
  · intro j st hj
    rcases new j st hj with hj | ⟨rfl, rfl⟩
    · have := h.runsOk j st hj
      rw [List.getElem?_append_left (get_lt this)]; exact this
    · rw [← h.len]; simp [Status.started]

/-- `submit_or_spawn` hands its task to a newly created auxiliary thread -/
theorem tinv_handAux {ths : List Local} {tasks : List Status} {queue runs : List Nat} {t k : Nat} {a b x : Local}
    (h : TInv' ths tasks queue runs)
    (hg : ths[t]? = some a)
    (h0 : expect t a = some (k, .pending t))
    (hb : expect t b = none)
    (hx : expect ths.length x = some (k, .handed ths.length)) :
    TInv' (ths.set t b ++ [x]) (tasks.set k (.handed ths.length)) queue runs := by
  have e0 : E ths t = some (k, .pending t) := by rw [E_of_get hg]; exact h0
  -- first the submitter lets go of the task …
  have step1 : TInv' (ths.set t b) (tasks.set k .rejected) queue runs :=
    tinv_update (st1 := .rejected) h e0 (fun u hu => E_set_ne b hu)
      (by rw [E_set_self b hg, hb]; simp [Status.holder]) (Or.inr rfl) (by simp) rfl
  -- … then the new thread picks it up
  have hk := h.th t k _ e0
  have hk1 : (tasks.set k Status.rejected)[k]? = some .rejected := set_get_self hk
  have hlen : (ths.set t b).length = ths.length := by simp
  obtain ⟨c, d⟩ := thst_update (ths' := ths.set t b ++ [x]) (t := ths.length) (st1 := .handed ths.length)
    step1.th step1.st hk1 (Or.inr rfl)
    (fun k' st' he => by rw [E_ge (by simp)] at he; cases he)
    (fun u hu => by rw [E_append, hlen]; simp [hu])
    (by rw [E_append, hlen]; simp [Status.holder, hx]) (Or.inl rfl)
  obtain ⟨e, f⟩ := q_update_same (st1 := .handed ths.length) step1.q1 step1.q2 hk1 (by simp) (by simp)
  have hset : (tasks.set k Status.rejected).set k (.handed ths.length) = tasks.set k (.handed ths.length) := by
    simp
  rw [hset] at c d e f
  refine ⟨by simp [h.len], c, d, e, f, h.nodup, ?_⟩
  have := runs_update (st1 := .handed ths.length) step1.runsOk hk1 rfl
  rw [hset] at this; exact this

theorem E_append_none {ths : List Local} {x : Local} (hx : ∀ u, expect u x = none) (u : Nat) :
    E (ths ++ [x]) u = E ths u := by
  rw [E_append]
  split
  · rename_i h; subst h; rw [hx, E_ge (Nat.le_refl _)]
  · rfl

theorem E_endThread (s : State) (u : Nat) : E (endThread s).threads u = E s.threads u := by
  unfold endThread
  simp only
  split
  · exact E_map_wakeShut _ _
  · rfl

/-- closes `∀ u, E ths' u = E ths u` for a step that moved thread `t` between local states with
    the same expectation (possibly followed by waking and appending task-less threads) -/
macro "neutral_tac" hg:ident : tactic => `(tactic| (
  intro u
  try simp only [E_map_wakeTask, E_map_wakeAvail, E_map_wakeShut, E_endThread, State.setT,
    E_append_none (x := Local.wWantP WKind.perm) (fun _ => rfl)]
  refine E_set_same _ $hg ?_ u
  rfl))

theorem tinv_acq {s s' : State} {t : Nat} (h : TInv s) (hn : nextAcq s t = some s') : TInv s' := by
  unfold nextAcq at hn
  cases hg : s.threads[t]? with
  | none => simp [hg] at hn
  | some l =>
    simp only [hg] at hn
    cases l <;> simp at hn
    all_goals (
      obtain ⟨hgd, rfl⟩ := hn
      exact tinv_neutral h (by neutral_tac hg))

theorem tinv_simple {s s' : State} {t : Nat} (h : TInv s)
    (hn : nextTimeout s t = some s' ∨ nextSpurious s t = some s') : TInv s' := by
  cases hg : s.threads[t]? with
  | none => rcases hn with hn | hn <;> simp [nextTimeout, nextSpurious, hg] at hn
  | some l =>
    rcases hn with hn | hn
    · unfold nextTimeout at hn
      rw [hg] at hn
      cases l <;> try simp at hn
      case wWait w =>
        cases w <;> simp at hn
        subst hn
        exact tinv_neutral h (by neutral_tac hg)
      case rhWait =>
        subst hn
        exact tinv_neutral h (by neutral_tac hg)
    · unfold nextSpurious at hn
      rw [hg] at hn
      cases l <;> try simp at hn
      all_goals (
        subst hn
        exact tinv_neutral h (by neutral_tac hg))

theorem tinv_run_fin {cfg : Cfg} {s s' : State} {t : Nat} (h : TInv s)
    (hn : nextRun s t = some s' ∨ nextFin cfg s t = some s') : TInv s' := by
  cases hg : s.threads[t]? with
  | none => rcases hn with hn | hn <;> simp [nextRun, nextFin, hg] at hn
  | some l =>
    rcases hn with hn | hn
    · unfold nextRun at hn
      rw [hg] at hn
      cases l <;> try simp at hn
      all_goals (
        subst hn
        dsimp only [TInv, State.setT, setStatus] at h ⊢
        exact tinv_run h (by rw [E_of_get hg]; rfl) (fun u hu => E_set_ne _ hu) (by rw [E_set_self _ hg]; rfl))
    · unfold nextFin at hn
      rw [hg] at hn
      cases l <;> try simp at hn
      case wRunning w k =>
        subst hn
        dsimp only [TInv, State.setT, setStatus] at h ⊢
        exact tinv_update (st0 := .running t) (st1 := .done) h (by rw [E_of_get hg]; rfl)
          (fun u hu => E_set_ne _ hu) (by rw [E_set_self _ hg]; rfl) (Or.inr rfl) (by simp) rfl
      case auxRunning k =>
        subst hn
        dsimp only [TInv, State.setT, setStatus] at h ⊢
        exact tinv_update (st0 := .running t) (st1 := .done) h (by rw [E_of_get hg]; rfl)
          (fun u hu => E_set_ne _ hu) (by rw [E_set_self _ hg]; cases cfg.linger <;> rfl) (Or.inr rfl) (by simp) rfl

theorem tinv_spawn {s s' : State} {t : Nat} {fails : Bool} (h : TInv s) (hn : nextSpawn s t fails = some s') : TInv s' := by
  unfold nextSpawn at hn
  cases hg : s.threads[t]? with
  | none => simp [hg] at hn
  | some l =>
    simp only [hg] at hn
    cases l <;> try simp at hn
    case spInG n =>
      cases n <;> simp at hn
      obtain ⟨hgd, rfl⟩ := hn
      exact tinv_neutral h (by neutral_tac hg)
    case sosInG k =>
      obtain ⟨hgd, hn⟩ := hn
      cases fails <;> simp at hn <;> subst hn <;> dsimp only [TInv, State.setT, setStatus] at h ⊢
      · exact tinv_handAux h hg rfl rfl rfl
      · exact tinv_update (st0 := .pending t) (st1 := .rejected) h (by rw [E_of_get hg]; rfl)
          (fun u hu => E_set_ne _ hu) (by rw [E_set_self _ hg]; rfl) (Or.inr rfl) (by simp) rfl
    case rhInG f =>
      obtain ⟨hgd, hn⟩ := hn
      cases fails <;> simp at hn <;> subst hn
      · exact tinv_neutral h (by neutral_tac hg)
      · exact tinv_neutral h (by neutral_tac hg)

theorem tinv_pushTask {s s' : State} {t k : Nat} {target : Option Nat} {a : Local} (h : TInv s)
    (hg : s.threads[t]? = some a) (ha : expect t a = some (k, .pending t))
    (hn : pushTask s t k target = some s') : TInv s' := by
  unfold pushTask at hn
  rw [Option.map_eq_some_iff] at hn
  obtain ⟨ths, hno, rfl⟩ := hn
  dsimp only [TInv, setStatus] at h ⊢
  have inner : TInv' (s.threads.set t .idle) (s.tasks.set k .queued) (s.queue ++ [k]) s.runs :=
    tinv_push h (by rw [E_of_get hg]; exact ha) (fun u hu => E_set_ne _ hu) (by rw [E_set_self _ hg]; rfl)
  rcases notifyOne_spec hno with ⟨_, _, rfl⟩ | ⟨v, l, _, hv, hw, rfl⟩
  · exact inner
  · exact tinv_neutral inner (fun u => E_set_same _ hv (by simp) u)

theorem tinv_relWorker {cfg : Cfg} {s s' : State} {t : Nat} {w : WKind} {reg to : Bool} {target : Option Nat} {dl : Bool}
    (h : TInv s) (hg : s.threads[t]? = some (.wInP w reg to))
    (hn : relWorker cfg s t w reg to target dl = some s') : TInv s' := by
  unfold relWorker relWorkerBody at hn
  have e0 : E s.threads t = none := by rw [E_of_get hg]; rfl
  cases reg
  · cases to <;> cases hq : s.queue <;> cases hps : s.pShutting <;> cases w <;> cases dl <;> cases hfx : cfg.fixed <;>
      simp [hfx, hq, hps, State.setT, Option.map_eq_some_iff] at hn
    all_goals (
      obtain ⟨ths, hno, rfl⟩ := hn
      dsimp only [TInv, setStatus] at h ⊢
      rw [hq] at h
      rcases notifyOne_spec hno with ⟨_, _, rfl⟩ | ⟨v, l, _, hv, hw, rfl⟩
      · first
        | exact tinv_neutral h (by neutral_tac hg)
        | exact tinv_pop h e0 (fun u hu => E_set_ne _ hu) (by rw [E_set_self _ hg]; rfl)
      · refine tinv_neutral ?_ (fun u => E_set_same _ hv (by simp) u)
        first
        | exact tinv_neutral h (by neutral_tac hg)
        | exact tinv_pop h e0 (fun u hu => E_set_ne _ hu) (by rw [E_set_self _ hg]; rfl))
  · cases to <;> cases hq : s.queue <;> cases hps : s.pShutting <;> cases w <;> cases dl <;> cases hfx : cfg.fixed <;>
      simp [hfx, hq, hps, State.setT] at hn
    all_goals (
      obtain ⟨_, rfl⟩ := hn
      dsimp only [TInv, setStatus] at h ⊢
      rw [hq] at h
      first
      | exact tinv_neutral h (by neutral_tac hg)
      | exact tinv_pop h e0 (fun u hu => E_set_ne _ hu) (by rw [E_set_self _ hg]; rfl))

theorem tinv_rel {cfg : Cfg} {s s' : State} {t : Nat} {target : Option Nat} {flag : Bool}
    (h : TInv s) (hn : nextRel cfg s t target flag = some s') : TInv s' := by
  unfold nextRel at hn
  cases hg : s.threads[t]? with
  | none => simp [hg] at hn
  | some l =>
    simp only [hg] at hn
    cases l <;> try simp [-List.map_set, -List.map_map] at hn
    case spInG n =>
      cases n <;> simp at hn
      obtain ⟨_, rfl⟩ := hn
      exact tinv_neutral h (by neutral_tac hg)
    case subInP k =>
      by_cases hps : s.pShutting = true
      · simp [hps] at hn
        obtain ⟨_, rfl⟩ := hn
        dsimp only [TInv, State.setT, setStatus] at h ⊢
        exact tinv_update (st0 := .pending t) (st1 := .rejected) h (by rw [E_of_get hg]; rfl)
          (fun u hu => E_set_ne _ hu) (by rw [E_set_self _ hg]; rfl) (Or.inr rfl) (by simp) rfl
      · have hps' : s.pShutting = false := by simpa using hps
        simp [hps'] at hn
        by_cases hav : s.queue.length < s.available
        · simp [hav] at hn
          exact tinv_pushTask h hg rfl hn
        · simp [hav] at hn
          obtain ⟨_, rfl⟩ := hn
          exact tinv_neutral h (by neutral_tac hg)
    case sosInP k =>
      by_cases hps : s.pShutting = true
      · simp [hps] at hn
        obtain ⟨_, rfl⟩ := hn
        dsimp only [TInv, State.setT, setStatus] at h ⊢
        exact tinv_update (st0 := .pending t) (st1 := .rejected) h (by rw [E_of_get hg]; rfl)
          (fun u hu => E_set_ne _ hu) (by rw [E_set_self _ hg]; rfl) (Or.inr rfl) (by simp) rfl
      · have hps' : s.pShutting = false := by simpa using hps
        simp [hps'] at hn
        by_cases hav : s.queue.length < s.available
        · simp [hav] at hn
          exact tinv_pushTask h hg rfl hn
        · simp [hav] at hn
          obtain ⟨_, rfl⟩ := hn
          exact tinv_neutral h (by neutral_tac hg)
    case wInP w reg to => exact tinv_relWorker h hg hn
    case sosInG k =>
      obtain ⟨_, _, rfl⟩ := hn
      dsimp only [TInv, State.setT, setStatus] at h ⊢
      exact tinv_update (st0 := .pending t) (st1 := .rejected) h (by rw [E_of_get hg]; rfl)
        (fun u hu => E_set_ne _ hu) (by rw [E_set_self _ hg]; rfl) (Or.inr rfl) (by simp) rfl
    case sosInG2 k =>
      obtain ⟨_, rfl⟩ := hn
      exact tinv_neutral h (by neutral_tac hg)
    case shInG =>
      obtain ⟨_, _, rfl⟩ := hn
      exact tinv_neutral h (by neutral_tac hg)
    case shInP =>
      obtain ⟨_, rfl⟩ := hn
      exact tinv_neutral h (by neutral_tac hg)
    case shInG2 =>
      obtain ⟨_, rfl⟩ := hn
      exact tinv_neutral h (by neutral_tac hg)
    case pshInG =>
      obtain ⟨_, _, rfl⟩ := hn
      exact tinv_neutral h (by neutral_tac hg)
    case pshInP =>
      obtain ⟨_, rfl⟩ := hn
      exact tinv_neutral h (by neutral_tac hg)
    case awInG =>
      split at hn <;> simp at hn <;> obtain ⟨_, rfl⟩ := hn <;> exact tinv_neutral h (by neutral_tac hg)
    case endInG =>
      obtain ⟨_, rfl⟩ := hn
      exact tinv_neutral h (by neutral_tac hg)
    case rhInG f =>
      split at hn
      · simp at hn
        obtain ⟨_, rfl⟩ := hn
        exact tinv_neutral h (by neutral_tac hg)
      · split at hn <;> simp at hn
        obtain ⟨_, rfl⟩ := hn
        exact tinv_neutral h (by neutral_tac hg)
    case rhInG2 =>
      obtain ⟨_, rfl⟩ := hn
      exact tinv_neutral h (by neutral_tac hg)

theorem tinv_next {cfg : Cfg} {s s' : State} {l : Label} (h : TInv s) (hn : next cfg s l = some s') : TInv s' := by
  cases l with
  | arrive =>
    simp [next] at hn; subst hn
    exact tinv_neutral h (fun u => E_append_none (fun _ => rfl) u)
  | acq t => exact tinv_acq h hn
  | spawn t f => exact tinv_spawn h hn
  | rel t tg fl => exact tinv_rel h hn
  | timeout t => exact tinv_simple h (Or.inl hn)
  | spurious t => exact tinv_simple h (Or.inr hn)
  | run t => exact tinv_run_fin (cfg := cfg) h (Or.inl hn)
  | fin t => exact tinv_run_fin h (Or.inr hn)
  | callStartPool t n =>
    simp only [next] at hn
    split at hn <;> simp at hn
    rename_i hc; simp at hc
    have hg := isIdle_get hc.1
    subst hn
    exact tinv_neutral h (by neutral_tac hg)
  | callSubmit t =>
    simp only [next] at hn
    split at hn <;> simp at hn
    rename_i hc; simp at hc
    have hg := isIdle_get hc.1
    subst hn
    dsimp only [TInv, State.setT] at h ⊢
    exact tinv_newTask h (by rw [E_of_get hg]; rfl) (fun u hu => E_set_ne _ hu) (by rw [E_set_self _ hg]; rfl)
  | callSos t =>
    simp only [next] at hn
    split at hn <;> simp at hn
    rename_i hc; simp at hc
    have hg := isIdle_get hc.1
    subst hn
    dsimp only [TInv, State.setT] at h ⊢
    exact tinv_newTask h (by rw [E_of_get hg]; rfl) (fun u hu => E_set_ne _ hu) (by rw [E_set_self _ hg]; rfl)
  | callShutdown t =>
    simp only [next] at hn
    split at hn <;> simp at hn
    rename_i hc; simp at hc
    have hg := isIdle_get hc.1.1
    subst hn
    exact tinv_neutral h (by neutral_tac hg)
  | callPoolShutdown t =>
    simp only [next] at hn
    split at hn <;> simp at hn
    rename_i hc; simp at hc
    have hg := isIdle_get hc.1.1.1
    subst hn
    exact tinv_neutral h (by neutral_tac hg)
  | callAwait t =>
    simp only [next] at hn
    split at hn <;> simp at hn
    rename_i hc
    have hg := isIdle_get hc
    subst hn
    exact tinv_neutral h (by neutral_tac hg)

/-- the task invariant holds in every reachable state — of the repaired code and of the code
    before a7b63db alike (D11 strands a task, it does not duplicate or lose track of one) -/
theorem tinv_reachable {cfg : Cfg} {s : State} (hr : Reachable cfg s) : TInv s := by
  induction hr with
  | init => exact tinv_init
  | step _ st ih => obtain ⟨l, hl⟩ := st; exact tinv_next ih hl

end QV.Pool
