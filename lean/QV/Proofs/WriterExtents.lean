/-
  QV.Proofs.WriterExtents — where the items are: the item chain of a writer state is determined by
  its octets (`rchainC_prefix`), it persists along the calls of a segment (`Pres`), so the end of the
  i-th item of the finished message is the cursor after the call that wrote it.
-/
import QV.Proofs.WriterAbsStep

namespace QV.Writer
open QV QV.Wire QV.Spec QV.ServerSafety

/-- the chunk length of an item is determined by the octets -/
theorem item_k_unique {s : State} {a k k' : Nat} (hw : WInv s) (h : Item s a k) (h' : Item s a k') : k = k' := by
  obtain ⟨w, n, hd⟩ := item_decodes hw h
  obtain ⟨w', n', hd'⟩ := item_decodes hw h'
  rw [hd] at hd'
  simp only [Option.some.injEq, Prod.mk.injEq] at hd'
  exact hd'.2.2


/-- two question chains over the same state from the same start: the shorter one's item ends are a
    prefix of the longer one's -/
theorem qchainC_prefix {s : State} (hw : WInv s) : ∀ (qs qs' : List QItC) (p e e' : Nat),
    QChainC s qs p e → QChainC s qs' p e' → e ≤ e' → (qs'.map qEnd).take qs.length = qs.map qEnd := by
  intro qs
  induction qs with
  | nil => intro qs' p e e' _ _ _; simp
  | cons x r ih =>
    intro qs' p e e' h h' hle
    obtain ⟨h1, ⟨hit, _, _⟩, h3⟩ := h
    have hx := qchainC_le h3
    cases qs' with
    | nil =>
      simp only [QChainC] at h'
      omega
    | cons y r' =>
      obtain ⟨g1, ⟨git, _, _⟩, g3⟩ := h'
      have hay : y.a = x.a := by rw [g1, h1]
      rw [hay] at git
      have hk := item_k_unique hw hit git
      have := ih r' (x.a + x.k + 4) e e' h3 (by rw [hk, ← hay]; exact g3) hle
      simp only [List.map_cons, List.length_cons, List.take_succ_cons, this]
      congr 1
      unfold qEnd; rw [hay, hk]

theorem rchainC_prefix {s : State} (hw : WInv s) : ∀ (rs rs' : List RItC) (p e e' : Nat),
    RChainC s rs p e → RChainC s rs' p e' → e ≤ e' → (rs'.map rEnd).take rs.length = rs.map rEnd := by
  intro rs
  induction rs with
  | nil => intro rs' p e e' _ _ _; simp
  | cons x r ih =>
    intro rs' p e e' h h' hle
    obtain ⟨h1, ⟨hit, _, _, hb, _⟩, h3⟩ := h
    have hx := rchainC_le h3
    cases rs' with
    | nil =>
      simp only [RChainC] at h'
      omega
    | cons y r' =>
      obtain ⟨g1, ⟨git, _, _, gb, _⟩, g3⟩ := h'
      have hay : y.a = x.a := by rw [g1, h1]
      rw [hay] at git gb
      have hk := item_k_unique hw hit git
      have hrd : y.rdlen = x.rdlen := by rw [← gb, ← hb, hk]
      have := ih r' (x.a + x.k + 10 + x.rdlen) e e' h3 (by rw [hk, ← hay, ← hrd]; exact g3) hle
      simp only [List.map_cons, List.length_cons, List.take_succ_cons, this]
      congr 1
      unfold rEnd; rw [hay, hk, hrd]

/-! ### the chain persists -/

/-- everything written so far (from octet 12 on) and every recorded label start is still there -/
structure Pres (s s' : State) : Prop where
  pre : ∀ i, 12 ≤ i → i < s.cursor → s'.octets[i]? = s.octets[i]?
  cur : s.cursor ≤ s'.cursor
  gl : ∀ g ∈ s.gLabels, g ∈ s'.gLabels

theorem Pres.refl (s : State) : Pres s s := ⟨fun _ _ _ => rfl, Nat.le_refl _, fun _ h => h⟩

theorem Pres.trans {a b c : State} (h1 : Pres a b) (h2 : Pres b c) : Pres a c :=
  ⟨fun i hi hc => by rw [h2.pre i hi (by have := h1.cur; omega), h1.pre i hi hc],
   Nat.le_trans h1.cur h2.cur, fun g hg => h2.gl g (h1.gl g hg)⟩

theorem pres_of_ext {s s' : State} (e : Ext s s') : Pres s s' :=
  ⟨fun i _ hc => e.pre i hc, e.cur, e.glab⟩

theorem pres_of_same {s s' : State} (e : Same s s') : Pres s s' :=
  ⟨fun i _ hc => e.pre i hc, by rw [e.cursor]; exact Nat.le_refl _, fun g hg => by rw [e.gLabels]; exact hg⟩

theorem pres_of_hdrOnly {s s' : State} (k : HdrOnly s s') : Pres s s' :=
  ⟨fun i hi _ => k.pre i hi, by rw [k.cursor]; exact Nat.le_refl _, fun g hg => by rw [k.gl]; exact hg⟩

theorem pres_fields {s s' : State} (ho : s'.octets = s.octets) (hc : s'.cursor = s.cursor)
    (hg : s'.gLabels = s.gLabels) : Pres s s' :=
  ⟨fun i _ _ => by rw [ho], by rw [hc]; exact Nat.le_refl _, fun g h => by rw [hg]; exact h⟩

theorem qchainC_pres {s s' : State} (hw : WInv s) (h : Pres s s') {qs : List QItC} {p e : Nat} (hp : 12 ≤ p)
    (he : e ≤ s.cursor) (hc : QChainC s qs p e) : QChainC s' qs p e :=
  qchainC_move (lo := 12) (fun it hlo hk hq => qfacts_frame (lo := 12) hq hlo (by omega) hw.g12 h.pre h.cur h.gl) hp hc

theorem rchainC_pres {s s' : State} (hw : WInv s) (h : Pres s s') {rs : List RItC} {p e : Nat} (hp : 12 ≤ p)
    (he : e ≤ s.cursor) (hc : RChainC s rs p e) : RChainC s' rs p e :=
  rchainC_move (lo := 12) (fun it hlo hk hq => rfacts_frame (lo := 12) hq hlo (by omega) hw.g12 h.pre h.cur h.gl) hp hc


theorem pres_template {s s' : State} {t : Template} (hI : I s) (buf : Bytes) (ts : Option Tsig)
    (ht : intoTemplate s = .ok t) (h' : tryFromTemplateImpl buf t ts = .ok s') : Pres s s' := by
  have hi := hI.inv
  have h1 := hi.hdr; have h2 := hi.cur_av; have h3 := hi.av_lim; have h4 := hi.lim_size
  unfold intoTemplate at ht
  rw [if_neg (by omega), if_neg (by omega)] at ht
  cases ht
  unfold tryFromTemplateImpl at h'
  simp only [extract_toList_length _ _ (show s.cursor ≤ s.octets.size by omega)] at h'
  split at h'
  · cases h'
  · split at h'
    · cases h'
    · cases h'
      refine ⟨?_, Nat.le_refl _, fun g hg => hg⟩
      intro i _ hi'
      have := writeAt_get_in buf 0 (List.take s.cursor s.octets.toList) i (by simp; omega) (by simp; omega)
      simp only [Nat.zero_add] at this
      simp only [Array.toList_extract, List.extract_eq_take_drop, Nat.sub_zero, List.drop_zero]
      rw [this, List.getElem?_take]
      simp [hi']

theorem pres_retemplate {ss : Session} (hI : I ss.w) (n : Nat) (fill : UInt8)
    (mk : Bytes → Template → Out WriterErr State) (hmk : MkOK mk) : Pres ss.w (retemplate ss n fill mk).2.w := by
  obtain ⟨t, ht⟩ := intoTemplate_ok hI.inv
  unfold retemplate
  rw [ht]
  simp only []
  obtain ⟨sf, hsf⟩ := tryFromTemplate_fallback_ok fill hI.inv ht
  have hlf : Pres ss.w sf := pres_template hI _ t.tsig ht hsf
  cases hm : mk (Array.replicate n fill) t with
  | ok s' =>
    simp only []
    obtain ⟨ts, h1, _⟩ := hmk.1 _ _ _ hm
    exact pres_template hI _ ts ht h1
  | err e => simp only []; rw [hsf]; exact hlf
  | panic => simp only []; rw [hsf]; exact hlf

/-- **every call except `clear_rrs` leaves what was written in place** -/
theorem step_pres (ss : Session) (op : Op) (hI : I ss.w) (hnc : op ≠ .clearRrs) : Pres ss.w (step ss op).2.w := by
  have lw : ∀ {f : M Unit}, (∀ s, HdrOnly s (f s).2) → Pres ss.w (liftW ss f).2.w := fun hf => by
    rw [liftW_w]; exact pres_of_hdrOnly (hf ss.w)
  cases op with
  | setId v => exact lw (hdrOnly_write _ _ (by show _ + 2 ≤ 12; decide))
  | setQr b' => exact lw (hdrOnly_setHdr _ _ (by decide))
  | setAa b' => exact lw (hdrOnly_setHdr _ _ (by decide))
  | setTc b' => exact lw (hdrOnly_setHdr _ _ (by decide))
  | setRd b' => exact lw (hdrOnly_setHdr _ _ (by decide))
  | setRa b' => exact lw (hdrOnly_setHdr _ _ (by decide))
  | setOpcode v => exact lw (hdrOnly_setHdr _ _ (by decide))
  | setRcode v => exact lw (hdrOnly_setRcode v)
  | setExtendedRcode v => exact lw (f := setExtendedRcode v) (hdrOnly_setExtendedRcode v)
  | setLimit v => exact lw (hdrOnly_setLimit v)
  | updateTimeSigned t => exact lw (hdrOnly_updateTimeSigned t)
  | setMode m => show Pres ss.w (liftW ss (setCompressionMode m)).2.w; rw [liftW_w]; exact pres_fields rfl rfl rfl
  | clearRrs => exact absurd rfl hnc
  | getters => exact Pres.refl _
  | setEdns p =>
    show Pres ss.w (liftW ss (setEdns p)).2.w
    rw [liftW_w]
    unfold setEdns
    repeat' split
    all_goals first
      | exact Pres.refl _
      | exact pres_fields rfl rfl rfl
  | setTsig m rr =>
    show Pres ss.w (liftW ss (setTsig m rr)).2.w
    rw [liftW_w]
    unfold setTsig
    repeat' split
    all_goals first
      | exact Pres.refl _
      | exact pres_fields rfl rfl rfl
  | addQuestion n t c =>
    show Pres ss.w (liftW ss (addQuestion n t c)).2.w
    rw [liftW_w]
    have hc := addQuestion_cases n t c ss.w
    cases hr : addQuestion n t c ss.w with
    | mk r s' =>
      rw [hr] at hc
      cases r with
      | ok u => obtain ⟨s1, e, _, rfl⟩ := hc; exact Pres.trans (pres_of_ext e) (pres_fields rfl rfl rfl)
      | err e => exact pres_of_same hc
      | panic => exact pres_of_ext hc
  | addRr sec hn o ty cls ttl rd hv =>
    simp only [step]
    rw [withHv_w]
    have h0 : Pres ss.w { ss.w with hv := hv.map (hvGet ss.hvs) } := pres_fields rfl rfl rfl
    have hmid : ∀ s0, Pres s0 (addRrOp sec (resolveHint ss.hvs hn) o ty cls ttl rd s0).2 := by
      intro s0
      have hc := addRrOp_cases sec (resolveHint ss.hvs hn) o ty cls ttl rd s0
      cases hr : addRrOp sec (resolveHint ss.hvs hn) o ty cls ttl rd s0 with
      | mk r s' =>
        rw [hr] at hc
        cases r with
        | ok u =>
          obtain ⟨s1, e, _, rfl⟩ := hc
          exact Pres.trans (pres_of_ext e) (pres_fields (by cases sec <;> rfl) (by cases sec <;> rfl) (by cases sec <;> rfl))
        | err e => exact pres_of_same hc
        | panic => exact pres_of_ext hc
    exact Pres.trans h0 (Pres.trans (hmid _) (pres_fields rfl rfl rfl))
  | addRrset sec hn o ty cls ttl rds hv =>
    simp only [step]
    rw [withHv_w]
    have h0 : Pres ss.w { ss.w with hv := hv.map (hvGet ss.hvs) } := pres_fields rfl rfl rfl
    have hmid : ∀ s0, Pres s0 (addRrsetOp sec (resolveHint ss.hvs hn) o ty cls ttl rds s0).2 := by
      intro s0
      have hc := addRrsetOp_cases sec (resolveHint ss.hvs hn) o ty cls ttl rds s0
      cases hr : addRrsetOp sec (resolveHint ss.hvs hn) o ty cls ttl rds s0 with
      | mk r s' =>
        rw [hr] at hc
        cases r with
        | ok u =>
          obtain ⟨s1, n, e, _, rfl⟩ := hc
          exact Pres.trans (pres_of_ext e) (pres_fields (by cases sec <;> rfl) (by cases sec <;> rfl) (by cases sec <;> rfl))
        | err e => exact pres_of_same hc
        | panic => exact pres_of_ext hc
    exact Pres.trans h0 (Pres.trans (hmid _) (pres_fields rfl rfl rfl))
  | template n fill => exact pres_retemplate hI n fill _ mkOK_tryFromTemplate
  | templateSubsequent n fill mac => exact pres_retemplate hI n fill _ (mkOK_subsequent mac)



theorem template_rrStart {s s' : State} {t : Template} (buf : Bytes) (ts : Option Tsig) (hI : I s)
    (ht : intoTemplate s = .ok t) (h' : tryFromTemplateImpl buf t ts = .ok s') : s'.rrStart = s.rrStart := by
  have hi := hI.inv
  have h1 := hi.hdr; have h2 := hi.cur_av; have h3 := hi.av_lim; have h4 := hi.lim_size
  unfold intoTemplate at ht
  rw [if_neg (by omega), if_neg (by omega)] at ht
  cases ht
  unfold tryFromTemplateImpl at h'
  simp only at h'
  split at h'
  · cases h'
  · split at h'
    · cases h'
    · cases h'; rfl

theorem retemplate_rrStart {ss : Session} (hI : I ss.w) (n : Nat) (fill : UInt8)
    (mk : Bytes → Template → Out WriterErr State) (hmk : MkOK mk) :
    (retemplate ss n fill mk).2.w.rrStart = ss.w.rrStart := by
  obtain ⟨t, ht⟩ := intoTemplate_ok hI.inv
  unfold retemplate
  rw [ht]
  simp only []
  obtain ⟨sf, hsf⟩ := tryFromTemplate_fallback_ok fill hI.inv ht
  have hlf : sf.rrStart = ss.w.rrStart := template_rrStart _ t.tsig hI ht hsf
  cases hm : mk (Array.replicate n fill) t with
  | ok s' =>
    simp only []
    obtain ⟨ts, h1, _⟩ := hmk.1 _ _ _ hm
    exact template_rrStart _ ts hI ht h1
  | err e => simp only []; rw [hsf]; exact hlf
  | panic => simp only []; rw [hsf]; exact hlf

/-! ### a segment: the calls between two `clear_rrs` -/

variable {P : CMode → Prop}

/-- `s'` is a later state of the same segment as `s` -/
structure Seg (s s' : State) : Prop where
  pres : Pres s s'
  rr : s'.rrStart = s.rrStart ∨ s.cursor = s.rrStart
  rrle : s.rrStart ≤ s'.rrStart

theorem Seg.refl (s : State) : Seg s s := ⟨Pres.refl s, Or.inl rfl, Nat.le_refl _⟩

theorem Seg.trans {a b c : State} (ha : a.rrStart ≤ a.cursor) (h1 : Seg a b) (h2 : Seg b c) : Seg a c := by
  refine ⟨Pres.trans h1.pres h2.pres, ?_, Nat.le_trans h1.rrle h2.rrle⟩
  rcases h1.rr with e1 | e1
  · rcases h2.rr with e2 | e2
    · exact Or.inl (by rw [e2, e1])
    · have := h1.pres.cur
      exact Or.inr (by omega)
  · exact Or.inr e1

theorem step_seg (ss : Session) (op : Op) {b : Body} {mb : MBody} (hI : I ss.w) (hL : CLay P ss.w b mb)
    (hnc : op ≠ .clearRrs) : Seg ss.w (step ss op).2.w := by
  have hp := step_pres ss op hI hnc
  by_cases hq : ∃ n t c, op = .addQuestion n t c
  · obtain ⟨n, t, c, rfl⟩ := hq
    have hw : (step ss (.addQuestion n t c)).2.w = (addQuestion n t c ss.w).2 := liftW_w ss _
    rw [hw] at hp ⊢
    have hc := addQuestion_cases n t c ss.w
    cases hr : addQuestion n t c ss.w with
    | mk r s' =>
      rw [hr] at hc hp
      cases r with
      | ok u =>
        obtain ⟨s3, hsq, hb, hs'⟩ := addQuestion_ok_inv n t c ss.w s' hr
        have hcr := (hL.sq hsq).1
        refine ⟨hp, Or.inr hcr, ?_⟩
        rw [hs']
        show ss.w.rrStart ≤ s3.cursor
        have e : Ext ss.w s3 := by have := frame_addQuestionBody n t c ss.w; rwa [hb] at this
        have := e.cur; have := hI.inv.rr_hi; omega
      | err e => exact ⟨hp, Or.inl hc.rrStart, by rw [hc.rrStart]; exact Nat.le_refl _⟩
      | panic => exact ⟨hp, Or.inl hc.rrStart, by rw [hc.rrStart]; exact Nat.le_refl _⟩
  · -- every other call keeps `rr_start`
    have hrr : (step ss op).2.w.rrStart = ss.w.rrStart := by
      have lw : ∀ {f : M Unit}, (∀ s, HdrOnly s (f s).2) → (liftW ss f).2.w.rrStart = ss.w.rrStart := fun hf => by
        rw [liftW_w]; exact (hf ss.w).rrStart
      cases op with
      | setId v => exact lw (hdrOnly_write _ _ (by show _ + 2 ≤ 12; decide))
      | setQr b' => exact lw (hdrOnly_setHdr _ _ (by decide))
      | setAa b' => exact lw (hdrOnly_setHdr _ _ (by decide))
      | setTc b' => exact lw (hdrOnly_setHdr _ _ (by decide))
      | setRd b' => exact lw (hdrOnly_setHdr _ _ (by decide))
      | setRa b' => exact lw (hdrOnly_setHdr _ _ (by decide))
      | setOpcode v => exact lw (hdrOnly_setHdr _ _ (by decide))
      | setRcode v => exact lw (hdrOnly_setRcode v)
      | setExtendedRcode v => exact lw (f := setExtendedRcode v) (hdrOnly_setExtendedRcode v)
      | setLimit v => exact lw (hdrOnly_setLimit v)
      | updateTimeSigned t => exact lw (hdrOnly_updateTimeSigned t)
      | setMode m => show (liftW ss (setCompressionMode m)).2.w.rrStart = _; rw [liftW_w]; rfl
      | clearRrs => exact absurd rfl hnc
      | getters => rfl
      | addQuestion n t c => exact absurd ⟨n, t, c, rfl⟩ hq
      | setEdns p =>
        show (liftW ss (setEdns p)).2.w.rrStart = _
        rw [liftW_w]; unfold setEdns; repeat' split
        all_goals rfl
      | setTsig m rr =>
        show (liftW ss (setTsig m rr)).2.w.rrStart = _
        rw [liftW_w]; unfold setTsig; repeat' split
        all_goals rfl
      | addRr sec hn o ty cls ttl rd hv =>
        simp only [step]
        rw [withHv_w]
        have hmid : ∀ s0, (addRrOp sec (resolveHint ss.hvs hn) o ty cls ttl rd s0).2.rrStart = s0.rrStart := by
          intro s0
          have hc := addRrOp_cases sec (resolveHint ss.hvs hn) o ty cls ttl rd s0
          cases hr : addRrOp sec (resolveHint ss.hvs hn) o ty cls ttl rd s0 with
          | mk r s' =>
            rw [hr] at hc
            cases r with
            | ok u => obtain ⟨s1, e, _, rfl⟩ := hc; rw [← e.rrStart]; cases sec <;> rfl
            | err e => exact hc.rrStart
            | panic => exact hc.rrStart
        exact hmid _
      | addRrset sec hn o ty cls ttl rds hv =>
        simp only [step]
        rw [withHv_w]
        have hmid : ∀ s0, (addRrsetOp sec (resolveHint ss.hvs hn) o ty cls ttl rds s0).2.rrStart = s0.rrStart := by
          intro s0
          have hc := addRrsetOp_cases sec (resolveHint ss.hvs hn) o ty cls ttl rds s0
          cases hr : addRrsetOp sec (resolveHint ss.hvs hn) o ty cls ttl rds s0 with
          | mk r s' =>
            rw [hr] at hc
            cases r with
            | ok u => obtain ⟨s1, n, e, _, rfl⟩ := hc; rw [← e.rrStart]; cases sec <;> rfl
            | err e => exact hc.rrStart
            | panic => exact hc.rrStart
        exact hmid _
      | template n fill => exact retemplate_rrStart hI n fill _ mkOK_tryFromTemplate
      | templateSubsequent n fill mac => exact retemplate_rrStart hI n fill _ (mkOK_subsequent mac)
    exact ⟨hp, Or.inl hrr, by rw [hrr]; exact Nat.le_refl _⟩


theorem run_seg (ss : Session) (ops : List Op) {b : Body} {mb : MBody} (hI : I ss.w)
    (hL : CLay (fun _ => True) ss.w b mb) (hr : Respects ss ops) (hnc : Op.clearRrs ∉ ops) :
    Seg ss.w (run ss ops).1.w := by
  induction ops generalizing ss b mb with
  | nil => exact Seg.refl _
  | cons op ops ih =>
    obtain ⟨hop, hrest⟩ := hr
    obtain ⟨hnp, hI'⟩ := step_I ss op hI hop
    have hne : op ≠ .clearRrs := fun h => hnc (by rw [h]; exact List.mem_cons_self)
    have hnc' : Op.clearRrs ∉ ops := fun h => hnc (List.mem_cons_of_mem _ h)
    have hs1 := step_seg ss op hI hL hne
    have hL' := clay_step ss op b mb hI hL hop (fun _ _ => trivial)
    unfold run
    cases hs : step ss op with
    | mk r ss' =>
      rw [hs] at hnp hI' hrest hs1 hL'
      cases r with
      | panic => exact absurd rfl hnp
      | ok u =>
        simp only [] at hL' ⊢
        have := ih ss' hI' hL' hrest hnc'
        cases hrun : run ss' ops with
        | mk ss'' rs => rw [hrun] at this; exact Seg.trans hI.inv.rr_hi hs1 this
      | err e =>
        simp only [] at hL' ⊢
        have := ih ss' hI' hL' hrest hnc'
        cases hrun : run ss' ops with
        | mk ss'' rs => rw [hrun] at this; exact Seg.trans hI.inv.rr_hi hs1 this

theorem take_add_append {α : Type} (A B : List α) (k : Nat) : (A ++ B).take (A.length + k) = A ++ B.take k := by
  induction A with
  | nil => simp
  | cons x xs ih => simp only [List.cons_append, List.length_cons]; rw [show xs.length + 1 + k = (xs.length + k) + 1 by omega, List.take_succ_cons, ih]

theorem take_le_append {α : Type} (A B : List α) (n : Nat) (h : n ≤ A.length) : (A ++ B).take n = A.take n := by
  induction A generalizing n with
  | nil => simp at h; subst h; simp
  | cons x xs ih =>
    cases n with
    | zero => simp
    | succ n => simp only [List.cons_append, List.take_succ_cons]; rw [ih n (by simpa using h)]

theorem rchainC_nil_of_eq {s : State} {rs : List RItC} {p : Nat} (h : RChainC s rs p p) : rs = [] := by
  cases rs with
  | nil => rfl
  | cons x r =>
    obtain ⟨h1, _, h3⟩ := h
    have := rchainC_le h3
    omega

/-- **the items of an earlier state of the segment are the first items of the finished message**:
    their ends, in order, are the first entries of the decoded extents -/
theorem extents_prefix (macFn : Tsig → List UInt8 → List UInt8) {s sR : State} {B : Body} {MB : MBody}
    (hw : WInv s) (hrr : s.rrStart ≤ s.cursor) (hseg : Seg s sR) (hIR : I sR) (hLR : CLay P sR B MB)
    (hT : ∀ r ∈ B.an ++ B.ns ++ B.ar, LayoutStable r) (m : Bytes) (mac : Option (List UInt8))
    (hf : finish sR macFn = .ok (m, mac)) (hsz : m.size ≤ 65535) :
    ∃ d : Message.Decoded, Message.specDecodeMsg m = some d ∧
      ∀ (qs : List QItC) (rs : List RItC), QChainC s qs 12 s.rrStart → RChainC s rs s.rrStart s.cursor →
        (d.extents.map (·.2)).take (qs.length + rs.length) = qs.map qEnd ++ rs.map rEnd := by
  obtain ⟨d, qsR, ian, ins, iar, hd, _, _, _, _, _, _, _, _, _, _, _, _, _, _, _, hext, rs0, ex, hsplit, hq0, hr0, _⟩ :=
    finish_refines macFn sR B MB hIR hLR hT m mac hf hsz
  refine ⟨d, hd, fun qs rs hq hr => ?_⟩
  have h12 : 12 ≤ s.rrStart := qchainC_le hq
  have hq' : QChainC sR qs 12 s.rrStart := qchainC_pres hw hseg.pres (Nat.le_refl _) hrr hq
  have hr' : RChainC sR rs s.rrStart s.cursor := rchainC_pres hw hseg.pres h12 (Nat.le_refl _) hr
  have hA1 := qchainC_prefix hIR.winv qs qsR 12 s.rrStart sR.rrStart hq' hq0 hseg.rrle
  have hlenq : qs.length ≤ qsR.length := by
    have := congrArg List.length hA1
    simp only [List.length_take, List.length_map] at this
    omega
  rw [hext, hsplit]
  rcases hseg.rr with e1 | e1
  · -- the same `rr_start`: the question chains coincide
    rw [e1] at hq0 hr0
    have hA2 := qchainC_prefix hIR.winv qsR qs 12 s.rrStart s.rrStart hq0 hq' (Nat.le_refl _)
    have hlen : qs.length = qsR.length := by
      have := congrArg List.length hA2
      simp only [List.length_take, List.length_map] at this
      omega
    have hqeq : qsR.map qEnd = qs.map qEnd := by
      rw [← hA1, hlen, ← List.length_map (f := qEnd), List.take_length]
    have hB := rchainC_prefix hIR.winv rs rs0 s.rrStart s.cursor sR.cursor hr' hr0 hseg.pres.cur
    have hlenr : rs.length ≤ rs0.length := by
      have := congrArg List.length hB
      simp only [List.length_take, List.length_map] at this
      omega
    rw [hqeq, ← List.length_map (f := qEnd) (as := qs), take_add_append, List.map_append,
      take_le_append _ _ _ (by rw [List.length_map]; exact hlenr), hB]
  · -- no records yet
    have : rs = [] := rchainC_nil_of_eq (by rw [e1] at hr; exact hr)
    subst this
    simp only [List.length_nil, Nat.add_zero, List.map_nil, List.append_nil]
    rw [take_le_append _ _ _ (by rw [List.length_map]; exact hlenq), hA1]


/-! ### the last item ends at the cursor -/

theorem qchainC_last {s : State} : ∀ (qs : List QItC) (p e : Nat), QChainC s qs p e → qs ≠ [] →
    (qs.map qEnd)[qs.length - 1]? = some e := by
  intro qs
  induction qs with
  | nil => intro p e _ h; exact absurd rfl h
  | cons x r ih =>
    intro p e h _
    obtain ⟨_, _, h3⟩ := h
    cases r with
    | nil => simp only [QChainC] at h3; simp [qEnd, h3]
    | cons y r' =>
      have := ih _ _ h3 (by simp)
      simpa using this

theorem rchainC_last {s : State} : ∀ (rs : List RItC) (p e : Nat), RChainC s rs p e → rs ≠ [] →
    (rs.map rEnd)[rs.length - 1]? = some e := by
  intro rs
  induction rs with
  | nil => intro p e _ h; exact absurd rfl h
  | cons x r ih =>
    intro p e h _
    obtain ⟨_, _, h3⟩ := h
    cases r with
    | nil => simp only [RChainC] at h3; simp [rEnd, h3]
    | cons y r' =>
      have := ih _ _ h3 (by simp)
      simpa using this

/-- the last of all items of a state ends at its cursor -/
theorem items_last {s : State} {qs : List QItC} {rs : List RItC} (hq : QChainC s qs 12 s.rrStart)
    (hr : RChainC s rs s.rrStart s.cursor) (hne : 0 < qs.length + rs.length) :
    (qs.map qEnd ++ rs.map rEnd)[qs.length + rs.length - 1]? = some s.cursor := by
  cases rs with
  | nil =>
    simp only [RChainC] at hr
    have hq' : qs ≠ [] := by intro h; subst h; simp at hne
    simp only [List.map_nil, List.append_nil, List.length_nil, Nat.add_zero]
    rw [qchainC_last qs 12 s.rrStart hq hq', hr]
  | cons y r =>
    have := rchainC_last (y :: r) _ _ hr (by simp)
    rw [List.getElem?_append_right (by simp)]
    simp only [List.length_map, List.length_cons] at this ⊢
    rw [show qs.length + (r.length + 1) - 1 - qs.length = r.length + 1 - 1 by omega]
    exact this

/-- the end of the last item of a state, read off the decoded extents of the finished message -/
theorem endOf_last {s : State} {d : Message.Decoded} {qs : List QItC} {rs : List RItC}
    (hq : QChainC s qs 12 s.rrStart) (hr : RChainC s rs s.rrStart s.cursor) (hne : 0 < qs.length + rs.length)
    (hpre : (d.extents.map (·.2)).take (qs.length + rs.length) = qs.map qEnd ++ rs.map rEnd) :
    Message.endOf d (qs.length + rs.length - 1) = some s.cursor := by
  have h1 := items_last hq hr hne
  rw [← hpre, List.getElem?_take_of_lt (by omega)] at h1
  unfold Message.endOf
  rw [List.getElem?_map] at h1
  exact h1

end QV.Writer
