/-
  QV.Proofs.ServerSafety — layer L4 of C01: `Server::handle_message` assembled from the scan phase
  (QV.Proofs.ServerContext), the QUERY handler (QV.Proofs.ServerQuery) and the structural
  "never returns `Err`" fact (QV.Proofs.ServerNoErr).
-/
import QV.Proofs.ServerQuery
import QV.Proofs.WriterV0
import QV.Proofs.ServerNoErr
import QV.Proofs.HmacLen

namespace QV.ServerSafety
open QV QV.Writer QV.Server QV.Reader

variable (W : WriterSafe)

/-! ### `finish` never returns `Err` (it unwraps) -/

theorem noErr_get : NoErr M.get := ⟨fun _ _ => by simp [M.get]⟩

theorem noErr_finishWithMac (macFn : Writer.Tsig → List UInt8 → List UInt8) : NoErr (finishWithMac macFn) := by
  rw [finishWithMac_v0]; unfold V0.finishWithMac
  refine noErr_bind noErr_get (fun s => ?_)
  dsimp only
  repeat' (first
    | exact noErr_get
    | exact noErr_modify _
    | exact noErr_write _ _
    | noerr_step)

theorem finish_ok (s : State) (macFn : Writer.Tsig → List UInt8 → List UInt8) (hi : W.I s)
    (hm : MacLenOK macFn) : ∃ b mac, Writer.finish s macFn = .ok (b, mac) := by
  have hnp := W.finish s macFn hi hm
  have hne := (noErr_finishWithMac macFn).h s
  unfold Writer.finish at hnp ⊢
  generalize finishWithMac macFn s = r at hnp hne
  obtain ⟨o, s'⟩ := r
  cases o with
  | ok v => obtain ⟨len, mac⟩ := v; exact ⟨_, _, rfl⟩
  | err e => exact absurd rfl (hne e)
  | panic => exact absurd rfl hnp

/-! ### the MAC of the response fits the reservation -/

/-- SHA-1 / SHA-256 tags have the algorithm's output size -/
def HmacLenOK : Prop := ∀ alg key data, (Tsig.realHmac alg key data).length = alg.outputSize

/-- … which is a theorem about the SHA model (C11, `QV.Tsig.realHmac_length`) -/
theorem hmacLenOK : HmacLenOK := Tsig.realHmac_length

theorem signResponse_mac {ε : Type} (hm : Tsig.Algorithm → Tsig.Octets → Tsig.Octets → Tsig.Octets)
    (p : Tsig.PreparedTsigRr) (m pm : Tsig.Octets) (alg : Tsig.Algorithm) (key x mac : Tsig.Octets)
    (h : Tsig.signResponse (ε := ε) hm p m pm alg key = .ok (x, mac)) : ∃ data, mac = hm alg key data := by
  unfold Tsig.signResponse at h
  split at h
  · cases h
  · cases h1 : (Tsig.responseInput m pm p.originalId (p.vars alg.name) : Out ε Tsig.Octets) with
    | panic => rw [h1] at h; cases h
    | err e => rw [h1] at h; cases h
    | ok data =>
      rw [h1] at h
      simp only [Out.bind_ok] at h
      cases h2 : (p.serializeRdata alg.name (hm alg key data) : Out ε Tsig.Octets) with
      | panic => rw [h2] at h; cases h
      | err e => rw [h2] at h; cases h
      | ok rd =>
        rw [h2] at h
        simp only [Out.bind_ok, Out.pure_eq, Out.ok.injEq, Prod.mk.injEq] at h
        exact ⟨data, h.2.symm⟩

theorem macLenOK_server (hh : HmacLenOK) : MacLenOK macFn := by
  intro ts msg
  unfold macFn macFnWith
  cases hmode : ts.mode with
  | request a k => simp
  | subsequent a pm k => simp
  | unsigned n => simp
  | response alg rm key =>
    simp only
    split
    · rename_i x mac hs
      obtain ⟨data, hd⟩ := signResponse_mac _ _ _ _ _ _ _ _ hs
      rw [hd, hh]
      cases alg <;> exact Nat.le_refl _
    · simp

/-! ### header setters: frame -/

theorem setHdr_frame (i : Nat) (f : UInt8 → UInt8) (s : State) :
    (setHdr i f s).2.sect = s.sect ∧ (setHdr i f s).2.qdcount = s.qdcount := by
  unfold setHdr; split <;> exact ⟨rfl, rfl⟩

theorem write_frame (pos : Nat) (d : List UInt8) (s : State) :
    (write pos d s).2.sect = s.sect ∧ (write pos d s).2.qdcount = s.qdcount := by
  unfold write; split <;> exact ⟨rfl, rfl⟩

theorem new_ok (bufLen limit : Nat) (h1 : 12 ≤ bufLen) (h2 : 12 ≤ limit) :
    ∃ w0, Writer.new (Array.replicate bufLen 0) limit = .ok w0 ∧ w0.sect = .question ∧ w0.qdcount = 0 := by
  unfold Writer.new
  have c : Gen.HEADER_SIZE = 12 := by decide
  simp only [Array.size_replicate, c]
  have : ¬ (min limit bufLen < 12) := by omega
  simp only [this, if_false]
  exact ⟨_, rfl, rfl, rfl⟩

/-- what `handle_message` asks of its environment -/
structure EnvOK (cfg : Cfg) (tr : Transport) (now bufLen : Nat) (req : Bytes) : Prop where
  /-- the documented requirement on `response_buf` (otherwise: the documented panic) -/
  buf : (match tr with | .tcp => 65535 | .udp => cfg.payload) ≤ bufLen
  /-- `SystemTime::now()` is representable in the 48-bit TSIG "time signed" field (until the year
      8.9 million) -/
  now : now < 2^48
  /-- the request is a slice (`len ≤ isize::MAX`) -/
  req : req.size < 2^64

/-- the program `handle_message` runs on the fresh writer -/
def prog (cfg : Cfg) (tr : Transport) (now : Nat) (r0 : Reader) (id opc : Nat) (rdv : Bool) : M Bool := do
  setId id
  setQr true
  setOpcode opc
  if opc = 0 then setRd rdv else pure ()
  handleWithContext cfg tr now r0

theorem prog_safe (cfg : Cfg) (hcfg : CfgWF cfg) (tr : Transport) (now : Nat) (hnow : now < 2^48)
    (r0 : Reader) (hr0 : RInv r0) (id opc : Nat) (rdv : Bool) (w0 : State) (hI0 : W.I w0)
    (hsect : w0.sect = .question) (hqd : w0.qdcount = 0) :
    Safe0 W (prog cfg tr now r0 id opc rdv) w0 ∧ NoErr (prog cfg tr now r0 id opc rdv) := by
  unfold prog
  constructor
  · have fr : ∀ (cl : Call) s, W.I s → cl.Pre W.Den s → s.sect = .question ∧ s.qdcount = 0 →
        ((cl.run s).2.sect = s.sect ∧ (cl.run s).2.qdcount = s.qdcount) →
        Safe W cl.run s (fun _ s' => s'.sect = .question ∧ s'.qdcount = 0) :=
      fun cl s hi hp hs hf => safe_call_post W cl s hi hp (Q := fun s' => s'.sect = .question ∧ s'.qdcount = 0)
        ⟨hf.1.trans hs.1, hf.2.trans hs.2⟩
    refine safe_bind0_M W (fr (.setId _) w0 hI0 trivial ⟨hsect, hqd⟩ (write_frame _ _ _)) (fun _ s1 hi1 _ hs1 => ?_)
    refine safe_bind0_M W (fr (.setBit Gen.QR_BYTE Gen.QR_MASK true) s1 hi1 (show Gen.QR_BYTE < Gen.HEADER_SIZE by decide) hs1 (setHdr_frame _ _ _))
      (fun _ s2 hi2 _ hs2 => ?_)
    refine safe_bind0_M W (fr (.setOpcode opc) s2 hi2 trivial hs2 (setHdr_frame _ _ _)) (fun _ s3 hi3 _ hs3 => ?_)
    have hk : ∀ s4, W.I s4 → s4.sect = .question ∧ s4.qdcount = 0 →
        Safe0 W (handleWithContext cfg tr now r0) s4 := fun s4 hi4 hs4 =>
      handleWithContext_safe W cfg tr now hnow (querySafe W cfg hcfg tr) r0 hr0 s4 hi4 hs4.1 hs4.2
    split
    · exact safe_bind0_M W (fr (.setBit Gen.RD_BYTE Gen.RD_MASK rdv) s3 hi3 (show Gen.RD_BYTE < Gen.HEADER_SIZE by decide) hs3 (setHdr_frame _ _ _))
        (fun _ s4 hi4 _ hs4 => hk s4 hi4 hs4)
    · exact hk s3 hi3 hs3
  · refine noErr_bind (noErr_setId _) (fun _ => noErr_bind (noErr_setQr _) (fun _ =>
      noErr_bind (noErr_setOpcode _) (fun _ => ?_)))
    split
    · exact noErr_bind (noErr_setRd _) (fun _ => noErr_handleWithContext _ _ _ _)
    · exact noErr_handleWithContext _ _ _ _

/-- **L4**: what `handle_message` returns: no response, or the octets `finish` produced from a
    writer state satisfying the writer invariant — never a panic -/
theorem handleMessage_cases (W : WriterSafe) (cfg : Cfg) (hcfg : CfgWF cfg) (tr : Transport) (now bufLen : Nat)
    (req : Bytes) (henv : EnvOK cfg tr now bufLen req) (hmac : MacLenOK macFn) :
    handleMessage cfg tr now bufLen req = .ok none ∨
    ∃ w1 b mac, W.I w1 ∧ Writer.finish w1 macFn = .ok (b, mac) ∧
      handleMessage cfg tr now bufLen req = .ok (some b) := by
  have hbuf := henv.buf
  have hpay := hcfg.payload
  have key := fun r0 hr0 id opc rdv w0 hI0 hs hq =>
    prog_safe W cfg hcfg tr now henv.now r0 hr0 id opc rdv w0 hI0 hs hq
  have hreq := henv.req
  have hn : ∃ w0, Writer.new (Array.replicate bufLen 0)
      (match (generalizing := false) tr with | .tcp => 65535 | .udp => 512) = .ok w0 ∧
      w0.sect = .question ∧ w0.qdcount = 0 := by
    cases tr <;> exact new_ok bufLen _ (by simp only at hbuf; omega) (by simp)
  clear henv
  unfold handleMessage
  cases tr <;> dsimp only at hbuf hn ⊢ <;>
  ( split
    · omega
    · cases htf : Reader.tryFrom req with
      | panic => exact absurd htf (C15.C15_tryFrom_total req)
      | err e => exact Or.inl rfl
      | ok r0 =>
        have hinv := C15.C15_tryFrom_inv req r0 htf
        have hr0 : RInv r0 := by
          unfold Reader.tryFrom at htf
          split at htf
          · cases htf; exact ⟨hinv, by show 12 ≤ Gen.HEADER_SIZE; decide, hreq⟩
          · cases htf
        obtain ⟨_, eid, _⟩ := C15.C15_header_fields r0 hinv
        obtain ⟨opc, hopc⟩ := opcode_ok r0 hinv
        have c : Gen.QR_BYTE = 2 ∧ Gen.RD_BYTE = 2 ∧ Gen.HEADER_SIZE = 12 := by decide
        have h12 : 12 ≤ r0.octets.size := by have := hinv.1; rw [c.2.2] at this; exact this
        obtain ⟨qrv, eqr⟩ : ∃ v, Reader.qr r0 = .ok v :=
          ⟨_, C15.flag_ok r0 Gen.QR_BYTE Gen.QR_MASK (by rw [c.1]; omega)⟩
        obtain ⟨rdv, erd⟩ : ∃ v, Reader.rd r0 = .ok v :=
          ⟨_, C15.flag_ok r0 Gen.RD_BYTE Gen.RD_MASK (by rw [c.2.1]; omega)⟩
        simp only [eqr, eid, hopc, erd]
        cases qrv with
        | true => exact Or.inl rfl
        | false =>
          simp only [Bool.false_eq_true, if_false]
          obtain ⟨w0, hnew, hsect, hqd⟩ := hn
          rw [hnew]
          simp only
          obtain ⟨⟨hp1, hp2⟩, hne⟩ := key r0 hr0 (be16 r0.octets 0) opc rdv w0 (W.new_I _ _ _ (by decide) hnew) hsect hqd
          have hne' := hne.h w0
          split
          · rename_i w1 heq
            have e : prog cfg _ now r0 (be16 r0.octets 0) opc rdv w0 = (.ok true, w1) := heq
            rw [e] at hp2
            obtain ⟨bytes, mac, hf⟩ := finish_ok W w1 macFn hp2 hmac
            rw [hf]
            exact Or.inr ⟨w1, bytes, mac, hp2, hf, rfl⟩
          · exact Or.inl rfl
          · rename_i hn1 hn2
            generalize hres : prog cfg _ now r0 (be16 r0.octets 0) opc rdv w0 = res at hp1 hp2 hne'
            obtain ⟨o, w1⟩ := res
            cases o with
            | panic => exact absurd rfl hp1
            | err e => exact absurd rfl (hne' e)
            | ok b =>
              cases b with
              | true => exact absurd hres (hn1 w1)
              | false => exact absurd hres (hn2 w1) )

/-- **L4**: `handle_message` never panics -/
theorem handleMessage_no_panic (W : WriterSafe) (cfg : Cfg) (hcfg : CfgWF cfg) (tr : Transport) (now bufLen : Nat)
    (req : Bytes) (henv : EnvOK cfg tr now bufLen req) (hmac : MacLenOK macFn) :
    handleMessage cfg tr now bufLen req ≠ .panic := by
  rcases handleMessage_cases W cfg hcfg tr now bufLen req henv hmac with h | ⟨_, _, _, _, _, h⟩ <;>
    rw [h] <;> simp

end QV.ServerSafety
