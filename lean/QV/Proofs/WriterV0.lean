/-
  QV.Proofs.WriterV0 — compatibility layer. The bodies of several functions of `QV.Model.Writer`
  were restructured (do-notation, `M.gets`, `finish_with_mac` in three parts, the component table
  read from the generated tables). `QV.Writer.V0.f` is the earlier body of `f`, word for word, and
  `f_v0 : f = V0.f` says the restructuring changed nothing. Proofs written against the earlier
  bodies replace `unfold f` by `rw [f_v0]; unfold V0.f`.
-/
import QV.Proofs.Writer
import QV.Proofs.WriterRecords

namespace QV.Writer
open QV QV.Wire

namespace V0

def tryPush (data : List UInt8) : M Unit := fun s =>
  if s.available < s.cursor then (.panic, s)            -- `available - cursor` underflow
  else if s.available - s.cursor ≥ data.length then
    match write s.cursor data s with
    | (.ok (), s') => (.ok (), { s' with cursor := s'.cursor + data.length })
    | r => r
  else (.err .Truncation, s)

def pushPointer (p : Nat) : M Unit := fun s =>
  match tryPushU16 (49152 + p) s with
  | (.ok (), s') => (.ok (), { s' with gPtrs := ⟨s.cursor, p, s.gCtx, s.mode⟩ :: s'.gPtrs })
  | r => r

def writeUncompressedName (n : WName) : M (Option Prior) := fun s =>
  let pointer := hintPointerNew s.cursor
  match Writer.tryPush n.wire s with
  | (.ok (), s') =>
    match ghostLabels s.cursor n.labels true s' with
    | (_, s'') => (.ok (pointer.map fun p => ⟨p, n.len⟩), s'')
  | (.err e, s') => (.err e, s')
  | (.panic, s') => (.panic, s')

def writeCompressedUnhintedName (n : WName) : M (Option Prior) := fun s =>
  match compressDecision s.octets s.mode (s.mostRecentOwner.orElse fun _ => s.qname)
          s.mostRecentNameInRdata n with
  | .panic => (.panic, s)
  | .err _ => (.panic, s)
  | .ok none => Writer.writeUncompressedName n s
  | .ok (some m) =>
    if m.startColumn = 0 then
      match Writer.pushPointer m.priorPointer s with
      | (.ok (), s') => (.ok (some ⟨m.priorPointer, n.len⟩), s')
      | (.err e, s') => (.err e, s')
      | (.panic, s') => (.panic, s')
    else
      let pointer := hintPointerNew s.cursor
      match Writer.tryPush (n.wireTo m.startColumn) s with
      | (.ok (), s1) =>
        match ghostLabels s.cursor (n.labels.take m.startColumn) false s1 with
        | (_, s2) =>
          match Writer.pushPointer m.priorPointer s2 with
          | (.ok (), s3) => (.ok (pointer.map fun p => ⟨p, n.len⟩), s3)
          | (.err e, s3) => (.err e, s3)
          | (.panic, s3) => (.panic, s3)
      | (.err e, s1) => (.err e, s1)
      | (.panic, s1) => (.panic, s1)

def writeUnhintedName (n : WName) : M (Option Prior) := fun s =>
  if s.mode ≠ .disabled ∧ n.wire.length > 2 then Writer.writeCompressedUnhintedName n s
  else Writer.writeUncompressedName n s

def pushHinted (prior : Prior) : M (Option Prior) := fun s =>
  match Writer.pushPointer prior.ptr s with
  | (.ok (), s') => (.ok (some prior), s')
  | (.err e, s') => (.err e, s')
  | (.panic, s') => (.panic, s')

def writeHintedName (hint : Hint) (n : WName) : M (Option Prior) := fun s =>
  if s.mode = .disabled ∨ n.wire.length ≤ 2 then Writer.writeUncompressedName n s
  else if s.mode = .casePreserving then Writer.writeCompressedUnhintedName n s
  else match hint with
    | .qname =>
      match s.qname with
      | some q => Writer.pushHinted q s
      | none => Writer.writeCompressedUnhintedName n s
    | .mostRecentOwner =>
      match s.mostRecentOwner with
      | some o => Writer.pushHinted o s
      | none => Writer.writeCompressedUnhintedName n s
    | .mostRecentNameInRdata =>
      match s.mostRecentNameInRdata with
      | some r => Writer.pushHinted r s
      | none => Writer.writeCompressedUnhintedName n s
    | .explicit p =>
      if p < s.cursor then Writer.pushHinted ⟨p, n.len⟩ s
      else Writer.writeCompressedUnhintedName n s
    | .none => Writer.writeCompressedUnhintedName n s

/-- the component types as a plain list (the generated table always has an entry) -/
def componentTypes (cls ty : Nat) : List CompType := (Writer.componentTypes cls ty).getD []

def addRr (hint : Hint) (owner : WName) (ty cls ttl : Nat) (rdata : List UInt8) : M Unit := do
  setCtx .owner
  let p ← Writer.writeHintedName hint owner
  setCtx .none
  M.modify fun s => { s with mostRecentOwner := p }
  tryPushU16 ty
  tryPushU16 cls
  tryPushU32 ttl
  let s ← M.get
  if s.available < s.cursor then M.panic
  else if s.available - s.cursor < 2 then M.fail .Truncation
  else do
    let rdlengthStart := s.cursor
    M.modify fun s => { s with cursor := s.cursor + 2 }
    writeComponents (componentTypes cls ty) rdata
    let s' ← M.get
    if s'.cursor < rdlengthStart + 2 then M.panic
    else write rdlengthStart (u16be ((s'.cursor - rdlengthStart - 2) % 65536))

def setExtendedRcode (raw : Nat) : M Unit := fun s =>
  match s.edns with
  | some e =>
    if raw > 4095 then (.err .ExtendedRcodeOverflow, s)
    else
      match setHdr Gen.RCODE_BYTE (fun b => (b &&& ~~~ (UInt8.ofNat Gen.RCODE_MASK)) |||
              (UInt8.ofNat (raw % 256) &&& UInt8.ofNat Gen.RCODE_MASK)) s with
      | (.ok (), s') => (.ok (), { s' with edns := some { e with upper := (raw / 16) % 256 } })
      | r => r
  | none => (.err .NotEdns, s)

def addQuestion (qname : WName) (qtype qclass : Nat) : M Unit := fun s =>
  if s.sect ≠ .question then (.err .OutOfOrder, s)
  else if s.qdcount + 1 > 65535 then (.err .CountOverflow, s)
  else
    match withRollback (do
        setCtx .qname
        let p ← Writer.writeUnhintedName qname
        setCtx .none
        let st ← M.get
        if st.qdcount = 0 then M.modify fun s => { s with qname := p }
        tryPushU16 qtype
        tryPushU16 qclass) s with
    | (.ok (), s') => (.ok (), { s' with qdcount := s'.qdcount + 1, rrStart := s'.cursor })
    | r => r

def addRrOp (sec : RrSection) (hint : Hint) (owner : WName) (ty cls ttlRaw : Nat)
    (rdata : List UInt8) : M Unit :=
  withRollback (do
    changeSection sec
    Writer.addRr hint owner ty cls (ttlFrom ttlRaw) rdata
    let s ← M.get
    if getCount sec s + 1 > 65535 then M.fail .CountOverflow
    else setCount sec (getCount sec s + 1))

def addRrsetOp (sec : RrSection) (hint : Hint) (owner : WName) (ty cls ttlRaw : Nat)
    (rdatas : List (List UInt8)) : M Unit :=
  withRollback (do
    changeSection sec
    let n ← addRrset hint owner ty cls (ttlFrom ttlRaw) rdatas 0
    let s ← M.get
    if n > 65535 then M.fail .CountOverflow
    else if getCount sec s + n > 65535 then M.fail .CountOverflow
    else setCount sec (getCount sec s + n))

def setTsig (mode : TsigMode) (rr : TsigRr) : M Unit := fun s =>
  if s.tsig.isSome then (.err .AlreadyTsig, s)
  else
    let reservedLen := match mode with
      | .request a _ | .response a _ _ | .subsequent a _ _ => signedLen rr a
      | .unsigned n => unsignedLen rr n
    if s.cursor + reservedLen > s.available then (.err .Truncation, s)
    else if s.arcount + 1 > 65535 then (.err .CountOverflow, s)
    else (.ok (), { s with arcount := s.arcount + 1, available := s.available - reservedLen,
                           tsig := some ⟨mode, reservedLen, rr⟩ })

def finishWithMac (macFn : Tsig → List UInt8 → List UInt8) : M (Nat × Option (List UInt8)) := do
  let s ← M.get
  write Gen.QDCOUNT_START (u16be s.qdcount)
  write Gen.ANCOUNT_START (u16be s.ancount)
  write Gen.NSCOUNT_START (u16be s.nscount)
  write Gen.ARCOUNT_START (u16be s.arcount)
  match s.edns with
  | some e => do
    M.modify fun s => { s with available := s.available + Gen.OPT_RECORD_SIZE }
    unwrap (Writer.addRr .none WName.root T_OPT e.payload ((e.upper * 16777216) % 4294967296) [])
  | none => pure ()
  match s.tsig with
  | some ts => do
    let s1 ← M.get
    if s1.cursor > s1.octets.size then M.panic            -- `&self.octets[0..self.cursor]`
    else do
      let message := (s1.octets.extract 0 s1.cursor).toList
      let mac : Option (List UInt8) := match ts.mode with
        | .unsigned _ => none
        | _ => some (macFn ts message)
      let rdata := tsigRdata ts.rr (tsigAlgName ts.mode) (mac.getD [])
      M.modify fun s => { s with tsig := none, available := s.available + ts.reservedLen }
      unwrap (Writer.addRr .none ts.rr.keyName T_TSIG QC_ANY (ttlFrom 0) rdata)
      let s2 ← M.get
      pure (s2.cursor, mac)
  | none => do
    let s2 ← M.get
    pure (s2.cursor, none)

end V0

theorem tryPush_v0 (data : List UInt8) : tryPush data = V0.tryPush data := by
  funext s
  unfold tryPush V0.tryPush write
  split
  · rfl
  · split
    · split <;> rfl
    · rfl

theorem pushPointer_v0 (p : Nat) : pushPointer p = V0.pushPointer p := by
  funext s
  unfold pushPointer V0.pushPointer
  simp only [M.bind_apply, M.gets_apply, M.modify_apply]
  cases tryPushU16 (49152 + p) s with
  | mk r s' => cases r <;> rfl

theorem writeUncompressedName_v0 (n : WName) : writeUncompressedName n = V0.writeUncompressedName n := by
  funext s
  unfold writeUncompressedName V0.writeUncompressedName
  simp only [M.bind_apply, M.gets_apply]
  cases tryPush n.wire s with
  | mk r s' =>
    cases r with
    | ok u => simp only [ghostLabels, M.modify_apply, M.pure_apply]
    | err e => rfl
    | panic => rfl

theorem writeCompressedUnhintedName_v0 (n : WName) :
    writeCompressedUnhintedName n = V0.writeCompressedUnhintedName n := by
  funext s
  unfold writeCompressedUnhintedName V0.writeCompressedUnhintedName
  simp only [M.bind_apply, M.gets_apply]
  cases compressDecision s.octets s.mode (s.mostRecentOwner.orElse fun _ => s.qname)
      s.mostRecentNameInRdata n with
  | panic => rfl
  | err e => rfl
  | ok d =>
    cases d with
    | none => rfl
    | some m =>
      simp only []
      split
      · simp only [M.bind_apply]
        cases pushPointer m.priorPointer s with
        | mk r s' => cases r <;> rfl
      · simp only [M.bind_apply]
        cases tryPush (n.wireTo m.startColumn) s with
        | mk r s1 =>
          cases r with
          | err e => rfl
          | panic => rfl
          | ok u =>
            simp only [ghostLabels, M.modify_apply]
            cases pushPointer m.priorPointer _ with
            | mk r3 s3 => cases r3 <;> rfl

theorem writeUnhintedName_v0 (n : WName) : writeUnhintedName n = V0.writeUnhintedName n := by
  funext s
  unfold writeUnhintedName V0.writeUnhintedName
  simp only [M.bind_apply, M.gets_apply]
  split <;> rfl

theorem pushHinted_v0 (p : Prior) : pushHinted p = V0.pushHinted p := by
  funext s
  unfold pushHinted V0.pushHinted
  simp only [M.bind_apply]
  cases pushPointer p.ptr s with
  | mk r s' => cases r <;> rfl

theorem writeHintedName_v0 (h : Hint) (n : WName) : writeHintedName h n = V0.writeHintedName h n := by
  funext s
  unfold writeHintedName V0.writeHintedName
  simp only [M.bind_apply, M.gets_apply]
  split
  · rfl
  · split
    · rfl
    · cases h with
      | qname => simp only [M.bind_apply, M.gets_apply]; cases s.qname <;> rfl
      | mostRecentOwner => simp only [M.bind_apply, M.gets_apply]; cases s.mostRecentOwner <;> rfl
      | mostRecentNameInRdata => simp only [M.bind_apply, M.gets_apply]; cases s.mostRecentNameInRdata <;> rfl
      | explicit p => simp only [M.bind_apply, M.gets_apply]; split <;> rfl
      | none => rfl

theorem componentTypes_v0 (cls ty : Nat) : componentTypes cls ty = some (V0.componentTypes cls ty) := by
  obtain ⟨ts, h⟩ := componentTypes_total cls ty
  simp [V0.componentTypes, h]

theorem writeRdata_v0 (cls ty : Nat) (rd : List UInt8) :
    writeRdata cls ty rd = writeComponents (V0.componentTypes cls ty) rd := by
  unfold writeRdata
  rw [componentTypes_v0]

theorem setExtendedRcode_v0 (raw : Nat) : setExtendedRcode raw = V0.setExtendedRcode raw := by
  funext s
  unfold setExtendedRcode V0.setExtendedRcode
  simp only [M.bind_apply, M.gets_apply]
  cases s.edns with
  | none => rfl
  | some e =>
    simp only []
    split
    · rfl
    · simp only [M.bind_apply]
      cases setHdr Gen.RCODE_BYTE _ s with
      | mk r s' => cases r <;> rfl

theorem setTsig_v0 (mode : TsigMode) (rr : TsigRr) : setTsig mode rr = V0.setTsig mode rr := by
  funext s
  unfold setTsig V0.setTsig
  cases mode <;> rfl

theorem addRrOp_v0 (sec : RrSection) (hint : Hint) (owner : WName) (ty cls ttl : Nat) (rd : List UInt8) :
    addRrOp sec hint owner ty cls ttl rd = V0.addRrOp sec hint owner ty cls ttl rd := rfl

theorem addRrsetOp_v0 (sec : RrSection) (hint : Hint) (owner : WName) (ty cls ttl : Nat)
    (rds : List (List UInt8)) :
    addRrsetOp sec hint owner ty cls ttl rds = V0.addRrsetOp sec hint owner ty cls ttl rds := rfl

theorem addRr_v0 (hint : Hint) (owner : WName) (ty cls ttl : Nat) (rd : List UInt8) :
    addRr hint owner ty cls ttl rd = V0.addRr hint owner ty cls ttl rd := by
  unfold addRr V0.addRr
  simp only [writeRdata_v0]
  rfl

theorem addQuestion_v0 (qn : WName) (qt qc : Nat) : addQuestion qn qt qc = V0.addQuestion qn qt qc := by
  funext s
  unfold addQuestion V0.addQuestion
  simp only [M.bind_apply, M.gets_apply]
  split
  · rfl
  · split
    · rfl
    · have hb : addQuestionBody qn qt qc = (do
          setCtx .qname
          let p ← writeUnhintedName qn
          setCtx .none
          let st ← M.get
          if st.qdcount = 0 then M.modify fun s => { s with qname := p }
          tryPushU16 qt
          tryPushU16 qc : M Unit) := by
        unfold addQuestionBody
        funext s0
        simp only [M.bind_apply]
        cases setCtx NameCtx.qname s0 with
        | mk r1 s1 =>
          cases r1 with
          | err e => rfl
          | panic => rfl
          | ok u1 =>
            simp only []
            cases writeUnhintedName qn s1 with
            | mk r2 s2 =>
              cases r2 with
              | err e => rfl
              | panic => rfl
              | ok p =>
                simp only []
                cases setCtx NameCtx.none s2 with
                | mk r3 s3 =>
                  cases r3 with
                  | err e => rfl
                  | panic => rfl
                  | ok u3 =>
                    simp only [M.modify_apply, M.get_apply]
                    by_cases hq : s3.qdcount = 0
                    · rw [if_pos hq, if_pos hq]; rfl
                    · rw [if_neg hq, if_neg hq]; rfl
      rw [hb]
      simp only [M.bind_apply, M.modify_apply]
      cases withRollback _ s with
      | mk r s' => cases r <;> rfl

theorem finishTsig_v0 (macFn : Tsig → List UInt8 → List UInt8) (tsig : Option Tsig) :
    finishTsig macFn tsig =
      (match tsig with
       | some ts => do
         let s1 ← M.get
         if s1.cursor > s1.octets.size then M.panic
         else do
           let message := (s1.octets.extract 0 s1.cursor).toList
           let mac : Option (List UInt8) := match ts.mode with
             | .unsigned _ => none
             | _ => some (macFn ts message)
           let rdata := tsigRdata ts.rr (tsigAlgName ts.mode) (mac.getD [])
           M.modify fun s => { s with tsig := none, available := s.available + ts.reservedLen }
           unwrap (addRr .none ts.rr.keyName T_TSIG QC_ANY (ttlFrom 0) rdata)
           let s2 ← M.get
           pure (s2.cursor, mac)
       | none => do
         let s2 ← M.get
         pure (s2.cursor, none) : M (Nat × Option (List UInt8))) := by
  funext s
  unfold finishTsig
  cases tsig with
  | none => rfl
  | some ts =>
    simp only [M.bind_apply, M.gets_apply, M.get_apply]
    by_cases hc : s.cursor > s.octets.size
    · (rw [if_pos hc, if_pos hc]) <;> rfl
    · (rw [if_neg hc, if_neg hc]) <;> rfl

theorem finishWithMac_v0 (macFn : Tsig → List UInt8 → List UInt8) :
    finishWithMac macFn = V0.finishWithMac macFn := by
  funext s
  unfold finishWithMac V0.finishWithMac finishCounts
  simp only [finishTsig_v0]
  simp only [M.bind_apply, M.gets_apply, M.get_apply]
  cases write Gen.QDCOUNT_START (u16be s.qdcount) s with
  | mk r1 s1 =>
    cases r1 with
    | err e => rfl
    | panic => rfl
    | ok u1 =>
      simp only []
      cases write Gen.ANCOUNT_START (u16be s.ancount) s1 with
      | mk r2 s2 =>
        cases r2 with
        | err e => rfl
        | panic => rfl
        | ok u2 =>
          simp only []
          cases write Gen.NSCOUNT_START (u16be s.nscount) s2 with
          | mk r3 s3 =>
            cases r3 with
            | err e => rfl
            | panic => rfl
            | ok u3 =>
              simp only []
              cases write Gen.ARCOUNT_START (u16be s.arcount) s3 with
              | mk r4 s4 =>
                cases r4 with
                | err e => rfl
                | panic => rfl
                | ok u4 =>
                  simp only []
                  unfold finishOpt
                  cases s.edns with
                  | none => rfl
                  | some e =>
                    simp only [M.bind_apply, M.modify_apply]

/-- the component list of every (class, type), as a decision list -/
theorem V0.componentTypes_arms (cls ty : Nat) :
    V0.componentTypes cls ty =
      if ty = 2 ∨ ty = 3 ∨ ty = 4 ∨ ty = 5 ∨ ty = 7 ∨ ty = 8 ∨ ty = 9 ∨ ty = 12 then [.compressibleName]
      else if ty = 1 ∧ cls = 3 then [.uncompressibleName]
      else if ty = 6 then [.compressibleName, .compressibleName]
      else if ty = 14 then [.compressibleName, .compressibleName]
      else if ty = 15 then [.fixedLen 2, .compressibleName]
      else if ty = 33 ∧ cls = 1 then [.fixedLen 6, .uncompressibleName]
      else [] := by
  unfold V0.componentTypes
  rw [componentTypes_eq, lookup_arms]
  repeat' split
  all_goals decide

theorem rdataNames_v0 (cls ty : Nat) (rd : List UInt8) :
    rdataNames cls ty rd = compNames (V0.componentTypes cls ty) rd := by
  unfold rdataNames
  rw [componentTypes_v0]

end QV.Writer
