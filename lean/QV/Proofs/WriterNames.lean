/-
  QV.Proofs.WriterNames — the anchor invariant of the writer (C13's semantic half; the writer side
  of C01/C02): every recorded label start and every stored `PriorName` is the start of a name
  stored below the cursor (`NameAt`), every name-writing routine keeps that, never panics on it,
  and returns an anchor that denotes the name it was given.
-/
import QV.Proofs.Writer
import QV.Proofs.Compress
import QV.Proofs.CompressC

namespace QV.Writer
open QV QV.Wire

/-! ### octets at a position -/

/-- the octets `d` are stored at position `c` -/
def BytesAt (oct : Bytes) (c : Nat) (d : List UInt8) : Prop := ∀ i, i < d.length → oct[c + i]? = d[i]?

theorem bytesAt_writeAt (a : Bytes) (c : Nat) (d : List UInt8) (h : c + d.length ≤ a.size) :
    BytesAt (writeAt a c d) c d := fun i hi => writeAt_get_in a c d i hi h

theorem bytesAt_append {oct : Bytes} {c : Nat} {d e : List UInt8} (h : BytesAt oct c (d ++ e)) :
    BytesAt oct c d ∧ BytesAt oct (c + d.length) e := by
  constructor
  · intro i hi
    have := h i (by simp; omega)
    rw [this, List.getElem?_append_left hi]
  · intro i hi
    have := h (d.length + i) (by simp; omega)
    rw [show c + d.length + i = c + (d.length + i) by omega, this, List.getElem?_append_right (by omega)]
    simp

theorem bytesAt_cons {oct : Bytes} {c : Nat} {b : UInt8} {d : List UInt8} (h : BytesAt oct c (b :: d)) :
    oct[c]? = some b ∧ BytesAt oct (c + 1) d := by
  have h1 := h 0 (by simp)
  refine ⟨by simpa using h1, fun i hi => ?_⟩
  have := h (i + 1) (by simp; omega)
  rw [show c + 1 + i = c + (i + 1) by omega, this]
  simp

theorem bytesAt_frame {oct oct' : Bytes} {c : Nat} {d : List UInt8} (h : BytesAt oct c d)
    (hpre : ∀ i, c ≤ i → i < c + d.length → oct'[i]? = oct[i]?) : BytesAt oct' c d := by
  intro i hi
  rw [hpre _ (by omega) (by omega)]
  exact h i hi

theorem bytesAt_extract {oct : Bytes} {c : Nat} {d : List UInt8} (h : BytesAt oct c d) :
    (oct.extract c (c + d.length)).toList = d := by
  apply List.ext_getElem?
  intro i
  by_cases hi : i < d.length
  · have := h i hi
    have hs : c + i < oct.size := by
      rw [List.getElem?_eq_getElem hi] at this
      exact getElem?_some_lt this
    rw [← this]
    simp only [Array.toList_extract, List.getElem?_take, List.getElem?_drop]
    simp [hi, hs]
  · rw [List.getElem?_eq_none (by simp; omega), List.getElem?_eq_none (by omega)]

/-! ### a name written literally -/

def encLen (ls : List Label) : Nat := (ls.flatMap WName.encLabel).length

@[simp] theorem encLen_nil : encLen [] = 0 := rfl
@[simp] theorem encLen_cons (l : Label) (ls : List Label) : encLen (l :: ls) = 1 + l.length + encLen ls := by
  simp [encLen, WName.encLabel]; omega

theorem encLen_append (a b : List Label) : encLen (a ++ b) = encLen a + encLen b := by
  simp [encLen]

/-- all labels of 1..63 octets -/
def LabelsWF (ls : List Label) : Prop := ∀ l ∈ ls, 1 ≤ l.length ∧ l.length ≤ 63

theorem ofNat_len_notPtr {l : Label} (h : l.length ≤ 63) : isPtr (UInt8.ofNat l.length) = false := by
  apply not_isPtr_of_le63
  rw [UInt8.toNat_ofNat']; omega

/-- Labels `ls` stored literally at `c`, followed (at `c + encLen ls`) by something that `Hop`s
    to a stored name `tail`: then from `c` one reaches a stored name `ls ++ tail`. -/
theorem literal_chain {G : Nat → Prop} {oct : Bytes} {cur : Nat} {tail : List Label} {pe : Nat} :
    ∀ (ls : List Label) (c : Nat), BytesAt oct c (ls.flatMap WName.encLabel) → LabelsWF ls →
      (∀ g ∈ labelStartsFrom c ls, G g) → Hop oct cur (c + encLen ls) pe → NameAt G oct cur pe tail →
      ∃ q, Hop oct cur c q ∧ NameAt G oct cur q (ls ++ tail) ∧ (ls ≠ [] → q = c) := by
  intro ls
  induction ls with
  | nil =>
    intro c _ _ _ hop hn
    exact ⟨pe, by simpa using hop, by simpa using hn, fun h => absurd rfl h⟩
  | cons l ls ih =>
    intro c hb hwf hg hop hn
    have hl := hwf l List.mem_cons_self
    simp only [List.flatMap_cons, WName.encLabel, List.cons_append] at hb
    obtain ⟨hb0, hb1⟩ := bytesAt_cons hb
    obtain ⟨hb2, hb3⟩ := bytesAt_append hb1
    have hop' : Hop oct cur (c + 1 + l.length + encLen ls) pe := by
      rw [encLen_cons] at hop
      rw [show c + 1 + l.length + encLen ls = c + (1 + l.length + encLen ls) by omega]; exact hop
    obtain ⟨q', hq1, hq2, _⟩ := ih (c + 1 + l.length) hb3 (fun x hx => hwf x (List.mem_cons_of_mem _ hx))
      (fun g hg' => hg g (by simp [labelStartsFrom]; right; rw [show c + l.length + 1 = c + 1 + l.length by omega]; exact hg'))
      hop' hn
    have hcur : c < cur := by have := hop_start_lt hq1; omega
    have hd : (oct.extract (c + 1) (c + 1 + l.length)).toList = l := bytesAt_extract hb2
    refine ⟨c, .here hcur hb0 (ofNat_len_notPtr hl.2), ?_, fun _ => rfl⟩
    exact .label (hg c (by simp [labelStartsFrom])) hl.1 hl.2 hb0 hd hq1 hq2

/-- every label start of the literal part begins a stored name -/
theorem literal_all {G : Nat → Prop} {oct : Bytes} {cur : Nat} {tail : List Label} {pe : Nat} :
    ∀ (ls : List Label) (c : Nat), BytesAt oct c (ls.flatMap WName.encLabel) → LabelsWF ls →
      (∀ g ∈ labelStartsFrom c ls, G g) → Hop oct cur (c + encLen ls) pe → NameAt G oct cur pe tail →
      ∀ g ∈ labelStartsFrom c ls, ∃ ls', NameAt G oct cur g ls' := by
  intro ls
  induction ls with
  | nil => intro c _ _ _ _ _ g hg; simp [labelStartsFrom] at hg
  | cons l ls ih =>
    intro c hb hwf hg hop hn g hgm
    simp only [labelStartsFrom, List.mem_cons] at hgm
    rcases hgm with rfl | hgm
    · obtain ⟨q, _, h2, h3⟩ := literal_chain (l :: ls) g hb hwf hg hop hn
      rw [h3 (by simp)] at h2
      exact ⟨_, h2⟩
    · simp only [List.flatMap_cons, WName.encLabel, List.cons_append] at hb
      obtain ⟨_, hb1⟩ := bytesAt_cons hb
      obtain ⟨_, hb3⟩ := bytesAt_append hb1
      have hop' : Hop oct cur (c + 1 + l.length + encLen ls) pe := by
        rw [encLen_cons] at hop
        rw [show c + 1 + l.length + encLen ls = c + (1 + l.length + encLen ls) by omega]; exact hop
      rw [show c + l.length + 1 = c + 1 + l.length by omega] at hgm
      exact ih (c + 1 + l.length) hb3 (fun x hx => hwf x (List.mem_cons_of_mem _ hx))
        (fun g' hg' => hg g' (by simp [labelStartsFrom]; right; rw [show c + l.length + 1 = c + 1 + l.length by omega]; exact hg'))
        hop' hn g hgm

theorem labelStartsFrom_ge (c : Nat) (ls : List Label) : ∀ g ∈ labelStartsFrom c ls, c ≤ g ∧ g < c + encLen ls := by
  induction ls generalizing c with
  | nil => intro g hg; simp [labelStartsFrom] at hg
  | cons l ls ih =>
    intro g hg
    simp only [labelStartsFrom, List.mem_cons] at hg
    rcases hg with rfl | hg
    · simp; omega
    · have := ih _ g hg
      simp; omega

/-- the chunk-disciplined version of `literal_chain`: labels stored literally at `c`, inside a chunk
    that starts at `a ≤ c`, followed by something that `Hop`s to a chunk-disciplined stored name —
    in the same chunk, or below the start of the chunk -/
theorem literal_chainC {G : Nat → Prop} {oct : Bytes} {cur a : Nat} {tail : List Label} {pe cs' : Nat} :
    ∀ (ls : List Label) (c : Nat), a ≤ c → BytesAt oct c (ls.flatMap WName.encLabel) → LabelsWF ls →
      (∀ g ∈ labelStartsFrom c ls, G g) → Hop oct cur (c + encLen ls) pe →
      ((pe = c + encLen ls ∧ cs' = a) ∨ (pe < a ∧ cs' = pe)) → NameAtC G oct cur cs' pe tail →
      ls ≠ [] → NameAtC G oct cur a c (ls ++ tail) := by
  intro ls
  induction ls with
  | nil => intro c _ _ _ _ _ _ _ hne; exact absurd rfl hne
  | cons l ls ih =>
    intro c hac hb hwf hg hop hch hn _
    have hl := hwf l List.mem_cons_self
    simp only [List.flatMap_cons, WName.encLabel, List.cons_append] at hb
    obtain ⟨hb0, hb1⟩ := bytesAt_cons hb
    obtain ⟨hb2, hb3⟩ := bytesAt_append hb1
    have hd : (oct.extract (c + 1) (c + 1 + l.length)).toList = l := bytesAt_extract hb2
    have hgc : G c := hg c (by simp [labelStartsFrom])
    have hop' : Hop oct cur (c + 1 + l.length + encLen ls) pe := by
      rw [encLen_cons] at hop
      rw [show c + 1 + l.length + encLen ls = c + (1 + l.length + encLen ls) by omega]; exact hop
    cases hls : ls with
    | nil =>
      subst hls
      simp only [encLen_nil, Nat.add_zero] at hop'
      have hch' : (pe = c + 1 + l.length ∧ cs' = a) ∨ (pe < a ∧ cs' = pe) := by
        rcases hch with ⟨e1, e2⟩ | h2
        · left; rw [encLen_cons, encLen_nil] at e1; exact ⟨by omega, e2⟩
        · right; exact h2
      exact .label hac hgc hl.1 hl.2 hb0 hd hop' hch' hn
    | cons l2 ls2 =>
      have hch' : (pe = c + 1 + l.length + encLen ls ∧ cs' = a) ∨ (pe < a ∧ cs' = pe) := by
        rcases hch with ⟨e1, e2⟩ | h2
        · left; rw [encLen_cons] at e1; exact ⟨by omega, e2⟩
        · right; exact h2
      have hrest := ih (c + 1 + l.length) (by omega) hb3 (fun x hx => hwf x (List.mem_cons_of_mem _ hx))
        (fun g hg' => hg g (by simp [labelStartsFrom]; right; rw [show c + l.length + 1 = c + 1 + l.length by omega]; exact hg'))
        hop' hch' hn (by rw [hls]; simp)
      obtain ⟨_, hlt, b, hbq, hnp⟩ := nameAt_start (nameAtC_forget hrest)
      rw [← hls]
      exact .label hac hgc hl.1 hl.2 hb0 hd (.here hlt hbq hnp) (Or.inl ⟨rfl, rfl⟩) hrest

/-- every label start of the literal part begins a chunk-disciplined stored name that is a suffix
    of the whole -/
theorem literal_allC {G : Nat → Prop} {oct : Bytes} {cur a : Nat} {tail : List Label} {pe cs' : Nat} :
    ∀ (ls : List Label) (c : Nat), a ≤ c → BytesAt oct c (ls.flatMap WName.encLabel) → LabelsWF ls →
      (∀ g ∈ labelStartsFrom c ls, G g) → Hop oct cur (c + encLen ls) pe →
      ((pe = c + encLen ls ∧ cs' = a) ∨ (pe < a ∧ cs' = pe)) → NameAtC G oct cur cs' pe tail →
      ∀ g ∈ labelStartsFrom c ls, ∃ ls', NameAtC G oct cur g g ls' ∧ encLen ls' ≤ encLen ls + encLen tail := by
  intro ls
  induction ls with
  | nil => intro c _ _ _ _ _ _ _ g hg; simp [labelStartsFrom] at hg
  | cons l ls ih =>
    intro c hac hb hwf hg hop hch hn g hgm
    simp only [labelStartsFrom, List.mem_cons] at hgm
    rcases hgm with rfl | hgm
    · have h2 := literal_chainC (l :: ls) g hac hb hwf hg hop hch hn (by simp)
      exact ⟨_, nameAtC_mono h2 hac (Nat.le_refl _), by rw [encLen_append]; exact Nat.le_refl _⟩
    · simp only [List.flatMap_cons, WName.encLabel, List.cons_append] at hb
      obtain ⟨_, hb1⟩ := bytesAt_cons hb
      obtain ⟨_, hb3⟩ := bytesAt_append hb1
      have hop' : Hop oct cur (c + 1 + l.length + encLen ls) pe := by
        rw [encLen_cons] at hop
        rw [show c + 1 + l.length + encLen ls = c + (1 + l.length + encLen ls) by omega]; exact hop
      have hch' : (pe = c + 1 + l.length + encLen ls ∧ cs' = a) ∨ (pe < a ∧ cs' = pe) := by
        rcases hch with ⟨e1, e2⟩ | h2
        · left; rw [encLen_cons] at e1; exact ⟨by omega, e2⟩
        · right; exact h2
      rw [show c + l.length + 1 = c + 1 + l.length by omega] at hgm
      obtain ⟨ls', h1, h2⟩ := ih (c + 1 + l.length) (by omega) hb3 (fun x hx => hwf x (List.mem_cons_of_mem _ hx))
        (fun g' hg' => hg g' (by simp [labelStartsFrom]; right; rw [show c + l.length + 1 = c + 1 + l.length by omega]; exact hg'))
        hop' hch' hn g hgm
      exact ⟨ls', h1, by rw [encLen_cons]; omega⟩

/-! ### the anchor invariant -/

/-- the recorded label starts of a state -/
def GL (s : State) : Nat → Prop := fun x => x ∈ s.gLabels

/-- a name with labels `ls` is stored at `p`, below the cursor -/
def StoredAt (s : State) (p : Nat) (ls : List Label) : Prop := NameAt (GL s) s.octets s.cursor p ls

/-- **the hint contract**: `p` is a valid anchor in `s` and the name stored there is `n` up to
    ASCII case (and `p.len` is `n`'s label count) -/
def Den (s : State) (p : Prior) (n : WName) : Prop :=
  0 < p.ptr ∧ p.ptr ≤ Gen.POINTER_MAX ∧ p.len = n.len ∧
  ∃ ls, StoredAt s p.ptr ls ∧ labelsMatch .standard n.labels ls = true

/-- a stored anchor is valid -/
def AnchorOK (s : State) (a : Option Prior) : Prop :=
  ∀ p, a = some p → 0 < p.ptr ∧ p.ptr ≤ Gen.POINTER_MAX ∧ PriorOK (GL s) s.octets s.cursor p

/-- a chunk-disciplined name of at most 255 octets is stored at the recorded label start `g` -/
def CStored (s : State) (g : Nat) : Prop :=
  ∃ ls, NameAtC (GL s) s.octets s.cursor g g ls ∧ encLen ls + 1 ≤ 255

/-- the working invariant of the name-writing routines -/
structure WInv (s : State) : Prop where
  c12 : 12 ≤ s.cursor
  cur_av : s.cursor ≤ s.available
  av_size : s.available ≤ s.octets.size
  g12 : ∀ g ∈ s.gLabels, 12 ≤ g
  labs : ∀ g ∈ s.gLabels, ∃ ls, StoredAt s g ls
  qn : AnchorOK s s.qname
  ow : AnchorOK s s.mostRecentOwner
  rd : AnchorOK s s.mostRecentNameInRdata
  /-- every recorded label start begins a name that the RFC 1035 §4.1.4 decoder can read: pointers
      go below the start of the chunk they end, and the expanded name is at most 255 octets -/
  clabs : ∀ g ∈ s.gLabels, CStored s g

theorem den_priorOK {s : State} {p : Prior} {n : WName} (h : Den s p n) :
    PriorOK (GL s) s.octets s.cursor p := by
  obtain ⟨_, _, hl, ls, hs, hm⟩ := h
  refine ⟨ls, hs, ?_⟩
  have := labelsMatch_length hm
  rw [hl]; unfold WName.len; omega

theorem storedAt_ext {s s' : State} (e : Ext s s') {p : Nat} {ls : List Label}
    (h : StoredAt s p ls) : StoredAt s' p ls :=
  nameAt_frame (lo := 0) h (fun x hx => e.glab x hx) (fun _ _ => Nat.zero_le _)
    (fun i _ hi => e.pre i hi) e.cur

theorem cstored_ext {s s' : State} (e : Ext s s') {g : Nat} (h : CStored s g) : CStored s' g := by
  obtain ⟨ls, h1, h2⟩ := h
  exact ⟨ls, nameAtC_frame (lo := 0) h1 (fun x hx => e.glab x hx) (fun _ _ => Nat.zero_le _)
    (fun i _ hi => e.pre i hi) e.cur, h2⟩

theorem den_ext {s s' : State} (e : Ext s s') {p : Prior} {n : WName} (h : Den s p n) : Den s' p n := by
  obtain ⟨h1, h2, h3, ls, h4, h5⟩ := h
  exact ⟨h1, h2, h3, ls, storedAt_ext e h4, h5⟩

theorem priorOK_ext {s s' : State} (e : Ext s s') {p : Prior}
    (h : PriorOK (GL s) s.octets s.cursor p) : PriorOK (GL s') s'.octets s'.cursor p := by
  obtain ⟨ls, h1, h2⟩ := h
  exact ⟨ls, storedAt_ext e h1, h2⟩

theorem anchorOK_ext {s s' : State} (e : Ext s s') {a : Option Prior} (h : AnchorOK s a) :
    AnchorOK s' a := fun p hp => ⟨(h p hp).1, (h p hp).2.1, priorOK_ext e (h p hp).2.2⟩

/-- an extension that records no new label start and keeps the anchors keeps the invariant -/
theorem winv_ext {s s' : State} (h : WInv s) (e : Ext s s') (hg : s'.gLabels = s.gLabels)
    (hq : s'.qname = s.qname) (ho : s'.mostRecentOwner = s.mostRecentOwner)
    (hr : s'.mostRecentNameInRdata = s.mostRecentNameInRdata) : WInv s' := by
  refine ⟨by have := e.cur; have := h.c12; omega, by rw [e.available]; exact e.avail h.cur_av,
    by rw [e.available, e.size]; exact h.av_size, by rw [hg]; exact h.g12, ?_, ?_, ?_, ?_, ?_⟩
  · intro g hgm
    rw [hg] at hgm
    obtain ⟨ls, hl⟩ := h.labs g hgm
    exact ⟨ls, storedAt_ext e hl⟩
  · rw [hq]; exact anchorOK_ext e h.qn
  · rw [ho]; exact anchorOK_ext e h.ow
  · rw [hr]; exact anchorOK_ext e h.rd
  · intro g hgm
    rw [hg] at hgm
    exact cstored_ext e (h.clabs g hgm)

/-- **the pointer log is sound (C13)**: every compression pointer emitted so far points strictly
    backwards, lies entirely below the cursor, has a target in pointer range that is a recorded
    label start, and a name is stored at that target -/
def PtrLogOK (s : State) : Prop :=
  ∀ e ∈ s.gPtrs, e.target < e.pos ∧ e.pos < s.cursor ∧ 0 < e.target ∧ e.target ≤ Gen.POINTER_MAX ∧
    e.target ∈ s.gLabels ∧ ∃ ls, StoredAt s e.target ls

theorem ptrLog_ext {s s' : State} (h : PtrLogOK s) (e : Ext s s') (hg : s'.gPtrs = s.gPtrs) :
    PtrLogOK s' := by
  intro x hx
  rw [hg] at hx
  obtain ⟨h1, h2, h3, h4, h5, ls, h6⟩ := h x hx
  exact ⟨h1, by have := e.cur; omega, h3, h4, e.glab _ h5, ls, storedAt_ext e h6⟩

/-- a pointer to a stored name, pushed (after some literal labels) at the cursor -/
theorem ptrLog_literal {s s3 : State} (hl : PtrLogOK s) (e : Ext s s3) {tail : List Label} {pp k : Nat}
    (htail : StoredAt s pp tail) (hpos : 0 < pp) (hpp : pp ≤ Gen.POINTER_MAX)
    (hcur : s3.cursor = s.cursor + k + 2) (c : NameCtx) (m : CMode)
    (hlog : s3.gPtrs = ⟨s.cursor + k, pp, c, m⟩ :: s.gPtrs) : PtrLogOK s3 := by
  obtain ⟨hG, hlt, _⟩ := nameAt_start htail
  intro x hx
  rw [hlog] at hx
  simp only [List.mem_cons] at hx
  rcases hx with rfl | hx
  · exact ⟨by show pp < s.cursor + k; omega, by show s.cursor + k < s3.cursor; omega, hpos, hpp,
      e.glab _ hG, tail, storedAt_ext e htail⟩
  · obtain ⟨h1, h2, h3, h4, h5, ls, h6⟩ := hl x hx
    exact ⟨h1, by have := e.cur; omega, h3, h4, e.glab _ h5, ls, storedAt_ext e h6⟩

/-! ### `try_push` under the invariant -/

theorem tryPush_eq (d : List UInt8) (s : State) (h1 : s.cursor ≤ s.available)
    (h2 : s.available ≤ s.octets.size) :
    tryPush d s = if d.length ≤ s.available - s.cursor then
        (.ok (), { s with octets := writeAt s.octets s.cursor d, cursor := s.cursor + d.length })
      else (.err .Truncation, s) := by
  unfold tryPush
  rw [if_neg (by omega)]
  by_cases hd : d.length ≤ s.available - s.cursor
  · rw [if_pos hd, if_pos (by omega), if_pos (by omega)]
  · rw [if_neg hd, if_neg (by omega)]

theorem ext_push (s : State) (d : List UInt8) (hd : s.cursor + d.length ≤ s.available) :
    Ext s { s with octets := writeAt s.octets s.cursor d, cursor := s.cursor + d.length } := by
  constructor <;> simp
  · exact fun _ => hd
  · intro i hi; exact writeAt_get_lt _ _ _ _ hi

theorem winv_push {s : State} (h : WInv s) (d : List UInt8) (hd : d.length ≤ s.available - s.cursor) :
    WInv { s with octets := writeAt s.octets s.cursor d, cursor := s.cursor + d.length } := by
  have e := ext_push s d (by have := h.cur_av; omega)
  have w := winv_ext h e rfl rfl rfl rfl
  exact ⟨w.c12, by have := h.cur_av; show s.cursor + d.length ≤ s.available; omega, w.av_size, w.g12,
    w.labs, w.qn, w.ow, w.rd, w.clabs⟩

theorem labelsMatch_refl (mode : CMode) (ls : List Label) : labelsMatch mode ls ls = true := by
  induction ls with
  | nil => rfl
  | cons l ls ih =>
    simp only [labelsMatch, Bool.and_eq_true]
    refine ⟨?_, ih⟩
    unfold labelMatch
    split
    · simp
    · simp [WName.labelEqIgnoreCase]

theorem labelMatch_std {mode : CMode} {a b : Label} (h : labelMatch mode a b = true) :
    labelMatch .standard a b = true := by
  unfold labelMatch at h ⊢
  split at h
  · simp at h; subst h; simp [WName.labelEqIgnoreCase]
  · rename_i hm
    simp only [show (CMode.standard = CMode.casePreserving) = False by simp, if_false]
    exact h

theorem labelsMatch_std {mode : CMode} {a b : List Label} (h : labelsMatch mode a b = true) :
    labelsMatch .standard a b = true := by
  induction a generalizing b with
  | nil => cases b with
    | nil => rfl
    | cons _ _ => simp [labelsMatch] at h
  | cons x xs ih => cases b with
    | nil => simp [labelsMatch] at h
    | cons y ys =>
      simp only [labelsMatch, Bool.and_eq_true] at h ⊢
      exact ⟨labelMatch_std h.1, ih h.2⟩

theorem labelsMatch_append {mode : CMode} {a b c d : List Label} (h1 : labelsMatch mode a b = true)
    (h2 : labelsMatch mode c d = true) : labelsMatch mode (a ++ c) (b ++ d) = true := by
  induction a generalizing b with
  | nil => cases b with
    | nil => simpa using h2
    | cons _ _ => simp [labelsMatch] at h1
  | cons x xs ih => cases b with
    | nil => simp [labelsMatch] at h1
    | cons y ys =>
      simp only [labelsMatch, Bool.and_eq_true, List.cons_append] at h1 ⊢
      exact ⟨h1.1, ih h1.2⟩

theorem labelMatch_length {mode : CMode} {a b : Label} (h : labelMatch mode a b = true) :
    a.length = b.length := by
  unfold labelMatch at h
  split at h
  · simp at h; rw [h]
  · unfold WName.labelEqIgnoreCase at h
    have := congrArg List.length (eq_of_beq h)
    simpa using this

theorem labelsMatch_encLen {mode : CMode} {a b : List Label} (h : labelsMatch mode a b = true) :
    encLen a = encLen b := by
  induction a generalizing b with
  | nil => cases b with
    | nil => rfl
    | cons _ _ => simp [labelsMatch] at h
  | cons x xs ih => cases b with
    | nil => simp [labelsMatch] at h
    | cons y ys =>
      simp only [labelsMatch, Bool.and_eq_true] at h
      rw [encLen_cons, encLen_cons, ih h.2, labelMatch_length h.1]

theorem wf_labels {n : WName} (h : n.WF) : LabelsWF n.labels := by
  intro l hl
  have := h.1 l hl
  have h63 : Gen.MAX_LABEL_LEN = 63 := rfl
  omega

theorem wire_length (n : WName) : n.wire.length = encLen n.labels + 1 := by
  simp [WName.wire, encLen]

/-! ### writing a name without compression -/

/-- from position `a` (where a name was just written: a label, or a bare pointer) one reads — with
    the chunk discipline of the RFC 1035 §4.1.4 decoder started at `a` — the labels `ls`; the
    expanded name has at most 255 octets -/
def ReadsAt (s : State) (a : Nat) (ls : List Label) : Prop :=
  ∃ q cs', Hop s.octets s.cursor a q ∧ ((q = a ∧ cs' = a) ∨ (q < a ∧ cs' = q)) ∧
    NameAtC (GL s) s.octets s.cursor cs' q ls ∧ encLen ls + 1 ≤ 255

/-- the contiguous octets a name occupies at `a`: literal labels `pre`, then the root label
    (`k = |pre| + 1`) or the first octet of a pointer (`k = |pre| + 2`) -/
def ChunkAt (oct : Bytes) (a k : Nat) : Prop :=
  ∃ pre b, LabelsWF pre ∧ BytesAt oct a (pre.flatMap WName.encLabel ++ [b]) ∧
    ((b = 0 ∧ k = encLen pre + 1) ∨ (isPtr b = true ∧ k = encLen pre + 2))

/-- how names are compared in a mode: octet for octet in `CasePreserving`, ignoring ASCII case
    otherwise -/
def effMode (m : CMode) : CMode := if m = .standard then .standard else .casePreserving

theorem labelsMatch_eff {m : CMode} {a b : List Label} (hm : m ≠ .disabled) (h : labelsMatch m a b = true) :
    labelsMatch (effMode m) a b = true := by
  unfold effMode
  cases m with
  | standard => simpa using h
  | casePreserving => simpa using h
  | disabled => exact absurd rfl hm

/-- `g` is the first octet of a label of the name that lies physically at `a`: one of its literal
    labels, or its root label -/
def PhysLab (oct : Bytes) (a g : Nat) : Prop :=
  ∃ pre b, LabelsWF pre ∧ BytesAt oct a (pre.flatMap WName.encLabel ++ [b]) ∧ (b = 0 ∨ isPtr b = true) ∧
    (g ∈ labelStartsFrom a pre ∨ (b = 0 ∧ g = a + encLen pre))

/-- what a name-writing routine guarantees when it starts from a valid state `s` and is given the
    name `n`: it does not panic; on success the state is valid again, the anchors it does not
    return are untouched, and the anchor it returns denotes `n` -/
structure NameSpec (s : State) (n : WName) (r : Out WriterErr (Option Prior) × State) : Prop where
  nopanic : r.1 ≠ .panic
  /-- … and what was written at the old cursor reads back — for the RFC decoder — as labels that
      match the name given (octet for octet in `CasePreserving` mode, up to ASCII case otherwise) -/
  ok : ∀ p, r.1 = .ok p → WInv r.2 ∧ (∀ q, p = some q → Den r.2 q n) ∧ r.2.qname = s.qname ∧
    r.2.mostRecentOwner = s.mostRecentOwner ∧ r.2.mostRecentNameInRdata = s.mostRecentNameInRdata ∧
    (∃ ls, ReadsAt r.2 s.cursor ls ∧ labelsMatch (effMode s.mode) n.labels ls = true) ∧
    ChunkAt r.2.octets s.cursor (r.2.cursor - s.cursor) ∧
    -- the label starts recorded are those of the name now lying at the old cursor
    (∀ g, g ∈ r.2.gLabels → g ∈ s.gLabels ∨ PhysLab r.2.octets s.cursor g) ∧
    -- without compression the name is written literally
    (s.mode = .disabled → BytesAt r.2.octets s.cursor n.wire ∧ r.2.cursor = s.cursor + n.wire.length)
  /-- and the pointer log stays sound -/
  log : ∀ p, r.1 = .ok p → PtrLogOK s → PtrLogOK r.2

/-- the state after `data` was pushed -/
def pushed (s : State) (d : List UInt8) : State :=
  { s with octets := writeAt s.octets s.cursor d, cursor := s.cursor + d.length }

/-- ghost: more recorded label starts -/
def withLabels (s : State) (g : List Nat) : State := { s with gLabels := g ++ s.gLabels }

theorem writeUncompressedName_eq (n : WName) (s : State) (h1 : s.cursor ≤ s.available)
    (h2 : s.available ≤ s.octets.size) :
    writeUncompressedName n s =
      if n.wire.length ≤ s.available - s.cursor then
        (.ok ((hintPointerNew s.cursor).map fun p => ⟨p, n.len⟩),
         withLabels (pushed s n.wire)
           ([s.cursor + encLen n.labels] ++ (labelStartsFrom s.cursor n.labels).reverse))
      else (.err .Truncation, s) := by
  unfold writeUncompressedName
  simp only [M.bind_apply, M.gets_apply, tryPush_eq _ s h1 h2]
  by_cases hfit : n.wire.length ≤ s.available - s.cursor
  · simp only [hfit, if_true, ghostLabels, M.modify_apply, M.pure_apply, encLen, withLabels, pushed,
      List.append_assoc]
  · simp only [hfit, if_false]

theorem writeUncompressedName_spec (n : WName) (s : State) (h : WInv s) (hn : n.WF) :
    NameSpec s n (writeUncompressedName n s) := by
  rw [writeUncompressedName_eq n s h.cur_av h.av_size]
  by_cases hnfit : ¬ n.wire.length ≤ s.available - s.cursor
  · rw [if_neg hnfit]; exact ⟨by simp, (fun p hp => by cases hp), fun p hp => by cases hp⟩
  have hfit : n.wire.length ≤ s.available - s.cursor := Decidable.of_not_not hnfit
  rw [if_pos hfit]
  refine ⟨by simp, fun p hp => ?main, fun p hp hl => ?lg⟩
  case lg =>
    have := frame_writeUncompressedName n s
    rw [writeUncompressedName_eq n s h.cur_av h.av_size, if_pos hfit] at this
    exact ptrLog_ext hl this rfl
  simp only [Out.ok.injEq] at hp
  -- the new state
  generalize hs' : withLabels (pushed s n.wire)
      ([s.cursor + encLen n.labels] ++ (labelStartsFrom s.cursor n.labels).reverse) = s'
  have hcur : s'.cursor = s.cursor + n.wire.length := by rw [← hs']; rfl
  have hoct : s'.octets = writeAt s.octets s.cursor n.wire := by rw [← hs']; rfl
  have hgl : s'.gLabels = [s.cursor + encLen n.labels] ++ (labelStartsFrom s.cursor n.labels).reverse ++ s.gLabels := by
    rw [← hs']; rfl
  have hav := h.cur_av; have hsz := h.av_size; have hc12 := h.c12
  have hwl := wire_length n
  have e : Ext s s' := by
    have := frame_writeUncompressedName n s
    rw [writeUncompressedName_eq n s h.cur_av h.av_size, if_pos hfit] at this
    rw [← hs']; exact this
  have hb : BytesAt s'.octets s.cursor n.wire := by
    rw [hoct]; exact bytesAt_writeAt _ _ _ (by omega)
  have hb' : BytesAt s'.octets s.cursor (n.labels.flatMap WName.encLabel) ∧
      BytesAt s'.octets (s.cursor + encLen n.labels) [0] := by
    unfold WName.wire at hb; exact bytesAt_append hb
  have h0 : s'.octets[s.cursor + encLen n.labels]? = some 0 := by simpa using hb'.2 0 (by simp)
  have hGend : GL s' (s.cursor + encLen n.labels) := by unfold GL; rw [hgl]; simp
  have hGst : ∀ g ∈ labelStartsFrom s.cursor n.labels, GL s' g := by
    intro g hg; unfold GL; rw [hgl]; simp; right; left; exact hg
  have hroot : NameAt (GL s') s'.octets s'.cursor (s.cursor + encLen n.labels) [] :=
    .root hGend (by rw [hcur]; omega) h0
  have hhop : Hop s'.octets s'.cursor (s.cursor + encLen n.labels) (s.cursor + encLen n.labels) :=
    .here (by rw [hcur]; omega) h0 (by decide)
  have hwf := wf_labels hn
  have hstart : StoredAt s' s.cursor n.labels := by
    obtain ⟨q, _, h2, h3⟩ := literal_chain n.labels s.cursor hb'.1 hwf hGst hhop hroot
    cases hl : n.labels with
    | nil =>
      rw [hl] at hroot
      simpa [StoredAt, hl] using hroot
    | cons l ls =>
      rw [h3 (by rw [hl]; simp)] at h2
      simpa [StoredAt, hl] using h2
  have hw : WInv s' := by
    refine ⟨by rw [hcur]; omega, by rw [hcur, e.available]; omega, by rw [e.available, e.size]; exact hsz,
      ?_, ?_, ?_, ?_, ?_, ?_⟩
    · intro g hg
      rw [hgl] at hg
      simp only [List.cons_append, List.nil_append, List.mem_cons, List.mem_append, List.mem_reverse] at hg
      rcases hg with rfl | hg | hg
      · omega
      · have := (labelStartsFrom_ge s.cursor n.labels g hg).1; omega
      · exact h.g12 g hg
    · intro g hg
      rw [hgl] at hg
      simp only [List.cons_append, List.nil_append, List.mem_cons, List.mem_append, List.mem_reverse] at hg
      rcases hg with rfl | hg | hg
      · exact ⟨[], hroot⟩
      · exact literal_all n.labels s.cursor hb'.1 hwf hGst hhop hroot g hg
      · obtain ⟨ls, hl⟩ := h.labs g hg
        exact ⟨ls, storedAt_ext e hl⟩
    · rw [show s'.qname = s.qname by rw [← hs']; rfl]; exact anchorOK_ext e h.qn
    · rw [show s'.mostRecentOwner = s.mostRecentOwner by rw [← hs']; rfl]; exact anchorOK_ext e h.ow
    · rw [show s'.mostRecentNameInRdata = s.mostRecentNameInRdata by rw [← hs']; rfl]; exact anchorOK_ext e h.rd
    · intro g hg
      rw [hgl] at hg
      simp only [List.cons_append, List.nil_append, List.mem_cons, List.mem_append, List.mem_reverse] at hg
      have hrootC : NameAtC (GL s') s'.octets s'.cursor s.cursor (s.cursor + encLen n.labels) [] :=
        .root (by omega) hGend (by rw [hcur]; omega) h0
      have h255 : n.wire.length ≤ 255 := hn.2
      rcases hg with rfl | hg | hg
      · exact ⟨[], .root (Nat.le_refl _) hGend (by rw [hcur]; omega) h0, by simp⟩
      · obtain ⟨ls', h1, h2⟩ := literal_allC (a := s.cursor) (cs' := s.cursor) n.labels s.cursor (Nat.le_refl _)
          hb'.1 hwf hGst hhop (Or.inl ⟨rfl, rfl⟩) hrootC g hg
        exact ⟨ls', h1, by rw [encLen_nil] at h2; omega⟩
      · exact cstored_ext e (h.clabs g hg)
  have hreadsU : ReadsAt s' s.cursor n.labels := by
    have hrootC : NameAtC (GL s') s'.octets s'.cursor s.cursor (s.cursor + encLen n.labels) [] :=
      .root (by omega) hGend (by rw [hcur]; omega) h0
    have h255 : n.wire.length ≤ 255 := hn.2
    have hC : NameAtC (GL s') s'.octets s'.cursor s.cursor s.cursor n.labels := by
      cases hl : n.labels with
      | nil => rw [hl] at hrootC; simpa using hrootC
      | cons l ls =>
        have := literal_chainC (a := s.cursor) (cs' := s.cursor) n.labels s.cursor (Nat.le_refl _) hb'.1 hwf hGst
          hhop (Or.inl ⟨rfl, rfl⟩) hrootC (by rw [hl]; simp)
        simpa [hl] using this
    obtain ⟨_, hlt, b, hb0, hnp⟩ := nameAt_start (nameAtC_forget hC)
    exact ⟨s.cursor, s.cursor, .here hlt hb0 hnp, Or.inl ⟨rfl, rfl⟩, hC, by omega⟩
  refine ⟨hw, ?_, by rw [← hs']; rfl, by rw [← hs']; rfl, by rw [← hs']; rfl,
    ⟨n.labels, hreadsU, labelsMatch_refl _ _⟩,
    ⟨n.labels, 0, hwf, hb, Or.inl ⟨rfl, by show s'.cursor - s.cursor = _; rw [hcur, hwl]; omega⟩⟩, ?prov, fun _ => ⟨hb, hcur⟩⟩
  case prov =>
    intro g hg
    have hg' : g ∈ s'.gLabels := hg
    rw [hgl] at hg'
    simp only [List.cons_append, List.nil_append, List.mem_cons, List.mem_append, List.mem_reverse] at hg'
    rcases hg' with rfl | hg' | hg'
    · exact Or.inr ⟨n.labels, 0, hwf, hb, Or.inl rfl, Or.inr ⟨rfl, rfl⟩⟩
    · exact Or.inr ⟨n.labels, 0, hwf, hb, Or.inl rfl, Or.inl hg'⟩
    · exact Or.inl hg'
  intro q hq
  rw [← hp] at hq
  show Den s' q n
  cases hh : hintPointerNew s.cursor with
  | none => rw [hh] at hq; cases hq
  | some c =>
    rw [hh] at hq
    simp only [Option.map_some, Option.some.injEq] at hq
    obtain ⟨rfl, hpos, hmax⟩ := hintPointerNew_some hh
    subst hq
    exact ⟨hpos, hmax, rfl, n.labels, hstart, labelsMatch_refl _ _⟩


/-! ### writing a name with compression -/

/-- the two octets of a compression pointer to `pp` -/
def ptrBytes (pp : Nat) : List UInt8 := u16be (49152 + pp)

theorem ptrBytes_spec (pp : Nat) (h : pp ≤ 16383) :
    ∃ b1 b2, ptrBytes pp = [b1, b2] ∧ isPtr b1 = true ∧ ptrOf b1 b2 = pp := by
  refine ⟨UInt8.ofNat ((49152 + pp) / 256 % 256), UInt8.ofNat ((49152 + pp) % 256), rfl, ?_, ?_⟩
  · rw [isPtr_iff]; unfold Spec.specIsPtr; rw [UInt8.toNat_ofNat']; omega
  · unfold ptrOf; rw [UInt8.toNat_ofNat', UInt8.toNat_ofNat']; omega

theorem pushPointer_eq (pp : Nat) (s : State) (h1 : s.cursor ≤ s.available)
    (h2 : s.available ≤ s.octets.size) :
    pushPointer pp s = if 2 ≤ s.available - s.cursor then
        (.ok (), { pushed s (ptrBytes pp) with gPtrs := ⟨s.cursor, pp, s.gCtx, s.mode⟩ :: s.gPtrs })
      else (.err .Truncation, s) := by
  unfold pushPointer tryPushU16
  simp only [M.bind_apply, M.gets_apply, tryPush_eq _ s h1 h2]
  have : (u16be (49152 + pp)).length = 2 := rfl
  rw [this]
  by_cases hfit : 2 ≤ s.available - s.cursor
  · simp only [hfit, if_true, M.modify_apply, pushed, ptrBytes, this]
  · simp only [hfit, if_false]

/-- The state after "the labels `pre`, then a pointer to `pp`" were written at the cursor of a
    valid state `s` in which a name `tail` is stored at `pp`: valid again, and from the old
    cursor one reaches the stored name `pre ++ tail`. -/
theorem literal_ptr_state {s s3 : State} (h : WInv s) (e : Ext s s3) {pre tail : List Label} {pp : Nat}
    (hwf : LabelsWF pre) (htail : StoredAt s pp tail) (hpp : pp ≤ 16383)
    (hb : BytesAt s3.octets s.cursor (pre.flatMap WName.encLabel ++ ptrBytes pp))
    (hcur : s3.cursor = s.cursor + encLen pre + 2)
    (hgl : s3.gLabels = (labelStartsFrom s.cursor pre).reverse ++ s.gLabels)
    (hq : s3.qname = s.qname) (ho : s3.mostRecentOwner = s.mostRecentOwner)
    (hr : s3.mostRecentNameInRdata = s.mostRecentNameInRdata)
    (hbound : pre ≠ [] → encLen pre + encLen tail + 1 ≤ 255) :
    WInv s3 ∧ (∃ q, Hop s3.octets s3.cursor s.cursor q ∧ StoredAt s3 q (pre ++ tail) ∧
      (pre ≠ [] → q = s.cursor)) ∧ ReadsAt s3 s.cursor (pre ++ tail) ∧
      ChunkAt s3.octets s.cursor (s3.cursor - s.cursor) ∧
      (∀ g, g ∈ s3.gLabels → g ∈ s.gLabels ∨ PhysLab s3.octets s.cursor g) := by
  have htail' : StoredAt s3 pp tail := storedAt_ext e htail
  obtain ⟨_, hpplt, b3, hb3, hnp3⟩ := nameAt_start htail
  have hb3' : s3.octets[pp]? = some b3 := by rw [e.pre pp hpplt]; exact hb3
  obtain ⟨b1, b2, hpb, hisp, hptr⟩ := ptrBytes_spec pp hpp
  obtain ⟨hbl, hbp⟩ := bytesAt_append hb
  rw [hpb] at hbp
  have hlen : (pre.flatMap WName.encLabel).length = encLen pre := rfl
  rw [hlen] at hbp
  have h1 : s3.octets[s.cursor + encLen pre]? = some b1 := by simpa using hbp 0 (by simp)
  have h2 : s3.octets[s.cursor + encLen pre + 1]? = some b2 := by simpa using hbp 1 (by simp)
  have hhop : Hop s3.octets s3.cursor (s.cursor + encLen pre) pp := by
    have := Hop.jump (oct := s3.octets) (cur := s3.cursor) (q := s.cursor + encLen pre)
      (by rw [hcur]; omega) h1 h2 hisp (by rw [hptr]; omega) (by rw [hptr]; exact hb3') hnp3
    rw [hptr] at this; exact this
  have hGst : ∀ g ∈ labelStartsFrom s.cursor pre, GL s3 g := by
    intro g hg; unfold GL; rw [hgl]; simp; left; exact hg
  obtain ⟨q, hq1, hq2, hq3⟩ := literal_chain pre s.cursor hbl hwf hGst hhop htail'
  -- the chunk-disciplined reading of the target, in the new state
  obtain ⟨lsT, hcT, hbT⟩ := h.clabs pp (nameAt_start htail).1
  have hT := nameAtC_unique hcT htail
  subst hT
  have hc3 : NameAtC (GL s3) s3.octets s3.cursor pp pp lsT :=
    nameAtC_frame (lo := 0) hcT (fun x hx => e.glab x hx) (fun _ _ => Nat.zero_le _)
      (fun i _ hi => e.pre i hi) e.cur
  have hreads : ReadsAt s3 s.cursor (pre ++ lsT) := by
    cases hpre : pre with
    | nil =>
      subst hpre
      simp only [encLen_nil, Nat.add_zero] at hhop
      exact ⟨pp, pp, hhop, Or.inr ⟨hpplt, rfl⟩, by simpa using hc3, by simpa using hbT⟩
    | cons l0 pre0 =>
      have hne : pre ≠ [] := by rw [hpre]; simp
      have hch := literal_chainC (a := s.cursor) (cs' := pp) pre s.cursor (Nat.le_refl _) hbl hwf hGst hhop
        (Or.inr ⟨hpplt, rfl⟩) hc3 hne
      obtain ⟨_, hlt, b, hb0, hnp⟩ := nameAt_start (nameAtC_forget hch)
      have hbd := hbound hne
      rw [← hpre]
      exact ⟨s.cursor, s.cursor, .here hlt hb0 hnp, Or.inl ⟨rfl, rfl⟩, hch, by rw [encLen_append]; omega⟩
  have hchunk : ChunkAt s3.octets s.cursor (s3.cursor - s.cursor) := by
    refine ⟨pre, b1, hwf, ?_, Or.inr ⟨hisp, by rw [hcur]; omega⟩⟩
    intro i hi
    rw [List.length_append] at hi
    simp only [List.length_cons, List.length_nil] at hi
    have := hb i (by rw [hpb, List.length_append]; simp only [List.length_cons, List.length_nil]; omega)
    rw [this, hpb]
    by_cases hlt : i < (pre.flatMap WName.encLabel).length
    · rw [List.getElem?_append_left hlt, List.getElem?_append_left hlt]
    · have hi' : i = (pre.flatMap WName.encLabel).length := by omega
      subst hi'
      simp
  have hprov : ∀ g, g ∈ s3.gLabels → g ∈ s.gLabels ∨ PhysLab s3.octets s.cursor g := by
    intro g hg
    rw [hgl] at hg
    simp only [List.mem_append, List.mem_reverse] at hg
    rcases hg with hg | hg
    · obtain ⟨pre', b', hwf', hb', _⟩ := hchunk
      refine Or.inr ⟨pre, b1, hwf, ?_, Or.inr hisp, Or.inl hg⟩
      intro i hi
      rw [List.length_append] at hi
      simp only [List.length_cons, List.length_nil] at hi
      have := hb i (by rw [hpb, List.length_append]; simp only [List.length_cons, List.length_nil]; omega)
      rw [this, hpb]
      by_cases hlt : i < (pre.flatMap WName.encLabel).length
      · rw [List.getElem?_append_left hlt, List.getElem?_append_left hlt]
      · have hi' : i = (pre.flatMap WName.encLabel).length := by omega
        subst hi'
        simp
    · exact Or.inl hg
  refine ⟨?_, ⟨q, hq1, hq2, hq3⟩, hreads, hchunk, hprov⟩
  have hc12 := h.c12; have hav := h.cur_av
  refine ⟨by rw [hcur]; omega, by rw [e.available]; exact e.avail hav,
    by rw [e.available, e.size]; exact h.av_size, ?_, ?_, ?_, ?_, ?_, ?_⟩
  · intro g hg
    rw [hgl] at hg
    simp only [List.mem_append, List.mem_reverse] at hg
    rcases hg with hg | hg
    · have := (labelStartsFrom_ge s.cursor pre g hg).1; omega
    · exact h.g12 g hg
  · intro g hg
    rw [hgl] at hg
    simp only [List.mem_append, List.mem_reverse] at hg
    rcases hg with hg | hg
    · exact literal_all pre s.cursor hbl hwf hGst hhop htail' g hg
    · obtain ⟨ls, hl⟩ := h.labs g hg
      exact ⟨ls, storedAt_ext e hl⟩
  · rw [hq]; exact anchorOK_ext e h.qn
  · rw [ho]; exact anchorOK_ext e h.ow
  · rw [hr]; exact anchorOK_ext e h.rd
  · intro g hg
    rw [hgl] at hg
    simp only [List.mem_append, List.mem_reverse] at hg
    rcases hg with hg | hg
    · obtain ⟨ls', hc, _⟩ := h.clabs pp (nameAt_start htail).1
      have := nameAtC_unique hc htail
      subst this
      have hc3 : NameAtC (GL s3) s3.octets s3.cursor pp pp ls' :=
        nameAtC_frame (lo := 0) hc (fun x hx => e.glab x hx) (fun _ _ => Nat.zero_le _)
          (fun i _ hi => e.pre i hi) e.cur
      obtain ⟨ls2, h1, h2⟩ := literal_allC (a := s.cursor) (cs' := pp) pre s.cursor (Nat.le_refl _) hbl hwf hGst hhop
        (Or.inr ⟨hpplt, rfl⟩) hc3 g hg
      have hne : pre ≠ [] := by intro hnil; rw [hnil] at hg; simp [labelStartsFrom] at hg
      have := hbound hne
      exact ⟨ls2, h1, by omega⟩
    · exact cstored_ext e (h.clabs g hg)


theorem tryPush_eq' (d : List UInt8) (s : State) (h1 : s.cursor ≤ s.available)
    (h2 : s.available ≤ s.octets.size) :
    tryPush d s = if d.length ≤ s.available - s.cursor then (.ok (), pushed s d)
      else (.err .Truncation, s) := tryPush_eq d s h1 h2

theorem ghostLabels_false (p : Nat) (l : List Label) (s : State) :
    ghostLabels p l false s = (.ok (), withLabels s (labelStartsFrom p l).reverse) := by
  simp [ghostLabels, withLabels]

theorem bytesAt_two (a : Bytes) (c : Nat) (d1 d2 : List UInt8) (h : c + d1.length + d2.length ≤ a.size) :
    BytesAt (writeAt (writeAt a c d1) (c + d1.length) d2) c (d1 ++ d2) := by
  intro i hi
  by_cases h1 : i < d1.length
  · rw [writeAt_get_lt _ _ _ _ (by omega), List.getElem?_append_left h1]
    exact writeAt_get_in a c d1 i h1 (by omega)
  · rw [List.getElem?_append_right (by omega)]
    have := writeAt_get_in (writeAt a c d1) (c + d1.length) d2 (i - d1.length)
      (by simp at hi; omega) (by simp; omega)
    rw [show c + d1.length + (i - d1.length) = c + i by omega] at this
    exact this

theorem wireTo_lt (n : WName) (k : Nat) (h : k < n.labels.length) :
    n.wireTo k = (n.labels.take k).flatMap WName.encLabel := by
  unfold WName.wireTo WName.len
  rw [if_neg (by omega)]

theorem writeCompressedUnhintedName_spec (n : WName) (s : State) (h : WInv s) (hn : n.WF)
    (hnd : s.mode ≠ .disabled) :
    NameSpec s n (writeCompressedUnhintedName n s) := by
  have hav := h.cur_av; have hsz := h.av_size
  have hA : ∀ p, (s.mostRecentOwner.orElse fun _ => s.qname) = some p → PriorOK (GL s) s.octets s.cursor p := by
    intro p hp
    cases ho : s.mostRecentOwner with
    | some o => rw [ho] at hp; simp at hp; subst hp; exact (h.ow o ho).2.2
    | none => rw [ho] at hp; simp at hp; exact (h.qn p hp).2.2
  have hB : ∀ p, s.mostRecentNameInRdata = some p → PriorOK (GL s) s.octets s.cursor p :=
    fun p hp => (h.rd p hp).2.2
  obtain ⟨r, hr, hprop⟩ := compressDecision_ok (mode := s.mode) (n := n) hA hB
  have e := frame_writeCompressedUnhintedName n s
  unfold writeCompressedUnhintedName at e ⊢
  simp only [M.bind_apply, M.gets_apply, hr] at e ⊢
  cases r with
  | none => exact writeUncompressedName_spec n s h hn
  | some m =>
    obtain ⟨hk, hpos, hmax, ls, hst, hmatch⟩ := hprop m rfl
    have hmax' : m.priorPointer ≤ 16383 := hmax
    simp only [] at e ⊢
    by_cases hk0 : m.startColumn = 0
    · -- the whole name is replaced by a pointer
      simp only [hk0, if_true, M.bind_apply, pushPointer_eq _ s hav hsz] at e ⊢
      by_cases hfit : 2 ≤ s.available - s.cursor
      · simp only [hfit, if_true, M.pure_apply] at e ⊢
        refine ⟨by simp, fun p hp => ?main, fun p hp hl => ?lg⟩
        case lg =>
          exact ptrLog_literal (k := 0) hl e hst hpos hmax (by simp [pushed]; rfl) s.gCtx s.mode (by simp [pushed])
        simp only [Out.ok.injEq] at hp
        obtain ⟨hw, _, hrd, hck⟩ := literal_ptr_state (pre := []) h e (fun _ hl => by cases hl) hst hmax'
          (by simpa [pushed] using bytesAt_writeAt s.octets s.cursor (ptrBytes m.priorPointer)
                (by have : (ptrBytes m.priorPointer).length = 2 := rfl; omega))
          (by simp [pushed, encLen]; rfl) (by simp [pushed, labelStartsFrom]) rfl rfl rfl (fun hne => absurd rfl hne)
        refine ⟨hw, ?_, rfl, rfl, rfl, ⟨ls, by simpa using hrd,
          labelsMatch_eff hnd (by have := hmatch; rw [hk0] at this; simpa using this)⟩, hck.1, hck.2,
          fun hd => absurd hd hnd⟩
        intro q hq
        rw [← hp] at hq
        cases hq
        rw [hk0] at hmatch
        exact ⟨hpos, hmax, rfl, ls, storedAt_ext e hst, labelsMatch_std (by simpa using hmatch)⟩
      · simp only [hfit, if_false] at e ⊢
        exact ⟨by simp, (fun p hp => by cases hp), fun p hp => by cases hp⟩
    · -- a literal prefix, then a pointer
      have hwt := wireTo_lt n m.startColumn hk
      simp only [hk0, if_false, M.bind_apply, tryPush_eq' _ s hav hsz] at e ⊢
      by_cases hfit1 : (n.wireTo m.startColumn).length ≤ s.available - s.cursor
      · simp only [hfit1, if_true, ghostLabels_false] at e ⊢
        generalize hs2 : withLabels (pushed s (n.wireTo m.startColumn))
            (labelStartsFrom s.cursor (List.take m.startColumn n.labels)).reverse = s2 at e ⊢
        have c2 : s2.cursor = s.cursor + (n.wireTo m.startColumn).length := by rw [← hs2]; rfl
        have a2 : s2.available = s.available := by rw [← hs2]; rfl
        have o2 : s2.octets = writeAt s.octets s.cursor (n.wireTo m.startColumn) := by rw [← hs2]; rfl
        have g2 : s2.gLabels = (labelStartsFrom s.cursor (List.take m.startColumn n.labels)).reverse ++ s.gLabels := by
          rw [← hs2]; rfl
        rw [pushPointer_eq _ s2 (by rw [c2, a2]; omega) (by rw [a2, o2, writeAt_size]; exact hsz)] at e ⊢
        by_cases hfit2 : 2 ≤ s2.available - s2.cursor
        · have hfit2' : s.cursor + (n.wireTo m.startColumn).length + 2 ≤ s.available := by
            have := hfit2; rw [a2, c2] at this; omega
          simp only [hfit2, if_true, M.pure_apply] at e ⊢
          refine ⟨by simp, fun p hp => ?main2, fun p hp hl => ?lg2⟩
          case lg2 =>
            have hgp : s2.gPtrs = s.gPtrs := by rw [← hs2]; rfl
            exact ptrLog_literal (k := (n.wireTo m.startColumn).length) hl e hst hpos hmax
              (by simp only [pushed, c2]; rfl) s2.gCtx s2.mode (by simp only [pushed, c2, hgp])
          simp only [Out.ok.injEq] at hp
          have hlen1 : (n.wireTo m.startColumn).length = encLen (List.take m.startColumn n.labels) := by
            rw [hwt]; rfl
          have hwfpre : LabelsWF (List.take m.startColumn n.labels) :=
            fun l hl => wf_labels hn l (List.mem_of_mem_take hl)
          obtain ⟨hw, ⟨q, _, hq2, hq3⟩, hrd, hck⟩ := literal_ptr_state (pre := List.take m.startColumn n.labels) h e
            hwfpre hst hmax'
            (by
              simp only [pushed, o2, c2, ← hwt]
              exact bytesAt_two s.octets s.cursor _ _ (by
                have : (ptrBytes m.priorPointer).length = 2 := rfl
                omega))
            (by simp only [pushed, c2, hlen1]; rfl) (by simp only [pushed, g2])
            (by simp only [pushed]; rw [← hs2]; rfl) (by simp only [pushed]; rw [← hs2]; rfl)
            (by simp only [pushed]; rw [← hs2]; rfl)
            (fun _ => by
              have h255 : n.wire.length ≤ 255 := hn.2
              have hw := wire_length n
              have hsplit : encLen n.labels = encLen (List.take m.startColumn n.labels) +
                  encLen (List.drop m.startColumn n.labels) := by
                rw [← encLen_append, List.take_append_drop]
              have := labelsMatch_encLen hmatch
              omega)
          have hne : List.take m.startColumn n.labels ≠ [] := by
            intro hnil
            have := congrArg List.length hnil
            rw [List.length_take, List.length_nil] at this
            omega
          rw [hq3 hne] at hq2
          refine ⟨hw, ?_, by simp only [pushed]; rw [← hs2]; rfl, by simp only [pushed]; rw [← hs2]; rfl,
            by simp only [pushed]; rw [← hs2]; rfl, ⟨_, hrd, by
              have := labelsMatch_append (mode := effMode s.mode)
                (labelsMatch_refl _ (List.take m.startColumn n.labels)) (labelsMatch_eff hnd hmatch)
              rwa [List.take_append_drop] at this⟩, hck.1, hck.2, fun hd => absurd hd hnd⟩
          intro q' hq'
          rw [← hp] at hq'
          cases hh : hintPointerNew s.cursor with
          | none => rw [hh] at hq'; cases hq'
          | some c =>
            rw [hh] at hq'
            simp only [Option.map_some, Option.some.injEq] at hq'
            obtain ⟨rfl, hpos', hmax''⟩ := hintPointerNew_some hh
            subst hq'
            refine ⟨hpos', hmax'', rfl, _, hq2, ?_⟩
            conv => lhs; arg 2; rw [← List.take_append_drop m.startColumn n.labels]
            exact labelsMatch_append (labelsMatch_refl _ _) (labelsMatch_std hmatch)
        · simp only [hfit2, if_false] at e ⊢
          exact ⟨by simp, (fun p hp => by cases hp), fun p hp => by cases hp⟩
      · simp only [hfit1, if_false] at e ⊢
        exact ⟨by simp, (fun p hp => by cases hp), fun p hp => by cases hp⟩


theorem writeUnhintedName_spec (n : WName) (s : State) (h : WInv s) (hn : n.WF) :
    NameSpec s n (writeUnhintedName n s) := by
  unfold writeUnhintedName
  simp only [M.bind_apply, M.gets_apply]
  split
  · rename_i hc; exact writeCompressedUnhintedName_spec n s h hn hc.1
  · exact writeUncompressedName_spec n s h hn

theorem pushHinted_spec (q : Prior) (n : WName) (s : State) (h : WInv s) (hd : Den s q n)
    (hm : s.mode = .standard) :
    NameSpec s n (pushHinted q s) := by
  have hav := h.cur_av; have hsz := h.av_size
  have e := frame_pushHinted q s
  unfold pushHinted at e ⊢
  simp only [M.bind_apply, pushPointer_eq _ s hav hsz] at e ⊢
  by_cases hfit : 2 ≤ s.available - s.cursor
  · simp only [hfit, if_true, M.pure_apply] at e ⊢
    refine ⟨by simp, fun p hp => ?main, fun p hp hl => ?lg⟩
    case lg =>
      obtain ⟨hpos, hmax, _, ls, hst, _⟩ := hd
      exact ptrLog_literal (k := 0) hl e hst hpos hmax (by simp [pushed]; rfl) s.gCtx s.mode (by simp [pushed])
    simp only [Out.ok.injEq] at hp
    have hd' := hd
    obtain ⟨_, hmax, _, ls, hst, hmt⟩ := hd'
    obtain ⟨hw, _, hrd, hck⟩ := literal_ptr_state (pre := []) h e (fun _ hl => by cases hl) hst hmax
      (by simpa [pushed] using bytesAt_writeAt s.octets s.cursor (ptrBytes q.ptr)
            (by have : (ptrBytes q.ptr).length = 2 := rfl; omega))
      (by simp [pushed, encLen]; rfl) (by simp [pushed, labelStartsFrom]) rfl rfl rfl (fun hne => absurd rfl hne)
    refine ⟨hw, ?_, rfl, rfl, rfl, ⟨ls, by simpa using hrd, by unfold effMode; rw [if_pos hm]; exact hmt⟩, hck.1,
      hck.2, fun hd => by rw [hm] at hd; cases hd⟩
    intro q' hq'
    rw [← hp] at hq'
    cases hq'
    exact den_ext e hd
  · simp only [hfit, if_false] at e ⊢
    exact ⟨by simp, (fun p hp => by cases hp), fun p hp => by cases hp⟩

/-- the hint that accompanies a name is valid: the anchor it resolves to (if any) denotes that name -/
def HintOK (s : State) : Hint → WName → Prop
  | .qname, n => ∀ q, s.qname = some q → Den s q n
  | .mostRecentOwner, n => ∀ q, s.mostRecentOwner = some q → Den s q n
  | .mostRecentNameInRdata, n => ∀ q, s.mostRecentNameInRdata = some q → Den s q n
  | .explicit p, n => p < s.cursor → Den s ⟨p, n.len⟩ n
  | .none, _ => True

theorem writeHintedName_spec (hint : Hint) (n : WName) (s : State) (h : WInv s) (hn : n.WF)
    (hh : HintOK s hint n) : NameSpec s n (writeHintedName hint n s) := by
  unfold writeHintedName
  simp only [M.bind_apply, M.gets_apply]
  split
  · exact writeUncompressedName_spec n s h hn
  · rename_i hnd0
    have hnd : s.mode ≠ .disabled := fun hc => hnd0 (Or.inl hc)
    split
    · exact writeCompressedUnhintedName_spec n s h hn hnd
    · rename_i hncp0
      have hncp : s.mode = .standard := by
        cases hmm : s.mode with
        | standard => rfl
        | casePreserving => exact absurd hmm hncp0
        | disabled => exact absurd hmm hnd
      cases hint with
      | qname =>
        simp only [M.bind_apply, M.gets_apply]
        cases hq : s.qname with
        | none => exact writeCompressedUnhintedName_spec n s h hn hnd
        | some q => exact pushHinted_spec q n s h (hh q hq) hncp
      | mostRecentOwner =>
        simp only [M.bind_apply, M.gets_apply]
        cases hq : s.mostRecentOwner with
        | none => exact writeCompressedUnhintedName_spec n s h hn hnd
        | some q => exact pushHinted_spec q n s h (hh q hq) hncp
      | mostRecentNameInRdata =>
        simp only [M.bind_apply, M.gets_apply]
        cases hq : s.mostRecentNameInRdata with
        | none => exact writeCompressedUnhintedName_spec n s h hn hnd
        | some q => exact pushHinted_spec q n s h (hh q hq) hncp
      | explicit p =>
        simp only [M.bind_apply, M.gets_apply]
        split
        · rename_i hp; exact pushHinted_spec _ n s h (hh hp) hncp
        · exact writeCompressedUnhintedName_spec n s h hn hnd
      | none => exact writeCompressedUnhintedName_spec n s h hn hnd


end QV.Writer
