/-
  QV.Proofs.WriterItems — the structure of the message below the cursor in every compression mode:
  where each question and record starts, that the independent decoder reads a name there, and how
  many contiguous octets that name occupies (the `k` of `specDecodeName`).
-/
import QV.Proofs.NameRoundTrip
import QV.Proofs.WriterSafe
import QV.Proofs.MessageDecode

namespace QV.Writer
open QV QV.Wire QV.Spec

/-! ### the first-chunk length the decoder reports -/

theorem specWalk_chunk (msg : Bytes) (cs : Nat) (b : UInt8) : ∀ (pre : List Label) (a fuel : Nat)
    (ls : List (List UInt8)) (k : Nat), LabelsWF pre →
    BytesAt msg a (pre.flatMap WName.encLabel ++ [b]) → specWalk msg fuel a cs = some (ls, k) →
    (b = 0 → k = encLen pre + 1) ∧ (isPtr b = true → k = encLen pre + 2) := by
  intro pre
  induction pre with
  | nil =>
    intro a fuel ls k _ hb hw
    cases fuel with
    | zero => simp [specWalk] at hw
    | succ f =>
      have h0 : msg[a]? = some b := by simpa using hb 0 (by simp)
      unfold specWalk at hw
      simp only [h0] at hw
      constructor
      · intro hb0
        subst hb0
        simp only [if_true, Option.some.injEq, Prod.mk.injEq] at hw
        rw [← hw.2]; simp
      · intro hp
        have hsp : specIsPtr b := (isPtr_iff b).mp hp
        unfold specIsPtr at hsp
        have hne : b ≠ 0 := by
          intro hc; subst hc
          have : (0 : UInt8).toNat = 0 := rfl
          omega
        rw [if_neg hne, if_neg (by omega), if_pos hsp] at hw
        cases h1 : msg[a+1]? with
        | none => rw [h1] at hw; cases hw
        | some b2 =>
          rw [h1] at hw
          simp only at hw
          split at hw
          · cases h2 : specWalk msg f ((b.toNat - 192) * 256 + b2.toNat) ((b.toNat - 192) * 256 + b2.toNat) with
            | none => rw [h2] at hw; cases hw
            | some r =>
              rw [h2] at hw
              simp only [Option.some.injEq, Prod.mk.injEq] at hw
              rw [← hw.2]; simp
          · cases hw
  | cons l pre ih =>
    intro a fuel ls k hwf hb hw
    have hl := hwf l List.mem_cons_self
    cases fuel with
    | zero => simp [specWalk] at hw
    | succ f =>
      simp only [List.flatMap_cons, WName.encLabel, List.cons_append, List.append_assoc] at hb
      obtain ⟨hb0, hb1⟩ := bytesAt_cons hb
      have hb2 : BytesAt msg (a + 1 + l.length) (pre.flatMap WName.encLabel ++ [b]) := by
        have := (bytesAt_append (d := l) hb1).2
        exact this
      have hn : (UInt8.ofNat l.length).toNat = l.length := by rw [UInt8.toNat_ofNat']; omega
      have hne : UInt8.ofNat l.length ≠ 0 := by
        intro hc
        have := congrArg UInt8.toNat hc
        rw [hn] at this
        have h00 : (0 : UInt8).toNat = 0 := rfl
        omega
      unfold specWalk at hw
      simp only [hb0, hne, if_false, hn, hl.2, if_true] at hw
      split at hw
      · cases h2 : specWalk msg f (a + l.length + 1) cs with
        | none => rw [h2] at hw; cases hw
        | some r =>
          obtain ⟨ls', k'⟩ := r
          rw [h2] at hw
          simp only [Option.some.injEq, Prod.mk.injEq] at hw
          have := ih (a + 1 + l.length) f ls' k' (fun x hx => hwf x (List.mem_cons_of_mem _ hx)) hb2
            (by rw [show a + 1 + l.length = a + l.length + 1 by omega]; exact h2)
          rw [encLen_cons, ← hw.2]
          constructor
          · intro h; have := this.1 h; omega
          · intro h; have := this.2 h; omega
      · cases hw

/-- the `k` the decoder reports is the length of the chunk the name occupies -/
theorem specDecodeName_chunk {msg : Bytes} {a k k' n : Nat} {w : List UInt8} (hc : ChunkAt msg a k)
    (hd : specDecodeName msg a = some (w, n, k')) : k' = k := by
  obtain ⟨pre, b, hwf, hb, hk⟩ := hc
  unfold specDecodeName at hd
  cases hw : specWalk msg (msg.size * msg.size + msg.size + 2) a a with
  | none => rw [hw] at hd; cases hd
  | some r =>
    obtain ⟨ls, k2⟩ := r
    rw [hw] at hd
    simp only at hd
    split at hd
    · simp only [Option.some.injEq, Prod.mk.injEq] at hd
      have := specWalk_chunk msg a b pre a _ ls k2 hwf hb hw
      rcases hk with ⟨h0, hk⟩ | ⟨hp, hk⟩
      · rw [← hd.2.2, hk]; exact this.1 h0
      · rw [← hd.2.2, hk]; exact this.2 hp
    · cases hd

theorem chunkAt_frame {oct oct' : Bytes} {a k : Nat} (h : ChunkAt oct a k)
    (hpre : ∀ i, a ≤ i → i < a + k → oct'[i]? = oct[i]?) : ChunkAt oct' a k := by
  obtain ⟨pre, b, hwf, hb, hk⟩ := h
  refine ⟨pre, b, hwf, ?_, hk⟩
  refine bytesAt_frame hb (fun i h1 h2 => hpre i h1 ?_)
  have hlen : (pre.flatMap WName.encLabel ++ [b]).length = encLen pre + 1 := by simp [encLen]
  rw [hlen] at h2
  rcases hk with ⟨_, hk⟩ | ⟨_, hk⟩ <;> omega


/-! ### items: where a question / record starts -/

/-- at `a` a name starts that occupies `k` contiguous octets and leads (directly, or by its
    pointer) to a recorded label start -/
def Item (s : State) (a k : Nat) : Prop :=
  (∃ q, Hop s.octets s.cursor a q ∧ q ∈ s.gLabels) ∧ ChunkAt s.octets a k ∧ a + k ≤ s.cursor

theorem item_of_reads {s : State} {a k : Nat} {ls : List Label} (h : ReadsAt s a ls)
    (hc : ChunkAt s.octets a k) (hk : a + k ≤ s.cursor) : Item s a k := by
  obtain ⟨q, cs', hop, _, hn, _⟩ := h
  exact ⟨⟨q, hop, (nameAt_start (nameAtC_forget hn)).1⟩, hc, hk⟩

/-- the independent decoder reads a name at an item and reports its chunk length -/
theorem item_decodes {s : State} {a k : Nat} (hw : WInv s) (h : Item s a k) :
    ∃ w n, specDecodeName (s.octets.extract 0 s.cursor) a = some (w, n, k) := by
  obtain ⟨⟨q, hop, hq⟩, hc, hk⟩ := h
  have hcs : s.cursor ≤ s.octets.size := Nat.le_trans hw.cur_av hw.av_size
  obtain ⟨ls, hn, hb⟩ := hw.clabs q hq
  have hr : ReadsAt s a ls := by
    refine ⟨q, q, hop, ?_, hn, hb⟩
    cases hop with
    | here _ _ _ => exact Or.inl ⟨rfl, rfl⟩
    | jump _ _ _ _ hlt _ _ => exact Or.inr ⟨hlt, rfl⟩
  obtain ⟨k', hd⟩ := readsAt_specDecodeName hr hcs
  have hcm : ChunkAt (s.octets.extract 0 s.cursor) a k :=
    chunkAt_frame hc (fun i _ h2 => extract_prefix_get _ _ hcs _ (by omega))
  have := specDecodeName_chunk hcm hd
  subst this
  exact ⟨_, _, hd⟩

/-- an item only depends on the octets of its own chunk and of the label start it leads to -/
theorem item_move {s s' : State} {a k lo : Nat} (h : Item s a k)
    (hg12 : ∀ g ∈ s.gLabels, lo ≤ g)
    (hpre : ∀ i, lo ≤ i → i < a + k → s'.octets[i]? = s.octets[i]?) (hc : a + k ≤ s'.cursor)
    (hg : ∀ g ∈ s.gLabels, g ≤ a → g ∈ s'.gLabels) : Item s' a k := by
  obtain ⟨⟨q, hop, hq⟩, hck, hk⟩ := h
  have hqa : q ≤ a := (hop_le hop).1
  have hqlo : lo ≤ q := hg12 q hq
  have hck' : ChunkAt s'.octets a k := chunkAt_frame hck (fun i h1 h2 => hpre i (by omega) h2)
  refine ⟨⟨q, ?_, hg q hq hqa⟩, hck', hc⟩
  obtain ⟨pre, b, hwf, hb, hkk⟩ := hck
  have hlen : (pre.flatMap WName.encLabel ++ [b]).length = encLen pre + 1 := by simp [encLen]
  have hk1 : 1 ≤ k := by rcases hkk with ⟨_, e⟩ | ⟨_, e⟩ <;> omega
  cases hop with
  | here hq' hb' hnp =>
    exact .here (by omega) (by rw [hpre _ hqlo (by omega)]; exact hb') hnp
  | jump hq' h1 h2 hp hlt h3 hnp =>
    have h0 := hb 0 (by rw [hlen]; omega)
    rw [Nat.add_zero, h1] at h0
    have hk2 : 2 ≤ k := by
      rcases hkk with ⟨hb0, _⟩ | ⟨_, e⟩
      · exfalso
        cases pre with
        | nil =>
          simp at h0; subst h0
          rw [hb0] at hp; exact absurd hp (by decide)
        | cons l pre' =>
          simp [WName.encLabel] at h0
          have hl := hwf l List.mem_cons_self
          subst h0
          rw [ofNat_len_notPtr hl.2] at hp; cases hp
      · omega
    exact .jump (by omega) (by rw [hpre _ (by omega) (by omega)]; exact h1)
      (by rw [hpre _ (by omega) (by omega)]; exact h2) hp hlt
      (by rw [hpre _ hqlo (by omega)]; exact h3) hnp

theorem item_ext {s s' : State} {a k : Nat} (h : Item s a k) (e : Ext s s') : Item s' a k :=
  item_move (lo := 0) h (fun _ _ => Nat.zero_le _) (fun i _ hi => e.pre i (by have := h.2.2; omega))
    (by have := h.2.2; have := e.cur; omega) (fun g hg _ => e.glab g hg)


/-! ### what one `add_rr` appends, structurally -/

theorem M.bind_ok_inv {α β} {f : M α} {g : α → M β} {s s' : State} {b : β}
    (h : (f >>= g) s = (.ok b, s')) : ∃ a s1, f s = (.ok a, s1) ∧ g a s1 = (.ok b, s') := by
  simp only [M.bind_apply] at h
  cases hf : f s with
  | mk r s1 =>
    rw [hf] at h
    cases r with
    | ok a => exact ⟨a, s1, rfl, h⟩
    | err e => cases h
    | panic => cases h

theorem tryPush_ok_inv {d : List UInt8} {s s' : State} {u : Unit} (h : tryPush d s = (.ok u, s')) :
    s' = pushed s d ∧ s.cursor + d.length ≤ s.octets.size := by
  unfold tryPush at h
  split at h
  · cases h
  · split at h
    · split at h
      · rename_i hsz; cases h; exact ⟨rfl, hsz⟩
      · cases h
    · cases h

theorem pushed_get_lt (s : State) (d : List UInt8) (i : Nat) (hi : i < s.cursor) :
    (pushed s d).octets[i]? = s.octets[i]? := writeAt_get_lt _ _ _ _ hi

/-- **one record, structurally**: after a successful `add_rr` a name item starts at the old cursor;
    the type follows it, and the RDLENGTH field holds the number of octets written after it -/
theorem addRr_item (hint : Hint) (owner : WName) (ty cls ttl : Nat) (rd : List UInt8) (s s' : State)
    (hw : WInv s) (hwf : owner.WF) (hh : HintOK s hint owner)
    (h : addRr hint owner ty cls ttl rd s = (.ok (), s')) :
    ∃ k, Item s' s.cursor k ∧ s.cursor + k + 10 ≤ s'.cursor ∧
      be16 s'.octets (s.cursor + k + 8) = (s'.cursor - (s.cursor + k + 10)) % 65536 ∧
      BytesAt s'.octets (s.cursor + k) (u16be ty) := by
  rw [addRr_eq] at h
  obtain ⟨_, s1, h1, h⟩ := M.bind_ok_inv h
  obtain ⟨_, s2, h2, h⟩ := M.bind_ok_inv h
  obtain ⟨_, s3, h3, h⟩ := M.bind_ok_inv h
  obtain ⟨_, s4, h4, h⟩ := M.bind_ok_inv h
  -- the owner block
  simp only [M.bind_apply, setCtx, M.modify_apply] at h1
  have e1 := ext_setCtx s .owner
  have hwA : WInv { s with gCtx := .owner } := winv_ext hw e1 rfl rfl rfl rfl
  have hhA : HintOK { s with gCtx := .owner } hint owner := hintOK_ext hh e1 rfl rfl rfl rfl
  have hs := writeHintedName_spec hint owner _ hwA hwf hhA
  have hf := frame_writeHintedName hint owner { s with gCtx := .owner }
  cases hwn : writeHintedName hint owner { s with gCtx := .owner } with
  | mk r sB =>
    rw [hwn] at h1 hs hf
    cases r with
    | err e => cases h1
    | panic => cases h1
    | ok p =>
      simp only [Prod.mk.injEq, true_and] at h1
      obtain ⟨hwB, _, _, _, _, ⟨ls, hrd, _⟩, hck⟩ := hs.ok p rfl
      have hcurB : s.cursor ≤ sB.cursor := hf.cur
      simp only at hck hrd hcurB
      have itB : Item sB s.cursor (sB.cursor - s.cursor) := item_of_reads hrd hck (by omega)
      -- the fixed fields
      unfold tryPushU16 at h2 h3
      unfold tryPushU32 at h4
      obtain ⟨e2, z2⟩ := tryPush_ok_inv h2
      obtain ⟨e3, z3⟩ := tryPush_ok_inv h3
      obtain ⟨e4, z4⟩ := tryPush_ok_inv h4
      have hl2 : ∀ x, (u16be x).length = 2 := fun _ => rfl
      have hl4 : ∀ x, (u32be x).length = 4 := fun _ => rfl
      have c1 : s1.cursor = sB.cursor := by rw [← h1]
      have g1 : s1.gLabels = sB.gLabels := by rw [← h1]
      have o1 : s1.octets = sB.octets := by rw [← h1]
      have c2 : s2.cursor = sB.cursor + 2 := by rw [e2]; simp [pushed, hl2, c1]
      have c3 : s3.cursor = sB.cursor + 4 := by rw [e3]; simp [pushed, hl2, c2]
      have c4 : s4.cursor = sB.cursor + 8 := by rw [e4]; simp [pushed, hl4, c3]
      have g4 : s4.gLabels = sB.gLabels := by rw [e4, e3, e2]; simp [pushed, g1]
      have pre4 : ∀ i, i < sB.cursor → s4.octets[i]? = sB.octets[i]? := by
        intro i hi
        rw [e4, pushed_get_lt _ _ _ (by omega), e3, pushed_get_lt _ _ _ (by omega), e2,
          pushed_get_lt _ _ _ (by omega), o1]
      have ty4 : BytesAt s4.octets sB.cursor (u16be ty) := by
        intro i hi
        rw [hl2] at hi
        rw [e4, pushed_get_lt _ _ _ (by omega), e3, pushed_get_lt _ _ _ (by omega), e2]
        have := bytesAt_writeAt s1.octets s1.cursor (u16be ty) z2 i (by rw [hl2]; exact hi)
        show (writeAt s1.octets s1.cursor (u16be ty))[sB.cursor + i]? = _
        rw [c1] at this ⊢
        exact this
      -- the RDATA block
      simp only [M.bind_apply, M.gets_apply] at h
      split at h
      · cases h
      · split at h
        · cases h
        · simp only [M.bind_apply, M.modify_apply] at h
          have hfr := frame_writeRdata cls ty rd { s4 with cursor := s4.cursor + 2 }
          cases hwr : writeRdata cls ty rd { s4 with cursor := s4.cursor + 2 } with
          | mk r sH =>
            rw [hwr] at h hfr
            cases r with
            | err e => cases h
            | panic => cases h
            | ok u =>
              simp only [M.gets_apply] at h
              split at h
              · cases h
              · rename_i hge
                obtain ⟨hsz, hs'⟩ := write_ok_inv _ _ _ _ _ h
                have hcH : s4.cursor + 2 ≤ sH.cursor := hfr.cur
                have preH : ∀ i, i < s4.cursor + 2 → sH.octets[i]? = s4.octets[i]? := fun i hi => hfr.pre i hi
                refine ⟨sB.cursor - s.cursor, ?_, ?_, ?_, ?_⟩
                · -- the item, moved along
                  refine item_move (lo := 0) itB (fun _ _ => Nat.zero_le _) ?_ ?_ ?_
                  · intro i _ hi
                    rw [hs']
                    show (writeAt sH.octets s4.cursor _)[i]? = _
                    rw [writeAt_get_lt _ _ _ _ (by omega), preH _ (by omega), pre4 _ (by omega)]
                  · rw [hs']; show _ ≤ sH.cursor; omega
                  · intro g hg _
                    rw [hs']
                    show g ∈ sH.gLabels
                    exact hfr.glab g (by show g ∈ s4.gLabels; rw [g4]; exact hg)
                · rw [hs']; show _ ≤ sH.cursor; omega
                · rw [hs']
                  show be16 (writeAt sH.octets s4.cursor _) _ = (sH.cursor - _) % 65536
                  rw [show s.cursor + (sB.cursor - s.cursor) + 8 = s4.cursor by omega]
                  have hb := bytesAt_writeAt sH.octets s4.cursor
                    (u16be ((sH.cursor - s4.cursor - 2) % 65536)) (by rw [hl2]; exact hsz)
                  rw [be16_of_bytesAt hb (Nat.mod_lt _ (by omega))]
                  congr 1
                  omega
                · rw [hs']
                  show BytesAt (writeAt sH.octets s4.cursor _) _ _
                  rw [show s.cursor + (sB.cursor - s.cursor) = sB.cursor by omega]
                  intro i hi
                  rw [hl2] at hi
                  rw [writeAt_get_lt _ _ _ _ (by omega), preH _ (by omega)]
                  exact ty4 i (by rw [hl2]; exact hi)

end QV.Writer
