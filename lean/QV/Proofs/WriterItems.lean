/-
  QV.Proofs.WriterItems — the structure of the message below the cursor in every compression mode:
  where each question and record starts, that the independent decoder reads a name there, and how
  many contiguous octets that name occupies (the `k` of `specDecodeName`).
-/
import QV.Proofs.NameRoundTrip
import QV.Proofs.WriterSafe
import QV.Proofs.MessageDecode

namespace QV.Writer
open QV QV.Wire QV.Spec

/-! ### the first-chunk length the decoder reports -/

theorem specWalk_chunk (msg : Bytes) (cs : Nat) (b : UInt8) : ∀ (pre : List Label) (a fuel : Nat)
    (ls : List (List UInt8)) (k : Nat), LabelsWF pre →
    BytesAt msg a (pre.flatMap WName.encLabel ++ [b]) → specWalk msg fuel a cs = some (ls, k) →
    (b = 0 → k = encLen pre + 1) ∧ (isPtr b = true → k = encLen pre + 2) := by
  intro pre
  induction pre with
  | nil =>
    intro a fuel ls k _ hb hw
    cases fuel with
    | zero => simp [specWalk] at hw
    | succ f =>
      have h0 : msg[a]? = some b := by simpa using hb 0 (by simp)
      unfold specWalk at hw
      simp only [h0] at hw
      constructor
      · intro hb0
        subst hb0
        simp only [if_true, Option.some.injEq, Prod.mk.injEq] at hw
        rw [← hw.2]; simp
      · intro hp
        have hsp : specIsPtr b := (isPtr_iff b).mp hp
        unfold specIsPtr at hsp
        have hne : b ≠ 0 := by
          intro hc; subst hc
          have : (0 : UInt8).toNat = 0 := rfl
          omega
        rw [if_neg hne, if_neg (by omega), if_pos hsp] at hw
        cases h1 : msg[a+1]? with
        | none => rw [h1] at hw; cases hw
        | some b2 =>
          rw [h1] at hw
          simp only at hw
          split at hw
          · cases h2 : specWalk msg f ((b.toNat - 192) * 256 + b2.toNat) ((b.toNat - 192) * 256 + b2.toNat) with
            | none => rw [h2] at hw; cases hw
            | some r =>
              rw [h2] at hw
              simp only [Option.some.injEq, Prod.mk.injEq] at hw
              rw [← hw.2]; simp
          · cases hw
  | cons l pre ih =>
    intro a fuel ls k hwf hb hw
    have hl := hwf l List.mem_cons_self
    cases fuel with
    | zero => simp [specWalk] at hw
    | succ f =>
      simp only [List.flatMap_cons, WName.encLabel, List.cons_append, List.append_assoc] at hb
      obtain ⟨hb0, hb1⟩ := bytesAt_cons hb
      have hb2 : BytesAt msg (a + 1 + l.length) (pre.flatMap WName.encLabel ++ [b]) := by
        have := (bytesAt_append (d := l) hb1).2
        exact this
      have hn : (UInt8.ofNat l.length).toNat = l.length := by rw [UInt8.toNat_ofNat']; omega
      have hne : UInt8.ofNat l.length ≠ 0 := by
        intro hc
        have := congrArg UInt8.toNat hc
        rw [hn] at this
        have h00 : (0 : UInt8).toNat = 0 := rfl
        omega
      unfold specWalk at hw
      simp only [hb0, hne, if_false, hn, hl.2, if_true] at hw
      split at hw
      · cases h2 : specWalk msg f (a + l.length + 1) cs with
        | none => rw [h2] at hw; cases hw
        | some r =>
          obtain ⟨ls', k'⟩ := r
          rw [h2] at hw
          simp only [Option.some.injEq, Prod.mk.injEq] at hw
          have := ih (a + 1 + l.length) f ls' k' (fun x hx => hwf x (List.mem_cons_of_mem _ hx)) hb2
            (by rw [show a + 1 + l.length = a + l.length + 1 by omega]; exact h2)
          rw [encLen_cons, ← hw.2]
          constructor
          · intro h; have := this.1 h; omega
          · intro h; have := this.2 h; omega
      · cases hw

/-- the `k` the decoder reports is the length of the chunk the name occupies -/
theorem specDecodeName_chunk {msg : Bytes} {a k k' n : Nat} {w : List UInt8} (hc : ChunkAt msg a k)
    (hd : specDecodeName msg a = some (w, n, k')) : k' = k := by
  obtain ⟨pre, b, hwf, hb, hk⟩ := hc
  unfold specDecodeName at hd
  cases hw : specWalk msg (msg.size * msg.size + msg.size + 2) a a with
  | none => rw [hw] at hd; cases hd
  | some r =>
    obtain ⟨ls, k2⟩ := r
    rw [hw] at hd
    simp only at hd
    split at hd
    · simp only [Option.some.injEq, Prod.mk.injEq] at hd
      have := specWalk_chunk msg a b pre a _ ls k2 hwf hb hw
      rcases hk with ⟨h0, hk⟩ | ⟨hp, hk⟩
      · rw [← hd.2.2, hk]; exact this.1 h0
      · rw [← hd.2.2, hk]; exact this.2 hp
    · cases hd

theorem chunkAt_frame {oct oct' : Bytes} {a k : Nat} (h : ChunkAt oct a k)
    (hpre : ∀ i, a ≤ i → i < a + k → oct'[i]? = oct[i]?) : ChunkAt oct' a k := by
  obtain ⟨pre, b, hwf, hb, hk⟩ := h
  refine ⟨pre, b, hwf, ?_, hk⟩
  refine bytesAt_frame hb (fun i h1 h2 => hpre i h1 ?_)
  have hlen : (pre.flatMap WName.encLabel ++ [b]).length = encLen pre + 1 := by simp [encLen]
  rw [hlen] at h2
  rcases hk with ⟨_, hk⟩ | ⟨_, hk⟩ <;> omega


/-! ### items: where a question / record starts -/

/-- at `a` a name starts that occupies `k` contiguous octets and leads (directly, or by its
    pointer) to a recorded label start -/
def Item (s : State) (a k : Nat) : Prop :=
  (∃ q, Hop s.octets s.cursor a q ∧ q ∈ s.gLabels) ∧ ChunkAt s.octets a k ∧ a + k ≤ s.cursor

theorem item_of_reads {s : State} {a k : Nat} {ls : List Label} (h : ReadsAt s a ls)
    (hc : ChunkAt s.octets a k) (hk : a + k ≤ s.cursor) : Item s a k := by
  obtain ⟨q, cs', hop, _, hn, _⟩ := h
  exact ⟨⟨q, hop, (nameAt_start (nameAtC_forget hn)).1⟩, hc, hk⟩

/-- the independent decoder reads a name at an item and reports its chunk length -/
theorem item_decodes {s : State} {a k : Nat} (hw : WInv s) (h : Item s a k) :
    ∃ w n, specDecodeName (s.octets.extract 0 s.cursor) a = some (w, n, k) := by
  obtain ⟨⟨q, hop, hq⟩, hc, hk⟩ := h
  have hcs : s.cursor ≤ s.octets.size := Nat.le_trans hw.cur_av hw.av_size
  obtain ⟨ls, hn, hb⟩ := hw.clabs q hq
  have hr : ReadsAt s a ls := by
    refine ⟨q, q, hop, ?_, hn, hb⟩
    cases hop with
    | here _ _ _ => exact Or.inl ⟨rfl, rfl⟩
    | jump _ _ _ _ hlt _ _ => exact Or.inr ⟨hlt, rfl⟩
  obtain ⟨k', hd⟩ := readsAt_specDecodeName hr hcs
  have hcm : ChunkAt (s.octets.extract 0 s.cursor) a k :=
    chunkAt_frame hc (fun i _ h2 => extract_prefix_get _ _ hcs _ (by omega))
  have := specDecodeName_chunk hcm hd
  subst this
  exact ⟨_, _, hd⟩

/-- an item only depends on the octets of its own chunk and of the label start it leads to -/
theorem item_move {s s' : State} {a k lo : Nat} (h : Item s a k)
    (hg12 : ∀ g ∈ s.gLabels, lo ≤ g)
    (hpre : ∀ i, lo ≤ i → i < a + k → s'.octets[i]? = s.octets[i]?) (hc : a + k ≤ s'.cursor)
    (hg : ∀ g ∈ s.gLabels, g ≤ a → g ∈ s'.gLabels) : Item s' a k := by
  obtain ⟨⟨q, hop, hq⟩, hck, hk⟩ := h
  have hqa : q ≤ a := (hop_le hop).1
  have hqlo : lo ≤ q := hg12 q hq
  have hck' : ChunkAt s'.octets a k := chunkAt_frame hck (fun i h1 h2 => hpre i (by omega) h2)
  refine ⟨⟨q, ?_, hg q hq hqa⟩, hck', hc⟩
  obtain ⟨pre, b, hwf, hb, hkk⟩ := hck
  have hlen : (pre.flatMap WName.encLabel ++ [b]).length = encLen pre + 1 := by simp [encLen]
  have hk1 : 1 ≤ k := by rcases hkk with ⟨_, e⟩ | ⟨_, e⟩ <;> omega
  cases hop with
  | here hq' hb' hnp =>
    exact .here (by omega) (by rw [hpre _ hqlo (by omega)]; exact hb') hnp
  | jump hq' h1 h2 hp hlt h3 hnp =>
    have h0 := hb 0 (by rw [hlen]; omega)
    rw [Nat.add_zero, h1] at h0
    have hk2 : 2 ≤ k := by
      rcases hkk with ⟨hb0, _⟩ | ⟨_, e⟩
      · exfalso
        cases pre with
        | nil =>
          simp at h0; subst h0
          rw [hb0] at hp; exact absurd hp (by decide)
        | cons l pre' =>
          simp [WName.encLabel] at h0
          have hl := hwf l List.mem_cons_self
          subst h0
          rw [ofNat_len_notPtr hl.2] at hp; cases hp
      · omega
    exact .jump (by omega) (by rw [hpre _ (by omega) (by omega)]; exact h1)
      (by rw [hpre _ (by omega) (by omega)]; exact h2) hp hlt
      (by rw [hpre _ hqlo (by omega)]; exact h3) hnp

theorem item_ext {s s' : State} {a k : Nat} (h : Item s a k) (e : Ext s s') : Item s' a k :=
  item_move (lo := 0) h (fun _ _ => Nat.zero_le _) (fun i _ hi => e.pre i (by have := h.2.2; omega))
    (by have := h.2.2; have := e.cur; omega) (fun g hg _ => e.glab g hg)


/-! ### content: the name an item holds -/

/-- at `a` the buffer holds (directly, or through its pointer) a stored name whose labels match
    the name `n` as names are compared in mode `m` (octet for octet unless `m` is `Standard`) -/
def RootEndB (oct : Bytes) (a c : Nat) : Prop :=
  ∃ pre, LabelsWF pre ∧ BytesAt oct a (pre.flatMap WName.encLabel ++ [0]) ∧ a + encLen pre + 1 ≤ c

theorem rootEndB_frame {oct oct' : Bytes} {a c c' : Nat} (h : RootEndB oct a c)
    (hpre : ∀ i, a ≤ i → i < c → oct'[i]? = oct[i]?) (hc : c ≤ c') : RootEndB oct' a c' := by
  obtain ⟨pre, hwf, hb, hk⟩ := h
  have hlen : (pre.flatMap WName.encLabel ++ [(0 : UInt8)]).length = encLen pre + 1 := by simp [encLen]
  exact ⟨pre, hwf, bytesAt_frame hb (fun i h1 h2 => hpre i h1 (by rw [hlen] at h2; omega)), by omega⟩

theorem rootEndB_of_wire {oct : Bytes} {a c : Nat} {n : WName} (hn : n.WF) (h : BytesAt oct a n.wire)
    (hc : a + n.wire.length ≤ c) : RootEndB oct a c := by
  refine ⟨n.labels, fun l hl => hn.1 l hl, by simpa [WName.wire] using h, ?_⟩
  have : n.wire.length = encLen n.labels + 1 := by simp [WName.wire, encLen]
  omega

/-- … and when the name was written with compression `Disabled` it lies there literally: labels up
    to the root label, no pointer -/
def NameIs (s : State) (a : Nat) (m : CMode) (n : WName) : Prop :=
  (∃ q ls, Hop s.octets s.cursor a q ∧ StoredAt s q ls ∧ labelsMatch (effMode m) n.labels ls = true) ∧
  (m = .disabled → RootEndB s.octets a s.cursor)

theorem nameIs_of_reads {s : State} {a : Nat} {m : CMode} {n : WName} {ls : List Label} (h : ReadsAt s a ls)
    (hm : labelsMatch (effMode m) n.labels ls = true) (hd : m = .disabled → RootEndB s.octets a s.cursor) :
    NameIs s a m n := by
  obtain ⟨q, cs', hop, _, hn, _⟩ := h
  exact ⟨⟨q, ls, hop, nameAtC_forget hn, hm⟩, hd⟩

/-- `NameIs` along any change that keeps the octets from `lo` up to the cursor, does not shrink the
    cursor and keeps the recorded label starts (all at or above `lo`) -/
theorem nameIs_frame {s s' : State} {a lo : Nat} {m : CMode} {n : WName} (h : NameIs s a m n)
    (hg12 : ∀ g ∈ s.gLabels, lo ≤ g)
    (hpre : ∀ i, lo ≤ i → i < s.cursor → s'.octets[i]? = s.octets[i]?) (hc : s.cursor ≤ s'.cursor)
    (hg : ∀ g ∈ s.gLabels, g ∈ s'.gLabels) : NameIs s' a m n := by
  obtain ⟨⟨q, ls, hop, hst, hm⟩, hd⟩ := h
  have hq : q ∈ s.gLabels := (nameAt_start hst).1
  have ha : lo ≤ a := by
    have := hg12 q hq
    have := (hop_le hop).1
    omega
  refine ⟨⟨q, ls, hop_frame hop hpre hc (hg12 q hq), ?_, hm⟩,
    fun hm' => rootEndB_frame (hd hm') (fun i h1 h2 => hpre i (by omega) h2) hc⟩
  exact nameAt_frame (lo := lo) hst (fun x hx => hg x hx) (fun x hx => hg12 x hx) hpre hc

theorem nameIs_ext {s s' : State} {a : Nat} {m : CMode} {n : WName} (h : NameIs s a m n) (e : Ext s s') :
    NameIs s' a m n :=
  nameIs_frame (lo := 0) h (fun _ _ => Nat.zero_le _) (fun i _ hi => e.pre i hi) e.cur (fun g hg => e.glab g hg)

theorem nameIs_fields {s s' : State} {a : Nat} {m : CMode} {n : WName} (h : NameIs s a m n)
    (ho : s'.octets = s.octets) (hc : s'.cursor = s.cursor) (hg : s'.gLabels = s.gLabels) : NameIs s' a m n := by
  unfold NameIs StoredAt GL at h ⊢
  rw [ho, hc, hg]; exact h

/-! ### what one `add_rr` appends, structurally -/

theorem M.bind_ok_inv {α β} {f : M α} {g : α → M β} {s s' : State} {b : β}
    (h : (f >>= g) s = (.ok b, s')) : ∃ a s1, f s = (.ok a, s1) ∧ g a s1 = (.ok b, s') := by
  simp only [M.bind_apply] at h
  cases hf : f s with
  | mk r s1 =>
    rw [hf] at h
    cases r with
    | ok a => exact ⟨a, s1, rfl, h⟩
    | err e => cases h
    | panic => cases h

theorem tryPush_ok_inv {d : List UInt8} {s s' : State} {u : Unit} (h : tryPush d s = (.ok u, s')) :
    s' = pushed s d ∧ s.cursor + d.length ≤ s.octets.size := by
  unfold tryPush at h
  split at h
  · cases h
  · split at h
    · split at h
      · rename_i hsz; cases h; exact ⟨rfl, hsz⟩
      · cases h
    · cases h

theorem pushed_get_lt (s : State) (d : List UInt8) (i : Nat) (hi : i < s.cursor) :
    (pushed s d).octets[i]? = s.octets[i]? := writeAt_get_lt _ _ _ _ hi

/-- **one record, structurally**: after a successful `add_rr` a name item starts at the old cursor;
    the type follows it, and the RDLENGTH field holds the number of octets written after it -/
theorem addRr_item (hint : Hint) (owner : WName) (ty cls ttl : Nat) (rd : List UInt8) (s s' : State)
    (hw : WInv s) (hwf : owner.WF) (hh : HintOK s hint owner)
    (h : addRr hint owner ty cls ttl rd s = (.ok (), s')) :
    ∃ k, Item s' s.cursor k ∧ s.cursor + k + 10 ≤ s'.cursor ∧
      be16 s'.octets (s.cursor + k + 8) = (s'.cursor - (s.cursor + k + 10)) % 65536 ∧
      (BytesAt s'.octets (s.cursor + k) (u16be ty) ∧ BytesAt s'.octets (s.cursor + k + 2) (u16be cls) ∧
        BytesAt s'.octets (s.cursor + k + 4) (u32be ttl)) ∧
      (∃ p sB, writeHintedName hint owner { s with gCtx := .owner } = (.ok p, sB) ∧
        sB.cursor = s.cursor + k ∧ ∀ i, i < sB.cursor → s'.octets[i]? = sB.octets[i]?) ∧
      NameIs s' s.cursor s.mode owner := by
  rw [addRr_eq] at h
  obtain ⟨_, s1, h1, h⟩ := M.bind_ok_inv h
  obtain ⟨_, s2, h2, h⟩ := M.bind_ok_inv h
  obtain ⟨_, s3, h3, h⟩ := M.bind_ok_inv h
  obtain ⟨_, s4, h4, h⟩ := M.bind_ok_inv h
  -- the owner block
  simp only [M.bind_apply, setCtx, M.modify_apply] at h1
  have e1 := ext_setCtx s .owner
  have hwA : WInv { s with gCtx := .owner } := winv_ext hw e1 rfl rfl rfl rfl
  have hhA : HintOK { s with gCtx := .owner } hint owner := hintOK_ext hh e1 rfl rfl rfl rfl
  have hs := writeHintedName_spec hint owner _ hwA hwf hhA
  have hf := frame_writeHintedName hint owner { s with gCtx := .owner }
  cases hwn : writeHintedName hint owner { s with gCtx := .owner } with
  | mk r sB =>
    rw [hwn] at h1 hs hf
    cases r with
    | err e => cases h1
    | panic => cases h1
    | ok p =>
      simp only [Prod.mk.injEq, true_and] at h1
      obtain ⟨hwB, hdenB, _, _, _, ⟨ls, hrd, hmtB⟩, hck, _, hdisB⟩ := hs.ok p rfl
      have hcurB : s.cursor ≤ sB.cursor := hf.cur
      simp only at hck hrd hcurB hmtB hdenB hdisB
      have itB : Item sB s.cursor (sB.cursor - s.cursor) := item_of_reads hrd hck (by omega)
      have nmB : NameIs sB s.cursor s.mode owner := nameIs_of_reads hrd hmtB
        (fun hm => rootEndB_of_wire hwf (hdisB hm).1 (by have := (hdisB hm).2; omega))
      -- the fixed fields
      unfold tryPushU16 at h2 h3
      unfold tryPushU32 at h4
      obtain ⟨e2, z2⟩ := tryPush_ok_inv h2
      obtain ⟨e3, z3⟩ := tryPush_ok_inv h3
      obtain ⟨e4, z4⟩ := tryPush_ok_inv h4
      have hl2 : ∀ x, (u16be x).length = 2 := fun _ => rfl
      have hl4 : ∀ x, (u32be x).length = 4 := fun _ => rfl
      have c1 : s1.cursor = sB.cursor := by rw [← h1]
      have g1 : s1.gLabels = sB.gLabels := by rw [← h1]
      have o1 : s1.octets = sB.octets := by rw [← h1]
      have c2 : s2.cursor = sB.cursor + 2 := by rw [e2]; simp [pushed, hl2, c1]
      have c3 : s3.cursor = sB.cursor + 4 := by rw [e3]; simp [pushed, hl2, c2]
      have c4 : s4.cursor = sB.cursor + 8 := by rw [e4]; simp [pushed, hl4, c3]
      have g4 : s4.gLabels = sB.gLabels := by rw [e4, e3, e2]; simp [pushed, g1]
      have pre4 : ∀ i, i < sB.cursor → s4.octets[i]? = sB.octets[i]? := by
        intro i hi
        rw [e4, pushed_get_lt _ _ _ (by omega), e3, pushed_get_lt _ _ _ (by omega), e2,
          pushed_get_lt _ _ _ (by omega), o1]
      have ty4 : BytesAt s4.octets sB.cursor (u16be ty) := by
        intro i hi
        rw [hl2] at hi
        rw [e4, pushed_get_lt _ _ _ (by omega), e3, pushed_get_lt _ _ _ (by omega), e2]
        have := bytesAt_writeAt s1.octets s1.cursor (u16be ty) z2 i (by rw [hl2]; exact hi)
        show (writeAt s1.octets s1.cursor (u16be ty))[sB.cursor + i]? = _
        rw [c1] at this ⊢
        exact this
      have cls4 : BytesAt s4.octets (sB.cursor + 2) (u16be cls) := by
        intro i hi
        rw [hl2] at hi
        rw [e4, pushed_get_lt _ _ _ (by omega), e3]
        have := bytesAt_writeAt s2.octets s2.cursor (u16be cls) z3 i (by rw [hl2]; exact hi)
        show (writeAt s2.octets s2.cursor (u16be cls))[sB.cursor + 2 + i]? = _
        rw [c2] at this ⊢
        exact this
      have ttl4 : BytesAt s4.octets (sB.cursor + 4) (u32be ttl) := by
        intro i hi
        rw [hl4] at hi
        rw [e4]
        have := bytesAt_writeAt s3.octets s3.cursor (u32be ttl) z4 i (by rw [hl4]; exact hi)
        show (writeAt s3.octets s3.cursor (u32be ttl))[sB.cursor + 4 + i]? = _
        rw [c3] at this ⊢
        exact this
      -- the RDATA block
      simp only [M.bind_apply, M.gets_apply] at h
      split at h
      · cases h
      · split at h
        · cases h
        · simp only [M.bind_apply, M.modify_apply] at h
          have hfr := frame_writeRdata cls ty rd { s4 with cursor := s4.cursor + 2 }
          cases hwr : writeRdata cls ty rd { s4 with cursor := s4.cursor + 2 } with
          | mk r sH =>
            rw [hwr] at h hfr
            cases r with
            | err e => cases h
            | panic => cases h
            | ok u =>
              simp only [M.gets_apply] at h
              split at h
              · cases h
              · rename_i hge
                obtain ⟨hsz, hs'⟩ := write_ok_inv _ _ _ _ _ h
                have hcH : s4.cursor + 2 ≤ sH.cursor := hfr.cur
                have preH : ∀ i, i < s4.cursor + 2 → sH.octets[i]? = s4.octets[i]? := fun i hi => hfr.pre i hi
                refine ⟨sB.cursor - s.cursor, ?_, ?_, ?_, ?_, ⟨p, sB, rfl, by omega, ?_⟩, ?_⟩
                · -- the item, moved along
                  refine item_move (lo := 0) itB (fun _ _ => Nat.zero_le _) ?_ ?_ ?_
                  · intro i _ hi
                    rw [hs']
                    show (writeAt sH.octets s4.cursor _)[i]? = _
                    rw [writeAt_get_lt _ _ _ _ (by omega), preH _ (by omega), pre4 _ (by omega)]
                  · rw [hs']; show _ ≤ sH.cursor; omega
                  · intro g hg _
                    rw [hs']
                    show g ∈ sH.gLabels
                    exact hfr.glab g (by show g ∈ s4.gLabels; rw [g4]; exact hg)
                · rw [hs']; show _ ≤ sH.cursor; omega
                · rw [hs']
                  show be16 (writeAt sH.octets s4.cursor _) _ = (sH.cursor - _) % 65536
                  rw [show s.cursor + (sB.cursor - s.cursor) + 8 = s4.cursor by omega]
                  have hb := bytesAt_writeAt sH.octets s4.cursor
                    (u16be ((sH.cursor - s4.cursor - 2) % 65536)) (by rw [hl2]; exact hsz)
                  rw [be16_of_bytesAt hb (Nat.mod_lt _ (by omega))]
                  congr 1
                  omega
                · rw [hs']
                  rw [show s.cursor + (sB.cursor - s.cursor) = sB.cursor by omega]
                  refine ⟨?_, ?_, ?_⟩
                  · show BytesAt (writeAt sH.octets s4.cursor _) _ _
                    intro i hi
                    rw [hl2] at hi
                    rw [writeAt_get_lt _ _ _ _ (by omega), preH _ (by omega)]
                    exact ty4 i (by rw [hl2]; exact hi)
                  · show BytesAt (writeAt sH.octets s4.cursor _) _ _
                    intro i hi
                    rw [hl2] at hi
                    rw [writeAt_get_lt _ _ _ _ (by omega), preH _ (by omega)]
                    exact cls4 i (by rw [hl2]; exact hi)
                  · show BytesAt (writeAt sH.octets s4.cursor _) _ _
                    intro i hi
                    rw [hl4] at hi
                    rw [writeAt_get_lt _ _ _ _ (by omega), preH _ (by omega)]
                    exact ttl4 i (by rw [hl4]; exact hi)
                · intro i hi
                  rw [hs']
                  show (writeAt sH.octets s4.cursor _)[i]? = _
                  rw [writeAt_get_lt _ _ _ _ (by omega), preH _ (by omega), pre4 _ hi]
                · -- the content, moved along: fixed fields, RDATA, RDLENGTH written back
                  obtain ⟨⟨q, ls', hopB, hstB, hmB⟩, hdB⟩ := nmB
                  -- a valid state where RDLENGTH is reserved
                  have hden1 : ∀ q, p = some q → Den { sB with gCtx := NameCtx.none } q owner :=
                    fun q hq => den_ext (by constructor <;> simp) (hdenB q hq)
                  have wB' := winv_ext (s' := { sB with gCtx := NameCtx.none }) hwB (by constructor <;> simp)
                    rfl rfl rfl rfl
                  have w1 : WInv s1 := by
                    rw [← h1]
                    exact ⟨wB'.c12, wB'.cur_av, wB'.av_size, wB'.g12, wB'.labs, wB'.qn, den_anchorOK hden1, wB'.rd,
                      wB'.clabs⟩
                  have hroom2 : (u16be ty).length ≤ s1.available - s1.cursor := by
                    unfold tryPush at h2
                    split at h2
                    · cases h2
                    · split at h2
                      · rename_i hh; exact hh
                      · cases h2
                  have w2 : WInv s2 := by rw [e2]; exact winv_push w1 _ hroom2
                  have hroom3 : (u16be cls).length ≤ s2.available - s2.cursor := by
                    unfold tryPush at h3
                    split at h3
                    · cases h3
                    · split at h3
                      · rename_i hh; exact hh
                      · cases h3
                  have w3 : WInv s3 := by rw [e3]; exact winv_push w2 _ hroom3
                  have hroom4 : (u32be ttl).length ≤ s3.available - s3.cursor := by
                    unfold tryPush at h4
                    split at h4
                    · cases h4
                    · split at h4
                      · rename_i hh; exact hh
                      · cases h4
                  have w4 : WInv s4 := by rw [e4]; exact winv_push w3 _ hroom4
                  -- the stored name, state by state
                  have st4 : StoredAt s4 q ls' := by
                    refine nameAt_frame (lo := 0) hstB ?_ (fun _ _ => Nat.zero_le _) (fun i _ hi => pre4 i hi)
                      (by omega)
                    intro x hx; show x ∈ s4.gLabels; rw [g4]; exact hx
                  have stH : StoredAt sH q ls' := by
                    have stG : StoredAt { s4 with cursor := s4.cursor + 2 } q ls' :=
                      nameAt_frame (lo := 0) st4 (fun _ hx => hx) (fun _ _ => Nat.zero_le _) (fun _ _ _ => rfl)
                        (by show s4.cursor ≤ s4.cursor + 2; omega)
                    exact storedAt_ext hfr stG
                  have st' := storedAt_patch w4 (u16be ((sH.cursor - s4.cursor - 2) % 65536)) rfl hfr q ls' stH
                  rw [hs']
                  have hdis' : s.mode = .disabled →
                      RootEndB (writeAt sH.octets s4.cursor (u16be ((sH.cursor - s4.cursor - 2) % 65536))) s.cursor
                        sH.cursor := fun hm' => rootEndB_frame (hdB hm') (fun i h1 h2 => by
                      rw [writeAt_get_lt _ _ _ _ (by omega), preH _ (by omega), pre4 _ h2]) (by omega)
                  refine ⟨⟨q, ls', ?_, st', hmB⟩, hdis'⟩
                  -- the hop reads below the old cursor of the name
                  have hqa := (hop_le hopB).1
                  cases hopB with
                  | here hq' hb' hnp =>
                    refine .here (by show s.cursor < sH.cursor; omega) ?_ hnp
                    show (writeAt sH.octets s4.cursor _)[s.cursor]? = _
                    rw [writeAt_get_lt _ _ _ _ (by omega), preH _ (by omega), pre4 _ hq']; exact hb'
                  | jump hq' hb1 hb2 hp hlt hb3 hnp =>
                    refine .jump (by show s.cursor + 1 < sH.cursor; omega) ?_ ?_ hp hlt ?_ hnp
                    · show (writeAt sH.octets s4.cursor _)[s.cursor]? = _
                      rw [writeAt_get_lt _ _ _ _ (by omega), preH _ (by omega), pre4 _ (by omega)]; exact hb1
                    · show (writeAt sH.octets s4.cursor _)[s.cursor + 1]? = _
                      rw [writeAt_get_lt _ _ _ _ (by omega), preH _ (by omega), pre4 _ hq']; exact hb2
                    · show (writeAt sH.octets s4.cursor _)[_]? = _
                      rw [writeAt_get_lt _ _ _ _ (by omega), preH _ (by omega), pre4 _ (by omega)]; exact hb3


/-- **the owner of a record decodes to the name given**, in every compression mode: after a
    successful `add_rr` the independent decoder, run on any message that agrees with the buffer
    below the cursor, reads at the record's start a name with the owner's label count that equals
    the owner up to ASCII case (octet for octet unless the mode is `Standard`) and occupies exactly
    the `k` octets the writer wrote -/
theorem addRr_owner_decodes (hint : Hint) (owner : WName) (ty cls ttl : Nat) (rd : List UInt8) (s s' : State)
    (hw : WInv s) (hwf : owner.WF) (hh : HintOK s hint owner)
    (h : addRr hint owner ty cls ttl rd s = (.ok (), s')) (msg : Bytes)
    (hmsg : ∀ i, i < s'.cursor → msg[i]? = s'.octets[i]?) :
    ∃ w k, specDecodeName msg s.cursor = some (w, owner.len, k) ∧ s.cursor + k + 10 ≤ s'.cursor ∧
      w.map lowerU8 = owner.wire.map lowerU8 ∧ (s.mode ≠ .standard → w = owner.wire) := by
  obtain ⟨k, hit, hlen, _, _, ⟨p, sB, hwn, hcB, hpre⟩, _⟩ := addRr_item hint owner ty cls ttl rd s s' hw hwf hh h
  have e1 := ext_setCtx s .owner
  have hwA : WInv { s with gCtx := .owner } := winv_ext hw e1 rfl rfl rfl rfl
  have hhA : HintOK { s with gCtx := .owner } hint owner := hintOK_ext hh e1 rfl rfl rfl rfl
  obtain ⟨w, k0, hd, hcase, hexact⟩ := writeHintedName_round_trip hint owner _ hwA hwf hhA p (by rw [hwn])
  rw [hwn] at hd
  simp only at hd
  have hs := writeHintedName_spec hint owner _ hwA hwf hhA
  rw [hwn] at hs
  obtain ⟨hwB, _, _, _, _, _, hck, _⟩ := hs.ok p rfl
  simp only at hck
  have hcsB : sB.cursor ≤ sB.octets.size := Nat.le_trans hwB.cur_av hwB.av_size
  -- the chunk length
  have hcm : ChunkAt (sB.octets.extract 0 sB.cursor) s.cursor (sB.cursor - s.cursor) :=
    chunkAt_frame hck (fun i _ h2 => extract_prefix_get _ _ hcsB _ (by omega))
  have hk0 := specDecodeName_chunk hcm hd
  subst hk0
  -- move the decoding to `msg`
  have hD := (specDecodeName_iff _ _ _ _ _).mp hd
  have hszB : (sB.octets.extract 0 sB.cursor).size = sB.cursor := by simp; omega
  have hagree : ∀ i, i < (sB.octets.extract 0 sB.cursor).size → msg[i]? = (sB.octets.extract 0 sB.cursor)[i]? := by
    intro i hi
    rw [hszB] at hi
    rw [extract_prefix_get _ _ hcsB _ hi, hmsg i (by omega), hpre i hi]
  have hD' : DecodesName msg s.cursor w owner.len (sB.cursor - s.cursor) := ⟨decodes_prefix hagree hD.1, hD.2⟩
  exact ⟨w, sB.cursor - s.cursor, (specDecodeName_iff _ _ _ _ _).mpr hD', by omega, hcase, hexact⟩


theorem be16_of_agree {msg o : Bytes} {i c : Nat} (h : ∀ j, j < c → msg[j]? = o[j]?) (hi : i + 1 < c) :
    be16 msg i = be16 o i := by
  unfold be16
  have a0 := h i (by omega)
  have a1 := h (i + 1) hi
  rw [Array.getD_eq_getD_getElem?, Array.getD_eq_getD_getElem?, Array.getD_eq_getD_getElem?,
    Array.getD_eq_getD_getElem?, a0, a1]

theorem be32_of_agree {msg o : Bytes} {i c : Nat} (h : ∀ j, j < c → msg[j]? = o[j]?) (hi : i + 3 < c) :
    be32 msg i = be32 o i := by
  unfold be32
  simp only [Array.getD_eq_getD_getElem?, h i (by omega), h (i + 1) (by omega), h (i + 2) (by omega), h (i + 3) hi]

/-- **the round trip of one record, in every compression mode.** After a successful `add_rr`, on
    any message that agrees with the buffer below the cursor, the independent decoder reads at the
    old cursor: the owner (same label count; equal up to ASCII case, octet for octet unless the mode
    is `Standard`) on `k` octets, then TYPE, CLASS and TTL as given, then an RDLENGTH that is the
    number of octets written after it (mod 2¹⁶) -/
theorem addRr_round_trip (hint : Hint) (owner : WName) (ty cls ttl : Nat) (rd : List UInt8) (s s' : State)
    (hw : WInv s) (hwf : owner.WF) (hh : HintOK s hint owner)
    (hty : ty < 65536) (hcls : cls < 65536) (httl : ttl < 4294967296)
    (h : addRr hint owner ty cls ttl rd s = (.ok (), s')) (msg : Bytes)
    (hmsg : ∀ i, i < s'.cursor → msg[i]? = s'.octets[i]?) :
    ∃ w k, specDecodeName msg s.cursor = some (w, owner.len, k) ∧ s.cursor + k + 10 ≤ s'.cursor ∧
      w.map lowerU8 = owner.wire.map lowerU8 ∧ (s.mode ≠ .standard → w = owner.wire) ∧
      be16 msg (s.cursor + k) = ty ∧ be16 msg (s.cursor + k + 2) = cls ∧ be32 msg (s.cursor + k + 4) = ttl ∧
      be16 msg (s.cursor + k + 8) = (s'.cursor - (s.cursor + k + 10)) % 65536 := by
  obtain ⟨w, k, hd, hk10, hcase, hexact⟩ := addRr_owner_decodes hint owner ty cls ttl rd s s' hw hwf hh h msg hmsg
  obtain ⟨k', hit, hlen, hb, ⟨t1, t2, t3⟩, ⟨p, sB, hwn, hcB, hpre⟩, _⟩ := addRr_item hint owner ty cls ttl rd s s' hw hwf hh h
  -- both `k`s are the chunk length
  have hkk : k = k' := by
    have hcm : ChunkAt msg s.cursor k' :=
      chunkAt_frame hit.2.1 (fun i _ h2 => hmsg i (by have := hit.2.2; omega))
    exact specDecodeName_chunk hcm hd
  subst hkk
  refine ⟨w, k, hd, hk10, hcase, hexact, ?_, ?_, ?_, ?_⟩
  · rw [be16_of_agree hmsg (by omega)]; exact be16_of_bytesAt t1 hty
  · rw [be16_of_agree hmsg (by omega)]; exact be16_of_bytesAt t2 hcls
  · rw [be32_of_agree hmsg (by omega)]; exact be32_of_bytesAt t3 httl
  · rw [be16_of_agree hmsg (by omega)]; exact hb


/-- `write_unhinted_name` is `write_hinted_name` without a hint -/
theorem writeUnhintedName_eq_none (n : WName) : writeUnhintedName n = writeHintedName .none n := by
  funext s
  unfold writeUnhintedName writeHintedName
  simp only [M.bind_apply, M.gets_apply]
  by_cases h1 : s.mode = .disabled ∨ n.wire.length ≤ 2
  · rw [if_pos h1, if_neg (by intro ⟨a, b⟩; rcases h1 with h | h; exact a h; omega)]
  · rw [if_neg h1, if_pos (by constructor; intro h; exact h1 (Or.inl h); omega)]
    split <;> rfl

/-- the round trip of a name written without a hint (QNAME, names inside RDATA) -/
theorem writeUnhintedName_round_trip (n : WName) (s : State) (h : WInv s) (hn : n.WF) (p : Option Prior)
    (hok : (writeUnhintedName n s).1 = .ok p) :
    ∃ w k, specDecodeName ((writeUnhintedName n s).2.octets.extract 0 (writeUnhintedName n s).2.cursor)
        s.cursor = some (w, n.len, k) ∧
      w.map lowerU8 = n.wire.map lowerU8 ∧ (s.mode ≠ .standard → w = n.wire) := by
  rw [writeUnhintedName_eq_none] at hok ⊢
  exact writeHintedName_round_trip .none n s h hn trivial p hok

/-- **the round trip of the question, in every compression mode**: after a successful
    `add_question`'s body, on any message that agrees with the buffer below the cursor, the
    independent decoder reads at the old cursor the QNAME (same label count, equal up to ASCII case,
    octet for octet unless the mode is `Standard`) on `k` octets; QTYPE and QCLASS follow -/
theorem addQuestionBody_round_trip (qn : WName) (qt qc : Nat) (s s' : State) (hw : WInv s) (hwf : qn.WF)
    (hqt : qt < 65536) (hqc : qc < 65536)
    (h : addQuestionBody qn qt qc s = (.ok (), s')) (msg : Bytes)
    (hmsg : ∀ i, i < s'.cursor → msg[i]? = s'.octets[i]?) :
    ∃ w k, specDecodeName msg s.cursor = some (w, qn.len, k) ∧ s'.cursor = s.cursor + k + 4 ∧
      w.map lowerU8 = qn.wire.map lowerU8 ∧ (s.mode ≠ .standard → w = qn.wire) ∧
      be16 msg (s.cursor + k) = qt ∧ be16 msg (s.cursor + k + 2) = qc := by
  unfold addQuestionBody at h
  obtain ⟨_, sA, hA, h⟩ := M.bind_ok_inv h
  obtain ⟨p, sB, hB, h⟩ := M.bind_ok_inv h
  obtain ⟨_, sC, hC, h⟩ := M.bind_ok_inv h
  obtain ⟨_, sD, hD, h⟩ := M.bind_ok_inv h
  obtain ⟨_, sE, hE, hF⟩ := M.bind_ok_inv h
  simp only [setCtx, M.modify_apply, Prod.mk.injEq, true_and] at hA hC hD
  subst hA
  have e1 := ext_setCtx s .qname
  have wA : WInv { s with gCtx := .qname } := winv_ext hw e1 rfl rfl rfl rfl
  have hs := writeUnhintedName_spec qn _ wA hwf
  have hf := frame_writeUnhintedName qn { s with gCtx := .qname }
  obtain ⟨w, k0, hd, hcase, hexact⟩ := writeUnhintedName_round_trip qn _ wA hwf p (by rw [hB])
  rw [hB] at hs hf hd
  simp only at hd
  obtain ⟨hwB, _, _, _, _, _, hck, _⟩ := hs.ok p rfl
  have hcurB : s.cursor ≤ sB.cursor := hf.cur
  simp only at hck hcurB
  have hcsB : sB.cursor ≤ sB.octets.size := Nat.le_trans hwB.cur_av hwB.av_size
  have hcm : ChunkAt (sB.octets.extract 0 sB.cursor) s.cursor (sB.cursor - s.cursor) :=
    chunkAt_frame hck (fun i _ h2 => extract_prefix_get _ _ hcsB _ (by omega))
  have hk0 := specDecodeName_chunk hcm hd
  subst hk0
  unfold tryPushU16 at hE hF
  obtain ⟨eE, zE⟩ := tryPush_ok_inv hE
  obtain ⟨eF, zF⟩ := tryPush_ok_inv hF
  have hl2 : ∀ x, (u16be x).length = 2 := fun _ => rfl
  have cC : sC.cursor = sB.cursor := by rw [← hC]
  have oC : sC.octets = sB.octets := by rw [← hC]
  have cD : sD.cursor = sB.cursor := by rw [← hD]; split <;> exact cC
  have oD : sD.octets = sB.octets := by rw [← hD]; split <;> exact oC
  have cE : sE.cursor = sB.cursor + 2 := by rw [eE]; simp [pushed, hl2, cD]
  have cF : s'.cursor = sB.cursor + 4 := by rw [eF]; simp [pushed, hl2, cE]
  have preF : ∀ i, i < sB.cursor → s'.octets[i]? = sB.octets[i]? := by
    intro i hi
    rw [eF, pushed_get_lt _ _ _ (by omega), eE, pushed_get_lt _ _ _ (by omega), oD]
  have tqt : BytesAt s'.octets sB.cursor (u16be qt) := by
    intro i hi
    rw [hl2] at hi
    rw [eF, pushed_get_lt _ _ _ (by omega), eE]
    have := bytesAt_writeAt sD.octets sD.cursor (u16be qt) zE i (by rw [hl2]; exact hi)
    show (writeAt sD.octets sD.cursor (u16be qt))[sB.cursor + i]? = _
    rw [cD] at this ⊢
    exact this
  have tqc : BytesAt s'.octets (sB.cursor + 2) (u16be qc) := by
    intro i hi
    rw [hl2] at hi
    rw [eF]
    have := bytesAt_writeAt sE.octets sE.cursor (u16be qc) zF i (by rw [hl2]; exact hi)
    show (writeAt sE.octets sE.cursor (u16be qc))[sB.cursor + 2 + i]? = _
    rw [cE] at this ⊢
    exact this
  have hD' := (specDecodeName_iff _ _ _ _ _).mp hd
  have hszB : (sB.octets.extract 0 sB.cursor).size = sB.cursor := by simp; omega
  have hagree : ∀ i, i < (sB.octets.extract 0 sB.cursor).size → msg[i]? = (sB.octets.extract 0 sB.cursor)[i]? := by
    intro i hi
    rw [hszB] at hi
    rw [extract_prefix_get _ _ hcsB _ hi, hmsg i (by omega), preF i hi]
  have hDm : DecodesName msg s.cursor w qn.len (sB.cursor - s.cursor) := ⟨decodes_prefix hagree hD'.1, hD'.2⟩
  refine ⟨w, sB.cursor - s.cursor, (specDecodeName_iff _ _ _ _ _).mpr hDm, by omega, hcase, hexact, ?_, ?_⟩
  · rw [show s.cursor + (sB.cursor - s.cursor) = sB.cursor by omega, be16_of_agree hmsg (by omega)]
    exact be16_of_bytesAt tqt hqt
  · rw [show s.cursor + (sB.cursor - s.cursor) + 2 = sB.cursor + 2 by omega, be16_of_agree hmsg (by omega)]
    exact be16_of_bytesAt tqc hqc

end QV.Writer
