/-
  QV.Proofs.ServerSignedTable — the final writers of all kinds of responses to a request whose scan
  reaches a TSIG record, stated for one and the same TSIG record `t`, message-without-TSIG `mw` and
  reader `r'` (`TsigRun`), so that the rows of the TSIG decision table can be listed in one theorem
  (Properties/C10.lean, `C10_decoded_table`).  The proofs are those of `signed_nodata_final`,
  `signed_error_final` (Proofs/ServerSignedDecode.lean), `signed_answer_final`
  (Proofs/ServerAnswerDecode.lean) and `signed_nofit_final` (Proofs/ServerSignedNoFit.lean), with the
  equation of `handleMessage_tsig_eq` as a hypothesis instead of an existential.
-/
import QV.Proofs.ServerSignedNoFit
import QV.Proofs.ServerAnswerHdrLog

namespace QV.ServerContent
open QV QV.Wire QV.Reader QV.Writer QV.Server QV.ServerSafety QV.ServerScan QV.ServerAnswer QV.Spec.Resolve QV.Spec QV.ServerTsig

/-- `t`, `mw`, `r'`, `question` are the TSIG record, the message without it, the reader after it and
    the question of `handle_message`'s scan of `req` -/
def TsigRun (cfg : Cfg) (tr : Transport) (now bufLen : Nat) (req : Bytes) (t : Tsig.ReadTsigRr) (mw : Bytes)
    (r' : Reader.Reader) (question : Option (WName × Nat × Nat)) : Prop :=
  r'.octets = req ∧ r'.cursor ≤ req.size ∧
  QRel (Spec.Server.specScanWith (catKind cfg) cfg.payload req).question question ∧
  Server.handleMessage cfg tr now bufLen req =
    match afterTsig cfg tr req (Spec.Server.specScanWith (catKind cfg) cfg.payload req).question question
        ((req.getD 2 0).toNat / 8 % 16) r'.cursor
        (Server.tsigAfter cfg now t mw r' (preTsigState cfg tr bufLen req)) with
    | (.ok true, w1) =>
      (match Writer.finish w1 Server.macFn with
       | .ok (bytes, _) => .ok (some bytes)
       | _ => .panic)
    | (.ok false, _) => .ok none
    | _ => .panic

theorem tsigRun_exists (cfg : Cfg) (tr : Transport) (now bufLen : Nat) (req : Bytes)
    (hbuf : minBuf tr cfg.payload ≤ bufLen) (hpay : 512 ≤ cfg.payload) (hreq : req.size ≤ Rdata.USIZE_MAX)
    (hr : (Spec.Server.specScanWith (catKind cfg) cfg.payload req).respond = true)
    (hv : (Spec.Server.specScanWith (catKind cfg) cfg.payload req).verdict = .tsigReached) :
    ∃ t mw r' question, TsigRun cfg tr now bufLen req t mw r' question := by
  obtain ⟨t, mw, r', question, h1, h2, h3, h4⟩ := handleMessage_tsig_eq cfg tr now bufLen req hbuf hpay hreq hr hv
  exact ⟨t, mw, r', question, h1, h2, h3, h4⟩

/-- `set_rcode(rc)` on the header view -/
theorem hdrView_stRcode (rc : Nat) (s : State) (h3 : 3 < s.octets.size) {v : View} (h : HdrView s v) :
    HdrView (stRcode rc s) { rcode := rc, aa := v.aa, tc := v.tc } := by
  have h1 := ((hdrStep_setRcode rc) s v h).1
  rw [setRcode_eq rc s h3] at h1
  exact ⟨(h1 rfl).1, (h1 rfl).2.1, (h1 rfl).2.2⟩

/-- authenticated, no-data verdict (`signed_nodata_final`) -/
theorem signed_nodata_final_of_run (cfg : Cfg) (tr : Transport) (now bufLen : Nat) (req : Bytes)
    (hbuf : minBuf tr cfg.payload ≤ bufLen) (hpay : 512 ≤ cfg.payload) (hp16 : cfg.payload ≤ 65535)
    (hr : (Spec.Server.specScanWith (catKind cfg) cfg.payload req).respond = true)
    (t : Tsig.ReadTsigRr) (mw : Bytes) (r' : Reader.Reader) (question : Option (WName × Nat × Nat))
    (hrun : TsigRun cfg tr now bufLen req t mw r' question) :
      ∀ r'' S, Server.tsigAfter cfg now t mw r' (preTsigState cfg tr bufLen req) = (.ok (some r''), S) →
      ∀ v, (v = Spec.Server.Verdict.formErr ∨ v = .notImp ∨ v = .refused ∨ v = .servFailZone) →
        endVerdict (catKind cfg) req.size (Spec.Server.specScanWith (catKind cfg) cfg.payload req).question
          r'.cursor ((req.getD 2 0).toNat / 8 % 16) = v →
      ∀ b, Server.handleMessage cfg tr now bufLen req = .ok (some b) →
        ∃ nowT alg key kn F mac, Tsig.TimeSigned.tryFromUnix now = some nowT ∧
          Tsig.Algorithm.fromName t.algorithm = some alg ∧ Server.findKey cfg.keys t.keyName alg = some key ∧
          WName.parse t.keyName = some (kn, []) ∧
          Tsig.verifyRequest Tsig.realHmac t mw.toList alg key.secret nowT = .ok () ∧
          Writer.finish F Server.macFn = .ok (b, mac) ∧
          Good F (qBody (Spec.Server.specScanWith (catKind cfg) cfg.payload req).question) ∧
          F.tsig = some (respTsig alg key kn t nowT) ∧
          F.edns = (if (Spec.Server.specScanWith (catKind cfg) cfg.payload req).edns then some ⟨cfg.payload, 0⟩ else none) ∧
          mac = some (Server.macFn (respTsig alg key kn t nowT)
            (signedPrefix req cfg.payload (Spec.Server.specScanWith (catKind cfg) cfg.payload req)
              (Spec.Server.verdictRcode v).1)) ∧
          HdrView F { rcode := (Spec.Server.verdictRcode v).1 } := by
  obtain ⟨h1, h2, _, h4⟩ := hrun
  intro r'' S hT v hvv hev b hb
  have hne : endVerdict (catKind cfg) req.size (Spec.Server.specScanWith (catKind cfg) cfg.payload req).question
      r'.cursor ((req.getD 2 0).toNat / 8 % 16) ≠ .answer := by
    rw [hev]; rcases hvv with rfl | rfl | rfl | rfl <;> simp
  have hM : Server.handleMessage cfg tr now bufLen req =
      match Writer.finish (endState (endVerdict (catKind cfg) req.size
          (Spec.Server.specScanWith (catKind cfg) cfg.payload req).question r'.cursor
          ((req.getD 2 0).toNat / 8 % 16)) S) Server.macFn with
      | .ok (bytes, _) => .ok (some bytes)
      | _ => .panic := by
    rw [h4, hT]
    simp only [afterTsig, if_neg hne]
  rw [hev, hb] at hM
  obtain ⟨_, _, hsce⟩ := specScanWith_respond _ _ _ hr
  unfold preTsigState at hT
  rw [hsce] at hT ⊢
  generalize hsc : specBody (catKind cfg) cfg.payload req = sc at *
  obtain ⟨_, p2, p3⟩ := specBody_props (catKind cfg) cfg.payload req
  rw [hsc] at p2 p3
  have hq : ∀ x, sc.question = some x → ∃ nx, Spec.specQuestionAt req 12 = some (x.qname, x.qtype, x.qclass, nx) :=
    fun x hx => specBody_question (catKind cfg) cfg.payload req x (by rw [hsc]; exact hx)
  obtain ⟨hbase, hcur, o0, o1, o2, h30, hs3, hQ, hqd, han, hns, har, _, hsz⟩ :=
    s1_facts bufLen tr cfg.payload (Spec.Server.hdr req 0) (((req.getD 2 0).toNat &&& 120) >>> 3)
      (((req.getD 2 0).toNat &&& 1) != 0) hbuf hpay req sc.question hq
  have g1 := good_s1 bufLen tr cfg.payload (Spec.Server.hdr req 0) (((req.getD 2 0).toNat &&& 120) >>> 3)
      (((req.getD 2 0).toNat &&& 1) != 0) hbuf hpay req sc.question hq
  have hv0 := hdrView_scan_state bufLen tr cfg.payload (Spec.Server.hdr req 0) (((req.getD 2 0).toNat &&& 120) >>> 3)
      (((req.getD 2 0).toNat &&& 1) != 0) hbuf hpay req sc.question hq sc.edns sc.limitUdp
  generalize qSt (hdrSt (w0 bufLen (lim0 tr)) (Spec.Server.hdr req 0) (((req.getD 2 0).toNat &&& 120) >>> 3)
      (((req.getD 2 0).toNat &&& 1) != 0)) sc.question = s1 at *
  unfold Server.tsigAfter at hT
  cases hnow : Tsig.TimeSigned.tryFromUnix now with
  | none => rw [hnow] at hT; cases hT
  | some nowT =>
    rw [hnow] at hT
    simp only at hT
    have h3s : 3 < (arSt s1 tr cfg.payload sc.edns sc.limitUdp).octets.size := by rw [arSt_size]; exact hs3
    have h12s : 12 ≤ (arSt s1 tr cfg.payload sc.edns sc.limitUdp).octets.size := by
      rw [arSt_size, hsz]; cases tr <;> simp only [minBuf] at hbuf <;> omega
    obtain ⟨alg, key, kn, ha, hk, hkn, hver, _, hfit, hS⟩ :=
      tsigProcess_some_state Tsig.realHmac cfg.keys _ h12s t mw.toList nowT r' r'' S hT
    have hrc : (Spec.Server.verdictRcode v).1 < 16 := by
      rcases hvv with rfl | rfl | rfl | rfl <;> decide
    obtain ⟨_, hF⟩ := sigSt_facts s1 tr cfg.payload sc.edns sc.limitUdp 0 (Spec.Server.verdictRcode v).1 (by omega) hrc
      hbase h30 hs3 p2 p3 (.response (Server.toWriterAlg alg) t.mac key.secret) (ServerTsig.prepOf kn t nowT 0)
    have hES : endState v S = stRcode (Spec.Server.verdictRcode v).1 S := by
      rcases hvv with rfl | rfl | rfl | rfl <;> rfl
    rw [hES, hS] at hM
    -- the final writer is `Good`
    have gA := good_arSt s1 tr cfg.payload sc.edns sc.limitUdp _ g1 hbase p2 p3 hp16
    have gB := good_stRcode 0 _ _ gA h3s
    obtain ⟨l1, l2⟩ := prepOf_lengths kn t nowT 0
    have gC := good_withTsig (.response (Server.toWriterAlg alg) t.mac key.secret) (ServerTsig.prepOf kn t nowT 0) _ _ gB
      ((stRcode_fits 0 _ _ _).mpr hfit) (parse_wf hkn) (algName_wf _) l1 l2
    have h3c : 3 < (ServerTsig.withTsig (stRcode 0 (arSt s1 tr cfg.payload sc.edns sc.limitUdp))
        (.response (Server.toWriterAlg alg) t.mac key.secret) (ServerTsig.prepOf kn t nowT 0)).octets.size := by
      show 3 < (stRcode 0 _).octets.size
      have : ∀ x : State, (stRcode 0 x).octets.size = x.octets.size := by
        intro x; unfold stRcode stHdr; cases x.edns <;> simp
      rw [this]; exact h3s
    have gD := good_stRcode (Spec.Server.verdictRcode v).1 _ _ gC h3c
    rcases hfin : Writer.finish (stRcode (Spec.Server.verdictRcode v).1
        (ServerTsig.withTsig (stRcode 0 (arSt s1 tr cfg.payload sc.edns sc.limitUdp))
          (.response (Server.toWriterAlg alg) t.mac key.secret) (ServerTsig.prepOf kn t nowT 0))) Server.macFn
      with ⟨bytes, mac⟩ | e | _
    · rw [hfin] at hM
      simp only [Out.ok.injEq, Option.some.injEq] at hM
      subst hM
      obtain ⟨hmac, _⟩ := signed_response_list Server.macFn req cfg.payload sc
        (Spec.Server.verdictRcode v).1 s1 _ (respTsig alg key kn t nowT) hcur o0 o1 o2 hQ hqd han hns har
        hF.oct hF.o3 hF.cur hF.tsig hF.edns hF.qd hF.an hF.ns hF.ar b mac hfin
      have hdrV : HdrView (stRcode (Spec.Server.verdictRcode v).1
          (ServerTsig.withTsig (stRcode 0 (arSt s1 tr cfg.payload sc.edns sc.limitUdp))
            (.response (Server.toWriterAlg alg) t.mac key.secret) (ServerTsig.prepOf kn t nowT 0)))
          { rcode := (Spec.Server.verdictRcode v).1 } :=
        hdrView_stRcode _ _ h3c (hdrView_withTsig _ h3s hv0 _ _)
      exact ⟨nowT, alg, key, kn, _, mac, rfl, ha, hk, hkn, hver, hfin, gD, hF.tsig, hF.edns, by rw [hmac]; rfl, hdrV⟩
    · rw [hfin] at hM; cases hM
    · rw [hfin] at hM; cases hM

/-- rejected, reply TSIG fits (`signed_error_final`) -/
theorem signed_error_final_of_run (cfg : Cfg) (tr : Transport) (now bufLen : Nat) (req : Bytes)
    (hbuf : minBuf tr cfg.payload ≤ bufLen) (hpay : 512 ≤ cfg.payload) (hp16 : cfg.payload ≤ 65535)
    (hr : (Spec.Server.specScanWith (catKind cfg) cfg.payload req).respond = true)
    (t : Tsig.ReadTsigRr) (mw : Bytes) (r' : Reader.Reader) (question : Option (WName × Nat × Nat))
    (hrun : TsigRun cfg tr now bufLen req t mw r' question) :
      ∀ nowT kn an rc mode rr, Tsig.TimeSigned.tryFromUnix now = some nowT →
        WName.parse t.keyName = some (kn, []) → WName.parse t.algorithm = some (an, []) →
        tsigStopReply Tsig.realHmac cfg.keys nowT t mw.toList kn an = some (rc, mode, rr) →
        ServerTsig.TsigFits (preTsigState cfg tr bufLen req) mode rr →
        ∀ b, Server.handleMessage cfg tr now bufLen req = .ok (some b) →
          ∃ F mac, Writer.finish F Server.macFn = .ok (b, mac) ∧
            Good F (qBody (Spec.Server.specScanWith (catKind cfg) cfg.payload req).question) ∧
            F.tsig = some ⟨mode, ServerTsig.reservedLen mode rr, rr⟩ ∧
            F.edns = (if (Spec.Server.specScanWith (catKind cfg) cfg.payload req).edns then some ⟨cfg.payload, 0⟩ else none) ∧
            mac = finishMac Server.macFn ⟨mode, ServerTsig.reservedLen mode rr, rr⟩
              (signedPrefix req cfg.payload (Spec.Server.specScanWith (catKind cfg) cfg.payload req) rc) ∧
            HdrView F { rcode := rc } := by
  obtain ⟨h1, h2, _, h4⟩ := hrun
  intro nowT kn an rc mode rr hnow hkn han hrep hfit b hb
  obtain ⟨_, _, hsce⟩ := specScanWith_respond _ _ _ hr
  unfold preTsigState at hfit h4
  rw [hsce] at hfit h4 ⊢
  generalize hsc : specBody (catKind cfg) cfg.payload req = sc at *
  obtain ⟨_, p2, p3⟩ := specBody_props (catKind cfg) cfg.payload req
  rw [hsc] at p2 p3
  have hq : ∀ x, sc.question = some x → ∃ nx, Spec.specQuestionAt req 12 = some (x.qname, x.qtype, x.qclass, nx) :=
    fun x hx => specBody_question (catKind cfg) cfg.payload req x (by rw [hsc]; exact hx)
  obtain ⟨hbase, hcur, o0, o1, o2, h30, hs3, hQ, hqd, han', hns, har, _, hsz⟩ :=
    s1_facts bufLen tr cfg.payload (Spec.Server.hdr req 0) (((req.getD 2 0).toNat &&& 120) >>> 3)
      (((req.getD 2 0).toNat &&& 1) != 0) hbuf hpay req sc.question hq
  have g1 := good_s1 bufLen tr cfg.payload (Spec.Server.hdr req 0) (((req.getD 2 0).toNat &&& 120) >>> 3)
      (((req.getD 2 0).toNat &&& 1) != 0) hbuf hpay req sc.question hq
  have hv0 := hdrView_scan_state bufLen tr cfg.payload (Spec.Server.hdr req 0) (((req.getD 2 0).toNat &&& 120) >>> 3)
      (((req.getD 2 0).toNat &&& 1) != 0) hbuf hpay req sc.question hq sc.edns sc.limitUdp
  generalize qSt (hdrSt (w0 bufLen (lim0 tr)) (Spec.Server.hdr req 0) (((req.getD 2 0).toNat &&& 120) >>> 3)
      (((req.getD 2 0).toNat &&& 1) != 0)) sc.question = s1 at *
  have h3s : 3 < (arSt s1 tr cfg.payload sc.edns sc.limitUdp).octets.size := by rw [arSt_size]; exact hs3
  have hT : Server.tsigAfter cfg now t mw r' (arSt s1 tr cfg.payload sc.edns sc.limitUdp) =
      (.ok none, ServerTsig.withTsig (stRcode rc (arSt s1 tr cfg.payload sc.edns sc.limitUdp)) mode rr) := by
    unfold Server.tsigAfter
    rw [hnow]
    exact tsigProcess_stop_state Tsig.realHmac cfg.keys _ h3s t mw.toList nowT r' kn an hkn han rc mode rr hrep hfit
  rw [hT, hb] at h4
  simp only [afterTsig] at h4
  have hrc : rc < 16 := by rcases tsigStopReply_rc hrep with rfl | rfl <;> omega
  obtain ⟨hF, _⟩ := sigSt_facts s1 tr cfg.payload sc.edns sc.limitUdp rc 0 hrc (by omega) hbase h30 hs3 p2 p3 mode rr
  obtain ⟨w1, w2, w3, w4⟩ := tsigStopReply_facts hrep (parse_wf han)
  have gA := good_arSt s1 tr cfg.payload sc.edns sc.limitUdp _ g1 hbase p2 p3 hp16
  have gB := good_stRcode rc _ _ gA h3s
  have gC := good_withTsig mode rr _ _ gB ((stRcode_fits rc _ _ _).mpr hfit) (by rw [w2]; exact parse_wf hkn) w1 w3 w4
  rcases hfin : Writer.finish (ServerTsig.withTsig (stRcode rc (arSt s1 tr cfg.payload sc.edns sc.limitUdp)) mode rr)
      Server.macFn with ⟨bytes, mac⟩ | e | _
  · rw [hfin] at h4
    simp only [Out.ok.injEq, Option.some.injEq] at h4
    subst h4
    obtain ⟨hmac, _⟩ := signed_response_list Server.macFn req cfg.payload sc rc s1 _
      ⟨mode, ServerTsig.reservedLen mode rr, rr⟩ hcur o0 o1 o2 hQ hqd han' hns har
      hF.oct hF.o3 hF.cur hF.tsig hF.edns hF.qd hF.an hF.ns hF.ar b mac hfin
    have hdrV : HdrView (ServerTsig.withTsig (stRcode rc (arSt s1 tr cfg.payload sc.edns sc.limitUdp)) mode rr)
        { rcode := rc } := hdrView_congr (hdrView_stRcode rc _ h3s hv0) rfl rfl
    exact ⟨_, mac, hfin, gC, hF.tsig, hF.edns, hmac, hdrV⟩
  · rw [hfin] at h4; cases h4
  · rw [hfin] at h4; cases h4

/-- authenticated, answered by a loaded zone (`signed_answer_final`) -/
theorem signed_answer_final_of_run (cfg : Cfg) (hcfg : CfgWF cfg) (tr : Transport) (now bufLen : Nat) (req : Bytes)
    (hbuf : minBuf tr cfg.payload ≤ bufLen) (hpay : 512 ≤ cfg.payload) (hp16 : cfg.payload ≤ 65535)
    (hr : (Spec.Server.specScanWith (catKind cfg) cfg.payload req).respond = true)
    (t : Tsig.ReadTsigRr) (mw : Bytes) (r' : Reader.Reader) (question : Option (WName × Nat × Nat))
    (hrun : TsigRun cfg tr now bufLen req t mw r' question) :
      ∀ r'' S, Server.tsigAfter cfg now t mw r' (preTsigState cfg tr bufLen req) = (.ok (some r''), S) →
        endVerdict (catKind cfg) req.size (Spec.Server.specScanWith (catKind cfg) cfg.payload req).question
          r'.cursor ((req.getD 2 0).toNat / 8 % 16) = .answer →
      ∀ b, Server.handleMessage cfg tr now bufLen req = .ok (some b) →
        ∃ nowT alg key kn F mac bd, Tsig.TimeSigned.tryFromUnix now = some nowT ∧
          Tsig.Algorithm.fromName t.algorithm = some alg ∧ Server.findKey cfg.keys t.keyName alg = some key ∧
          WName.parse t.keyName = some (kn, []) ∧
          Tsig.verifyRequest Tsig.realHmac t mw.toList alg key.secret nowT = .ok () ∧
          Writer.finish F Server.macFn = .ok (b, mac) ∧ Good F bd ∧
          bd.qs = (qBody (Spec.Server.specScanWith (catKind cfg) cfg.payload req).question).qs ∧
          (∀ r ∈ bd.ar, r.ty = 1 ∨ r.ty = 28) ∧
          F.tsig = some (respTsig alg key kn t nowT) ∧
          F.edns.map (·.payload) =
            (if (Spec.Server.specScanWith (catKind cfg) cfg.payload req).edns then some cfg.payload else none) := by
  obtain ⟨h1, h2, hqrel, h4⟩ := hrun
  intro r'' S hT hev b hb
  rw [hT, hb] at h4
  simp only [afterTsig, hev, if_true] at h4
  obtain ⟨_, _, hsce⟩ := specScanWith_respond _ _ _ hr
  unfold preTsigState at hT
  rw [hsce] at hT hqrel hev ⊢
  -- the question
  cases hq0 : (specBody (catKind cfg) cfg.payload req).question with
  | none =>
    exfalso
    rw [hq0] at hev
    unfold endVerdict at hev
    split at hev
    · cases hev
    · split at hev <;> cases hev
  | some q =>
    obtain ⟨nx, hsq⟩ := specBody_question (catKind cfg) cfg.payload req q hq0
    obtain ⟨p, hp, hpw, _, _, hwl⟩ := specQuestionAt_some req 12 _ _ _ nx hsq
    obtain ⟨qn, hqn, hqw⟩ := wname_of_parse req 12 p hp
    rw [hpw] at hqn hqw
    rw [hq0] at hqrel
    cases question with
    | none => exact absurd hqrel (by simp [QRel])
    | some qq =>
      obtain ⟨qn', qt, qc⟩ := qq
      obtain ⟨hqn', hqt, hqc⟩ := hqrel
      have : qn = qn' := by rw [hqn] at hqn'; cases hqn'; rfl
      subst this
      obtain ⟨_, p2, p3⟩ := specBody_props (catKind cfg) cfg.payload req
      have hq : ∀ x, (specBody (catKind cfg) cfg.payload req).question = some x →
          ∃ nx, Spec.specQuestionAt req 12 = some (x.qname, x.qtype, x.qclass, nx) :=
        fun x hx => specBody_question (catKind cfg) cfg.payload req x hx
      obtain ⟨hbase, hcur, _, _, _, h30, hs3, _, _, _, _, _, hrrs, hsz⟩ :=
        s1_facts bufLen tr cfg.payload (Spec.Server.hdr req 0) (((req.getD 2 0).toNat &&& 120) >>> 3)
          (((req.getD 2 0).toNat &&& 1) != 0) hbuf hpay req (specBody (catKind cfg) cfg.payload req).question hq
      have g1 := good_s1 bufLen tr cfg.payload (Spec.Server.hdr req 0) (((req.getD 2 0).toNat &&& 120) >>> 3)
          (((req.getD 2 0).toNat &&& 1) != 0) hbuf hpay req (specBody (catKind cfg) cfg.payload req).question hq
      rw [hq0] at hT g1 hbase hs3 hsz h30 hcur hrrs
      generalize hsce' : (specBody (catKind cfg) cfg.payload req).edns = e at *
      generalize hscl' : (specBody (catKind cfg) cfg.payload req).limitUdp = l at *
      unfold Server.tsigAfter at hT
      cases hnow : Tsig.TimeSigned.tryFromUnix now with
      | none => rw [hnow] at hT; cases hT
      | some nowT =>
        rw [hnow] at hT
        simp only at hT
        have h3s : 3 < (arSt (qSt (hdrSt (w0 bufLen (lim0 tr)) (Spec.Server.hdr req 0)
            (((req.getD 2 0).toNat &&& 120) >>> 3) (((req.getD 2 0).toNat &&& 1) != 0)) (some q)) tr cfg.payload e l).octets.size := by
          rw [arSt_size]; exact hs3
        have h12s : 12 ≤ (arSt (qSt (hdrSt (w0 bufLen (lim0 tr)) (Spec.Server.hdr req 0)
            (((req.getD 2 0).toNat &&& 120) >>> 3) (((req.getD 2 0).toNat &&& 1) != 0)) (some q)) tr cfg.payload e l).octets.size := by
          rw [arSt_size, hsz]; cases tr <;> simp only [minBuf] at hbuf <;> omega
        obtain ⟨alg, key, kn, ha, hk, hkn, hver, _, hfit, hS⟩ :=
          tsigProcess_some_state Tsig.realHmac cfg.keys _ h12s t mw.toList nowT r' r'' S hT
        obtain ⟨hX, _⟩ := sigSt_facts _ tr cfg.payload e l 0 0 (by omega) (by omega)
          hbase h30 hs3 p2 p3 (.response (Server.toWriterAlg alg) t.mac key.secret) (ServerTsig.prepOf kn t nowT 0)
        rw [← hS] at hX
        -- the state handed to `handle_query` is `Good` and `QueryReady`
        have gA := good_arSt _ tr cfg.payload e l _ g1 hbase p2 p3 hp16
        have gB := good_stRcode 0 _ _ gA h3s
        obtain ⟨l1, l2⟩ := prepOf_lengths kn t nowT 0
        have hfit' := (stRcode_fits 0 _ _ _).mpr hfit
        have gC := good_withTsig (.response (Server.toWriterAlg alg) t.mac key.secret) (ServerTsig.prepOf kn t nowT 0) _ _ gB
          hfit' (parse_wf hkn) (algName_wf _) l1 l2
        have hqr := queryReady_signed_state bufLen tr cfg.payload (Spec.Server.hdr req 0)
          (((req.getD 2 0).toNat &&& 120) >>> 3) (((req.getD 2 0).toNat &&& 1) != 0) hbuf hpay hp16 q qn hqn hqw hwl
          (parse_wf hqn) e l p2 p3 alg t.mac key.secret t kn nowT hkn hfit'
        rw [← hS] at gC hqr
        have h3c : 3 < S.octets.size := by
          rw [hS]
          show 3 < (stRcode 0 _).octets.size
          have : ∀ x : State, (stRcode 0 x).octets.size = x.octets.size := by
            intro x; unfold stRcode stHdr; cases x.edns <;> simp
          rw [this]; exact h3s
        have hSrr : S.rrStart = (qSt (hdrSt (w0 bufLen (lim0 tr)) (Spec.Server.hdr req 0)
            (((req.getD 2 0).toNat &&& 120) >>> 3) (((req.getD 2 0).toNat &&& 1) != 0)) (some q)).rrStart := by
          rw [hS]
          show (stRcode 0 (arSt _ tr cfg.payload e l)).rrStart = _
          have : ∀ x : State, (stRcode 0 x).rrStart = x.rrStart := by
            intro x; unfold stRcode stHdr; cases x.edns <;> rfl
          rw [this]
          cases e <;> cases tr <;> rfl
        -- the answering phase keeps the TSIG slot and the EDNS payload
        have hfr := framed_bind (k := true) (Server.framed_handleQuery 12 (by omega) cfg (some (qn, qt, qc)) tr)
          (fun _ => framed_pure 12 true) S (by rw [hX.cur, hcur]; omega) (by rw [hSrr, hrrs]; omega)
        obtain ⟨k1, k2⟩ := hfr.keep rfl
        obtain ⟨bd, hgd, hqs, hty⟩ := good_handleQuery cfg hcfg tr qn qt qc S _ gC (qBody_norecs _) (parse_wf hqn)
          hqr.hint h3c
        have hgd' : Good ((Server.handleQuery cfg (some (qn, qt, qc)) tr >>= fun _ => (pure true : M Bool)) S).2 bd := by
          rw [bind_apply]
          generalize Server.handleQuery cfg (some (qn, qt, qc)) tr S = res at hgd
          obtain ⟨o, s'⟩ := res
          cases o <;> exact hgd
        rcases hq : (Server.handleQuery cfg (some (qn, qt, qc)) tr >>= fun _ => (pure true : M Bool)) S with ⟨(bb | e | _), w1⟩
        · rw [hq] at h4 k1 k2 hgd'
          simp only at k1 k2 hgd'
          cases bb with
          | false => simp only at h4; cases h4
          | true =>
            simp only at h4
            rcases hfin : Writer.finish w1 Server.macFn with ⟨bytes, mac⟩ | e | _
            · rw [hfin] at h4
              simp only [Out.ok.injEq, Option.some.injEq] at h4
              subst h4
              refine ⟨nowT, alg, key, kn, w1, mac, bd, rfl, ha, hk, hkn, hver, hfin, hgd', hqs, hty, ?_, ?_⟩
              · rw [k1, hX.tsig]; rfl
              · rw [k2, hX.edns]; cases e <;> rfl
            · rw [hfin] at h4; cases h4
            · rw [hfin] at h4; cases h4
        · rw [hq] at h4; cases h4
        · rw [hq] at h4; cases h4

/-- reply TSIG does not fit (`signed_nofit_final`) -/
theorem signed_nofit_final_of_run (cfg : Cfg) (tr : Transport) (now bufLen : Nat) (req : Bytes)
    (hbuf : minBuf tr cfg.payload ≤ bufLen) (hpay : 512 ≤ cfg.payload) (hp16 : cfg.payload ≤ 65535)
    (hr : (Spec.Server.specScanWith (catKind cfg) cfg.payload req).respond = true)
    (t : Tsig.ReadTsigRr) (mw : Bytes) (r' : Reader.Reader) (question : Option (WName × Nat × Nat))
    (hrun : TsigRun cfg tr now bufLen req t mw r' question) :
      ∀ nowT kn, Tsig.TimeSigned.tryFromUnix now = some nowT → WName.parse t.keyName = some (kn, []) →
        NoFit cfg nowT t mw kn (preTsigState cfg tr bufLen req) →
        ∀ b, Server.handleMessage cfg tr now bufLen req = .ok (some b) →
          ∃ F mac, Writer.finish F Server.macFn = .ok (b, mac) ∧
            Good F (qBody (Spec.Server.specScanWith (catKind cfg) cfg.payload req).question) ∧
            F.tsig = none ∧
            F.edns.map (·.payload) =
              (if (Spec.Server.specScanWith (catKind cfg) cfg.payload req).edns then some cfg.payload else none) ∧
            HdrView F { tc := true } := by
  obtain ⟨h1, h2, _, h4⟩ := hrun
  intro nowT kn hnow hkn hnf b hb
  obtain ⟨_, _, hsce⟩ := specScanWith_respond _ _ _ hr
  unfold preTsigState at hnf h4
  rw [hsce] at hnf h4 ⊢
  generalize hsc : specBody (catKind cfg) cfg.payload req = sc at *
  obtain ⟨_, p2, p3⟩ := specBody_props (catKind cfg) cfg.payload req
  rw [hsc] at p2 p3
  have hq : ∀ x, sc.question = some x → ∃ nx, Spec.specQuestionAt req 12 = some (x.qname, x.qtype, x.qclass, nx) :=
    fun x hx => specBody_question (catKind cfg) cfg.payload req x (by rw [hsc]; exact hx)
  obtain ⟨hbase, _, _, _, _, _, hs3, _⟩ :=
    s1_facts bufLen tr cfg.payload (Spec.Server.hdr req 0) (((req.getD 2 0).toNat &&& 120) >>> 3)
      (((req.getD 2 0).toNat &&& 1) != 0) hbuf hpay req sc.question hq
  have g1 := good_s1 bufLen tr cfg.payload (Spec.Server.hdr req 0) (((req.getD 2 0).toNat &&& 120) >>> 3)
      (((req.getD 2 0).toNat &&& 1) != 0) hbuf hpay req sc.question hq
  have hv0 := hdrView_scan_state bufLen tr cfg.payload (Spec.Server.hdr req 0) (((req.getD 2 0).toNat &&& 120) >>> 3)
      (((req.getD 2 0).toNat &&& 1) != 0) hbuf hpay req sc.question hq sc.edns sc.limitUdp
  generalize qSt (hdrSt (w0 bufLen (lim0 tr)) (Spec.Server.hdr req 0) (((req.getD 2 0).toNat &&& 120) >>> 3)
      (((req.getD 2 0).toNat &&& 1) != 0)) sc.question = s1 at *
  have h3s : 3 < (arSt s1 tr cfg.payload sc.edns sc.limitUdp).octets.size := by rw [arSt_size]; exact hs3
  have gA := good_arSt s1 tr cfg.payload sc.edns sc.limitUdp _ g1 hbase p2 p3 hp16
  obtain ⟨_, _, f3, _, _, _, _, f8⟩ := arSt_fields s1 tr cfg.payload sc.edns sc.limitUdp
  -- the state the TSIG step leaves
  have hT : ∃ rc, Server.tsigAfter cfg now t mw r' (arSt s1 tr cfg.payload sc.edns sc.limitUdp) =
      (.ok none, truncSt (stRcode rc (arSt s1 tr cfg.payload sc.edns sc.limitUdp))) := by
    unfold Server.tsigAfter
    rw [hnow]
    rcases hnf with ⟨an, rc, mode, rr, han, hrep, hf⟩ | ⟨alg, key, ha, hk, hver, hf⟩
    · exact ⟨rc, tsigProcess_nofit_stop Tsig.realHmac cfg.keys _ h3s t mw.toList nowT r' kn an hkn han rc mode rr hrep hf⟩
    · exact ⟨0, tsigProcess_nofit_ok Tsig.realHmac cfg.keys _ h3s t mw.toList nowT r' kn hkn alg key ha hk hver hf⟩
  obtain ⟨rc, hT⟩ := hT
  rw [hT, hb] at h4
  simp only [afterTsig] at h4
  have gB := good_stRcode rc _ _ gA h3s
  have gC := good_truncSt _ _ gB (by rw [stRcode_size]; exact h3s)
  obtain ⟨t1, t2, _⟩ := truncSt_fields (stRcode rc (arSt s1 tr cfg.payload sc.edns sc.limitUdp))
  obtain ⟨u1, u2⟩ := stRcode_fields rc (arSt s1 tr cfg.payload sc.edns sc.limitUdp)
  rcases hfin : Writer.finish (truncSt (stRcode rc (arSt s1 tr cfg.payload sc.edns sc.limitUdp))) Server.macFn
    with ⟨bytes, mac⟩ | e | _
  · rw [hfin] at h4
    simp only [Out.ok.injEq, Option.some.injEq] at h4
    subst h4
    refine ⟨_, mac, hfin, gC, by rw [t1, u1, f3]; exact hbase.tsig, ?_, hdrView_truncSt rc _ h3s hv0⟩
    rw [t2, u2, f8, hbase.edns]
    cases sc.edns <;> rfl
  · rw [hfin] at h4; cases h4
  · rw [hfin] at h4; cases h4

/-! ### the rows are exhaustive and exclusive -/

theorem lowerU8_small (b : UInt8) : (lowerU8 b = 9 → b = 9) ∧ (lowerU8 b = 11 → b = 11) ∧ (lowerU8 b = 0 → b = 0) := by
  revert b; apply Wire.forall_uint8; unfold lowerU8; decide +kernel

/-- a name the algorithm table knows is a well-formed wire name -/
theorem fromName_parses (n : List UInt8) (alg : Tsig.Algorithm) (h : Tsig.Algorithm.fromName n = some alg) :
    ∃ an, WName.parse n = some (an, []) := by
  have hl := fromName_some n alg h
  cases alg with
  | HmacSha1 =>
    simp only [Tsig.lowerName, Tsig.Algorithm.name, Tsig.hmacSha1Name, List.map_eq_cons_iff, List.map_eq_nil_iff] at hl
    obtain ⟨b0, r0, rfl, h0, b1, r1, rfl, _, b2, r2, rfl, _, b3, r3, rfl, _, b4, r4, rfl, _, b5, r5, rfl, _,
      b6, r6, rfl, _, b7, r7, rfl, _, b8, r8, rfl, _, b9, r9, rfl, _, b10, r10, rfl, h10, rfl⟩ := hl
    have e0 := (lowerU8_small b0).1 h0
    have e10 := (lowerU8_small b10).2.2 h10
    subst e0 e10
    exact ⟨_, rfl⟩
  | HmacSha256 =>
    simp only [Tsig.lowerName, Tsig.Algorithm.name, Tsig.hmacSha256Name, List.map_eq_cons_iff, List.map_eq_nil_iff] at hl
    obtain ⟨b0, r0, rfl, h0, b1, r1, rfl, _, b2, r2, rfl, _, b3, r3, rfl, _, b4, r4, rfl, _, b5, r5, rfl, _,
      b6, r6, rfl, _, b7, r7, rfl, _, b8, r8, rfl, _, b9, r9, rfl, _, b10, r10, rfl, _, b11, r11, rfl, _,
      b12, r12, rfl, h12, rfl⟩ := hl
    have e0 := (lowerU8_small b0).2.1 h0
    have e12 := (lowerU8_small b12).2.2 h12
    subst e0 e12
    exact ⟨_, rfl⟩

/-- **the TSIG step, classified**: a run that does not panic has a key name that parses, and either
    the decision table rejects the request (`tsigStopReply = some …`; the step stops, whether the
    reply fits or not), or the request is authenticated (the step goes on iff the response TSIG fits) -/
theorem tsigProcess_rows (hm : Tsig.Algorithm → Tsig.Octets → Tsig.Octets → Tsig.Octets) (keys : List Server.Key)
    (s : State) (h3 : 3 < s.octets.size) (r : Tsig.ReadTsigRr) (msg : List UInt8) (nowT : Tsig.TimeSigned)
    (r' : Reader.Reader) (o : Option Reader.Reader) (S : State)
    (h : Server.tsigProcess hm keys nowT r msg r' s = (.ok o, S)) :
    ∃ kn, WName.parse r.keyName = some (kn, []) ∧
      ((∃ an rc mode rr, WName.parse r.algorithm = some (an, []) ∧
          tsigStopReply hm keys nowT r msg kn an = some (rc, mode, rr) ∧ o = none) ∨
       (∃ alg key, Tsig.Algorithm.fromName r.algorithm = some alg ∧ Server.findKey keys r.keyName alg = some key ∧
          Tsig.verifyRequest hm r msg alg key.secret nowT = .ok () ∧
          ((TsigFits s (.response (Server.toWriterAlg alg) r.mac key.secret) (prepOf kn r nowT 0) ∧ o = some r') ∨
           (¬ TsigFits s (.response (Server.toWriterAlg alg) r.mac key.secret) (prepOf kn r nowT 0) ∧ o = none)))) := by
  -- the BADKEY tail
  have bad : ∀ o S, Server.tsigBadKey r nowT s = (.ok o, S) →
      ∃ kn an, WName.parse r.keyName = some (kn, []) ∧ WName.parse r.algorithm = some (an, []) ∧ o = none := by
    intro o S h
    rcases hP : WName.parse r.algorithm with _ | ⟨an, rest⟩
    · exfalso
      unfold Server.tsigBadKey at h
      obtain ⟨_, s1, _, h⟩ := bind_ok_inv h
      rw [hP] at h; cases h
    · cases rest with
      | cons x y =>
        exfalso
        unfold Server.tsigBadKey at h
        obtain ⟨_, s1, _, h⟩ := bind_ok_inv h
        rw [hP] at h
        rcases Server.preparedFromRead r nowT (Server.XRC "BADKEY") with _ | prep <;> cases h
      | nil =>
        by_cases hk : ∃ kn, WName.parse r.keyName = some (kn, [])
        · obtain ⟨kn, hkn⟩ := hk
          refine ⟨kn, an, hkn, rfl, ?_⟩
          by_cases hf : TsigFits s (.unsigned an) (prepOf kn r nowT 17)
          · rw [tsigBadKey_fits s h3 r nowT kn an hkn hP hf] at h; cases h; rfl
          · rw [tsigBadKey_nofit s h3 r nowT kn an hkn hP hf] at h; cases h; rfl
        · exfalso
          have hn : ∀ kn, WName.parse r.keyName ≠ some (kn, []) := fun kn hkn => hk ⟨kn, hkn⟩
          unfold Server.tsigBadKey at h
          obtain ⟨_, s1, _, h⟩ := bind_ok_inv h
          rw [hP, preparedFromRead_none r nowT _ hn] at h
          cases h
  unfold Server.tsigProcess at h
  cases hA : Tsig.Algorithm.fromName r.algorithm with
  | none =>
    rw [hA] at h
    obtain ⟨kn, an, hkn, han, ho⟩ := bad o S h
    exact ⟨kn, hkn, Or.inl ⟨an, 9, .unsigned an, prepOf kn r nowT 17, han, by simp only [tsigStopReply, hA], ho⟩⟩
  | some alg =>
    rw [hA] at h
    simp only at h
    obtain ⟨an, han⟩ := fromName_parses _ _ hA
    cases hK : Server.findKey keys r.keyName alg with
    | none =>
      rw [hK] at h
      obtain ⟨kn, an', hkn, han', ho⟩ := bad o S h
      exact ⟨kn, hkn, Or.inl ⟨an', 9, .unsigned an', prepOf kn r nowT 17, han', by simp only [tsigStopReply, hA, hK], ho⟩⟩
    | some key =>
      rw [hK] at h
      simp only at h
      by_cases hk : ∃ kn, WName.parse r.keyName = some (kn, [])
      · obtain ⟨kn, hkn⟩ := hk
        refine ⟨kn, hkn, ?_⟩
        have step : ∀ (rc e : Nat) (mode : TsigMode) (b : Bool),
            (do setRcode rc
                let added ← Server.setTsigOrTruncate mode (prepOf kn r nowT e)
                if added && b then pure (some r') else pure none : M (Option Reader.Reader)) s = (.ok o, S) →
            (TsigFits s mode (prepOf kn r nowT e) ∧ o = (if b then some r' else none)) ∨
            (¬ TsigFits s mode (prepOf kn r nowT e) ∧ o = none) := by
          intro rc e mode b hrun
          by_cases hf : TsigFits s mode (prepOf kn r nowT e)
          · rw [tsigStep_fits rc mode _ b r' s h3 hf] at hrun
            cases hrun; exact Or.inl ⟨hf, rfl⟩
          · rw [tsigStep_nofit rc mode _ b r' s h3 hf] at hrun
            cases hrun; exact Or.inr ⟨hf, rfl⟩
        have stopNone : ∀ {P : Prop} {b : Bool}, b = false →
            (P ∧ o = (if b then some r' else none)) ∨ (¬ P ∧ o = none) → o = none := by
          intro P b hb hh
          subst hb
          rcases hh with ⟨_, h⟩ | ⟨_, h⟩ <;> exact h
        unfold Server.tsigVerifyAndWrite at h
        rcases hv : Tsig.verifyRequest hm r msg alg key.secret nowT with u | e | _
        · rw [hv] at h
          simp only [Server.tsigReply, preparedFromRead_eq kn r nowT _ hkn, rc_noerror, xrc_noerror] at h
          right
          refine ⟨alg, key, rfl, hK, hv, ?_⟩
          rcases step _ _ _ _ h with ⟨hf, ho⟩ | ⟨hf, ho⟩
          · exact Or.inl ⟨hf, by rw [ho]; simp⟩
          · exact Or.inr ⟨hf, ho⟩
        · rw [hv] at h
          left
          cases e with
          | BadSig =>
            simp only [Server.tsigReply, preparedFromRead_eq kn r nowT _ hkn, rc_noerror, rc_notauth, xrc_badsig] at h
            exact ⟨an, 9, .unsigned (algName (Server.toWriterAlg alg)), prepOf kn r nowT 16, han, by simp only [tsigStopReply, hA, hK, hv],
              stopNone (by decide) (step _ _ _ _ h)⟩
          | BadTime =>
            simp only [Server.tsigReply, preparedFromRead_eq kn r nowT _ hkn, rc_noerror, rc_notauth, xrc_badtime] at h
            exact ⟨an, 9, .response (Server.toWriterAlg alg) r.mac key.secret, prepOf kn r nowT 18, han, by simp only [tsigStopReply, hA, hK, hv],
              stopNone (by decide) (step _ _ _ _ h)⟩
          | FormErr =>
            simp only [Server.tsigReply, preparedFromRead_eq kn r nowT _ hkn, rc_noerror, rc_formerr, xrc_badsig] at h
            exact ⟨an, 1, .unsigned (algName (Server.toWriterAlg alg)), prepOf kn r nowT 16, han, by simp only [tsigStopReply, hA, hK, hv],
              stopNone (by decide) (step _ _ _ _ h)⟩
        · rw [hv] at h
          simp only [Server.tsigReply] at h
          cases h
      · exfalso
        have hn : ∀ kn, WName.parse r.keyName ≠ some (kn, []) := fun kn hkn => hk ⟨kn, hkn⟩
        unfold Server.tsigVerifyAndWrite at h
        split at h
        · rw [preparedFromRead_none r nowT _ hn] at h
          cases h
        · cases h


theorem preTsig_size3 (cfg : Cfg) (tr : Transport) (bufLen : Nat) (req : Bytes)
    (hbuf : minBuf tr cfg.payload ≤ bufLen) (hpay : 512 ≤ cfg.payload)
    (hr : (Spec.Server.specScanWith (catKind cfg) cfg.payload req).respond = true) :
    3 < (preTsigState cfg tr bufLen req).octets.size := by
  obtain ⟨_, _, hsce⟩ := specScanWith_respond _ _ _ hr
  unfold preTsigState
  rw [hsce, arSt_size]
  have hq : ∀ x, (specBody (catKind cfg) cfg.payload req).question = some x →
      ∃ nx, Spec.specQuestionAt req 12 = some (x.qname, x.qtype, x.qclass, nx) :=
    fun x hx => specBody_question (catKind cfg) cfg.payload req x hx
  obtain ⟨_, _, _, _, _, _, hs3, _⟩ :=
    s1_facts bufLen tr cfg.payload (Spec.Server.hdr req 0) (((req.getD 2 0).toNat &&& 120) >>> 3)
      (((req.getD 2 0).toNat &&& 1) != 0) hbuf hpay req (specBody (catKind cfg) cfg.payload req).question hq
  exact hs3

/-- row 1: rejected by the decision table, and the reply TSIG fits -/
def RowRejected (cfg : Cfg) (tr : Transport) (now bufLen : Nat) (req : Bytes) (t : Tsig.ReadTsigRr) (mw : Bytes) : Prop :=
  ∃ nowT kn an rc mode rr, Tsig.TimeSigned.tryFromUnix now = some nowT ∧
    WName.parse t.keyName = some (kn, []) ∧ WName.parse t.algorithm = some (an, []) ∧
    tsigStopReply Tsig.realHmac cfg.keys nowT t mw.toList kn an = some (rc, mode, rr) ∧
    TsigFits (preTsigState cfg tr bufLen req) mode rr

/-- row 2: authenticated (the response TSIG fits), no-data verdict -/
def RowAuthNoData (cfg : Cfg) (tr : Transport) (now bufLen : Nat) (req : Bytes) (t : Tsig.ReadTsigRr) (mw : Bytes)
    (r' : Reader.Reader) : Prop :=
  ∃ r'' S v, Server.tsigAfter cfg now t mw r' (preTsigState cfg tr bufLen req) = (.ok (some r''), S) ∧
    (v = Spec.Server.Verdict.formErr ∨ v = .notImp ∨ v = .refused ∨ v = .servFailZone) ∧
    endVerdict (catKind cfg) req.size (Spec.Server.specScanWith (catKind cfg) cfg.payload req).question
      r'.cursor ((req.getD 2 0).toNat / 8 % 16) = v

/-- row 3: authenticated (the response TSIG fits), a loaded zone answers -/
def RowAuthAnswer (cfg : Cfg) (tr : Transport) (now bufLen : Nat) (req : Bytes) (t : Tsig.ReadTsigRr) (mw : Bytes)
    (r' : Reader.Reader) : Prop :=
  ∃ r'' S, Server.tsigAfter cfg now t mw r' (preTsigState cfg tr bufLen req) = (.ok (some r''), S) ∧
    endVerdict (catKind cfg) req.size (Spec.Server.specScanWith (catKind cfg) cfg.payload req).question
      r'.cursor ((req.getD 2 0).toNat / 8 % 16) = .answer

/-- row 4: the reply TSIG does not fit -/
def RowNoFit (cfg : Cfg) (tr : Transport) (now bufLen : Nat) (req : Bytes) (t : Tsig.ReadTsigRr) (mw : Bytes) : Prop :=
  ∃ nowT kn, Tsig.TimeSigned.tryFromUnix now = some nowT ∧ WName.parse t.keyName = some (kn, []) ∧
    NoFit cfg nowT t mw kn (preTsigState cfg tr bufLen req)

theorem endVerdict_range (lookup : List UInt8 → Nat → Option Spec.Server.ZoneKind) (sz : Nat)
    (q : Option Spec.DQuestion) (pos op : Nat) :
    endVerdict lookup sz q pos op = .answer ∨ endVerdict lookup sz q pos op = .formErr ∨
    endVerdict lookup sz q pos op = .notImp ∨ endVerdict lookup sz q pos op = .refused ∨
    endVerdict lookup sz q pos op = .servFailZone := by
  unfold endVerdict
  repeat' split
  all_goals simp

/-- rows 1 and 4 stop the scan -/
theorem rowRejected_stops {cfg : Cfg} {tr : Transport} {now bufLen : Nat} {req : Bytes} {t : Tsig.ReadTsigRr} {mw : Bytes}
    (r' : Reader.Reader) (h3 : 3 < (preTsigState cfg tr bufLen req).octets.size)
    (h : RowRejected cfg tr now bufLen req t mw) :
    ∃ S, Server.tsigAfter cfg now t mw r' (preTsigState cfg tr bufLen req) = (.ok none, S) := by
  obtain ⟨nowT, kn, an, rc, mode, rr, hnow, hkn, han, hrep, hfit⟩ := h
  unfold Server.tsigAfter
  rw [hnow]
  exact ⟨_, tsigProcess_stop_state Tsig.realHmac cfg.keys _ h3 t mw.toList nowT r' kn an hkn han rc mode rr hrep hfit⟩

theorem rowNoFit_stops {cfg : Cfg} {tr : Transport} {now bufLen : Nat} {req : Bytes} {t : Tsig.ReadTsigRr} {mw : Bytes}
    (r' : Reader.Reader) (h3 : 3 < (preTsigState cfg tr bufLen req).octets.size)
    (h : RowNoFit cfg tr now bufLen req t mw) :
    ∃ S, Server.tsigAfter cfg now t mw r' (preTsigState cfg tr bufLen req) = (.ok none, S) := by
  obtain ⟨nowT, kn, hnow, hkn, hnf⟩ := h
  unfold Server.tsigAfter
  rw [hnow]
  rcases hnf with ⟨an, rc, mode, rr, han, hrep, hf⟩ | ⟨alg, key, ha, hk, hver, hf⟩
  · exact ⟨_, tsigProcess_nofit_stop Tsig.realHmac cfg.keys _ h3 t mw.toList nowT r' kn an hkn han rc mode rr hrep hf⟩
  · exact ⟨_, tsigProcess_nofit_ok Tsig.realHmac cfg.keys _ h3 t mw.toList nowT r' kn hkn alg key ha hk hver hf⟩

/-- **the four rows are exhaustive and mutually exclusive**: a run of `handle_message` on a request
    whose scan reaches a TSIG record, if it yields a response, falls into exactly one of: rejected and
    the reply fits; authenticated with a no-data verdict; authenticated and answered by a loaded zone;
    the reply TSIG does not fit -/
theorem rows_exhaustive (cfg : Cfg) (tr : Transport) (now bufLen : Nat) (req : Bytes)
    (hbuf : minBuf tr cfg.payload ≤ bufLen) (hpay : 512 ≤ cfg.payload)
    (hr : (Spec.Server.specScanWith (catKind cfg) cfg.payload req).respond = true)
    (t : Tsig.ReadTsigRr) (mw : Bytes) (r' : Reader.Reader) (question : Option (WName × Nat × Nat))
    (hrun : TsigRun cfg tr now bufLen req t mw r' question)
    (b : Bytes) (hb : Server.handleMessage cfg tr now bufLen req = .ok (some b)) :
    (RowRejected cfg tr now bufLen req t mw ∨ RowAuthNoData cfg tr now bufLen req t mw r' ∨
      RowAuthAnswer cfg tr now bufLen req t mw r' ∨ RowNoFit cfg tr now bufLen req t mw) ∧
    ¬ (RowRejected cfg tr now bufLen req t mw ∧ RowAuthNoData cfg tr now bufLen req t mw r') ∧
    ¬ (RowRejected cfg tr now bufLen req t mw ∧ RowAuthAnswer cfg tr now bufLen req t mw r') ∧
    ¬ (RowRejected cfg tr now bufLen req t mw ∧ RowNoFit cfg tr now bufLen req t mw) ∧
    ¬ (RowAuthNoData cfg tr now bufLen req t mw r' ∧ RowAuthAnswer cfg tr now bufLen req t mw r') ∧
    ¬ (RowAuthNoData cfg tr now bufLen req t mw r' ∧ RowNoFit cfg tr now bufLen req t mw) ∧
    ¬ (RowAuthAnswer cfg tr now bufLen req t mw r' ∧ RowNoFit cfg tr now bufLen req t mw) := by
  have h3 := preTsig_size3 cfg tr bufLen req hbuf hpay hr
  obtain ⟨_, _, _, h4⟩ := hrun
  refine ⟨?_, ?_, ?_, ?_, ?_, ?_, ?_⟩
  · -- exhaustive
    rw [hb] at h4
    rcases hT : Server.tsigAfter cfg now t mw r' (preTsigState cfg tr bufLen req) with ⟨(o | e | _), S⟩
    · have hT' := hT
      unfold Server.tsigAfter at hT'
      cases hnow : Tsig.TimeSigned.tryFromUnix now with
      | none => rw [hnow] at hT'; cases hT'
      | some nowT =>
        rw [hnow] at hT'
        simp only at hT'
        obtain ⟨kn, hkn, hrows⟩ := tsigProcess_rows Tsig.realHmac cfg.keys _ h3 t mw.toList nowT r' o S hT'
        rcases hrows with ⟨an, rc, mode, rr, han, hrep, _⟩ | ⟨alg, key, ha, hk, hver, hfo⟩
        · by_cases hf : TsigFits (preTsigState cfg tr bufLen req) mode rr
          · exact Or.inl ⟨nowT, kn, an, rc, mode, rr, hnow, hkn, han, hrep, hf⟩
          · exact Or.inr (Or.inr (Or.inr ⟨nowT, kn, hnow, hkn, Or.inl ⟨an, rc, mode, rr, han, hrep, hf⟩⟩))
        · rcases hfo with ⟨hf, ho⟩ | ⟨hf, ho⟩
          · subst ho
            rcases endVerdict_range (catKind cfg) req.size (Spec.Server.specScanWith (catKind cfg) cfg.payload req).question
              r'.cursor ((req.getD 2 0).toNat / 8 % 16) with h | h | h | h | h
            · exact Or.inr (Or.inr (Or.inl ⟨r', S, hT, h⟩))
            · exact Or.inr (Or.inl ⟨r', S, _, hT, Or.inl rfl, h⟩)
            · exact Or.inr (Or.inl ⟨r', S, _, hT, Or.inr (Or.inl rfl), h⟩)
            · exact Or.inr (Or.inl ⟨r', S, _, hT, Or.inr (Or.inr (Or.inl rfl)), h⟩)
            · exact Or.inr (Or.inl ⟨r', S, _, hT, Or.inr (Or.inr (Or.inr rfl)), h⟩)
          · exact Or.inr (Or.inr (Or.inr ⟨nowT, kn, hnow, hkn, Or.inr ⟨alg, key, ha, hk, hver, hf⟩⟩))
    · rw [hT] at h4; simp only [afterTsig] at h4; cases h4
    · rw [hT] at h4; simp only [afterTsig] at h4; cases h4
  · rintro ⟨h1, r'', S, v, hT, _, _⟩
    obtain ⟨S', hS⟩ := rowRejected_stops r' h3 h1
    rw [hS] at hT; cases hT
  · rintro ⟨h1, r'', S, hT, _⟩
    obtain ⟨S', hS⟩ := rowRejected_stops r' h3 h1
    rw [hS] at hT; cases hT
  · rintro ⟨⟨nowT, kn, an, rc, mode, rr, hnow, hkn, han, hrep, hfit⟩, nowT', kn', hnow', hkn', hnf⟩
    rw [hnow] at hnow'; cases hnow'
    rw [hkn] at hkn'; cases hkn'
    rcases hnf with ⟨an', rc', mode', rr', han', hrep', hf'⟩ | ⟨alg, key, ha, hk, hver, _⟩
    · rw [han] at han'; cases han'
      rw [hrep] at hrep'; cases hrep'
      exact hf' hfit
    · simp only [tsigStopReply, ha, hk, hver] at hrep
      cases hrep
  · rintro ⟨⟨r'', S, v, hT, hvv, hev⟩, r2, S2, _, hev2⟩
    rw [hev2] at hev
    rcases hvv with rfl | rfl | rfl | rfl <;> cases hev
  · rintro ⟨⟨r'', S, v, hT, _, _⟩, h4⟩
    obtain ⟨S', hS⟩ := rowNoFit_stops r' h3 h4
    rw [hS] at hT; cases hT
  · rintro ⟨⟨r'', S, hT, _⟩, h4⟩
    obtain ⟨S', hS⟩ := rowNoFit_stops r' h3 h4
    rw [hS] at hT; cases hT


/-! ### towards the executable audit (`Spec.ServerTsig.audit`) -/

/-- whether the scan answers at all, and whether it reaches a TSIG record (with which question, EDNS
    flag and UDP limit), does not depend on the catalog -/
theorem specScanWith_tsig_indep (l1 l2 : List UInt8 → Nat → Option Spec.Server.ZoneKind) (S : Nat) (msg : Bytes) :
    (Spec.Server.specScanWith l1 S msg).respond = (Spec.Server.specScanWith l2 S msg).respond ∧
    ((Spec.Server.specScanWith l1 S msg).verdict = .tsigReached ↔ (Spec.Server.specScanWith l2 S msg).verdict = .tsigReached) ∧
    ((Spec.Server.specScanWith l1 S msg).verdict = .tsigReached →
      (Spec.Server.specScanWith l1 S msg).question = (Spec.Server.specScanWith l2 S msg).question ∧
      (Spec.Server.specScanWith l1 S msg).edns = (Spec.Server.specScanWith l2 S msg).edns ∧
      (Spec.Server.specScanWith l1 S msg).limitUdp = (Spec.Server.specScanWith l2 S msg).limitUdp) := by
  unfold Spec.Server.specScanWith
  by_cases h1 : msg.size < 12
  · rw [if_pos h1, if_pos h1]; exact ⟨rfl, Iff.rfl, fun _ => ⟨rfl, rfl, rfl⟩⟩
  · by_cases h2 : (msg.getD 2 0).toNat ≥ 128
    · rw [if_neg h1, if_neg h1, if_pos h2, if_pos h2]; exact ⟨rfl, Iff.rfl, fun _ => ⟨rfl, rfl, rfl⟩⟩
    · simp only [h1, h2, if_false]
      by_cases h3 : Spec.Server.hdr msg 4 > 1
      · rw [if_pos h3, if_pos h3]; exact ⟨rfl, Iff.rfl, fun _ => ⟨rfl, rfl, rfl⟩⟩
      · simp only [h3, if_false]
        generalize (if Spec.Server.hdr msg 4 = 0 then some (none, 12)
          else match Spec.specQuestionAt msg 12 with
            | some (w, t, c, nx) => some (some (⟨w, t, c⟩ : Spec.DQuestion), nx)
            | none => none) = qres
        cases qres with
        | none => exact ⟨rfl, Iff.rfl, fun _ => ⟨rfl, rfl, rfl⟩⟩
        | some v =>
          obtain ⟨q, p1⟩ := v
          simp only
          cases Spec.Server.scanPlain msg (Spec.Server.hdr msg 6 + Spec.Server.hdr msg 8) p1 with
          | none => exact ⟨rfl, Iff.rfl, fun _ => ⟨rfl, rfl, rfl⟩⟩
          | some p2 =>
            simp only
            rcases Spec.Server.scanAr msg S (Spec.Server.hdr msg 10) (Spec.Server.hdr msg 10) p2 false 512 with ⟨en, e, l⟩
            cases en with
            | formErr => exact ⟨rfl, Iff.rfl, fun _ => ⟨rfl, rfl, rfl⟩⟩
            | badVers => exact ⟨rfl, Iff.rfl, fun _ => ⟨rfl, rfl, rfl⟩⟩
            | tsig => exact ⟨rfl, Iff.rfl, fun _ => ⟨rfl, rfl, rfl⟩⟩
            | done p3 =>
              simp only
              refine ⟨?_, ?_, ?_⟩
              · repeat' split
                all_goals rfl
              · constructor <;> (intro h; exfalso; revert h; repeat' split
                                 all_goals simp)
              · intro h; exfalso; revert h; repeat' split
                all_goals simp

/-- a `Good` final writer without a pending TSIG whose own additional records are address records:
    no decoding of what `finish` returns has a record of type 250, and a decoding exists -/
theorem no_tsig_of_good (F : State) (bd : Body) (hG : Good F bd) (hts : F.tsig = none)
    (hty : ∀ r ∈ bd.ar, r.ty = 1 ∨ r.ty = 28) (b : Bytes) (mac : Option (List UInt8))
    (hf : Writer.finish F Server.macFn = .ok (b, mac)) (d : DMsg) (hd : specDecodeMsg b = some d) :
    ∀ o ∈ d.ar, o.ty ≠ 250 := by
  obtain ⟨hI, hlim, mb, hL⟩ := hG
  have hsz : b.size ≤ 65535 := Nat.le_trans (finish_size_le_limit Server.macFn F hI.inv b mac hf) hlim
  obtain ⟨d', qs, ian, ins, iar, hd', _, _, _, e4, _, _, _, m4, _, _⟩ :=
    finish_decodes_content Server.macFn F bd mb hI hL b mac hf hsz
  rw [hd] at hd'
  cases hd'
  rw [hts] at e4
  simp only [tsigRecs, List.append_nil] at e4
  intro o ho h250
  obtain ⟨it, hit, hm⟩ := all2_mem_right m4 o ho
  have hmem : it.r ∈ bd.ar ++ optRecs' F.edns := by rw [← e4]; exact List.mem_map.mpr ⟨it, hit, rfl⟩
  rw [hm.2.2.1] at h250
  rcases List.mem_append.mp hmem with h | h
  · rcases hty _ h with h1 | h1 <;> rw [h1] at h250 <;> simp at h250
  · cases hed : F.edns with
    | none => rw [hed] at h; simp [optRecs'] at h
    | some e =>
      rw [hed] at h
      simp only [optRecs', List.mem_singleton] at h
      rw [h] at h250
      have : Writer.T_OPT % 65536 = 41 := by rw [T_OPT_eq]
      simp only at h250
      omega

theorem decodes_of_good (F : State) (bd : Body) (hG : Good F bd) (b : Bytes) (mac : Option (List UInt8))
    (hf : Writer.finish F Server.macFn = .ok (b, mac)) : ∃ d, specDecodeMsg b = some d := by
  obtain ⟨hI, hlim, mb, hL⟩ := hG
  have hsz : b.size ≤ 65535 := Nat.le_trans (finish_size_le_limit Server.macFn F hI.inv b mac hf) hlim
  obtain ⟨d', _, _, _, _, hd', _⟩ := finish_decodes_content Server.macFn F bd mb hI hL b mac hf hsz
  exact ⟨d', hd'⟩

/-- **a response to a request whose scan does not reach a TSIG record carries no TSIG record** -/
theorem unsigned_no_tsig (cfg : Cfg) (hcfg : CfgWF cfg) (tr : Transport) (now bufLen : Nat) (req : Bytes)
    (hbuf : minBuf tr cfg.payload ≤ bufLen) (hpay : 512 ≤ cfg.payload) (hp16 : cfg.payload ≤ 65535)
    (hreq : req.size ≤ Rdata.USIZE_MAX)
    (hr : (Spec.Server.specScanWith (catKind cfg) cfg.payload req).respond = true)
    (hv : (Spec.Server.specScanWith (catKind cfg) cfg.payload req).verdict ≠ .tsigReached)
    (b : Bytes) (hb : Server.handleMessage cfg tr now bufLen req = .ok (some b))
    (d : DMsg) (hd : specDecodeMsg b = some d) : ∀ o ∈ d.ar, o.ty ≠ 250 := by
  by_cases hnd : noDataV (Spec.Server.specScanWith (catKind cfg) cfg.payload req).verdict = true
  · obtain ⟨F, b', mac, hb', hf, hG, hts, _⟩ := unsigned_nodata_final cfg tr now bufLen req hbuf hpay hp16 hreq hr hnd
    rw [hb] at hb'
    simp only [Out.ok.injEq, Option.some.injEq] at hb'
    subst hb'
    exact no_tsig_of_good F _ hG hts (by rw [(qBody_norecs _).2.2]; simp) b mac hf d hd
  · have hva : (Spec.Server.specScanWith (catKind cfg) cfg.payload req).verdict = .answer := by
      cases hx : (Spec.Server.specScanWith (catKind cfg) cfg.payload req).verdict <;> rw [hx] at hnd hv <;>
        first | rfl | exact absurd rfl hv | exact absurd rfl hnd
    have h12 : 12 ≤ req.size := by
      by_cases hc : req.size < 12
      · rw [handleMessage_short cfg tr now bufLen req hbuf hc] at hb; cases hb
      · omega
    have hqr : (req.getD 2 0).toNat < 128 := by
      by_cases hc : (req.getD 2 0).toNat ≥ 128
      · rw [handleMessage_qr cfg tr now bufLen req hbuf h12 hc] at hb; cases hb
      · omega
    rw [specScanWith_eq] at hva
    simp only [show ¬ req.size < 12 by omega, show ¬ (req.getD 2 0).toNat ≥ 128 by omega, if_false] at hva
    obtain ⟨hts, _⟩ := hwc_answer_slot cfg tr now bufLen req hbuf hpay h12 hreq (Spec.Server.hdr req 0)
      (((req.getD 2 0).toNat &&& 120) >>> 3) (((req.getD 2 0).toNat &&& 1) != 0) hva
    obtain ⟨bd, hG, _, hty⟩ := answer_final_good cfg hcfg tr now bufLen req hbuf hpay hp16 h12 hreq
      (Spec.Server.hdr req 0) (((req.getD 2 0).toNat &&& 120) >>> 3) (((req.getD 2 0).toNat &&& 1) != 0) hva
    rw [handleMessage_eq cfg tr now bufLen req hbuf hpay h12 hqr] at hb
    rcases hh : Server.handleWithContext cfg tr now ⟨req, 12, none⟩
        (hdrSt (w0 bufLen (lim0 tr)) (Spec.Server.hdr req 0) (((req.getD 2 0).toNat &&& 120) >>> 3)
          (((req.getD 2 0).toNat &&& 1) != 0)) with ⟨(bb | e | _), w1⟩
    · rw [hh] at hb hts hG
      simp only at hts hG
      cases bb with
      | false => simp only at hb; cases hb
      | true =>
        simp only at hb
        rcases hf : Writer.finish w1 Server.macFn with ⟨bytes, mac⟩ | e | _
        · rw [hf] at hb
          simp only [Out.ok.injEq, Option.some.injEq] at hb
          subst hb
          exact no_tsig_of_good w1 bd hG hts hty bytes mac hf d hd
        · rw [hf] at hb; cases hb
        · rw [hf] at hb; cases hb
    · rw [hh] at hb; cases hb
    · rw [hh] at hb; cases hb

/-- **a request whose scan reaches a TSIG record gets a response, and the response decodes** -/
theorem signed_response_decodes (cfg : Cfg) (hcfg : CfgWF cfg) (tr : Transport) (now bufLen : Nat) (req : Bytes)
    (hbuf : minBuf tr cfg.payload ≤ bufLen) (hpay : 512 ≤ cfg.payload) (hp16 : cfg.payload ≤ 65535)
    (hreq : req.size ≤ Rdata.USIZE_MAX)
    (hr : (Spec.Server.specScanWith (catKind cfg) cfg.payload req).respond = true)
    (hv : (Spec.Server.specScanWith (catKind cfg) cfg.payload req).verdict = .tsigReached)
    (hnp : Server.handleMessage cfg tr now bufLen req ≠ .panic) :
    ∃ b d, Server.handleMessage cfg tr now bufLen req = .ok (some b) ∧ specDecodeMsg b = some d := by
  obtain ⟨t, mw, r', question, _, _, _, h4⟩ := handleMessage_tsig_eq cfg tr now bufLen req hbuf hpay hreq hr hv
  have hsome : ∃ b, Server.handleMessage cfg tr now bufLen req = .ok (some b) := by
    rcases hm : Server.handleMessage cfg tr now bufLen req with (_ | b) | e | _
    · have := (handleMessage_none_iff cfg tr now bufLen req hbuf hpay (catKind cfg)).mp hm
      rw [hr] at this; cases this
    · exact ⟨b, rfl⟩
    · exfalso
      rw [hm] at h4
      generalize afterTsig _ _ _ _ _ _ _ _ = X at h4
      rcases X with ⟨(bb | x | _), w1⟩
      · cases bb
        · cases h4
        · simp only at h4
          generalize Writer.finish w1 Server.macFn = f at h4
          rcases f with ⟨b, m⟩ | x | _ <;> cases h4
      · cases h4
      · cases h4
    · exact absurd hm hnp
  obtain ⟨b, hb⟩ := hsome
  obtain ⟨F, mac, bd, hf, hG, _⟩ := signed_final_good cfg hcfg tr now bufLen req hbuf hpay hp16 hreq hr hv b hb
  obtain ⟨d, hd⟩ := decodes_of_good F bd hG b mac hf
  exact ⟨b, d, hb, hd⟩


/-! ### the TSIG RDATA round trip -/

theorem splitNameAux_wire (rest : List UInt8) : ∀ (ls : List Label), (∀ l ∈ ls, 1 ≤ l.length ∧ l.length ≤ 63) →
    ∀ fuel, ls.length + 1 ≤ fuel → Spec.Tsig.splitNameAux fuel (ls.flatMap WName.encLabel ++ 0 :: rest) = some (ls, rest) := by
  intro ls
  induction ls with
  | nil =>
    intro _ fuel hf
    cases fuel with
    | zero => omega
    | succ f => simp [Spec.Tsig.splitNameAux]
  | cons l r ih =>
    intro hl fuel hf
    cases fuel with
    | zero => omega
    | succ f =>
      obtain ⟨h1, h2⟩ := hl l (by simp)
      have hlen : (UInt8.ofNat l.length).toNat = l.length := by
        simp only [UInt8.toNat_ofNat', Nat.reducePow]; omega
      have hne : UInt8.ofNat l.length ≠ 0 := by
        intro h; rw [h] at hlen; have : (0 : UInt8).toNat = 0 := rfl; omega
      simp only [List.flatMap_cons, WName.encLabel, List.cons_append, List.append_assoc, Spec.Tsig.splitNameAux, hne, if_false, hlen]
      rw [if_neg (by simp only [List.length_append]; omega)]
      rw [List.drop_left' rfl, List.take_left' rfl]
      rw [ih (fun x hx => hl x (by simp [hx])) f (by simp only [List.length_cons] at hf; omega)]
      rfl

theorem length_le_flatMap (ls : List Label) : ls.length ≤ (ls.flatMap WName.encLabel).length := by
  induction ls with
  | nil => simp
  | cons a r ih =>
    simp only [List.flatMap_cons, List.length_append, WName.encLabel, List.length_cons]
    omega

theorem splitName_wire (n : WName) (h : n.WF) (rest : List UInt8) :
    Spec.Tsig.splitName (n.wire ++ rest) = some (n.labels, rest) := by
  obtain ⟨hl, hw⟩ := h
  unfold Spec.Tsig.splitName
  have : n.wire ++ rest = n.labels.flatMap WName.encLabel ++ 0 :: rest := by
    unfold WName.wire; simp
  have hwl : n.labels.length + 1 ≤ (n.wire ++ rest).length + 1 := by
    have := length_le_flatMap n.labels
    unfold WName.wire
    simp only [List.length_append, List.length_cons, List.length_nil]
    omega
  rw [this] at hwl ⊢
  rw [splitNameAux_wire rest n.labels (fun l hl' => ⟨(hl l hl').1, (hl l hl').2⟩) _ hwl]
  simp only
  rw [if_pos]
  rw [← this]
  simp only [List.length_append]
  have : Gen.MAX_WIRE_LEN = 255 := rfl
  omega


theorem field16_u16be (n : Nat) (rest : List UInt8) : Spec.Tsig.field16 (u16be n ++ rest) 0 = n % 65536 := by
  simp only [Spec.Tsig.field16, u16be, List.cons_append, List.nil_append, List.getD_cons_zero, List.getD_cons_succ,
    UInt8.toNat_ofNat', Nat.reducePow]
  omega

theorem list6 (l : List UInt8) (h : l.length = 6) : ∃ a b c d e f, l = [a, b, c, d, e, f] := by
  match l, h with
  | [a, b, c, d, e, f], _ => exact ⟨a, b, c, d, e, f, rfl⟩

theorem u8_two (x : Nat) : (UInt8.ofNat (x / 256 % 256)).toNat * 256 + (UInt8.ofNat (x % 256)).toNat = x % 65536 := by
  simp only [UInt8.toNat_ofNat', Nat.reducePow]; omega

theorem parseRdata_build (alg : WName) (halg : alg.WF) (ts : List UInt8) (ht : ts.length = 6)
    (fudge oid err : Nat) (mac other : List UInt8) (hmac : mac.length < 65536) (hol : other.length < 65536) :
    Spec.Tsig.parseRdata (alg.wire ++ ts ++ u16be fudge ++ u16be mac.length ++ mac ++ u16be oid ++ u16be err ++
        u16be other.length ++ other) =
      some ⟨alg.labels, Spec.Tsig.nat48 ts, fudge % 65536, mac, oid % 65536, err % 65536, other⟩ := by
  obtain ⟨a, b, c, d, e, f, rfl⟩ := list6 _ ht
  have e1 : alg.wire ++ [a, b, c, d, e, f] ++ u16be fudge ++ u16be mac.length ++ mac ++ u16be oid ++ u16be err ++
      u16be other.length ++ other =
      alg.wire ++ (a :: b :: c :: d :: e :: f :: UInt8.ofNat (fudge / 256 % 256) :: UInt8.ofNat (fudge % 256) ::
        UInt8.ofNat (mac.length / 256 % 256) :: UInt8.ofNat (mac.length % 256) ::
        (mac ++ (UInt8.ofNat (oid / 256 % 256) :: UInt8.ofNat (oid % 256) :: UInt8.ofNat (err / 256 % 256) ::
          UInt8.ofNat (err % 256) :: UInt8.ofNat (other.length / 256 % 256) :: UInt8.ofNat (other.length % 256) ::
          other))) := by
    simp only [u16be, List.append_assoc, List.cons_append, List.nil_append]
  rw [e1]
  unfold Spec.Tsig.parseRdata
  rw [splitName_wire alg halg]
  simp only
  have hms : Spec.Tsig.field16 (a :: b :: c :: d :: e :: f :: UInt8.ofNat (fudge / 256 % 256) :: UInt8.ofNat (fudge % 256) ::
        UInt8.ofNat (mac.length / 256 % 256) :: UInt8.ofNat (mac.length % 256) ::
        (mac ++ (UInt8.ofNat (oid / 256 % 256) :: UInt8.ofNat (oid % 256) :: UInt8.ofNat (err / 256 % 256) ::
          UInt8.ofNat (err % 256) :: UInt8.ofNat (other.length / 256 % 256) :: UInt8.ofNat (other.length % 256) ::
          other))) 8 = mac.length := by
    simp only [Spec.Tsig.field16, List.getD_cons_succ, List.getD_cons_zero]
    rw [u8_two mac.length]; omega
  have hfu : Spec.Tsig.field16 (a :: b :: c :: d :: e :: f :: UInt8.ofNat (fudge / 256 % 256) :: UInt8.ofNat (fudge % 256) ::
        UInt8.ofNat (mac.length / 256 % 256) :: UInt8.ofNat (mac.length % 256) ::
        (mac ++ (UInt8.ofNat (oid / 256 % 256) :: UInt8.ofNat (oid % 256) :: UInt8.ofNat (err / 256 % 256) ::
          UInt8.ofNat (err % 256) :: UInt8.ofNat (other.length / 256 % 256) :: UInt8.ofNat (other.length % 256) ::
          other))) 6 = fudge % 65536 := by
    simp only [Spec.Tsig.field16, List.getD_cons_succ, List.getD_cons_zero]
    exact u8_two fudge
  rw [hms, hfu]
  simp only [List.length_cons, List.length_append, List.drop_succ_cons, List.drop_zero]
  rw [if_neg (by omega), if_neg (by omega)]
  rw [List.drop_left' rfl, List.take_left' rfl]
  have h4 : Spec.Tsig.field16 (UInt8.ofNat (oid / 256 % 256) :: UInt8.ofNat (oid % 256) :: UInt8.ofNat (err / 256 % 256) ::
          UInt8.ofNat (err % 256) :: UInt8.ofNat (other.length / 256 % 256) :: UInt8.ofNat (other.length % 256) ::
          other) 4 = other.length := by
    simp only [Spec.Tsig.field16, List.getD_cons_succ, List.getD_cons_zero]
    rw [u8_two other.length]; omega
  have h0 : Spec.Tsig.field16 (UInt8.ofNat (oid / 256 % 256) :: UInt8.ofNat (oid % 256) :: UInt8.ofNat (err / 256 % 256) ::
          UInt8.ofNat (err % 256) :: UInt8.ofNat (other.length / 256 % 256) :: UInt8.ofNat (other.length % 256) ::
          other) 0 = oid % 65536 := by
    simp only [Spec.Tsig.field16, List.getD_cons_succ, List.getD_cons_zero]
    exact u8_two oid
  have h2 : Spec.Tsig.field16 (UInt8.ofNat (oid / 256 % 256) :: UInt8.ofNat (oid % 256) :: UInt8.ofNat (err / 256 % 256) ::
          UInt8.ofNat (err % 256) :: UInt8.ofNat (other.length / 256 % 256) :: UInt8.ofNat (other.length % 256) ::
          other) 2 = err % 65536 := by
    simp only [Spec.Tsig.field16, List.getD_cons_succ, List.getD_cons_zero]
    exact u8_two err
  rw [h4, h0, h2]
  simp only [List.drop_succ_cons, List.drop_zero, ne_eq, not_true_eq_false, if_false]
  rfl

/-- **the TSIG RDATA the writer serialises parses back to its fields** (RFC 8945 §4.2 reader of the
    specification on `serialize_tsig_unchecked`'s octets) -/
theorem parseRdata_tsigRdata (rr : TsigRr) (alg : WName) (mac : List UInt8) (halg : alg.WF)
    (ht : rr.timeSigned.length = 6) (hs : rr.serverTime.length = 6) (hmac : mac.length < 65536) :
    Spec.Tsig.parseRdata (tsigRdata rr alg mac) =
      some ⟨alg.labels, Spec.Tsig.nat48 rr.timeSigned, rr.fudge % 65536, mac, rr.originalId % 65536, rr.error % 65536,
        if rr.error = XR_BADTIME then rr.serverTime else []⟩ := by
  unfold tsigRdata
  exact parseRdata_build alg halg rr.timeSigned ht rr.fudge rr.originalId rr.error mac _ hmac (by
    split
    · rw [hs]; omega
    · simp)


/-! ### the decoded TSIG record, field by field -/

theorem finishMac_length (ts : Writer.Tsig) (pre : List UInt8) :
    ((finishMac Server.macFn ts pre).getD []).length < 65536 := by
  have hm := macLenOK_server hmacLenOK ts pre
  unfold finishMac
  cases hmode : ts.mode with
  | unsigned n => simp
  | request a k => simp only [Option.getD_some]; rw [hmode] at hm; simp only at hm; cases a <;> simp only [algOutputSize] at hm <;> omega
  | response a m k => simp only [Option.getD_some]; rw [hmode] at hm; simp only at hm; cases a <;> simp only [algOutputSize] at hm <;> omega
  | subsequent a m k => simp only [Option.getD_some]; rw [hmode] at hm; simp only at hm; cases a <;> simp only [algOutputSize] at hm <;> omega

/-- **a `Good` final writer with a pending TSIG, decoded field by field**: RCODE / AA / TC as the
    header shows; the last additional record is the TSIG record, and the specification's RFC 8945
    §4.2 reader (`Spec.Tsig.parseRdata`) reads from its RDATA exactly the fields of the recorded RR:
    algorithm name, time signed, fudge, the MAC `finish` computed, original ID, error, other data
    (the server time iff the error is BADTIME) -/
theorem tsig_fields_of_good (F : State) (bd : Body) (hG : Good F bd) (ts : Writer.Tsig) (hts : F.tsig = some ts)
    (hwf : (tsigAlgName ts.mode).WF) (l1 : ts.rr.timeSigned.length = 6) (l2 : ts.rr.serverTime.length = 6)
    (v : View) (hh : HdrView F v) (b : Bytes) (mac : Option (List UInt8))
    (hf : Writer.finish F Server.macFn = .ok (b, mac)) (d : DMsg) (hd : specDecodeMsg b = some d) :
    d.rcode = v.rcode % 16 ∧ d.aa = v.aa ∧ d.tc = v.tc ∧
    ∃ rest o, d.ar = rest ++ [o] ∧ o.ty = 250 ∧ o.cls = 255 ∧ o.rawTtl = 0 ∧
      Spec.Tsig.parseRdata o.rdata = some ⟨(tsigAlgName ts.mode).labels, Spec.Tsig.nat48 ts.rr.timeSigned,
        ts.rr.fudge % 65536, mac.getD [], ts.rr.originalId % 65536, ts.rr.error % 65536,
        if ts.rr.error = XR_BADTIME then ts.rr.serverTime else []⟩ := by
  obtain ⟨f2, f3⟩ := finish_flags_tsig F hG.1 ts hts b mac hf
  obtain ⟨g1, g2, g3⟩ := flags_of_hdrView b F v f2 f3 hh d hd
  obtain ⟨rest, o, e1, e2, e3, e4, _, e6, _, _⟩ := tsig_of_good Server.macFn F bd hG ts hts b mac hf d hd
  obtain ⟨_, hmac, _⟩ := finish_octets_tsig Server.macFn F hG.1.inv.hdr ts hts b mac hf
  refine ⟨g1, g2, g3, rest, o, e1, e2, e3, e4, ?_⟩
  rw [e6]
  exact parseRdata_tsigRdata ts.rr (tsigAlgName ts.mode) (mac.getD []) hwf l1 l2 (by rw [hmac]; exact finishMac_length ts _)

open QV.ServerTsig in
/-- what the decision table prescribes for a rejected request: the prepared RR with error BADSIG (16),
    BADKEY (17) or BADTIME (18), RCODE NOTAUTH (9) or FORMERR (1) -/
theorem tsigStopReply_prep {hm : Tsig.Algorithm → Tsig.Octets → Tsig.Octets → Tsig.Octets} {keys : List Server.Key}
    {nowT : Tsig.TimeSigned} {r : Tsig.ReadTsigRr} {msg : List UInt8} {kn an : WName} {rc : Nat} {mode : TsigMode}
    {rr : TsigRr} (h : tsigStopReply hm keys nowT r msg kn an = some (rc, mode, rr)) :
    (rc = 9 ∨ rc = 1) ∧ ∃ e, (e = 16 ∨ e = 17 ∨ e = 18) ∧ rr = prepOf kn r nowT e := by
  unfold tsigStopReply at h
  repeat' split at h
  all_goals first
    | (cases h; done)
    | (simp only [Option.some.injEq, Prod.mk.injEq] at h
       obtain ⟨rfl, _, rfl⟩ := h
       exact ⟨by omega, _, by omega, rfl⟩)


/-! ### the answered, authenticated row: everything the audit needs -/

/-- `signed_answer_state` for a given run -/
theorem signed_answer_state_of_run (cfg : Cfg) (tr : Transport) (now bufLen : Nat) (req : Bytes)
    (hbuf : minBuf tr cfg.payload ≤ bufLen) (hpay : 512 ≤ cfg.payload) (hp16 : cfg.payload ≤ 65535)
    (hr : (Spec.Server.specScanWith (catKind cfg) cfg.payload req).respond = true)
    (t : Tsig.ReadTsigRr) (mw : Bytes) (r' : Reader.Reader) (question : Option (WName × Nat × Nat))
    (hrun : TsigRun cfg tr now bufLen req t mw r' question) :
      ∀ r'' S, Server.tsigAfter cfg now t mw r' (preTsigState cfg tr bufLen req) = (.ok (some r''), S) →
        endVerdict (catKind cfg) req.size (Spec.Server.specScanWith (catKind cfg) cfg.payload req).question
          r'.cursor ((req.getD 2 0).toNat / 8 % 16) = .answer →
      ∀ b, Server.handleMessage cfg tr now bufLen req = .ok (some b) →
        ∃ q qn nowT alg key kn,
          (Spec.Server.specScanWith (catKind cfg) cfg.payload req).question = some q ∧
          WName.parse q.qname = some (qn, []) ∧
          ¬ (251 ≤ q.qtype ∧ q.qtype ≤ 254) ∧ q.qclass ≠ 255 ∧ catKind cfg q.qname q.qclass = some .loaded ∧
          Tsig.TimeSigned.tryFromUnix now = some nowT ∧
          Tsig.Algorithm.fromName t.algorithm = some alg ∧ Server.findKey cfg.keys t.keyName alg = some key ∧
          WName.parse t.keyName = some (kn, []) ∧
          Tsig.verifyRequest Tsig.realHmac t mw.toList alg key.secret nowT = .ok () ∧
          S = ServerTsig.withTsig (stRcode 0 (scanState cfg tr bufLen req (Spec.Server.hdr req 0)
                (((req.getD 2 0).toNat &&& 120) >>> 3) (((req.getD 2 0).toNat &&& 1) != 0) q))
              (.response (Server.toWriterAlg alg) t.mac key.secret) (ServerTsig.prepOf kn t nowT 0) ∧
          Good S (qBody (some q)) ∧ QueryReady S qn ∧ HdrView S {} ∧
          (∀ bb w1, (Server.handleQuery cfg (some (qn, q.qtype, q.qclass)) tr >>= fun _ => (pure true : M Bool)) S = (.ok bb, w1) →
            w1.tsig = some (respTsig alg key kn t nowT) ∧
            w1.edns.map (·.payload) =
              (if (Spec.Server.specScanWith (catKind cfg) cfg.payload req).edns then some cfg.payload else none)) ∧
          (.ok (some b) : Out Unit (Option Bytes)) =
            match (Server.handleQuery cfg (some (qn, q.qtype, q.qclass)) tr >>= fun _ => (pure true : M Bool)) S with
            | (.ok true, w1) =>
              (match Writer.finish w1 Server.macFn with
               | .ok (bytes, _) => .ok (some bytes)
               | _ => .panic)
            | (.ok false, _) => .ok none
            | _ => .panic := by
  obtain ⟨h1, h2, hqrel, h4⟩ := hrun
  intro r'' S hT hev b hb
  rw [hT, hb] at h4
  simp only [afterTsig, hev, if_true] at h4
  obtain ⟨_, _, hsce⟩ := specScanWith_respond _ _ _ hr
  unfold preTsigState at hT
  rw [hsce] at hT hqrel hev ⊢
  obtain ⟨q, hq0, c1, c2, c3⟩ := endVerdict_answer _ _ _ _ _ hev
  obtain ⟨nx, hsq⟩ := specBody_question (catKind cfg) cfg.payload req q hq0
  obtain ⟨p, hp, hpw, _, _, hwl⟩ := specQuestionAt_some req 12 _ _ _ nx hsq
  obtain ⟨qn, hqn, hqw⟩ := wname_of_parse req 12 p hp
  rw [hpw] at hqn hqw
  rw [hq0] at hqrel
  cases question with
  | none => exact absurd hqrel (by simp [QRel])
  | some qq =>
    obtain ⟨qn', qt, qc⟩ := qq
    obtain ⟨hqn', hqt, hqc⟩ := hqrel
    have : qn = qn' := by rw [hqn] at hqn'; cases hqn'; rfl
    subst this
    subst hqt hqc
    obtain ⟨gS, hqrS, hvS, h3S⟩ := scanState_facts cfg tr bufLen req hbuf hpay hp16 (Spec.Server.hdr req 0)
      (((req.getD 2 0).toNat &&& 120) >>> 3) (((req.getD 2 0).toNat &&& 1) != 0) q qn nx hsq hqn hqw hwl
    obtain ⟨_, p2, p3⟩ := specBody_props (catKind cfg) cfg.payload req
    have hq : ∀ x, (specBody (catKind cfg) cfg.payload req).question = some x →
        ∃ nx, Spec.specQuestionAt req 12 = some (x.qname, x.qtype, x.qclass, nx) :=
      fun x hx => specBody_question (catKind cfg) cfg.payload req x hx
    obtain ⟨hbase, hcur, _, _, _, h30, hs3, _, _, _, _, _, hrrs, hsz⟩ :=
      s1_facts bufLen tr cfg.payload (Spec.Server.hdr req 0) (((req.getD 2 0).toNat &&& 120) >>> 3)
        (((req.getD 2 0).toNat &&& 1) != 0) hbuf hpay req (specBody (catKind cfg) cfg.payload req).question hq
    rw [hq0] at hT hbase hs3 hsz h30 hcur hrrs
    unfold Server.tsigAfter at hT
    cases hnow : Tsig.TimeSigned.tryFromUnix now with
    | none => rw [hnow] at hT; cases hT
    | some nowT =>
      rw [hnow] at hT
      simp only at hT
      have h12s : 12 ≤ (scanState cfg tr bufLen req (Spec.Server.hdr req 0)
          (((req.getD 2 0).toNat &&& 120) >>> 3) (((req.getD 2 0).toNat &&& 1) != 0) q).octets.size := by
        show 12 ≤ (arSt _ tr cfg.payload _ _).octets.size
        rw [arSt_size, hsz]; cases tr <;> simp only [minBuf] at hbuf <;> omega
      obtain ⟨alg, key, kn, ha, hk, hkn, hver, _, hfit, hS⟩ :=
        tsigProcess_some_state Tsig.realHmac cfg.keys _ h12s t mw.toList nowT r' r'' S hT
      obtain ⟨hX, _⟩ := sigSt_facts _ tr cfg.payload (specBody (catKind cfg) cfg.payload req).edns
        (specBody (catKind cfg) cfg.payload req).limitUdp 0 0 (by omega) (by omega)
        hbase h30 hs3 p2 p3 (.response (Server.toWriterAlg alg) t.mac key.secret) (ServerTsig.prepOf kn t nowT 0)
      have gB := good_stRcode 0 _ _ gS h3S
      obtain ⟨l1, l2⟩ := prepOf_lengths kn t nowT 0
      have hfit' := (stRcode_fits 0 _ _ _).mpr hfit
      have gC := good_withTsig (.response (Server.toWriterAlg alg) t.mac key.secret) (ServerTsig.prepOf kn t nowT 0) _ _ gB
        hfit' (parse_wf hkn) (algName_wf _) l1 l2
      have hqr := queryReady_withTsig _ qn hqrS (.response (Server.toWriterAlg alg) t.mac key.secret)
        (ServerTsig.prepOf kn t nowT 0) hfit' ⟨parse_wf hkn, algName_wf _, l1, l2⟩
      have hhv := hdrView_withTsig _ h3S hvS (.response (Server.toWriterAlg alg) t.mac key.secret)
        (ServerTsig.prepOf kn t nowT 0)
      have hSrr : S.rrStart = (qSt (hdrSt (w0 bufLen (lim0 tr)) (Spec.Server.hdr req 0)
          (((req.getD 2 0).toNat &&& 120) >>> 3) (((req.getD 2 0).toNat &&& 1) != 0)) (some q)).rrStart := by
        rw [hS]
        show (stRcode 0 (arSt _ tr cfg.payload _ _)).rrStart = _
        have : ∀ x : State, (stRcode 0 x).rrStart = x.rrStart := by
          intro x; unfold stRcode stHdr; cases x.edns <;> rfl
        rw [this]
        cases (specBody (catKind cfg) cfg.payload req).edns <;> cases tr <;> rfl
      have hX' := hX
      rw [← hS] at hX'
      have hfr := framed_bind (k := true) (Server.framed_handleQuery 12 (by omega) cfg (some (qn, q.qtype, q.qclass)) tr)
        (fun _ => framed_pure 12 true) S (by rw [hX'.cur, hcur]; omega) (by rw [hSrr, hrrs]; omega)
      refine ⟨q, qn, nowT, alg, key, kn, hq0, hqn, c1, c2, c3, rfl, ha, hk, hkn, hver, hS, by rw [hS]; exact gC,
        by rw [hS]; exact hqr, by rw [hS]; exact hhv, ?_, h4⟩
      intro bb w1 hres
      rw [hres] at hfr
      obtain ⟨k1, k2⟩ := hfr.keep rfl
      simp only at k1 k2
      refine ⟨by rw [k1, hX'.tsig]; rfl, ?_⟩
      rw [k2, hX'.edns]
      cases (specBody (catKind cfg) cfg.payload req).edns <;> rfl



theorem ednsUp0_stRcode (rc : Nat) (s : State) : EdnsUp0 (stRcode rc s) := by
  intro x hx
  unfold stRcode at hx
  simp only at hx
  cases he : (stHdr 3 (fun b => (b &&& ~~~ (15 : UInt8)) ||| UInt8.ofNat rc) s).edns with
  | none => rw [he] at hx; simp only at hx; rw [he] at hx; cases hx
  | some e0 => rw [he] at hx; simp only [Option.some.injEq] at hx; subst hx; rfl

/-- **the writer handed to `finish` for an authenticated request that a loaded zone answers**, with
    everything the audit of the response needs: `Good` with a body that is — record for record — a view
    `v`; the header shows `v`; `v`'s RCODE is 0, 2 or 3; TC only over UDP and then with empty sections;
    own additional records are address records; the response TSIG is pending; the EDNS slot is set iff
    the scan reached an OPT, with the server's payload size and extended-RCODE octet 0 -/
theorem signed_answer_facts_of_run (cfg : Cfg) (hcfg : CfgWF cfg) (tr : Transport) (now bufLen : Nat) (req : Bytes)
    (hbuf : minBuf tr cfg.payload ≤ bufLen) (hpay : 512 ≤ cfg.payload) (hp16 : cfg.payload ≤ 65535)
    (hr : (Spec.Server.specScanWith (catKind cfg) cfg.payload req).respond = true)
    (t : Tsig.ReadTsigRr) (mw : Bytes) (r' : Reader.Reader) (question : Option (WName × Nat × Nat))
    (hrun : TsigRun cfg tr now bufLen req t mw r' question) :
    ∀ r'' S, Server.tsigAfter cfg now t mw r' (preTsigState cfg tr bufLen req) = (.ok (some r''), S) →
      endVerdict (catKind cfg) req.size (Spec.Server.specScanWith (catKind cfg) cfg.payload req).question
        r'.cursor ((req.getD 2 0).toNat / 8 % 16) = .answer →
    ∀ b, Server.handleMessage cfg tr now bufLen req = .ok (some b) →
      ∃ nowT alg key kn F mac bd v, Tsig.TimeSigned.tryFromUnix now = some nowT ∧
        Tsig.Algorithm.fromName t.algorithm = some alg ∧ Server.findKey cfg.keys t.keyName alg = some key ∧
        WName.parse t.keyName = some (kn, []) ∧
        Tsig.verifyRequest Tsig.realHmac t mw.toList alg key.secret nowT = .ok () ∧
        Writer.finish F Server.macFn = .ok (b, mac) ∧ Good F bd ∧ (∀ r ∈ bd.ar, r.ty = 1 ∨ r.ty = 28) ∧
        BodyView bd v ∧ HdrView F v ∧ (v.rcode = 0 ∨ v.rcode = 2 ∨ v.rcode = 3) ∧
        (v.tc = true → tr = .udp ∧ v.answer = [] ∧ v.authority = [] ∧ v.additional = []) ∧
        F.tsig = some (respTsig alg key kn t nowT) ∧
        F.edns.map (·.payload) =
          (if (Spec.Server.specScanWith (catKind cfg) cfg.payload req).edns then some cfg.payload else none) ∧
        EdnsUp0 F := by
  intro r'' S hT hev b hb
  obtain ⟨q, qn, nowT, alg, key, kn, hq0, hqn, c1, c2, c3, e1, e2, e3, e4, e5, hS, gS, hqrS, hvS, hkeep, h4⟩ :=
    signed_answer_state_of_run cfg tr now bufLen req hbuf hpay hp16 hr t mw r' question hrun r'' S hT hev b hb
  have huS : EdnsUp0 S := by
    rw [hS]
    exact ednsUp0_of_eq (ednsUp0_stRcode 0 _) rfl
  unfold catKind at c3
  rw [hqn] at c3
  simp only at c3
  cases hl : Catalog.lookup (mkCatalog cfg.zones) qn.labels q.qclass with
  | none => rw [hl] at c3; cases c3
  | some e =>
    rw [hl] at c3
    simp only [Option.map_some, Option.some.injEq] at c3
    have hk : e.kind = .Loaded := by
      cases hk : e.kind <;> rw [hk] at c3 <;> first | rfl | cases c3
    obtain ⟨ze, hze, _, _, hsuf⟩ := mkCatalog_lookup cfg.zones qn.labels q.qclass e hl
    obtain ⟨hawf, haeq, hnode⟩ := hcfg.zones ze (List.mem_of_getElem? hze)
    have hz : ZoneOK ze.zone := ⟨by rw [haeq]; exact fold_wf _ hawf, hnode⟩
    have hsub : ze.zone.apex <:+ fold qn := by rw [haeq]; exact hsuf
    have hHQ := handleQuery_loaded cfg tr qn q.qtype q.qclass S c1 c2 e hl hk ze hze
    have hnp := (handleNonAxfrQueryL_safe Writer.writerSafe ze.zone hz qn (parse_wf hqn) q.qtype tr hsub ⟨S, []⟩
      gS.1 hqrS.hint).1
    have hG := good_handleNonAxfrQueryL ze.zone hz qn (parse_wf hqn) q.qtype tr hsub _ _ gS hqrS.hint
    have hH := hdr_handleNonAxfrQueryL ze.zone hz qn (parse_wf hqn) q.qtype tr hsub _ _ gS hqrS.hint hvS
    have hty := bodyOf_handle_ar_types ze.zone qn q.qtype tr S (qBody (some q)) (qBody_norecs _) hnp
    have hBV := bodyOf_view (qBody (some q)) (qBody_norecs _) (handleNonAxfrQueryL ze.zone qn q.qtype tr ⟨S, []⟩).2.log
    obtain ⟨hfl1, hfl2⟩ := view_handle_flags ze.zone qn q.qtype tr S hnp
    obtain ⟨gI, gl, gmb, gc⟩ := gS
    have hU := ednsUp0_handleNonAxfrQueryL ze.zone hz qn (parse_wf hqn) q.qtype tr hsub S gI hqrS.hint gl gmb _ gc huS
    have hst : ((handleQuery cfg (some (qn, q.qtype, q.qclass)) tr >>= fun _ => (pure true : M Bool)) S).2 =
        (handleNonAxfrQueryL ze.zone qn q.qtype tr ⟨S, []⟩).2.w := by
      rw [Writer.bind_apply, hHQ, ← handleNonAxfrQuery_state]
      rcases handleNonAxfrQuery ze.zone qn q.qtype tr _ with ⟨(u | x | _), s'⟩ <;> rfl
    rcases hh : (handleQuery cfg (some (qn, q.qtype, q.qclass)) tr >>= fun _ => (pure true : M Bool)) S
      with ⟨(bb | x | _), w1⟩
    · rw [hh] at h4 hst
      obtain ⟨hts, he⟩ := hkeep bb w1 hh
      simp only at hst
      subst hst
      cases bb with
      | false => simp only at h4; cases h4
      | true =>
        simp only at h4
        rcases hf : Writer.finish _ Server.macFn with ⟨bytes, mac⟩ | x | _
        · rw [hf] at h4
          simp only [Out.ok.injEq, Option.some.injEq] at h4
          subst h4
          exact ⟨nowT, alg, key, kn, _, mac, _, _, e1, e2, e3, e4, e5, hf, hG, hty, hBV, hH, hfl1, hfl2, hts, he, hU⟩
        · rw [hf] at h4; cases h4
        · rw [hf] at h4; cases h4
    · rw [hh] at h4; cases h4
    · rw [hh] at h4; cases h4


theorem all2_snoc_left {α β : Type} {R : α → β → Prop} : ∀ (as : List α) (bs : List β) (b : β),
    All2 R as (bs ++ [b]) → ∃ as' a, as = as' ++ [a] ∧ All2 R as' bs ∧ R a b := by
  intro as
  induction as with
  | nil => intro bs b h; cases bs <;> cases h
  | cons x r ih =>
    intro bs b h
    cases bs with
    | nil =>
      cases h with
      | cons hr t => cases t; exact ⟨[], x, rfl, .nil, hr⟩
    | cons y ys =>
      cases h with
      | cons hr t =>
        obtain ⟨as', a, e, h1, h2⟩ := ih ys b t
        exact ⟨x :: as', a, by rw [e]; rfl, .cons hr h1, h2⟩

/-- **an answer with a TSIG record, decoded**: header and answer / authority sections as the view
    says; the additional section is the view's (address records), then the OPT (iff set, extended-RCODE
    octet 0), then — last — the TSIG record, whose owner is the key name up to case and whose RDATA
    reads back field by field -/
theorem decoded_answer_tsig (F : State) (bd : Body) (v : View) (hG : Good F bd)
    (hty : ∀ r ∈ bd.ar, r.ty = 1 ∨ r.ty = 28) (hbv : BodyView bd v) (hh : HdrView F v)
    (ts : Writer.Tsig) (hts : F.tsig = some ts) (hwf : (tsigAlgName ts.mode).WF)
    (l1 : ts.rr.timeSigned.length = 6) (l2 : ts.rr.serverTime.length = 6) (hup : EdnsUp0 F)
    (b : Bytes) (mac : Option (List UInt8)) (hf : Writer.finish F Server.macFn = .ok (b, mac))
    (d : DMsg) (hd : specDecodeMsg b = some d) :
    d.rcode = v.rcode % 16 ∧ d.aa = v.aa ∧ d.tc = v.tc ∧
    All2 RRMatch v.answer d.an ∧ All2 RRMatch v.authority d.ns ∧
    (∀ x ∈ d.ar, x.ty = 41 → x.rawTtl / 16777216 = 0) ∧
    ∃ ar' opt o, d.ar = ar' ++ opt ++ [o] ∧ All2 RRMatch v.additional ar' ∧
      (∀ x ∈ ar', x.ty = 1 ∨ x.ty = 28) ∧ (∀ x ∈ opt, x.ty = 41) ∧
      o.ty = 250 ∧ o.cls = 255 ∧ o.rawTtl = 0 ∧
      o.owner.map lowerU8 = ts.rr.keyName.wire.map lowerU8 ∧
      Spec.Tsig.parseRdata o.rdata = some ⟨(tsigAlgName ts.mode).labels, Spec.Tsig.nat48 ts.rr.timeSigned,
        ts.rr.fudge % 65536, mac.getD [], ts.rr.originalId % 65536, ts.rr.error % 65536,
        if ts.rr.error = XR_BADTIME then ts.rr.serverTime else []⟩ := by
  obtain ⟨g1, g2, g3, rest, o, q1, q2, q3, q4, q5⟩ := tsig_fields_of_good F _ hG ts hts hwf l1 l2 v hh b mac hf d hd
  obtain ⟨rest', o', q1', _, _, _, q6, _, _, _⟩ := tsig_of_good Server.macFn F _ hG ts hts b mac hf d hd
  rw [q1] at q1'
  obtain ⟨er, eo⟩ := List.append_inj' q1' rfl
  simp only [List.cons.injEq, and_true] at eo
  subst er; subst eo
  obtain ⟨_, c2, _, _⟩ := opt_of_good Server.macFn F _ hG hty b mac hf d hd
  obtain ⟨hI, hlim, mb, hL⟩ := hG
  have hsz : b.size ≤ 65535 := Nat.le_trans (finish_size_le_limit Server.macFn F hI.inv b mac hf) hlim
  obtain ⟨d', qs, ian, ins, iar, hd', _, e2, e3, e4, _, m2, m3, m4, _, _⟩ :=
    finish_decodes_content Server.macFn F bd mb hI hL b mac hf hsz
  rw [hd] at hd'
  cases hd'
  obtain ⟨v1, v2, v3⟩ := hbv
  rw [q1] at m4
  obtain ⟨iar', it, rfl, m4', _⟩ := all2_snoc_left _ _ _ m4
  rw [hts] at e4
  simp only [tsigRecs, List.map_append, List.map_cons, List.map_nil] at e4
  have e4' : iar'.map (·.r) = bd.ar ++ optRecs' F.edns := (List.append_inj' e4 rfl).1
  obtain ⟨t1, t2⟩ := map_take_eq (·.r) iar' bd.ar (optRecs' F.edns) e4'
  have hsplit : iar' = iar'.take bd.ar.length ++ iar'.drop bd.ar.length := (List.take_append_drop _ _).symm
  rw [hsplit] at m4'
  obtain ⟨d1, d2, hd12, a1, a2⟩ := all2_append_left _ _ _ m4'
  have hm1 : (iar'.take bd.ar.length).map (fun it => recRR it.r) = v.additional.map clampTtl := by
    have : (iar'.take bd.ar.length).map (fun it => recRR it.r) = ((iar'.take bd.ar.length).map (·.r)).map recRR := by
      rw [List.map_map]; rfl
    rw [this, t1, v3]
  refine ⟨g1, g2, g3, all2_rrmatch ian _ _ (by rw [← v1, ← e2, List.map_map]; rfl) m2,
    all2_rrmatch ins _ _ (by rw [← v2, ← e3, List.map_map]; rfl) m3, ?_, d1, d2, o, by rw [q1, hd12],
    all2_rrmatch _ _ _ hm1 a1, ?_, ?_, q2, q3, q4, q6, q5⟩
  · intro x hx hty41
    obtain ⟨ee, hee, _, _, hr⟩ := c2 x hx hty41
    rw [hr, hup ee hee]
  · intro x hx
    obtain ⟨it', hit, hm⟩ := all2_mem_right a1 x hx
    have : it'.r ∈ bd.ar := by rw [← t1]; exact List.mem_map.mpr ⟨it', hit, rfl⟩
    rw [hm.2.2.1]
    rcases hty _ this with h | h <;> rw [h] <;> simp
  · intro x hx
    obtain ⟨it', hit, hm⟩ := all2_mem_right a2 x hx
    have : it'.r ∈ optRecs' F.edns := by rw [← t2]; exact List.mem_map.mpr ⟨it', hit, rfl⟩
    cases hed : F.edns with
    | none => rw [hed] at this; simp [optRecs'] at this
    | some e =>
      rw [hed] at this
      simp only [optRecs', List.mem_singleton] at this
      rw [hm.2.2.1, this]
      show Writer.T_OPT % 65536 = 41
      rw [T_OPT_eq]


end QV.ServerContent
