/-
  QV.Proofs.ServerSignedTable — the final writers of all kinds of responses to a request whose scan
  reaches a TSIG record, stated for one and the same TSIG record `t`, message-without-TSIG `mw` and
  reader `r'` (`TsigRun`), so that the rows of the TSIG decision table can be listed in one theorem
  (Properties/C10.lean, `C10_decoded_table`).  The proofs are those of `signed_nodata_final`,
  `signed_error_final` (Proofs/ServerSignedDecode.lean), `signed_answer_final`
  (Proofs/ServerAnswerDecode.lean) and `signed_nofit_final` (Proofs/ServerSignedNoFit.lean), with the
  equation of `handleMessage_tsig_eq` as a hypothesis instead of an existential.
-/
import QV.Proofs.ServerSignedNoFit

namespace QV.ServerContent
open QV QV.Wire QV.Reader QV.Writer QV.Server QV.ServerSafety QV.ServerScan QV.ServerAnswer QV.Spec.Resolve QV.Spec QV.ServerTsig

/-- `t`, `mw`, `r'`, `question` are the TSIG record, the message without it, the reader after it and
    the question of `handle_message`'s scan of `req` -/
def TsigRun (cfg : Cfg) (tr : Transport) (now bufLen : Nat) (req : Bytes) (t : Tsig.ReadTsigRr) (mw : Bytes)
    (r' : Reader.Reader) (question : Option (WName × Nat × Nat)) : Prop :=
  r'.octets = req ∧ r'.cursor ≤ req.size ∧
  QRel (Spec.Server.specScanWith (catKind cfg) cfg.payload req).question question ∧
  Server.handleMessage cfg tr now bufLen req =
    match afterTsig cfg tr req (Spec.Server.specScanWith (catKind cfg) cfg.payload req).question question
        ((req.getD 2 0).toNat / 8 % 16) r'.cursor
        (Server.tsigAfter cfg now t mw r' (preTsigState cfg tr bufLen req)) with
    | (.ok true, w1) =>
      (match Writer.finish w1 Server.macFn with
       | .ok (bytes, _) => .ok (some bytes)
       | _ => .panic)
    | (.ok false, _) => .ok none
    | _ => .panic

theorem tsigRun_exists (cfg : Cfg) (tr : Transport) (now bufLen : Nat) (req : Bytes)
    (hbuf : minBuf tr cfg.payload ≤ bufLen) (hpay : 512 ≤ cfg.payload) (hreq : req.size ≤ Rdata.USIZE_MAX)
    (hr : (Spec.Server.specScanWith (catKind cfg) cfg.payload req).respond = true)
    (hv : (Spec.Server.specScanWith (catKind cfg) cfg.payload req).verdict = .tsigReached) :
    ∃ t mw r' question, TsigRun cfg tr now bufLen req t mw r' question := by
  obtain ⟨t, mw, r', question, h1, h2, h3, h4⟩ := handleMessage_tsig_eq cfg tr now bufLen req hbuf hpay hreq hr hv
  exact ⟨t, mw, r', question, h1, h2, h3, h4⟩

/-- authenticated, no-data verdict (`signed_nodata_final`) -/
theorem signed_nodata_final_of_run (cfg : Cfg) (tr : Transport) (now bufLen : Nat) (req : Bytes)
    (hbuf : minBuf tr cfg.payload ≤ bufLen) (hpay : 512 ≤ cfg.payload) (hp16 : cfg.payload ≤ 65535)
    (hr : (Spec.Server.specScanWith (catKind cfg) cfg.payload req).respond = true)
    (t : Tsig.ReadTsigRr) (mw : Bytes) (r' : Reader.Reader) (question : Option (WName × Nat × Nat))
    (hrun : TsigRun cfg tr now bufLen req t mw r' question) :
      ∀ r'' S, Server.tsigAfter cfg now t mw r' (preTsigState cfg tr bufLen req) = (.ok (some r''), S) →
      ∀ v, (v = Spec.Server.Verdict.formErr ∨ v = .notImp ∨ v = .refused ∨ v = .servFailZone) →
        endVerdict (catKind cfg) req.size (Spec.Server.specScanWith (catKind cfg) cfg.payload req).question
          r'.cursor ((req.getD 2 0).toNat / 8 % 16) = v →
      ∀ b, Server.handleMessage cfg tr now bufLen req = .ok (some b) →
        ∃ nowT alg key kn F mac, Tsig.TimeSigned.tryFromUnix now = some nowT ∧
          Tsig.Algorithm.fromName t.algorithm = some alg ∧ Server.findKey cfg.keys t.keyName alg = some key ∧
          WName.parse t.keyName = some (kn, []) ∧
          Tsig.verifyRequest Tsig.realHmac t mw.toList alg key.secret nowT = .ok () ∧
          Writer.finish F Server.macFn = .ok (b, mac) ∧
          Good F (qBody (Spec.Server.specScanWith (catKind cfg) cfg.payload req).question) ∧
          F.tsig = some (respTsig alg key kn t nowT) ∧
          F.edns = (if (Spec.Server.specScanWith (catKind cfg) cfg.payload req).edns then some ⟨cfg.payload, 0⟩ else none) ∧
          mac = some (Server.macFn (respTsig alg key kn t nowT)
            (signedPrefix req cfg.payload (Spec.Server.specScanWith (catKind cfg) cfg.payload req)
              (Spec.Server.verdictRcode v).1)) := by
  obtain ⟨h1, h2, _, h4⟩ := hrun
  intro r'' S hT v hvv hev b hb
  have hne : endVerdict (catKind cfg) req.size (Spec.Server.specScanWith (catKind cfg) cfg.payload req).question
      r'.cursor ((req.getD 2 0).toNat / 8 % 16) ≠ .answer := by
    rw [hev]; rcases hvv with rfl | rfl | rfl | rfl <;> simp
  have hM : Server.handleMessage cfg tr now bufLen req =
      match Writer.finish (endState (endVerdict (catKind cfg) req.size
          (Spec.Server.specScanWith (catKind cfg) cfg.payload req).question r'.cursor
          ((req.getD 2 0).toNat / 8 % 16)) S) Server.macFn with
      | .ok (bytes, _) => .ok (some bytes)
      | _ => .panic := by
    rw [h4, hT]
    simp only [afterTsig, if_neg hne]
  rw [hev, hb] at hM
  obtain ⟨_, _, hsce⟩ := specScanWith_respond _ _ _ hr
  unfold preTsigState at hT
  rw [hsce] at hT ⊢
  generalize hsc : specBody (catKind cfg) cfg.payload req = sc at *
  obtain ⟨_, p2, p3⟩ := specBody_props (catKind cfg) cfg.payload req
  rw [hsc] at p2 p3
  have hq : ∀ x, sc.question = some x → ∃ nx, Spec.specQuestionAt req 12 = some (x.qname, x.qtype, x.qclass, nx) :=
    fun x hx => specBody_question (catKind cfg) cfg.payload req x (by rw [hsc]; exact hx)
  obtain ⟨hbase, hcur, o0, o1, o2, h30, hs3, hQ, hqd, han, hns, har, _, hsz⟩ :=
    s1_facts bufLen tr cfg.payload (Spec.Server.hdr req 0) (((req.getD 2 0).toNat &&& 120) >>> 3)
      (((req.getD 2 0).toNat &&& 1) != 0) hbuf hpay req sc.question hq
  have g1 := good_s1 bufLen tr cfg.payload (Spec.Server.hdr req 0) (((req.getD 2 0).toNat &&& 120) >>> 3)
      (((req.getD 2 0).toNat &&& 1) != 0) hbuf hpay req sc.question hq
  generalize qSt (hdrSt (w0 bufLen (lim0 tr)) (Spec.Server.hdr req 0) (((req.getD 2 0).toNat &&& 120) >>> 3)
      (((req.getD 2 0).toNat &&& 1) != 0)) sc.question = s1 at *
  unfold Server.tsigAfter at hT
  cases hnow : Tsig.TimeSigned.tryFromUnix now with
  | none => rw [hnow] at hT; cases hT
  | some nowT =>
    rw [hnow] at hT
    simp only at hT
    have h3s : 3 < (arSt s1 tr cfg.payload sc.edns sc.limitUdp).octets.size := by rw [arSt_size]; exact hs3
    have h12s : 12 ≤ (arSt s1 tr cfg.payload sc.edns sc.limitUdp).octets.size := by
      rw [arSt_size, hsz]; cases tr <;> simp only [minBuf] at hbuf <;> omega
    obtain ⟨alg, key, kn, ha, hk, hkn, hver, _, hfit, hS⟩ :=
      tsigProcess_some_state Tsig.realHmac cfg.keys _ h12s t mw.toList nowT r' r'' S hT
    have hrc : (Spec.Server.verdictRcode v).1 < 16 := by
      rcases hvv with rfl | rfl | rfl | rfl <;> decide
    obtain ⟨_, hF⟩ := sigSt_facts s1 tr cfg.payload sc.edns sc.limitUdp 0 (Spec.Server.verdictRcode v).1 (by omega) hrc
      hbase h30 hs3 p2 p3 (.response (Server.toWriterAlg alg) t.mac key.secret) (ServerTsig.prepOf kn t nowT 0)
    have hES : endState v S = stRcode (Spec.Server.verdictRcode v).1 S := by
      rcases hvv with rfl | rfl | rfl | rfl <;> rfl
    rw [hES, hS] at hM
    -- the final writer is `Good`
    have gA := good_arSt s1 tr cfg.payload sc.edns sc.limitUdp _ g1 hbase p2 p3 hp16
    have gB := good_stRcode 0 _ _ gA h3s
    obtain ⟨l1, l2⟩ := prepOf_lengths kn t nowT 0
    have gC := good_withTsig (.response (Server.toWriterAlg alg) t.mac key.secret) (ServerTsig.prepOf kn t nowT 0) _ _ gB
      ((stRcode_fits 0 _ _ _).mpr hfit) (parse_wf hkn) (algName_wf _) l1 l2
    have h3c : 3 < (ServerTsig.withTsig (stRcode 0 (arSt s1 tr cfg.payload sc.edns sc.limitUdp))
        (.response (Server.toWriterAlg alg) t.mac key.secret) (ServerTsig.prepOf kn t nowT 0)).octets.size := by
      show 3 < (stRcode 0 _).octets.size
      have : ∀ x : State, (stRcode 0 x).octets.size = x.octets.size := by
        intro x; unfold stRcode stHdr; cases x.edns <;> simp
      rw [this]; exact h3s
    have gD := good_stRcode (Spec.Server.verdictRcode v).1 _ _ gC h3c
    rcases hfin : Writer.finish (stRcode (Spec.Server.verdictRcode v).1
        (ServerTsig.withTsig (stRcode 0 (arSt s1 tr cfg.payload sc.edns sc.limitUdp))
          (.response (Server.toWriterAlg alg) t.mac key.secret) (ServerTsig.prepOf kn t nowT 0))) Server.macFn
      with ⟨bytes, mac⟩ | e | _
    · rw [hfin] at hM
      simp only [Out.ok.injEq, Option.some.injEq] at hM
      subst hM
      obtain ⟨hmac, _⟩ := signed_response_list Server.macFn req cfg.payload sc
        (Spec.Server.verdictRcode v).1 s1 _ (respTsig alg key kn t nowT) hcur o0 o1 o2 hQ hqd han hns har
        hF.oct hF.o3 hF.cur hF.tsig hF.edns hF.qd hF.an hF.ns hF.ar b mac hfin
      exact ⟨nowT, alg, key, kn, _, mac, rfl, ha, hk, hkn, hver, hfin, gD, hF.tsig, hF.edns, by rw [hmac]; rfl⟩
    · rw [hfin] at hM; cases hM
    · rw [hfin] at hM; cases hM

/-- rejected, reply TSIG fits (`signed_error_final`) -/
theorem signed_error_final_of_run (cfg : Cfg) (tr : Transport) (now bufLen : Nat) (req : Bytes)
    (hbuf : minBuf tr cfg.payload ≤ bufLen) (hpay : 512 ≤ cfg.payload) (hp16 : cfg.payload ≤ 65535)
    (hr : (Spec.Server.specScanWith (catKind cfg) cfg.payload req).respond = true)
    (t : Tsig.ReadTsigRr) (mw : Bytes) (r' : Reader.Reader) (question : Option (WName × Nat × Nat))
    (hrun : TsigRun cfg tr now bufLen req t mw r' question) :
      ∀ nowT kn an rc mode rr, Tsig.TimeSigned.tryFromUnix now = some nowT →
        WName.parse t.keyName = some (kn, []) → WName.parse t.algorithm = some (an, []) →
        tsigStopReply Tsig.realHmac cfg.keys nowT t mw.toList kn an = some (rc, mode, rr) →
        ServerTsig.TsigFits (preTsigState cfg tr bufLen req) mode rr →
        ∀ b, Server.handleMessage cfg tr now bufLen req = .ok (some b) →
          ∃ F mac, Writer.finish F Server.macFn = .ok (b, mac) ∧
            Good F (qBody (Spec.Server.specScanWith (catKind cfg) cfg.payload req).question) ∧
            F.tsig = some ⟨mode, ServerTsig.reservedLen mode rr, rr⟩ ∧
            F.edns = (if (Spec.Server.specScanWith (catKind cfg) cfg.payload req).edns then some ⟨cfg.payload, 0⟩ else none) ∧
            mac = finishMac Server.macFn ⟨mode, ServerTsig.reservedLen mode rr, rr⟩
              (signedPrefix req cfg.payload (Spec.Server.specScanWith (catKind cfg) cfg.payload req) rc) := by
  obtain ⟨h1, h2, _, h4⟩ := hrun
  intro nowT kn an rc mode rr hnow hkn han hrep hfit b hb
  obtain ⟨_, _, hsce⟩ := specScanWith_respond _ _ _ hr
  unfold preTsigState at hfit h4
  rw [hsce] at hfit h4 ⊢
  generalize hsc : specBody (catKind cfg) cfg.payload req = sc at *
  obtain ⟨_, p2, p3⟩ := specBody_props (catKind cfg) cfg.payload req
  rw [hsc] at p2 p3
  have hq : ∀ x, sc.question = some x → ∃ nx, Spec.specQuestionAt req 12 = some (x.qname, x.qtype, x.qclass, nx) :=
    fun x hx => specBody_question (catKind cfg) cfg.payload req x (by rw [hsc]; exact hx)
  obtain ⟨hbase, hcur, o0, o1, o2, h30, hs3, hQ, hqd, han', hns, har, _, hsz⟩ :=
    s1_facts bufLen tr cfg.payload (Spec.Server.hdr req 0) (((req.getD 2 0).toNat &&& 120) >>> 3)
      (((req.getD 2 0).toNat &&& 1) != 0) hbuf hpay req sc.question hq
  have g1 := good_s1 bufLen tr cfg.payload (Spec.Server.hdr req 0) (((req.getD 2 0).toNat &&& 120) >>> 3)
      (((req.getD 2 0).toNat &&& 1) != 0) hbuf hpay req sc.question hq
  generalize qSt (hdrSt (w0 bufLen (lim0 tr)) (Spec.Server.hdr req 0) (((req.getD 2 0).toNat &&& 120) >>> 3)
      (((req.getD 2 0).toNat &&& 1) != 0)) sc.question = s1 at *
  have h3s : 3 < (arSt s1 tr cfg.payload sc.edns sc.limitUdp).octets.size := by rw [arSt_size]; exact hs3
  have hT : Server.tsigAfter cfg now t mw r' (arSt s1 tr cfg.payload sc.edns sc.limitUdp) =
      (.ok none, ServerTsig.withTsig (stRcode rc (arSt s1 tr cfg.payload sc.edns sc.limitUdp)) mode rr) := by
    unfold Server.tsigAfter
    rw [hnow]
    exact tsigProcess_stop_state Tsig.realHmac cfg.keys _ h3s t mw.toList nowT r' kn an hkn han rc mode rr hrep hfit
  rw [hT, hb] at h4
  simp only [afterTsig] at h4
  have hrc : rc < 16 := by rcases tsigStopReply_rc hrep with rfl | rfl <;> omega
  obtain ⟨hF, _⟩ := sigSt_facts s1 tr cfg.payload sc.edns sc.limitUdp rc 0 hrc (by omega) hbase h30 hs3 p2 p3 mode rr
  obtain ⟨w1, w2, w3, w4⟩ := tsigStopReply_facts hrep (parse_wf han)
  have gA := good_arSt s1 tr cfg.payload sc.edns sc.limitUdp _ g1 hbase p2 p3 hp16
  have gB := good_stRcode rc _ _ gA h3s
  have gC := good_withTsig mode rr _ _ gB ((stRcode_fits rc _ _ _).mpr hfit) (by rw [w2]; exact parse_wf hkn) w1 w3 w4
  rcases hfin : Writer.finish (ServerTsig.withTsig (stRcode rc (arSt s1 tr cfg.payload sc.edns sc.limitUdp)) mode rr)
      Server.macFn with ⟨bytes, mac⟩ | e | _
  · rw [hfin] at h4
    simp only [Out.ok.injEq, Option.some.injEq] at h4
    subst h4
    obtain ⟨hmac, _⟩ := signed_response_list Server.macFn req cfg.payload sc rc s1 _
      ⟨mode, ServerTsig.reservedLen mode rr, rr⟩ hcur o0 o1 o2 hQ hqd han' hns har
      hF.oct hF.o3 hF.cur hF.tsig hF.edns hF.qd hF.an hF.ns hF.ar b mac hfin
    exact ⟨_, mac, hfin, gC, hF.tsig, hF.edns, hmac⟩
  · rw [hfin] at h4; cases h4
  · rw [hfin] at h4; cases h4

/-- authenticated, answered by a loaded zone (`signed_answer_final`) -/
theorem signed_answer_final_of_run (cfg : Cfg) (hcfg : CfgWF cfg) (tr : Transport) (now bufLen : Nat) (req : Bytes)
    (hbuf : minBuf tr cfg.payload ≤ bufLen) (hpay : 512 ≤ cfg.payload) (hp16 : cfg.payload ≤ 65535)
    (hr : (Spec.Server.specScanWith (catKind cfg) cfg.payload req).respond = true)
    (t : Tsig.ReadTsigRr) (mw : Bytes) (r' : Reader.Reader) (question : Option (WName × Nat × Nat))
    (hrun : TsigRun cfg tr now bufLen req t mw r' question) :
      ∀ r'' S, Server.tsigAfter cfg now t mw r' (preTsigState cfg tr bufLen req) = (.ok (some r''), S) →
        endVerdict (catKind cfg) req.size (Spec.Server.specScanWith (catKind cfg) cfg.payload req).question
          r'.cursor ((req.getD 2 0).toNat / 8 % 16) = .answer →
      ∀ b, Server.handleMessage cfg tr now bufLen req = .ok (some b) →
        ∃ nowT alg key kn F mac bd, Tsig.TimeSigned.tryFromUnix now = some nowT ∧
          Tsig.Algorithm.fromName t.algorithm = some alg ∧ Server.findKey cfg.keys t.keyName alg = some key ∧
          WName.parse t.keyName = some (kn, []) ∧
          Tsig.verifyRequest Tsig.realHmac t mw.toList alg key.secret nowT = .ok () ∧
          Writer.finish F Server.macFn = .ok (b, mac) ∧ Good F bd ∧
          bd.qs = (qBody (Spec.Server.specScanWith (catKind cfg) cfg.payload req).question).qs ∧
          (∀ r ∈ bd.ar, r.ty = 1 ∨ r.ty = 28) ∧
          F.tsig = some (respTsig alg key kn t nowT) ∧
          F.edns.map (·.payload) =
            (if (Spec.Server.specScanWith (catKind cfg) cfg.payload req).edns then some cfg.payload else none) := by
  obtain ⟨h1, h2, hqrel, h4⟩ := hrun
  intro r'' S hT hev b hb
  rw [hT, hb] at h4
  simp only [afterTsig, hev, if_true] at h4
  obtain ⟨_, _, hsce⟩ := specScanWith_respond _ _ _ hr
  unfold preTsigState at hT
  rw [hsce] at hT hqrel hev ⊢
  -- the question
  cases hq0 : (specBody (catKind cfg) cfg.payload req).question with
  | none =>
    exfalso
    rw [hq0] at hev
    unfold endVerdict at hev
    split at hev
    · cases hev
    · split at hev <;> cases hev
  | some q =>
    obtain ⟨nx, hsq⟩ := specBody_question (catKind cfg) cfg.payload req q hq0
    obtain ⟨p, hp, hpw, _, _, hwl⟩ := specQuestionAt_some req 12 _ _ _ nx hsq
    obtain ⟨qn, hqn, hqw⟩ := wname_of_parse req 12 p hp
    rw [hpw] at hqn hqw
    rw [hq0] at hqrel
    cases question with
    | none => exact absurd hqrel (by simp [QRel])
    | some qq =>
      obtain ⟨qn', qt, qc⟩ := qq
      obtain ⟨hqn', hqt, hqc⟩ := hqrel
      have : qn = qn' := by rw [hqn] at hqn'; cases hqn'; rfl
      subst this
      obtain ⟨_, p2, p3⟩ := specBody_props (catKind cfg) cfg.payload req
      have hq : ∀ x, (specBody (catKind cfg) cfg.payload req).question = some x →
          ∃ nx, Spec.specQuestionAt req 12 = some (x.qname, x.qtype, x.qclass, nx) :=
        fun x hx => specBody_question (catKind cfg) cfg.payload req x hx
      obtain ⟨hbase, hcur, _, _, _, h30, hs3, _, _, _, _, _, hrrs, hsz⟩ :=
        s1_facts bufLen tr cfg.payload (Spec.Server.hdr req 0) (((req.getD 2 0).toNat &&& 120) >>> 3)
          (((req.getD 2 0).toNat &&& 1) != 0) hbuf hpay req (specBody (catKind cfg) cfg.payload req).question hq
      have g1 := good_s1 bufLen tr cfg.payload (Spec.Server.hdr req 0) (((req.getD 2 0).toNat &&& 120) >>> 3)
          (((req.getD 2 0).toNat &&& 1) != 0) hbuf hpay req (specBody (catKind cfg) cfg.payload req).question hq
      rw [hq0] at hT g1 hbase hs3 hsz h30 hcur hrrs
      generalize hsce' : (specBody (catKind cfg) cfg.payload req).edns = e at *
      generalize hscl' : (specBody (catKind cfg) cfg.payload req).limitUdp = l at *
      unfold Server.tsigAfter at hT
      cases hnow : Tsig.TimeSigned.tryFromUnix now with
      | none => rw [hnow] at hT; cases hT
      | some nowT =>
        rw [hnow] at hT
        simp only at hT
        have h3s : 3 < (arSt (qSt (hdrSt (w0 bufLen (lim0 tr)) (Spec.Server.hdr req 0)
            (((req.getD 2 0).toNat &&& 120) >>> 3) (((req.getD 2 0).toNat &&& 1) != 0)) (some q)) tr cfg.payload e l).octets.size := by
          rw [arSt_size]; exact hs3
        have h12s : 12 ≤ (arSt (qSt (hdrSt (w0 bufLen (lim0 tr)) (Spec.Server.hdr req 0)
            (((req.getD 2 0).toNat &&& 120) >>> 3) (((req.getD 2 0).toNat &&& 1) != 0)) (some q)) tr cfg.payload e l).octets.size := by
          rw [arSt_size, hsz]; cases tr <;> simp only [minBuf] at hbuf <;> omega
        obtain ⟨alg, key, kn, ha, hk, hkn, hver, _, hfit, hS⟩ :=
          tsigProcess_some_state Tsig.realHmac cfg.keys _ h12s t mw.toList nowT r' r'' S hT
        obtain ⟨hX, _⟩ := sigSt_facts _ tr cfg.payload e l 0 0 (by omega) (by omega)
          hbase h30 hs3 p2 p3 (.response (Server.toWriterAlg alg) t.mac key.secret) (ServerTsig.prepOf kn t nowT 0)
        rw [← hS] at hX
        -- the state handed to `handle_query` is `Good` and `QueryReady`
        have gA := good_arSt _ tr cfg.payload e l _ g1 hbase p2 p3 hp16
        have gB := good_stRcode 0 _ _ gA h3s
        obtain ⟨l1, l2⟩ := prepOf_lengths kn t nowT 0
        have hfit' := (stRcode_fits 0 _ _ _).mpr hfit
        have gC := good_withTsig (.response (Server.toWriterAlg alg) t.mac key.secret) (ServerTsig.prepOf kn t nowT 0) _ _ gB
          hfit' (parse_wf hkn) (algName_wf _) l1 l2
        have hqr := queryReady_signed_state bufLen tr cfg.payload (Spec.Server.hdr req 0)
          (((req.getD 2 0).toNat &&& 120) >>> 3) (((req.getD 2 0).toNat &&& 1) != 0) hbuf hpay hp16 q qn hqn hqw hwl
          (parse_wf hqn) e l p2 p3 alg t.mac key.secret t kn nowT hkn hfit'
        rw [← hS] at gC hqr
        have h3c : 3 < S.octets.size := by
          rw [hS]
          show 3 < (stRcode 0 _).octets.size
          have : ∀ x : State, (stRcode 0 x).octets.size = x.octets.size := by
            intro x; unfold stRcode stHdr; cases x.edns <;> simp
          rw [this]; exact h3s
        have hSrr : S.rrStart = (qSt (hdrSt (w0 bufLen (lim0 tr)) (Spec.Server.hdr req 0)
            (((req.getD 2 0).toNat &&& 120) >>> 3) (((req.getD 2 0).toNat &&& 1) != 0)) (some q)).rrStart := by
          rw [hS]
          show (stRcode 0 (arSt _ tr cfg.payload e l)).rrStart = _
          have : ∀ x : State, (stRcode 0 x).rrStart = x.rrStart := by
            intro x; unfold stRcode stHdr; cases x.edns <;> rfl
          rw [this]
          cases e <;> cases tr <;> rfl
        -- the answering phase keeps the TSIG slot and the EDNS payload
        have hfr := framed_bind (k := true) (Server.framed_handleQuery 12 (by omega) cfg (some (qn, qt, qc)) tr)
          (fun _ => framed_pure 12 true) S (by rw [hX.cur, hcur]; omega) (by rw [hSrr, hrrs]; omega)
        obtain ⟨k1, k2⟩ := hfr.keep rfl
        obtain ⟨bd, hgd, hqs, hty⟩ := good_handleQuery cfg hcfg tr qn qt qc S _ gC (qBody_norecs _) (parse_wf hqn)
          hqr.hint h3c
        have hgd' : Good ((Server.handleQuery cfg (some (qn, qt, qc)) tr >>= fun _ => (pure true : M Bool)) S).2 bd := by
          rw [bind_apply]
          generalize Server.handleQuery cfg (some (qn, qt, qc)) tr S = res at hgd
          obtain ⟨o, s'⟩ := res
          cases o <;> exact hgd
        rcases hq : (Server.handleQuery cfg (some (qn, qt, qc)) tr >>= fun _ => (pure true : M Bool)) S with ⟨(bb | e | _), w1⟩
        · rw [hq] at h4 k1 k2 hgd'
          simp only at k1 k2 hgd'
          cases bb with
          | false => simp only at h4; cases h4
          | true =>
            simp only at h4
            rcases hfin : Writer.finish w1 Server.macFn with ⟨bytes, mac⟩ | e | _
            · rw [hfin] at h4
              simp only [Out.ok.injEq, Option.some.injEq] at h4
              subst h4
              refine ⟨nowT, alg, key, kn, w1, mac, bd, rfl, ha, hk, hkn, hver, hfin, hgd', hqs, hty, ?_, ?_⟩
              · rw [k1, hX.tsig]; rfl
              · rw [k2, hX.edns]; cases e <;> rfl
            · rw [hfin] at h4; cases h4
            · rw [hfin] at h4; cases h4
        · rw [hq] at h4; cases h4
        · rw [hq] at h4; cases h4

/-- reply TSIG does not fit (`signed_nofit_final`) -/
theorem signed_nofit_final_of_run (cfg : Cfg) (tr : Transport) (now bufLen : Nat) (req : Bytes)
    (hbuf : minBuf tr cfg.payload ≤ bufLen) (hpay : 512 ≤ cfg.payload) (hp16 : cfg.payload ≤ 65535)
    (hr : (Spec.Server.specScanWith (catKind cfg) cfg.payload req).respond = true)
    (t : Tsig.ReadTsigRr) (mw : Bytes) (r' : Reader.Reader) (question : Option (WName × Nat × Nat))
    (hrun : TsigRun cfg tr now bufLen req t mw r' question) :
      ∀ nowT kn, Tsig.TimeSigned.tryFromUnix now = some nowT → WName.parse t.keyName = some (kn, []) →
        NoFit cfg nowT t mw kn (preTsigState cfg tr bufLen req) →
        ∀ b, Server.handleMessage cfg tr now bufLen req = .ok (some b) →
          ∃ F mac, Writer.finish F Server.macFn = .ok (b, mac) ∧
            Good F (qBody (Spec.Server.specScanWith (catKind cfg) cfg.payload req).question) ∧
            F.tsig = none ∧
            F.edns.map (·.payload) =
              (if (Spec.Server.specScanWith (catKind cfg) cfg.payload req).edns then some cfg.payload else none) ∧
            HdrView F { tc := true } := by
  obtain ⟨h1, h2, _, h4⟩ := hrun
  intro nowT kn hnow hkn hnf b hb
  obtain ⟨_, _, hsce⟩ := specScanWith_respond _ _ _ hr
  unfold preTsigState at hnf h4
  rw [hsce] at hnf h4 ⊢
  generalize hsc : specBody (catKind cfg) cfg.payload req = sc at *
  obtain ⟨_, p2, p3⟩ := specBody_props (catKind cfg) cfg.payload req
  rw [hsc] at p2 p3
  have hq : ∀ x, sc.question = some x → ∃ nx, Spec.specQuestionAt req 12 = some (x.qname, x.qtype, x.qclass, nx) :=
    fun x hx => specBody_question (catKind cfg) cfg.payload req x (by rw [hsc]; exact hx)
  obtain ⟨hbase, _, _, _, _, _, hs3, _⟩ :=
    s1_facts bufLen tr cfg.payload (Spec.Server.hdr req 0) (((req.getD 2 0).toNat &&& 120) >>> 3)
      (((req.getD 2 0).toNat &&& 1) != 0) hbuf hpay req sc.question hq
  have g1 := good_s1 bufLen tr cfg.payload (Spec.Server.hdr req 0) (((req.getD 2 0).toNat &&& 120) >>> 3)
      (((req.getD 2 0).toNat &&& 1) != 0) hbuf hpay req sc.question hq
  have hv0 := hdrView_scan_state bufLen tr cfg.payload (Spec.Server.hdr req 0) (((req.getD 2 0).toNat &&& 120) >>> 3)
      (((req.getD 2 0).toNat &&& 1) != 0) hbuf hpay req sc.question hq sc.edns sc.limitUdp
  generalize qSt (hdrSt (w0 bufLen (lim0 tr)) (Spec.Server.hdr req 0) (((req.getD 2 0).toNat &&& 120) >>> 3)
      (((req.getD 2 0).toNat &&& 1) != 0)) sc.question = s1 at *
  have h3s : 3 < (arSt s1 tr cfg.payload sc.edns sc.limitUdp).octets.size := by rw [arSt_size]; exact hs3
  have gA := good_arSt s1 tr cfg.payload sc.edns sc.limitUdp _ g1 hbase p2 p3 hp16
  obtain ⟨_, _, f3, _, _, _, _, f8⟩ := arSt_fields s1 tr cfg.payload sc.edns sc.limitUdp
  -- the state the TSIG step leaves
  have hT : ∃ rc, Server.tsigAfter cfg now t mw r' (arSt s1 tr cfg.payload sc.edns sc.limitUdp) =
      (.ok none, truncSt (stRcode rc (arSt s1 tr cfg.payload sc.edns sc.limitUdp))) := by
    unfold Server.tsigAfter
    rw [hnow]
    rcases hnf with ⟨an, rc, mode, rr, han, hrep, hf⟩ | ⟨alg, key, ha, hk, hver, hf⟩
    · exact ⟨rc, tsigProcess_nofit_stop Tsig.realHmac cfg.keys _ h3s t mw.toList nowT r' kn an hkn han rc mode rr hrep hf⟩
    · exact ⟨0, tsigProcess_nofit_ok Tsig.realHmac cfg.keys _ h3s t mw.toList nowT r' kn hkn alg key ha hk hver hf⟩
  obtain ⟨rc, hT⟩ := hT
  rw [hT, hb] at h4
  simp only [afterTsig] at h4
  have gB := good_stRcode rc _ _ gA h3s
  have gC := good_truncSt _ _ gB (by rw [stRcode_size]; exact h3s)
  obtain ⟨t1, t2, _⟩ := truncSt_fields (stRcode rc (arSt s1 tr cfg.payload sc.edns sc.limitUdp))
  obtain ⟨u1, u2⟩ := stRcode_fields rc (arSt s1 tr cfg.payload sc.edns sc.limitUdp)
  rcases hfin : Writer.finish (truncSt (stRcode rc (arSt s1 tr cfg.payload sc.edns sc.limitUdp))) Server.macFn
    with ⟨bytes, mac⟩ | e | _
  · rw [hfin] at h4
    simp only [Out.ok.injEq, Option.some.injEq] at h4
    subst h4
    refine ⟨_, mac, hfin, gC, by rw [t1, u1, f3]; exact hbase.tsig, ?_, hdrView_truncSt rc _ h3s hv0⟩
    rw [t2, u2, f8, hbase.edns]
    cases sc.edns <;> rfl
  · rw [hfin] at h4; cases h4
  · rw [hfin] at h4; cases h4

end QV.ServerContent
