/-
  QV.Proofs.ServerSignedDecode — the final writer states of the no-data responses (unsigned, signed
  and authenticated, signed and rejected) satisfy the writer's invariant `I` and its content layout
  `CLay`, because each of them is reached from `Writer::new` by public calls; hence the writer's
  decoding theorem `finish_decodes_content` (C12) applies to the response: it decodes completely
  under the independent decoder, and the decoded questions and records are — one for one — the
  question, the OPT record and the TSIG record.
-/
import QV.Proofs.ServerSigned
import QV.Proofs.WriterContentDecode
import QV.Proofs.WriterSafe2

namespace QV.ServerScan
open QV QV.Wire QV.Reader QV.Writer

/-- a writer state reached by public calls, holding the questions and records `b` -/
def Good (s : State) (b : Body) : Prop :=
  Writer.I s ∧ s.limit ≤ 65535 ∧ ∃ mb, CLay (fun _ => True) s b mb

/-- one public call (in a session without hint-pointer vectors) keeps `Good` -/
theorem good_step (op : Op) (s : State) (b : Body) (h : Good s b) (hop : OpOK ⟨s, []⟩ op)
    (hlim : (step ⟨s, []⟩ op).2.w.limit ≤ 65535) :
    Good (step ⟨s, []⟩ op).2.w (if (step ⟨s, []⟩ op).1 = .ok () then bodyStep b op else b) := by
  obtain ⟨hI, _, mb, hL⟩ := h
  exact ⟨(step_I ⟨s, []⟩ op hI hop).2, hlim, _, clay_step ⟨s, []⟩ op b mb hI hL hop (fun _ _ => trivial)⟩

/-- … in the form used below: the call is a plain writer operation `f` that succeeds -/
theorem good_liftW (op : Op) (f : M Unit) (s s' : State) (b : Body) (h : Good s b)
    (hstep : ∀ ss : Session, step ss op = liftW ss f) (hf : f s = (.ok (), s'))
    (hop : OpOK ⟨s, []⟩ op) (hlim : s'.limit ≤ 65535) : Good s' (bodyStep b op) := by
  have e : step ⟨s, []⟩ op = (.ok (), ⟨s', []⟩) := by
    rw [hstep]; unfold liftW; rw [hf]
  have := good_step op s b h hop (by rw [e]; exact hlim)
  rw [e] at this
  simpa using this

theorem stRcode_limit (rc : Nat) (s : State) : (stRcode rc s).limit = s.limit := by
  unfold stRcode stHdr; cases s.edns <;> rfl

theorem good_stRcode (rc : Nat) (s : State) (b : Body) (h : Good s b) (h3 : 3 < s.octets.size) :
    Good (stRcode rc s) b :=
  good_liftW (.setRcode rc) (setRcode rc) s _ b h (fun _ => rfl) (setRcode_eq rc s h3) trivial
    (by rw [stRcode_limit]; exact h.2.1)

theorem good_stXRcode (raw : Nat) (e : Edns) (s : State) (b : Body) (h : Good s b) (he : s.edns = some e)
    (hr : raw ≤ 4095) (h3 : 3 < s.octets.size) : Good (stXRcode raw e s) b :=
  good_liftW (.setExtendedRcode raw) (setExtendedRcode raw) s _ b h (fun _ => rfl)
    (setExtendedRcode_eq raw e s he hr h3) trivial (by unfold stXRcode stHdr; exact h.2.1)

open QV.ServerTsig in
theorem good_withTsig (mode : TsigMode) (rr : TsigRr) (s : State) (b : Body) (h : Good s b)
    (hf : TsigFits s mode rr) (hk : rr.keyName.WF) (ha : (tsigAlgName mode).WF) (ht : rr.timeSigned.length = 6)
    (hs : rr.serverTime.length = 6) : Good (withTsig s mode rr) b :=
  good_liftW (.setTsig mode rr) (setTsig mode rr) s _ b h (fun _ => rfl) (setTsig_fits mode rr s hf)
    ⟨hk, ha, ht, hs⟩ h.2.1

/-- the fresh writer of `handle_message` -/
theorem good_w0 (bufLen lim : Nat) (h12 : 12 ≤ min lim bufLen) (hl : lim ≤ 65535) : Good (w0 bufLen lim) {} := by
  have hnew := new_eq bufLen lim h12
  have hlim : (w0 bufLen lim).limit ≤ 65535 := by show min lim bufLen ≤ 65535; omega
  generalize w0 bufLen lim = w at hnew hlim
  refine ⟨new_i _ _ _ hnew, hlim, {}, ?_⟩
  exact clay_new _ _ _ hnew w.mode trivial

/-- after the header copy -/
theorem good_hdrSt (w : State) (id opcode : Nat) (rd : Bool) (h : Good w {}) (h3 : 3 < w.octets.size) :
    Good (hdrSt w id opcode rd) {} := by
  have g1 : Good { w with octets := writeAt w.octets 0 (u16be id) } {} :=
    good_liftW (.setId id) (setId id) w _ {} h (fun _ => rfl) (setId_eq id w (by omega)) trivial h.2.1
  have z1 : 2 < ({ w with octets := writeAt w.octets 0 (u16be id) } : State).octets.size := by
    show 2 < (writeAt w.octets 0 (u16be id)).size; rw [writeAt_size]; omega
  have g2 : Good (stHdr 2 (bitF Gen.QR_MASK true) { w with octets := writeAt w.octets 0 (u16be id) }) {} :=
    good_liftW (.setQr true) (setQr true) _ _ {} g1 (fun _ => rfl)
      (setBit_eq Gen.QR_BYTE Gen.QR_MASK true _ z1) trivial g1.2.1
  have z2 : 2 < (stHdr 2 (bitF Gen.QR_MASK true) { w with octets := writeAt w.octets 0 (u16be id) }).octets.size := by
    rw [stHdr_size]; exact z1
  have g3 := good_liftW (.setOpcode opcode) (setOpcode opcode) _ _ {} g2 (fun _ => rfl)
    (setOpcode_eq opcode _ z2) trivial g2.2.1
  unfold hdrSt
  simp only
  split
  · have z3 : 2 < (stHdr 2 (opF opcode) (stHdr 2 (bitF Gen.QR_MASK true)
        { w with octets := writeAt w.octets 0 (u16be id) })).octets.size := by rw [stHdr_size]; exact z2
    exact good_liftW (.setRd rd) (setRd rd) _ _ {} g3 (fun _ => rfl)
      (setBit_eq Gen.RD_BYTE Gen.RD_MASK rd _ z3) trivial g3.2.1
  · exact g3

/-- the questions of a response -/
def qBody (q : Option Spec.DQuestion) : Body :=
  match q with
  | none => {}
  | some x => { qs := [⟨toQ x, x.qtype, x.qclass⟩] }

/-- after the question -/
theorem good_qSt (sH : State) (tr : Server.Transport) (payload : Nat) (hH : HdrOk sH tr payload) (h : Good sH {})
    (msg : Bytes) (q : Option Spec.DQuestion)
    (hq : ∀ x, q = some x → ∃ nx, Spec.specQuestionAt msg 12 = some (x.qname, x.qtype, x.qclass, nx)) :
    Good (qSt sH q) (qBody q) := by
  cases q with
  | none => exact h
  | some x =>
    obtain ⟨nx, hsq⟩ := hq x rfl
    obtain ⟨p, hp, hpw, _, _, hwl⟩ := specQuestionAt_some msg 12 _ _ _ nx hsq
    obtain ⟨qn, hqn, hqw⟩ := wname_of_parse msg 12 p hp
    rw [hpw] at hqn hqw
    obtain ⟨hadd, _⟩ := qSt_some sH tr payload hH x qn hqn hqw hwl
    have htoq : toQ x = qn := by unfold toQ; rw [hqn]
    rw [← htoq] at hadd
    have hlim : (qSt sH (some x)).limit ≤ 65535 := by
      have := addQuestion_limit (toQ x) x.qtype x.qclass sH
      rw [hadd] at this
      rw [this]; exact h.2.1
    have := good_liftW (.addQuestion (toQ x) x.qtype x.qclass) (addQuestion (toQ x) x.qtype x.qclass) sH _ {} h
      (fun _ => rfl) hadd (by rw [htoq]; exact parse_wf hqn) hlim
    exact this

/-- after the scan of the additional section (EDNS slot, UDP limit) -/
theorem good_arSt (s1 : State) (tr : Server.Transport) (payload : Nat) (e : Bool) (l : Nat) (b : Body)
    (h : Good s1 b) (hb : Base s1 tr payload) (hl1 : 512 ≤ l) (hl2 : l ≤ max 512 payload) (hp16 : payload ≤ 65535) :
    Good (arSt s1 tr payload e l) b := by
  cases e with
  | false => exact h
  | true =>
    have g1 : Good (stEdns payload s1) b :=
      good_liftW (.setEdns payload) (setEdns payload) s1 _ b h (fun _ => rfl)
        (setEdns_eq payload s1 hb.edns hb.room hb.ar) trivial h.2.1
    cases tr with
    | tcp => exact g1
    | udp =>
      have hlim : s1.limit = 512 := hb.lim
      obtain ⟨hb1, hb2⟩ := hb.buf rfl
      exact good_liftW (.setLimit l) (setLimit l) _ _ b g1 (fun _ => rfl)
        (setLimit_up l (stEdns payload s1) (by show s1.limit ≤ l; omega) (by show l ≤ s1.octets.size; omega))
        trivial (by show l ≤ 65535; omega)

/-- **decoding a no-data response**: if the final writer is `Good` with the questions `qb` and no
    records, whatever `finish` returns decodes completely under the independent decoder; its
    questions are `qb`'s, answer and authority sections are empty, and the additional section is —
    one for one — the OPT record (iff the EDNS slot is set) and the TSIG record (iff a TSIG is set):
    owner equal up to ASCII case, TYPE, CLASS, TTL and RDATA octet for octet -/
theorem good_decodes (macFn : Writer.Tsig → List UInt8 → List UInt8) (F : State) (qb : Body)
    (hqb : qb.an = [] ∧ qb.ns = [] ∧ qb.ar = []) (h : Good F qb) (m : Bytes) (mac : Option (List UInt8))
    (hf : Writer.finish F macFn = .ok (m, mac)) :
    ∃ (d : Spec.DMsg) (qs : List QItC) (iar : List RItC), Spec.specDecodeMsg m = some d ∧
      qs.map (·.q) = qb.qs ∧ All2 QMatch qs d.questions ∧ d.an = [] ∧ d.ns = [] ∧
      iar.map (·.r) = optRecs' F.edns ++ tsigRecs F.tsig mac ∧ All2 RMatch iar d.ar := by
  obtain ⟨hI, hlim, mb, hL⟩ := h
  have hsz : m.size ≤ 65535 := Nat.le_trans (finish_size_le_limit macFn F hI.inv m mac hf) hlim
  obtain ⟨d, qs, ian, ins, iar, hd, e1, e2, e3, e4, m1, m2, m3, m4, _, _⟩ :=
    finish_decodes_content macFn F qb mb hI hL m mac hf hsz
  rw [hqb.1] at e2
  rw [hqb.2.1] at e3
  rw [hqb.2.2] at e4
  have ian0 : ian = [] := by simpa using e2
  have ins0 : ins = [] := by simpa using e3
  subst ian0 ins0
  have dan : d.an = [] := by
    have := m2.length; simp at this; exact List.length_eq_zero_iff.mp this.symm
  have dns : d.ns = [] := by
    have := m3.length; simp at this; exact List.length_eq_zero_iff.mp this.symm
  exact ⟨d, qs, iar, hd, e1, m1, dan, dns, by simpa using e4, m4⟩

/-! ### what the decoded additional section says about OPT -/

theorem lower_zero : ∀ x : UInt8, lowerU8 x = 0 → x = 0 := by
  apply Wire.forall_uint8; decide +kernel

theorem all2_mem_right {α β : Type} {R : α → β → Prop} {as : List α} {bs : List β} (h : All2 R as bs) :
    ∀ b ∈ bs, ∃ a ∈ as, R a b := by
  induction h with
  | nil => intro b hb; cases hb
  | cons hr _ ih =>
    intro b hb
    rcases List.mem_cons.mp hb with rfl | hb
    · exact ⟨_, List.mem_cons_self, hr⟩
    · obtain ⟨a, ha, hab⟩ := ih b hb
      exact ⟨a, List.mem_cons_of_mem _ ha, hab⟩

theorem all2_filter_count {α β : Type} {R : α → β → Prop} {as : List α} {bs : List β} (h : All2 R as bs)
    (p : α → Bool) (q : β → Bool) (hpq : ∀ a b, R a b → p a = q b) :
    (as.filter p).length = (bs.filter q).length := by
  induction h with
  | nil => rfl
  | cons hr _ ih =>
    simp only [List.filter_cons, hpq _ _ hr]
    split <;> simp [ih]

/-- **the OPT record in the decoded additional section.**  From a `Good` final writer whose own
    additional records are address records (types 1 / 28): in the independent decoding of whatever
    `finish` returns, the additional section holds exactly one type-41 record iff the EDNS slot is
    set, and that record has owner root, CLASS = the slot's payload size and TTL = the slot's
    extended-RCODE octet shifted to the top (version 0, flags 0). -/
theorem opt_of_good (macFn : Writer.Tsig → List UInt8 → List UInt8) (F : State) (bd : Body) (h : Good F bd)
    (hty : ∀ r ∈ bd.ar, r.ty = 1 ∨ r.ty = 28) (m : Bytes) (mac : Option (List UInt8))
    (hf : Writer.finish F macFn = .ok (m, mac)) (d : Spec.DMsg) (hd : Spec.specDecodeMsg m = some d) :
    (d.ar.filter (fun r => r.ty = 41)).length = (if F.edns.isSome then 1 else 0) ∧
    (∀ o ∈ d.ar, o.ty = 41 → ∃ e, F.edns = some e ∧ o.owner = [0] ∧ o.cls = e.payload % 65536 ∧
      o.rawTtl = (e.upper * 16777216) % 4294967296) ∧
    d.an.length = bd.an.length ∧ d.ns.length = bd.ns.length := by
  obtain ⟨hI, hlim, mb, hL⟩ := h
  have hsz : m.size ≤ 65535 := Nat.le_trans (finish_size_le_limit macFn F hI.inv m mac hf) hlim
  obtain ⟨d', qs, ian, ins, iar, hd', _, e2, e3, e4, _, m2, m3, m4, _, _⟩ :=
    finish_decodes_content macFn F bd mb hI hL m mac hf hsz
  rw [hd] at hd'
  cases hd'
  have hT : Writer.T_OPT = 41 := T_OPT_eq
  have hTT : Writer.T_TSIG = 250 := T_TSIG_eq
  have hoptty : ∀ r ∈ optRecs' F.edns, r.ty = 41 := by
    intro r hr
    cases he : F.edns with
    | none => rw [he] at hr; simp [optRecs'] at hr
    | some e =>
      rw [he] at hr
      simp only [optRecs', List.mem_singleton] at hr
      rw [hr]; exact hT
  -- the types of the items
  have hit : ∀ it ∈ iar, (it.r.ty % 65536 = 41 ↔ it.r ∈ optRecs' F.edns) := by
    intro it hit
    have : it.r ∈ bd.ar ++ optRecs' F.edns ++ tsigRecs F.tsig mac := by
      rw [← e4]; exact List.mem_map_of_mem hit
    rcases List.mem_append.mp this with h1 | h1
    · rcases List.mem_append.mp h1 with h2 | h2
      · have hne : it.r.ty ≠ 41 ∧ it.r.ty % 65536 ≠ 41 := by
          rcases hty _ h2 with h3 | h3 <;> (rw [h3]; omega)
        exact ⟨fun hx => absurd hx hne.2, fun hx => absurd (hoptty _ hx) hne.1⟩
      · exact ⟨fun _ => h2, fun _ => by rw [hoptty _ h2]⟩
    · cases ht : F.tsig with
      | none => rw [ht] at h1; simp [tsigRecs] at h1
      | some ts =>
        rw [ht] at h1
        simp only [tsigRecs, List.mem_singleton] at h1
        have hty2 : it.r.ty = 250 := by rw [h1]; exact hTT
        exact ⟨fun hx => by rw [hty2] at hx; omega, fun hx => by have := hoptty _ hx; omega⟩
  refine ⟨?_, ?_, by rw [← m2.length, ← e2]; simp, by rw [← m3.length, ← e3]; simp⟩
  · -- the count
    have hc := all2_filter_count m4 (fun it => decide (it.r.ty % 65536 = 41)) (fun r => decide (r.ty = 41))
      (fun a b hab => by rw [hab.2.2.1])
    rw [← hc]
    -- count the items of type 41 in `bd.ar ++ opt ++ tsig`
    have : (iar.filter fun it => decide (it.r.ty % 65536 = 41)).length =
        ((iar.map (·.r)).filter fun r => decide (r.ty % 65536 = 41)).length := by
      rw [List.filter_map, List.length_map]; rfl
    rw [this, e4]
    simp only [List.filter_append, List.length_append]
    have z1 : (bd.ar.filter fun r => decide (r.ty % 65536 = 41)).length = 0 := by
      rw [List.length_eq_zero_iff, List.filter_eq_nil_iff]
      intro r hr
      rcases hty r hr with h3 | h3 <;> (rw [h3]; decide)
    have z3 : ((tsigRecs F.tsig mac).filter fun r => decide (r.ty % 65536 = 41)).length = 0 := by
      cases F.tsig with
      | none => rfl
      | some ts => simp [tsigRecs, hTT]
    rw [z1, z3]
    cases F.edns with
    | none => rfl
    | some e => simp [optRecs', hT]
  · intro o ho hot
    obtain ⟨it, hit', hm⟩ := all2_mem_right m4 o ho
    obtain ⟨r1, _, r3, r4, r5, _, _⟩ := hm
    have : it.r ∈ optRecs' F.edns := (hit it hit').mp (by rw [← r3]; exact hot)
    cases he : F.edns with
    | none => rw [he] at this; simp [optRecs'] at this
    | some e =>
      rw [he] at this
      simp only [optRecs', List.mem_singleton] at this
      refine ⟨e, rfl, ?_, by rw [r4, this], by rw [r5, this]; simp⟩
      rw [this] at r1
      simp only [root_wire, List.map_cons, List.map_nil] at r1
      generalize o.owner = ow at r1
      match ow, r1 with
      | [], r1 => simp at r1
      | [x], r1 =>
        simp only [List.map_cons, List.map_nil, List.cons.injEq, and_true] at r1
        rw [lower_zero x (by rw [r1]; rfl)]
      | _ :: _ :: _, r1 => simp at r1

/-! ### the final writers of the no-data responses are `Good` -/

theorem qBody_norecs (q : Option Spec.DQuestion) : (qBody q).an = [] ∧ (qBody q).ns = [] ∧ (qBody q).ar = [] := by
  cases q <;> exact ⟨rfl, rfl, rfl⟩

/-- the writer after the question, as `handle_message` builds it -/
theorem good_s1 (bufLen : Nat) (tr : Server.Transport) (payload id opcode : Nat) (rd : Bool)
    (hbuf : minBuf tr payload ≤ bufLen) (hpay : 512 ≤ payload) (msg : Bytes) (q : Option Spec.DQuestion)
    (hq : ∀ x, q = some x → ∃ nx, Spec.specQuestionAt msg 12 = some (x.qname, x.qtype, x.qclass, nx)) :
    Good (qSt (hdrSt (w0 bufLen (lim0 tr)) id opcode rd) q) (qBody q) := by
  have hmin : 12 ≤ min (lim0 tr) bufLen := by
    cases tr <;> simp only [lim0, minBuf] at hbuf ⊢ <;> omega
  have hl : lim0 tr ≤ 65535 := by cases tr <;> simp [lim0]
  have g0 := good_w0 bufLen (lim0 tr) hmin hl
  have hsz : 3 < (w0 bufLen (lim0 tr)).octets.size := by
    rw [w0_size]; cases tr <;> simp only [minBuf] at hbuf <;> omega
  have g1 := good_hdrSt _ id opcode rd g0 hsz
  exact good_qSt _ tr payload (hdrSt_ok bufLen tr payload id opcode rd hbuf hpay) g1 msg q hq

/-- unsigned no-data verdicts -/
theorem good_finalOf (s1 : State) (tr : Server.Transport) (payload : Nat) (sc : Spec.Server.Scan) (b : Body)
    (h : Good s1 b) (hb : Base s1 tr payload) (hv : noDataV sc.verdict = true)
    (hbv : sc.verdict = .badVers → sc.edns = true)
    (hl1 : 512 ≤ sc.limitUdp) (hl2 : sc.limitUdp ≤ max 512 payload) (hp16 : payload ≤ 65535) :
    Good (finalOf s1 tr payload sc) b := by
  have g := good_arSt s1 tr payload sc.edns sc.limitUdp b h hb hl1 hl2 hp16
  have h3 : 3 < (arSt s1 tr payload sc.edns sc.limitUdp).octets.size := by rw [arSt_size]; exact hb.size3
  unfold finalOf
  cases hverd : sc.verdict with
  | answer => rw [hverd] at hv; cases hv
  | tsigReached => rw [hverd] at hv; cases hv
  | badVers =>
    have he := hbv hverd
    rw [he] at g h3 ⊢
    exact good_stXRcode 16 ⟨payload, 0⟩ _ b g (arSt_edns_true s1 tr payload _) (by omega) h3
  | formErr => exact good_stRcode 1 _ b g h3
  | notImp => exact good_stRcode 4 _ b g h3
  | refused => exact good_stRcode 5 _ b g h3
  | servFailZone => exact good_stRcode 2 _ b g h3

theorem algName_wf (a : Writer.Alg) : (algName a).WF := ServerSafety.algName_WF a

open QV.ServerTsig in
theorem prepOf_lengths (kn : WName) (r : Tsig.ReadTsigRr) (nowT : Tsig.TimeSigned) (e : Nat) :
    (prepOf kn r nowT e).timeSigned.length = 6 ∧ (prepOf kn r nowT e).serverTime.length = 6 := by
  refine ⟨?_, rfl⟩
  show (if e = 18 then _ else _ : List UInt8).length = 6
  split <;> rfl

theorem all2_snoc {α β : Type} {R : α → β → Prop} : ∀ {as : List α} {a : α} {bs : List β},
    All2 R (as ++ [a]) bs → ∃ bs' b, bs = bs' ++ [b] ∧ All2 R as bs' ∧ R a b := by
  intro as
  induction as with
  | nil =>
    intro a bs h
    cases h with
    | cons hr t => cases t; exact ⟨[], _, rfl, .nil, hr⟩
  | cons x xs ih =>
    intro a bs h
    cases h with
    | cons hr t =>
      obtain ⟨bs', b, e, h1, h2⟩ := ih t
      exact ⟨_ :: bs', b, by rw [e]; rfl, .cons hr h1, h2⟩

/-- the decoded TSIG record of a `Good` final writer with a pending TSIG: it is the last record of
    the additional section — TYPE 250, CLASS 255, TTL 0, owner = the key name up to ASCII case, RDATA =
    `tsigRdata` of the recorded RR with the MAC `finish` computed, octet for octet -/
theorem tsig_of_good (macFn : Writer.Tsig → List UInt8 → List UInt8) (F : State) (bd : Body) (h : Good F bd)
    (ts : Writer.Tsig) (hts : F.tsig = some ts) (m : Bytes) (mac : Option (List UInt8))
    (hf : Writer.finish F macFn = .ok (m, mac)) (d : Spec.DMsg) (hd : Spec.specDecodeMsg m = some d) :
    ∃ rest o, d.ar = rest ++ [o] ∧ o.ty = 250 ∧ o.cls = 255 ∧ o.rawTtl = 0 ∧
      o.owner.map lowerU8 = ts.rr.keyName.wire.map lowerU8 ∧
      o.rdata = tsigRdata ts.rr (tsigAlgName ts.mode) (mac.getD []) ∧ o.rdOk = true ∧
      rest.length = bd.ar.length + (if F.edns.isSome then 1 else 0) := by
  obtain ⟨hI, hlim, mb, hL⟩ := h
  have hsz : m.size ≤ 65535 := Nat.le_trans (finish_size_le_limit macFn F hI.inv m mac hf) hlim
  obtain ⟨d', qs, ian, ins, iar, hd', _, _, _, e4, _, _, _, m4, _, _⟩ :=
    finish_decodes_content macFn F bd mb hI hL m mac hf hsz
  rw [hd] at hd'
  cases hd'
  rw [hts] at e4
  simp only [tsigRecs] at e4
  -- split the items
  obtain ⟨iar', it, rfl, e5, e6⟩ : ∃ iar' it, iar = iar' ++ [it] ∧ iar'.map (·.r) = bd.ar ++ optRecs' F.edns ∧
      it.r = ⟨ts.rr.keyName, Writer.T_TSIG, Writer.QC_ANY, Writer.ttlFrom 0, tsigRdata ts.rr (tsigAlgName ts.mode) (mac.getD [])⟩ := by
    rcases List.eq_nil_or_concat iar with rfl | ⟨iar', it, rfl⟩
    · simp at e4
    · rw [List.concat_eq_append, List.map_append, List.map_cons, List.map_nil] at e4
      have := List.append_inj' e4 (by simp)
      exact ⟨iar', it, by rw [List.concat_eq_append], this.1, by simpa using this.2⟩
  obtain ⟨rest, o, hdar, hrest, r1, _, r3, r4, r5, _, r7⟩ := all2_snoc m4
  rw [e6] at r1 r3 r4 r5 r7
  simp only at r1 r3 r4 r5 r7
  have hTT : Writer.T_TSIG = 250 := T_TSIG_eq
  have hQA : Writer.QC_ANY = 255 := QC_ANY_eq'
  obtain ⟨q1, q2⟩ := r7 (by rw [hTT]; omega) [] (componentTypes_tsig _) (by simp)
  refine ⟨rest, o, hdar, by rw [r3, hTT], by rw [r4, hQA], by rw [r5]; decide, r1, q1, q2, ?_⟩
  rw [← hrest.length, ← List.length_map (f := (·.r)), e5, List.length_append]
  cases F.edns <;> rfl

/-- the decoded flags word is octets 2–3 of the message -/
theorem decode_flags (b : Bytes) (d : Spec.DMsg) (h : Spec.specDecodeMsg b = some d) :
    d.flags = Spec.Server.hdr b 2 := by
  unfold Spec.specDecodeMsg at h
  split at h
  · cases h
  · rename_i hsz
    split at h
    · rename_i id fl qd an ns ar h0 h2 _ _ _ _
      rw [specField16_eq] at h2
      rw [if_pos (by omega)] at h2
      repeat' split at h
      all_goals first | (cases h; done) | skip
      simp only [Option.some.injEq] at h
      rw [← h]
      simp only [Option.some.injEq] at h2
      rw [← h2]
      rfl
    · cases h

/-! ### the three kinds of no-data responses: final writer, `Good`, slots -/

/-- unsigned requests with a verdict the scan decides alone -/
theorem unsigned_nodata_final (cfg : Server.Cfg) (tr : Server.Transport) (now bufLen : Nat) (req : Bytes)
    (hbuf : minBuf tr cfg.payload ≤ bufLen) (hpay : 512 ≤ cfg.payload) (hp16 : cfg.payload ≤ 65535)
    (hreq : req.size ≤ Rdata.USIZE_MAX)
    (hr : (Spec.Server.specScanWith (catKind cfg) cfg.payload req).respond = true)
    (hv : noDataV (Spec.Server.specScanWith (catKind cfg) cfg.payload req).verdict = true) :
    ∃ F b mac, Server.handleMessage cfg tr now bufLen req = .ok (some b) ∧
      Writer.finish F Server.macFn = .ok (b, mac) ∧
      Good F (qBody (Spec.Server.specScanWith (catKind cfg) cfg.payload req).question) ∧ F.tsig = none ∧
      F.edns = (if (Spec.Server.specScanWith (catKind cfg) cfg.payload req).edns then
        some ⟨cfg.payload, (Spec.Server.verdictRcode (Spec.Server.specScanWith (catKind cfg) cfg.payload req).verdict).2⟩
        else none) := by
  obtain ⟨b, hb, _⟩ := server_error_response cfg tr now bufLen req hbuf hpay hreq hr hv
  obtain ⟨h12, hqr, hsce⟩ := specScanWith_respond _ _ _ hr
  rw [hsce] at hr hv ⊢
  generalize hsc : specBody (catKind cfg) cfg.payload req = sc at hr hv
  have hH := hdrSt_ok bufLen tr cfg.payload (Spec.Server.hdr req 0) (((req.getD 2 0).toNat &&& 120) >>> 3)
    (((req.getD 2 0).toNat &&& 1) != 0) hbuf hpay
  obtain ⟨_, hw⟩ := hwc_spec cfg tr now req h12 _ hH hreq tsigFacts
  rw [hsc] at hw
  have hw := hw hr hv
  rw [handleMessage_eq cfg tr now bufLen req hbuf hpay h12 hqr, hw] at hb
  simp only at hb
  obtain ⟨p1, p2, p3⟩ := specBody_props (catKind cfg) cfg.payload req
  rw [hsc] at p1 p2 p3
  have hq : ∀ x, sc.question = some x → ∃ nx, Spec.specQuestionAt req 12 = some (x.qname, x.qtype, x.qclass, nx) :=
    fun x hx => specBody_question (catKind cfg) cfg.payload req x (by rw [hsc]; exact hx)
  obtain ⟨hbase, _, _, _, _, h30, _⟩ :=
    s1_facts bufLen tr cfg.payload (Spec.Server.hdr req 0) (((req.getD 2 0).toNat &&& 120) >>> 3)
      (((req.getD 2 0).toNat &&& 1) != 0) hbuf hpay req sc.question hq
  have g1 := good_s1 bufLen tr cfg.payload (Spec.Server.hdr req 0) (((req.getD 2 0).toNat &&& 120) >>> 3)
      (((req.getD 2 0).toNat &&& 1) != 0) hbuf hpay req sc.question hq
  generalize qSt (hdrSt (w0 bufLen (lim0 tr)) (Spec.Server.hdr req 0) (((req.getD 2 0).toNat &&& 120) >>> 3)
      (((req.getD 2 0).toNat &&& 1) != 0)) sc.question = s1 at *
  have gF := good_finalOf s1 tr cfg.payload sc _ g1 hbase hv p1 p2 p3 hp16
  obtain ⟨f1, f2, _⟩ := finalOf_props s1 tr cfg.payload sc hbase h30 hv p1 p2 p3
  rcases hfin : Writer.finish (finalOf s1 tr cfg.payload sc) Server.macFn with ⟨bytes, mac⟩ | e | _
  · rw [hfin] at hb
    simp only [Out.ok.injEq, Option.some.injEq] at hb
    subst hb
    refine ⟨_, bytes, mac, ?_, hfin, gF, f1, f2⟩
    rw [handleMessage_eq cfg tr now bufLen req hbuf hpay h12 hqr, hw]
    simp only [hfin]
  · rw [hfin] at hb; cases hb
  · rw [hfin] at hb; cases hb

/-- authenticated signed requests with a no-data verdict -/
theorem signed_nodata_final (cfg : Server.Cfg) (tr : Server.Transport) (now bufLen : Nat) (req : Bytes)
    (hbuf : minBuf tr cfg.payload ≤ bufLen) (hpay : 512 ≤ cfg.payload) (hp16 : cfg.payload ≤ 65535)
    (hreq : req.size ≤ Rdata.USIZE_MAX)
    (hr : (Spec.Server.specScanWith (catKind cfg) cfg.payload req).respond = true)
    (hv : (Spec.Server.specScanWith (catKind cfg) cfg.payload req).verdict = .tsigReached) :
    ∃ (t : Tsig.ReadTsigRr) (mw : Bytes) (r' : Reader), r'.octets = req ∧ r'.cursor ≤ req.size ∧
      ∀ r'' S, Server.tsigAfter cfg now t mw r' (preTsigState cfg tr bufLen req) = (.ok (some r''), S) →
      ∀ v, (v = Spec.Server.Verdict.formErr ∨ v = .notImp ∨ v = .refused ∨ v = .servFailZone) →
        endVerdict (catKind cfg) req.size (Spec.Server.specScanWith (catKind cfg) cfg.payload req).question
          r'.cursor ((req.getD 2 0).toNat / 8 % 16) = v →
      ∀ b, Server.handleMessage cfg tr now bufLen req = .ok (some b) →
        ∃ nowT alg key kn F mac, Tsig.TimeSigned.tryFromUnix now = some nowT ∧
          Tsig.Algorithm.fromName t.algorithm = some alg ∧ Server.findKey cfg.keys t.keyName alg = some key ∧
          WName.parse t.keyName = some (kn, []) ∧
          Tsig.verifyRequest Tsig.realHmac t mw.toList alg key.secret nowT = .ok () ∧
          Writer.finish F Server.macFn = .ok (b, mac) ∧
          Good F (qBody (Spec.Server.specScanWith (catKind cfg) cfg.payload req).question) ∧
          F.tsig = some (respTsig alg key kn t nowT) ∧
          F.edns = (if (Spec.Server.specScanWith (catKind cfg) cfg.payload req).edns then some ⟨cfg.payload, 0⟩ else none) ∧
          mac = some (Server.macFn (respTsig alg key kn t nowT)
            (signedPrefix req cfg.payload (Spec.Server.specScanWith (catKind cfg) cfg.payload req)
              (Spec.Server.verdictRcode v).1)) := by
  obtain ⟨t, mw, r', h1, h2, h3⟩ := handleMessage_after_tsig cfg tr now bufLen req hbuf hpay hreq hr hv
  refine ⟨t, mw, r', h1, h2, fun r'' S hT v hvv hev b hb => ?_⟩
  have hne : endVerdict (catKind cfg) req.size (Spec.Server.specScanWith (catKind cfg) cfg.payload req).question
      r'.cursor ((req.getD 2 0).toNat / 8 % 16) ≠ .answer := by
    rw [hev]; rcases hvv with rfl | rfl | rfl | rfl <;> simp
  have hM := h3 r'' S hT hne
  rw [hev, hb] at hM
  obtain ⟨_, _, hsce⟩ := specScanWith_respond _ _ _ hr
  unfold preTsigState at hT
  rw [hsce] at hT ⊢
  generalize hsc : specBody (catKind cfg) cfg.payload req = sc at *
  obtain ⟨_, p2, p3⟩ := specBody_props (catKind cfg) cfg.payload req
  rw [hsc] at p2 p3
  have hq : ∀ x, sc.question = some x → ∃ nx, Spec.specQuestionAt req 12 = some (x.qname, x.qtype, x.qclass, nx) :=
    fun x hx => specBody_question (catKind cfg) cfg.payload req x (by rw [hsc]; exact hx)
  obtain ⟨hbase, hcur, o0, o1, o2, h30, hs3, hQ, hqd, han, hns, har, _, hsz⟩ :=
    s1_facts bufLen tr cfg.payload (Spec.Server.hdr req 0) (((req.getD 2 0).toNat &&& 120) >>> 3)
      (((req.getD 2 0).toNat &&& 1) != 0) hbuf hpay req sc.question hq
  have g1 := good_s1 bufLen tr cfg.payload (Spec.Server.hdr req 0) (((req.getD 2 0).toNat &&& 120) >>> 3)
      (((req.getD 2 0).toNat &&& 1) != 0) hbuf hpay req sc.question hq
  generalize qSt (hdrSt (w0 bufLen (lim0 tr)) (Spec.Server.hdr req 0) (((req.getD 2 0).toNat &&& 120) >>> 3)
      (((req.getD 2 0).toNat &&& 1) != 0)) sc.question = s1 at *
  unfold Server.tsigAfter at hT
  cases hnow : Tsig.TimeSigned.tryFromUnix now with
  | none => rw [hnow] at hT; cases hT
  | some nowT =>
    rw [hnow] at hT
    simp only at hT
    have h3s : 3 < (arSt s1 tr cfg.payload sc.edns sc.limitUdp).octets.size := by rw [arSt_size]; exact hs3
    have h12s : 12 ≤ (arSt s1 tr cfg.payload sc.edns sc.limitUdp).octets.size := by
      rw [arSt_size, hsz]; cases tr <;> simp only [minBuf] at hbuf <;> omega
    obtain ⟨alg, key, kn, ha, hk, hkn, hver, _, hfit, hS⟩ :=
      tsigProcess_some_state Tsig.realHmac cfg.keys _ h12s t mw.toList nowT r' r'' S hT
    have hrc : (Spec.Server.verdictRcode v).1 < 16 := by
      rcases hvv with rfl | rfl | rfl | rfl <;> decide
    obtain ⟨_, hF⟩ := sigSt_facts s1 tr cfg.payload sc.edns sc.limitUdp 0 (Spec.Server.verdictRcode v).1 (by omega) hrc
      hbase h30 hs3 p2 p3 (.response (Server.toWriterAlg alg) t.mac key.secret) (ServerTsig.prepOf kn t nowT 0)
    have hES : endState v S = stRcode (Spec.Server.verdictRcode v).1 S := by
      rcases hvv with rfl | rfl | rfl | rfl <;> rfl
    rw [hES, hS] at hM
    -- the final writer is `Good`
    have gA := good_arSt s1 tr cfg.payload sc.edns sc.limitUdp _ g1 hbase p2 p3 hp16
    have gB := good_stRcode 0 _ _ gA h3s
    obtain ⟨l1, l2⟩ := prepOf_lengths kn t nowT 0
    have gC := good_withTsig (.response (Server.toWriterAlg alg) t.mac key.secret) (ServerTsig.prepOf kn t nowT 0) _ _ gB
      ((stRcode_fits 0 _ _ _).mpr hfit) (parse_wf hkn) (algName_wf _) l1 l2
    have h3c : 3 < (ServerTsig.withTsig (stRcode 0 (arSt s1 tr cfg.payload sc.edns sc.limitUdp))
        (.response (Server.toWriterAlg alg) t.mac key.secret) (ServerTsig.prepOf kn t nowT 0)).octets.size := by
      show 3 < (stRcode 0 _).octets.size
      have : ∀ x : State, (stRcode 0 x).octets.size = x.octets.size := by
        intro x; unfold stRcode stHdr; cases x.edns <;> simp
      rw [this]; exact h3s
    have gD := good_stRcode (Spec.Server.verdictRcode v).1 _ _ gC h3c
    rcases hfin : Writer.finish (stRcode (Spec.Server.verdictRcode v).1
        (ServerTsig.withTsig (stRcode 0 (arSt s1 tr cfg.payload sc.edns sc.limitUdp))
          (.response (Server.toWriterAlg alg) t.mac key.secret) (ServerTsig.prepOf kn t nowT 0))) Server.macFn
      with ⟨bytes, mac⟩ | e | _
    · rw [hfin] at hM
      simp only [Out.ok.injEq, Option.some.injEq] at hM
      subst hM
      obtain ⟨hmac, _⟩ := signed_response_list Server.macFn req cfg.payload sc
        (Spec.Server.verdictRcode v).1 s1 _ (respTsig alg key kn t nowT) hcur o0 o1 o2 hQ hqd han hns har
        hF.oct hF.o3 hF.cur hF.tsig hF.edns hF.qd hF.an hF.ns hF.ar b mac hfin
      exact ⟨nowT, alg, key, kn, _, mac, rfl, ha, hk, hkn, hver, hfin, gD, hF.tsig, hF.edns, by rw [hmac]; rfl⟩
    · rw [hfin] at hM; cases hM
    · rw [hfin] at hM; cases hM

theorem tsigStopReply_facts {hm : Tsig.Algorithm → Tsig.Octets → Tsig.Octets → Tsig.Octets} {keys : List Server.Key}
    {nowT : Tsig.TimeSigned} {r : Tsig.ReadTsigRr} {msg : List UInt8} {kn an : WName} {rc : Nat} {mode : TsigMode}
    {rr : TsigRr} (h : tsigStopReply hm keys nowT r msg kn an = some (rc, mode, rr)) (han : an.WF) :
    (tsigAlgName mode).WF ∧ rr.keyName = kn ∧ rr.timeSigned.length = 6 ∧ rr.serverTime.length = 6 := by
  unfold tsigStopReply at h
  repeat' split at h
  all_goals first
    | (cases h; done)
    | (simp only [Option.some.injEq, Prod.mk.injEq] at h
       obtain ⟨_, rfl, rfl⟩ := h
       exact ⟨by first | exact han | exact algName_wf _, rfl, (prepOf_lengths _ _ _ _).1, (prepOf_lengths _ _ _ _).2⟩)

/-- signed requests that the TSIG step rejects (reply TSIG fits) -/
theorem signed_error_final (cfg : Server.Cfg) (tr : Server.Transport) (now bufLen : Nat) (req : Bytes)
    (hbuf : minBuf tr cfg.payload ≤ bufLen) (hpay : 512 ≤ cfg.payload) (hp16 : cfg.payload ≤ 65535)
    (hreq : req.size ≤ Rdata.USIZE_MAX)
    (hr : (Spec.Server.specScanWith (catKind cfg) cfg.payload req).respond = true)
    (hv : (Spec.Server.specScanWith (catKind cfg) cfg.payload req).verdict = .tsigReached) :
    ∃ (t : Tsig.ReadTsigRr) (mw : Bytes) (r' : Reader), r'.octets = req ∧ r'.cursor ≤ req.size ∧
      ∀ nowT kn an rc mode rr, Tsig.TimeSigned.tryFromUnix now = some nowT →
        WName.parse t.keyName = some (kn, []) → WName.parse t.algorithm = some (an, []) →
        tsigStopReply Tsig.realHmac cfg.keys nowT t mw.toList kn an = some (rc, mode, rr) →
        ServerTsig.TsigFits (preTsigState cfg tr bufLen req) mode rr →
        ∀ b, Server.handleMessage cfg tr now bufLen req = .ok (some b) →
          ∃ F mac, Writer.finish F Server.macFn = .ok (b, mac) ∧
            Good F (qBody (Spec.Server.specScanWith (catKind cfg) cfg.payload req).question) ∧
            F.tsig = some ⟨mode, ServerTsig.reservedLen mode rr, rr⟩ ∧
            F.edns = (if (Spec.Server.specScanWith (catKind cfg) cfg.payload req).edns then some ⟨cfg.payload, 0⟩ else none) ∧
            mac = finishMac Server.macFn ⟨mode, ServerTsig.reservedLen mode rr, rr⟩
              (signedPrefix req cfg.payload (Spec.Server.specScanWith (catKind cfg) cfg.payload req) rc) := by
  obtain ⟨t, mw, r', question, h1, h2, _, h4⟩ := handleMessage_tsig_eq cfg tr now bufLen req hbuf hpay hreq hr hv
  refine ⟨t, mw, r', h1, h2, fun nowT kn an rc mode rr hnow hkn han hrep hfit b hb => ?_⟩
  obtain ⟨_, _, hsce⟩ := specScanWith_respond _ _ _ hr
  unfold preTsigState at hfit h4
  rw [hsce] at hfit h4 ⊢
  generalize hsc : specBody (catKind cfg) cfg.payload req = sc at *
  obtain ⟨_, p2, p3⟩ := specBody_props (catKind cfg) cfg.payload req
  rw [hsc] at p2 p3
  have hq : ∀ x, sc.question = some x → ∃ nx, Spec.specQuestionAt req 12 = some (x.qname, x.qtype, x.qclass, nx) :=
    fun x hx => specBody_question (catKind cfg) cfg.payload req x (by rw [hsc]; exact hx)
  obtain ⟨hbase, hcur, o0, o1, o2, h30, hs3, hQ, hqd, han', hns, har, _, hsz⟩ :=
    s1_facts bufLen tr cfg.payload (Spec.Server.hdr req 0) (((req.getD 2 0).toNat &&& 120) >>> 3)
      (((req.getD 2 0).toNat &&& 1) != 0) hbuf hpay req sc.question hq
  have g1 := good_s1 bufLen tr cfg.payload (Spec.Server.hdr req 0) (((req.getD 2 0).toNat &&& 120) >>> 3)
      (((req.getD 2 0).toNat &&& 1) != 0) hbuf hpay req sc.question hq
  generalize qSt (hdrSt (w0 bufLen (lim0 tr)) (Spec.Server.hdr req 0) (((req.getD 2 0).toNat &&& 120) >>> 3)
      (((req.getD 2 0).toNat &&& 1) != 0)) sc.question = s1 at *
  have h3s : 3 < (arSt s1 tr cfg.payload sc.edns sc.limitUdp).octets.size := by rw [arSt_size]; exact hs3
  have hT : Server.tsigAfter cfg now t mw r' (arSt s1 tr cfg.payload sc.edns sc.limitUdp) =
      (.ok none, ServerTsig.withTsig (stRcode rc (arSt s1 tr cfg.payload sc.edns sc.limitUdp)) mode rr) := by
    unfold Server.tsigAfter
    rw [hnow]
    exact tsigProcess_stop_state Tsig.realHmac cfg.keys _ h3s t mw.toList nowT r' kn an hkn han rc mode rr hrep hfit
  rw [hT, hb] at h4
  simp only [afterTsig] at h4
  have hrc : rc < 16 := by rcases tsigStopReply_rc hrep with rfl | rfl <;> omega
  obtain ⟨hF, _⟩ := sigSt_facts s1 tr cfg.payload sc.edns sc.limitUdp rc 0 hrc (by omega) hbase h30 hs3 p2 p3 mode rr
  obtain ⟨w1, w2, w3, w4⟩ := tsigStopReply_facts hrep (parse_wf han)
  have gA := good_arSt s1 tr cfg.payload sc.edns sc.limitUdp _ g1 hbase p2 p3 hp16
  have gB := good_stRcode rc _ _ gA h3s
  have gC := good_withTsig mode rr _ _ gB ((stRcode_fits rc _ _ _).mpr hfit) (by rw [w2]; exact parse_wf hkn) w1 w3 w4
  rcases hfin : Writer.finish (ServerTsig.withTsig (stRcode rc (arSt s1 tr cfg.payload sc.edns sc.limitUdp)) mode rr)
      Server.macFn with ⟨bytes, mac⟩ | e | _
  · rw [hfin] at h4
    simp only [Out.ok.injEq, Option.some.injEq] at h4
    subst h4
    obtain ⟨hmac, _⟩ := signed_response_list Server.macFn req cfg.payload sc rc s1 _
      ⟨mode, ServerTsig.reservedLen mode rr, rr⟩ hcur o0 o1 o2 hQ hqd han' hns har
      hF.oct hF.o3 hF.cur hF.tsig hF.edns hF.qd hF.an hF.ns hF.ar b mac hfin
    exact ⟨_, mac, hfin, gC, hF.tsig, hF.edns, hmac⟩
  · rw [hfin] at h4; cases h4
  · rw [hfin] at h4; cases h4

end QV.ServerScan
