/-
  QV.Proofs.Writer — helper lemmas about the writer model (`QV.Model.Writer`) for C12 / C13.

  Part 1: the state monad `M`, `writeAt`, the frame relation `Ext` (what every internal write
          step preserves) and the proof that every internal writer is a `Frame`.
-/
import QV.Model.Writer
import QV.Proofs.Wire

namespace QV.Writer
open QV QV.Wire

/-! ### the monad -/

@[simp] theorem M.bind_apply {α β} (x : M α) (f : α → M β) (s : State) :
    (x >>= f) s = match x s with
      | (.ok a, s') => f a s'
      | (.err e, s') => (.err e, s')
      | (.panic, s') => (.panic, s') := rfl

@[simp] theorem M.pure_apply {α} (a : α) (s : State) : (pure a : M α) s = (.ok a, s) := rfl
@[simp] theorem M.fail_apply {α} (e : WriterErr) (s : State) : (M.fail e : M α) s = (.err e, s) := rfl
@[simp] theorem M.panic_apply {α} (s : State) : (M.panic : M α) s = (.panic, s) := rfl
@[simp] theorem M.get_apply (s : State) : M.get s = (.ok s, s) := rfl
@[simp] theorem M.gets_apply {α} (f : State → α) (s : State) : M.gets f s = (.ok (f s), s) := rfl
@[simp] theorem M.modify_apply (f : State → State) (s : State) : M.modify f s = (.ok (), f s) := rfl

/-! ### `writeAt` -/

@[simp] theorem writeAt_size (a : Bytes) (pos : Nat) (d : List UInt8) :
    (writeAt a pos d).size = a.size := by
  induction d generalizing a pos with
  | nil => rfl
  | cons b bs ih => simp [writeAt, ih]

theorem writeAt_get_lt (a : Bytes) (pos : Nat) (d : List UInt8) (i : Nat) (h : i < pos) :
    (writeAt a pos d)[i]? = a[i]? := by
  induction d generalizing a pos with
  | nil => rfl
  | cons b bs ih =>
    simp only [writeAt]
    rw [ih _ _ (by omega)]
    simp [Array.getElem?_setIfInBounds]
    omega

theorem writeAt_get_ge (a : Bytes) (pos : Nat) (d : List UInt8) (i : Nat) (h : pos + d.length ≤ i) :
    (writeAt a pos d)[i]? = a[i]? := by
  induction d generalizing a pos with
  | nil => rfl
  | cons b bs ih =>
    simp only [writeAt]
    rw [ih _ _ (by simp at h; omega)]
    simp [Array.getElem?_setIfInBounds]
    simp at h; omega

theorem writeAt_get_in (a : Bytes) (pos : Nat) (d : List UInt8) (i : Nat) (h : i < d.length)
    (hs : pos + d.length ≤ a.size) : (writeAt a pos d)[pos + i]? = d[i]? := by
  induction d generalizing a pos i with
  | nil => simp at h
  | cons b bs ih =>
    simp only [writeAt]
    cases i with
    | zero =>
      rw [writeAt_get_lt _ _ _ _ (by omega)]
      simp [Array.getElem?_setIfInBounds]
      simp at hs; omega
    | succ j =>
      have := ih (a.setIfInBounds pos b) (pos + 1) j (by simp at h; omega) (by simp at hs ⊢; omega)
      rw [show pos + (j + 1) = pos + 1 + j by omega, this]
      simp

/-! ### the frame relation -/

@[simp] theorem gnew_trivial {g : Nat} {L : List Nat} {c : Nat} : (g ∈ L → g ∈ L ∨ c ≤ g) = True :=
  eq_true fun h => Or.inl h

/-- What no internal write step changes: the buffer below the cursor it started from, the
    buffer size, the limit bookkeeping, the counts and the configuration; the cursor only grows
    and stays below `available` if it was. -/
structure Ext (s s' : State) : Prop where
  size : s'.octets.size = s.octets.size
  cur : s.cursor ≤ s'.cursor
  avail : s.cursor ≤ s.available → s'.cursor ≤ s.available
  pre : ∀ i, i < s.cursor → s'.octets[i]? = s.octets[i]?
  limit : s'.limit = s.limit
  available : s'.available = s.available
  rrStart : s'.rrStart = s.rrStart
  qd : s'.qdcount = s.qdcount
  an : s'.ancount = s.ancount
  ns : s'.nscount = s.nscount
  ar : s'.arcount = s.arcount
  mode : s'.mode = s.mode
  edns : s'.edns = s.edns
  tsig : s'.tsig = s.tsig
  /-- ghost: the set of recorded label starts only grows -/
  glab : ∀ g, g ∈ s.gLabels → g ∈ s'.gLabels
  /-- ghost: label starts are only recorded at or above the cursor of the time -/
  gnew : ∀ g, g ∈ s'.gLabels → g ∈ s.gLabels ∨ s.cursor ≤ g

theorem Ext.refl (s : State) : Ext s s := by constructor <;> simp

theorem Ext.trans {a b c : State} (h1 : Ext a b) (h2 : Ext b c) : Ext a c := by
  constructor
  · rw [h2.size, h1.size]
  · exact Nat.le_trans h1.cur h2.cur
  · intro h
    have h3 := h1.avail h
    have := h2.avail (by rw [h1.available]; exact h3)
    rw [h1.available] at this; exact this
  · intro i hi
    rw [h2.pre i (by have := h1.cur; omega), h1.pre i hi]
  · rw [h2.limit, h1.limit]
  · rw [h2.available, h1.available]
  · rw [h2.rrStart, h1.rrStart]
  · rw [h2.qd, h1.qd]
  · rw [h2.an, h1.an]
  · rw [h2.ns, h1.ns]
  · rw [h2.ar, h1.ar]
  · rw [h2.mode, h1.mode]
  · rw [h2.edns, h1.edns]
  · rw [h2.tsig, h1.tsig]
  · exact fun g hg => h2.glab g (h1.glab g hg)
  · intro g hg
    rcases h2.gnew g hg with h | h
    · exact h1.gnew g h
    · exact Or.inr (Nat.le_trans h1.cur h)

/-- `f` is a frame: whatever its outcome, the state it leaves extends the state it started in -/
def Frame {α} (f : M α) : Prop := ∀ s, Ext s (f s).2

theorem frame_pure {α} (a : α) : Frame (pure a : M α) := fun s => Ext.refl s
theorem frame_fail {α} (e : WriterErr) : Frame (M.fail e : M α) := fun s => Ext.refl s
theorem frame_panic {α} : Frame (M.panic : M α) := fun s => Ext.refl s
theorem frame_get : Frame M.get := fun s => Ext.refl s

theorem frame_bind {α β} {f : M α} {g : α → M β} (hf : Frame f) (hg : ∀ a, Frame (g a)) :
    Frame (f >>= g) := by
  intro s
  have h1 := hf s
  simp only [M.bind_apply]
  cases hfs : f s with
  | mk r s' =>
    rw [hfs] at h1
    cases r with
    | ok a => exact Ext.trans h1 (hg a s')
    | err e => exact h1
    | panic => exact h1

/-- bind where the continuation may use the value read (`let s ← M.get`) -/
theorem frame_get_bind {β} {g : State → M β} (hg : ∀ a, Frame (g a)) : Frame (M.get >>= g) :=
  frame_bind frame_get hg

theorem frame_gets {α} (f : State → α) : Frame (M.gets f) := fun s => Ext.refl s

theorem frame_gets_bind {α β} {f : State → α} {g : α → M β} (hg : ∀ a, Frame (g a)) :
    Frame (M.gets f >>= g) := frame_bind (frame_gets f) hg

theorem frame_modify (f : State → State) (h : ∀ s, Ext s (f s)) : Frame (M.modify f) := h

theorem frame_tryPush (d : List UInt8) : Frame (tryPush d) := by
  intro s
  unfold tryPush
  split
  · exact Ext.refl s
  · split
    · split
      · constructor <;> simp
        · omega
        · intro i hi; exact writeAt_get_lt _ _ _ _ hi
      · exact Ext.refl s
    · exact Ext.refl s

theorem frame_setCtx (c : NameCtx) : Frame (setCtx c) := by
  intro s; constructor <;> simp [setCtx]

theorem frame_hvPush (p : Option Nat) : Frame (hvPush p) := by
  intro s
  simp only [hvPush, M.modify_apply]
  split
  · split
    · constructor <;> simp
    · exact Ext.refl s
  · exact Ext.refl s

theorem frame_pushPointer (p : Nat) : Frame (pushPointer p) := by
  unfold pushPointer
  refine frame_gets_bind fun ev => frame_bind (frame_tryPush _) fun _ => ?_
  intro s'; constructor <;> simp

theorem labelStartsFrom_le (c : Nat) (ls : List Label) : ∀ g ∈ labelStartsFrom c ls, c ≤ g := by
  induction ls generalizing c with
  | nil => intro g hg; simp [labelStartsFrom] at hg
  | cons l ls ih =>
    intro g hg
    simp only [labelStartsFrom, List.mem_cons] at hg
    rcases hg with rfl | hg
    · exact Nat.le_refl _
    · have := ih _ g hg; omega

/-- `try_push` of (part of) a name followed by the ghost record of its label positions -/
theorem ext_pushLabels (d : List UInt8) (l : List Label) (b : Bool) (s : State) :
    Ext s ((tryPush d >>= fun _ => ghostLabels s.cursor l b) s).2 := by
  simp only [M.bind_apply]
  unfold tryPush
  by_cases h1 : s.available < s.cursor
  · rw [if_pos h1]; exact Ext.refl s
  · rw [if_neg h1]
    by_cases h2 : s.available - s.cursor ≥ d.length
    · rw [if_pos h2]
      by_cases h3 : s.cursor + d.length ≤ s.octets.size
      · rw [if_pos h3]
        simp only [ghostLabels, M.modify_apply]
        constructor <;> simp
        · omega
        · intro i hi; exact writeAt_get_lt _ _ _ _ hi
        · intro g hg; exact Or.inr (Or.inr hg)
        · intro g hg
          rcases hg with ⟨_, rfl⟩ | hg | hg
          · right; omega
          · right; exact labelStartsFrom_le _ _ g hg
          · left; exact hg
      · rw [if_neg h3]; exact Ext.refl s
    · rw [if_neg h2]; exact Ext.refl s

theorem frame_writeUncompressedName (n : WName) : Frame (writeUncompressedName n) := by
  intro s
  unfold writeUncompressedName
  simp only [M.bind_apply, M.gets_apply]
  have := ext_pushLabels n.wire n.labels true s
  simp only [M.bind_apply] at this
  cases h1 : tryPush n.wire s with
  | mk r s1 =>
    rw [h1] at this
    cases r with
    | ok u =>
      simp only [] at this ⊢
      cases h2 : ghostLabels s.cursor n.labels true s1 with
      | mk r2 s2 =>
        rw [h2] at this
        cases r2 <;> exact this
    | err e => exact this
    | panic => exact this

theorem frame_writeCompressedUnhintedName (n : WName) : Frame (writeCompressedUnhintedName n) := by
  intro s
  unfold writeCompressedUnhintedName
  simp only [M.bind_apply, M.gets_apply]
  cases hd : compressDecision s.octets s.mode (s.mostRecentOwner.orElse fun _ => s.qname)
      s.mostRecentNameInRdata n with
  | panic => exact Ext.refl s
  | err e => exact Ext.refl s
  | ok r =>
  cases r with
  | none => exact frame_writeUncompressedName n s
  | some m =>
    simp only []
    split
    · exact frame_bind (frame_pushPointer _) (fun _ => frame_pure _) s
    · have := ext_pushLabels (n.wireTo m.startColumn) (n.labels.take m.startColumn) false s
      simp only [M.bind_apply] at this ⊢
      cases h1 : tryPush (n.wireTo m.startColumn) s with
      | mk r s1 =>
        rw [h1] at this
        cases r with
        | ok u =>
          simp only [] at this ⊢
          cases h2 : ghostLabels s.cursor (n.labels.take m.startColumn) false s1 with
          | mk r2 s2 =>
            rw [h2] at this
            cases r2 with
            | ok u2 =>
              simp only [] at this ⊢
              exact Ext.trans this (frame_bind (frame_pushPointer _) (fun _ => frame_pure _) s2)
            | err e => exact this
            | panic => exact this
        | err e => exact this
        | panic => exact this

theorem frame_writeUnhintedName (n : WName) : Frame (writeUnhintedName n) := by
  unfold writeUnhintedName
  refine frame_gets_bind fun m => ?_
  split
  · exact frame_writeCompressedUnhintedName n
  · exact frame_writeUncompressedName n

theorem frame_pushHinted (p : Prior) : Frame (pushHinted p) :=
  frame_bind (frame_pushPointer _) fun _ => frame_pure _

theorem frame_writeHintedName (h : Hint) (n : WName) : Frame (writeHintedName h n) := by
  unfold writeHintedName
  refine frame_gets_bind fun m => ?_
  split
  · exact frame_writeUncompressedName n
  · split
    · exact frame_writeCompressedUnhintedName n
    · split
      · refine frame_gets_bind fun q => ?_
        split
        · exact frame_pushHinted _
        · exact frame_writeCompressedUnhintedName n
      · refine frame_gets_bind fun q => ?_
        split
        · exact frame_pushHinted _
        · exact frame_writeCompressedUnhintedName n
      · refine frame_gets_bind fun q => ?_
        split
        · exact frame_pushHinted _
        · exact frame_writeCompressedUnhintedName n
      · refine frame_gets_bind fun q => ?_
        split
        · exact frame_pushHinted _
        · exact frame_writeCompressedUnhintedName n
      · exact frame_writeCompressedUnhintedName n

theorem frame_setAnchorRdata (p : Option Prior) :
    Frame (M.modify fun s => { s with mostRecentNameInRdata := p }) := by
  intro s; constructor <;> simp

theorem frame_writeComponents (ts : List CompType) (rd : List UInt8) : Frame (writeComponents ts rd) := by
  induction ts generalizing rd with
  | nil =>
    unfold writeComponents
    split
    · exact frame_pure _
    · exact frame_tryPush _
  | cons t ts ih =>
    cases t with
    | compressibleName =>
      unfold writeComponents
      split
      · exact frame_fail _
      · exact frame_bind (frame_setCtx _) fun _ => frame_bind (frame_writeUnhintedName _) fun p =>
          frame_bind (frame_setCtx _) fun _ => frame_bind (frame_setAnchorRdata _) fun _ =>
          frame_bind (frame_hvPush _) fun _ => ih _
    | uncompressibleName =>
      unfold writeComponents
      split
      · exact frame_fail _
      · exact frame_bind (frame_setCtx _) fun _ => frame_bind (frame_writeUncompressedName _) fun p =>
          frame_bind (frame_setCtx _) fun _ => frame_bind (frame_setAnchorRdata _) fun _ =>
          frame_bind (frame_hvPush _) fun _ => ih _
    | fixedLen k =>
      unfold writeComponents
      split
      · exact frame_fail _
      · exact frame_bind (frame_tryPush _) fun _ => ih _

end QV.Writer

namespace QV.Writer
open QV QV.Wire

/-- `M.get >>= g` where `g` may rely on what it read -/
theorem frame_get_bind' {β} {g : State → M β} (h : ∀ s, Ext s (g s s).2) : Frame (M.get >>= g) := by
  intro s; simpa using h s

theorem ext_write_above {s s2 : State} (h : Ext s s2) (pos : Nat) (d : List UInt8)
    (hp : s.cursor ≤ pos) : Ext s (write pos d s2).2 := by
  unfold write
  split
  · constructor <;> simp
    · exact h.size
    · exact h.cur
    · exact h.avail
    · intro i hi; rw [writeAt_get_lt _ _ _ _ (by omega)]; exact h.pre i hi
    · exact h.limit
    · exact h.available
    · exact h.rrStart
    · exact h.qd
    · exact h.an
    · exact h.ns
    · exact h.ar
    · exact h.mode
    · exact h.edns
    · exact h.tsig
    · exact h.glab
    · exact h.gnew
  · exact h

theorem frame_writeRdata (cls ty : Nat) (rd : List UInt8) : Frame (writeRdata cls ty rd) := by
  unfold writeRdata
  split
  · exact frame_writeComponents _ _
  · exact frame_panic

theorem frame_setOwner (p : Option Prior) :
    Frame (M.modify fun s => { s with mostRecentOwner := p }) := by
  intro s; constructor <;> simp

theorem frame_gets_bind' {α β} {f : State → α} {g : α → M β} (h : ∀ s, Ext s (g (f s) s).2) :
    Frame (M.gets f >>= g) := by
  intro s; simpa using h s

theorem frame_addRr (hint : Hint) (owner : WName) (ty cls ttl : Nat) (rd : List UInt8) :
    Frame (addRr hint owner ty cls ttl rd) := by
  unfold addRr
  refine frame_bind (frame_setCtx _) fun _ => frame_bind (frame_writeHintedName _ _) fun p =>
    frame_bind (frame_setCtx _) fun _ => frame_bind (frame_setOwner _) fun _ =>
    frame_bind (frame_tryPush _) fun _ => frame_bind (frame_tryPush _) fun _ =>
    frame_bind (frame_tryPush _) fun _ => frame_gets_bind' fun s => ?_
  simp only [M.bind_apply, M.gets_apply]
  split
  · exact Ext.refl s
  · split
    · exact Ext.refl s
    · rename_i h1 h2
      -- the two octets reserved for RDLENGTH, the components, then RDLENGTH written back
      have e1 : Ext s { s with cursor := s.cursor + 2 } := by
        constructor <;> simp
        omega
      simp only [M.bind_apply, M.modify_apply]
      have e2 := frame_writeRdata cls ty rd { s with cursor := s.cursor + 2 }
      cases hw : writeRdata cls ty rd { s with cursor := s.cursor + 2 } with
      | mk r s2 =>
        rw [hw] at e2
        have e12 := Ext.trans e1 e2
        cases r with
        | ok u =>
          simp only [M.gets_apply]
          split
          · exact e12
          · exact ext_write_above e12 _ _ (Nat.le_refl _)
        | err e => exact e12
        | panic => exact e12

theorem frame_addRrset (hint : Hint) (owner : WName) (ty cls ttl : Nat) (rds : List (List UInt8))
    (n : Nat) : Frame (addRrset hint owner ty cls ttl rds n) := by
  induction rds generalizing hint n with
  | nil => exact frame_pure _
  | cons rd rds ih =>
    unfold addRrset
    exact frame_bind (frame_addRr _ _ _ _ _ _) fun _ => ih _ _

/-! ### rollback -/

/-- what `with_rollback` restores after a failure -/
def restore (s s' : State) : State :=
  { s' with sect := s.sect, cursor := s.cursor, qname := s.qname,
            mostRecentOwner := s.mostRecentOwner,
            mostRecentNameInRdata := s.mostRecentNameInRdata,
            gLabels := s.gLabels, gPtrs := s.gPtrs, gCtx := s.gCtx }

theorem withRollback_apply {α} (f : M α) (s : State) :
    withRollback f s = match f s with
      | (.ok a, s') => (.ok a, s')
      | (.err e, s') => (.err e, restore s s')
      | (.panic, s') => (.panic, s') := rfl

/-- "The message is unchanged": every field of the writer except the caller's hint vector is
    what it was, and so is every octet below the cursor (the buffer keeps its size; octets at or
    above the cursor are scratch space that no later read depends on). -/
structure Same (s s' : State) : Prop where
  size : s'.octets.size = s.octets.size
  pre : ∀ i, i < s.cursor → s'.octets[i]? = s.octets[i]?
  cursor : s'.cursor = s.cursor
  limit : s'.limit = s.limit
  available : s'.available = s.available
  rrStart : s'.rrStart = s.rrStart
  sect : s'.sect = s.sect
  qd : s'.qdcount = s.qdcount
  an : s'.ancount = s.ancount
  ns : s'.nscount = s.nscount
  ar : s'.arcount = s.arcount
  qname : s'.qname = s.qname
  owner : s'.mostRecentOwner = s.mostRecentOwner
  inRdata : s'.mostRecentNameInRdata = s.mostRecentNameInRdata
  mode : s'.mode = s.mode
  edns : s'.edns = s.edns
  tsig : s'.tsig = s.tsig
  gLabels : s'.gLabels = s.gLabels
  gPtrs : s'.gPtrs = s.gPtrs
  gCtx : s'.gCtx = s.gCtx

theorem Same.refl (s : State) : Same s s := by constructor <;> simp

theorem same_restore {s s' : State} (h : Ext s s') : Same s (restore s s') := by
  constructor <;> simp [restore]
  · exact h.size
  · exact h.pre
  · exact h.limit
  · exact h.available
  · exact h.rrStart
  · exact h.qd
  · exact h.an
  · exact h.ns
  · exact h.ar
  · exact h.mode
  · exact h.edns
  · exact h.tsig

/-- changing only the section is invisible to `Ext` -/
theorem frame_changeSection (sec : RrSection) : Frame (changeSection sec) := by
  intro s
  unfold changeSection
  split <;> first | exact Ext.refl s | (constructor <;> simp)

end QV.Writer

namespace QV.Writer
open QV QV.Wire

/-! ### Part 2: the numeric invariant, outcome analysis of every public operation -/

/-- the numeric invariant of the writer -/
structure Inv (s : State) : Prop where
  hdr : 12 ≤ s.cursor
  cur_av : s.cursor ≤ s.available
  av_lim : s.available ≤ s.limit
  lim_size : s.limit ≤ s.octets.size
  reserved : s.limit - s.available =
    (if s.edns.isSome then Gen.OPT_RECORD_SIZE else 0) + (match s.tsig with | some t => t.reservedLen | none => 0)
  rr_lo : 12 ≤ s.rrStart
  rr_hi : s.rrStart ≤ s.cursor
  qd : s.qdcount ≤ 65535
  an : s.ancount ≤ 65535
  ns : s.nscount ≤ 65535
  ar : s.arcount ≤ 65535
  ar_ge : (if s.edns.isSome then 1 else 0) + (if s.tsig.isSome then 1 else 0) ≤ s.arcount

theorem inv_of_same {s s' : State} (h : Inv s) (e : Same s s') : Inv s' := by
  constructor
  · rw [e.cursor]; exact h.hdr
  · rw [e.cursor, e.available]; exact h.cur_av
  · rw [e.limit, e.available]; exact h.av_lim
  · rw [e.limit, e.size]; exact h.lim_size
  · rw [e.limit, e.available, e.edns, e.tsig]; exact h.reserved
  · rw [e.rrStart]; exact h.rr_lo
  · rw [e.rrStart, e.cursor]; exact h.rr_hi
  · rw [e.qd]; exact h.qd
  · rw [e.an]; exact h.an
  · rw [e.ns]; exact h.ns
  · rw [e.ar]; exact h.ar
  · rw [e.ar, e.edns, e.tsig]; exact h.ar_ge

/-- `Ext` keeps the invariant as long as the counts it does not speak about are fine -/
theorem inv_of_ext {s s' : State} (h : Inv s) (e : Ext s s') : Inv s' := by
  constructor
  · have := e.cur; have := h.hdr; omega
  · rw [e.available]; exact e.avail h.cur_av
  · rw [e.limit, e.available]; exact h.av_lim
  · rw [e.limit, e.size]; exact h.lim_size
  · rw [e.limit, e.available, e.edns, e.tsig]; exact h.reserved
  · rw [e.rrStart]; exact h.rr_lo
  · rw [e.rrStart]; have := e.cur; have := h.rr_hi; omega
  · rw [e.qd]; exact h.qd
  · rw [e.an]; exact h.an
  · rw [e.ns]; exact h.ns
  · rw [e.ar]; exact h.ar
  · rw [e.ar, e.edns, e.tsig]; exact h.ar_ge

/-- outcome analysis of the body of `add_*_rr` -/
theorem addRrOp_cases (sec : RrSection) (hint : Hint) (owner : WName) (ty cls ttl : Nat)
    (rd : List UInt8) (s : State) :
    match addRrOp sec hint owner ty cls ttl rd s with
    | (.ok _, s') => ∃ s1, Ext s s1 ∧ getCount sec s1 + 1 ≤ 65535 ∧
        s' = (setCount sec (getCount sec s1 + 1) s1).2
    | (.err _, s') => Same s s'
    | (.panic, s') => Ext s s' := by
  unfold addRrOp
  rw [withRollback_apply]
  simp only [M.bind_apply]
  cases h1 : changeSection sec s with
  | mk r1 s1 =>
    have e1 : Ext s s1 := by have := frame_changeSection sec s; rwa [h1] at this
    cases r1 with
    | err e => exact same_restore e1
    | panic => exact e1
    | ok u1 =>
      simp only []
      cases h2 : addRr hint owner ty cls (ttlFrom ttl) rd s1 with
      | mk r2 s2 =>
        have e2 : Ext s s2 := by
          have := frame_addRr hint owner ty cls (ttlFrom ttl) rd s1; rw [h2] at this
          exact Ext.trans e1 this
        cases r2 with
        | err e => exact same_restore e2
        | panic => exact e2
        | ok u2 =>
          simp only [M.gets_apply]
          by_cases hc : getCount sec s2 + 1 > 65535
          · rw [if_pos hc]; exact same_restore e2
          · rw [if_neg hc]
            exact ⟨s2, e2, by omega, rfl⟩


/-- outcome analysis of `add_*_rrset` -/
theorem addRrsetOp_cases (sec : RrSection) (hint : Hint) (owner : WName) (ty cls ttl : Nat)
    (rds : List (List UInt8)) (s : State) :
    match addRrsetOp sec hint owner ty cls ttl rds s with
    | (.ok _, s') => ∃ s1 n, Ext s s1 ∧ getCount sec s1 + n ≤ 65535 ∧
        s' = (setCount sec (getCount sec s1 + n) s1).2
    | (.err _, s') => Same s s'
    | (.panic, s') => Ext s s' := by
  unfold addRrsetOp
  rw [withRollback_apply]
  simp only [M.bind_apply]
  cases h1 : changeSection sec s with
  | mk r1 s1 =>
    have e1 : Ext s s1 := by have := frame_changeSection sec s; rwa [h1] at this
    cases r1 with
    | err e => exact same_restore e1
    | panic => exact e1
    | ok u1 =>
      simp only []
      cases h2 : addRrset hint owner ty cls (ttlFrom ttl) rds 0 s1 with
      | mk r2 s2 =>
        have e2 : Ext s s2 := by
          have := frame_addRrset hint owner ty cls (ttlFrom ttl) rds 0 s1; rw [h2] at this
          exact Ext.trans e1 this
        cases r2 with
        | err e => exact same_restore e2
        | panic => exact e2
        | ok n =>
          simp only [M.gets_apply]
          by_cases hn : n > 65535
          · rw [if_pos hn]; exact same_restore e2
          · rw [if_neg hn]
            by_cases hc : getCount sec s2 + n > 65535
            · rw [if_pos hc]; exact same_restore e2
            · rw [if_neg hc]
              exact ⟨s2, n, e2, by omega, rfl⟩

theorem frame_addQuestionBody (qn : WName) (qt qc : Nat) : Frame (addQuestionBody qn qt qc) := by
  unfold addQuestionBody
  refine frame_bind (frame_setCtx _) fun _ => frame_bind (frame_writeUnhintedName _) fun p =>
    frame_bind (frame_setCtx _) fun _ => frame_bind ?_ fun _ =>
    frame_bind (frame_tryPush _) fun _ => frame_tryPush _
  intro s
  simp only [M.modify_apply]
  split
  · constructor <;> simp
  · exact Ext.refl s

/-- outcome analysis of `add_question` -/
theorem addQuestion_cases (qn : WName) (qt qc : Nat) (s : State) :
    match addQuestion qn qt qc s with
    | (.ok _, s') => ∃ s1, Ext s s1 ∧ s.qdcount + 1 ≤ 65535 ∧
        s' = { s1 with qdcount := s1.qdcount + 1, rrStart := s1.cursor }
    | (.err _, s') => Same s s'
    | (.panic, s') => Ext s s' := by
  unfold addQuestion
  simp only [M.bind_apply, M.gets_apply]
  by_cases h1 : s.sect ≠ .question
  · rw [if_pos h1]; exact Same.refl s
  · rw [if_neg h1]
    by_cases h2 : s.qdcount + 1 > 65535
    · rw [if_pos h2]; exact Same.refl s
    · rw [if_neg h2]
      simp only [M.bind_apply, withRollback_apply, M.modify_apply]
      have e := frame_addQuestionBody qn qt qc s
      cases hb : addQuestionBody qn qt qc s with
      | mk r s1 =>
        rw [hb] at e
        cases r with
        | err e' => exact same_restore e
        | panic => exact e
        | ok u => exact ⟨s1, e, by omega, rfl⟩

end QV.Writer

namespace QV.Writer
open QV QV.Wire

/-! ### Part 3: every public operation keeps the invariant; a failed one changes nothing -/

theorem inv_octets {s : State} (h : Inv s) (o : Bytes) (ho : o.size = s.octets.size) :
    Inv { s with octets := o } := by
  constructor <;> simp
  · exact h.hdr
  · exact h.cur_av
  · exact h.av_lim
  · rw [ho]; exact h.lim_size
  · exact h.reserved
  · exact h.rr_lo
  · exact h.rr_hi
  · exact h.qd
  · exact h.an
  · exact h.ns
  · exact h.ar
  · exact h.ar_ge

theorem inv_hv {s : State} (h : Inv s) (v : Option HV) : Inv { s with hv := v } := by
  constructor <;> simp
  · exact h.hdr
  · exact h.cur_av
  · exact h.av_lim
  · exact h.lim_size
  · exact h.reserved
  · exact h.rr_lo
  · exact h.rr_hi
  · exact h.qd
  · exact h.an
  · exact h.ns
  · exact h.ar
  · exact h.ar_ge

theorem same_hv_left {s s' : State} (v : Option HV) (h : Same { s with hv := v } s') : Same s s' := by
  constructor
  · exact h.size
  · exact h.pre
  · exact h.cursor
  · exact h.limit
  · exact h.available
  · exact h.rrStart
  · exact h.sect
  · exact h.qd
  · exact h.an
  · exact h.ns
  · exact h.ar
  · exact h.qname
  · exact h.owner
  · exact h.inRdata
  · exact h.mode
  · exact h.edns
  · exact h.tsig
  · exact h.gLabels
  · exact h.gPtrs
  · exact h.gCtx

theorem same_hv_right {s s' : State} (v : Option HV) (h : Same s s') : Same s { s' with hv := v } := by
  constructor
  · exact h.size
  · exact h.pre
  · exact h.cursor
  · exact h.limit
  · exact h.available
  · exact h.rrStart
  · exact h.sect
  · exact h.qd
  · exact h.an
  · exact h.ns
  · exact h.ar
  · exact h.qname
  · exact h.owner
  · exact h.inRdata
  · exact h.mode
  · exact h.edns
  · exact h.tsig
  · exact h.gLabels
  · exact h.gPtrs
  · exact h.gCtx

/-- a step that can only succeed or panic, and keeps the invariant -/
def Total (f : M Unit) : Prop :=
  ∀ s, (∀ e, (f s).1 ≠ .err e) ∧ (Inv s → Inv (f s).2)

/-- a step whose failures leave the state exactly as it was, and that keeps the invariant -/
def Clean (f : M Unit) : Prop :=
  ∀ s, (∀ e, (f s).1 = .err e → (f s).2 = s) ∧ (Inv s → Inv (f s).2)

theorem total_write (pos : Nat) (d : List UInt8) : Total (write pos d) := by
  intro s
  unfold write
  split
  · exact ⟨(fun e h => by cases h), fun h => inv_octets h _ (by simp)⟩
  · exact ⟨(fun e h => by cases h), fun h => h⟩

theorem total_setHdr (i : Nat) (f : UInt8 → UInt8) : Total (setHdr i f) := by
  intro s
  unfold setHdr
  split
  · exact ⟨(fun e h => by cases h), fun h => inv_octets h _ (by simp)⟩
  · exact ⟨(fun e h => by cases h), fun h => h⟩

theorem total_setBit (b m : Nat) (v : Bool) : Total (setBit b m v) := total_setHdr _ _

theorem inv_edns_upper {s : State} (h : Inv s) (e : Edns) (he : s.edns = some e) (u : Nat) :
    Inv { s with edns := some { e with upper := u } } := by
  constructor <;> simp
  · exact h.hdr
  · exact h.cur_av
  · exact h.av_lim
  · exact h.lim_size
  · have := h.reserved; simp [he] at this; exact this
  · exact h.rr_lo
  · exact h.rr_hi
  · exact h.qd
  · exact h.an
  · exact h.ns
  · exact h.ar
  · have := h.ar_ge; simp [he] at this; exact this

theorem total_setRcode (v : Nat) : Total (setRcode v) := by
  intro s
  unfold setRcode
  simp only [M.bind_apply]
  have ht := total_setHdr Gen.RCODE_BYTE
    (fun b => (b &&& ~~~ (UInt8.ofNat Gen.RCODE_MASK)) ||| UInt8.ofNat v) s
  cases hs : setHdr Gen.RCODE_BYTE
    (fun b => (b &&& ~~~ (UInt8.ofNat Gen.RCODE_MASK)) ||| UInt8.ofNat v) s with
  | mk r s1 =>
    rw [hs] at ht
    cases r with
    | err e => exact absurd rfl (ht.1 e)
    | panic => exact ⟨(fun e h => by cases h), ht.2⟩
    | ok u =>
      simp only [M.modify_apply]
      refine ⟨(fun e h => by cases h), fun h => ?_⟩
      have h1 := ht.2 h
      cases he : s1.edns with
      | none => simp only [he]; exact h1
      | some e => simp only [he]; exact inv_edns_upper h1 e he 0

theorem clean_setExtendedRcode (v : Nat) : Clean (setExtendedRcode v) := by
  intro s
  unfold setExtendedRcode
  simp only [M.bind_apply, M.get_apply, M.gets_apply]
  cases he : s.edns with
  | none => exact ⟨(fun e h => rfl), fun h => h⟩
  | some ed =>
    simp only []
    by_cases hv : v > 4095
    · rw [if_pos hv]; exact ⟨(fun e h => rfl), fun h => h⟩
    · rw [if_neg hv]
      simp only [M.bind_apply]
      have ht := total_setHdr Gen.RCODE_BYTE (fun b => (b &&& ~~~ (UInt8.ofNat Gen.RCODE_MASK)) |||
              (UInt8.ofNat (v % 256) &&& UInt8.ofNat Gen.RCODE_MASK)) s
      cases hs : setHdr Gen.RCODE_BYTE (fun b => (b &&& ~~~ (UInt8.ofNat Gen.RCODE_MASK)) |||
              (UInt8.ofNat (v % 256) &&& UInt8.ofNat Gen.RCODE_MASK)) s with
      | mk r s1 =>
        rw [hs] at ht
        cases r with
        | err e => exact absurd rfl (ht.1 e)
        | panic => exact ⟨(fun e h => by cases h), ht.2⟩
        | ok u =>
          simp only [M.modify_apply]
          refine ⟨(fun e h => by cases h), fun h => ?_⟩
          have h1 := ht.2 h
          have hs1 : s1.edns = some ed := by
            unfold setHdr at hs
            split at hs
            · cases hs; exact he
            · cases hs
          exact inv_edns_upper h1 ed hs1 _

theorem total_setLimit (v : Nat) : Total (setLimit v) := by
  intro s
  unfold setLimit
  dsimp only
  refine ⟨fun e h => ?_, fun h => ?_⟩
  · revert h; repeat' split
    all_goals (intro h; cases h)
  · have := h.hdr; have := h.cur_av; have := h.av_lim; have := h.lim_size; have hr := h.reserved
    repeat' split
    all_goals first
      | exact h
      | (constructor <;> simp
         all_goals first
           | exact h.hdr | exact h.rr_lo | exact h.rr_hi | exact h.qd | exact h.an | exact h.ns
           | exact h.ar | exact h.ar_ge | omega | (rw [← hr]; omega))

theorem total_setCompressionMode (m : CMode) : Total (setCompressionMode m) := by
  intro s
  refine ⟨(fun e h => by cases h), fun h => ?_⟩
  constructor <;> simp [setCompressionMode]
  · exact h.hdr
  · exact h.cur_av
  · exact h.av_lim
  · exact h.lim_size
  · exact h.reserved
  · exact h.rr_lo
  · exact h.rr_hi
  · exact h.qd
  · exact h.an
  · exact h.ns
  · exact h.ar
  · exact h.ar_ge

theorem total_clearRrs : Total clearRrs := by
  intro s
  refine ⟨(fun e h => by cases h), fun h => ?_⟩
  have := h.hdr; have := h.cur_av; have := h.rr_lo; have := h.rr_hi
  constructor <;> simp [clearRrs]
  · exact h.rr_lo
  · omega
  · exact h.av_lim
  · exact h.lim_size
  · exact h.reserved
  · exact h.rr_lo
  · exact h.qd
  · split <;> split <;> omega
  · exact Nat.le_refl _

theorem clean_setEdns (p : Nat) : Clean (setEdns p) := by
  intro s
  unfold setEdns
  repeat' split
  all_goals first
    | exact ⟨(fun e h => rfl), fun h => h⟩
    | skip
  rename_i h1 h2 h3
  refine ⟨(fun e h => by cases h), fun h => ?_⟩
  have := h.hdr; have := h.cur_av; have := h.av_lim; have hr := h.reserved; have hg := h.ar_ge
  have hn : s.edns = none := by cases he : s.edns <;> simp_all
  simp [hn] at hr hg
  constructor <;> simp
  · exact h.hdr
  · omega
  · omega
  · exact h.lim_size
  · omega
  · exact h.rr_lo
  · exact h.rr_hi
  · exact h.qd
  · exact h.an
  · exact h.ns
  · omega
  · omega

theorem clean_setTsig (m : TsigMode) (rr : TsigRr) : Clean (setTsig m rr) := by
  intro s
  unfold setTsig
  repeat' split
  all_goals first
    | exact ⟨(fun e h => rfl), fun h => h⟩
    | skip
  rename_i h1 h2 h3
  refine ⟨(fun e h => by cases h), fun h => ?_⟩
  have := h.hdr; have := h.cur_av; have := h.av_lim; have hr := h.reserved; have hg := h.ar_ge
  have hn : s.tsig = none := by cases he : s.tsig <;> simp_all
  simp [hn] at hr hg
  constructor <;> simp
  · exact h.hdr
  · omega
  · omega
  · exact h.lim_size
  · omega
  · exact h.rr_lo
  · exact h.rr_hi
  · exact h.qd
  · exact h.an
  · exact h.ns
  · omega
  · omega

theorem clean_updateTimeSigned (t : List UInt8) : Clean (updateTimeSigned t) := by
  intro s
  unfold updateTimeSigned
  split
  · rename_i ts hts
    refine ⟨(fun e h => by cases h), fun h => ?_⟩
    have hr := h.reserved; have hg := h.ar_ge
    simp [hts] at hr hg
    constructor <;> simp
    · exact h.hdr
    · exact h.cur_av
    · exact h.av_lim
    · exact h.lim_size
    · exact hr
    · exact h.rr_lo
    · exact h.rr_hi
    · exact h.qd
    · exact h.an
    · exact h.ns
    · exact h.ar
    · exact hg
  · exact ⟨(fun e h => rfl), fun h => h⟩

end QV.Writer

namespace QV.Writer
open QV QV.Wire

/-! ### templates -/

/-- reserved length of an optional TSIG configuration -/
def tsigReserved : Option Tsig → Nat
  | some t => t.reservedLen
  | none => 0

theorem inv_reserved' {s : State} (h : Inv s) :
    s.limit - s.available = (if s.edns.isSome then Gen.OPT_RECORD_SIZE else 0) + tsigReserved s.tsig := by
  have := h.reserved
  cases ht : s.tsig <;> simp [ht, tsigReserved] at this ⊢ <;> exact this

theorem extract_toList_length (a : Bytes) (n : Nat) (h : n ≤ a.size) :
    (a.extract 0 n).toList.length = n := by
  simp; omega

theorem tryFromTemplateImpl_inv {s s' : State} {t : Template} (buf : Bytes) (ts : Option Tsig)
    (h : Inv s) (ht : intoTemplate s = .ok t) (hr : tsigReserved ts = tsigReserved s.tsig)
    (hsome : ts.isSome = s.tsig.isSome)
    (h' : tryFromTemplateImpl buf t ts = .ok s') : Inv s' := by
  have h1 := h.hdr; have h2 := h.cur_av; have h3 := h.av_lim; have h4 := h.lim_size
  have h5 := inv_reserved' h
  unfold intoTemplate at ht
  rw [if_neg (by omega), if_neg (by omega)] at ht
  cases ht
  unfold tryFromTemplateImpl at h'
  simp only [extract_toList_length _ _ (show s.cursor ≤ s.octets.size by omega)] at h'
  split at h'
  · cases h'
  · split at h'
    · cases h'
    · cases h'
      rename_i g1 g2
      constructor <;> simp
      · exact h1
      · omega
      · omega
      · have := h.reserved
        cases hts : ts <;> cases hst : s.tsig <;> simp_all [tsigReserved] <;> omega
      · exact h.rr_lo
      · exact h.rr_hi
      · exact h.qd
      · exact h.an
      · exact h.ns
      · exact h.ar
      · have := h.ar_ge; rw [hsome]; exact this

theorem tryFromTemplate_same {s s' : State} {t : Template} (fill : UInt8)
    (h : Inv s) (ht : intoTemplate s = .ok t)
    (h' : tryFromTemplate (Array.replicate s.octets.size fill) t = .ok s') : Same s s' := by
  have h1 := h.hdr; have h2 := h.cur_av; have h3 := h.av_lim; have h4 := h.lim_size
  unfold intoTemplate at ht
  rw [if_neg (by omega), if_neg (by omega)] at ht
  cases ht
  unfold tryFromTemplate tryFromTemplateImpl at h'
  simp only [extract_toList_length _ _ (show s.cursor ≤ s.octets.size by omega)] at h'
  split at h'
  · cases h'
  · split at h'
    · cases h'
    · cases h'
      constructor <;> simp
      · intro i hi
        have := writeAt_get_in (Array.replicate s.octets.size fill) 0
          (List.take s.cursor s.octets.toList) i (by simp; omega) (by simp; omega)
        simp only [Nat.zero_add] at this
        rw [this, List.getElem?_take]
        simp [hi]
      · omega
      · omega

theorem tryFromTemplate_fallback_ok {s : State} {t : Template} (fill : UInt8)
    (h : Inv s) (ht : intoTemplate s = .ok t) :
    ∃ s', tryFromTemplate (Array.replicate s.octets.size fill) t = .ok s' := by
  have h1 := h.hdr; have h2 := h.cur_av; have h3 := h.av_lim; have h4 := h.lim_size
  unfold intoTemplate at ht
  rw [if_neg (by omega), if_neg (by omega)] at ht
  cases ht
  unfold tryFromTemplate tryFromTemplateImpl
  simp only [extract_toList_length _ _ (show s.cursor ≤ s.octets.size by omega)]
  rw [if_neg (by simp; omega), if_neg (by simp; omega)]
  exact ⟨_, rfl⟩

theorem intoTemplate_ok {s : State} (h : Inv s) : ∃ t, intoTemplate s = .ok t := by
  have h1 := h.hdr; have h2 := h.cur_av; have h3 := h.av_lim; have h4 := h.lim_size
  unfold intoTemplate
  rw [if_neg (by omega), if_neg (by omega)]
  exact ⟨_, rfl⟩

theorem intoTemplate_tsig {s : State} {t : Template} (ht : intoTemplate s = .ok t) : t.tsig = s.tsig := by
  unfold intoTemplate at ht
  split at ht
  · cases ht
  · split at ht
    · cases ht
    · cases ht; rfl

/-- the constructors passed to `retemplate` keep the TSIG reservation -/
def KeepsReservation (mk : Bytes → Template → Out WriterErr State) : Prop :=
  ∀ buf t s', mk buf t = .ok s' →
    ∃ ts, tryFromTemplateImpl buf t ts = .ok s' ∧ tsigReserved ts = tsigReserved t.tsig ∧
      ts.isSome = t.tsig.isSome

theorem keeps_tryFromTemplate : KeepsReservation tryFromTemplate := by
  intro buf t s' h
  exact ⟨t.tsig, h, rfl, rfl⟩

theorem keeps_subsequent (mac : List UInt8) :
    KeepsReservation (fun b t => tryFromTemplateAsTsigSubsequent b t mac) := by
  intro buf t s' h
  simp only [tryFromTemplateAsTsigSubsequent] at h
  split at h
  · rename_i ts hts
    split at h
    all_goals first
      | exact ⟨_, h, by simp [tsigReserved, hts], by simp [hts]⟩
      | cases h
  · cases h

theorem retemplate_inv (ss : Session) (n : Nat) (fill : UInt8)
    (mk : Bytes → Template → Out WriterErr State) (hk : KeepsReservation mk) (h : Inv ss.w) :
    Inv (retemplate ss n fill mk).2.w := by
  unfold retemplate
  obtain ⟨t, ht⟩ := intoTemplate_ok h
  rw [ht]
  simp only []
  cases hm : mk (Array.replicate n fill) t with
  | ok s' =>
    simp only []
    obtain ⟨ts, h1, h2, h3⟩ := hk _ _ _ hm
    rw [intoTemplate_tsig ht] at h2 h3
    exact tryFromTemplateImpl_inv _ ts h ht h2 h3 h1
  | err e =>
    simp only []
    obtain ⟨s', hs'⟩ := tryFromTemplate_fallback_ok fill h ht
    rw [hs']
    exact tryFromTemplateImpl_inv _ t.tsig h ht (by rw [intoTemplate_tsig ht])
      (by rw [intoTemplate_tsig ht]) hs'
  | panic =>
    simp only []
    obtain ⟨s', hs'⟩ := tryFromTemplate_fallback_ok fill h ht
    rw [hs']
    exact tryFromTemplateImpl_inv _ t.tsig h ht (by rw [intoTemplate_tsig ht])
      (by rw [intoTemplate_tsig ht]) hs'

theorem retemplate_err_same (ss : Session) (n : Nat) (fill : UInt8)
    (mk : Bytes → Template → Out WriterErr State) (h : Inv ss.w) (e : WriterErr)
    (he : (retemplate ss n fill mk).1 = .err e) : Same ss.w (retemplate ss n fill mk).2.w := by
  unfold retemplate at he ⊢
  obtain ⟨t, ht⟩ := intoTemplate_ok h
  rw [ht] at he ⊢
  simp only [] at he ⊢
  cases hm : mk (Array.replicate n fill) t with
  | ok s' => rw [hm] at he; cases he
  | err e' =>
    simp only []
    obtain ⟨s', hs'⟩ := tryFromTemplate_fallback_ok fill h ht
    rw [hs']
    exact tryFromTemplate_same fill h ht hs'
  | panic =>
    rw [hm] at he
    simp only [] at he
    obtain ⟨s', hs'⟩ := tryFromTemplate_fallback_ok fill h ht
    rw [hs'] at he
    cases he

end QV.Writer

namespace QV.Writer
open QV QV.Wire

/-! ### the session step -/

theorem inv_setCount {s : State} (h : Inv s) (sec : RrSection) (n : Nat)
    (hn : getCount sec s + n ≤ 65535) : Inv (setCount sec (getCount sec s + n) s).2 := by
  have hg := h.ar_ge
  cases sec <;> simp only [setCount, getCount, M.modify_apply] at hn ⊢
  all_goals
    constructor <;> simp
    all_goals first
      | exact h.hdr | exact h.cur_av | exact h.av_lim | exact h.lim_size | exact h.reserved
      | exact h.rr_lo | exact h.rr_hi | exact h.qd | exact h.an | exact h.ns | exact h.ar
      | exact hn | omega

/-- a `Total` step as a session step -/
theorem liftW_total {f : M Unit} (ht : Total f) (ss : Session) :
    (Inv ss.w → Inv (liftW ss f).2.w) ∧ (∀ e, (liftW ss f).1 ≠ .err e) := by
  unfold liftW
  have := ht ss.w
  cases hf : f ss.w with
  | mk r s1 => rw [hf] at this; exact ⟨this.2, this.1⟩

theorem liftW_clean {f : M Unit} (ht : Clean f) (ss : Session) :
    (Inv ss.w → Inv (liftW ss f).2.w) ∧ (∀ e, (liftW ss f).1 = .err e → (liftW ss f).2.w = ss.w) := by
  unfold liftW
  have := ht ss.w
  cases hf : f ss.w with
  | mk r s1 => rw [hf] at this; exact ⟨this.2, this.1⟩

theorem withHv_fst (ss : Session) (slot : Option Nat) (f : M Unit) :
    (withHv ss slot f).1 = (f { ss.w with hv := slot.map (hvGet ss.hvs) }).1 := by
  unfold withHv
  dsimp only

theorem withHv_w (ss : Session) (slot : Option Nat) (f : M Unit) :
    (withHv ss slot f).2.w = { (f { ss.w with hv := slot.map (hvGet ss.hvs) }).2 with hv := none } := by
  unfold withHv
  dsimp only

/-- an operation wrapped in `with_rollback`, analysed: success extends the state and bumps one
    count; failure changes nothing; a panic leaves an extension of the state -/
def Rolled (f : M Unit) : Prop :=
  ∀ s, match f s with
    | (.ok _, s') => ∃ s1 sec n, Ext s s1 ∧ getCount sec s1 + n ≤ 65535 ∧
        s' = (setCount sec (getCount sec s1 + n) s1).2
    | (.err _, s') => Same s s'
    | (.panic, s') => Ext s s'

theorem rolled_addRrOp (sec : RrSection) (hint : Hint) (owner : WName) (ty cls ttl : Nat)
    (rd : List UInt8) : Rolled (addRrOp sec hint owner ty cls ttl rd) := by
  intro s
  have := addRrOp_cases sec hint owner ty cls ttl rd s
  cases hf : addRrOp sec hint owner ty cls ttl rd s with
  | mk r s1 =>
    rw [hf] at this
    cases r with
    | ok u => obtain ⟨s2, e, hn, rfl⟩ := this; exact ⟨s2, sec, 1, e, hn, rfl⟩
    | err e => exact this
    | panic => exact this

theorem rolled_addRrsetOp (sec : RrSection) (hint : Hint) (owner : WName) (ty cls ttl : Nat)
    (rds : List (List UInt8)) : Rolled (addRrsetOp sec hint owner ty cls ttl rds) := by
  intro s
  have := addRrsetOp_cases sec hint owner ty cls ttl rds s
  cases hf : addRrsetOp sec hint owner ty cls ttl rds s with
  | mk r s1 =>
    rw [hf] at this
    cases r with
    | ok u => obtain ⟨s2, n, e, hn, rfl⟩ := this; exact ⟨s2, sec, n, e, hn, rfl⟩
    | err e => exact this
    | panic => exact this

theorem withHv_rolled {f : M Unit} (hr : Rolled f) (ss : Session) (slot : Option Nat) :
    (Inv ss.w → Inv (withHv ss slot f).2.w) ∧
    (∀ e, (withHv ss slot f).1 = .err e → Same ss.w (withHv ss slot f).2.w) := by
  rw [withHv_fst, withHv_w]
  have hc := hr { ss.w with hv := slot.map (hvGet ss.hvs) }
  cases hf : f { ss.w with hv := slot.map (hvGet ss.hvs) } with
  | mk r s1 =>
    rw [hf] at hc
    cases r with
    | ok u =>
      obtain ⟨s2, sec, n, e2, hn, rfl⟩ := hc
      exact ⟨fun h => inv_hv (inv_setCount (inv_of_ext (inv_hv h _) e2) sec n hn) none,
             fun e he => by cases he⟩
    | err e =>
      exact ⟨fun h => inv_hv (inv_of_same (inv_hv h _) hc) none,
             fun e' _ => same_hv_right none (same_hv_left _ hc)⟩
    | panic =>
      exact ⟨fun h => inv_hv (inv_of_ext (inv_hv h _) hc) none, fun e he => by cases he⟩

theorem addQuestion_step (ss : Session) (qn : WName) (qt qc : Nat) :
    (Inv ss.w → Inv (liftW ss (addQuestion qn qt qc)).2.w) ∧
    (∀ e, (liftW ss (addQuestion qn qt qc)).1 = .err e →
      Same ss.w (liftW ss (addQuestion qn qt qc)).2.w) := by
  unfold liftW
  have hc := addQuestion_cases qn qt qc ss.w
  cases hf : addQuestion qn qt qc ss.w with
  | mk r s1 =>
    rw [hf] at hc
    cases r with
    | ok u =>
      obtain ⟨s2, e2, hn, rfl⟩ := hc
      refine ⟨fun h => ?_, fun e he => by cases he⟩
      have h2 := inv_of_ext h e2
      have hq := e2.qd
      constructor <;> simp
      · exact h2.hdr
      · exact h2.cur_av
      · exact h2.av_lim
      · exact h2.lim_size
      · exact h2.reserved
      · exact h2.hdr
      · omega
      · exact h2.an
      · exact h2.ns
      · exact h2.ar
      · exact h2.ar_ge
    | err e => exact ⟨fun h => inv_of_same h hc, fun e' _ => hc⟩
    | panic => exact ⟨fun h => inv_of_ext h hc, fun e he => by cases he⟩

/-- **(a)** every public call keeps the invariant, whatever its outcome -/
theorem step_inv (ss : Session) (op : Op) (h : Inv ss.w) : Inv (step ss op).2.w := by
  cases op with
  | setId v => exact (liftW_total (total_write _ _) ss).1 h
  | setQr b => exact (liftW_total (total_setBit _ _ _) ss).1 h
  | setAa b => exact (liftW_total (total_setBit _ _ _) ss).1 h
  | setTc b => exact (liftW_total (total_setBit _ _ _) ss).1 h
  | setRd b => exact (liftW_total (total_setBit _ _ _) ss).1 h
  | setRa b => exact (liftW_total (total_setBit _ _ _) ss).1 h
  | setOpcode v => exact (liftW_total (total_setHdr _ _) ss).1 h
  | setRcode v => exact (liftW_total (total_setRcode _) ss).1 h
  | setExtendedRcode v => exact (liftW_clean (clean_setExtendedRcode _) ss).1 h
  | setLimit v => exact (liftW_total (total_setLimit _) ss).1 h
  | setMode m => exact (liftW_total (total_setCompressionMode _) ss).1 h
  | addQuestion n t c => exact (addQuestion_step ss n t c).1 h
  | addRr sec hn o ty cls ttl rd hv => exact (withHv_rolled (rolled_addRrOp _ _ _ _ _ _ _) ss hv).1 h
  | addRrset sec hn o ty cls ttl rds hv => exact (withHv_rolled (rolled_addRrsetOp _ _ _ _ _ _ _) ss hv).1 h
  | clearRrs => exact (liftW_total total_clearRrs ss).1 h
  | setEdns p => exact (liftW_clean (clean_setEdns _) ss).1 h
  | setTsig m rr => exact (liftW_clean (clean_setTsig _ _) ss).1 h
  | updateTimeSigned t => exact (liftW_clean (clean_updateTimeSigned _) ss).1 h
  | template n fill => exact retemplate_inv ss n fill _ keeps_tryFromTemplate h
  | templateSubsequent n fill mac => exact retemplate_inv ss n fill _ (keeps_subsequent mac) h
  | getters => exact h

/-- **(c)** a call that fails leaves the writer as it was (`Same`) -/
theorem step_err_same (ss : Session) (op : Op) (h : Inv ss.w) (e : WriterErr)
    (he : (step ss op).1 = .err e) : Same ss.w (step ss op).2.w := by
  cases op with
  | setId v => exact absurd he ((liftW_total (total_write _ _) ss).2 e)
  | setQr b => exact absurd he ((liftW_total (total_setBit _ _ _) ss).2 e)
  | setAa b => exact absurd he ((liftW_total (total_setBit _ _ _) ss).2 e)
  | setTc b => exact absurd he ((liftW_total (total_setBit _ _ _) ss).2 e)
  | setRd b => exact absurd he ((liftW_total (total_setBit _ _ _) ss).2 e)
  | setRa b => exact absurd he ((liftW_total (total_setBit _ _ _) ss).2 e)
  | setOpcode v => exact absurd he ((liftW_total (total_setHdr _ _) ss).2 e)
  | setRcode v => exact absurd he ((liftW_total (total_setRcode _) ss).2 e)
  | setExtendedRcode v =>
    have := (liftW_clean (clean_setExtendedRcode v) ss).2 e he
    simp only [step]; rw [this]; exact Same.refl _
  | setLimit v => exact absurd he ((liftW_total (total_setLimit _) ss).2 e)
  | setMode m => exact absurd he ((liftW_total (total_setCompressionMode _) ss).2 e)
  | addQuestion n t c => exact (addQuestion_step ss n t c).2 e he
  | addRr sec hn o ty cls ttl rd hv => exact (withHv_rolled (rolled_addRrOp _ _ _ _ _ _ _) ss hv).2 e he
  | addRrset sec hn o ty cls ttl rds hv => exact (withHv_rolled (rolled_addRrsetOp _ _ _ _ _ _ _) ss hv).2 e he
  | clearRrs => exact absurd he ((liftW_total total_clearRrs ss).2 e)
  | setEdns p =>
    have := (liftW_clean (clean_setEdns p) ss).2 e he
    simp only [step]; rw [this]; exact Same.refl _
  | setTsig m rr =>
    have := (liftW_clean (clean_setTsig m rr) ss).2 e he
    simp only [step]; rw [this]; exact Same.refl _
  | updateTimeSigned t =>
    have := (liftW_clean (clean_updateTimeSigned t) ss).2 e he
    simp only [step]; rw [this]; exact Same.refl _
  | template n fill => exact retemplate_err_same ss n fill _ h e he
  | templateSubsequent n fill mac => exact retemplate_err_same ss n fill _ h e he
  | getters => cases he

/-- the invariant holds after any sequence of calls -/
theorem run_inv (ss : Session) (ops : List Op) (h : Inv ss.w) : Inv (run ss ops).1.w := by
  induction ops generalizing ss with
  | nil => exact h
  | cons op ops ih =>
    unfold run
    have h1 := step_inv ss op h
    cases hs : step ss op with
    | mk r ss' =>
      rw [hs] at h1
      cases r with
      | panic => exact h1
      | ok u =>
        simp only []
        have := ih ss' h1
        cases hr : run ss' ops with
        | mk ss'' rs => rw [hr] at this; exact this
      | err e =>
        simp only []
        have := ih ss' h1
        cases hr : run ss' ops with
        | mk ss'' rs => rw [hr] at this; exact this

/-- `Writer::new` establishes the invariant -/
theorem new_inv (buf : Bytes) (limit : Nat) (s : State) (h : Writer.new buf limit = .ok s) : Inv s := by
  unfold Writer.new at h
  dsimp only at h
  split at h
  · cases h
  · rename_i hl
    have hs := Out.ok.inj h
    subst hs
    have h12 : Gen.HEADER_SIZE = 12 := rfl
    rw [h12] at hl
    have hz : (zeroHeader buf).size = buf.size := by unfold zeroHeader; exact writeAt_size _ _ _
    constructor
    all_goals simp only [h12, hz, Option.isSome_none, Nat.sub_self, Nat.le_refl]
    all_goals first | omega | simp

end QV.Writer

namespace QV.Writer
open QV QV.Wire

/-! ### Part 4: partial-correctness triples, `finish` -/

/-- if `f` starts in a state satisfying `P` and succeeds with `a`, the result satisfies `Q a` -/
def Tri {α} (P : State → Prop) (f : M α) (Q : α → State → Prop) : Prop :=
  ∀ s, P s → ∀ a s', f s = (.ok a, s') → Q a s'

theorem tri_bind {α β} {P : State → Prop} {f : M α} {Q : α → State → Prop} {g : α → M β}
    {R : β → State → Prop} (hf : Tri P f Q) (hg : ∀ a, Tri (Q a) (g a) R) : Tri P (f >>= g) R := by
  intro s hp b s' h
  simp only [M.bind_apply] at h
  cases hfs : f s with
  | mk r s1 =>
    rw [hfs] at h
    cases r with
    | ok a => exact hg a s1 (hf s hp a s1 hfs) b s' h
    | err e => cases h
    | panic => cases h

theorem tri_pure {α} {P : State → Prop} (a : α) : Tri P (pure a : M α) (fun b s => b = a ∧ P s) := by
  intro s hp b s' h; cases h; exact ⟨rfl, hp⟩

theorem tri_get {P : State → Prop} : Tri P M.get (fun a s => a = s ∧ P s) := by
  intro s hp b s' h; cases h; exact ⟨rfl, hp⟩

theorem tri_modify {P : State → Prop} (f : State → State) :
    Tri P (M.modify f) (fun _ s => ∃ s0, P s0 ∧ s = f s0) := by
  intro s hp b s' h; cases h; exact ⟨s, hp, rfl⟩

theorem tri_weaken {α} {P P' : State → Prop} {f : M α} {Q Q' : α → State → Prop}
    (h : Tri P f Q) (hp : ∀ s, P' s → P s) (hq : ∀ a s, Q a s → Q' a s) : Tri P' f Q' :=
  fun s hp' a s' hf => hq a s' (h s (hp s hp') a s' hf)

theorem tri_unwrap {α} {P : State → Prop} {f : M α} {Q : α → State → Prop} (h : Tri P f Q) :
    Tri P (unwrap f) Q := by
  intro s hp a s' hu
  unfold unwrap at hu
  cases hf : f s with
  | mk r s1 =>
    rw [hf] at hu
    cases r with
    | ok b => cases hu; exact h s hp _ _ hf
    | err e => cases hu
    | panic => cases hu

/-- a frame as a triple -/
theorem tri_of_frame {α} {f : M α} (hf : Frame f) (s0 : State) :
    Tri (fun s => s = s0) f (fun _ s => Ext s0 s) := by
  intro s hs a s' h
  subst hs
  have := hf s; rw [h] at this; exact this

/-- room for `k` more reserved octets behind the cursor, within an unchanged limit -/
def Room (s0 : State) (k : Nat) (s : State) : Prop :=
  s.limit = s0.limit ∧ s.octets.size = s0.octets.size ∧ s.cursor ≤ s.available ∧
  s.available + k ≤ s.limit ∧ s.edns = s0.edns

theorem room_write (s0 : State) (k pos : Nat) (d : List UInt8) :
    Tri (Room s0 k) (write pos d) (fun _ => Room s0 k) := by
  intro s hp a s' h
  unfold write at h
  split at h
  · cases h; exact ⟨hp.1, by simp [hp.2.1], hp.2.2.1, hp.2.2.2.1, hp.2.2.2.2⟩
  · cases h

theorem room_frame {α} {f : M α} (hf : Frame f) (s0 : State) (k : Nat) :
    Tri (Room s0 k) f (fun _ => Room s0 k) := by
  intro s hp a s' h
  have e := hf s; rw [h] at e
  refine ⟨by rw [e.limit]; exact hp.1, by rw [e.size]; exact hp.2.1, ?_, ?_, by rw [e.edns]; exact hp.2.2.2.2⟩
  · rw [e.available]; exact e.avail hp.2.2.1
  · rw [e.available, e.limit]; exact hp.2.2.2.1

theorem room_finishCounts (s : State) (k qd an ns ar : Nat) :
    Tri (Room s k) (finishCounts qd an ns ar) (fun _ => Room s k) :=
  tri_bind (room_write _ _ _ _) fun _ => tri_bind (room_write _ _ _ _) fun _ =>
    tri_bind (room_write _ _ _ _) fun _ => room_write _ _ _ _

theorem room_finishOpt' (s : State)
    (hres : s.limit - s.available = (if s.edns.isSome then Gen.OPT_RECORD_SIZE else 0) + tsigReserved s.tsig) :
    Tri (Room s (s.limit - s.available)) (finishOpt s.edns) (fun _ => Room s (tsigReserved s.tsig)) := by
  unfold finishOpt
  cases he : s.edns with
  | none =>
    simp only [he] at hres ⊢
    intro s1 hp a s2 hh; cases hh
    refine ⟨hp.1, hp.2.1, hp.2.2.1, ?_, hp.2.2.2.2⟩
    have := hp.2.2.2.1; simp at hres; omega
  | some e =>
    simp only [he] at hres ⊢
    refine tri_bind (Q := fun _ => Room s (tsigReserved s.tsig)) ?_ fun _ =>
      tri_unwrap (room_frame (frame_addRr _ _ _ _ _ _) _ _)
    intro s1 hp a s2 hh; cases hh
    simp at hres
    exact ⟨hp.1, hp.2.1, by have := hp.2.2.1; simp; omega, by have := hp.2.2.2.1; simp; omega, hp.2.2.2.2⟩

theorem room_finishOpt (s : State) (h : Inv s) :
    Tri (Room s (s.limit - s.available)) (finishOpt s.edns) (fun _ => Room s (tsigReserved s.tsig)) :=
  room_finishOpt' s (inv_reserved' h)

theorem room_finishTsig (macFn : Tsig → List UInt8 → List UInt8) (s : State) :
    Tri (Room s (tsigReserved s.tsig)) (finishTsig macFn s.tsig)
      (fun r s2 => r.1 = s2.cursor ∧ Room s 0 s2) := by
  unfold finishTsig
  cases ht : s.tsig with
  | none =>
    simp only [tsigReserved]
    intro s1 hp a s2 hh
    simp only [M.bind_apply, M.gets_apply, M.pure_apply] at hh
    cases hh; exact ⟨rfl, hp⟩
  | some ts =>
    simp only [tsigReserved]
    intro s1 hp a s2 hh
    simp only [M.bind_apply, M.gets_apply] at hh
    by_cases hc : s1.cursor > s1.octets.size
    · rw [if_pos hc] at hh; cases hh
    · rw [if_neg hc] at hh
      simp only [M.bind_apply, M.modify_apply] at hh
      have hroom : Room s 0 { s1 with tsig := none, available := s1.available + ts.reservedLen } :=
        ⟨hp.1, hp.2.1, by have := hp.2.2.1; simp; omega, by have := hp.2.2.2.1; simp; omega, hp.2.2.2.2⟩
      generalize hrd : tsigRdata ts.rr (tsigAlgName ts.mode) _ = rdata at hh
      have t3 := tri_unwrap (room_frame (frame_addRr .none ts.rr.keyName T_TSIG QC_ANY (ttlFrom 0) rdata) s 0)
      cases hu : unwrap (addRr .none ts.rr.keyName T_TSIG QC_ANY (ttlFrom 0) rdata)
          { s1 with tsig := none, available := s1.available + ts.reservedLen } with
      | mk r s3 =>
        rw [hu] at hh
        cases r with
        | ok u =>
          simp only [M.gets_apply, M.pure_apply] at hh
          cases hh
          exact ⟨rfl, t3 _ hroom _ _ hu⟩
        | err e => cases hh
        | panic => cases hh

/-- **(b)** the finished message never exceeds the limit in effect -/
theorem finishWithMac_len' (macFn : Tsig → List UInt8 → List UInt8) (s : State)
    (h1 : s.cursor ≤ s.available) (h2 : s.available ≤ s.limit)
    (hres : s.limit - s.available = (if s.edns.isSome then Gen.OPT_RECORD_SIZE else 0) + tsigReserved s.tsig)
    (len : Nat) (mac : Option (List UInt8)) (s' : State)
    (hf : finishWithMac macFn s = (.ok (len, mac), s')) :
    len ≤ s.limit ∧ len = s'.cursor ∧ s'.octets.size = s.octets.size := by
  have hroom0 : Room s (s.limit - s.available) s := ⟨rfl, rfl, h1, by omega, rfl⟩
  have all : Tri (Room s (s.limit - s.available))
      (finishCounts s.qdcount s.ancount s.nscount s.arcount >>= fun _ =>
        finishOpt s.edns >>= fun _ => finishTsig macFn s.tsig)
      (fun r s2 => r.1 = s2.cursor ∧ Room s 0 s2) :=
    tri_bind (room_finishCounts s _ _ _ _ _) fun _ => tri_bind (room_finishOpt' s hres) fun _ =>
      room_finishTsig macFn s
  have hf' : (finishCounts s.qdcount s.ancount s.nscount s.arcount >>= fun _ =>
        finishOpt s.edns >>= fun _ => finishTsig macFn s.tsig) s
      = (.ok (len, mac), s') := hf
  have := all s hroom0 _ _ hf'
  obtain ⟨hl, hlim, hsz, hc, ha, _⟩ := this
  simp only at hl
  exact ⟨by omega, hl, hsz⟩

theorem finishWithMac_len (macFn : Tsig → List UInt8 → List UInt8) (s : State) (h : Inv s)
    (len : Nat) (mac : Option (List UInt8)) (s' : State)
    (hf : finishWithMac macFn s = (.ok (len, mac), s')) :
    len ≤ s.limit ∧ len = s'.cursor ∧ s'.octets.size = s.octets.size :=
  finishWithMac_len' macFn s h.cur_av h.av_lim (inv_reserved' h) len mac s' hf

/-- **(b)** for `finish`: the message handed back is at most `limit` octets long (only the size
    part of the invariant is needed) -/
theorem finish_size_le_limit' (macFn : Tsig → List UInt8 → List UInt8) (s : State)
    (h1 : s.cursor ≤ s.available) (h2 : s.available ≤ s.limit)
    (hres : s.limit - s.available = (if s.edns.isSome then Gen.OPT_RECORD_SIZE else 0) + tsigReserved s.tsig)
    (m : Bytes) (mac : Option (List UInt8)) (hf : finish s macFn = .ok (m, mac)) :
    m.size ≤ s.limit := by
  unfold finish at hf
  cases hw : finishWithMac macFn s with
  | mk r s' =>
    rw [hw] at hf
    cases r with
    | ok p =>
      obtain ⟨len, mc⟩ := p
      simp only at hf
      have := finishWithMac_len' macFn s h1 h2 hres len mc s' hw
      cases hf
      simp
      omega
    | err e => cases hf
    | panic => cases hf

theorem finish_size_le_limit (macFn : Tsig → List UInt8 → List UInt8) (s : State) (h : Inv s)
    (m : Bytes) (mac : Option (List UInt8)) (hf : finish s macFn = .ok (m, mac)) :
    m.size ≤ s.limit :=
  finish_size_le_limit' macFn s h.cur_av h.av_lim (inv_reserved' h) m mac hf

end QV.Writer

namespace QV.Writer
open QV QV.Wire

/-! ### Part 5: where pointers are emitted (the unconditional half of C13) -/

/-- all-outcome Hoare triple: whatever `f` returns, `Q` holds afterwards -/
def Hoare {α} (P : State → Prop) (f : M α) (Q : State → Prop) : Prop := ∀ s, P s → Q (f s).2

theorem hoare_bind {α β} {P Q R : State → Prop} {f : M α} {g : α → M β}
    (hf : Hoare P f Q) (hg : ∀ a, Hoare Q (g a) R) (hqr : ∀ s, Q s → R s) : Hoare P (f >>= g) R := by
  intro s hp
  have h1 := hf s hp
  simp only [M.bind_apply]
  cases hfs : f s with
  | mk r s' =>
    rw [hfs] at h1
    cases r with
    | ok a => exact hg a s' h1
    | err e => exact hqr _ h1
    | panic => exact hqr _ h1

theorem hoare_weaken {α} {P P' Q Q' : State → Prop} {f : M α} (h : Hoare P f Q)
    (hp : ∀ s, P' s → P s) (hq : ∀ s, Q s → Q' s) : Hoare P' f Q' :=
  fun s h' => hq _ (h s (hp s h'))

theorem hoare_gets_bind {α β} {P R : State → Prop} {f : State → α} {g : α → M β}
    (hg : ∀ s0, Hoare (fun s => P s ∧ s = s0) (g (f s0)) R) : Hoare P (M.gets f >>= g) R := by
  intro s hp
  exact hg s s ⟨hp, rfl⟩

theorem hoare_gets_bind_any {α β} {P R : State → Prop} {f : State → α} {g : α → M β}
    (hg : ∀ a, Hoare P (g a) R) : Hoare P (M.gets f >>= g) R := by
  intro s hp
  exact hg (f s) s hp

theorem hoare_get_bind {β} {P R : State → Prop} {g : State → M β}
    (hg : ∀ s0, Hoare (fun s => P s ∧ s = s0) (g s0) R) : Hoare P (M.get >>= g) R := by
  intro s hp
  exact hg s s ⟨hp, rfl⟩

/-- a pointer may be emitted only for the QNAME, an owner name, or a compressible RDATA name -/
def AllowedCtx (c : NameCtx) : Prop := c = .qname ∨ c = .owner ∨ c = .rdataCompressible

/-- every logged pointer was emitted in an allowed place and not in `Disabled` mode -/
def LogOK (s : State) : Prop := ∀ e ∈ s.gPtrs, e.mode ≠ .disabled ∧ AllowedCtx e.ctx

/-- `LogOK` and the name being written is one that may be compressed -/
def LogOK1 (s : State) : Prop := LogOK s ∧ AllowedCtx s.gCtx

theorem logOK_tryPush (d : List UInt8) (P : State → Prop)
    (hP : ∀ s o c, P s → P { s with octets := o, cursor := c }) : Hoare P (tryPush d) P := by
  intro s hp
  unfold tryPush
  split
  · exact hp
  · split
    · split
      · exact hP _ _ _ hp
      · exact hp
    · exact hp

theorem logOK_stable (s : State) (o : Bytes) (c : Nat) (h : LogOK s) :
    LogOK { s with octets := o, cursor := c } := h

theorem logOK1_stable (s : State) (o : Bytes) (c : Nat) (h : LogOK1 s) :
    LogOK1 { s with octets := o, cursor := c } := h

theorem logOK1m_stable (s : State) (o : Bytes) (c : Nat) (h : LogOK1 s ∧ s.mode ≠ .disabled) :
    LogOK1 { s with octets := o, cursor := c } ∧ ({ s with octets := o, cursor := c } : State).mode ≠ .disabled := h

theorem hoare_ghostLabels (p : Nat) (l : List Label) (b : Bool) (P : State → Prop)
    (hP : ∀ s g, P s → P { s with gLabels := g }) : Hoare P (ghostLabels p l b) P := by
  intro s hp; exact hP _ _ hp

theorem logOK_pushPointer (p : Nat) :
    Hoare (fun s => LogOK1 s ∧ s.mode ≠ .disabled) (pushPointer p)
      (fun s => LogOK1 s ∧ s.mode ≠ .disabled) := by
  unfold pushPointer
  refine hoare_gets_bind fun s0 => ?_
  refine hoare_bind (Q := fun s => (LogOK1 s ∧ s.mode ≠ .disabled) ∧ s.gCtx = s0.gCtx ∧ s.mode = s0.mode)
    ?_ ?_ (fun s h => h.1)
  · intro s ⟨hp, he⟩
    subst he
    unfold tryPushU16 tryPush
    split
    · exact ⟨hp, rfl, rfl⟩
    · split
      · split
        · exact ⟨hp, rfl, rfl⟩
        · exact ⟨hp, rfl, rfl⟩
      · exact ⟨hp, rfl, rfl⟩
  · intro _ s ⟨⟨⟨hl, hc⟩, hm⟩, hc0, hm0⟩
    simp only [M.modify_apply]
    refine ⟨⟨?_, hc⟩, hm⟩
    intro e he
    simp only [List.mem_cons] at he
    rcases he with rfl | he
    · exact ⟨by simp only; rw [← hm0]; exact hm, by simp only; rw [← hc0]; exact hc⟩
    · exact hl e he

theorem logOK_writeUncompressedName (n : WName) (P : State → Prop)
    (hP : ∀ s o c, P s → P { s with octets := o, cursor := c })
    (hG : ∀ s g, P s → P { s with gLabels := g }) : Hoare P (writeUncompressedName n) P := by
  unfold writeUncompressedName
  refine hoare_gets_bind fun s0 => ?_
  refine hoare_weaken (P := P) (Q := P) ?_ (fun s h => h.1) (fun s h => h)
  exact hoare_bind (logOK_tryPush _ P hP) (fun _ => hoare_bind (hoare_ghostLabels _ _ _ P hG)
    (fun _ => fun s h => h) (fun s h => h)) (fun s h => h)

theorem logOK_writeCompressedUnhintedName (n : WName) :
    Hoare (fun s => LogOK1 s ∧ s.mode ≠ .disabled) (writeCompressedUnhintedName n)
      (fun s => LogOK1 s ∧ s.mode ≠ .disabled) := by
  unfold writeCompressedUnhintedName
  refine hoare_gets_bind fun s0 => ?_
  refine hoare_weaken (P := fun s => LogOK1 s ∧ s.mode ≠ .disabled) ?_ (fun s h => h.1) (fun s h => h)
  refine hoare_gets_bind fun s1 => ?_
  refine hoare_weaken (P := fun s => LogOK1 s ∧ s.mode ≠ .disabled) ?_ (fun s h => h.1) (fun s h => h)
  split
  · exact fun s h => h
  · exact fun s h => h
  · exact logOK_writeUncompressedName n _ (fun s o c h => h) (fun s g h => h)
  · split
    · exact hoare_bind (logOK_pushPointer _) (fun _ => fun s h => h) (fun s h => h)
    · exact hoare_bind (logOK_tryPush _ _ (fun s o c h => h)) (fun _ =>
        hoare_bind (hoare_ghostLabels _ _ _ _ (fun s g h => h)) (fun _ =>
          hoare_bind (logOK_pushPointer _) (fun _ => fun s h => h) (fun s h => h)) (fun s h => h))
        (fun s h => h)

theorem logOK_writeUnhintedName (n : WName) : Hoare LogOK1 (writeUnhintedName n) LogOK1 := by
  unfold writeUnhintedName
  refine hoare_gets_bind fun s0 => ?_
  split
  · rename_i hm
    intro s ⟨hp, he⟩
    subst he
    exact (logOK_writeCompressedUnhintedName n s ⟨hp, hm.1⟩).1
  · exact hoare_weaken (logOK_writeUncompressedName n LogOK1 (fun s o c h => h) (fun s g h => h))
      (fun s h => h.1) (fun s h => h)

theorem logOK_pushHinted (p : Prior) :
    Hoare (fun s => LogOK1 s ∧ s.mode ≠ .disabled) (pushHinted p) (fun s => LogOK1 s ∧ s.mode ≠ .disabled) :=
  hoare_bind (logOK_pushPointer _) (fun _ => fun s h => h) (fun s h => h)

theorem logOK_writeHintedName (hint : Hint) (n : WName) : Hoare LogOK1 (writeHintedName hint n) LogOK1 := by
  unfold writeHintedName
  refine hoare_gets_bind fun s0 => ?_
  split
  · exact hoare_weaken (logOK_writeUncompressedName n LogOK1 (fun s o c h => h) (fun s g h => h))
      (fun s h => h.1) (fun s h => h)
  · rename_i hm
    have hnd : s0.mode ≠ .disabled := fun h => hm (Or.inl h)
    have lift : ∀ {f : M (Option Prior)},
        Hoare (fun s => LogOK1 s ∧ s.mode ≠ .disabled) f (fun s => LogOK1 s ∧ s.mode ≠ .disabled) →
        Hoare (fun s => LogOK1 s ∧ s = s0) f LogOK1 := by
      intro f hf s ⟨hp, he⟩
      subst he
      exact (hf s ⟨hp, hnd⟩).1
    -- reading an anchor first does not change the state
    have lift2 : ∀ {α} {g : State → α} {k : α → M (Option Prior)},
        (∀ a, Hoare (fun s => LogOK1 s ∧ s.mode ≠ .disabled) (k a) (fun s => LogOK1 s ∧ s.mode ≠ .disabled)) →
        Hoare (fun s => LogOK1 s ∧ s = s0) (M.gets g >>= k) LogOK1 := by
      intro α g k hk s ⟨hp, he⟩
      subst he
      simp only [M.bind_apply, M.gets_apply]
      exact (hk _ s ⟨hp, hnd⟩).1
    split
    · exact lift (logOK_writeCompressedUnhintedName n)
    · split
      · refine lift2 fun a => ?_
        split
        · exact logOK_pushHinted _
        · exact logOK_writeCompressedUnhintedName n
      · refine lift2 fun a => ?_
        split
        · exact logOK_pushHinted _
        · exact logOK_writeCompressedUnhintedName n
      · refine lift2 fun a => ?_
        split
        · exact logOK_pushHinted _
        · exact logOK_writeCompressedUnhintedName n
      · refine lift2 fun a => ?_
        split
        · exact logOK_pushHinted _
        · exact logOK_writeCompressedUnhintedName n
      · exact lift (logOK_writeCompressedUnhintedName n)

theorem logOK_setCtx_allowed (c : NameCtx) (hc : AllowedCtx c) : Hoare LogOK (setCtx c) LogOK1 :=
  fun s h => ⟨h, hc⟩

theorem logOK_setCtx (c : NameCtx) : Hoare LogOK (setCtx c) LogOK := fun s h => h
theorem logOK1_setCtx (c : NameCtx) : Hoare LogOK1 (setCtx c) LogOK := fun s h => h.1

theorem logOK_modify (f : State → State) (hf : ∀ s, (f s).gPtrs = s.gPtrs) : Hoare LogOK (M.modify f) LogOK := by
  intro s h e he
  simp only [M.modify_apply, hf] at he
  exact h e he

theorem logOK_hvPush (p : Option Nat) : Hoare LogOK (hvPush p) LogOK := by
  intro s h
  simp only [hvPush, M.modify_apply]
  split
  · split
    · exact h
    · exact h
  · exact h

theorem logOK_writeComponents (ts : List CompType) (rd : List UInt8) :
    Hoare LogOK (writeComponents ts rd) LogOK := by
  induction ts generalizing rd with
  | nil =>
    unfold writeComponents
    split
    · exact fun s h => h
    · exact logOK_tryPush _ LogOK (fun s o c h => h)
  | cons t ts ih =>
    cases t with
    | compressibleName =>
      unfold writeComponents
      split
      · exact fun s h => h
      · exact hoare_bind (logOK_setCtx_allowed _ (Or.inr (Or.inr rfl))) (fun _ =>
          hoare_bind (logOK_writeUnhintedName _) (fun p =>
            hoare_bind (logOK1_setCtx _) (fun _ =>
              hoare_bind (logOK_modify _ (fun s => rfl)) (fun _ =>
                hoare_bind (logOK_hvPush _) (fun _ => ih _) (fun s h => h)) (fun s h => h))
              (fun s h => h)) (fun s h => h.1)) (fun s h => h.1)
    | uncompressibleName =>
      unfold writeComponents
      split
      · exact fun s h => h
      · exact hoare_bind (logOK_setCtx _) (fun _ =>
          hoare_bind (logOK_writeUncompressedName _ LogOK (fun s o c h => h) (fun s g h => h)) (fun p =>
            hoare_bind (logOK_setCtx _) (fun _ =>
              hoare_bind (logOK_modify _ (fun s => rfl)) (fun _ =>
                hoare_bind (logOK_hvPush _) (fun _ => ih _) (fun s h => h)) (fun s h => h))
              (fun s h => h)) (fun s h => h)) (fun s h => h)
    | fixedLen k =>
      unfold writeComponents
      split
      · exact fun s h => h
      · exact hoare_bind (logOK_tryPush _ LogOK (fun s o c h => h)) (fun _ => ih _) (fun s h => h)

theorem logOK_writeRdata (cls ty : Nat) (rd : List UInt8) : Hoare LogOK (writeRdata cls ty rd) LogOK := by
  unfold writeRdata
  split
  · exact logOK_writeComponents _ _
  · exact fun s h => h

theorem logOK_write (pos : Nat) (d : List UInt8) : Hoare LogOK (write pos d) LogOK := by
  intro s h
  unfold write
  split
  · exact h
  · exact h

theorem logOK_addRr (hint : Hint) (owner : WName) (ty cls ttl : Nat) (rd : List UInt8) :
    Hoare LogOK (addRr hint owner ty cls ttl rd) LogOK := by
  unfold addRr
  refine hoare_bind (logOK_setCtx_allowed _ (Or.inr (Or.inl rfl))) (fun _ =>
    hoare_bind (logOK_writeHintedName _ _) (fun p =>
      hoare_bind (logOK1_setCtx _) (fun _ =>
        hoare_bind (logOK_modify _ (fun s => rfl)) (fun _ =>
          hoare_bind (logOK_tryPush _ LogOK (fun s o c h => h)) (fun _ =>
            hoare_bind (logOK_tryPush _ LogOK (fun s o c h => h)) (fun _ =>
              hoare_bind (logOK_tryPush _ LogOK (fun s o c h => h)) (fun _ => ?_)
                (fun s h => h)) (fun s h => h)) (fun s h => h)) (fun s h => h))
        (fun s h => h)) (fun s h => h.1)) (fun s h => h.1)
  refine hoare_gets_bind_any fun av => hoare_gets_bind_any fun st => ?_
  split
  · exact fun s h => h
  · split
    · exact fun s h => h
    · refine hoare_bind (logOK_modify _ (fun s => rfl)) (fun _ =>
        hoare_bind (logOK_writeRdata _ _ _) (fun _ => ?_) (fun s h => h)) (fun s h => h)
      refine hoare_gets_bind_any fun c => ?_
      split
      · exact fun s h => h
      · exact logOK_write _ _

end QV.Writer

namespace QV.Writer
open QV QV.Wire

theorem logOK_addRrset (hint : Hint) (owner : WName) (ty cls ttl : Nat) (rds : List (List UInt8))
    (n : Nat) : Hoare LogOK (addRrset hint owner ty cls ttl rds n) LogOK := by
  induction rds generalizing hint n with
  | nil => exact fun s h => h
  | cons rd rds ih =>
    unfold addRrset
    exact hoare_bind (logOK_addRr _ _ _ _ _ _) (fun _ => ih _ _) (fun s h => h)

theorem logOK_withRollback {α} {f : M α} (hf : Hoare LogOK f LogOK) :
    Hoare LogOK (withRollback f) LogOK := by
  intro s h
  rw [withRollback_apply]
  have := hf s h
  cases hfs : f s with
  | mk r s' =>
    rw [hfs] at this
    cases r with
    | ok a => exact this
    | err e => exact h
    | panic => exact this

theorem logOK_changeSection (sec : RrSection) : Hoare LogOK (changeSection sec) LogOK := by
  intro s h
  unfold changeSection
  split <;> exact h

theorem logOK_setCount (sec : RrSection) (n : Nat) : Hoare LogOK (setCount sec n) LogOK := by
  intro s h
  cases sec <;> exact h

theorem logOK_addRrOp (sec : RrSection) (hint : Hint) (owner : WName) (ty cls ttl : Nat)
    (rd : List UInt8) : Hoare LogOK (addRrOp sec hint owner ty cls ttl rd) LogOK := by
  unfold addRrOp
  refine logOK_withRollback (hoare_bind (logOK_changeSection _) (fun _ =>
    hoare_bind (logOK_addRr _ _ _ _ _ _) (fun _ => hoare_gets_bind_any fun c => ?_) (fun s h => h))
    (fun s h => h))
  split
  · exact fun s h => h
  · exact logOK_setCount _ _

theorem logOK_addRrsetOp (sec : RrSection) (hint : Hint) (owner : WName) (ty cls ttl : Nat)
    (rds : List (List UInt8)) : Hoare LogOK (addRrsetOp sec hint owner ty cls ttl rds) LogOK := by
  unfold addRrsetOp
  refine logOK_withRollback (hoare_bind (logOK_changeSection _) (fun _ =>
    hoare_bind (logOK_addRrset _ _ _ _ _ _ _) (fun n => hoare_gets_bind_any fun c => ?_) (fun s h => h))
    (fun s h => h))
  split
  · exact fun s h => h
  · split
    · exact fun s h => h
    · exact logOK_setCount _ _

theorem logOK_addQuestionBody (qn : WName) (qt qc : Nat) :
    Hoare LogOK (addQuestionBody qn qt qc) LogOK := by
  unfold addQuestionBody
  refine hoare_bind (logOK_setCtx_allowed _ (Or.inl rfl)) (fun _ =>
    hoare_bind (logOK_writeUnhintedName _) (fun p =>
      hoare_bind (logOK1_setCtx _) (fun _ =>
        hoare_bind (logOK_modify _ (fun s => by split <;> rfl)) (fun _ =>
          hoare_bind (logOK_tryPush _ LogOK (fun s o c h => h)) (fun _ =>
            logOK_tryPush _ LogOK (fun s o c h => h)) (fun s h => h)) (fun s h => h))
        (fun s h => h)) (fun s h => h.1)) (fun s h => h.1)

theorem logOK_addQuestion (qn : WName) (qt qc : Nat) : Hoare LogOK (addQuestion qn qt qc) LogOK := by
  unfold addQuestion
  refine hoare_gets_bind_any fun sect => hoare_gets_bind_any fun qd => ?_
  split
  · exact fun s h => h
  · split
    · exact fun s h => h
    · exact hoare_bind (logOK_withRollback (logOK_addQuestionBody _ _ _))
        (fun _ => logOK_modify _ (fun s => rfl)) (fun s h => h)

/-- a step that does not touch the pointer log -/
def KeepsLog (f : M Unit) : Prop := ∀ s, (f s).2.gPtrs = s.gPtrs

theorem logOK_of_keepsLog {f : M Unit} (h : KeepsLog f) : Hoare LogOK f LogOK := by
  intro s hs e he
  rw [h s] at he
  exact hs e he

theorem keepsLog_write (pos : Nat) (d : List UInt8) : KeepsLog (write pos d) := by
  intro s; unfold write; split <;> rfl

theorem keepsLog_setHdr (i : Nat) (f : UInt8 → UInt8) : KeepsLog (setHdr i f) := by
  intro s; unfold setHdr; split <;> rfl

theorem keepsLog_setBit (b m : Nat) (v : Bool) : KeepsLog (setBit b m v) := keepsLog_setHdr _ _

theorem keepsLog_setRcode (v : Nat) : KeepsLog (setRcode v) := by
  intro s
  unfold setRcode
  simp only [M.bind_apply]
  have := keepsLog_setHdr Gen.RCODE_BYTE
    (fun b => (b &&& ~~~ (UInt8.ofNat Gen.RCODE_MASK)) ||| UInt8.ofNat v) s
  cases hs : setHdr Gen.RCODE_BYTE
    (fun b => (b &&& ~~~ (UInt8.ofNat Gen.RCODE_MASK)) ||| UInt8.ofNat v) s with
  | mk r s1 =>
    rw [hs] at this
    cases r with
    | ok u => simp only [M.modify_apply]; split <;> exact this
    | err e => exact this
    | panic => exact this

theorem keepsLog_setExtendedRcode (v : Nat) : KeepsLog (setExtendedRcode v) := by
  intro s
  unfold setExtendedRcode
  simp only [M.bind_apply, M.get_apply, M.gets_apply]
  cases he : s.edns with
  | none => rfl
  | some ed =>
    simp only []
    by_cases hv : v > 4095
    · rw [if_pos hv]; rfl
    · rw [if_neg hv]
      simp only [M.bind_apply]
      have := keepsLog_setHdr Gen.RCODE_BYTE (fun b => (b &&& ~~~ (UInt8.ofNat Gen.RCODE_MASK)) |||
              (UInt8.ofNat (v % 256) &&& UInt8.ofNat Gen.RCODE_MASK)) s
      cases hs : setHdr Gen.RCODE_BYTE (fun b => (b &&& ~~~ (UInt8.ofNat Gen.RCODE_MASK)) |||
              (UInt8.ofNat (v % 256) &&& UInt8.ofNat Gen.RCODE_MASK)) s with
      | mk r s1 =>
        rw [hs] at this
        cases r <;> exact this

theorem keepsLog_setLimit (v : Nat) : KeepsLog (setLimit v) := by
  intro s; unfold setLimit; dsimp only; repeat' split
  all_goals rfl

theorem keepsLog_setEdns (p : Nat) : KeepsLog (setEdns p) := by
  intro s; unfold setEdns; repeat' split
  all_goals rfl

theorem keepsLog_setTsig (m : TsigMode) (rr : TsigRr) : KeepsLog (setTsig m rr) := by
  intro s; unfold setTsig; repeat' split
  all_goals rfl

theorem keepsLog_updateTimeSigned (t : List UInt8) : KeepsLog (updateTimeSigned t) := by
  intro s; unfold updateTimeSigned; split <;> rfl

theorem logOK_clearRrs : Hoare LogOK clearRrs LogOK := by
  intro s h e he
  simp only [clearRrs, M.modify_apply, List.mem_filter] at he
  exact h e he.1

theorem liftW_logOK {f : M Unit} (hf : Hoare LogOK f LogOK) (ss : Session) (h : LogOK ss.w) :
    LogOK (liftW ss f).2.w := by
  unfold liftW
  have := hf ss.w h
  cases hfs : f ss.w with
  | mk r s1 => rw [hfs] at this; exact this

theorem withHv_logOK {f : M Unit} (hf : Hoare LogOK f LogOK) (ss : Session) (slot : Option Nat)
    (h : LogOK ss.w) : LogOK (withHv ss slot f).2.w := by
  rw [withHv_w]
  exact hf { ss.w with hv := slot.map (hvGet ss.hvs) } h

theorem tryFromTemplateImpl_gPtrs (b : Bytes) (t : Template) (ts : Option Tsig) (s' : State)
    (h : tryFromTemplateImpl b t ts = .ok s') : s'.gPtrs = t.gPtrs := by
  unfold tryFromTemplateImpl at h
  dsimp only at h
  split at h
  · cases h
  · split at h
    · cases h
    · cases h; rfl

theorem retemplate_logOK (ss : Session) (n : Nat) (fill : UInt8)
    (mk : Bytes → Template → Out WriterErr State)
    (hmk : ∀ b t s', mk b t = .ok s' → s'.gPtrs = t.gPtrs) (h : LogOK ss.w) :
    LogOK (retemplate ss n fill mk).2.w := by
  unfold retemplate
  cases hi : intoTemplate ss.w with
  | ok t =>
    have ht : t.gPtrs = ss.w.gPtrs := by
      unfold intoTemplate at hi
      split at hi
      · cases hi
      · split at hi
        · cases hi
        · cases hi; rfl
    simp only []
    cases hm : mk (Array.replicate n fill) t with
    | ok s' =>
      simp only []
      intro e he; rw [hmk _ _ _ hm, ht] at he; exact h e he
    | err e' =>
      simp only []
      cases hf : tryFromTemplate (Array.replicate ss.w.octets.size fill) t with
      | ok s' =>
        simp only []
        have : s'.gPtrs = t.gPtrs := tryFromTemplateImpl_gPtrs _ _ _ _ hf
        intro e he; rw [this, ht] at he; exact h e he
      | err _ => exact h
      | panic => exact h
    | panic =>
      simp only []
      cases hf : tryFromTemplate (Array.replicate ss.w.octets.size fill) t with
      | ok s' =>
        simp only []
        have : s'.gPtrs = t.gPtrs := tryFromTemplateImpl_gPtrs _ _ _ _ hf
        intro e he; rw [this, ht] at he; exact h e he
      | err _ => exact h
      | panic => exact h
  | err e => exact h
  | panic => exact h

/-- **C13, unconditional half.** Every call keeps the pointer log clean. -/
theorem step_logOK (ss : Session) (op : Op) (h : LogOK ss.w) : LogOK (step ss op).2.w := by
  cases op with
  | setId v => exact liftW_logOK (logOK_of_keepsLog (keepsLog_write _ _)) ss h
  | setQr b => exact liftW_logOK (logOK_of_keepsLog (keepsLog_setBit _ _ _)) ss h
  | setAa b => exact liftW_logOK (logOK_of_keepsLog (keepsLog_setBit _ _ _)) ss h
  | setTc b => exact liftW_logOK (logOK_of_keepsLog (keepsLog_setBit _ _ _)) ss h
  | setRd b => exact liftW_logOK (logOK_of_keepsLog (keepsLog_setBit _ _ _)) ss h
  | setRa b => exact liftW_logOK (logOK_of_keepsLog (keepsLog_setBit _ _ _)) ss h
  | setOpcode v => exact liftW_logOK (logOK_of_keepsLog (keepsLog_setHdr _ _)) ss h
  | setRcode v => exact liftW_logOK (logOK_of_keepsLog (keepsLog_setRcode _)) ss h
  | setExtendedRcode v => exact liftW_logOK (logOK_of_keepsLog (keepsLog_setExtendedRcode _)) ss h
  | setLimit v => exact liftW_logOK (logOK_of_keepsLog (keepsLog_setLimit _)) ss h
  | setMode m => exact liftW_logOK (logOK_of_keepsLog (fun s => rfl)) ss h
  | addQuestion n t c => exact liftW_logOK (logOK_addQuestion _ _ _) ss h
  | addRr sec hn o ty cls ttl rd hv => exact withHv_logOK (logOK_addRrOp _ _ _ _ _ _ _) ss hv h
  | addRrset sec hn o ty cls ttl rds hv => exact withHv_logOK (logOK_addRrsetOp _ _ _ _ _ _ _) ss hv h
  | clearRrs => exact liftW_logOK logOK_clearRrs ss h
  | setEdns p => exact liftW_logOK (logOK_of_keepsLog (keepsLog_setEdns _)) ss h
  | setTsig m rr => exact liftW_logOK (logOK_of_keepsLog (keepsLog_setTsig _ _)) ss h
  | updateTimeSigned t => exact liftW_logOK (logOK_of_keepsLog (keepsLog_updateTimeSigned _)) ss h
  | template n fill =>
    exact retemplate_logOK ss n fill _ (fun b t s' hh => tryFromTemplateImpl_gPtrs b t _ s' hh) h
  | templateSubsequent n fill mac =>
    refine retemplate_logOK ss n fill _ (fun b t s' hh => ?_) h
    simp only [tryFromTemplateAsTsigSubsequent] at hh
    split at hh
    · split at hh
      all_goals first
        | exact tryFromTemplateImpl_gPtrs b t _ s' hh
        | cases hh
    · cases hh
  | getters => exact h

theorem run_logOK (ss : Session) (ops : List Op) (h : LogOK ss.w) : LogOK (run ss ops).1.w := by
  induction ops generalizing ss with
  | nil => exact h
  | cons op ops ih =>
    unfold run
    have h1 := step_logOK ss op h
    cases hs : step ss op with
    | mk r ss' =>
      rw [hs] at h1
      cases r with
      | panic => exact h1
      | ok u =>
        simp only []
        have := ih ss' h1
        cases hr : run ss' ops with
        | mk ss'' rs => rw [hr] at this; exact this
      | err e =>
        simp only []
        have := ih ss' h1
        cases hr : run ss' ops with
        | mk ss'' rs => rw [hr] at this; exact this

/-- `finish` (the OPT and TSIG records it appends) keeps the pointer log clean as well -/
theorem finishWithMac_logOK (macFn : Tsig → List UInt8 → List UInt8) :
    Hoare LogOK (finishWithMac macFn) LogOK := by
  unfold finishWithMac
  refine hoare_gets_bind_any fun c => ?_
  obtain ⟨qd, an, ns, ar⟩ := c
  refine hoare_gets_bind_any fun edns => hoare_gets_bind_any fun tsig => ?_
  have hunwrap : ∀ {f : M Unit}, Hoare LogOK f LogOK → Hoare LogOK (unwrap f) LogOK := by
    intro f hf s h
    have := hf s h
    unfold unwrap
    cases hfs : f s with
    | mk r s' => rw [hfs] at this; cases r <;> exact this
  refine hoare_bind (Q := LogOK) ?_ (fun _ => hoare_bind (Q := LogOK) ?_ (fun _ => ?_) (fun s h => h))
    (fun s h => h)
  · unfold finishCounts
    exact hoare_bind (logOK_write _ _) (fun _ => hoare_bind (logOK_write _ _) (fun _ =>
      hoare_bind (logOK_write _ _) (fun _ => logOK_write _ _) (fun s h => h)) (fun s h => h))
      (fun s h => h)
  · unfold finishOpt
    split
    · exact hoare_bind (logOK_modify _ (fun s => rfl)) (fun _ => hunwrap (logOK_addRr _ _ _ _ _ _))
        (fun s h => h)
    · exact fun s h => h
  · unfold finishTsig
    split
    · refine hoare_gets_bind_any fun msg => ?_
      split
      · exact fun s h => h
      · exact hoare_bind (logOK_modify _ (fun s => rfl)) (fun _ =>
          hoare_bind (hunwrap (logOK_addRr _ _ _ _ _ _)) (fun _ =>
            hoare_gets_bind_any fun _ => fun s h => h) (fun s h => h))
          (fun s h => h)
    · exact hoare_gets_bind_any fun _ => fun s h => h

end QV.Writer

namespace QV.Writer
open QV QV.Wire

/-! ### Part 6: the extended RCODE -/

theorem mask15 (b c : UInt8) : (((b &&& ~~~ (15 : UInt8)) ||| (c &&& 15)) &&& 15) = c &&& 15 := by
  apply UInt8.eq_of_toBitVec_eq
  simp only [UInt8.toBitVec_and, UInt8.toBitVec_or, UInt8.toBitVec_not]
  ext i hi
  have : i = 0 ∨ i = 1 ∨ i = 2 ∨ i = 3 ∨ i = 4 ∨ i = 5 ∨ i = 6 ∨ i = 7 := by omega
  rcases this with rfl | rfl | rfl | rfl | rfl | rfl | rfl | rfl <;> simp +decide

theorem and15_toNat (c : UInt8) : (c &&& 15).toNat = c.toNat % 16 := by
  revert c; apply forall_uint8; decide +kernel

/-- `set_extended_rcode` accepts every value up to 4095 on an EDNS message, and afterwards the
    getter reports exactly that value -/
theorem setExtendedRcode_roundtrip (s : State) (e : Edns) (v : Nat) (he : s.edns = some e)
    (hv : v ≤ 4095) (hs : 12 ≤ s.octets.size) :
    ∃ s', setExtendedRcode v s = (.ok (), s') ∧ getExtendedRcode s' = v ∧
      s'.edns = some ⟨e.payload, v / 16⟩ := by
  unfold setExtendedRcode
  simp only [M.bind_apply, M.get_apply, M.gets_apply, he]
  rw [if_neg (by omega)]
  have h3 : Gen.RCODE_BYTE < s.octets.size := by show 3 < _; omega
  simp only [M.bind_apply, setHdr, h3, dite_true, M.modify_apply]
  refine ⟨_, rfl, ?_, ?_⟩
  · unfold getExtendedRcode getRcode hdr
    simp only [Array.getD_eq_getD_getElem?, Array.getElem?_set, if_true]
    show (v / 16 % 256) * 16 + _ = v
    have hm : (UInt8.ofNat Gen.RCODE_MASK) = 15 := rfl
    rw [hm]
    simp only [Option.getD_some]
    rw [mask15, and15_toNat]
    simp
    omega
  · simp; omega


/-- values above 4095 are rejected and nothing changes -/
theorem setExtendedRcode_rejects (s : State) (v : Nat) (hv : v > 4095) :
    setExtendedRcode v s = (.err (if s.edns.isSome then .ExtendedRcodeOverflow else .NotEdns), s) := by
  unfold setExtendedRcode
  simp only [M.bind_apply, M.get_apply, M.gets_apply]
  cases he : s.edns with
  | none => rfl
  | some e => simp only [Option.isSome_some, if_true]; rw [if_pos hv]; rfl

end QV.Writer

namespace QV.Writer
open QV

/-! ### Part 7: the `Rdata::components` dispatch (generated from the source) against RFC 3597 §4 -/

/-- RFC 3597 §4 / RFC 1035 §3.3: the types whose RDATA may be compressed -/
def rfc1035NameTypes : List Nat := [2, 3, 4, 5, 7, 8, 9, 12, 6, 14, 15]

theorem lookup_cases (arms : List (List Nat × Option Nat × String)) (dflt : String) (c t : Nat) :
    QV.Rdata.lookup arms dflt c t = dflt ∨
    ∃ a ∈ arms, QV.Rdata.lookup arms dflt c t = a.2.2 ∧ a.1.contains t = true := by
  induction arms with
  | nil => left; rfl
  | cons a rest ih =>
    obtain ⟨tys, g, h⟩ := a
    have tail : QV.Rdata.lookup rest dflt c t = dflt ∨
        ∃ a ∈ (tys, g, h) :: rest, QV.Rdata.lookup rest dflt c t = a.2.2 ∧ a.1.contains t = true := by
      rcases ih with h1 | ⟨a, ha, h2, h3⟩
      · left; exact h1
      · right; exact ⟨a, List.mem_cons_of_mem _ ha, h2, h3⟩
    cases g with
    | none =>
      simp only [QV.Rdata.lookup, Bool.and_true]
      by_cases hc : tys.contains t = true
      · rw [if_pos hc]; right; exact ⟨_, List.mem_cons_self, rfl, hc⟩
      · rw [if_neg hc]; exact tail
    | some k =>
      simp only [QV.Rdata.lookup]
      by_cases hc : (tys.contains t && c == k) = true
      · rw [if_pos hc]; right
        refine ⟨_, List.mem_cons_self, rfl, ?_⟩
        simp only [Bool.and_eq_true] at hc; exact hc.1
      · rw [if_neg hc]; exact tail

/-- the types of a handler, converted -/
def handlerTypes (h : String) : Option (List CompType) :=
  match QV.Rdata.componentTypesOf h with
  | some tys => tys.mapM convCompType
  | none => none

/-- an arm of the generated `Rdata::components` table is fine: its component list is well
    formed, and if it contains a compressible name then all its types are RFC 1035 name types -/
def armOK (a : List Nat × Option Nat × String) : Bool :=
  match handlerTypes a.2.2 with
  | some ts => !(ts.contains .compressibleName) || a.1.all (rfc1035NameTypes.contains ·)
  | none => false

theorem arms_ok : Gen.rdataComponentsArms.all armOK = true := by decide
theorem default_ok : handlerTypes Gen.rdataComponentsDefault = some [] := by decide

theorem componentTypes_eq (cls ty : Nat) :
    componentTypes cls ty =
      handlerTypes (QV.Rdata.lookup Gen.rdataComponentsArms Gen.rdataComponentsDefault cls ty) := rfl

theorem componentTypes_total (cls ty : Nat) : ∃ ts, componentTypes cls ty = some ts := by
  rw [componentTypes_eq]
  rcases lookup_cases Gen.rdataComponentsArms Gen.rdataComponentsDefault cls ty with h | ⟨a, ha, h2, h3⟩
  · rw [h, default_ok]; exact ⟨_, rfl⟩
  · rw [h2]
    have := List.all_eq_true.mp arms_ok a ha
    unfold armOK at this
    cases hh : handlerTypes a.2.2 with
    | some ts => exact ⟨ts, rfl⟩
    | none => rw [hh] at this; cases this

theorem componentTypes_compressible (cls ty : Nat) (ts : List CompType)
    (h : componentTypes cls ty = some ts) (hc : CompType.compressibleName ∈ ts) :
    ty ∈ rfc1035NameTypes := by
  rw [componentTypes_eq] at h
  rcases lookup_cases Gen.rdataComponentsArms Gen.rdataComponentsDefault cls ty with h1 | ⟨a, ha, h2, h3⟩
  · rw [h1, default_ok] at h; cases h; cases hc
  · rw [h2] at h
    have := List.all_eq_true.mp arms_ok a ha
    unfold armOK at this
    rw [h] at this
    simp only [Bool.or_eq_true, Bool.not_eq_true', List.all_eq_true] at this
    rcases this with hno | hall
    · have : ts.contains CompType.compressibleName = true := by simpa using hc
      rw [this] at hno; cases hno
    · have h4 : ty ∈ a.1 := by simpa using h3
      have := hall ty h4
      simpa using this

/-- SRV (class IN): six fixed octets and a name that is never compressed -/
theorem componentTypes_srv_in : componentTypes 1 33 = some [.fixedLen 6, .uncompressibleName] := by decide

/-- Chaosnet A: a name that is never compressed, then the address -/
theorem componentTypes_ch_a : componentTypes 3 1 = some [.uncompressibleName] := by decide

/-- any type that no arm of the table mentions is written verbatim -/
theorem componentTypes_unknown (cls ty : Nat)
    (h : ∀ a ∈ Gen.rdataComponentsArms, a.1.contains ty = false) : componentTypes cls ty = some [] := by
  rw [componentTypes_eq]
  rcases lookup_cases Gen.rdataComponentsArms Gen.rdataComponentsDefault cls ty with h1 | ⟨a, ha, h2, h3⟩
  · rw [h1]; exact default_ok
  · rw [h a ha] at h3; cases h3

/-- the generated `match rr_type` arms of `Rdata::components`, as a decision list -/
theorem lookup_arms (cls ty : Nat) :
    QV.Rdata.lookup Gen.rdataComponentsArms Gen.rdataComponentsDefault cls ty =
      if ty = 2 ∨ ty = 3 ∨ ty = 4 ∨ ty = 5 ∨ ty = 7 ∨ ty = 8 ∨ ty = 9 ∨ ty = 12 then "for_single_compressible_name"
      else if ty = 1 ∧ cls = 3 then "components_as_ch_a"
      else if ty = 6 then "components_as_soa"
      else if ty = 14 then "components_as_minfo"
      else if ty = 15 then "components_as_mx"
      else if ty = 33 ∧ cls = 1 then "components_as_in_srv"
      else "for_nameless" := by
  simp only [Gen.rdataComponentsArms, Gen.rdataComponentsDefault, QV.Rdata.lookup, List.contains_cons,
    List.contains_nil, Bool.or_false, Bool.and_true, Bool.or_eq_true, beq_iff_eq, Bool.and_eq_true]


end QV.Writer
