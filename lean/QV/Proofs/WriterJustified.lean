/-
  QV.Proofs.WriterJustified — every failure of a public call is one the specification accepts
  (`QV.Spec.Message.justified`) in the abstract state of the calls that succeeded so far.

  * RDATA the specification can read is RDATA the writer accepts (`rdataOK_of_given`; the converse of
    `givenRdata_of_rdataOK`), so `InvalidRdata` is reported only for RDATA the specification rejects;
  * which errors each call can report, and when (`*_err`);
  * `AbsNum`: what the abstract state says about the writer state, as far as `justified` looks;
  * `step_justified`.
-/
import QV.Proofs.WriterMsgRefine

namespace QV.Writer
open QV QV.Wire QV.Spec QV.ServerSafety

/-! ### the specification's reading of an uncompressed name implies the writer's -/

theorem ofNat_toNat_u8 (l : UInt8) : UInt8.ofNat l.toNat = l := by
  revert l; apply forall_uint8; intro n hn; simp [UInt8.toNat_ofNat', Nat.mod_eq_of_lt hn]

theorem specWalkU_parse (b : List UInt8) : ∀ (fuel pos : Nat) (ls : List (List UInt8)),
    specWalkU b.toArray fuel pos = some ls →
    ∃ labs, WName.parseLabels fuel (b.drop pos) = some (labs, b.drop (pos + ls.flatten.length)) ∧
      ls.flatten = labs.flatMap WName.encLabel ++ [0] := by
  intro fuel
  induction fuel with
  | zero => intro pos ls h; simp [specWalkU] at h
  | succ f ih =>
    intro pos ls h
    unfold specWalkU at h
    cases hb : b.toArray[pos]? with
    | none => rw [hb] at h; cases h
    | some l =>
      rw [hb] at h
      simp only at h
      have hpos : pos < b.length := by
        have := getElem?_some_lt hb
        simpa using this
      have hget : b[pos]? = some l := by simpa using hb
      have hdrop : b.drop pos = l :: b.drop (pos + 1) := by
        rw [List.drop_eq_getElem_cons hpos]
        congr 1
        have := List.getElem?_eq_getElem hpos
        rw [this] at hget
        exact Option.some.inj hget
      by_cases hl0 : l = 0
      · rw [if_pos hl0] at h
        cases h
        refine ⟨[], ?_, by simp⟩
        rw [hdrop]
        simp [WName.parseLabels, hl0]
      · rw [if_neg hl0] at h
        by_cases h63 : l.toNat ≤ 63
        · rw [if_pos h63] at h
          cases hrec : specWalkU b.toArray f (pos + l.toNat + 1) with
          | none => rw [hrec] at h; cases h
          | some ls' =>
            rw [hrec] at h
            simp only [Option.some.injEq] at h
            obtain ⟨labs, hp, hfl⟩ := ih _ _ hrec
            -- the recursive call read an octet, so the label lies inside
            have hin : pos + l.toNat + 1 < b.length := by
              cases f with
              | zero => simp [specWalkU] at hrec
              | succ f' =>
                unfold specWalkU at hrec
                cases hb2 : b.toArray[pos + l.toNat + 1]? with
                | none => rw [hb2] at hrec; cases hrec
                | some x => have := getElem?_some_lt hb2; simpa using this
            have hex : (b.toArray.extract pos (pos + l.toNat + 1)).toList = l :: (b.drop (pos + 1)).take l.toNat := by
              simp only [Array.toList_extract, List.extract_eq_take_drop, List.toList_toArray]
              rw [show pos + l.toNat + 1 - pos = l.toNat + 1 by omega, hdrop, List.take_succ_cons]
            refine ⟨(b.drop (pos + 1)).take l.toNat :: labs, ?_, ?_⟩
            · rw [hdrop]
              unfold WName.parseLabels
              rw [if_neg hl0, if_neg (by show ¬ l.toNat > 63; omega),
                if_neg (by rw [List.length_drop]; omega)]
              rw [List.drop_drop, show pos + 1 + l.toNat = pos + l.toNat + 1 by omega, hp]
              simp only [← h, List.flatten_cons, List.length_append, hex, List.length_cons, List.length_take,
                List.length_drop]
              rw [show min l.toNat (b.length - (pos + 1)) = l.toNat by omega]
              congr 3
              omega
            · rw [← h, List.flatten_cons, hex, hfl]
              simp only [List.flatMap_cons, WName.encLabel, List.length_take, List.length_drop,
                List.cons_append, List.append_assoc]
              rw [show min l.toNat (b.length - (pos + 1)) = l.toNat by omega, ofNat_toNat_u8]
        · rw [if_neg h63] at h; cases h

/-- an uncompressed name the specification reads at the head of `b` is one `Name::try_from_uncompressed`
    reads, with the same rest -/
theorem parse_of_takeName {b : List UInt8} {w rest : List UInt8} (h : Message.takeName b = some (w, rest)) :
    ∃ n, WName.parse b = some (n, rest) ∧ n.wire = w := by
  unfold Message.takeName specDecodeUncompressed at h
  cases hw : specWalkU b.toArray (b.toArray.size + 1) 0 with
  | none => rw [hw] at h; cases h
  | some ls =>
    rw [hw] at h
    simp only at h
    by_cases hc : ls.flatten.length ≤ 255 ∧ ls.flatten.length ≤ b.toArray.size ∧
        (false = true → ls.flatten.length = b.toArray.size)
    · rw [if_pos hc] at h
      simp only [Option.some.injEq, Prod.mk.injEq] at h
      obtain ⟨labs, hp, hfl⟩ := specWalkU_parse b _ 0 ls hw
      simp only [List.drop_zero, Nat.zero_add, List.size_toArray] at hp
      refine ⟨⟨labs⟩, ?_, ?_⟩
      · unfold WName.parse
        rw [hp]
        simp only
        have hwire : (⟨labs⟩ : WName).wire = ls.flatten := by rw [hfl]; rfl
        rw [hwire, if_pos (by show ls.flatten.length ≤ 255; exact hc.1), ← h.2]
      · rw [← h.1, hfl]; rfl
    · rw [if_neg hc] at h; cases h

theorem compsOK_of_given : ∀ (lay : List Message.Lay) (rd : List UInt8) (gf : List Message.Field),
    Message.givenFields lay rd = some gf → compsOK (lay.map layToComp) rd = true := by
  intro lay
  induction lay with
  | nil => intro rd gf _; rfl
  | cons l lay ih =>
    intro rd gf h
    cases l with
    | fixed n =>
      unfold Message.givenFields at h
      split at h
      · cases h
      · rename_i hn
        cases hg : Message.givenFields lay (rd.drop n) with
        | none => rw [hg] at h; cases h
        | some g =>
          simp only [List.map_cons, layToComp, compsOK, Bool.and_eq_true, decide_eq_true_eq]
          exact ⟨by omega, ih _ _ hg⟩
    | cname =>
      unfold Message.givenFields at h
      cases ht : Message.takeName rd with
      | none => rw [ht] at h; cases h
      | some pr =>
        obtain ⟨w, rest⟩ := pr
        rw [ht] at h
        simp only at h
        cases hg : Message.givenFields lay rest with
        | none => rw [hg] at h; cases h
        | some g =>
          obtain ⟨n, hp, _⟩ := parse_of_takeName ht
          simp only [List.map_cons, layToComp, compsOK, hp]
          exact ih _ _ hg
    | uname =>
      unfold Message.givenFields at h
      cases ht : Message.takeName rd with
      | none => rw [ht] at h; cases h
      | some pr =>
        obtain ⟨w, rest⟩ := pr
        rw [ht] at h
        simp only at h
        cases hg : Message.givenFields lay rest with
        | none => rw [hg] at h; cases h
        | some g =>
          obtain ⟨n, hp, _⟩ := parse_of_takeName ht
          simp only [List.map_cons, layToComp, compsOK, hp]
          exact ih _ _ hg

/-- **RDATA the specification can read is RDATA the writer accepts** -/
theorem rdataOK_of_given (cls ty : Nat) (rd : List UInt8) (h : (Message.givenRdata ty cls rd).isSome = true) :
    rdataOK cls ty rd = true := by
  unfold rdataOK
  rw [componentTypes_layout]
  simp only
  unfold Message.givenRdata at h
  cases hg : Message.givenFields (Message.layoutOf ty cls) rd with
  | none => rw [hg] at h; cases h
  | some gf => exact compsOK_of_given _ _ _ hg

theorem given_none_of_not_rdataOK (cls ty : Nat) (rd : List UInt8) (h : rdataOK cls ty rd = false) :
    (Message.givenRdata ty cls rd).isNone = true := by
  cases hg : Message.givenRdata ty cls rd with
  | none => rfl
  | some g =>
    have := rdataOK_of_given cls ty rd (by rw [hg]; rfl)
    rw [this] at h; cases h


/-! ### which errors the writing routines can report -/

def Only {α} (S : WriterErr → Prop) (f : M α) : Prop := ∀ s e, (f s).1 = .err e → S e

theorem only_bind {α β} {S : WriterErr → Prop} {f : M α} {g : α → M β} (hf : Only S f) (hg : ∀ a, Only S (g a)) :
    Only S (f >>= g) := by
  intro s e h
  simp only [M.bind_apply] at h
  cases hfs : f s with
  | mk r s1 =>
    rw [hfs] at h
    cases r with
    | ok a => exact hg a s1 e h
    | err e' => simp only [Out.err.injEq] at h; subst h; exact hf s e' (by rw [hfs])
    | panic => cases h

theorem only_pure {α} {S : WriterErr → Prop} (a : α) : Only S (pure a : M α) := fun s e h => by cases h
theorem only_panic {α} {S : WriterErr → Prop} : Only S (M.panic : M α) := fun s e h => by cases h
theorem only_gets {α} {S : WriterErr → Prop} (f : State → α) : Only S (M.gets f) := fun s e h => by cases h
theorem only_modify {S : WriterErr → Prop} (f : State → State) : Only S (M.modify f) := fun s e h => by cases h
theorem only_fail {α} {S : WriterErr → Prop} (e : WriterErr) (he : S e) : Only S (M.fail e : M α) :=
  fun s e' h => by simp only [M.fail_apply, Out.err.injEq] at h; subst h; exact he

section
variable {S : WriterErr → Prop} (hT : S .Truncation)
include hT

theorem only_tryPush (d : List UInt8) : Only S (tryPush d) := by
  intro s e h
  unfold tryPush at h
  split at h
  · cases h
  · split at h
    · split at h <;> cases h
    · simp only [Out.err.injEq] at h; subst h; exact hT

theorem only_pushPointer (p : Nat) : Only S (pushPointer p) := by
  unfold pushPointer
  exact only_bind (only_gets _) fun _ => only_bind (only_tryPush hT _) fun _ => only_modify _

theorem only_writeUncompressedName (n : WName) : Only S (writeUncompressedName n) := by
  unfold writeUncompressedName
  exact only_bind (only_gets _) fun _ => only_bind (only_tryPush hT _) fun _ =>
    only_bind (only_modify _) fun _ => only_pure _

theorem only_writeCompressedUnhintedName (n : WName) : Only S (writeCompressedUnhintedName n) := by
  unfold writeCompressedUnhintedName
  refine only_bind (only_gets _) fun d => only_bind (only_gets _) fun c => ?_
  split
  · exact only_panic
  · exact only_panic
  · exact only_writeUncompressedName hT n
  · split
    · exact only_bind (only_pushPointer hT _) fun _ => only_pure _
    · exact only_bind (only_tryPush hT _) fun _ => only_bind (only_modify _) fun _ =>
        only_bind (only_pushPointer hT _) fun _ => only_pure _

theorem only_writeUnhintedName (n : WName) : Only S (writeUnhintedName n) := by
  unfold writeUnhintedName
  refine only_bind (only_gets _) fun m => ?_
  split
  · exact only_writeCompressedUnhintedName hT n
  · exact only_writeUncompressedName hT n

theorem only_pushHinted (p : Prior) : Only S (pushHinted p) :=
  only_bind (only_pushPointer hT _) fun _ => only_pure _

theorem only_writeHintedName (h : Hint) (n : WName) : Only S (writeHintedName h n) := by
  unfold writeHintedName
  refine only_bind (only_gets _) fun m => ?_
  split
  · exact only_writeUncompressedName hT n
  · split
    · exact only_writeCompressedUnhintedName hT n
    · split
      · refine only_bind (only_gets _) fun q => ?_
        split
        · exact only_pushHinted hT _
        · exact only_writeCompressedUnhintedName hT n
      · refine only_bind (only_gets _) fun q => ?_
        split
        · exact only_pushHinted hT _
        · exact only_writeCompressedUnhintedName hT n
      · refine only_bind (only_gets _) fun q => ?_
        split
        · exact only_pushHinted hT _
        · exact only_writeCompressedUnhintedName hT n
      · refine only_bind (only_gets _) fun q => ?_
        split
        · exact only_pushHinted hT _
        · exact only_writeCompressedUnhintedName hT n
      · exact only_writeCompressedUnhintedName hT n

theorem only_writeComponents (hI : S .InvalidRdata) (ts : List CompType) (rd : List UInt8) :
    Only S (writeComponents ts rd) := by
  induction ts generalizing rd with
  | nil =>
    unfold writeComponents
    split
    · exact only_pure _
    · exact only_tryPush hT _
  | cons t ts ih =>
    cases t with
    | compressibleName =>
      unfold writeComponents
      cases hp : WName.parse rd with
      | none => exact only_fail _ hI
      | some pr =>
        obtain ⟨n, rest⟩ := pr
        simp only []
        exact only_bind (only_modify _) fun _ => only_bind (only_writeUnhintedName hT n) fun p =>
          only_bind (only_modify _) fun _ => only_bind (only_modify _) fun _ =>
          only_bind (only_modify _) fun _ => ih rest
    | uncompressibleName =>
      unfold writeComponents
      cases hp : WName.parse rd with
      | none => exact only_fail _ hI
      | some pr =>
        obtain ⟨n, rest⟩ := pr
        simp only []
        exact only_bind (only_modify _) fun _ => only_bind (only_writeUncompressedName hT n) fun p =>
          only_bind (only_modify _) fun _ => only_bind (only_modify _) fun _ =>
          only_bind (only_modify _) fun _ => ih rest
    | fixedLen k =>
      unfold writeComponents
      split
      · exact only_fail _ hI
      · exact only_bind (only_tryPush hT _) fun _ => ih _

theorem only_addRr (hI : S .InvalidRdata) (hint : Hint) (owner : WName) (ty cls ttl : Nat) (rd : List UInt8) :
    Only S (addRr hint owner ty cls ttl rd) := by
  unfold addRr
  refine only_bind (only_modify _) fun _ => only_bind (only_writeHintedName hT _ _) fun p =>
    only_bind (only_modify _) fun _ => only_bind (only_modify _) fun _ =>
    only_bind (only_tryPush hT _) fun _ => only_bind (only_tryPush hT _) fun _ =>
    only_bind (only_tryPush hT _) fun _ => only_bind (only_gets _) fun av =>
    only_bind (only_gets _) fun st => ?_
  split
  · exact only_panic
  · split
    · exact only_fail _ hT
    · refine only_bind (only_modify _) fun _ => only_bind ?_ fun _ => only_bind (only_gets _) fun c => ?_
      · unfold writeRdata
        cases componentTypes cls ty with
        | some ts => exact only_writeComponents hT hI ts rd
        | none => exact only_panic
      · split
        · exact only_panic
        · intro s e h; unfold write at h; split at h <;> cases h

theorem only_addRrset (hI : S .InvalidRdata) (owner : WName) (ty cls ttl : Nat) :
    ∀ (rds : List (List UInt8)) (hint : Hint) (n : Nat), Only S (addRrset hint owner ty cls ttl rds n) := by
  intro rds
  induction rds with
  | nil => intro hint n; exact only_pure n
  | cons rd rds ih =>
    intro hint n
    unfold addRrset
    exact only_bind (only_addRr hT hI hint owner ty cls ttl rd) fun _ => ih _ _

end


/-! ### which errors the public calls report, and when -/

def sectNum : Section → Nat
  | .question => 0
  | .answer => 1
  | .authority => 2
  | .additional => 3

theorem changeSection_err {sec : RrSection} {s s1 : State} {e : WriterErr}
    (h : changeSection sec s = (.err e, s1)) : e = .OutOfOrder ∧ sectNum s.sect > Driver.secNum sec := by
  unfold changeSection at h
  cases sec <;> cases hs : s.sect <;> rw [hs] at h <;> simp only [Prod.mk.injEq, Out.err.injEq, reduceCtorEq, false_and] at h
  all_goals (obtain ⟨rfl, _⟩ := h; exact ⟨rfl, by decide⟩)

theorem changeSection_counts {sec : RrSection} {s s1 : State} {u : Unit} (h : changeSection sec s = (.ok u, s1))
    (sec' : RrSection) : getCount sec' s1 = getCount sec' s := by
  have := frame_changeSection sec s
  rw [h] at this
  cases sec' <;> simp only [getCount]
  · exact this.an
  · exact this.ns
  · exact this.ar

/-- the errors of `add_*_rr` -/
theorem addRrOp_err (sec : RrSection) (hint : Hint) (owner : WName) (ty cls ttl : Nat) (rd : List UInt8)
    (s : State) (e : WriterErr) (h : (addRrOp sec hint owner ty cls ttl rd s).1 = .err e) :
    (e = .OutOfOrder ∧ sectNum s.sect > Driver.secNum sec) ∨ (e = .CountOverflow ∧ getCount sec s + 1 > 65535) ∨
    (e = .InvalidRdata ∧ rdataOK cls ty rd = false) ∨ (e = .Truncation ∧ s.available < s.cursor + rrLen owner rd) := by
  have hcls : (e = .OutOfOrder ∧ sectNum s.sect > Driver.secNum sec) ∨
      (e = .CountOverflow ∧ getCount sec s + 1 > 65535) ∨ e = .InvalidRdata ∨ e = .Truncation := by
    have h' := h
    unfold addRrOp at h'
    rw [withRollback_fst'] at h'
    simp only [M.bind_apply] at h'
    cases hcs : changeSection sec s with
    | mk r1 s1 =>
      rw [hcs] at h'
      cases r1 with
      | panic => cases h'
      | err e1 =>
        simp only [Out.err.injEq] at h'
        subst h'
        exact Or.inl (changeSection_err hcs)
      | ok u1 =>
        simp only at h'
        cases hadd : addRr hint owner ty cls (ttlFrom ttl) rd s1 with
        | mk r2 s2 =>
          rw [hadd] at h'
          cases r2 with
          | panic => cases h'
          | err e2 =>
            simp only [Out.err.injEq] at h'
            subst h'
            have := only_addRr (S := fun e => e = .InvalidRdata ∨ e = .Truncation) (Or.inr rfl) (Or.inl rfl)
              hint owner ty cls (ttlFrom ttl) rd s1 e2 (by rw [hadd])
            exact Or.inr (Or.inr this)
          | ok u2 =>
            simp only [M.gets_apply] at h'
            have he2 : Ext s1 s2 := by have := frame_addRr hint owner ty cls (ttlFrom ttl) rd s1; rwa [hadd] at this
            have hc : getCount sec s2 = getCount sec s := by
              rw [← changeSection_counts hcs sec]
              cases sec <;> simp only [getCount]
              · exact he2.an
              · exact he2.ns
              · exact he2.ar
            split at h'
            · rename_i hov
              simp only [M.fail_apply, Out.err.injEq] at h'
              subst h'
              exact Or.inr (Or.inl ⟨rfl, by rw [← hc]; exact hov⟩)
            · simp only [setCount, M.modify_apply] at h'
              cases h'
  rcases hcls with h1 | h1 | h1 | h1
  · exact Or.inl h1
  · exact Or.inr (Or.inl h1)
  · subst h1; exact Or.inr (Or.inr (Or.inl ⟨rfl, (addRrOp_rdata sec hint owner ty cls ttl rd s).2 h⟩))
  · subst h1; exact Or.inr (Or.inr (Or.inr ⟨rfl, addRrOp_truncation sec hint owner ty cls ttl rd s h⟩))

/-- the errors of `add_*_rrset` -/
theorem addRrsetOp_err (sec : RrSection) (hint : Hint) (owner : WName) (ty cls ttl : Nat) (rds : List (List UInt8))
    (s : State) (e : WriterErr) (h : (addRrsetOp sec hint owner ty cls ttl rds s).1 = .err e) :
    (e = .OutOfOrder ∧ sectNum s.sect > Driver.secNum sec) ∨
    (e = .CountOverflow ∧ getCount sec s + rds.length > 65535) ∨
    (e = .InvalidRdata ∧ rds.all (rdataOK cls ty) = false) ∨
    (e = .Truncation ∧ s.available < s.cursor + (rds.map (rrLen owner)).sum) := by
  have hcls : (e = .OutOfOrder ∧ sectNum s.sect > Driver.secNum sec) ∨
      (e = .CountOverflow ∧ getCount sec s + rds.length > 65535) ∨ e = .InvalidRdata ∨ e = .Truncation := by
    have h' := h
    unfold addRrsetOp at h'
    rw [withRollback_fst'] at h'
    simp only [M.bind_apply] at h'
    cases hcs : changeSection sec s with
    | mk r1 s1 =>
      rw [hcs] at h'
      cases r1 with
      | panic => cases h'
      | err e1 =>
        simp only [Out.err.injEq] at h'
        subst h'
        exact Or.inl (changeSection_err hcs)
      | ok u1 =>
        simp only at h'
        cases hadd : addRrset hint owner ty cls (ttlFrom ttl) rds 0 s1 with
        | mk r2 s2 =>
          rw [hadd] at h'
          cases r2 with
          | panic => cases h'
          | err e2 =>
            simp only [Out.err.injEq] at h'
            subst h'
            have := only_addRrset (S := fun e => e = .InvalidRdata ∨ e = .Truncation) (Or.inr rfl) (Or.inl rfl)
              owner ty cls (ttlFrom ttl) rds hint 0 s1 e2 (by rw [hadd])
            exact Or.inr (Or.inr this)
          | ok n =>
            simp only [M.gets_apply] at h'
            have hn := addRrset_count owner ty cls (ttlFrom ttl) rds hint 0 s1 s2 n hadd
            have he2 : Ext s1 s2 := by
              have := frame_addRrset hint owner ty cls (ttlFrom ttl) rds 0 s1; rwa [hadd] at this
            have hc : getCount sec s2 = getCount sec s := by
              rw [← changeSection_counts hcs sec]
              cases sec <;> simp only [getCount]
              · exact he2.an
              · exact he2.ns
              · exact he2.ar
            split at h'
            · rename_i hov
              simp only [M.fail_apply, Out.err.injEq] at h'
              subst h'
              exact Or.inr (Or.inl ⟨rfl, by omega⟩)
            · split at h'
              · rename_i hov
                simp only [M.fail_apply, Out.err.injEq] at h'
                subst h'
                exact Or.inr (Or.inl ⟨rfl, by rw [← hc]; omega⟩)
              · simp only [setCount, M.modify_apply] at h'
                cases h'
  rcases hcls with h1 | h1 | h1 | h1
  · exact Or.inl h1
  · exact Or.inr (Or.inl h1)
  · subst h1; exact Or.inr (Or.inr (Or.inl ⟨rfl, (addRrsetOp_rdata sec hint owner ty cls ttl rds s).2 h⟩))
  · subst h1; exact Or.inr (Or.inr (Or.inr ⟨rfl, addRrsetOp_truncation sec hint owner ty cls ttl rds s h⟩))

/-- the errors of `add_question` -/
theorem addQuestion_err (qn : WName) (qt qc : Nat) (s : State) (e : WriterErr)
    (h : (addQuestion qn qt qc s).1 = .err e) :
    (e = .OutOfOrder ∧ s.sect ≠ .question) ∨ (e = .CountOverflow ∧ s.qdcount + 1 > 65535) ∨
    (e = .Truncation ∧ s.available < s.cursor + (qn.wire.length + 4)) := by
  have hcls : (e = .OutOfOrder ∧ s.sect ≠ .question) ∨ (e = .CountOverflow ∧ s.qdcount + 1 > 65535) ∨
      e = .Truncation := by
    have h' := h
    unfold addQuestion at h'
    simp only [M.bind_apply, M.gets_apply] at h'
    split at h'
    · rename_i hs
      simp only [M.fail_apply, Out.err.injEq] at h'
      exact Or.inl ⟨h'.symm, hs⟩
    · split at h'
      · rename_i hov
        simp only [M.fail_apply, Out.err.injEq] at h'
        exact Or.inr (Or.inl ⟨h'.symm, hov⟩)
      · simp only [M.bind_apply] at h'
        cases hb : withRollback (addQuestionBody qn qt qc) s with
        | mk r1 s1 =>
          rw [hb] at h'
          cases r1 with
          | panic => cases h'
          | ok u => simp only [M.modify_apply] at h'; cases h'
          | err e1 =>
            simp only [Out.err.injEq] at h'
            subst h'
            have h1 : (addQuestionBody qn qt qc s).1 = .err e1 := by
              rw [← withRollback_fst', hb]
            have : Only (fun e => e = WriterErr.Truncation) (addQuestionBody qn qt qc) := by
              unfold addQuestionBody tryPushU16
              exact only_bind (only_modify _) fun _ =>
                only_bind (only_writeUnhintedName (S := fun e => e = WriterErr.Truncation) rfl qn) fun _ =>
                only_bind (only_modify _) fun _ => only_bind (only_modify _) fun _ =>
                only_bind (only_tryPush (S := fun e => e = WriterErr.Truncation) rfl _) fun _ =>
                only_tryPush (S := fun e => e = WriterErr.Truncation) rfl _
            exact Or.inr (Or.inr (this s e1 h1))
  rcases hcls with h1 | h1 | h1
  · exact Or.inl h1
  · exact Or.inr (Or.inl h1)
  · subst h1; exact Or.inr (Or.inr ⟨rfl, addQuestion_truncation qn qt qc s h⟩)

theorem setEdns_err (p : Nat) (s : State) (e : WriterErr) (h : (setEdns p s).1 = .err e) :
    (e = .AlreadyEdns ∧ s.edns.isSome = true) ∨ (e = .CountOverflow ∧ s.arcount + 1 > 65535) ∨
    (e = .Truncation ∧ s.available < s.cursor + Gen.OPT_RECORD_SIZE) := by
  unfold setEdns at h
  split at h
  · rename_i h1; simp only [Out.err.injEq] at h; exact Or.inl ⟨h.symm, h1⟩
  · split at h
    · rename_i h2; simp only [Out.err.injEq] at h; exact Or.inr (Or.inr ⟨h.symm, by omega⟩)
    · split at h
      · rename_i h3; simp only [Out.err.injEq] at h; exact Or.inr (Or.inl ⟨h.symm, h3⟩)
      · cases h

theorem setTsig_err (m : TsigMode) (rr : TsigRr) (s : State) (e : WriterErr) (h : (setTsig m rr s).1 = .err e) :
    (e = .AlreadyTsig ∧ s.tsig.isSome = true) ∨ (e = .CountOverflow ∧ s.arcount + 1 > 65535) ∨
    (e = .Truncation ∧ s.available < s.cursor + reservedLenOf m rr) := by
  unfold setTsig at h
  split at h
  · rename_i h1; simp only [Out.err.injEq] at h; exact Or.inl ⟨h.symm, h1⟩
  · split at h
    · rename_i h2; simp only [Out.err.injEq] at h; exact Or.inr (Or.inr ⟨h.symm, by omega⟩)
    · split at h
      · rename_i h3; simp only [Out.err.injEq] at h; exact Or.inr (Or.inl ⟨h.symm, h3⟩)
      · cases h

theorem setExtendedRcode_err (v : Nat) (s : State) (e : WriterErr) (h : (setExtendedRcode v s).1 = .err e) :
    (e = .NotEdns ∧ s.edns = none) ∨ (e = .ExtendedRcodeOverflow ∧ v > 4095) := by
  unfold setExtendedRcode at h
  simp only [M.bind_apply, M.gets_apply] at h
  cases he : s.edns with
  | none => rw [he] at h; simp only [M.fail_apply, Out.err.injEq] at h; exact Or.inl ⟨h.symm, rfl⟩
  | some ed =>
    rw [he] at h
    simp only [] at h
    split at h
    · rename_i hv; simp only [M.fail_apply, Out.err.injEq] at h; exact Or.inr ⟨h.symm, hv⟩
    · simp only [M.bind_apply, setHdr] at h
      by_cases hlt : Gen.RCODE_BYTE < s.octets.size
      · simp only [dif_pos hlt, M.modify_apply] at h; cases h
      · simp only [dif_neg hlt] at h; cases h

theorem updateTimeSigned_err (t : List UInt8) (s : State) (e : WriterErr) (h : (updateTimeSigned t s).1 = .err e) :
    e = .NotTsig ∧ s.tsig = none := by
  unfold updateTimeSigned at h
  cases ht : s.tsig with
  | none => rw [ht] at h; simp only [Out.err.injEq] at h; exact ⟨h.symm, rfl⟩
  | some ts => rw [ht] at h; cases h


theorem retemplate_err {ss : Session} {n : Nat} {fill : UInt8} {mk : Bytes → Template → Out WriterErr State}
    {e : WriterErr} (h : (retemplate ss n fill mk).1 = .err e) :
    ∃ t, intoTemplate ss.w = .ok t ∧ mk (Array.replicate n fill) t = .err e := by
  unfold retemplate at h
  cases ht : intoTemplate ss.w with
  | ok t =>
    rw [ht] at h
    simp only [] at h
    cases hm : mk (Array.replicate n fill) t with
    | ok s' => rw [hm] at h; cases h
    | err e' =>
      rw [hm] at h
      simp only [] at h
      refine ⟨t, rfl, ?_⟩
      split at h
      · simp only [Out.err.injEq] at h; rw [← h]; exact hm
      · cases h
    | panic =>
      rw [hm] at h
      simp only [] at h
      split at h <;> cases h
  | err e' => rw [ht] at h; cases h
  | panic => rw [ht] at h; cases h

theorem tryFromTemplateImpl_err {buf : Bytes} {t : Template} {ts : Option Tsig} {e : WriterErr}
    (h : tryFromTemplateImpl buf t ts = .err e) : e = .Truncation ∧ buf.size < t.octets.length + t.reserved := by
  unfold tryFromTemplateImpl at h
  simp only at h
  split at h
  · rename_i hlt; simp only [Out.err.injEq] at h; exact ⟨h.symm, hlt⟩
  · split at h <;> cases h

theorem intoTemplate_fields {s : State} {t : Template} (hI : I s) (ht : intoTemplate s = .ok t) :
    t.octets.length = s.cursor ∧ t.reserved = s.limit - s.available ∧ t.tsig = s.tsig := by
  have hi := hI.inv
  have h1 := hi.hdr; have h2 := hi.cur_av; have h3 := hi.av_lim; have h4 := hi.lim_size
  unfold intoTemplate at ht
  rw [if_neg (by omega), if_neg (by omega)] at ht
  cases ht
  exact ⟨extract_toList_length _ _ (by omega), rfl, rfl⟩

/-! ### the abstract state, as far as `justified` looks at it -/

def isUnsigned : TsigMode → Bool
  | .unsigned _ => true
  | _ => false

/-- what the specification's abstract state says about the writer's state -/
structure AbsNum (s : State) (a : Message.AState) : Prop where
  edns : a.edns.isSome = s.edns.isSome
  tsig : a.tsig.isSome = s.tsig.isSome
  signed : ∀ t ts, a.tsig = some t → s.tsig = some ts → t.signed.isNone = isUnsigned ts.mode
  sect : a.sect = sectNum s.sect
  qd : a.questions.length = s.qdcount
  an : a.an.length = s.ancount
  ns : a.ns.length = s.nscount
  ar : Message.secCount a 3 = s.arcount
  lim : a.limit = s.limit
  res : a.reserved = s.limit - s.available
  cur : a.cur = s.cursor
  buf : a.buflen = s.octets.size
  mode : a.mode = Driver.toSpecMode s.mode

theorem AbsNum.rem {s : State} {a : Message.AState} (h : AbsNum s a) (hi : Inv s) :
    Message.remaining a = s.available - s.cursor := by
  unfold Message.remaining
  rw [h.lim, h.res, h.cur]
  have := hi.av_lim
  omega

theorem AbsNum.used {s : State} {a : Message.AState} (h : AbsNum s a) :
    a.cur + a.reserved = s.cursor + (s.limit - s.available) := by
  rw [h.cur, h.res]

theorem absNum_hv {s : State} {a : Message.AState} (h : AbsNum s a) (v : Option HV) : AbsNum { s with hv := v } a :=
  ⟨h.edns, h.tsig, h.signed, h.sect, h.qd, h.an, h.ns, h.ar, h.lim, h.res, h.cur, h.buf, h.mode⟩

theorem secCount_eq {s : State} {a : Message.AState} (h : AbsNum s a) (sec : RrSection) :
    Message.secCount a (Driver.secNum sec) = getCount sec s := by
  cases sec
  · simp [Message.secCount, Driver.secNum, getCount, h.an]
  · simp [Message.secCount, Driver.secNum, getCount, h.ns]
  · exact h.ar

theorem rrsLen_eq (o : WName) (rds : List (List UInt8)) :
    Message.rrsLen o.wire rds = (rds.map (rrLen o)).sum := by
  unfold Message.rrsLen rrLen; rfl

/-- the space `set_tsig` reserves is the length of the TSIG record with an uncompressed owner -/
theorem atsig_rrLen (m : TsigMode) (rr : TsigRr) (h6 : rr.timeSigned.length = 6) (h6' : rr.serverTime.length = 6)
    (sg : Option Nat) (alg : Message.Name)
    (hsa : (sg, alg) = (match m with
      | .request a _ | .response a _ _ | .subsequent a _ _ =>
        (some (Message.algOutputSize (Driver.algNum a)), Message.algWireName (Driver.algNum a))
      | .unsigned n => (none, n.wire))) :
    Message.ATsig.rrLen ⟨sg, alg, rr.keyName.wire, rr.timeSigned, rr.fudge, rr.originalId, rr.error, rr.serverTime⟩ =
      reservedLenOf m rr := by
  have hbt : XR_BADTIME = 18 := by decide +kernel
  have hl2 : ∀ x, (u16be x).length = 2 := fun _ => rfl
  have ha1 : (Message.algWireName (Driver.algNum .hmacSha1)).length = (algName .hmacSha1).wire.length := by decide +kernel
  have ha2 : (Message.algWireName (Driver.algNum .hmacSha256)).length = (algName .hmacSha256).wire.length := by
    decide +kernel
  have ho1 : Message.algOutputSize (Driver.algNum .hmacSha1) = algOutputSize .hmacSha1 := by decide
  have ho2 : Message.algOutputSize (Driver.algNum .hmacSha256) = algOutputSize .hmacSha256 := by decide
  unfold Message.ATsig.rrLen Message.tsigRdataAround Message.ATsig.macLen reservedLenOf
  cases m with
  | request a k =>
    simp only [Prod.mk.injEq] at hsa
    obtain ⟨rfl, rfl⟩ := hsa
    simp only [signedLen, unsignedLen, List.length_append, hl2, h6, hbt, Option.getD_some]
    cases a <;> (simp only [ha1, ha2, ho1, ho2]; split <;> simp [h6'] <;> omega)
  | response a x k =>
    simp only [Prod.mk.injEq] at hsa
    obtain ⟨rfl, rfl⟩ := hsa
    simp only [signedLen, unsignedLen, List.length_append, hl2, h6, hbt, Option.getD_some]
    cases a <;> (simp only [ha1, ha2, ho1, ho2]; split <;> simp [h6'] <;> omega)
  | subsequent a x k =>
    simp only [Prod.mk.injEq] at hsa
    obtain ⟨rfl, rfl⟩ := hsa
    simp only [signedLen, unsignedLen, List.length_append, hl2, h6, hbt, Option.getD_some]
    cases a <;> (simp only [ha1, ha2, ho1, ho2]; split <;> simp [h6'] <;> omega)
  | unsigned nm =>
    simp only [Prod.mk.injEq] at hsa
    obtain ⟨rfl, rfl⟩ := hsa
    simp only [unsignedLen, List.length_append, hl2, h6, hbt, Option.getD_none]
    split <;> simp [h6'] <;> omega


theorem st_CountOverflow : Driver.statusStr (.err .CountOverflow) = "err:CountOverflow" := rfl
theorem st_Truncation : Driver.statusStr (.err .Truncation) = "err:Truncation" := rfl
theorem st_OutOfOrder : Driver.statusStr (.err .OutOfOrder) = "err:OutOfOrder" := rfl
theorem st_InvalidRdata : Driver.statusStr (.err .InvalidRdata) = "err:InvalidRdata" := rfl
theorem st_NotEdns : Driver.statusStr (.err .NotEdns) = "err:NotEdns" := rfl
theorem st_AlreadyEdns : Driver.statusStr (.err .AlreadyEdns) = "err:AlreadyEdns" := rfl
theorem st_ExtendedRcodeOverflow : Driver.statusStr (.err .ExtendedRcodeOverflow) = "err:ExtendedRcodeOverflow" := rfl
theorem st_NotTsig : Driver.statusStr (.err .NotTsig) = "err:NotTsig" := rfl
theorem st_AlreadyTsig : Driver.statusStr (.err .AlreadyTsig) = "err:AlreadyTsig" := rfl
theorem st_NotSignedTsig : Driver.statusStr (.err .NotSignedTsig) = "err:NotSignedTsig" := rfl

attribute [local simp] st_CountOverflow st_Truncation st_OutOfOrder st_InvalidRdata st_NotEdns st_AlreadyEdns st_ExtendedRcodeOverflow st_NotTsig st_AlreadyTsig st_NotSignedTsig

/-- **Every failure is justified**: if a public call fails with `e` in a valid state, and the
    abstract state `a` of the specification describes that state (`AbsNum`), then `justified a op
    "err:e"` holds: `Truncation` only when the uncompressed encoding does not fit, `CountOverflow`
    only when the count would exceed 65535, `OutOfOrder` only for a section that is already closed,
    `InvalidRdata` only for RDATA the specification cannot read, `AlreadyEdns` / `AlreadyTsig` /
    `NotEdns` / `NotTsig` / `NotSignedTsig` / `ExtendedRcodeOverflow` exactly under their
    conditions. -/
theorem step_justified (ss : Session) (op : Op) (a : Message.AState) (hI : I ss.w) (hop : OpOK ss op)
    (hA : AbsNum ss.w a) (e : WriterErr) (he : (step ss op).1 = .err e) :
    Message.justified a (Driver.toSpecOp op) (Driver.statusStr (.err e)) = true := by
  have hav := hI.inv.cur_av
  have hrem := hA.rem hI.inv
  cases op with
  | setId v => exact absurd he ((liftW_total (total_write _ _) ss).2 e)
  | setQr b => exact absurd he ((liftW_total (total_setBit _ _ _) ss).2 e)
  | setAa b => exact absurd he ((liftW_total (total_setBit _ _ _) ss).2 e)
  | setTc b => exact absurd he ((liftW_total (total_setBit _ _ _) ss).2 e)
  | setRd b => exact absurd he ((liftW_total (total_setBit _ _ _) ss).2 e)
  | setRa b => exact absurd he ((liftW_total (total_setBit _ _ _) ss).2 e)
  | setOpcode v => exact absurd he ((liftW_total (total_setHdr _ _) ss).2 e)
  | setRcode v => exact absurd he ((liftW_total (total_setRcode _) ss).2 e)
  | setLimit v => exact absurd he ((liftW_total (total_setLimit _) ss).2 e)
  | setMode m => exact absurd he ((liftW_total (total_setCompressionMode _) ss).2 e)
  | clearRrs => exact absurd he ((liftW_total total_clearRrs ss).2 e)
  | getters => cases he
  | setExtendedRcode v =>
    have he' : (setExtendedRcode v ss.w).1 = .err e := by rw [← liftW_fst]; exact he
    have hen := hA.edns
    rcases setExtendedRcode_err v ss.w e he' with ⟨rfl, h1⟩ | ⟨rfl, h1⟩
    · rw [h1] at hen
      have : a.edns = none := by cases h : a.edns <;> simp_all
      simp only [Message.justified, Driver.toSpecOp]
      simp
      exact this
    · simp only [Message.justified, Driver.toSpecOp]
      simp
      exact h1
  | addQuestion n t c =>
    have he' : (addQuestion n t c ss.w).1 = .err e := by rw [← liftW_fst]; exact he
    rcases addQuestion_err n t c ss.w e he' with ⟨rfl, h1⟩ | ⟨rfl, h1⟩ | ⟨rfl, h1⟩
    · have : a.sect ≠ 0 := by
        rw [hA.sect]; cases hs : ss.w.sect <;> simp_all [sectNum]
      simp only [Message.justified, Driver.toSpecOp]
      simp
      exact this
    · have : a.questions.length + 1 > 65535 := by rw [hA.qd]; exact h1
      simp only [Message.justified, Driver.toSpecOp]
      simp
      omega
    · have : n.wire.length + 4 > Message.remaining a := by rw [hrem]; omega
      simp only [Message.justified, Driver.toSpecOp]
      simp
      omega
  | addRr sec hn o ty cls ttl rd hv =>
    have he' : (addRrOp sec (resolveHint ss.hvs hn) o ty cls ttl rd { ss.w with hv := hv.map (hvGet ss.hvs) }).1 =
        .err e := by rw [← withHv_fst]; exact he
    have hc := secCount_eq hA sec
    have hgc : getCount sec { ss.w with hv := hv.map (hvGet ss.hvs) } = getCount sec ss.w := by cases sec <;> rfl
    rcases addRrOp_err _ _ _ _ _ _ _ _ e he' with ⟨rfl, h1⟩ | ⟨rfl, h1⟩ | ⟨rfl, h1⟩ | ⟨rfl, h1⟩
    · have : a.sect > Driver.secNum sec := by rw [hA.sect]; exact h1
      simp only [Message.justified, Driver.toSpecOp]
      simp
      omega
    · have : Message.secCount a (Driver.secNum sec) + 1 > 65535 := by rw [hc, ← hgc]; exact h1
      simp only [Message.justified, Driver.toSpecOp]
      simp
      omega
    · have h2 := given_none_of_not_rdataOK cls ty rd h1
      have h3 : Message.givenRdata ty cls rd = none := by cases h : Message.givenRdata ty cls rd <;> simp_all
      simp only [Message.justified, Driver.toSpecOp]
      simp
      exact h3
    · have : Message.rrsLen o.wire [rd] > Message.remaining a := by
        rw [hrem, rrsLen_eq]
        simp only [List.map_cons, List.map_nil, List.sum_cons, List.sum_nil]
        have h1' : ss.w.available < ss.w.cursor + rrLen o rd := h1
        omega
      simp only [Message.justified, Driver.toSpecOp]
      simp
      omega
  | addRrset sec hn o ty cls ttl rds hv =>
    have he' : (addRrsetOp sec (resolveHint ss.hvs hn) o ty cls ttl rds { ss.w with hv := hv.map (hvGet ss.hvs) }).1 =
        .err e := by rw [← withHv_fst]; exact he
    have hc := secCount_eq hA sec
    have hgc : getCount sec { ss.w with hv := hv.map (hvGet ss.hvs) } = getCount sec ss.w := by cases sec <;> rfl
    rcases addRrsetOp_err _ _ _ _ _ _ _ _ e he' with ⟨rfl, h1⟩ | ⟨rfl, h1⟩ | ⟨rfl, h1⟩ | ⟨rfl, h1⟩
    · have : a.sect > Driver.secNum sec := by rw [hA.sect]; exact h1
      simp only [Message.justified, Driver.toSpecOp]
      simp
      omega
    · have : Message.secCount a (Driver.secNum sec) + rds.length > 65535 := by rw [hc, ← hgc]; exact h1
      simp only [Message.justified, Driver.toSpecOp]
      simp
      omega
    · have h2 : ∃ rd ∈ rds, Message.givenRdata ty cls rd = none := by
        have : ∃ rd ∈ rds, rdataOK cls ty rd = false := by
          by_cases hall : ∀ rd ∈ rds, rdataOK cls ty rd = true
          · rw [List.all_eq_true.mpr hall] at h1; cases h1
          · simp only [Classical.not_forall] at hall
            obtain ⟨rd, hm, hne⟩ := hall
            exact ⟨rd, hm, by cases hx : rdataOK cls ty rd <;> simp_all⟩
        obtain ⟨rd, hm, hno⟩ := this
        have h2 := given_none_of_not_rdataOK cls ty rd hno
        exact ⟨rd, hm, by cases h : Message.givenRdata ty cls rd <;> simp_all⟩
      simp only [Message.justified, Driver.toSpecOp]
      simp
      exact h2
    · have : Message.rrsLen o.wire rds > Message.remaining a := by
        rw [hrem, rrsLen_eq]
        have h1' : ss.w.available < ss.w.cursor + (rds.map (rrLen o)).sum := h1
        omega
      simp only [Message.justified, Driver.toSpecOp]
      simp
      omega
  | setEdns p =>
    have he' : (setEdns p ss.w).1 = .err e := by rw [← liftW_fst]; exact he
    rcases setEdns_err p ss.w e he' with ⟨rfl, h1⟩ | ⟨rfl, h1⟩ | ⟨rfl, h1⟩
    · simp only [Message.justified, Driver.toSpecOp, hA.edns, h1]
      first | done | simp
    · have : Message.secCount a 3 + 1 > 65535 := by rw [hA.ar]; exact h1
      simp only [Message.justified, Driver.toSpecOp]
      simp
      omega
    · have : 11 > Message.remaining a := by
        rw [hrem]
        have : Gen.OPT_RECORD_SIZE = 11 := rfl
        omega
      simp only [Message.justified, Driver.toSpecOp]
      simp
      omega
  | setTsig m rr =>
    have he' : (setTsig m rr ss.w).1 = .err e := by rw [← liftW_fst]; exact he
    obtain ⟨_, _, h6, h6'⟩ := hop
    simp only [Driver.toSpecOp]
    have hlen := atsig_rrLen m rr h6 h6' _ _ (rfl : ((match m with
      | .request a _ | .response a _ _ | .subsequent a _ _ =>
        (some (Message.algOutputSize (Driver.algNum a)), Message.algWireName (Driver.algNum a))
      | .unsigned n => ((none : Option Nat), n.wire)).1, (match m with
      | .request a _ | .response a _ _ | .subsequent a _ _ =>
        (some (Message.algOutputSize (Driver.algNum a)), Message.algWireName (Driver.algNum a))
      | .unsigned n => ((none : Option Nat), n.wire)).2) = _)
    rcases setTsig_err m rr ss.w e he' with ⟨rfl, h1⟩ | ⟨rfl, h1⟩ | ⟨rfl, h1⟩
    · simp only [Message.justified, hA.tsig, h1]
      first | done | simp
    · have : Message.secCount a 3 + 1 > 65535 := by rw [hA.ar]; exact h1
      simp only [Message.justified]
      simp
      omega
    · simp only [Message.justified]
      simp
      rw [hrem]
      have key : ∀ x, x = reservedLenOf m rr → ss.w.available - ss.w.cursor < x := fun x hx => by omega
      exact key _ hlen
  | updateTimeSigned t =>
    have he' : (updateTimeSigned t ss.w).1 = .err e := by rw [← liftW_fst]; exact he
    obtain ⟨rfl, h1⟩ := updateTimeSigned_err t ss.w e he'
    have := hA.tsig
    rw [h1] at this
    have hn : a.tsig = none := by cases h : a.tsig <;> simp_all
    simp only [Message.justified, Driver.toSpecOp]
    simp
    exact hn
  | template n fill =>
    obtain ⟨t, ht, hm⟩ := retemplate_err he
    obtain ⟨rfl, hlt⟩ := tryFromTemplateImpl_err hm
    obtain ⟨f1, f2, _⟩ := intoTemplate_fields hI ht
    have : n < a.cur + a.reserved := by
      rw [hA.used]
      rw [f1, f2] at hlt; simpa using hlt
    simp only [Message.justified, Driver.toSpecOp]
    simp
    omega
  | templateSubsequent n fill mac =>
    obtain ⟨t, ht, hm⟩ := retemplate_err he
    obtain ⟨f1, f2, f3⟩ := intoTemplate_fields hI ht
    simp only [tryFromTemplateAsTsigSubsequent] at hm
    rw [f3] at hm
    have hsome := hA.tsig
    have htr : ∀ ts', tryFromTemplateImpl (Array.replicate n fill) t ts' = .err e →
        Message.justified a (Message.SOp.templateSubsequent n) (Driver.statusStr (.err e)) = true := by
      intro ts' hx
      obtain ⟨rfl, hlt⟩ := tryFromTemplateImpl_err hx
      have : n < a.cur + a.reserved := by
        rw [hA.used]
        rw [f1, f2] at hlt; simpa using hlt
      simp only [Message.justified]
      simp
      omega
    cases hts : ss.w.tsig with
    | none =>
      rw [hts] at hm hsome
      simp only [Out.err.injEq] at hm
      subst hm
      have hn : a.tsig = none := by
        cases h : a.tsig with
        | none => rfl
        | some v => rw [h] at hsome; cases hsome
      simp only [Message.justified, Driver.toSpecOp]
      simp
      exact hn
    | some ts =>
      rw [hts] at hm hsome
      simp only at hm
      cases hat : a.tsig with
      | none => rw [hat] at hsome; cases hsome
      | some at' =>
        have hsg := hA.signed at' ts hat hts
        cases hmode : ts.mode with
        | request al k => rw [hmode] at hm; exact htr _ hm
        | response al x k => rw [hmode] at hm; exact htr _ hm
        | subsequent al x k => rw [hmode] at hm; exact htr _ hm
        | unsigned nm =>
          rw [hmode] at hm hsg
          simp only [Out.err.injEq] at hm
          subst hm
          simp only [isUnsigned] at hsg
          simp only [Message.justified, Driver.toSpecOp, hat]
          simp
          cases hx : at'.signed with
          | none => rfl
          | some v => rw [hx] at hsg; cases hsg

end QV.Writer
