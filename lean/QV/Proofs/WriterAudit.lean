/-
  C12 / C13 — the pointer audit of the specification passes on what the writer produced.

  `audit_go`: the induction over `auditPointers.go`, stated on the octets alone. The name
  occurrences are the names at a list of positions in ascending order; at each position literal
  labels are followed by a root label, or by a pointer whose target lies below the name and is a
  recorded label start (and then the item was not written in `Disabled` mode); every recorded
  label start is the first octet of a label of one of the names. Then every pointer points to a
  label of an earlier name, and the audit returns `ok`.
-/
import QV.Proofs.WriterWalk

namespace QV.Writer
open QV QV.Wire QV.Spec

/-- at the position `pr.1` (of the item with index `pr.2`): literal labels, then the root label —
    or a pointer to a recorded label start below the name, in an item not written in `Disabled`
    mode -/
def ChunkOK (msg : Bytes) (G : List Nat) (modes : List Message.Mode) (fin : Message.Mode) (pr : Nat × Nat) : Prop :=
  ∃ pre b, LabelsWF pre ∧ BytesAt msg pr.1 (pre.flatMap WName.encLabel ++ [b]) ∧
    (b = 0 ∨ (isPtr b = true ∧ ∃ b2, msg[pr.1 + encLen pre + 1]? = some b2 ∧ ptrOf b b2 < pr.1 ∧
      ptrOf b b2 ∈ G ∧ modes.getD pr.2 fin ≠ .disabled))

theorem physLab_ge {oct : Bytes} {a g : Nat} (h : PhysLab oct a g) : a ≤ g := by
  obtain ⟨pre, b, _, _, _, hg⟩ := h
  rcases hg with hg | ⟨_, hg⟩
  · exact (labelStartsFrom_ge a pre g hg).1
  · omega

theorem ptrOf_le (b b2 : UInt8) : ptrOf b b2 ≤ 16383 := by
  unfold ptrOf
  have := b2.toNat_lt
  have : b.toNat % 64 < 64 := Nat.mod_lt _ (by decide)
  omega

theorem audit_go (msg : Bytes) (G : List Nat) (modes : List Message.Mode) (fin : Message.Mode) :
    ∀ (pairs2 : List (Nat × Nat)) (names : List Message.NameOcc) (pairs1 : List (Nat × Nat)) (seen : List Nat),
      All2 (Occ msg) pairs2 names →
      (pairs1 ++ pairs2).Pairwise (fun x y => x.1 < y.1) →
      (∀ pr ∈ pairs2, ChunkOK msg G modes fin pr) →
      (∀ g ∈ G, ∃ pr ∈ pairs1 ++ pairs2, PhysLab msg pr.1 g) →
      (∀ pr ∈ pairs1, ∀ g, PhysLab msg pr.1 g → g ∈ seen) →
      Message.auditPointers.go modes fin names seen = .ok () := by
  intro pairs2
  induction pairs2 with
  | nil =>
    intro names pairs1 seen hocc _ _ _ _
    cases hocc
    rfl
  | cons pr rest ih =>
    intro names pairs1 seen hocc hsorted hchunk hlabs hseen
    cases hocc with
    | @cons _ o _ ns ho hrest =>
    obtain ⟨o1, o2, o3, o4⟩ := ho
    obtain ⟨pre, b, hwf, hb, hcase⟩ := hchunk pr List.mem_cons_self
    have hc : b = 0 ∨ isPtr b = true := by
      rcases hcase with h | ⟨h, _⟩
      · exact Or.inl h
      · exact Or.inr h
    obtain ⟨e1, e2, e3⟩ := physical_inv msg b pre pr.1 130 [] _ hwf hb hc o3
    simp only [List.reverse_nil, List.nil_append] at e1
    replace e2 : b = 0 → o.ptr = none := e2
    replace e3 : isPtr b = true → ∃ b2, msg[pr.1 + encLen pre + 1]? = some b2 ∧
      o.ptr = some (pr.1 + encLen pre, ptrOf b b2) := e3
    -- after this occurrence: its label starts are seen
    have hnext : Message.auditPointers.go modes fin ns (o.labelStarts ++ seen) = .ok () := by
      refine ih ns (pairs1 ++ [pr]) (o.labelStarts ++ seen) hrest (by simpa using hsorted)
        (fun x hx => hchunk x (List.mem_cons_of_mem _ hx)) (by simpa using hlabs) ?_
      intro x hx g hg
      rcases List.mem_append.mp hx with hx | hx
      · exact List.mem_append_right _ (hseen x hx g hg)
      · simp only [List.mem_singleton] at hx
        subst hx
        apply List.mem_append_left
        rw [e1]
        exact (physLab_iff hwf hb hc).mp hg
    rcases hcase with h0 | ⟨hp, b2, hb2, hlt, hG, hmode⟩
    · have hnone : o.ptr = none := e2 h0
      unfold Message.auditPointers.go
      rw [hnone]
      exact hnext
    · obtain ⟨b2', hb2', hptr⟩ := e3 hp
      rw [hb2] at hb2'
      have : b2 = b2' := Option.some.inj hb2'
      subst this
      -- the target is a label start of an earlier name
      have hseenT : ptrOf b b2 ∈ seen := by
        obtain ⟨x, hx, hpl⟩ := hlabs _ hG
        have hge := physLab_ge hpl
        rcases List.mem_append.mp hx with hx | hx
        · exact hseen x hx _ hpl
        · exfalso
          rcases List.mem_cons.mp hx with rfl | hx
          · omega
          · have hpw := (List.pairwise_append.mp hsorted).2.1
            have := (List.pairwise_cons.mp hpw).1 x hx
            omega
      unfold Message.auditPointers.go
      rw [hptr]
      simp only []
      rw [if_neg (by omega), if_neg (by have := ptrOf_le b b2; omega)]
      rw [if_neg (by simp [hseenT])]
      have hplace : (o.place == Message.Where.rdataUncompressible) = false := by
        cases hpl : o.place <;> first | rfl | (exfalso; have := o4 hpl; rw [hptr] at this; cases this)
      rw [hplace]
      simp only [Bool.false_eq_true, if_false]
      have hm : (modes.getD o.item fin == Message.Mode.disabled) = false := by
        rw [o2]
        cases hmm : modes.getD pr.2 fin <;> first | rfl | exact absurd hmm hmode
      rw [hm]
      simp only [Bool.false_eq_true, if_false]
      exact hnext

/-! ### pointers inside a stored name -/

theorem nameAtC_G {G : Nat → Prop} {oct : Bytes} {cur cs p : Nat} {ls : List Label}
    (h : NameAtC G oct cur cs p ls) : G p := by
  cases h with
  | root _ hg _ _ => exact hg
  | label _ hg _ _ _ _ _ _ _ => exact hg

/-- literal labels of a stored name followed by a pointer: the pointer leads below the chunk, to a
    recorded label start -/
theorem nameAtC_chunk_ptr {G : Nat → Prop} {oct : Bytes} {cur : Nat} (b : UInt8) (hp : isPtr b = true) :
    ∀ (pre : List Label) (cs p : Nat) (ls : List Label), pre ≠ [] → LabelsWF pre →
      BytesAt oct p (pre.flatMap WName.encLabel ++ [b]) → NameAtC G oct cur cs p ls →
      ∃ b2, oct[p + encLen pre + 1]? = some b2 ∧ ptrOf b b2 < cs ∧ G (ptrOf b b2) := by
  intro pre
  induction pre with
  | nil => intro cs p ls hne; exact absurd rfl hne
  | cons l0 pre' ih =>
    intro cs p ls _ hwf hb hn
    have hl0 := hwf l0 List.mem_cons_self
    have hb' : BytesAt oct p (WName.encLabel l0 ++ (pre'.flatMap WName.encLabel ++ [b])) := by
      simpa [List.flatMap_cons, List.append_assoc] using hb
    obtain ⟨b1, brest⟩ := bytesAt_append hb'
    have h0 : oct[p]? = some (UInt8.ofNat l0.length) := by
      have := b1 0 (by simp [WName.encLabel])
      simpa [WName.encLabel] using this
    have hlen : (WName.encLabel l0).length = l0.length + 1 := by simp [WName.encLabel]
    rw [hlen] at brest
    cases hn with
    | root _ _ _ h00 =>
      rw [h0] at h00
      exact absurd (Option.some.inj h00) (label_len_ne_zero hl0)
    | @label _ cs' _ p' l ls' hcs hg h1 h63 hbl hd hop hch rest =>
      rw [h0] at hbl
      have hll : l0.length = l.length := by
        have := congrArg UInt8.toNat (Option.some.inj hbl)
        rwa [encLabel_len_toNat hl0.2, encLabel_len_toNat h63] at this
      rw [← hll] at hop
      cases pre' with
      | nil =>
        have hbb : oct[p + (l0.length + 1)]? = some b := by simpa using brest 0 (by simp)
        rw [show p + 1 + l0.length = p + (l0.length + 1) by omega] at hop
        cases hop with
        | here _ hb2 hnp =>
          rw [hbb] at hb2
          rw [← Option.some.inj hb2, hp] at hnp; cases hnp
        | @jump c1 c2 c3 hq h1' h2' hp' hlt h3' hnp' =>
          rw [hbb] at h1'
          have : b = c1 := Option.some.inj h1'
          subst this
          refine ⟨c2, ?_, ?_, nameAtC_G rest⟩
          · simp only [encLen_cons, encLen_nil]
            rw [show p + (1 + l0.length + 0) + 1 = p + (l0.length + 1) + 1 by omega]; exact h2'
          · rcases hch with ⟨e1, _⟩ | ⟨e1, _⟩
            · omega
            · exact e1
      | cons l1 pre'' =>
        have hl1 := hwf l1 (List.mem_cons_of_mem _ List.mem_cons_self)
        have hbb : oct[p + (l0.length + 1)]? = some (UInt8.ofNat l1.length) := by
          have := brest 0 (by simp [WName.encLabel])
          simpa [WName.encLabel] using this
        rw [show p + 1 + l0.length = p + (l0.length + 1) by omega] at hop
        have hp'eq : p' = p + (l0.length + 1) := by
          cases hop with
          | here _ _ _ => rfl
          | @jump c1 c2 c3 hq h1' h2' hp' hlt h3' hnp' =>
            rw [hbb] at h1'
            rw [← Option.some.inj h1', ofNat_len_notPtr hl1.2] at hp'; cases hp'
        subst hp'eq
        have hcs' : cs' = cs := by
          rcases hch with ⟨_, e2⟩ | ⟨e1, _⟩
          · exact e2
          · omega
        subst hcs'
        obtain ⟨b2, x1, x2, x3⟩ := ih cs' (p + (l0.length + 1)) ls' (by simp)
          (fun x hx => hwf x (List.mem_cons_of_mem _ hx)) brest rest
        refine ⟨b2, ?_, x2, x3⟩
        rw [encLen_cons, show p + (1 + l0.length + encLen (l1 :: pre'')) + 1 =
          p + (l0.length + 1) + encLen (l1 :: pre'') + 1 by omega]
        exact x1

/-- **a pointer that ends the name of an item** leads to a recorded label start below the item -/
theorem item_ptr_target {s : State} {a k : Nat} (hw : WInv s) (hit : Item s a k) (pre : List Label) (b : UInt8)
    (hwf : LabelsWF pre) (hb : BytesAt s.octets a (pre.flatMap WName.encLabel ++ [b])) (hp : isPtr b = true) :
    ∃ b2, s.octets[a + encLen pre + 1]? = some b2 ∧ ptrOf b b2 < a ∧ ptrOf b b2 ∈ s.gLabels := by
  obtain ⟨⟨q, hop, hq⟩, _, _⟩ := hit
  cases pre with
  | nil =>
    have hbb : s.octets[a]? = some b := by simpa using hb 0 (by simp)
    cases hop with
    | here _ hb2 hnp =>
      rw [hbb] at hb2
      rw [← Option.some.inj hb2, hp] at hnp; cases hnp
    | @jump c1 c2 c3 hq' h1' h2' hp' hlt h3' hnp' =>
      rw [hbb] at h1'
      have : b = c1 := Option.some.inj h1'
      subst this
      exact ⟨c2, by simpa using h2', hlt, hq⟩
  | cons l0 pre' =>
    have hl0 := hwf l0 List.mem_cons_self
    have hbb : s.octets[a]? = some (UInt8.ofNat l0.length) := by
      have := hb 0 (by simp [WName.encLabel])
      simpa [WName.encLabel] using this
    have hqa : q = a := by
      cases hop with
      | here _ _ _ => rfl
      | @jump c1 c2 c3 hq' h1' h2' hp' hlt h3' hnp' =>
        rw [hbb] at h1'
        rw [← Option.some.inj h1', ofNat_len_notPtr hl0.2] at hp'; cases hp'
    subst hqa
    obtain ⟨ls, hn, _⟩ := hw.clabs q hq
    exact nameAtC_chunk_ptr b hp (l0 :: pre') q q ls (by simp) hwf hb hn

/-! ### the name positions of the chains -/

/-- what lies at the name positions of an RDATA: an item holding a name, or a literal name -/
theorem rdAt_pos {s : State} {m : CMode} : ∀ {ts : List CompType} {rd : List UInt8} {p e : Nat} {ps : List Nat},
    RdAt s m ts rd p e ps → ∀ a ∈ ps, (∃ k n, Item s a k ∧ NameIs s a m n) ∨
      (∃ n : WName, n.WF ∧ BytesAt s.octets a n.wire ∧ a + n.wire.length ≤ e) := by
  intro ts
  induction ts with
  | nil => intro rd p e ps h a ha; rw [h.2.2] at ha; cases ha
  | cons t ts ih =>
    intro rd p e ps h a ha
    cases t with
    | compressibleName =>
      obtain ⟨n, rest, k, _, hit, hnm, ps', hps, h4⟩ := h
      subst hps
      rcases List.mem_cons.mp ha with rfl | ha
      · exact Or.inl ⟨k, n, hit, hnm⟩
      · exact ih h4 a ha
    | uncompressibleName =>
      obtain ⟨n, rest, hp, hb, ps', hps, h4⟩ := h
      subst hps
      rcases List.mem_cons.mp ha with rfl | ha
      · exact Or.inr ⟨n, parse_wf hp, hb, rdAt_le h4⟩
      · exact ih h4 a ha
    | fixedLen k =>
      obtain ⟨_, _, h4⟩ := h
      exact ih h4 a ha

theorem chunkOK_item {s : State} {a k : Nat} {m : CMode} {n : WName} (hw : WInv s) (hit : Item s a k)
    (hnm : NameIs s a m n) (modes : List Message.Mode) (fin : Message.Mode) (idx : Nat)
    (hmode : modes.getD idx fin = .disabled → m = .disabled) :
    ChunkOK (s.octets.extract 0 s.cursor) s.gLabels modes fin (a, idx) := by
  have hcs : s.cursor ≤ s.octets.size := Nat.le_trans hw.cur_av hw.av_size
  obtain ⟨pre, b, hwf, hb, hk⟩ := hit.2.1
  have hle := hit.2.2
  have hlen : (pre.flatMap WName.encLabel ++ [b]).length = encLen pre + 1 := by simp [encLen]
  refine ⟨pre, b, hwf, bytesAt_extract_prefix hcs hb (by rw [hlen]; rcases hk with ⟨_, e⟩ | ⟨_, e⟩ <;> omega), ?_⟩
  rcases hk with ⟨h0, _⟩ | ⟨hp, hk⟩
  · exact Or.inl h0
  · obtain ⟨b2, x1, x2, x3⟩ := item_ptr_target hw hit pre b hwf hb hp
    refine Or.inr ⟨hp, b2, ?_, x2, x3, fun hdis => ?_⟩
    · show (s.octets.extract 0 s.cursor)[a + encLen pre + 1]? = some b2
      rw [extract_prefix_get _ _ hcs _ (by omega)]; exact x1
    · obtain ⟨pre', w1, w2, _⟩ := hnm.2 (hmode hdis)
      obtain ⟨_, e2⟩ := chunk_unique pre' pre a 0 b w1 hwf w2 hb (Or.inl rfl) (Or.inr hp)
      rw [← e2] at hp
      exact absurd hp (by decide)

theorem chunkOK_wire {s : State} {a : Nat} {n : WName} (hw : WInv s) (hn : n.WF) (hb : BytesAt s.octets a n.wire)
    (hle : a + n.wire.length ≤ s.cursor) (modes : List Message.Mode) (fin : Message.Mode) (idx : Nat) :
    ChunkOK (s.octets.extract 0 s.cursor) s.gLabels modes fin (a, idx) := by
  have hcs : s.cursor ≤ s.octets.size := Nat.le_trans hw.cur_av hw.av_size
  refine ⟨n.labels, 0, fun l hl => hn.1 l hl, ?_, Or.inl rfl⟩
  have := bytesAt_extract_prefix hcs hb hle
  simpa [WName.wire] using this

/-! ### the pairs of the chains: membership, order -/

theorem qPairs_mem : ∀ (qs : List QItC) (i : Nat) (pr : Nat × Nat), pr ∈ qPairs i qs →
    ∃ j it, qs[j]? = some it ∧ pr = (it.a, i + j) := by
  intro qs
  induction qs with
  | nil => intro i pr h; cases h
  | cons x r ih =>
    intro i pr h
    simp only [qPairs, List.mem_cons] at h
    rcases h with rfl | h
    · exact ⟨0, x, rfl, rfl⟩
    · obtain ⟨j, it, h1, h2⟩ := ih (i + 1) pr h
      exact ⟨j + 1, it, by simpa using h1, by rw [h2, show i + 1 + j = i + (j + 1) by omega]⟩

theorem rPairs_mem : ∀ (rs : List RItC) (i : Nat) (pr : Nat × Nat), pr ∈ rPairs i rs →
    ∃ j it, rs[j]? = some it ∧ pr.2 = i + j ∧ pr.1 ∈ it.a :: it.ps := by
  intro rs
  induction rs with
  | nil => intro i pr h; cases h
  | cons x r ih =>
    intro i pr h
    simp only [rPairs, List.mem_append, List.mem_map] at h
    rcases h with ⟨a, ha, rfl⟩ | h
    · exact ⟨0, x, rfl, rfl, ha⟩
    · obtain ⟨j, it, h1, h2, h3⟩ := ih (i + 1) pr h
      exact ⟨j + 1, it, by simpa using h1, by rw [h2]; omega, h3⟩

theorem qPairs_of_mem : ∀ (qs : List QItC) (i : Nat) (it : QItC), it ∈ qs → ∃ j, (it.a, j) ∈ qPairs i qs := by
  intro qs
  induction qs with
  | nil => intro i it h; cases h
  | cons x r ih =>
    intro i it h
    rcases List.mem_cons.mp h with rfl | h
    · exact ⟨i, List.mem_cons_self⟩
    · obtain ⟨j, hj⟩ := ih (i + 1) it h
      exact ⟨j, List.mem_cons_of_mem _ hj⟩

theorem rPairs_of_mem : ∀ (rs : List RItC) (i : Nat) (it : RItC) (a : Nat), it ∈ rs → a ∈ it.a :: it.ps →
    ∃ j, (a, j) ∈ rPairs i rs := by
  intro rs
  induction rs with
  | nil => intro i it a h; cases h
  | cons x r ih =>
    intro i it a h ha
    rcases List.mem_cons.mp h with rfl | h
    · exact ⟨i, by simp only [rPairs]; exact List.mem_append_left _ (List.mem_map.mpr ⟨a, ha, rfl⟩)⟩
    · obtain ⟨j, hj⟩ := ih (i + 1) it a h ha
      exact ⟨j, by simp only [rPairs]; exact List.mem_append_right _ hj⟩

theorem qPairs_sorted {s : State} : ∀ (qs : List QItC) (p e i : Nat), QChainC s qs p e →
    (qPairs i qs).Pairwise (fun x y => x.1 < y.1) ∧ ∀ pr ∈ qPairs i qs, p ≤ pr.1 ∧ pr.1 < e := by
  intro qs
  induction qs with
  | nil => intro p e i _; exact ⟨List.Pairwise.nil, fun _ h => by cases h⟩
  | cons x r ih =>
    intro p e i h
    obtain ⟨h1, h2, h3⟩ := h
    obtain ⟨a1, a2⟩ := ih _ e (i + 1) h3
    have hk := chunkAt_pos h2.1.2.1
    have hle := qchainC_le h3
    refine ⟨List.Pairwise.cons (fun y hy => ?_) a1, fun pr hpr => ?_⟩
    · have := (a2 y hy).1
      show x.a < y.1
      omega
    · rcases List.mem_cons.mp hpr with rfl | hpr
      · show p ≤ x.a ∧ x.a < e
        omega
      · have := a2 pr hpr
        omega

theorem rPairs_sorted {s : State} : ∀ (rs : List RItC) (p e i : Nat), RChainC s rs p e →
    (rPairs i rs).Pairwise (fun x y => x.1 < y.1) ∧ ∀ pr ∈ rPairs i rs, p ≤ pr.1 ∧ pr.1 < e := by
  intro rs
  induction rs with
  | nil => intro p e i _; exact ⟨List.Pairwise.nil, fun _ h => by cases h⟩
  | cons x r ih =>
    intro p e i h
    obtain ⟨h1, h2, h3⟩ := h
    obtain ⟨a1, a2⟩ := ih _ e (i + 1) h3
    have hk := chunkAt_pos h2.1.2.1
    have hle := rchainC_le h3
    obtain ⟨_, _, _, _, ts, _, hrd⟩ := h2
    have hps := rdAt_chunk hrd
    have hsorted := rdAt_sorted hrd
    have hfirst : ∀ a ∈ x.a :: x.ps, p ≤ a ∧ a < x.a + x.k + 10 + x.rdlen := by
      intro a ha
      rcases List.mem_cons.mp ha with rfl | ha
      · omega
      · obtain ⟨b1, k, b2, b3⟩ := hps a ha
        have := chunkAt_pos b2
        omega
    refine ⟨?_, fun pr hpr => ?_⟩
    · simp only [rPairs]
      refine List.pairwise_append.mpr ⟨?_, a1, fun y hy z hz => ?_⟩
      · rw [List.pairwise_map]
        refine List.Pairwise.cons (fun a ha => ?_) hsorted
        have := (hps a ha).1
        show x.a < a
        omega
      · obtain ⟨a, ha, rfl⟩ := List.mem_map.mp hy
        have := (hfirst a ha).2
        have := (a2 z hz).1
        show a < z.1
        omega
    · simp only [rPairs, List.mem_append, List.mem_map] at hpr
      rcases hpr with ⟨a, ha, rfl⟩ | hpr
      · have := hfirst a ha
        show p ≤ a ∧ a < e
        omega
      · have := a2 pr hpr
        omega

/-! ### the audit passes on what `finish` returns -/

/-- **the pointer audit of the specification passes** on a finished message, given which item
    indices the audit takes for written in `Disabled` mode -/
theorem audit_of_finAudit {s : State} {m : Bytes} {d : Message.Decoded} {qs : List QItC} {rs : List RItC}
    (h : FinAudit s m d qs rs) (modes : List Message.Mode) (fin : Message.Mode)
    (hmq : ∀ j it, qs[j]? = some it → modes.getD j fin = .disabled → it.m = .disabled)
    (hmr : ∀ j it, rs[j]? = some it → modes.getD (qs.length + j) fin = .disabled → it.m = .disabled) :
    Message.auditPointers d modes fin = .ok () := by
  obtain ⟨sF, rfl, wF, hq, hr, hlab, hocc⟩ := h
  have hcs : sF.cursor ≤ sF.octets.size := Nat.le_trans wF.cur_av wF.av_size
  have hmsg : ∀ i, i < sF.cursor → (sF.octets.extract 0 sF.cursor)[i]? = sF.octets[i]? :=
    fun i hi => extract_prefix_get _ _ hcs i hi
  obtain ⟨sq1, sq2⟩ := qPairs_sorted qs 12 s.rrStart 0 hq
  obtain ⟨sr1, sr2⟩ := rPairs_sorted rs s.rrStart sF.cursor qs.length hr
  have hre := rchainC_le hr
  unfold Message.auditPointers
  refine audit_go _ sF.gLabels modes fin _ d.names [] [] hocc ?_ ?_ ?_ (fun _ hx => by cases hx)
  · -- ascending positions
    simp only [List.nil_append]
    refine List.pairwise_append.mpr ⟨sq1, sr1, fun y hy z hz => ?_⟩
    have := (sq2 y hy).2
    have := (sr2 z hz).1
    omega
  · -- what lies at each position
    intro pr hpr
    obtain ⟨a, idx⟩ := pr
    rcases List.mem_append.mp hpr with hpr | hpr
    · obtain ⟨j, it, h1, h2⟩ := qPairs_mem qs 0 _ hpr
      simp only [Prod.mk.injEq] at h2
      obtain ⟨rfl, rfl⟩ := h2
      obtain ⟨_, hf, _⟩ := qchainC_mem hq it (List.mem_of_getElem? h1)
      exact chunkOK_item wF hf.1 hf.2.1 modes fin _ (by rw [Nat.zero_add]; exact hmq j it h1)
    · obtain ⟨j, it, h1, h2, h3⟩ := rPairs_mem rs qs.length _ hpr
      simp only at h2 h3
      subst h2
      obtain ⟨_, hf, hend⟩ := rchainC_mem hr it (List.mem_of_getElem? h1)
      rcases List.mem_cons.mp h3 with rfl | h3
      · exact chunkOK_item wF hf.1 hf.2.1 modes fin _ (hmr j it h1)
      · obtain ⟨_, _, _, _, ts, _, hrd⟩ := hf
        rcases rdAt_pos hrd a h3 with ⟨k, n, x1, x2⟩ | ⟨n, x1, x2, x3⟩
        · exact chunkOK_item wF x1 x2 modes fin _ (hmr j it h1)
        · exact chunkOK_wire wF x1 x2 (by omega) modes fin _
  · -- every recorded label start is a label of one of the names
    intro g hg
    obtain ⟨a1, a2⟩ := hlab g hg
    by_cases hlt : g < s.rrStart
    · obtain ⟨it, b1, b2⟩ := a1 hlt
      obtain ⟨_, hf, _⟩ := qchainC_mem hq it b1
      obtain ⟨j, hj⟩ := qPairs_of_mem qs 0 it b1
      refine ⟨(it.a, j), List.mem_append_right _ (List.mem_append_left _ hj), ?_⟩
      exact physLab_frame hf.1.2.1 b2 (fun i _ c2 => hmsg i (by have := hf.1.2.2; omega))
    · obtain ⟨it, b1, a, b2, b3⟩ := a2 (by omega)
      obtain ⟨_, hf, hend⟩ := rchainC_mem hr it b1
      obtain ⟨_, k, c1, c2⟩ := rfacts_chunk hf a b2
      obtain ⟨j, hj⟩ := rPairs_of_mem rs qs.length it a b1 b2
      refine ⟨(a, j), List.mem_append_right _ (List.mem_append_right _ hj), ?_⟩
      exact physLab_frame c1 b3 (fun i _ d2 => hmsg i (by omega))

/-! ### the modes the audit uses are the modes the items were written in -/

theorem toSpecMode_disabled {x : CMode} (h : Driver.toSpecMode x = .disabled) : x = .disabled := by
  cases x <;> first | rfl | cases h

theorem getD_map_append {pref tail : List CMode} {fin : Message.Mode} {c : CMode} (htail : ∀ x ∈ tail, x = c)
    (hfin : fin = Driver.toSpecMode c) : ∀ (i : Nat) (x : CMode), (pref ++ tail)[i]? = some x →
      (pref.map Driver.toSpecMode).getD i fin = Driver.toSpecMode x := by
  intro i x h
  by_cases hi : i < pref.length
  · rw [List.getElem?_append_left hi] at h
    rw [List.getD_eq_getElem?_getD, List.getElem?_map, h]
    rfl
  · rw [List.getElem?_append_right (by omega)] at h
    rw [List.getD_eq_getElem?_getD, List.getElem?_eq_none (by rw [List.length_map]; omega)]
    show fin = _
    rw [hfin, htail x (List.mem_of_getElem? h)]

/-- **the pointer audit passes on every finished message** whose layout holds `B` with modes `MB`,
    when the abstract state `aF` lists those modes -/
theorem segment_audit {P : CMode → Prop} (macFn : Tsig → List UInt8 → List UInt8) (sR : State) (B : Body)
    (MB : MBody) (aF : Message.AState) (hIR : I sR) (hLR : CLay P sR B MB)
    (hst : ∀ r ∈ B.an ++ B.ns ++ B.ar, LayoutStable r)
    (hmodes : aF.itemModes.reverse = (MB.qs ++ MB.an ++ MB.ns ++ MB.ar).map Driver.toSpecMode)
    (hmode : aF.mode = Driver.toSpecMode sR.mode)
    (m : Bytes) (mac : Option (List UInt8)) (hf : finish sR macFn = .ok (m, mac)) (hsz : m.size ≤ 65535) :
    ∃ d : Message.Decoded, Message.specDecodeMsg m = some d ∧
      Message.auditPointers d aF.itemModes.reverse aF.mode = .ok () := by
  obtain ⟨d, qs, ian, ins, iar, hd, _, _, _, _, _, _, _, _, _, _, _, hqM, haM, hnM, hrM, _, _, _, _, _, _, haud⟩ :=
    finish_refines macFn sR B MB hIR hLR hst m mac hf hsz
  refine ⟨d, hd, ?_⟩
  -- the modes of all items, in order
  have hall : qs.map (·.m) ++ (ian ++ ins ++ iar).map (·.m) = (MB.qs ++ MB.an ++ MB.ns ++ MB.ar) ++
      ((optRecs' sR.edns).map (fun _ => sR.mode) ++ (tsigRecs sR.tsig mac).map (fun _ => sR.mode)) := by
    rw [List.map_append, List.map_append, hqM, haM, hnM, hrM]
    simp only [List.append_assoc]
  have htail : ∀ x ∈ (optRecs' sR.edns).map (fun _ => sR.mode) ++ (tsigRecs sR.tsig mac).map (fun _ => sR.mode),
      x = sR.mode := by
    intro x hx
    rcases List.mem_append.mp hx with hx | hx <;>
    · obtain ⟨_, _, rfl⟩ := List.mem_map.mp hx; rfl
  have key := getD_map_append (pref := MB.qs ++ MB.an ++ MB.ns ++ MB.ar) htail hmode
  rw [← hall] at key
  rw [hmodes]
  refine audit_of_finAudit haud _ _ (fun j it hj hdis => ?_) (fun j it hj hdis => ?_)
  · have hj' : (qs.map (·.m) ++ (ian ++ ins ++ iar).map (·.m))[j]? = some it.m := by
      have hlt : j < qs.length := (List.getElem?_eq_some_iff.mp hj).1
      rw [List.getElem?_append_left (by rw [List.length_map]; exact hlt), List.getElem?_map, hj]; rfl
    rw [key j it.m hj'] at hdis
    exact toSpecMode_disabled hdis
  · have hj' : (qs.map (·.m) ++ (ian ++ ins ++ iar).map (·.m))[qs.length + j]? = some it.m := by
      rw [List.getElem?_append_right (by rw [List.length_map]; omega), List.length_map,
        show qs.length + j - qs.length = j by omega, List.getElem?_map, hj]; rfl
    rw [key _ it.m hj'] at hdis
    exact toSpecMode_disabled hdis

end QV.Writer
