/-
  QV.Proofs.Framing — the framing loop of the I/O providers computes the stream-level spec for
  every segmentation of the input (C30).
-/
import QV.Model.Framing
import QV.Spec.Framing

namespace QV.Framing
open QV.Spec.Framing

theorem announced_eq_lenPrefix (s : List UInt8) : announced s = lenPrefix s := by
  cases s with
  | nil => rfl
  | cons a t => cases t <;> rfl

theorem be16_le (a b : UInt8) : be16 a b ≤ 65535 := by
  unfold be16
  have := a.toNat_lt; have := b.toNat_lt
  omega

theorem announced_le {s : List UInt8} {len : Nat} (h : announced s = some len) : len ≤ 65535 := by
  cases s with
  | nil => cases h
  | cons a t =>
    cases t with
    | nil => cases h
    | cons b u => simp [announced] at h; subst h; exact be16_le a b

theorem announced_append {s : List UInt8} {len : Nat} (x : List UInt8) (h : announced s = some len) :
    announced (s ++ x) = some len := by
  cases s with
  | nil => cases h
  | cons a t =>
    cases t with
    | nil => cases h
    | cons b u => simpa [announced] using h

theorem announced_some_of_length {s : List UInt8} (h : 2 ≤ s.length) : ∃ len, announced s = some len := by
  cases s with
  | nil => simp at h
  | cons a t =>
    cases t with
    | nil => simp at h
    | cons b u => exact ⟨_, rfl⟩

theorem announced_none_of_length {s : List UInt8} (h : s.length < 2) : announced s = none := by
  cases s with
  | nil => rfl
  | cons a t =>
    cases t with
    | nil => rfl
    | cons b u => simp at h; omega

theorem length_of_announced {s : List UInt8} {len : Nat} (h : announced s = some len) : 2 ≤ s.length := by
  cases s with
  | nil => cases h
  | cons a t =>
    cases t with
    | nil => cases h
    | cons b u => simp

/-- what the top of the inner loop knows -/
theorem lenAfterLook_spec {buf : List UInt8} {lenOpt : Option Nat}
    (hlen : ∀ len, lenOpt = some len → announced buf = some len) :
    (∀ len, lenAfterLook buf lenOpt = some len → announced buf = some len) ∧
    (lenAfterLook buf lenOpt = none → announced buf = none) := by
  unfold lenAfterLook
  cases lenOpt with
  | some l => simp; exact hlen l rfl
  | none =>
    simp only
    split
    · exact ⟨fun len h => h, fun h => h⟩
    · rename_i hl
      exact ⟨fun len h => (by cases h), fun _ => announced_none_of_length (by omega)⟩

theorem take_append_drop_flatten (seg : List UInt8) (rest : List (List UInt8)) (n : Nat) :
    seg.take n ++ (afterRead seg rest n).flatten = seg ++ rest.flatten := by
  unfold afterRead
  split
  · simp [← List.append_assoc]
  · rename_i h
    have : seg.take n = seg := List.take_of_length_le (by omega)
    simp [this]

theorem afterRead_ne (seg : List UInt8) (rest : List (List UInt8)) (n : Nat)
    (h : ∀ s ∈ rest, s ≠ []) : ∀ s ∈ afterRead seg rest n, s ≠ [] := by
  unfold afterRead
  split
  · rename_i hl
    intro s hs
    rcases List.mem_cons.mp hs with rfl | hs
    · intro e
      have := congrArg List.length e
      simp [List.length_drop] at this; omega
    · exact h s hs
  · exact h

/-- **`read_message_over_tcp` is correct for every segmentation.**  With `stream` = what is in the
    buffer followed by everything the peer will still deliver: if a complete frame is at the
    front of `stream` the function returns its length with the frame (and possibly more) in the
    buffer and nothing lost or reordered; otherwise it reports that the peer closed.  The buffer
    never overflows and a `read` is never attempted without room. -/
theorem readMessage_spec (buf : List UInt8) (segs : List (List UInt8)) (lenOpt : Option Nat)
    (hne : ∀ s ∈ segs, s ≠ [])
    (hcap : buf.length ≤ CAP)
    (hlen : ∀ len, lenOpt = some len → announced buf = some len) :
    (∀ len, lenPrefix (buf ++ segs.flatten) = some len → len + 2 ≤ (buf ++ segs.flatten).length →
      ∃ buf' segs', readMessage buf segs lenOpt = (.msg len, buf', segs') ∧
        buf' ++ segs'.flatten = buf ++ segs.flatten ∧ len + 2 ≤ buf'.length ∧ buf'.length ≤ CAP ∧
        (∀ s ∈ segs', s ≠ [])) ∧
    ((∀ len, lenPrefix (buf ++ segs.flatten) = some len → ¬ len + 2 ≤ (buf ++ segs.flatten).length) →
      (readMessage buf segs lenOpt).1 = .eof) := by
  fun_induction readMessage buf segs lenOpt with
  | case1 buf segs lenOpt len hr =>
    -- a whole message is already in the buffer
    have hl := lenAfterLook_spec hlen
    unfold ready at hr
    cases hla : lenAfterLook buf lenOpt with
    | none => simp [hla] at hr
    | some l =>
      simp only [hla] at hr
      by_cases hge : buf.length ≥ l + 2
      case neg => simp [hge] at hr
      simp only [hge, ↓reduceIte] at hr
      have hll : l = len := Option.some.inj hr
      subst hll
      have ha := hl.1 l hla
      have hp : lenPrefix (buf ++ segs.flatten) = some l := by
        rw [← announced_eq_lenPrefix]; exact announced_append _ ha
      constructor
      · intro len' h1 _
        rw [hp] at h1; cases h1
        exact ⟨buf, segs, rfl, rfl, hge, hcap, hne⟩
      · intro h
        exact absurd (by simp; omega) (h l hp)
  | case2 buf lenOpt hr =>
    -- nothing left to read: the peer closed
    have hl := lenAfterLook_spec hlen
    constructor
    · intro len h1 h2
      exfalso
      simp at h1 h2
      rw [← announced_eq_lenPrefix] at h1
      unfold ready at hr
      cases hla : lenAfterLook buf lenOpt with
      | none => rw [hl.2 hla] at h1; cases h1
      | some l =>
        have := hl.1 l hla
        rw [this] at h1; cases h1
        simp [hla] at hr
        omega
    · intro _; rfl
  | case3 buf lenOpt hr seg rest hmin hz =>
    exfalso
    exact hne seg (by simp) (List.eq_nil_of_length_eq_zero hz)
  | case4 buf lenOpt hr seg rest hmin hz =>
    -- the buffer is full although no whole message is in it: impossible
    exfalso
    have hfull : CAP ≤ buf.length := by omega
    have hl := lenAfterLook_spec hlen
    obtain ⟨l, hal⟩ := announced_some_of_length (s := buf) (by unfold CAP at hfull; omega)
    have hle := announced_le hal
    unfold ready at hr
    cases hla : lenAfterLook buf lenOpt with
    | none => rw [hl.2 hla] at hal; cases hal
    | some l' =>
      have := hl.1 l' hla
      rw [this] at hal; cases hal
      simp [hla] at hr
      unfold CAP at hfull; omega
  | case5 buf lenOpt hr seg rest hmin ih =>
    have hl := lenAfterLook_spec hlen
    have hstream : buf ++ seg.take (min seg.length (CAP - buf.length)) ++
        (afterRead seg rest (min seg.length (CAP - buf.length))).flatten = buf ++ (seg :: rest).flatten := by
      rw [List.append_assoc, take_append_drop_flatten]; simp
    have ih' := ih (afterRead_ne seg rest _ (fun s hs => hne s (by simp [hs])))
      (by simp [List.length_take]; omega)
      (fun len h => announced_append _ (hl.1 len h))
    rw [hstream] at ih'
    constructor
    · intro len h1 h2
      obtain ⟨buf', segs', e, r⟩ := ih'.1 len h1 h2
      exact ⟨buf', segs', e, r⟩
    · intro h
      exact ih'.2 h

theorem bytes_eq_flatten_length (segs : List (List UInt8)) : bytes segs = segs.flatten.length := by
  unfold bytes; rw [List.length_flatten]

theorem frame_eq (m : List UInt8) : QV.Framing.frame m = QV.Spec.Framing.frame m := rfl

def endOf : End → ConnEnd
  | .open => .eof
  | .closed => .noResponse

theorem deframe_incomplete {s : List UInt8}
    (h : ∀ len, lenPrefix s = some len → ¬ len + 2 ≤ s.length) : deframe s = ([], s) := by
  rw [deframe]
  split
  · rename_i len hp
    simp [h len hp]
  · rfl

theorem deframe_complete {s : List UInt8} {len : Nat} (hp : lenPrefix s = some len) (hl : len + 2 ≤ s.length) :
    deframe s = (((s.drop 2).take len) :: (deframe (s.drop (len + 2))).1, (deframe (s.drop (len + 2))).2) := by
  rw [deframe]
  split
  · rename_i len' hp'
    rw [hp] at hp'; cases hp'
    simp [hl]
  · rename_i hn; rw [hp] at hn; cases hn

/-- **The connection loop computes the stream-level spec, for every segmentation.** -/
theorem connLoop_spec (handler : List UInt8 → Option (List UInt8)) :
    ∀ (fuel : Nat) (buf : List UInt8) (segs : List (List UInt8)) (out : List UInt8),
      (∀ s ∈ segs, s ≠ []) → buf.length ≤ CAP → buf.length + bytes segs < fuel →
      connLoop handler fuel buf segs out =
        (out ++ (specStream handler (buf ++ segs.flatten)).1, endOf (specStream handler (buf ++ segs.flatten)).2) := by
  intro fuel
  induction fuel with
  | zero => intro buf segs out _ _ h; omega
  | succ f ih =>
    intro buf segs out hne hcap hfuel
    have hspec := readMessage_spec buf segs none hne hcap (fun len h => by cases h)
    unfold connLoop
    unfold specStream
    by_cases hc : ∃ len, lenPrefix (buf ++ segs.flatten) = some len ∧ len + 2 ≤ (buf ++ segs.flatten).length
    · obtain ⟨len, hp, hl⟩ := hc
      obtain ⟨buf', segs', hrm, hst, hlb, hcb, hne'⟩ := hspec.1 len hp hl
      rw [hrm]
      simp only
      rw [deframe_complete hp hl]
      have hmsg : ((buf ++ segs.flatten).drop 2).take len = (buf'.drop 2).take len := by
        rw [← hst, List.drop_append_of_le_length (by omega), List.take_append_of_le_length (by simp; omega)]
      have hrest : (buf ++ segs.flatten).drop (len + 2) = buf'.drop (len + 2) ++ segs'.flatten := by
        rw [← hst, List.drop_append_of_le_length hlb]
      rw [hmsg, hrest]
      simp only [respond]
      cases hh : handler ((buf'.drop 2).take len) with
      | none => simp [endOf]
      | some r =>
        simp only
        have hlen : buf'.length + bytes segs' = buf.length + bytes segs := by
          have := congrArg List.length hst
          simp [bytes_eq_flatten_length] at this ⊢
          omega
        rw [ih (buf'.drop (len + 2)) segs' (out ++ frame r) hne' (by simp; omega)
          (by simp [List.length_drop]; omega)]
        simp [specStream, frame_eq, List.append_assoc]
    · have hno : ∀ len, lenPrefix (buf ++ segs.flatten) = some len → ¬ len + 2 ≤ (buf ++ segs.flatten).length :=
        fun len hp hl => hc ⟨len, hp, hl⟩
      have he := hspec.2 hno
      rcases hrm : readMessage buf segs none with ⟨e, b, sg⟩
      rw [hrm] at he
      simp only at he
      subst he
      simp [deframe_incomplete hno, respond, endOf]

theorem lenPrefix_frame (m rest : List UInt8) (h : m.length ≤ 65535) :
    lenPrefix (QV.Spec.Framing.frame m ++ rest) = some m.length := by
  unfold QV.Spec.Framing.frame lenPrefix
  simp only [List.cons_append]
  congr 1
  have h1 : (UInt8.ofNat (m.length / 256)).toNat = m.length / 256 := by
    rw [UInt8.toNat_ofNat']; omega
  have h2 : (UInt8.ofNat (m.length % 256)).toNat = m.length % 256 := by
    rw [UInt8.toNat_ofNat']; omega
  rw [h1, h2]; omega

/-- the stream of correctly framed messages decodes to exactly those messages, in order -/
theorem deframe_frames (msgs : List (List UInt8)) (tail : List UInt8) (h : ∀ m ∈ msgs, m.length ≤ 65535) :
    deframe (msgs.flatMap QV.Spec.Framing.frame ++ tail) = (msgs ++ (deframe tail).1, (deframe tail).2) := by
  induction msgs with
  | nil => simp
  | cons m ms ih =>
    have hm := h m (by simp)
    have hp := lenPrefix_frame m (ms.flatMap QV.Spec.Framing.frame ++ tail) hm
    have e : (m :: ms).flatMap QV.Spec.Framing.frame ++ tail =
        QV.Spec.Framing.frame m ++ (ms.flatMap QV.Spec.Framing.frame ++ tail) := by simp
    rw [e, deframe_complete hp (by simp [QV.Spec.Framing.frame])]
    have d2 : (QV.Spec.Framing.frame m ++ (ms.flatMap QV.Spec.Framing.frame ++ tail)).drop (m.length + 2) =
        ms.flatMap QV.Spec.Framing.frame ++ tail := by
      simp [QV.Spec.Framing.frame]
    have d1 : ((QV.Spec.Framing.frame m ++ (ms.flatMap QV.Spec.Framing.frame ++ tail)).drop 2).take m.length = m := by
      simp [QV.Spec.Framing.frame]
    rw [d1, d2, ih (fun x hx => h x (by simp [hx]))]
    simp

end QV.Framing
