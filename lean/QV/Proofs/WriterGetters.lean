/-
  QV.Proofs.WriterGetters — what the getters report (`Driver.gettersStr`) is what the specification
  expects (`Spec.Message.gettersStr`) whenever the abstract state describes the writer state.
-/
import QV.Proofs.WriterCfg

namespace QV.Writer
open QV QV.Wire QV.Spec QV.ServerSafety

theorem bit_mask (b : UInt8) (mask : Nat) (hm : mask = 128 ∨ mask = 4 ∨ mask = 2 ∨ mask = 1) :
    ((b &&& UInt8.ofNat mask) != 0) = Message.bit b mask := by
  rcases hm with rfl | rfl | rfl | rfl <;>
    (revert b; apply forall_uint8; unfold Message.bit; decide +kernel)

theorem opcode_bits (b : UInt8) : ((b &&& UInt8.ofNat 120) >>> UInt8.ofNat 3).toNat = (b.toNat / 8) % 16 := by
  revert b; apply forall_uint8; decide +kernel

theorem rcode_bits (b : UInt8) : (b &&& UInt8.ofNat 15).toNat = b.toNat % 16 := by
  revert b; apply forall_uint8; decide +kernel

/-- the header getters read the fields of `specHeader` -/
theorem getters_hdr (s : State) :
    getId s = (specHeader s.octets).id ∧
    getBit s Gen.QR_BYTE Gen.QR_MASK = (specHeader s.octets).qr ∧
    getBit s Gen.AA_BYTE Gen.AA_MASK = (specHeader s.octets).aa ∧
    getBit s Gen.TC_BYTE Gen.TC_MASK = (specHeader s.octets).tc ∧
    getBit s Gen.RD_BYTE Gen.RD_MASK = (specHeader s.octets).rd ∧
    getBit s Gen.RA_BYTE Gen.RA_MASK = (specHeader s.octets).ra ∧
    getOpcode s = (specHeader s.octets).opcode ∧ getRcode s = (specHeader s.octets).rcode := by
  refine ⟨rfl, ?_, ?_, ?_, ?_, ?_, ?_, ?_⟩
  · exact bit_mask _ 128 (Or.inl rfl)
  · exact bit_mask _ 4 (Or.inr (Or.inl rfl))
  · exact bit_mask _ 2 (Or.inr (Or.inr (Or.inl rfl)))
  · exact bit_mask _ 1 (Or.inr (Or.inr (Or.inr rfl)))
  · exact bit_mask _ 128 (Or.inl rfl)
  · exact opcode_bits _
  · exact rcode_bits _

/-- **the getters report what the specification expects** -/
theorem gettersStr_eq (s : State) (a : Message.AState) (hA : AbsNum s a) (hh : a.hdr = specHeader s.octets)
    (hG : AbsCfg s a) : Driver.gettersStr s = Message.gettersStr a := by
  obtain ⟨g1, g2, g3, g4, g5, g6, g7, g8⟩ := getters_hdr s
  have hx : getExtendedRcode s =
      (match a.edns with | some (_, u) => u * 16 + a.hdr.rcode | none => a.hdr.rcode) := by
    unfold getExtendedRcode
    rw [hG.edns, g8, hh]
    cases s.edns <;> rfl
  unfold Driver.gettersStr Message.gettersStr
  rw [g1, g2, g3, g4, g5, g6, g7, g8, hx, ← hA.qd, ← hA.an, ← hA.ns, ← hA.ar, ← hh]
  simp only [Driver.b01, Message.b01, String.append_assoc]
  rfl

end QV.Writer
