/-
  QV.Proofs.ScanTsigCont — what `handle_message_with_context` does when the scan reaches a TSIG
  record that passes the syntactic checks (the spec's verdict `tsigReached`): it runs the TSIG step
  (`tsigAfter` = clock + `tsigProcess`, characterised by C10) and then

  * if the step does not authenticate (returns no reader): it stops there and responds;
  * if the step authenticates: the *same* end-of-message check and decision table as for unsigned
    requests (`endVerdict`) apply, on the writer state the TSIG step left — FORMERR for trailing
    octets or a QUERY without question, NOTIMP for other opcodes / QTYPE 251–254 / QCLASS ANY,
    REFUSED / SERVFAIL by the catalog, otherwise `handle_query` — with nothing but the RCODE
    changed in the no-data cases.
-/
import QV.Proofs.FrameServer
import QV.Proofs.ScanTsig
import QV.Proofs.FinishInv
import QV.Proofs.ServerMsg

namespace QV.ServerScan
open QV QV.Wire QV.Reader QV.Writer

/-- the end-of-message check and the decision table (the part of `specScanWith` after the three
    record sections), `pos` being where the scan ended -/
def endVerdict (lookup : List UInt8 → Nat → Option Spec.Server.ZoneKind) (msgSize : Nat)
    (q : Option Spec.DQuestion) (pos opcode : Nat) : Spec.Server.Verdict :=
  if pos < msgSize then .formErr
  else if opcode ≠ 0 then .notImp
  else match q with
    | none => .formErr
    | some qq =>
      if 251 ≤ qq.qtype ∧ qq.qtype ≤ 254 then .notImp
      else if qq.qclass = 255 then .notImp
      else match lookup qq.qname qq.qclass with
        | none => .refused
        | some .loaded => .answer
        | some _ => .servFailZone

/-- `endVerdict` is literally the table `specScanWith` applies after a clean scan -/
theorem specTail_done (lookup : List UInt8 → Nat → Option Spec.Server.ZoneKind) (S : Nat) (msg : Bytes)
    (q : Option Spec.DQuestion) (p1 an ns ar opcode p2 p3 : Nat) (e : Bool) (l : Nat)
    (h1 : Spec.Server.scanPlain msg (an + ns) p1 = some p2)
    (h2 : Spec.Server.scanAr msg S ar ar p2 false 512 = (.done p3, e, l)) :
    (specTail lookup S msg q p1 an ns ar opcode).verdict = endVerdict lookup msg.size q p3 opcode := by
  unfold specTail endVerdict
  simp only [h1, h2]
  by_cases c1 : p3 < msg.size
  · rw [if_pos c1, if_pos c1]
  · rw [if_neg c1, if_neg c1]
    by_cases c2 : opcode ≠ 0
    · rw [if_pos c2, if_pos c2]
    · rw [if_neg c2, if_neg c2]
      cases q with
      | none => rfl
      | some qq =>
        simp only
        by_cases c3 : 251 ≤ qq.qtype ∧ qq.qtype ≤ 254
        · rw [if_pos c3, if_pos c3]
        · rw [if_neg c3, if_neg c3]
          by_cases c4 : qq.qclass = 255
          · rw [if_pos c4, if_pos c4]
          · rw [if_neg c4, if_neg c4]
            cases lookup qq.qname qq.qclass with
            | none => rfl
            | some k => cases k <;> rfl

/-- the writer state of a no-data verdict: only the RCODE changes -/
def endState (v : Spec.Server.Verdict) (S : State) : State :=
  match v with
  | .formErr => stRcode 1 S
  | .notImp => stRcode 4 S
  | .refused => stRcode 5 S
  | .servFailZone => stRcode 2 S
  | _ => S

/-- the model's end-of-message check and opcode dispatch, on any writer state -/
theorem dispatch_spec (cfg : Server.Cfg) (tr : Server.Transport) (req : Bytes)
    (q : Option Spec.DQuestion) (question : Option (WName × Nat × Nat)) (hq : QRel q question)
    (r3 : Reader) (hsz : r3.octets.size = req.size) (opcode : Nat) (S : State) (h3 : 3 < S.octets.size) :
    (if !atEom r3 then (do setRcode (Server.RC "FORMERR"); pure true : M Bool)
      else (if opcode = 0 then (do Server.handleQuery cfg question tr; pure true : M Bool)
            else (do setRcode (Server.RC "NOTIMP"); pure true : M Bool))) S =
      if endVerdict (catKind cfg) req.size q r3.cursor opcode = .answer then
        (Server.handleQuery cfg question tr >>= fun _ => pure true) S
      else (.ok true, endState (endVerdict (catKind cfg) req.size q r3.cursor opcode) S) := by
  unfold endVerdict
  simp only [atEom, hsz]
  by_cases hlt : r3.cursor < req.size
  · have : ¬ (r3.cursor ≥ req.size) := by omega
    simp only [hlt, if_true, this, decide_false, Bool.not_false]
    rw [if_neg (by simp)]
    exact do_formErr_true S h3
  · have : r3.cursor ≥ req.size := by omega
    simp only [hlt, if_false, this, decide_true, Bool.not_true, Bool.false_eq_true]
    by_cases hop : opcode = 0
    · subst hop
      simp only [ne_eq, not_true_eq_false, if_false, if_true]
      cases q with
      | none =>
        cases question with
        | none =>
          simp only
          rw [if_neg (by simp)]
          have : Server.handleQuery cfg none tr S = (.ok (), stRcode 1 S) := by
            unfold Server.handleQuery; rw [RC_FORMERR]; exact do_rcode 1 _ h3
          rw [bind_ok this]
          rfl
        | some x => exact absurd hq (by simp [QRel])
      | some qq =>
        cases question with
        | none => exact absurd hq (by simp [QRel])
        | some x =>
          obtain ⟨qn, qt, qc⟩ := x
          obtain ⟨hpq, rfl, rfl⟩ := hq
          have hqs := handleQuery_spec cfg qq.qname qn qq.qtype qq.qclass hpq tr S h3
          simp only
          by_cases h1 : 251 ≤ qq.qtype ∧ qq.qtype ≤ 254
          · rw [if_pos h1] at hqs
            simp only [h1, and_self, if_true]
            rw [if_neg (by simp)]
            rw [bind_ok hqs]; rfl
          · rw [if_neg h1] at hqs
            simp only [h1, if_false]
            by_cases h2 : qq.qclass = 255
            · rw [if_pos h2] at hqs
              simp only [h2] at hqs
              simp only [h2, if_true]
              rw [if_neg (by simp)]
              rw [bind_ok hqs]; rfl
            · rw [if_neg h2] at hqs
              simp only [h2, if_false]
              cases hk : catKind cfg qq.qname qq.qclass with
              | none =>
                rw [hk] at hqs
                simp only at hqs ⊢
                rw [if_neg (by simp)]
                rw [bind_ok hqs]; rfl
              | some k =>
                rw [hk] at hqs
                cases k with
                | loaded => simp only [if_true]
                | notYetLoaded =>
                  simp only at hqs ⊢
                  rw [if_neg (by simp)]
                  rw [bind_ok hqs]; rfl
                | failedToLoad =>
                  simp only at hqs ⊢
                  rw [if_neg (by simp)]
                  rw [bind_ok hqs]; rfl
    · simp only [ne_eq, hop, not_false_eq_true, if_true, if_false]
      rw [if_neg (by simp)]
      rw [RC_NOTIMP, bind_ok (do_rcode 4 _ h3)]
      rfl

/-! ### the TSIG step hands back the reader it was given, and keeps the buffer's size -/

theorem tsigBadKey_not_some (t : Tsig.ReadTsigRr) (nowT : Tsig.TimeSigned) (s S : State) (r'' : Reader)
    (h : Server.tsigBadKey t nowT s = (.ok (some r''), S)) : False := by
  unfold Server.tsigBadKey at h
  obtain ⟨_, s1, _, h⟩ := bind_ok_inv h
  rcases hP : WName.parse t.algorithm with _ | ⟨an, rest⟩
  · rw [hP] at h; cases h
  · rcases hQ : Server.preparedFromRead t nowT (Server.XRC "BADKEY") with _ | prep
    · rw [hP, hQ] at h
      cases rest <;> cases h
    · rw [hP, hQ] at h
      cases rest with
      | nil =>
        simp only at h
        obtain ⟨_, s2, _, h⟩ := bind_ok_inv h
        rw [pure_apply] at h
        cases h
      | cons => cases h

theorem tsigAfter_some (cfg : Server.Cfg) (now : Nat) (t : Tsig.ReadTsigRr) (mw : Bytes) (r' r'' : Reader)
    (s S : State) (h : Server.tsigAfter cfg now t mw r' s = (.ok (some r''), S)) : r'' = r' := by
  unfold Server.tsigAfter at h
  split at h
  · cases h
  · unfold Server.tsigProcess at h
    cases hA : Tsig.Algorithm.fromName t.algorithm with
    | none => rw [hA] at h; exact (tsigBadKey_not_some _ _ _ _ _ h).elim
    | some alg =>
      rw [hA] at h
      simp only at h
      cases hK : Server.findKey cfg.keys t.keyName alg with
      | none => rw [hK] at h; exact (tsigBadKey_not_some _ _ _ _ _ h).elim
      | some key =>
        rw [hK] at h
        simp only at h
        unfold Server.tsigVerifyAndWrite at h
        split at h
        · split at h
          · obtain ⟨_, s1, _, h⟩ := bind_ok_inv h
            obtain ⟨added, s2, _, h⟩ := bind_ok_inv h
            split at h
            · rw [pure_apply] at h
              simp only [Prod.mk.injEq, Out.ok.injEq, Option.some.injEq] at h
              exact h.1.symm
            · rw [pure_apply] at h; cases h
          · cases h
        · cases h

theorem tsigAfter_size (cfg : Server.Cfg) (now : Nat) (t : Tsig.ReadTsigRr) (mw : Bytes) (r' : Reader)
    (s : State) (hc : 12 ≤ s.cursor) (hr : 12 ≤ s.rrStart) :
    (Server.tsigAfter cfg now t mw r' s).2.octets.size = s.octets.size := by
  unfold Server.tsigAfter
  split
  · rfl
  · exact (Server.framed_tsigProcess 12 (by omega) _ _ _ _ _ _ s hc hr).size

/-! ### the request handler on a request whose scan reaches a well-formed TSIG record -/

/-- what the handler returns after the TSIG step, as a function of that step's outcome: not
    authenticated ⇒ respond as the step left the writer; authenticated ⇒ the end-of-message check
    and the decision table of unsigned requests, on the state the step left -/
def afterTsig (cfg : Server.Cfg) (tr : Server.Transport) (req : Bytes) (q : Option Spec.DQuestion)
    (question : Option (WName × Nat × Nat)) (opcode pos : Nat)
    (out : Out WriterErr (Option Reader) × State) : Out WriterErr Bool × State :=
  match out with
  | (.ok (some _), S) =>
    if endVerdict (catKind cfg) req.size q pos opcode = .answer then
      (Server.handleQuery cfg question tr >>= fun _ => pure true) S
    else (.ok true, endState (endVerdict (catKind cfg) req.size q pos opcode) S)
  | (.ok none, S) => (.ok true, S)
  | (.err x, S) => (.err x, S)
  | (.panic, S) => (.panic, S)

/-- **the scan after a TSIG record** (verdict `tsigReached`): the handler runs the TSIG step on the
    writer state the scan left (`arSt`), and continues as `afterTsig` says; `r'` is the reader after
    the TSIG record -/
theorem scanAndDispatch_tsig_view (cfg : Server.Cfg) (tr : Server.Transport) (now : Nat) (req : Bytes)
    (q : Option Spec.DQuestion) (question : Option (WName × Nat × Nat)) (hq : QRel q question)
    (r1 : Reader) (hi : Inv r1) (ho : r1.octets = req) (s1 : State) (hb : Base s1 tr cfg.payload)
    (hreq : req.size ≤ Rdata.USIZE_MAX) (htf : TsigFacts) (an ns ar opcode : Nat)
    (hc12 : 12 ≤ s1.cursor) (hr12 : 12 ≤ s1.rrStart)
    (hv : (specTail (catKind cfg) cfg.payload req q r1.cursor an ns ar opcode).verdict = .tsigReached) :
    ∃ (t : Tsig.ReadTsigRr) (mw : Bytes) (r' : Reader), r'.octets = req ∧ r'.cursor ≤ req.size ∧
      Server.scanAndDispatch cfg tr now an ns ar opcode question r1 s1 =
        afterTsig cfg tr req q question opcode r'.cursor
          (Server.tsigAfter cfg now t mw r'
            (arSt s1 tr cfg.payload (specTail (catKind cfg) cfg.payload req q r1.cursor an ns ar opcode).edns
              (specTail (catKind cfg) cfg.payload req q r1.cursor an ns ar opcode).limitUdp)) ∧
      -- the TSIG record: the last of the `ar` additional records, after the `an + ns` plain ones
      ∃ p2 d, Spec.Server.scanPlain req (an + ns) r1.cursor = some p2 ∧
        Spec.ServerTsig.walk req ar p2 = some d ∧ TsigView req d t mw r' := by
  unfold Server.scanAndDispatch
  unfold specTail at hv ⊢
  have hi2 : Inv (setMark r1) := hi
  have hsp := scanAnNs_spec req (an + ns) (setMark r1) hi2 ho
  have hc : (setMark r1).cursor = r1.cursor := rfl
  rw [hc] at hsp
  simp only
  cases hpl : Spec.Server.scanPlain req (an + ns) r1.cursor with
  | none => rw [hpl] at hv; cases hv
  | some p2 =>
    rw [hpl] at hsp hv
    obtain ⟨hsn, hp2, _⟩ := hsp
    simp only [hsn] at hv ⊢
    have har := scanAr_spec cfg tr now req ar s1 hb hreq htf ar 0 { setMark r1 with cursor := p2 } false 512
      (by omega) ⟨hi.1, by rw [show ({ setMark r1 with cursor := p2 } : Reader).octets = r1.octets from rfl, ho]; exact hp2⟩
      ho (fun _ => rfl)
    have hst : arSt s1 tr cfg.payload false 512 = s1 := rfl
    rw [hst] at har
    simp only at har
    generalize hres : Spec.Server.scanAr req cfg.payload ar ar p2 false 512 = res at har hv
    obtain ⟨en, e, l⟩ := res
    cases en with
    | formErr => cases hv
    | badVers => cases hv
    | done p3 =>
      simp only at hv
      repeat' split at hv
      all_goals cases hv
    | tsig =>
      simp only [ArPost] at har
      obtain ⟨t, mw, r', ho', hc', _, har, dT, hwalk, hview⟩ := har
      refine ⟨t, mw, r', ho', hc', ?_, p2, dT, rfl, hwalk, hview⟩
      simp only
      rw [bind_apply, har]
      have hS : (Server.tsigAfter cfg now t mw r' (arSt s1 tr cfg.payload e l)).2.octets.size = s1.octets.size := by
        have f2 : (arSt s1 tr cfg.payload e l).cursor = s1.cursor := by cases e <;> cases tr <;> rfl
        have frr : (arSt s1 tr cfg.payload e l).rrStart = s1.rrStart := by cases e <;> cases tr <;> rfl
        rw [tsigAfter_size cfg now t mw r' _ (by rw [f2]; exact hc12) (by rw [frr]; exact hr12), arSt_size]
      rcases hT : Server.tsigAfter cfg now t mw r' (arSt s1 tr cfg.payload e l) with ⟨(o | x | _), S⟩
      · rw [hT] at hS
        cases o with
        | none => rfl
        | some r'' =>
          have := tsigAfter_some cfg now t mw r' r'' _ S hT
          subst this
          simp only [tsigCont, afterTsig]
          exact dispatch_spec cfg tr req q question hq r'' (by rw [ho']) opcode S
            (by rw [hS]; exact hb.size3)
      · rfl
      · rfl

theorem scanAndDispatch_tsig (cfg : Server.Cfg) (tr : Server.Transport) (now : Nat) (req : Bytes)
    (q : Option Spec.DQuestion) (question : Option (WName × Nat × Nat)) (hq : QRel q question)
    (r1 : Reader) (hi : Inv r1) (ho : r1.octets = req) (s1 : State) (hb : Base s1 tr cfg.payload)
    (hreq : req.size ≤ Rdata.USIZE_MAX) (htf : TsigFacts) (an ns ar opcode : Nat)
    (hc12 : 12 ≤ s1.cursor) (hr12 : 12 ≤ s1.rrStart)
    (hv : (specTail (catKind cfg) cfg.payload req q r1.cursor an ns ar opcode).verdict = .tsigReached) :
    ∃ (t : Tsig.ReadTsigRr) (mw : Bytes) (r' : Reader), r'.octets = req ∧ r'.cursor ≤ req.size ∧
      Server.scanAndDispatch cfg tr now an ns ar opcode question r1 s1 =
        afterTsig cfg tr req q question opcode r'.cursor
          (Server.tsigAfter cfg now t mw r'
            (arSt s1 tr cfg.payload (specTail (catKind cfg) cfg.payload req q r1.cursor an ns ar opcode).edns
              (specTail (catKind cfg) cfg.payload req q r1.cursor an ns ar opcode).limitUdp)) := by
  obtain ⟨t, mw, r', h1, h2, h3, _⟩ := scanAndDispatch_tsig_view cfg tr now req q question hq r1 hi ho s1 hb hreq htf
    an ns ar opcode hc12 hr12 hv
  exact ⟨t, mw, r', h1, h2, h3⟩

/-- **`handle_message_with_context` on a request whose scan reaches a well-formed TSIG record**: the
    header counts and the question are processed as for any request, the scan leaves the writer in
    the state `arSt` (EDNS slot / UDP limit as the OPT seen so far dictates), the TSIG step runs on it,
    and `afterTsig` gives the rest -/
theorem hwc_tsig (cfg : Server.Cfg) (tr : Server.Transport) (now : Nat) (req : Bytes) (h12 : 12 ≤ req.size)
    (sH : State) (hH : HdrOk sH tr cfg.payload) (hreq : req.size ≤ Rdata.USIZE_MAX)
    (hv : (specBody (catKind cfg) cfg.payload req).verdict = .tsigReached) :
    ∃ (t : Tsig.ReadTsigRr) (mw : Bytes) (r' : Reader) (question : Option (WName × Nat × Nat)),
      r'.octets = req ∧ r'.cursor ≤ req.size ∧
      QRel (specBody (catKind cfg) cfg.payload req).question question ∧
      Server.handleWithContext cfg tr now ⟨req, 12, none⟩ sH =
        afterTsig cfg tr req (specBody (catKind cfg) cfg.payload req).question question
          ((req.getD 2 0).toNat / 8 % 16) r'.cursor
          (Server.tsigAfter cfg now t mw r'
            (arSt (qSt sH (specBody (catKind cfg) cfg.payload req).question) tr cfg.payload
              (specBody (catKind cfg) cfg.payload req).edns (specBody (catKind cfg) cfg.payload req).limitUdp)) := by
  obtain ⟨hqd, han, hns, har, _, hop, _, _⟩ := reader_header req h12
  have hi0 : Inv (⟨req, 12, none⟩ : Reader) := ⟨h12, h12⟩
  have hbH := base_of_hdr sH tr cfg.payload hH
  rw [Server.handleWithContext_split]
  unfold Server.handleWithContext'
  simp only [hqd, han, hns, har, hop, opcode_bits]
  by_cases hq0 : Spec.Server.hdr req 4 = 0
  · have hsc : specBody (catKind cfg) cfg.payload req = specTail (catKind cfg) cfg.payload req none 12
        (Spec.Server.hdr req 6) (Spec.Server.hdr req 8) (Spec.Server.hdr req 10) ((req.getD 2 0).toNat / 8 % 16) := by
      unfold specBody
      simp only [hq0, show ¬ (0 > 1) by omega, if_false, if_true]
    have hq : (specBody (catKind cfg) cfg.payload req).question = none := by
      rw [hsc]; unfold specTail
      repeat' split
      all_goals rfl
    simp only [hq0, if_true]
    rw [hsc] at hv
    obtain ⟨t, mw, r', h1, h2, h3⟩ := scanAndDispatch_tsig cfg tr now req none none trivial ⟨req, 12, none⟩ hi0 rfl
      sH hbH hreq tsigFacts (Spec.Server.hdr req 6) (Spec.Server.hdr req 8) (Spec.Server.hdr req 10)
      ((req.getD 2 0).toNat / 8 % 16) (by rw [hH.cursor]; exact Nat.le_refl _)
      (by rw [hH.rrStart]; exact Nat.le_refl _) hv
    refine ⟨t, mw, r', none, h1, h2, by rw [hq]; trivial, ?_⟩
    rw [hq, ← hsc] at *
    rw [bind_ok (show Server.addQuestionOrServfail none sH = (.ok true, sH) from rfl)]
    simp only [Bool.not_true, Bool.false_eq_true, if_false]
    rw [hsc]
    exact h3
  · by_cases hq1 : Spec.Server.hdr req 4 = 1
    · simp only [hq1, show ¬ ((1 : Nat) = 0) by omega, if_false, if_true]
      have hrq := readQuestion_spec (⟨req, 12, none⟩ : Reader)
      cases hsq : Spec.specQuestionAt req 12 with
      | none =>
        exfalso
        have : specBody (catKind cfg) cfg.payload req = { respond := true, verdict := .formErr } := by
          unfold specBody
          simp only [hq1, show ¬ ((1 : Nat) > 1) by omega, if_false, show ¬ ((1 : Nat) = 0) by omega, hsq]
        rw [this] at hv; cases hv
      | some v =>
        obtain ⟨w, t, c, nx⟩ := v
        rw [show (⟨req, 12, none⟩ : Reader).octets = req from rfl,
          show (⟨req, 12, none⟩ : Reader).cursor = 12 from rfl, hsq] at hrq
        simp only at hrq
        obtain ⟨p, hp, hpw, hnx, hnxs, hwl⟩ := specQuestionAt_some req 12 w t c nx hsq
        obtain ⟨qn, hqn, hqw⟩ := wname_of_parse req 12 p hp
        rw [hpw] at hqn hqw
        have hsc : specBody (catKind cfg) cfg.payload req = specTail (catKind cfg) cfg.payload req (some ⟨w, t, c⟩) nx
            (Spec.Server.hdr req 6) (Spec.Server.hdr req 8) (Spec.Server.hdr req 10) ((req.getD 2 0).toNat / 8 % 16) := by
          unfold specBody
          simp only [hq1, show ¬ ((1 : Nat) > 1) by omega, if_false, show ¬ ((1 : Nat) = 0) by omega, hsq]
        have hq : (specBody (catKind cfg) cfg.payload req).question = some ⟨w, t, c⟩ := by
          rw [hsc]; unfold specTail
          repeat' split
          all_goals rfl
        obtain ⟨hadd, hbase, _, hcur, _, _, _, _, hrrs⟩ := qSt_some sH tr cfg.payload hH ⟨w, t, c⟩ qn hqn hqw hwl
        simp only [hrq, hqn]
        have hQ : Server.addQuestionOrServfail (some (qn, t, c)) sH = (.ok true, qSt sH (some ⟨w, t, c⟩)) := by
          show (match addQuestion qn t c sH with
            | (.ok (), s') => ((.ok true : Out WriterErr Bool), s')
            | (.err _, s') => (do setRcode (Server.RC "SERVFAIL"); pure false : M Bool) s'
            | (.panic, s') => (.panic, s')) = _
          rw [hadd]
        rw [hsc] at hv
        obtain ⟨t', mw, r', h1, h2, h3⟩ := scanAndDispatch_tsig cfg tr now req (some ⟨w, t, c⟩) (some (qn, t, c))
          ⟨hqn, rfl, rfl⟩ ⟨req, nx, none⟩ ⟨h12, hnxs⟩ rfl _ hbase hreq tsigFacts
          (Spec.Server.hdr req 6) (Spec.Server.hdr req 8) (Spec.Server.hdr req 10) ((req.getD 2 0).toNat / 8 % 16)
          (by rw [hcur]; omega) (by rw [hrrs]; omega) hv
        refine ⟨t', mw, r', some (qn, t, c), h1, h2, by rw [hq]; exact ⟨hqn, rfl, rfl⟩, ?_⟩
        rw [bind_ok hQ]
        simp only [Bool.not_true, Bool.false_eq_true, if_false]
        rw [hq, hsc]
        exact h3
    · exfalso
      have hgt : Spec.Server.hdr req 4 > 1 := by omega
      have : specBody (catKind cfg) cfg.payload req = { respond := false } := by
        unfold specBody
        simp only [hgt, if_true]
      rw [this] at hv; cases hv

/-- the writer on which the TSIG step runs: header copy, question, and the EDNS slot / UDP limit the
    scan of the records before the TSIG dictates -/
def preTsigState (cfg : Server.Cfg) (tr : Server.Transport) (bufLen : Nat) (req : Bytes) : State :=
  arSt (qSt (hdrSt (w0 bufLen (lim0 tr)) (Spec.Server.hdr req 0) (((req.getD 2 0).toNat &&& 120) >>> 3)
        (((req.getD 2 0).toNat &&& 1) != 0)) (Spec.Server.specScanWith (catKind cfg) cfg.payload req).question)
    tr cfg.payload (Spec.Server.specScanWith (catKind cfg) cfg.payload req).edns
    (Spec.Server.specScanWith (catKind cfg) cfg.payload req).limitUdp

/-- **`handle_message` on a request whose scan reaches a well-formed TSIG record.**  There are a TSIG
    record `t`, the message without it `mw` and the reader `r'` after it such that: whenever the TSIG
    step authenticates the request (returns a reader) leaving the writer `S`, and the end-of-message
    check / decision table (`endVerdict`, the very table of unsigned requests) yields a no-data
    verdict `v`, the response is `finish` of `S` with nothing but the RCODE of `v` set. -/
theorem handleMessage_after_tsig (cfg : Server.Cfg) (tr : Server.Transport) (now bufLen : Nat) (req : Bytes)
    (hbuf : minBuf tr cfg.payload ≤ bufLen) (hpay : 512 ≤ cfg.payload) (hreq : req.size ≤ Rdata.USIZE_MAX)
    (hr : (Spec.Server.specScanWith (catKind cfg) cfg.payload req).respond = true)
    (hv : (Spec.Server.specScanWith (catKind cfg) cfg.payload req).verdict = .tsigReached) :
    ∃ (t : Tsig.ReadTsigRr) (mw : Bytes) (r' : Reader), r'.octets = req ∧ r'.cursor ≤ req.size ∧
      ∀ r'' S, Server.tsigAfter cfg now t mw r' (preTsigState cfg tr bufLen req) = (.ok (some r''), S) →
        endVerdict (catKind cfg) req.size (Spec.Server.specScanWith (catKind cfg) cfg.payload req).question
          r'.cursor ((req.getD 2 0).toNat / 8 % 16) ≠ .answer →
        Server.handleMessage cfg tr now bufLen req =
          match Writer.finish (endState (endVerdict (catKind cfg) req.size
              (Spec.Server.specScanWith (catKind cfg) cfg.payload req).question r'.cursor
              ((req.getD 2 0).toNat / 8 % 16)) S) Server.macFn with
          | .ok (bytes, _) => .ok (some bytes)
          | _ => .panic := by
  unfold preTsigState
  rw [specScanWith_eq] at hr hv ⊢
  have h12 : 12 ≤ req.size := by
    by_cases hc : req.size < 12
    · simp only [hc, if_true] at hr; cases hr
    · omega
  have hqr : (req.getD 2 0).toNat < 128 := by
    by_cases hc : (req.getD 2 0).toNat ≥ 128
    · simp only [show ¬ req.size < 12 by omega, hc, if_false, if_true] at hr; cases hr
    · omega
  simp only [show ¬ req.size < 12 by omega, show ¬ (req.getD 2 0).toNat ≥ 128 by omega, if_false] at hv ⊢
  have hH := hdrSt_ok bufLen tr cfg.payload (Spec.Server.hdr req 0) (((req.getD 2 0).toNat &&& 120) >>> 3)
    (((req.getD 2 0).toNat &&& 1) != 0) hbuf hpay
  obtain ⟨t, mw, r', question, h1, h2, _, h4⟩ := hwc_tsig cfg tr now req h12 _ hH hreq hv
  refine ⟨t, mw, r', h1, h2, fun r'' S hT hne => ?_⟩
  rw [handleMessage_eq cfg tr now bufLen req hbuf hpay h12 hqr, h4, hT]
  simp only [afterTsig, if_neg hne]
  generalize Writer.finish _ Server.macFn = f
  rcases f with ⟨b, m⟩ | e | _ <;> rfl

end QV.ServerScan
