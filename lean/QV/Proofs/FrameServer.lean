/-
  QV.Proofs.FrameServer — the answering phase of the server model (src/server/query.rs:
  `handle_non_axfr_query` and everything below it) only issues writer operations that frame
  (`QV.Proofs.Frame`): whatever a loaded zone answers, the ID, QR, opcode, RD, RA, Z/AD/CD bits, the
  question octets, QDCOUNT, the EDNS payload size and the TSIG slot are as the scan left them.
-/
import QV.Proofs.Frame
import QV.Proofs.ScanRefine

namespace QV.Server
open QV QV.Writer

/-- `Framed` for the processing monad (`ProcessingResult`): the writer component of the state
    (the ghost log is irrelevant) -/
def PFramed {α} (k : Bool) (b : Nat) (m : PM α) : Prop :=
  ∀ s : PS, b ≤ s.w.cursor → b ≤ s.w.rrStart → Fr k b s.w (m s).2.w

variable {k : Bool}

theorem pframed_pure {α} (b : Nat) (a : α) : PFramed k b (pure a : PM α) := fun s hc _ => Fr.refl _ b s.w hc
theorem pframed_fail {α} (b : Nat) (e : PErr) : PFramed k b (PM.fail e : PM α) := fun s hc _ => Fr.refl _ b s.w hc
theorem pframed_panic {α} (b : Nat) : PFramed k b (PM.panic : PM α) := fun s hc _ => Fr.refl _ b s.w hc

theorem pframed_bind {α β} {b : Nat} {x : PM α} {f : α → PM β} (hx : PFramed k b x) (hf : ∀ a, PFramed k b (f a)) :
    PFramed k b (x >>= f) := by
  intro s hc hr
  have h1 := hx s hc hr
  show Fr k b s.w (PM.bind x f s).2.w
  unfold PM.bind
  rcases hxs : x s with ⟨(a | e | _), s1⟩
  · rw [hxs] at h1
    simp only
    exact h1.trans (hf a s1 h1.cur (by rw [h1.rrStart]; exact hr))
  · rw [hxs] at h1; exact h1
  · rw [hxs] at h1; exact h1

/-- a logged header operation -/
theorem pframed_hdrOp (b : Nat) (ev : Ev) (m : M Unit) (h : Framed k b m) : PFramed k b (PM.hdrOp ev m) := by
  intro s hc hr
  have := h s.w hc hr
  unfold PM.hdrOp
  rcases hm : m s.w with ⟨(a | e | _), s1⟩ <;> (rw [hm] at this; exact this)

/-- a logged record-adding call -/
theorem pframed_addCall (b : Nat) (ev : AddEv) (m : M HV) (h : Framed k b m) : PFramed k b (PM.addCall ev m) := by
  intro s hc hr
  have := h s.w hc hr
  unfold PM.addCall
  rcases hm : m s.w with ⟨(a | e | _), s1⟩
  · rw [hm] at this; exact this
  · rw [hm] at this
    dsimp only
    split <;> exact this
  · rw [hm] at this; exact this

theorem framed_withHv (b : Nat) (hv : HV) (m : M Unit) (h : Framed k b m) : Framed k b (withHv hv m) := by
  intro s hc hr
  unfold withHv
  have h0 : Fr k b s { s with hv := some hv } := fr_same b s _ rfl rfl rfl hc (fun _ => ⟨rfl, rfl⟩)
  have h1 := h { s with hv := some hv } hc hr
  rcases hm : m { s with hv := some hv } with ⟨(a | e | _), s1⟩
  all_goals
    rw [hm] at h1
    exact (h0.trans h1).trans (fr_same b s1 _ rfl rfl rfl h1.cur (fun _ => ⟨rfl, rfl⟩))

/-- a computation that never touches the state -/
theorem pframed_const {α} (b : Nat) (m : PM α) (h : ∀ s, (m s).2 = s) : PFramed k b m :=
  fun s hc _ => by rw [h s]; exact Fr.refl _ b s.w hc

theorem readNameFromRdata_const (rdata : List UInt8) (start : Nat) (s : PS) :
    (readNameFromRdata rdata start s).2 = s := by
  unfold readNameFromRdata
  split
  · rfl
  · cases h : WName.parse (rdata.drop start) with
    | none => rfl
    | some p =>
      obtain ⟨n, rest⟩ := p
      cases rest <;> rfl

theorem readSoaMinimum_const (rdata : List UInt8) (s : PS) : (readSoaMinimum rdata s).2 = s := by
  unfold readSoaMinimum
  cases h1 : WName.parse rdata with
  | none => rfl
  | some v1 =>
    obtain ⟨n1, r1⟩ := v1
    simp only
    cases h2 : WName.parse r1 with
    | none => rfl
    | some v2 =>
      obtain ⟨n2, r2⟩ := v2
      simp only
      split
      · rfl
      · split <;> rfl

/-! ### query.rs -/

variable (b : Nat)

theorem pframed_addRrs (hb : 4 ≤ b) (optional : Bool) (sec : RrSection) (hint : Hint) (owner : WName)
    (ty cls ttl : Nat) (rds : List (List UInt8)) : PFramed k b (PM.addRrs optional sec hint owner ty cls ttl rds) :=
  pframed_addCall b _ _ (framed_withHv b _ _ (framed_addRrsetOp b hb _ _ _ _ _ _ _))

theorem pframed_addRr1 (hb : 4 ≤ b) (sec : RrSection) (hint : Hint) (owner : WName) (ty cls ttl : Nat)
    (rd : List UInt8) : PFramed k b (PM.addRr1 sec hint owner ty cls ttl rd) := by
  unfold PM.addRr1
  exact pframed_bind (pframed_addCall b _ _ (framed_withHv b _ _ (framed_addRrOp b hb _ _ _ _ _ _ _)))
    fun _ => pframed_pure b ()

theorem pframed_setAa (hb : 4 ≤ b) (v : Bool) : PFramed k b (PM.setAa v) :=
  pframed_hdrOp b _ _ (framed_setAa b hb v)

theorem pframed_setRcode (hb : 4 ≤ b) (rc : Nat) (hrc : rc < 16) : PFramed k b (PM.setRcode rc) :=
  pframed_hdrOp b _ _ (framed_setRcode b hb rc hrc)

theorem pframed_setTc (hb : 4 ≤ b) (v : Bool) : PFramed k b (PM.setTc v) :=
  pframed_hdrOp b _ _ (framed_setTc b hb v)

theorem pframed_clearRrs : PFramed k b PM.clearRrs := pframed_hdrOp b _ _ (framed_clearRrs b)

theorem pframed_addAaaa (hb : 4 ≤ b) (z : Zone.Zone) (hint : Hint) (owner : WName) (optional : Bool)
    (aaaa : Option Zone.Rrset) : PFramed k b (addAaaa z hint owner optional aaaa) := by
  unfold addAaaa
  split
  · cases aaaa with
    | some r => exact pframed_bind (pframed_addRrs b hb _ _ _ _ _ _ _ _) fun _ => pframed_pure b ()
    | none => exact pframed_pure b ()
  · exact pframed_pure b ()

theorem pframed_addAdditionalAddresses (hb : 4 ≤ b) (z : Zone.Zone) (hint : Hint) (owner : WName)
    (sbc optional : Bool) : PFramed k b (addAdditionalAddresses z hint owner sbc optional) := by
  unfold addAdditionalAddresses
  split
  · rename_i a aaaa _ _
    cases a with
    | some r =>
      refine pframed_bind (pframed_addRrs b hb _ _ _ _ _ _ _ _) fun o => ?_
      cases o with
      | some _ => exact pframed_addAaaa b hb z _ owner optional aaaa
      | none => exact pframed_pure b ()
    | none => exact pframed_addAaaa b hb z hint owner optional aaaa
  · exact pframed_pure b ()
  · exact pframed_pure b ()
  · exact pframed_panic b

theorem pframed_additionalLoop (hb : 4 ≤ b) (z : Zone.Zone) (start : Nat) (hv : Option HV) :
    ∀ (rds : List (List UInt8)) (index : Nat), PFramed k b (additionalLoop z start hv rds index) := by
  intro rds
  induction rds with
  | nil => intro index; exact pframed_pure b ()
  | cons rd rest ih =>
    intro index
    unfold additionalLoop
    refine pframed_bind (pframed_const b _ (readNameFromRdata_const rd start)) fun name => ?_
    refine pframed_bind (pframed_addAdditionalAddresses b hb z _ name false true) fun _ => ?_
    exact ih _

theorem pframed_doAdditional (hb : 4 ≤ b) (z : Zone.Zone) (rrType : Nat) (rrset : Zone.Rrset) (hv : Option HV) :
    PFramed k b (doAdditionalSectionProcessing z rrType rrset hv) := by
  unfold doAdditionalSectionProcessing
  repeat' split
  all_goals first | exact pframed_pure b () | exact pframed_additionalLoop b hb z _ hv _ _

theorem pframed_addNegativeCachingSoa (hb : 4 ≤ b) (z : Zone.Zone) : PFramed k b (addNegativeCachingSoa z) := by
  unfold addNegativeCachingSoa
  split
  · exact pframed_fail b _
  · split
    · exact pframed_fail b _
    · refine pframed_bind (pframed_const b _ (readSoaMinimum_const _)) fun m => ?_
      exact pframed_addRr1 b hb _ _ _ _ _ _ _

theorem classifyNs_const (child : WName) : ∀ (rds : List (List UInt8)) (index : Nat) (s : PS),
    (classifyNs child rds index s).2 = s := by
  intro rds
  induction rds with
  | nil => intro index s; rfl
  | cons rd rest ih =>
    intro index s
    unfold classifyNs
    show (PM.bind _ _ s).2 = s
    unfold PM.bind
    have h1 := readNameFromRdata_const rd 0 s
    rcases hr : readNameFromRdata rd 0 s with ⟨(n | e | _), s1⟩
    · rw [hr] at h1
      simp only at h1 ⊢
      subst h1
      show (PM.bind _ _ s1).2 = s1
      unfold PM.bind
      have h2 := ih (index + 1) s1
      rcases hc : classifyNs child rest (index + 1) s1 with ⟨(r | e | _), s2⟩
      · rw [hc] at h2
        simp only at h2 ⊢
        subst h2
        obtain ⟨g, a⟩ := r
        simp only
        split <;> rfl
      · rw [hc] at h2; exact h2
      · rw [hc] at h2; exact h2
    · rw [hr] at h1; exact h1
    · rw [hr] at h1; exact h1

theorem pframed_glueLoop (hb : 4 ≤ b) (z : Zone.Zone) (hv : HV) (optional : Bool) :
    ∀ l : List (Nat × WName), PFramed k b (glueLoop z hv optional l) := by
  intro l
  induction l with
  | nil => exact pframed_pure b ()
  | cons p r ih =>
    unfold glueLoop
    exact pframed_bind (pframed_addAdditionalAddresses b hb z _ _ true optional) fun _ => ih

theorem pframed_doReferral (hb : 4 ≤ b) (z : Zone.Zone) (child : NameL.Name) (ns : Zone.Rrset) :
    PFramed k b (doReferral z child ns) := by
  unfold doReferral
  refine pframed_bind (pframed_addRrs b hb _ _ _ _ _ _ _ _) fun hv => ?_
  refine pframed_bind (pframed_const b _ (classifyNs_const _ _ _)) fun r => ?_
  obtain ⟨glues, additionals⟩ := r
  simp only
  exact pframed_bind (pframed_glueLoop b hb z _ false _) fun _ => pframed_glueLoop b hb z _ true _

theorem rc_nxdomain_lt : RC "NXDOMAIN" < 16 := by decide
theorem rc_servfail_lt : RC "SERVFAIL" < 16 := by decide

theorem pframed_followCname (hb : 4 ≤ b) (z : Zone.Zone) (qname : WName) (rrType : Nat) :
    ∀ (fuel : Nat) (c : Zone.Rrset) (seen : List WName), PFramed k b (followCname z qname rrType fuel c seen) := by
  intro fuel
  induction fuel with
  | zero => intro c seen; exact pframed_fail b _
  | succ fuel ih =>
    intro c seen
    unfold followCname
    split
    · exact pframed_fail b _
    · rename_i rd _ _
      cases hp : WName.parse rd with
      | none => exact pframed_fail b _
      | some pr =>
        obtain ⟨cname, rest⟩ := pr
        cases rest with
        | cons x xs => exact pframed_fail b _
        | nil =>
          simp only
          split
          · exact pframed_fail b _
          · refine pframed_bind (pframed_addRr1 b hb _ _ _ _ _ _ _) fun _ => ?_
            split
            · rename_i found _ _
              refine pframed_bind (pframed_addRrs b hb _ _ _ _ _ _ _ _) fun hv => ?_
              exact pframed_doAdditional b hb z rrType found _
            · split
              · exact ih _ _
              · exact pframed_fail b _
            · exact pframed_doReferral b hb z _ _
            · exact pframed_addNegativeCachingSoa b hb z
            · refine pframed_bind (pframed_setRcode b hb _ rc_nxdomain_lt) fun _ => ?_
              exact pframed_addNegativeCachingSoa b hb z
            · exact pframed_pure b ()
            · exact pframed_pure b ()
            · exact pframed_panic b

theorem pframed_doCname (hb : 4 ≤ b) (z : Zone.Zone) (qname : WName) (c : Zone.Rrset) (rrType : Nat) :
    PFramed k b (doCname z qname c rrType) := by
  unfold doCname
  refine pframed_bind (pframed_setAa b hb true) fun _ => ?_
  exact pframed_followCname b hb z qname rrType _ _ _

theorem pframed_answer (hb : 4 ≤ b) (z : Zone.Zone) (qname : WName) (qtype : Nat) : PFramed k b (answer z qname qtype) := by
  unfold answer
  split
  · rename_i found _ _
    refine pframed_bind (pframed_setAa b hb true) fun _ => ?_
    refine pframed_bind (pframed_addRrs b hb _ _ _ _ _ _ _ _) fun hv => ?_
    exact pframed_doAdditional b hb z qtype found _
  · exact pframed_doCname b hb z qname _ qtype
  · exact pframed_doReferral b hb z _ _
  · refine pframed_bind (pframed_setAa b hb true) fun _ => ?_
    exact pframed_addNegativeCachingSoa b hb z
  · refine pframed_bind (pframed_setRcode b hb _ rc_nxdomain_lt) fun _ => ?_
    refine pframed_bind (pframed_setAa b hb true) fun _ => ?_
    exact pframed_addNegativeCachingSoa b hb z
  · exact pframed_panic b
  · exact pframed_panic b
  · exact pframed_panic b

theorem pframed_answerAnyLoop (hb : 4 ≤ b) (z : Zone.Zone) (qname : WName) :
    ∀ (rs : List Zone.Rrset) (n : Nat), PFramed k b (answerAnyLoop z qname rs n) := by
  intro rs
  induction rs with
  | nil => intro n; exact pframed_pure b n
  | cons r rest ih =>
    intro n
    unfold answerAnyLoop
    refine pframed_bind (pframed_addRrs b hb _ _ _ _ _ _ _ _) fun _ => ?_
    exact ih _

theorem pframed_answerAny (hb : 4 ≤ b) (z : Zone.Zone) (qname : WName) : PFramed k b (answerAny z qname) := by
  unfold answerAny
  split
  · refine pframed_bind (pframed_setAa b hb true) fun _ => ?_
    refine pframed_bind (pframed_answerAnyLoop b hb z qname _ _) fun n => ?_
    split
    · exact pframed_addNegativeCachingSoa b hb z
    · exact pframed_pure b ()
  · exact pframed_doReferral b hb z _ _
  · refine pframed_bind (pframed_setRcode b hb _ rc_nxdomain_lt) fun _ => ?_
    refine pframed_bind (pframed_setAa b hb true) fun _ => ?_
    exact pframed_addNegativeCachingSoa b hb z
  · exact pframed_panic b
  · exact pframed_panic b
  · exact pframed_panic b

/-- `handle_non_axfr_query` on the writer plus the ghost log frames -/
theorem pframed_handleNonAxfrQueryL (hb : 4 ≤ b) (z : Zone.Zone) (qname : WName) (qtype : Nat) (tr : Transport) :
    PFramed k b (handleNonAxfrQueryL z qname qtype tr) := by
  intro s hc hr
  unfold handleNonAxfrQueryL
  have h1 : Fr k b s.w (if qtype = QT "ANY" then answerAny z qname s else answer z qname qtype s).2.w := by
    split
    · exact pframed_answerAny b hb z qname s hc hr
    · exact pframed_answer b hb z qname qtype s hc hr
  simp only
  rcases hres : (if qtype = QT "ANY" then answerAny z qname s else answer z qname qtype s) with ⟨(a | e | _), s1⟩
  · rw [hres] at h1; exact h1
  · rw [hres] at h1
    have hr1 : b ≤ s1.w.rrStart := by rw [h1.rrStart]; exact hr
    cases e with
    | servFail =>
      simp only
      refine h1.trans (pframed_bind (pframed_setAa b hb false) (fun _ =>
        pframed_bind (pframed_setRcode b hb _ rc_servfail_lt) fun _ => pframed_clearRrs b) s1 h1.cur hr1)
    | truncation =>
      simp only
      refine h1.trans (pframed_bind (pframed_clearRrs b) (fun _ => ?_) s1 h1.cur hr1)
      split
      · exact pframed_bind (pframed_setAa b hb false) fun _ => pframed_setRcode b hb _ rc_servfail_lt
      · exact pframed_setTc b hb true
  · rw [hres] at h1; exact h1

/-- **`handle_non_axfr_query` frames**: whatever the zone answers — records, CNAME chains,
    referrals, negative answers, the SERVFAIL and truncation epilogues — the header bits outside
    AA/TC/RCODE, the question, QDCOUNT, `rr_start`, the EDNS payload size and the TSIG slot stay as
    they were, and the cursor stays at or above the start of the records. -/
theorem framed_handleNonAxfrQuery (hb : 4 ≤ b) (z : Zone.Zone) (qname : WName) (qtype : Nat) (tr : Transport) :
    Framed k b (handleNonAxfrQuery z qname qtype tr) := by
  intro s hc hr
  have h := pframed_handleNonAxfrQueryL (k := k) b hb z qname qtype tr { w := s } hc hr
  unfold handleNonAxfrQuery
  rcases hres : handleNonAxfrQueryL z qname qtype tr { w := s } with ⟨(a | e | _), s1⟩ <;>
    (rw [hres] at h; exact h)


/-! ### the scan (src/server/mod.rs) -/

theorem rc_lt (n : String) (h : RC n < 16 := by decide) : RC n < 16 := h

theorem framed_setTsigOrTruncate (hb : 4 ≤ b) (mode : TsigMode) (rr : TsigRr) : Framed false b (setTsigOrTruncate mode rr) := by
  intro s hc hr
  unfold setTsigOrTruncate
  have h1 := framed_setTsig b mode rr s hc hr
  rcases hs : setTsig mode rr s with ⟨(a | e | _), s1⟩
  · rw [hs] at h1; exact h1
  · rw [hs] at h1
    simp only
    exact h1.trans (framed_bind (framed_setRcode b hb _ (by decide)) (fun _ =>
      framed_bind (framed_setTc b hb true) fun _ => framed_pure b false) s1 h1.cur (by rw [h1.rrStart]; exact hr))
  · rw [hs] at h1; exact h1

theorem rc_all_lt : RC "NOERROR" < 16 ∧ RC "FORMERR" < 16 ∧ RC "NOTAUTH" < 16 ∧ RC "NOTIMP" < 16 ∧
    RC "SERVFAIL" < 16 ∧ RC "REFUSED" < 16 := by decide

theorem framed_tsigBadKey (hb : 4 ≤ b) (t : Tsig.ReadTsigRr) (nowT : Tsig.TimeSigned) :
    Framed false b (tsigBadKey t nowT) := by
  unfold tsigBadKey
  refine framed_bind (framed_setRcode b hb _ rc_all_lt.2.2.1) fun _ => ?_
  split
  · exact framed_bind (framed_setTsigOrTruncate b hb _ _) fun _ => framed_pure b _
  · exact framed_panic b

theorem tsigReply_rcode_lt (alg : Hmac.Alg) (mac sec : List UInt8) (res : Out Tsig.VerificationError Unit)
    (rc e : Nat) (m : TsigMode) (h : tsigReply alg mac sec res = some (rc, e, m)) : rc < 16 := by
  obtain ⟨c0, c1, c9, _⟩ := rc_all_lt
  unfold tsigReply at h
  split at h
  all_goals (cases h; try (first | exact c0 | exact c9 | exact c1))

theorem framed_tsigVerifyAndWrite (hb : 4 ≤ b) (hm : Tsig.Algorithm → Tsig.Octets → Tsig.Octets → Tsig.Octets)
    (t : Tsig.ReadTsigRr) (mw : List UInt8) (alg : Hmac.Alg) (sec : List UInt8) (nowT : Tsig.TimeSigned)
    (r' : Reader.Reader) : Framed false b (tsigVerifyAndWrite hm t mw alg sec nowT r') := by
  intro s hc hr
  unfold tsigVerifyAndWrite
  split
  · rename_i rcode tsigErr mode hrep
    split
    · refine framed_bind (framed_setRcode b hb _ (tsigReply_rcode_lt _ _ _ _ _ _ _ hrep)) (fun _ => ?_) s hc hr
      refine framed_bind (framed_setTsigOrTruncate b hb _ _) fun added => ?_
      split <;> exact framed_pure b _
    · exact Fr.refl _ b s hc
  · exact Fr.refl _ b s hc

theorem framed_tsigProcess (hb : 4 ≤ b) (hm : Tsig.Algorithm → Tsig.Octets → Tsig.Octets → Tsig.Octets)
    (keys : List Key) (nowT : Tsig.TimeSigned) (t : Tsig.ReadTsigRr) (mw : List UInt8) (r' : Reader.Reader) :
    Framed false b (tsigProcess hm keys nowT t mw r') := by
  unfold tsigProcess
  split
  · exact framed_tsigBadKey b hb t nowT
  · split
    · exact framed_tsigBadKey b hb t nowT
    · exact framed_tsigVerifyAndWrite b hb hm t mw _ _ nowT r'

theorem framed_formErr {α} (hb : 4 ≤ b) (a : α) : Framed k b (do setRcode (RC "FORMERR"); pure a : M α) :=
  framed_bind (framed_setRcode b hb _ (by decide)) fun _ => framed_pure b a

theorem framed_handleTsig (hb : 4 ≤ b) (cfg : Cfg) (now : Nat) (p : Reader.PeekRr) (raw : Nat) :
    Framed false b (handleTsig cfg now p raw) := by
  intro s hc hr
  unfold handleTsig
  split
  · split
    · split
      · exact framed_formErr b hb _ s hc hr
      · split
        · exact framed_formErr b hb _ s hc hr
        · exact Fr.refl _ b s hc
        · exact Fr.refl _ b s hc
        · split
          · exact Fr.refl _ b s hc
          · exact framed_tsigProcess b hb _ _ _ _ _ _ s hc hr
    · exact framed_formErr b hb _ s hc hr
    · exact Fr.refl _ b s hc
  · exact Fr.refl _ b s hc

theorem framed_scanAr (hb : 4 ≤ b) (cfg : Cfg) (tr : Transport) (now arcount : Nat) :
    ∀ (n index : Nat) (st : ScanSt), Framed false b (scanAr cfg tr now arcount n index st) := by
  intro n
  induction n with
  | zero => intro index st; exact framed_pure b _
  | succ n ih =>
    intro index st s hc hr
    unfold scanAr
    split
    · split
      · split
        · split
          · exact framed_formErr b hb _ s hc hr
          · have h1 := framed_setEdns b cfg.payload s hc hr
            rcases he : setEdns cfg.payload s with ⟨(a | e | _), s1⟩
            · rw [he] at h1
              have hr1 : b ≤ s1.rrStart := by rw [h1.rrStart]; exact hr
              simp only
              split
              · split
                · have hrest : ∀ (owner : List UInt8) (t : Nat) (st' : ScanSt), Framed false b
                      (if owner ≠ [0] then do
                          Writer.unwrap (setExtendedRcode (XRC "FORMERR"))
                          pure none
                        else if t / 65536 % 256 ≠ 0 then do
                          Writer.unwrap (setExtendedRcode (XRC "BADVERSBADSIG"))
                          pure none
                        else scanAr cfg tr now arcount n (index + 1) st') := by
                    intro owner t st'
                    split
                    · exact framed_bind (framed_unwrap b _ (framed_setExtendedRcode b hb _)) fun _ => framed_pure b _
                    · split
                      · exact framed_bind (framed_unwrap b _ (framed_setExtendedRcode b hb _)) fun _ => framed_pure b _
                      · exact ih _ _
                  split
                  · exact h1.trans (framed_bind (framed_setLimit b _) (fun _ => hrest _ _ _) s1 h1.cur hr1)
                  · exact h1.trans (hrest _ _ _ s1 h1.cur hr1)
                · exact h1.trans (framed_formErr b hb _ s1 h1.cur hr1)
                · exact h1
              · exact h1
            · rw [he] at h1
              simp only
              exact h1.trans (framed_bind (framed_setRcode b hb _ (by decide)) (fun _ => framed_pure b _) s1 h1.cur
                (by rw [h1.rrStart]; exact hr))
            · rw [he] at h1; exact h1
        · split
          · split
            · exact framed_formErr b hb _ s hc hr
            · split
              · rename_i p _ _ _ _ _ _ _ _ raw _
                have h1 := framed_handleTsig b hb cfg now p raw s hc hr
                rcases ht : handleTsig cfg now p raw s with ⟨(a | e | _), s1⟩
                · rw [ht] at h1
                  cases a with
                  | some r' => exact h1.trans (ih _ _ s1 h1.cur (by rw [h1.rrStart]; exact hr))
                  | none => exact h1
                · rw [ht] at h1; exact h1
                · rw [ht] at h1; exact h1
              · exact Fr.refl _ b s hc
          · exact ih _ _ s hc hr
      · exact Fr.refl _ b s hc
    · exact framed_formErr b hb _ s hc hr
    · exact Fr.refl _ b s hc

theorem framed_handleQuery (hb : 4 ≤ b) (cfg : Cfg) (question : Option (WName × Nat × Nat)) (tr : Transport) :
    Framed k b (handleQuery cfg question tr) := by
  unfold handleQuery
  split
  · exact framed_setRcode b hb _ (by decide)
  · split
    · exact framed_setRcode b hb _ (by decide)
    · split
      · exact framed_setRcode b hb _ (by decide)
      · split
        · split
          · split
            · exact framed_handleNonAxfrQuery b hb _ _ _ _
            · exact framed_panic b
          · exact framed_setRcode b hb _ (by decide)
        · exact framed_setRcode b hb _ (by decide)

/-- **the whole of `handle_message_with_context` after the question frames**: the three section
    scans, OPT and TSIG processing, the opcode dispatch and the answering phase leave the ID, QR,
    opcode, RD, RA, Z/AD/CD bits, the question octets, QDCOUNT and `rr_start` alone -/
theorem framed_scanAndDispatch (hb : 4 ≤ b) (cfg : Cfg) (tr : Transport) (now an ns ar opcode : Nat)
    (question : Option (WName × Nat × Nat)) (r1 : Reader.Reader) :
    Framed false b (scanAndDispatch cfg tr now an ns ar opcode question r1) := by
  unfold scanAndDispatch
  simp only
  split
  · exact framed_formErr b hb true
  · refine framed_bind (framed_scanAr b hb cfg tr now ar ar 0 _) fun st => ?_
    split
    · exact framed_pure b true
    · split
      · exact framed_formErr b hb true
      · split
        · exact framed_bind (framed_handleQuery b hb cfg question tr) fun _ => framed_pure b true
        · exact framed_bind (framed_setRcode b hb _ (by decide)) fun _ => framed_pure b true

end QV.Server
