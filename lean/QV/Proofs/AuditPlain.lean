import QV.Proofs.AuditMac
import QV.Proofs.ServerProps

/-!
# C10 (1f): "answered normally", no-data verdicts

Under the audit's guard `plainComparable` the scan of the request without its TSIG record has the
question, EDNS state and UDP limit of the signed request's scan and ends with the verdict of the decision
table after the TSIG record — for the audit's catalog.  The verdict transfers to the server's own
catalog (`endVerdict_transfer`: the table's structural verdicts do not depend on the catalog, the others
only on the question), so the response to the stripped request is the unsigned no-data response with
the same RCODE.
-/

namespace QV.ServerScan
open QV QV.Spec.Server

/-- where the table gives FORMERR it does so whatever the catalog -/
theorem endVerdict_formErr_indep (l l' : List UInt8 → Nat → Option ZoneKind) (sz : Nat) (q : Option Spec.DQuestion)
    (pos op : Nat) (h : endVerdict l sz q pos op = .formErr) : endVerdict l' sz q pos op = .formErr := by
  unfold endVerdict at h ⊢
  by_cases c1 : pos < sz
  · rw [if_pos c1]
  · rw [if_neg c1] at h ⊢
    by_cases c2 : op ≠ 0
    · rw [if_pos c2] at h; cases h
    · rw [if_neg c2] at h ⊢
      cases q with
      | none => rfl
      | some qq =>
        simp only at h ⊢
        by_cases c3 : 251 ≤ qq.qtype ∧ qq.qtype ≤ 254
        · rw [if_pos c3] at h; cases h
        · rw [if_neg c3] at h
          by_cases c4 : qq.qclass = 255
          · rw [if_pos c4] at h; cases h
          · rw [if_neg c4] at h
            exfalso
            revert h
            cases l qq.qname qq.qclass with
            | none => simp
            | some k => cases k <;> simp

/-- two ends of scans with the same question that the table treats alike under one catalog are treated
    alike under every catalog -/
theorem endVerdict_transfer (l l' : List UInt8 → Nat → Option ZoneKind) (sz sz' : Nat) (q : Option Spec.DQuestion)
    (pos pos' op : Nat) (h : endVerdict l sz q pos op = endVerdict l sz' q pos' op) :
    endVerdict l' sz q pos op = endVerdict l' sz' q pos' op := by
  by_cases c1 : pos < sz
  · have e1 : ∀ l0, endVerdict l0 sz q pos op = .formErr := fun l0 => by unfold endVerdict; rw [if_pos c1]
    rw [e1 l] at h
    rw [e1 l', endVerdict_formErr_indep l l' sz' q pos' op h.symm]
  · by_cases c1' : pos' < sz'
    · have e1 : ∀ l0, endVerdict l0 sz' q pos' op = .formErr := fun l0 => by unfold endVerdict; rw [if_pos c1']
      rw [e1 l] at h
      rw [e1 l', endVerdict_formErr_indep l l' sz q pos op h]
    · unfold endVerdict
      rw [if_neg c1, if_neg c1']

theorem postVerdict_eq (l : List UInt8 → Nat → Option ZoneKind) (msg : Bytes) (q : Option Spec.DQuestion) (pos : Nat) :
    Spec.ServerTsig.postVerdict l msg q pos = endVerdict l msg.size q pos ((msg.getD 2 0).toNat / 8 % 16) := by
  unfold Spec.ServerTsig.postVerdict endVerdict
  rfl

/-- **the scan and the catalog**: whether a response is due, the question, the EDNS state and the UDP
    limit do not depend on the catalog; the verdict is either one the scan reaches before the decision
    table (the same for every catalog) or the table's, at the same position -/
theorem specScanWith_lookup_indep (l1 l2 : List UInt8 → Nat → Option ZoneKind) (S : Nat) (msg : Bytes) :
    (specScanWith l1 S msg).respond = (specScanWith l2 S msg).respond ∧
    (specScanWith l1 S msg).question = (specScanWith l2 S msg).question ∧
    (specScanWith l1 S msg).edns = (specScanWith l2 S msg).edns ∧
    (specScanWith l1 S msg).limitUdp = (specScanWith l2 S msg).limitUdp ∧
    (((specScanWith l1 S msg).verdict = (specScanWith l2 S msg).verdict ∧
        ((specScanWith l1 S msg).verdict = .formErr ∨ (specScanWith l1 S msg).verdict = .badVers ∨
          (specScanWith l1 S msg).verdict = .tsigReached)) ∨
      ∃ p3, (specScanWith l1 S msg).verdict =
          endVerdict l1 msg.size (specScanWith l1 S msg).question p3 ((msg.getD 2 0).toNat / 8 % 16) ∧
        (specScanWith l2 S msg).verdict =
          endVerdict l2 msg.size (specScanWith l1 S msg).question p3 ((msg.getD 2 0).toNat / 8 % 16)) := by
  unfold specScanWith
  by_cases h1 : msg.size < 12
  · rw [if_pos h1, if_pos h1]; exact ⟨rfl, rfl, rfl, rfl, Or.inl ⟨rfl, Or.inl rfl⟩⟩
  · by_cases h2 : (msg.getD 2 0).toNat ≥ 128
    · rw [if_neg h1, if_neg h1, if_pos h2, if_pos h2]; exact ⟨rfl, rfl, rfl, rfl, Or.inl ⟨rfl, Or.inl rfl⟩⟩
    · simp only [h1, h2, if_false]
      by_cases h3 : hdr msg 4 > 1
      · rw [if_pos h3, if_pos h3]; exact ⟨rfl, rfl, rfl, rfl, Or.inl ⟨rfl, Or.inl rfl⟩⟩
      · simp only [h3, if_false]
        generalize (if hdr msg 4 = 0 then some (none, 12)
          else match Spec.specQuestionAt msg 12 with
            | some (w, t, c, nx) => some (some (⟨w, t, c⟩ : Spec.DQuestion), nx)
            | none => none) = qres
        cases qres with
        | none => exact ⟨rfl, rfl, rfl, rfl, Or.inl ⟨rfl, Or.inl rfl⟩⟩
        | some v =>
          obtain ⟨q, p1⟩ := v
          simp only
          cases scanPlain msg (hdr msg 6 + hdr msg 8) p1 with
          | none => exact ⟨rfl, rfl, rfl, rfl, Or.inl ⟨rfl, Or.inl rfl⟩⟩
          | some p2 =>
            simp only
            rcases scanAr msg S (hdr msg 10) (hdr msg 10) p2 false 512 with ⟨en, e, l⟩
            cases en with
            | formErr => exact ⟨rfl, rfl, rfl, rfl, Or.inl ⟨rfl, Or.inl rfl⟩⟩
            | badVers => exact ⟨rfl, rfl, rfl, rfl, Or.inl ⟨rfl, Or.inr (Or.inl rfl)⟩⟩
            | tsig => exact ⟨rfl, rfl, rfl, rfl, Or.inl ⟨rfl, Or.inr (Or.inr rfl)⟩⟩
            | done p3 =>
              simp only
              generalize (msg.getD 2 0).toNat / 8 % 16 = op
              by_cases c1 : p3 < msg.size
              · rw [if_pos c1, if_pos c1]
                exact ⟨rfl, rfl, rfl, rfl, Or.inr ⟨p3, by unfold endVerdict; rw [if_pos c1],
                  by unfold endVerdict; rw [if_pos c1]⟩⟩
              · rw [if_neg c1, if_neg c1]
                by_cases c2 : op ≠ 0
                · rw [if_pos c2, if_pos c2]
                  exact ⟨rfl, rfl, rfl, rfl, Or.inr ⟨p3, by unfold endVerdict; rw [if_neg c1, if_pos c2],
                    by unfold endVerdict; rw [if_neg c1, if_pos c2]⟩⟩
                · rw [if_neg c2, if_neg c2]
                  cases q with
                  | none =>
                    exact ⟨rfl, rfl, rfl, rfl, Or.inr ⟨p3, by unfold endVerdict; rw [if_neg c1, if_neg c2],
                      by unfold endVerdict; rw [if_neg c1, if_neg c2]⟩⟩
                  | some qq =>
                    simp only
                    by_cases c3 : 251 ≤ qq.qtype ∧ qq.qtype ≤ 254
                    · rw [if_pos c3, if_pos c3]
                      exact ⟨rfl, rfl, rfl, rfl, Or.inr ⟨p3, by unfold endVerdict; simp only [if_neg c1, if_neg c2, if_pos c3],
                        by unfold endVerdict; simp only [if_neg c1, if_neg c2, if_pos c3]⟩⟩
                    · rw [if_neg c3, if_neg c3]
                      by_cases c4 : qq.qclass = 255
                      · rw [if_pos c4, if_pos c4]
                        exact ⟨rfl, rfl, rfl, rfl, Or.inr ⟨p3,
                          by unfold endVerdict; simp only [if_neg c1, if_neg c2, if_neg c3, if_pos c4],
                          by unfold endVerdict; simp only [if_neg c1, if_neg c2, if_neg c3, if_pos c4]⟩⟩
                      · rw [if_neg c4, if_neg c4]
                        have hv : ∀ l0 : List UInt8 → Nat → Option ZoneKind,
                            endVerdict l0 msg.size (some qq) p3 op =
                              (match l0 qq.qname qq.qclass with
                                | none => Verdict.refused | some .loaded => .answer | some _ => .servFailZone) := by
                          intro l0; unfold endVerdict; simp only [if_neg c1, if_neg c2, if_neg c3, if_neg c4]
                          cases l0 qq.qname qq.qclass with
                          | none => rfl
                          | some k => cases k <;> rfl
                        refine ⟨?_, ?_, ?_, ?_, Or.inr ⟨p3, ?_, ?_⟩⟩
                        · cases l1 qq.qname qq.qclass with
                          | none => cases l2 qq.qname qq.qclass with
                            | none => rfl
                            | some k2 => cases k2 <;> rfl
                          | some k => cases k <;> (cases l2 qq.qname qq.qclass with
                            | none => rfl
                            | some k2 => cases k2 <;> rfl)
                        · cases l1 qq.qname qq.qclass with
                          | none => cases l2 qq.qname qq.qclass with
                            | none => rfl
                            | some k2 => cases k2 <;> rfl
                          | some k => cases k <;> (cases l2 qq.qname qq.qclass with
                            | none => rfl
                            | some k2 => cases k2 <;> rfl)
                        · cases l1 qq.qname qq.qclass with
                          | none => cases l2 qq.qname qq.qclass with
                            | none => rfl
                            | some k2 => cases k2 <;> rfl
                          | some k => cases k <;> (cases l2 qq.qname qq.qclass with
                            | none => rfl
                            | some k2 => cases k2 <;> rfl)
                        · cases l1 qq.qname qq.qclass with
                          | none => cases l2 qq.qname qq.qclass with
                            | none => rfl
                            | some k2 => cases k2 <;> rfl
                          | some k => cases k <;> (cases l2 qq.qname qq.qclass with
                            | none => rfl
                            | some k2 => cases k2 <;> rfl)
                        · cases hl : l1 qq.qname qq.qclass with
                          | none =>
                            show Verdict.refused = endVerdict l1 msg.size (some qq) p3 op
                            rw [hv l1, hl]
                          | some k =>
                            cases k
                            · show Verdict.answer = endVerdict l1 msg.size (some qq) p3 op
                              rw [hv l1, hl]
                            · show Verdict.servFailZone = endVerdict l1 msg.size (some qq) p3 op
                              rw [hv l1, hl]
                            · show Verdict.servFailZone = endVerdict l1 msg.size (some qq) p3 op
                              rw [hv l1, hl]
                        · have hqq : ∀ (a b c : Scan), a.question = some qq → b.question = some qq →
                              c.question = some qq → ∀ x : Option ZoneKind,
                              (match x with | none => a | some .loaded => b | some _ => c).question = some qq := by
                            intro a b c ha hb hc x
                            cases x with
                            | none => exact ha
                            | some k => cases k <;> assumption
                          cases hl1 : l1 qq.qname qq.qclass with
                          | none =>
                            cases hl : l2 qq.qname qq.qclass with
                            | none =>
                              show Verdict.refused = endVerdict l2 msg.size (some qq) p3 op
                              rw [hv l2, hl]
                            | some k =>
                              cases k
                              · show Verdict.answer = endVerdict l2 msg.size (some qq) p3 op
                                rw [hv l2, hl]
                              · show Verdict.servFailZone = endVerdict l2 msg.size (some qq) p3 op
                                rw [hv l2, hl]
                              · show Verdict.servFailZone = endVerdict l2 msg.size (some qq) p3 op
                                rw [hv l2, hl]
                          | some k1 =>
                            cases k1 <;>
                            (cases hl : l2 qq.qname qq.qclass with
                            | none =>
                              show Verdict.refused = endVerdict l2 msg.size (some qq) p3 op
                              rw [hv l2, hl]
                            | some k =>
                              cases k
                              · show Verdict.answer = endVerdict l2 msg.size (some qq) p3 op
                                rw [hv l2, hl]
                              · show Verdict.servFailZone = endVerdict l2 msg.size (some qq) p3 op
                                rw [hv l2, hl]
                              · show Verdict.servFailZone = endVerdict l2 msg.size (some qq) p3 op
                                rw [hv l2, hl])

/-! ### the response to a request the scan decides alone, decoded -/

theorem h2_bits : ∀ x : UInt8,
    (128 ||| (x &&& 120) ||| (x &&& 1)).toNat / 4 % 2 = 0 ∧ (128 ||| (x &&& 120) ||| 0).toNat / 4 % 2 = 0 ∧
    (128 ||| (x &&& 120) ||| (x &&& 1)).toNat / 2 % 2 = 0 ∧ (128 ||| (x &&& 120) ||| 0).toNat / 2 % 2 = 0 := by
  apply Wire.forall_uint8; decide +kernel

/-- the unsigned no-data response: no answer or authority records, RCODE of the verdict, AA and TC clear -/
theorem plain_nodata_decoded (cfg : Server.Cfg) (tr : Server.Transport) (now bufLen : Nat) (req : Bytes)
    (hbuf : minBuf tr cfg.payload ≤ bufLen) (hpay : 512 ≤ cfg.payload) (hp16 : cfg.payload ≤ 65535)
    (hreq : req.size ≤ Rdata.USIZE_MAX)
    (hr : (specScanWith (catKind cfg) cfg.payload req).respond = true)
    (hv : noDataV (specScanWith (catKind cfg) cfg.payload req).verdict = true) :
    ∃ b, Server.handleMessage cfg tr now bufLen req = .ok (some b) ∧
      ∀ d, Spec.specDecodeMsg b = some d →
        d.an = [] ∧ d.ns = [] ∧
        d.rcode = (verdictRcode (specScanWith (catKind cfg) cfg.payload req).verdict).1 % 16 ∧
        d.aa = false ∧ d.tc = false := by
  obtain ⟨F, b, mac, hb, hf, hG, _, he⟩ := unsigned_nodata_final cfg tr now bufLen req hbuf hpay hp16 hreq hr hv
  obtain ⟨b2, hb2, hl⟩ := server_error_response cfg tr now bufLen req hbuf hpay hreq hr hv
  rw [hb] at hb2
  simp only [Out.ok.injEq, Option.some.injEq] at hb2
  subst hb2
  refine ⟨b, hb, fun d hd => ?_⟩
  obtain ⟨hq1, hq2, hq3⟩ := qBody_norecs (specScanWith (catKind cfg) cfg.payload req).question
  obtain ⟨_, _, c3, c4⟩ := opt_of_good Server.macFn F _ hG (by rw [hq3]; simp) b mac hf d hd
  rw [hq1] at c3; rw [hq2] at c4
  have hfl := decode_flags b d hd
  have g2 : b.getD 2 0 = (specErrorResponse req cfg.payload (specScanWith (catKind cfg) cfg.payload req)).getD 2 0 := by
    rw [← hl]; simp [Array.getD_eq_getD_getElem?, List.getD_eq_getElem?_getD]
  have g3 : b.getD 3 0 = (specErrorResponse req cfg.payload (specScanWith (catKind cfg) cfg.payload req)).getD 3 0 := by
    rw [← hl]; simp [Array.getD_eq_getD_getElem?, List.getD_eq_getElem?_getD]
  simp only [specErrorResponse, List.cons_append, List.getD_cons_succ, List.getD_cons_zero] at g2 g3
  have hrc : (verdictRcode (specScanWith (catKind cfg) cfg.payload req).verdict).1 < 16 := by
    cases (specScanWith (catKind cfg) cfg.payload req).verdict <;> simp [verdictRcode]
  obtain ⟨k1, k2, k3, k4⟩ := h2_bits (req.getD 2 0)
  have hb3 := (b.getD 3 0).toNat_lt
  have hb3' := (b.getD (2 + 1) 0).toNat_lt
  refine ⟨List.length_eq_zero_iff.mp c3, List.length_eq_zero_iff.mp c4, ?_, ?_, ?_⟩
  · unfold Spec.DMsg.rcode
    rw [hfl]; unfold hdr
    rw [g3]
    simp only [Nat.add_eq, Nat.add_zero, UInt8.toNat_ofNat', Nat.reducePow]
    omega
  · unfold Spec.DMsg.aa
    rw [hfl]; unfold hdr
    rw [g2]
    have : ((b.getD 2 0).toNat * 256 + (b.getD (2 + 1) 0).toNat) / 1024 % 2 = (b.getD 2 0).toNat / 4 % 2 := by omega
    rw [← g2, this, g2]
    split <;> simp_all
  · unfold Spec.DMsg.tc
    rw [hfl]; unfold hdr
    have : ((b.getD 2 0).toNat * 256 + (b.getD (2 + 1) 0).toNat) / 512 % 2 = (b.getD 2 0).toNat / 2 % 2 := by omega
    rw [this, g2]
    split <;> simp_all

/-! ### the request without its TSIG record -/

theorem strip_facts (req : Bytes) (d : Delim) (hfind : Spec.ServerTsig.findTsig req = some d) (h12 : 12 ≤ d.pos)
    (hdsz : d.pos ≤ req.size) (hnext : d.pos ≤ d.next) (hnsz : d.next ≤ req.size) :
    ∃ p, Spec.ServerTsig.stripTsigRr req = some p ∧ p.getD 2 0 = req.getD 2 0 ∧ p.size ≤ req.size := by
  unfold Spec.ServerTsig.stripTsigRr
  rw [hfind]
  refine ⟨_, rfl, ?_, ?_⟩
  · have hl : ((req.extract 0 d.pos).toList ++ (req.extract d.next req.size).toList).length =
        d.pos + (req.size - d.next) := by
      simp only [List.length_append, Array.length_toList, Array.size_extract]; omega
    rw [Array.getD_eq_getD_getElem?, Array.getD_eq_getD_getElem?]
    congr 1
    simp only [Spec.ServerTsig.bump, List.getElem?_toArray]
    rw [List.append_assoc, List.getElem?_append_left (by rw [List.length_take, hl]; omega),
      List.getElem?_take_of_lt (by omega), List.getElem?_append_left (by simp; omega)]
    simp only [Array.getElem?_toList, Array.getElem?_extract]
    rw [if_pos (by omega)]
  · simp only [Spec.ServerTsig.bump, List.size_toArray, List.length_append, List.length_take, List.length_drop,
      Array.length_toList, Array.size_extract, Spec.Tsig.u16, List.length_cons, List.length_nil]
    omega

open Spec.ServerTsig in
/-- **"answered normally" for an authenticated request with a no-data verdict**: under the audit's guard
    the response to the request without its TSIG record is the unsigned no-data response of the same
    verdict -/
theorem plain_nodata_of_comparable (cfg : Server.Cfg) (cat : List ZoneCfg) (tr : Server.Transport) (now : Nat)
    (req : Bytes) (hpay : 512 ≤ cfg.payload) (hp16 : cfg.payload ≤ 65535) (hreq : req.size ≤ Rdata.USIZE_MAX)
    (d : Delim) (hfind : findTsig req = some d) (h12 : 12 ≤ d.pos)
    (hdsz : d.pos ≤ req.size) (hnext : d.pos ≤ d.next) (hnsz : d.next ≤ req.size)
    (iq : (specScan cat cfg.payload req).question = (specScanWith (catKind cfg) cfg.payload req).question)
    (v : Verdict) (hvv : v = .formErr ∨ v = .notImp ∨ v = .refused ∨ v = .servFailZone)
    (hev : endVerdict (catKind cfg) req.size (specScanWith (catKind cfg) cfg.payload req).question d.next
      ((req.getD 2 0).toNat / 8 % 16) = v)
    (hcmp : plainComparable cat cfg.payload req = true) :
    ∃ p, stripTsigRr req = some p ∧ ∃ pb, Server.handleMessage cfg tr now 65535 p = .ok (some pb) ∧
      ∀ pd, Spec.specDecodeMsg pb = some pd →
        pd.an = [] ∧ pd.ns = [] ∧ pd.rcode = (verdictRcode v).1 % 16 ∧ pd.aa = false ∧ pd.tc = false := by
  obtain ⟨p, hstrip, hp2, hpsz⟩ := strip_facts req d hfind h12 hdsz hnext hnsz
  unfold plainComparable at hcmp
  rw [hfind, hstrip] at hcmp
  simp only [Bool.and_eq_true, decide_eq_true_eq] at hcmp
  obtain ⟨⟨⟨⟨c1, c2⟩, _⟩, _⟩, c5⟩ := hcmp
  rw [postVerdict_eq] at c5
  obtain ⟨r1, r2, _, _, rv⟩ := specScanWith_lookup_indep
    (fun qn qc => (specCatalogLookup cat qn qc).map (·.kind)) (catKind cfg) cfg.payload p
  have c1' : (specScanWith (fun qn qc => (specCatalogLookup cat qn qc).map (·.kind)) cfg.payload p).respond = true := c1
  have c2' : (specScanWith (fun qn qc => (specCatalogLookup cat qn qc).map (·.kind)) cfg.payload p).question =
      (specScan cat cfg.payload req).question := c2
  have c5' : (specScanWith (fun qn qc => (specCatalogLookup cat qn qc).map (·.kind)) cfg.payload p).verdict =
      endVerdict (fun qn qc => (specCatalogLookup cat qn qc).map (·.kind)) req.size (specScan cat cfg.payload req).question
        d.next ((req.getD 2 0).toNat / 8 % 16) := c5
  have hrP : (specScanWith (catKind cfg) cfg.payload p).respond = true := by rw [← r1]; exact c1'
  have hvP : (specScanWith (catKind cfg) cfg.payload p).verdict = v := by
    rw [← hev, ← iq]
    rcases rv with ⟨e1, e2⟩ | ⟨p3, e1, e2⟩
    · rw [← e1]
      rw [c5'] at e2 ⊢
      have hf : endVerdict (fun qn qc => (specCatalogLookup cat qn qc).map (·.kind)) req.size
          (specScan cat cfg.payload req).question d.next ((req.getD 2 0).toNat / 8 % 16) = .formErr := by
        rcases e2 with e2 | e2 | e2
        · exact e2
        · rcases ServerContent.endVerdict_range (fun qn qc => (specCatalogLookup cat qn qc).map (·.kind)) req.size
            (specScan cat cfg.payload req).question d.next ((req.getD 2 0).toNat / 8 % 16) with h | h | h | h | h <;>
            rw [h] at e2 <;> cases e2
        · rcases ServerContent.endVerdict_range (fun qn qc => (specCatalogLookup cat qn qc).map (·.kind)) req.size
            (specScan cat cfg.payload req).question d.next ((req.getD 2 0).toNat / 8 % 16) with h | h | h | h | h <;>
            rw [h] at e2 <;> cases e2
      rw [hf, endVerdict_formErr_indep _ (catKind cfg) _ _ _ _ hf]
    · rw [e2, c2', hp2]
      rw [e1, c2', hp2] at c5'
      exact endVerdict_transfer _ (catKind cfg) _ _ _ _ _ _ c5'
  have hnd : noDataV (specScanWith (catKind cfg) cfg.payload p).verdict = true := by
    rw [hvP]; rcases hvv with rfl | rfl | rfl | rfl <;> rfl
  have hbuf : minBuf tr cfg.payload ≤ 65535 := by cases tr <;> simp only [minBuf] <;> omega
  obtain ⟨pb, hpb, hall⟩ := plain_nodata_decoded cfg tr now 65535 p hbuf hpay hp16
    (Nat.le_trans hpsz hreq) hrP hnd
  refine ⟨p, hstrip, pb, hpb, fun pd hpd => ?_⟩
  have := hall pd hpd
  rw [hvP] at this
  exact this

end QV.ServerScan
