/-
  QV.Proofs.PoolWake — the wake-up invariants of the pool transition system (C29): no waiter is
  left asleep when what it waits for has happened (no lost wake-up), plus the bookkeeping about
  the two shut_down calls that the environment assumption on `ThreadPool::shut_down` needs.
  Flags are compared through `b2n` so that every field is linear arithmetic (closed by `omega`).
-/
import QV.Proofs.Pool

namespace QV.Pool

def isSubAwake : Local → Bool | .subWantP _ | .subInP _ => true | _ => false
def isAwWait : Local → Bool | .awWait => true | _ => false
def isShMid : Local → Bool | .shInP | .shInG2 => true | _ => false
def isShAny : Local → Bool | .shWantG | .shInG | .shInP | .shInG2 => true | _ => false
def isPshAny : Local → Bool | .pshWantG | .pshInG | .pshWantP | .pshInP => true | _ => false

def b2n (b : Bool) : Nat := if b then 1 else 0
@[simp] theorem b2n_true : b2n true = 1 := rfl
@[simp] theorem b2n_false : b2n false = 0 := rfl
theorem b2n_le_one (b : Bool) : b2n b ≤ 1 := by cases b <;> simp
theorem b2n_of_true {b : Bool} (h : b = true) : b2n b = 1 := by subst h; rfl
theorem b2n_of_false {b : Bool} (h : b = false) : b2n b = 0 := by subst h; rfl

@[simp] theorem isSubAwake_wakeTask (l : Local) : isSubAwake (wakeTask l) = isSubAwake l := by cases l <;> rfl
@[simp] theorem isSubAwake_wakeShut (l : Local) : isSubAwake (wakeShut l) = isSubAwake l := by cases l <;> rfl
@[simp] theorem isAwWait_wakeTask (l : Local) : isAwWait (wakeTask l) = isAwWait l := by cases l <;> rfl
@[simp] theorem isAwWait_wakeAvail (l : Local) : isAwWait (wakeAvail l) = isAwWait l := by cases l <;> rfl
@[simp] theorem isShMid_wakeTask (l : Local) : isShMid (wakeTask l) = isShMid l := by cases l <;> rfl
@[simp] theorem isShMid_wakeAvail (l : Local) : isShMid (wakeAvail l) = isShMid l := by cases l <;> rfl
@[simp] theorem isShMid_wakeShut (l : Local) : isShMid (wakeShut l) = isShMid l := by cases l <;> rfl
@[simp] theorem isShAny_wakeTask (l : Local) : isShAny (wakeTask l) = isShAny l := by cases l <;> rfl
@[simp] theorem isShAny_wakeAvail (l : Local) : isShAny (wakeAvail l) = isShAny l := by cases l <;> rfl
@[simp] theorem isShAny_wakeShut (l : Local) : isShAny (wakeShut l) = isShAny l := by cases l <;> rfl
@[simp] theorem isPshAny_wakeTask (l : Local) : isPshAny (wakeTask l) = isPshAny l := by cases l <;> rfl
@[simp] theorem isPshAny_wakeAvail (l : Local) : isPshAny (wakeAvail l) = isPshAny l := by cases l <;> rfl
@[simp] theorem isPshAny_wakeShut (l : Local) : isPshAny (wakeShut l) = isPshAny l := by cases l <;> rfl
@[simp] theorem isPshEarly_wakeTask (l : Local) : isPshEarly (wakeTask l) = isPshEarly l := by cases l <;> rfl
@[simp] theorem isPshEarly_wakeAvail (l : Local) : isPshEarly (wakeAvail l) = isPshEarly l := by cases l <;> rfl
@[simp] theorem isPshEarly_wakeShut (l : Local) : isPshEarly (wakeShut l) = isPshEarly l := by cases l <;> rfl
@[simp] theorem isAwWait_wakeShut (l : Local) : isAwWait (wakeShut l) = false := by cases l <;> rfl
theorem isSubAwake_wakeAvail (l : Local) : isSubAwake (wakeAvail l) = (isSubAwake l || isSubWait l) := by cases l <;> rfl
theorem countP_isWWait_wakeTask (l : List Local) : (l.map wakeTask).countP isWWait = 0 := by
  rw [List.countP_eq_zero]; intro a ha; obtain ⟨b, _, rfl⟩ := List.mem_map.mp ha; simp
theorem countP_isWWait_wakeAvail (l : List Local) : (l.map wakeAvail).countP isWWait = l.countP isWWait :=
  countP_map_eq _ _ _ l (by intro x; simp)
theorem countP_isWWait_wakeShut (l : List Local) : (l.map wakeShut).countP isWWait = l.countP isWWait :=
  countP_map_eq _ _ _ l (by intro x; simp)
theorem countP_isSubWait_wakeTask (l : List Local) : (l.map wakeTask).countP isSubWait = l.countP isSubWait :=
  countP_map_eq _ _ _ l (by intro x; simp)
theorem countP_isSubWait_wakeAvail (l : List Local) : (l.map wakeAvail).countP isSubWait = 0 := by
  rw [List.countP_eq_zero]; intro a ha; obtain ⟨b, _, rfl⟩ := List.mem_map.mp ha; simp
theorem countP_isSubWait_wakeShut (l : List Local) : (l.map wakeShut).countP isSubWait = l.countP isSubWait :=
  countP_map_eq _ _ _ l (by intro x; simp)
theorem countP_isSubAwake_wakeTask (l : List Local) : (l.map wakeTask).countP isSubAwake = l.countP isSubAwake :=
  countP_map_eq _ _ _ l (by intro x; simp)
theorem countP_isSubAwake_wakeAvail (l : List Local) :
    (l.map wakeAvail).countP isSubAwake = l.countP isSubAwake + l.countP isSubWait := by
  induction l with
  | nil => rfl
  | cons a t ih =>
    simp only [List.map_cons, List.countP_cons, ih]
    cases a <;> simp [wakeAvail, isSubAwake, isSubWait] <;> omega
theorem countP_isSubAwake_wakeShut (l : List Local) : (l.map wakeShut).countP isSubAwake = l.countP isSubAwake :=
  countP_map_eq _ _ _ l (by intro x; simp)
theorem countP_isAwWait_wakeTask (l : List Local) : (l.map wakeTask).countP isAwWait = l.countP isAwWait :=
  countP_map_eq _ _ _ l (by intro x; simp)
theorem countP_isAwWait_wakeAvail (l : List Local) : (l.map wakeAvail).countP isAwWait = l.countP isAwWait :=
  countP_map_eq _ _ _ l (by intro x; simp)
theorem countP_isAwWait_wakeShut (l : List Local) : (l.map wakeShut).countP isAwWait = 0 := by
  rw [List.countP_eq_zero]; intro a ha; obtain ⟨b, _, rfl⟩ := List.mem_map.mp ha; simp
theorem countP_isShMid_wakeTask (l : List Local) : (l.map wakeTask).countP isShMid = l.countP isShMid :=
  countP_map_eq _ _ _ l (by intro x; simp)
theorem countP_isShMid_wakeAvail (l : List Local) : (l.map wakeAvail).countP isShMid = l.countP isShMid :=
  countP_map_eq _ _ _ l (by intro x; simp)
theorem countP_isShMid_wakeShut (l : List Local) : (l.map wakeShut).countP isShMid = l.countP isShMid :=
  countP_map_eq _ _ _ l (by intro x; simp)
theorem countP_isShAny_wakeTask (l : List Local) : (l.map wakeTask).countP isShAny = l.countP isShAny :=
  countP_map_eq _ _ _ l (by intro x; simp)
theorem countP_isShAny_wakeAvail (l : List Local) : (l.map wakeAvail).countP isShAny = l.countP isShAny :=
  countP_map_eq _ _ _ l (by intro x; simp)
theorem countP_isShAny_wakeShut (l : List Local) : (l.map wakeShut).countP isShAny = l.countP isShAny :=
  countP_map_eq _ _ _ l (by intro x; simp)
theorem countP_isPshAny_wakeTask (l : List Local) : (l.map wakeTask).countP isPshAny = l.countP isPshAny :=
  countP_map_eq _ _ _ l (by intro x; simp)
theorem countP_isPshAny_wakeAvail (l : List Local) : (l.map wakeAvail).countP isPshAny = l.countP isPshAny :=
  countP_map_eq _ _ _ l (by intro x; simp)
theorem countP_isPshAny_wakeShut (l : List Local) : (l.map wakeShut).countP isPshAny = l.countP isPshAny :=
  countP_map_eq _ _ _ l (by intro x; simp)
theorem countP_isPshEarly_wakeTask (l : List Local) : (l.map wakeTask).countP isPshEarly = l.countP isPshEarly :=
  countP_map_eq _ _ _ l (by intro x; simp)
theorem countP_isPshEarly_wakeAvail (l : List Local) : (l.map wakeAvail).countP isPshEarly = l.countP isPshEarly :=
  countP_map_eq _ _ _ l (by intro x; simp)
theorem countP_isPshEarly_wakeShut (l : List Local) : (l.map wakeShut).countP isPshEarly = l.countP isPshEarly :=
  countP_map_eq _ _ _ l (by intro x; simp)

theorem pshEarly_le_any (l : List Local) : l.countP isPshEarly ≤ l.countP isPshAny :=
  List.countP_mono_left (fun x _ hx => by cases x <;> simp_all [isPshEarly, isPshAny])

/-! ### the invariant -/

structure WInv (s : State) : Prop where
  /-- once the pool is shutting down no worker sleeps on `task_wakeup` … -/
  w1 : b2n s.pShutting = 0 ∨ s.threads.countP isWWait = 0
  /-- … and no submitter on `available_wakeup` -/
  w2 : b2n s.pShutting = 0 ∨ s.threads.countP isSubWait = 0
  /-- a submitter sleeps only while every surplus worker (`available − queue.len`) is matched by a
      submitter that is awake and will re-check (no lost `available_wakeup` notification) -/
  w3 : b2n s.pShutting = 1 ∨ s.threads.countP isSubWait = 0 ∨
       s.available ≤ s.queue.length + s.threads.countP isSubAwake
  /-- an awaiter sleeps after shutdown is complete only while a `shut_down` call that will still
      `notify_all` is in flight -/
  w4 : s.threads.countP isAwWait = 0 ∨ b2n s.gShutting = 0 ∨ s.threadCount ≠ 0 ∨ 0 < s.threads.countP isShMid
  f1 : s.threads.countP isShAny = 0 ∨ b2n s.shCalled = 1
  f2 : s.threads.countP isPshAny = 0 ∨ b2n s.pshCalled = 1
  f3 : b2n s.poolReady = 0 ∨ b2n s.pshCalled = 1 ∨ b2n s.shCalled = 1 ∨ b2n s.hasPool = 1
  /-- a `ThreadPool::shut_down` call that has yet to remove the pool finds it registered -/
  f4 : s.threads.countP isPshEarly = 0 ∨ (b2n s.hasPool = 1 ∧ b2n s.shCalled = 0)
  f5 : s.threads.countP isPshAny ≤ 1

theorem winv_init : WInv init := by
  refine ⟨?_, ?_, ?_, ?_, ?_, ?_, ?_, ?_, ?_⟩ <;> simp [init]

macro "wsplit" : tactic => `(tactic| refine ⟨?_, ?_, ?_, ?_, ?_, ?_, ?_, ?_, ?_⟩)

/-- closes a goal about the wake-up counts after thread `t` (with `hg : s.threads[t]? = some a`) moved -/
macro "wake_close" hg:ident : tactic => `(tactic| (
  have q0 := countP_pos_get isWWait $hg
  have q1 := countP_pos_get isSubWait $hg
  have q2 := countP_pos_get isSubAwake $hg
  have q3 := countP_pos_get isAwWait $hg
  have q4 := countP_pos_get isShMid $hg
  have q5 := countP_pos_get isShAny $hg
  have q6 := countP_pos_get isPshAny $hg
  have q7 := countP_pos_get isPshEarly $hg
  simp only [countP_isWWait_wakeTask, countP_isWWait_wakeAvail, countP_isWWait_wakeShut, countP_isSubWait_wakeTask, countP_isSubWait_wakeAvail, countP_isSubWait_wakeShut, countP_isSubAwake_wakeTask, countP_isSubAwake_wakeAvail, countP_isSubAwake_wakeShut, countP_isAwWait_wakeTask, countP_isAwWait_wakeAvail, countP_isAwWait_wakeShut, countP_isShMid_wakeTask, countP_isShMid_wakeAvail, countP_isShMid_wakeShut, countP_isShAny_wakeTask, countP_isShAny_wakeAvail, countP_isShAny_wakeShut, countP_isPshAny_wakeTask, countP_isPshAny_wakeAvail, countP_isPshAny_wakeShut, countP_isPshEarly_wakeTask, countP_isPshEarly_wakeAvail, countP_isPshEarly_wakeShut,
    countP_set_get _ $hg, List.countP_append, List.countP_cons, List.countP_nil, State.setT,
    List.length_append, List.length_cons, List.length_nil]
  simp only [isWWait, isSubWait, isSubAwake, isAwWait, isShMid, isShAny, isPshAny, isPshEarly, b2n_true, b2n_false, Bool.false_eq_true, ↓reduceIte, Nat.add_zero,
    Nat.sub_zero, Nat.zero_le] at q0 q1 q2 q3 q4 q5 q6 q7 ⊢
  first | omega | (simp only [true_and, and_true, true_or, or_true, false_or, or_false, Nat.zero_ne_one, Nat.one_ne_zero, not_true_eq_false, not_false_eq_true, ne_eq] <;> first | done | omega)))

macro "wake_close2" hg:ident hu:ident : tactic => `(tactic| (
  have q0 := countP_pos_get isWWait $hg
  have q1 := countP_pos_get isSubWait $hg
  have q2 := countP_pos_get isSubAwake $hg
  have q3 := countP_pos_get isAwWait $hg
  have q4 := countP_pos_get isShMid $hg
  have q5 := countP_pos_get isShAny $hg
  have q6 := countP_pos_get isPshAny $hg
  have q7 := countP_pos_get isPshEarly $hg
  have r0 := countP_pos_get isWWait $hu
  have r1 := countP_pos_get isSubWait $hu
  have r2 := countP_pos_get isSubAwake $hu
  have r3 := countP_pos_get isAwWait $hu
  have r4 := countP_pos_get isShMid $hu
  have r5 := countP_pos_get isShAny $hu
  have r6 := countP_pos_get isPshAny $hu
  have r7 := countP_pos_get isPshEarly $hu
  simp only [countP_set_get _ $hu] at r0 r1 r2 r3 r4 r5 r6 r7 ⊢
  simp only [countP_set_get _ $hg, List.countP_append, List.countP_cons, List.countP_nil, State.setT,
    List.length_append, List.length_cons, List.length_nil] at r0 r1 r2 r3 r4 r5 r6 r7 ⊢
  simp only [isWWait, isSubWait, isSubAwake, isAwWait, isShMid, isShAny, isPshAny, isPshEarly, wakeTask, wakeAvail, b2n_true, b2n_false, Bool.false_eq_true, ↓reduceIte,
    Nat.add_zero, Nat.sub_zero, Nat.zero_le] at q0 q1 q2 q3 q4 q5 q6 q7 r0 r1 r2 r3 r4 r5 r6 r7 ⊢
  first | omega | (simp only [true_and, and_true, true_or, or_true, false_or, or_false, Nat.zero_ne_one, Nat.one_ne_zero, not_true_eq_false, not_false_eq_true, ne_eq] <;> first | done | omega)))

set_option hygiene false in
/-- facts every proof below starts from -/
macro "wintro" h:ident s:ident : tactic => `(tactic| (
  obtain ⟨w1, w2, w3, w4, f1, f2, f3, f4, f5⟩ := $h
  have b1 := b2n_le_one ($s).pShutting
  have b2 := b2n_le_one ($s).gShutting
  have b3 := b2n_le_one ($s).shCalled
  have b4 := b2n_le_one ($s).pshCalled
  have b5 := b2n_le_one ($s).poolReady
  have b6 := b2n_le_one ($s).hasPool
  have hmono := pshEarly_le_any ($s).threads))

theorem winv_acq {s s' : State} {t : Nat} (h : WInv s) (hn : nextAcq s t = some s') : WInv s' := by
  unfold nextAcq at hn
  cases hg : s.threads[t]? with
  | none => simp [hg] at hn
  | some l =>
    simp only [hg] at hn
    wintro h s
    cases l <;> simp at hn
    all_goals (
      obtain ⟨hgd, rfl⟩ := hn
      wsplit
      all_goals wake_close hg)

theorem winv_spawn {s s' : State} {t : Nat} {fails : Bool} (h : WInv s) (hn : nextSpawn s t fails = some s') : WInv s' := by
  unfold nextSpawn at hn
  cases hg : s.threads[t]? with
  | none => simp [hg] at hn
  | some l =>
    simp only [hg] at hn
    wintro h s
    cases l <;> try simp at hn
    case spInG n =>
      cases n <;> simp at hn
      obtain ⟨hgd, rfl⟩ := hn
      wsplit
      all_goals wake_close hg
    case sosInG k =>
      obtain ⟨hgd, hn⟩ := hn
      cases fails <;> simp at hn <;> subst hn <;> wsplit
      all_goals wake_close hg
    case rhInG f =>
      obtain ⟨hgd, hn⟩ := hn
      cases fails <;> simp at hn <;> subst hn <;> wsplit
      all_goals wake_close hg

theorem winv_simple {s s' : State} {t : Nat} (h : WInv s)
    (hn : nextTimeout s t = some s' ∨ nextSpurious s t = some s' ∨ nextRun s t = some s' ∨
      (∃ cfg, nextFin cfg s t = some s')) : WInv s' := by
  wintro h s
  cases hg : s.threads[t]? with
  | none =>
    rcases hn with hn | hn | hn | ⟨cfg, hn⟩ <;>
      simp [nextTimeout, nextSpurious, nextRun, nextFin, hg] at hn
  | some l =>
    rcases hn with hn | hn | hn | ⟨cfg, hn⟩
    · unfold nextTimeout at hn
      rw [hg] at hn
      cases l <;> try simp at hn
      case wWait w =>
        cases w <;> simp at hn
        subst hn
        wsplit
        all_goals wake_close hg
      case rhWait =>
        subst hn
        wsplit
        all_goals wake_close hg
    · unfold nextSpurious at hn
      rw [hg] at hn
      cases l <;> try simp at hn
      all_goals (
        subst hn
        wsplit
        all_goals wake_close hg)
    · unfold nextRun at hn
      rw [hg] at hn
      cases l <;> try simp at hn
      all_goals (
        subst hn
        wsplit
        all_goals wake_close hg)
    · unfold nextFin at hn
      rw [hg] at hn
      cases l <;> try simp at hn
      case wRunning w k =>
        subst hn
        wsplit
        all_goals wake_close hg
      case auxRunning k =>
        subst hn
        cases cfg.linger <;> wsplit
        all_goals wake_close hg


theorem winv_push {s s' : State} {t k : Nat} {target : Option Nat} {a : Local} (h : WInv s)
    (hg : s.threads[t]? = some a) (ha : a = .subInP k ∨ a = .sosInP k) (hav : s.available > s.queue.length)
    (hsh : s.pShutting = false)
    (hn : pushTask s t k target = some s') : WInv s' := by
  wintro h s
  have hps := b2n_of_false hsh
  unfold pushTask at hn
  rw [Option.map_eq_some_iff] at hn
  obtain ⟨ths, hno, rfl⟩ := hn
  rcases ha with rfl | rfl
  all_goals (
    rcases notifyOne_spec hno with ⟨_, hz, rfl⟩ | ⟨u, l, _, hu, hw, rfl⟩
    · wsplit
      all_goals wake_close hg
    · obtain ⟨w, rfl⟩ := isWWait_eq hw
      wsplit
      all_goals wake_close2 hg hu)

theorem winv_relWorker_unreg {cfg : Cfg} {s s' : State} {t : Nat} {w : WKind} {to : Bool} {target : Option Nat} {dl : Bool}
    (h : WInv s) (hg : s.threads[t]? = some (.wInP w false to))
    (hn : relWorker cfg s t w false to target dl = some s') : WInv s' := by
  wintro h s
  unfold relWorker relWorkerBody at hn
  cases hq : s.queue <;> cases hps : s.pShutting <;> cases w <;> cases dl <;>
    simp [hq, hps, State.setT, Option.map_eq_some_iff] at hn <;>
    rw [hq] at w3 <;> simp only [hps, b2n_true, b2n_false, List.length_cons, List.length_nil] at w1 w2 w3
  all_goals (
    obtain ⟨ths, hno, rfl⟩ := hn
    rcases notifyOne_spec hno with ⟨_, hz, rfl⟩ | ⟨u, l, _, hu, hw, rfl⟩
    · have hz' := hz
      simp only [countP_set_get _ hg, isSubWait, Bool.false_eq_true, ↓reduceIte, Nat.add_zero, Nat.sub_zero] at hz'
      wsplit
      all_goals wake_close hg
    · obtain ⟨k', rfl⟩ := isSubWait_eq hw
      wsplit
      all_goals wake_close2 hg hu)

theorem winv_relWorker_reg {cfg : Cfg} {s s' : State} {t : Nat} {w : WKind} {to : Bool} {target : Option Nat} {dl : Bool}
    (hf : cfg.fixed = true) (h : WInv s) (hg : s.threads[t]? = some (.wInP w true to))
    (hn : relWorker cfg s t w true to target dl = some s') : WInv s' := by
  wintro h s
  unfold relWorker relWorkerBody at hn
  cases to <;> cases hq : s.queue <;> cases hps : s.pShutting <;> cases w <;> cases dl <;>
    simp [hf, hq, hps, State.setT] at hn <;>
    rw [hq] at w3 <;> simp only [hps, b2n_true, b2n_false, List.length_cons, List.length_nil] at w1 w2 w3
  all_goals (
    obtain ⟨_, rfl⟩ := hn
    wsplit
    all_goals wake_close hg)

/-- `end_thread`: if this was the last thread of a group that is shutting down, every awaiter is woken -/
theorem winv_endThread {s : State} (h : WInv s) : WInv (endThread s) := by
  wintro h s
  unfold endThread
  by_cases hc : (s.gShutting && s.threadCount - 1 == 0) = true
  · simp only [hc, ↓reduceIte]
    wsplit
    all_goals (
      dsimp only
      try simp only [countP_isWWait_wakeShut, countP_isSubWait_wakeShut, countP_isSubAwake_wakeShut,
        countP_isAwWait_wakeShut, countP_isShMid_wakeShut, countP_isShAny_wakeShut, countP_isPshAny_wakeShut,
        countP_isPshEarly_wakeShut]
      first | omega | simp)
  · have hc' : (s.gShutting && s.threadCount - 1 == 0) = false := by simpa using hc
    simp only [hc', Bool.false_eq_true, ↓reduceIte]
    have : b2n s.gShutting = 0 ∨ s.threadCount - 1 ≠ 0 := by
      cases hgs : s.gShutting <;> simp_all
    wsplit
    all_goals (dsimp only; omega)

/-- the group-records part of a step that ends a thread: first the thread leaves (neutral for the
    wake-up counts), then `end_thread` -/
theorem winv_exit {s : State} {t : Nat} {a : Local} (h : WInv s) (hg : s.threads[t]? = some a)
    (ha : a = .endInG ∨ a = .rhInG2 ∨ ∃ f, a = .rhInG f) :
    WInv (endThread { s.setT t .exited with gLock := none }) := by
  apply winv_endThread
  wintro h s
  rcases ha with rfl | rfl | ⟨f, rfl⟩ <;> wsplit
  all_goals wake_close hg

theorem winv_rel {cfg : Cfg} {s s' : State} {t : Nat} {target : Option Nat} {flag : Bool}
    (hf : cfg.fixed = true) (hc : CInv s) (h : WInv s) (hn : nextRel cfg s t target flag = some s') : WInv s' := by
  unfold nextRel at hn
  cases hg : s.threads[t]? with
  | none => simp [hg] at hn
  | some l =>
    simp only [hg] at hn
    cases l <;> try simp [-List.map_set, -List.map_map] at hn
    case spInG n =>
      cases n <;> simp at hn
      obtain ⟨_, rfl⟩ := hn
      wintro h s
      wsplit
      all_goals wake_close hg
    case subInP k =>
      by_cases hps : s.pShutting = true
      · simp [hps] at hn
        obtain ⟨_, rfl⟩ := hn
        wintro h s
        have := b2n_of_true hps
        wsplit
        all_goals wake_close hg
      · have hps' : s.pShutting = false := by simpa using hps
        simp [hps'] at hn
        by_cases hav : s.queue.length < s.available
        · simp [hav] at hn
          exact winv_push h hg (Or.inl rfl) hav hps' hn
        · simp [hav] at hn
          obtain ⟨_, rfl⟩ := hn
          wintro h s
          have := b2n_of_false hps'
          wsplit
          all_goals wake_close hg
    case sosInP k =>
      by_cases hps : s.pShutting = true
      · simp [hps] at hn
        obtain ⟨_, rfl⟩ := hn
        wintro h s
        have := b2n_of_true hps
        wsplit
        all_goals wake_close hg
      · have hps' : s.pShutting = false := by simpa using hps
        simp [hps'] at hn
        by_cases hav : s.queue.length < s.available
        · simp [hav] at hn
          exact winv_push h hg (Or.inr rfl) hav hps' hn
        · simp [hav] at hn
          obtain ⟨_, rfl⟩ := hn
          wintro h s
          have := b2n_of_false hps'
          wsplit
          all_goals wake_close hg
    case wInP w reg to =>
      cases reg
      · exact winv_relWorker_unreg h hg hn
      · exact winv_relWorker_reg hf h hg hn
    case sosInG k =>
      obtain ⟨_, _, rfl⟩ := hn
      wintro h s
      wsplit
      all_goals wake_close hg
    case sosInG2 k =>
      obtain ⟨_, rfl⟩ := hn
      wintro h s
      wsplit
      all_goals wake_close hg
    case shInG =>
      obtain ⟨hp, _, rfl⟩ := hn
      wintro h s
      have := b2n_of_false hp
      wsplit
      all_goals wake_close hg
    case shInP =>
      obtain ⟨_, rfl⟩ := hn
      wintro h s
      wsplit
      all_goals wake_close hg
    case shInG2 =>
      obtain ⟨_, rfl⟩ := hn
      wintro h s
      wsplit
      all_goals wake_close hg
    case pshInG =>
      obtain ⟨hp, _, rfl⟩ := hn
      wintro h s
      wsplit
      all_goals wake_close hg
    case pshInP =>
      obtain ⟨_, rfl⟩ := hn
      wintro h s
      wsplit
      all_goals wake_close hg
    case awInG =>
      split at hn
      · simp at hn
        obtain ⟨_, rfl⟩ := hn
        wintro h s
        wsplit
        all_goals wake_close hg
      · rename_i hcnd
        simp at hn
        obtain ⟨_, rfl⟩ := hn
        wintro h s
        have : b2n s.gShutting = 0 ∨ s.threadCount ≠ 0 := by
          cases hgs : s.gShutting <;> simp_all
        wsplit
        all_goals wake_close hg
    case endInG =>
      obtain ⟨_, rfl⟩ := hn
      exact winv_exit h hg (Or.inl rfl)
    case rhInG f =>
      split at hn
      · simp at hn
        obtain ⟨_, rfl⟩ := hn
        exact winv_exit h hg (Or.inr (Or.inr ⟨f, rfl⟩))
      · split at hn <;> simp at hn
        obtain ⟨_, rfl⟩ := hn
        wintro h s
        wsplit
        all_goals wake_close hg
    case rhInG2 =>
      obtain ⟨_, rfl⟩ := hn
      exact winv_exit h hg (Or.inr (Or.inl rfl))

theorem winv_next {cfg : Cfg} {s s' : State} {l : Label} (hf : cfg.fixed = true) (hc : CInv s) (h : WInv s)
    (hn : next cfg s l = some s') : WInv s' := by
  cases l with
  | arrive =>
    simp [next] at hn; subst hn
    wintro h s
    wsplit <;> simp only [List.countP_append, List.countP_cons, List.countP_nil, isWWait, isSubWait, isSubAwake, isAwWait, isShMid, isShAny, isPshAny, isPshEarly, Bool.false_eq_true, ↓reduceIte, Nat.add_zero] <;> omega
  | acq t => exact winv_acq h hn
  | spawn t f => exact winv_spawn h hn
  | rel t tg fl => exact winv_rel hf hc h hn
  | timeout t => exact winv_simple h (Or.inl hn)
  | spurious t => exact winv_simple h (Or.inr (Or.inl hn))
  | run t => exact winv_simple h (Or.inr (Or.inr (Or.inl hn)))
  | fin t => exact winv_simple h (Or.inr (Or.inr (Or.inr ⟨cfg, hn⟩)))
  | callStartPool t n =>
    simp only [next] at hn
    split at hn <;> simp at hn
    rename_i hcnd; simp at hcnd
    have hg := isIdle_get hcnd.1
    subst hn
    wintro h s
    wsplit
    all_goals wake_close hg
  | callSubmit t =>
    simp only [next] at hn
    split at hn <;> simp at hn
    rename_i hcnd; simp at hcnd
    have hg := isIdle_get hcnd.1
    subst hn
    wintro h s
    wsplit
    all_goals wake_close hg
  | callSos t =>
    simp only [next] at hn
    split at hn <;> simp at hn
    rename_i hcnd; simp at hcnd
    have hg := isIdle_get hcnd.1
    subst hn
    wintro h s
    wsplit
    all_goals wake_close hg
  | callShutdown t =>
    simp only [next] at hn
    split at hn <;> simp at hn
    rename_i hcnd; simp at hcnd
    have hg := isIdle_get hcnd.1.1
    subst hn
    wintro h s
    have hz : s.threads.countP isPshEarly = 0 := by
      rw [List.countP_eq_zero]; intro a ha; simpa using hcnd.2 a ha
    wsplit
    all_goals wake_close hg
  | callPoolShutdown t =>
    simp only [next] at hn
    split at hn <;> simp at hn
    rename_i hcnd; simp at hcnd
    have hg := isIdle_get hcnd.1.1.1
    subst hn
    wintro h s
    have e1 := b2n_of_true hcnd.1.1.2
    have e2 := b2n_of_false hcnd.1.2
    have e3 := b2n_of_false hcnd.2
    wsplit
    all_goals wake_close hg
  | callAwait t =>
    simp only [next] at hn
    split at hn <;> simp at hn
    rename_i hcnd
    have hg := isIdle_get hcnd
    subst hn
    wintro h s
    wsplit
    all_goals wake_close hg

theorem winv_reachable {cfg : Cfg} (hf : cfg.fixed = true) {s : State} (hr : Reachable cfg s) : WInv s := by
  induction hr with
  | init => exact winv_init
  | step hr' st ih => obtain ⟨l, hl⟩ := st; exact winv_next hf (cinv_reachable hf hr') ih hl

end QV.Pool
