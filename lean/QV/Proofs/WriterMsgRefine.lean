/-
  QV.Proofs.WriterMsgRefine — C12 (d) in every compression mode: the RFC 1035 decoder of the
  specification (`QV.Spec.Message.specDecodeMsg`: names decompressed, RDATA expanded along the RFC
  layouts) reads the finished message as the header, questions and records of the calls that
  succeeded, names up to ASCII case in `Standard` mode and octet for octet otherwise.

  Here: names (an item holding a name is read by `decodeNameAt`), RDATA (`decodeFields` along `RdAt`),
  records, questions, the whole message.
-/
import QV.Proofs.WriterContentDecode
import QV.Proofs.WriterBridge

namespace QV.Writer
open QV QV.Wire QV.Spec QV.ServerSafety

/-! ### names -/

theorem specWalk_pos (msg : Bytes) : ∀ (fuel a cs : Nat) (ls : List (List UInt8)) (k : Nat),
    specWalk msg fuel a cs = some (ls, k) → 1 ≤ ls.flatten.length := by
  intro fuel
  induction fuel with
  | zero => intro a cs ls k h; simp [specWalk] at h
  | succ f ih =>
    intro a cs ls k h
    unfold specWalk at h
    split at h
    · cases h
    · rename_i b hb
      split at h
      · simp only [Option.some.injEq, Prod.mk.injEq] at h
        rw [← h.1]; simp
      · split at h
        · split at h
          · split at h
            · rename_i ls' k' hrec
              simp only [Option.some.injEq, Prod.mk.injEq] at h
              have := ih _ _ _ _ hrec
              rw [← h.1, List.flatten_cons, List.length_append]; omega
            · cases h
          · cases h
        · split at h
          · split at h
            · cases h
            · simp only at h
              split at h
              · split at h
                · rename_i ls' k' hrec
                  simp only [Option.some.injEq, Prod.mk.injEq] at h
                  rw [← h.1]; exact ih _ _ _ _ hrec
                · cases h
              · cases h
          · cases h

/-- the literal labels of the chunk at `a` are part of the name the decoder reads there -/
theorem specWalk_chunk_len (msg : Bytes) (cs : Nat) (b : UInt8) : ∀ (pre : List Label) (a fuel : Nat)
    (ls : List (List UInt8)) (k : Nat), LabelsWF pre →
    BytesAt msg a (pre.flatMap WName.encLabel ++ [b]) → specWalk msg fuel a cs = some (ls, k) →
    encLen pre + 1 ≤ ls.flatten.length := by
  intro pre
  induction pre with
  | nil =>
    intro a fuel ls k _ _ hw
    have := specWalk_pos msg fuel a cs ls k hw
    simpa using this
  | cons l pre ih =>
    intro a fuel ls k hwf hb hw
    have hl := hwf l List.mem_cons_self
    cases fuel with
    | zero => simp [specWalk] at hw
    | succ f =>
      simp only [List.flatMap_cons, WName.encLabel, List.cons_append, List.append_assoc] at hb
      obtain ⟨hb0, hb1⟩ := bytesAt_cons hb
      have hb2 : BytesAt msg (a + 1 + l.length) (pre.flatMap WName.encLabel ++ [b]) := by
        have := (bytesAt_append (d := l) hb1).2
        exact this
      have hn : (UInt8.ofNat l.length).toNat = l.length := by rw [UInt8.toNat_ofNat']; omega
      have hne : UInt8.ofNat l.length ≠ 0 := by
        intro hc
        have := congrArg UInt8.toNat hc
        rw [hn] at this
        have h00 : (0 : UInt8).toNat = 0 := rfl
        omega
      unfold specWalk at hw
      simp only [hb0, hne, if_false, hn, hl.2, if_true] at hw
      split at hw
      · rename_i hin
        cases h2 : specWalk msg f (a + l.length + 1) cs with
        | none => rw [h2] at hw; cases hw
        | some r =>
          obtain ⟨ls', k'⟩ := r
          rw [h2] at hw
          simp only [Option.some.injEq, Prod.mk.injEq] at hw
          have := ih (a + 1 + l.length) f ls' k' (fun x hx => hwf x (List.mem_cons_of_mem _ hx)) hb2
            (by rw [show a + 1 + l.length = a + l.length + 1 by omega]; exact h2)
          rw [encLen_cons, ← hw.1, List.flatten_cons, List.length_append]
          have he : (msg.extract a (a + l.length + 1)).toList.length = l.length + 1 := by
            simp; omega
          omega
      · cases hw

theorem physical_chunk (msg : Bytes) (b : UInt8) : ∀ (ls : List Label) (pos fuel : Nat) (acc : List Nat),
    LabelsWF ls → BytesAt msg pos (ls.flatMap WName.encLabel ++ [b]) →
    (b = 0 ∨ (isPtr b = true ∧ ∃ b2, msg[pos + encLen ls + 1]? = some b2)) → ls.length < fuel →
    ∃ r, Message.physical msg fuel pos acc = some r := by
  intro ls
  induction ls with
  | nil =>
    intro pos fuel acc _ hb hc hf
    obtain ⟨f, rfl⟩ : ∃ f, fuel = f + 1 := ⟨fuel - 1, by simp at hf; omega⟩
    have h0 : msg[pos]? = some b := by simpa using hb 0 (by simp)
    rcases hc with rfl | ⟨hp, b2, h2⟩
    · exact ⟨((pos :: acc).reverse, none), by simp [Message.physical, h0]⟩
    · have hsp : specIsPtr b := (isPtr_iff b).mp hp
      unfold specIsPtr at hsp
      have hne : b ≠ 0 := by
        intro hc; subst hc
        have : (0 : UInt8).toNat = 0 := rfl
        omega
      simp only [encLen_nil, Nat.add_zero] at h2
      unfold Message.physical
      simp only [h0, hne, if_false, h2]
      rw [if_neg (by omega), if_pos hsp]
      exact ⟨_, rfl⟩
  | cons l ls ih =>
    intro pos fuel acc hok hb hc hf
    obtain ⟨f, rfl⟩ : ∃ f, fuel = f + 1 := ⟨fuel - 1, by simp at hf; omega⟩
    have hl := hok l List.mem_cons_self
    have hb' : BytesAt msg pos (WName.encLabel l ++ (ls.flatMap WName.encLabel ++ [b])) := by
      simpa [List.flatMap_cons, List.append_assoc] using hb
    obtain ⟨b1, b2⟩ := bytesAt_append hb'
    have h0 : msg[pos]? = some (UInt8.ofNat l.length) := by
      have := b1 0 (by simp [WName.encLabel])
      simpa [WName.encLabel] using this
    have hlen : (WName.encLabel l).length = l.length + 1 := by simp [WName.encLabel]
    rw [hlen] at b2
    have hne : UInt8.ofNat l.length ≠ 0 := by
      intro hc
      have := congrArg UInt8.toNat hc
      rw [encLabel_len_toNat hl.2] at this
      have h00 : (0 : UInt8).toNat = 0 := rfl
      omega
    obtain ⟨r, hr⟩ := ih (pos + l.length + 1) f (pos :: acc) (fun x hx => hok x (List.mem_cons_of_mem _ hx))
      (by rw [show pos + l.length + 1 = pos + (l.length + 1) by omega]; exact b2)
      (by
        rcases hc with h | ⟨hp, b2', h2⟩
        · exact Or.inl h
        · refine Or.inr ⟨hp, b2', ?_⟩
          rw [encLen_cons] at h2
          rw [show pos + l.length + 1 + encLen ls + 1 = pos + (1 + l.length + encLen ls) + 1 by omega]
          exact h2)
      (by simp at hf; omega)
    refine ⟨r, ?_⟩
    unfold Message.physical
    simp only [h0, hne, if_false, encLabel_len_toNat hl.2, hl.2, if_true]
    exact hr

/-- **an item holding a name is read by the specification's decoder** as a name that equals the
    name given up to ASCII case (octet for octet outside `Standard` mode), occupying the `k`
    octets of the item -/
theorem decodeNameAt_item {s : State} {a k : Nat} {m : CMode} {n : WName} (hw : WInv s) (hit : Item s a k)
    (hnm : NameIs s a m n) (place : Message.Where) (item : Nat) :
    ∃ w occ, Message.decodeNameAt (s.octets.extract 0 s.cursor) a place item = some (w, k, occ) ∧
      w.map lowerU8 = n.wire.map lowerU8 ∧ (m ≠ .standard → w = n.wire) := by
  obtain ⟨w, hd, hc, hx⟩ := item_decodes_name hw hit hnm
  obtain ⟨_, ⟨pre, b, hwf, hb, hk⟩, hle⟩ := hit
  have hcs : s.cursor ≤ s.octets.size := Nat.le_trans hw.cur_av hw.av_size
  have hsz := extract_size s.octets s.cursor hcs
  have hlen : (pre.flatMap WName.encLabel ++ [b]).length = encLen pre + 1 := by simp [encLen]
  have hbm : BytesAt (s.octets.extract 0 s.cursor) a (pre.flatMap WName.encLabel ++ [b]) :=
    bytesAt_extract_prefix hcs hb (by rw [hlen]; rcases hk with ⟨_, e⟩ | ⟨_, e⟩ <;> omega)
  -- the chunk is short: it is part of a name of at most 255 octets
  have hpl : pre.length < 130 := by
    have hd' := hd
    unfold specDecodeName at hd'
    cases hwk : specWalk (s.octets.extract 0 s.cursor)
        ((s.octets.extract 0 s.cursor).size * (s.octets.extract 0 s.cursor).size +
          (s.octets.extract 0 s.cursor).size + 2) a a with
    | none => rw [hwk] at hd'; cases hd'
    | some r =>
      obtain ⟨ls, k2⟩ := r
      rw [hwk] at hd'
      simp only at hd'
      split at hd'
      · rename_i h255
        have := specWalk_chunk_len _ a b pre a _ ls k2 hwf hbm hwk
        have h2 := flatMap_enc_length_ge2 pre hwf
        unfold encLen at this
        omega
      · cases hd'
  obtain ⟨r, hr⟩ := physical_chunk (s.octets.extract 0 s.cursor) b pre a 130 [] hwf hbm (by
    rcases hk with ⟨h0, _⟩ | ⟨hp, e⟩
    · exact Or.inl h0
    · refine Or.inr ⟨hp, ?_⟩
      have hi : a + encLen pre + 1 < (s.octets.extract 0 s.cursor).size := by rw [hsz]; omega
      exact ⟨(s.octets.extract 0 s.cursor)[a + encLen pre + 1], Array.getElem?_eq_getElem hi⟩) hpl
  unfold Message.decodeNameAt
  rw [hd, hr]
  exact ⟨w, _, rfl, hc, hx⟩

/-! ### RDATA -/

/-- a decoded RDATA field is the field given: octets equal, names equal up to ASCII case (octet for
    octet if `exact`) -/
inductive FieldMatch (exact : Prop) : Message.Field → Message.Field → Prop
  | name {g d : List UInt8} (h1 : g.map lowerU8 = d.map lowerU8) (h2 : exact → g = d) :
      FieldMatch exact (.name g) (.name d)
  | bytes (b : List UInt8) : FieldMatch exact (.bytes b) (.bytes b)

theorem all2_snoc {α β : Type} {R : α → β → Prop} {as : List α} {bs : List β} {a : α} {b : β}
    (h : All2 R as bs) (hab : R a b) : All2 R (as ++ [a]) (bs ++ [b]) :=
  h.append (.cons hab .nil)

/-- **RDATA reads back within a record**: where the parts of an RDATA lie (`RdAt`) the
    specification's decoder, expanding along the RFC layout, reads the fields of the RDATA given -/
theorem decodeFields_rdAt (s : State) (hw : WInv s) (item : Nat) (m : CMode) (stop : Nat)
    (hstop : stop ≤ s.cursor) :
    ∀ (lay : List Message.Lay) (rd : List UInt8) (pos : Nat) (fs : List Message.Field) (ns : List Message.NameOcc),
    RdAt s m (lay.map layToComp) rd pos stop →
    ∃ gf df ns', Message.givenFields lay rd = some gf ∧
      Message.decodeFields (s.octets.extract 0 s.cursor) item stop lay pos fs ns = some (fs.reverse ++ df, ns') ∧
      All2 (FieldMatch (m ≠ .standard)) gf df := by
  have hcs : s.cursor ≤ s.octets.size := Nat.le_trans hw.cur_av hw.av_size
  intro lay
  induction lay with
  | nil =>
    intro rd pos fs ns h
    simp only [List.map_nil, RdAt] at h
    obtain ⟨hb, he⟩ := h
    refine ⟨[.bytes rd], [.bytes rd], ns.reverse, rfl, ?_, .cons (.bytes rd) .nil⟩
    have hbm := bytesAt_extract_prefix hcs hb (by omega)
    unfold Message.decodeFields
    rw [if_pos (by omega), he, bytesAt_extract hbm]
    simp
  | cons l lay ih =>
    intro rd pos fs ns h
    cases l with
    | fixed n =>
      simp only [List.map_cons, layToComp, RdAt] at h
      obtain ⟨hn, hb, hrest⟩ := h
      have hle := rdAt_le hrest
      have htl : (rd.take n).length = n := by simp; omega
      have hbm := bytesAt_extract_prefix hcs hb (by rw [htl]; omega)
      have hex : ((s.octets.extract 0 s.cursor).extract pos (pos + n)).toList = rd.take n := by
        have := bytesAt_extract hbm; rw [htl] at this; exact this
      obtain ⟨gf, df, ns', hg, hd, hm⟩ := ih (rd.drop n) (pos + n) (.bytes (rd.take n) :: fs) ns hrest
      refine ⟨.bytes (rd.take n) :: gf, .bytes (rd.take n) :: df, ns', ?_, ?_, .cons (.bytes _) hm⟩
      · unfold Message.givenFields
        rw [if_neg (by omega), hg]; rfl
      · unfold Message.decodeFields
        rw [if_pos (by omega), hex, hd]
        simp
    | cname =>
      simp only [List.map_cons, layToComp, RdAt] at h
      obtain ⟨n, rest, k, hp, hit, hnm, hrest⟩ := h
      have hle := rdAt_le hrest
      have hc := parse_content hp
      have hwf := parse_wf hp
      subst hc
      obtain ⟨w, occ, hocc, hcase, hex⟩ := decodeNameAt_item hw hit hnm .rdataCompressible item
      obtain ⟨gf, df, ns', hg, hd, hm⟩ := ih rest (pos + k) (.name w :: fs) (occ :: ns) hrest
      refine ⟨.name n.wire :: gf, .name w :: df, ns', ?_, ?_, .cons (.name hcase.symm (fun h => (hex h).symm)) hm⟩
      · unfold Message.givenFields
        rw [takeName_wire n hwf rest]
        simp only [hg]; rfl
      · unfold Message.decodeFields
        simp only [hocc]
        rw [if_pos (by omega), hd]
        simp
    | uname =>
      simp only [List.map_cons, layToComp, RdAt] at h
      obtain ⟨n, rest, hp, hb, hrest⟩ := h
      have hle := rdAt_le hrest
      have hc := parse_content hp
      have hwf := parse_wf hp
      subst hc
      have hbm := bytesAt_extract_prefix hcs hb (by omega)
      obtain ⟨occ, hocc⟩ := decodeNameAt_wire (s.octets.extract 0 s.cursor) n hwf pos .rdataUncompressible item hbm
      obtain ⟨gf, df, ns', hg, hd, hm⟩ := ih rest (pos + n.wire.length) (.name n.wire :: fs) (occ :: ns) hrest
      refine ⟨.name n.wire :: gf, .name n.wire :: df, ns', ?_, ?_, .cons (.name rfl (fun _ => rfl)) hm⟩
      · unfold Message.givenFields
        rw [takeName_wire n hwf rest]
        simp only [hg]; rfl
      · unfold Message.decodeFields
        simp only [hocc]
        rw [if_pos (by omega), hd]
        simp


theorem fieldMatch_norm {ex : Prop} : ∀ {a b : List Message.Field}, All2 (FieldMatch ex) a b →
    All2 (FieldMatch ex) (Message.normFields a) (Message.normFields b) := by
  intro a b h
  induction h with
  | nil => exact .nil
  | cons hh _ ih =>
    cases hh with
    | name h1 h2 =>
      simp only [Message.normFields]
      exact .cons (.name h1 h2) ih
    | bytes x =>
      cases x with
      | nil => simp only [Message.normFields]; exact ih
      | cons c cs =>
        simp only [Message.normFields]
        rename_i ra rb _
        generalize Message.normFields ra = na at ih ⊢
        generalize Message.normFields rb = nb at ih ⊢
        cases ih with
        | nil => exact .cons (.bytes _) .nil
        | cons hx tx =>
          cases hx with
          | name h1 h2 => exact .cons (.bytes _) (.cons (.name h1 h2) tx)
          | bytes y => exact .cons (.bytes _) tx

/-- the RDATA of one record reads back: fields as the specification reads the RDATA given -/
theorem decodeRdata_rdAt (s : State) (hw : WInv s) (item : Nat) (m : CMode) (ty cls ty' cls' : Nat)
    (rd : List UInt8) (p len : Nat) (ts : List CompType) (hct : componentTypes cls ty = some ts)
    (hlay : Message.layoutOf ty' cls' = Message.layoutOf ty cls)
    (h : RdAt s m ts rd p (p + len)) (hstop : p + len ≤ s.cursor) :
    ∃ gf df ns, Message.givenRdata ty cls rd = some gf ∧
      Message.decodeRdata (s.octets.extract 0 s.cursor) item ty' cls' p len = some (df, ns) ∧
      All2 (FieldMatch (m ≠ .standard)) gf df := by
  rw [componentTypes_layout] at hct
  simp only [Option.some.injEq] at hct
  subst hct
  obtain ⟨gf, df, ns', hg, hd, hm⟩ := decodeFields_rdAt s hw item m (p + len) hstop (Message.layoutOf ty cls) rd p [] [] h
  refine ⟨Message.normFields gf, Message.normFields df, ns', by simp [Message.givenRdata, hg], ?_, fieldMatch_norm hm⟩
  unfold Message.decodeRdata
  simp only [hlay, hd, List.reverse_nil, List.nil_append]

/-- **RDATA names read back within a record**, in every compression mode: after a successful
    `add_rr` (message of at most 65535 octets so far) the record starts at the old cursor with an
    owner of `k` octets, RDLENGTH holds the number of octets after it, and the specification's
    decoder, expanding those octets along the RFC layout of the type, reads the fields of the RDATA
    given — embedded names decompressed, equal to those given up to ASCII case (octet for octet
    outside `Standard` mode), all other octets as given -/
theorem addRr_rdata_round_trip (hint : Hint) (owner : WName) (ty cls ttl : Nat) (rd : List UInt8) (s s' : State)
    (hw : WInv s) (hl : PtrLogOK s) (hwf : owner.WF) (hh : HintOK s hint owner)
    (h : addRr hint owner ty cls ttl rd s = (.ok (), s')) (hle : s'.cursor ≤ 65535) (item : Nat) :
    ∃ k len gf df ns, s.cursor + k + 10 + len = s'.cursor ∧
      (∃ w n, specDecodeName (s'.octets.extract 0 s'.cursor) s.cursor = some (w, n, k)) ∧
      be16 s'.octets (s.cursor + k + 8) = len ∧
      Message.givenRdata ty cls rd = some gf ∧
      Message.decodeRdata (s'.octets.extract 0 s'.cursor) item ty cls (s.cursor + k + 10) len = some (df, ns) ∧
      All2 (FieldMatch (s.mode ≠ .standard)) gf df := by
  obtain ⟨_, hok⟩ := sp_addRr (track := s.hv = some []) (s0 := s) (names := []) hint owner ty cls ttl rd hwf s
    ⟨[], _, none, recSt_init hw hl, hh⟩
  obtain ⟨p, hrec⟩ := hok () s' h
  obtain ⟨it, hch, hr, hm⟩ := addRr_itemC hint owner ty cls ttl rd s s' hw hl hwf hh h hle
  obtain ⟨ha, ⟨hit, _, _, hb, ts, hct, hrd⟩, hend⟩ := hch
  simp only [RChainC] at hend
  rw [hr] at hct hrd
  simp only at hct hrd
  rw [hm] at hrd
  obtain ⟨gf, df, ns, hg, hd, hfm⟩ := decodeRdata_rdAt s' hrec.winv item s.mode ty cls ty cls rd
    (it.a + it.k + 10) it.rdlen ts hct rfl hrd (by omega)
  rw [ha] at hit hb hd hend
  obtain ⟨w, n, hdn⟩ := item_decodes hrec.winv hit
  exact ⟨it.k, it.rdlen, gf, df, ns, hend, ⟨w, n, hdn⟩, hb, hg, hd, hfm⟩

/-! ### records and questions -/

theorem be32_of_bytesAt_mod {msg : Bytes} {pos n : Nat} (h : BytesAt msg pos (u32be n)) :
    be32 msg pos = n % 4294967296 := by
  have h0 := bytesAt_getD h (i := 0) (by simp [u32be])
  have h1 := bytesAt_getD h (i := 1) (by simp [u32be])
  have h2 := bytesAt_getD h (i := 2) (by simp [u32be])
  have h3 := bytesAt_getD h (i := 3) (by simp [u32be])
  simp only [Nat.add_zero] at h0
  unfold be32
  rw [h0, h1, h2, h3]
  simp only [u32be, List.getElem_cons_zero, List.getElem_cons_succ, UInt8.toNat_ofNat']
  omega

/-- a decoded record is the record given: owner, TYPE, CLASS, TTL and the RDATA field by field -/
def MRecMatch (it : RItC) (dr : Message.Record) : Prop :=
  dr.owner.map lowerU8 = it.r.owner.wire.map lowerU8 ∧ (it.m ≠ .standard → dr.owner = it.r.owner.wire) ∧
  dr.type = it.r.ty % 65536 ∧ dr.cls = it.r.cls % 65536 ∧ dr.ttl = it.r.ttl % 4294967296 ∧
  ∃ gf, Message.givenRdata it.r.ty it.r.cls it.r.rdata = some gf ∧
    All2 (FieldMatch (it.m ≠ .standard)) gf dr.rdata

def MQMatch (it : QItC) (dq : Message.Question) : Prop :=
  dq.qname.map lowerU8 = it.q.qname.wire.map lowerU8 ∧ (it.m ≠ .standard → dq.qname = it.q.qname.wire) ∧
  dq.qtype = it.q.qtype % 65536 ∧ dq.qclass = it.q.qclass % 65536

/-- TYPE and CLASS are 16-bit values, as far as the RDATA layout is concerned -/
def LayoutStable (r : RRec) : Prop :=
  Message.layoutOf (r.ty % 65536) (r.cls % 65536) = Message.layoutOf r.ty r.cls

theorem decodeQuestionsM_chainC (s : State) (hw : WInv s) :
    ∀ (qs : List QItC) (p e : Nat), QChainC s qs p e → e ≤ s.cursor →
      ∀ (acc : List Message.Question) (a : Message.Acc),
      ∃ l a', Message.decodeQuestions (s.octets.extract 0 s.cursor) qs.length p acc a =
          some (e, acc.reverse ++ l, a') ∧ All2 MQMatch qs l := by
  have hcs : s.cursor ≤ s.octets.size := Nat.le_trans hw.cur_av hw.av_size
  have hsz := extract_size s.octets s.cursor hcs
  intro qs
  induction qs with
  | nil =>
    intro p e h _ acc a
    simp only [QChainC] at h
    subst h
    exact ⟨[], a, by simp [Message.decodeQuestions], .nil⟩
  | cons x r ih =>
    intro p e h he acc a
    obtain ⟨h1, ⟨hit, hnm, hby⟩, h3⟩ := h
    subst h1
    have hle := qchainC_le h3
    obtain ⟨w, occ, hd, hcase, hex⟩ := decodeNameAt_item hw hit hnm .qname a.item
    have hl2 : ∀ y, (u16be y).length = 2 := fun _ => rfl
    obtain ⟨b1, b2⟩ := bytesAt_append hby
    rw [hl2] at b2
    have e1 : be16 (s.octets.extract 0 s.cursor) (x.a + x.k) = x.q.qtype % 65536 :=
      be16_of_bytesAt_mod (bytesAt_extract_prefix hcs b1 (by rw [hl2]; omega))
    have e2 : be16 (s.octets.extract 0 s.cursor) (x.a + x.k + 2) = x.q.qclass % 65536 :=
      be16_of_bytesAt_mod (bytesAt_extract_prefix hcs b2 (by rw [hl2]; omega))
    obtain ⟨l, a', hl, hfa⟩ := ih _ _ h3 he (⟨w, x.q.qtype % 65536, x.q.qclass % 65536⟩ :: acc)
      { extents := (x.a, x.a + x.k + 4) :: a.extents, names := occ :: a.names, item := a.item + 1 }
    refine ⟨⟨w, x.q.qtype % 65536, x.q.qclass % 65536⟩ :: l, a', ?_, .cons ⟨hcase, hex, rfl, rfl⟩ hfa⟩
    simp only [List.length_cons, Message.decodeQuestions, hd]
    rw [if_pos (by rw [hsz]; omega), e1, e2, hl]
    simp

theorem decodeRecordsM_chainC (s : State) (hw : WInv s) :
    ∀ (rs : List RItC) (p e : Nat), RChainC s rs p e → e ≤ s.cursor → (∀ it ∈ rs, LayoutStable it.r) →
      ∀ n, n ≤ rs.length → ∀ (acc : List Message.Record) (a : Message.Acc),
      ∃ l p' a', Message.decodeRecords (s.octets.extract 0 s.cursor) n p acc a = some (p', acc.reverse ++ l, a') ∧
        All2 MRecMatch (rs.take n) l ∧ RChainC s (rs.drop n) p' e := by
  have hcs : s.cursor ≤ s.octets.size := Nat.le_trans hw.cur_av hw.av_size
  have hsz := extract_size s.octets s.cursor hcs
  intro rs
  induction rs with
  | nil =>
    intro p e h _ _ n hn acc a
    have : n = 0 := by simpa using hn
    subst this
    exact ⟨[], p, a, by simp [Message.decodeRecords], .nil, h⟩
  | cons x r ih =>
    intro p e h he hst n hn acc a
    cases n with
    | zero => exact ⟨[], p, a, by simp [Message.decodeRecords], .nil, h⟩
    | succ n =>
      obtain ⟨h1, ⟨hit, hnm, hby, hb, ts, hct, hrd⟩, h4⟩ := h
      subst h1
      obtain ⟨w, occ, hd, hcase, hex⟩ := decodeNameAt_item hw hit hnm .owner a.item
      have hle := rchainC_le h4
      have hl2 : ∀ y, (u16be y).length = 2 := fun _ => rfl
      obtain ⟨b12, b3⟩ := bytesAt_append hby
      obtain ⟨b1, b2⟩ := bytesAt_append b12
      simp only [List.length_append, hl2] at b2 b3
      have e1 : be16 (s.octets.extract 0 s.cursor) (x.a + x.k) = x.r.ty % 65536 :=
        be16_of_bytesAt_mod (bytesAt_extract_prefix hcs b1 (by rw [hl2]; omega))
      have e2 : be16 (s.octets.extract 0 s.cursor) (x.a + x.k + 2) = x.r.cls % 65536 :=
        be16_of_bytesAt_mod (bytesAt_extract_prefix hcs b2 (by rw [hl2]; omega))
      have e3 : be32 (s.octets.extract 0 s.cursor) (x.a + x.k + 4) = x.r.ttl % 4294967296 :=
        be32_of_bytesAt_mod (bytesAt_extract_prefix hcs (by rw [show x.a + x.k + 4 = x.a + x.k + (2 + 2) by omega]; exact b3)
          (by show _ + 4 ≤ _; omega))
      have e8 : be16 (s.octets.extract 0 s.cursor) (x.a + x.k + 8) = x.rdlen := by
        rw [be16_extract _ _ _ hcs (by omega)]; exact hb
      obtain ⟨gf, df, ns, hgf, hdf, hfm⟩ := decodeRdata_rdAt s hw a.item x.m x.r.ty x.r.cls (x.r.ty % 65536)
        (x.r.cls % 65536) x.r.rdata (x.a + x.k + 10) x.rdlen ts hct (hst x List.mem_cons_self) hrd (by omega)
      obtain ⟨l, p', a', hl, hfa, hch⟩ := ih _ _ h4 he (fun it hx => hst it (List.mem_cons_of_mem _ hx)) n
        (by simpa using hn) (⟨w, x.r.ty % 65536, x.r.cls % 65536, x.r.ttl % 4294967296, df⟩ :: acc)
        { extents := (x.a, x.a + x.k + 10 + x.rdlen) :: a.extents,
          names := ns.reverse ++ (occ :: a.names), item := a.item + 1 }
      refine ⟨⟨w, x.r.ty % 65536, x.r.cls % 65536, x.r.ttl % 4294967296, df⟩ :: l, p', a', ?_,
        .cons ⟨hcase, hex, rfl, rfl, rfl, gf, hgf, hfm⟩ (by simpa using hfa), by simpa using hch⟩
      simp only [Message.decodeRecords, hd]
      rw [if_pos (by rw [hsz]; omega)]
      simp only [e1, e2, e3, e8]
      rw [if_pos (by rw [hsz]; omega)]
      simp only [hdf, hl]
      simp

end QV.Writer
