/-
  QV.Proofs.WriterMsgRefine — C12 (d) in every compression mode: the RFC 1035 decoder of the
  specification (`QV.Spec.Message.specDecodeMsg`: names decompressed, RDATA expanded along the RFC
  layouts) reads the finished message as the header, questions and records of the calls that
  succeeded, names up to ASCII case in `Standard` mode and octet for octet otherwise.

  Here: names (an item holding a name is read by `decodeNameAt`), RDATA (`decodeFields` along `RdAt`),
  records, questions, the whole message.
-/
import QV.Proofs.WriterContentDecode
import QV.Proofs.WriterBridge

namespace QV.Writer
open QV QV.Wire QV.Spec QV.ServerSafety

variable {P : CMode → Prop}

/-! ### names -/

theorem specWalk_pos (msg : Bytes) : ∀ (fuel a cs : Nat) (ls : List (List UInt8)) (k : Nat),
    specWalk msg fuel a cs = some (ls, k) → 1 ≤ ls.flatten.length := by
  intro fuel
  induction fuel with
  | zero => intro a cs ls k h; simp [specWalk] at h
  | succ f ih =>
    intro a cs ls k h
    unfold specWalk at h
    split at h
    · cases h
    · rename_i b hb
      split at h
      · simp only [Option.some.injEq, Prod.mk.injEq] at h
        rw [← h.1]; simp
      · split at h
        · split at h
          · split at h
            · rename_i ls' k' hrec
              simp only [Option.some.injEq, Prod.mk.injEq] at h
              have := ih _ _ _ _ hrec
              rw [← h.1, List.flatten_cons, List.length_append]; omega
            · cases h
          · cases h
        · split at h
          · split at h
            · cases h
            · simp only at h
              split at h
              · split at h
                · rename_i ls' k' hrec
                  simp only [Option.some.injEq, Prod.mk.injEq] at h
                  rw [← h.1]; exact ih _ _ _ _ hrec
                · cases h
              · cases h
          · cases h

/-- the literal labels of the chunk at `a` are part of the name the decoder reads there -/
theorem specWalk_chunk_len (msg : Bytes) (cs : Nat) (b : UInt8) : ∀ (pre : List Label) (a fuel : Nat)
    (ls : List (List UInt8)) (k : Nat), LabelsWF pre →
    BytesAt msg a (pre.flatMap WName.encLabel ++ [b]) → specWalk msg fuel a cs = some (ls, k) →
    encLen pre + 1 ≤ ls.flatten.length := by
  intro pre
  induction pre with
  | nil =>
    intro a fuel ls k _ _ hw
    have := specWalk_pos msg fuel a cs ls k hw
    simpa using this
  | cons l pre ih =>
    intro a fuel ls k hwf hb hw
    have hl := hwf l List.mem_cons_self
    cases fuel with
    | zero => simp [specWalk] at hw
    | succ f =>
      simp only [List.flatMap_cons, WName.encLabel, List.cons_append, List.append_assoc] at hb
      obtain ⟨hb0, hb1⟩ := bytesAt_cons hb
      have hb2 : BytesAt msg (a + 1 + l.length) (pre.flatMap WName.encLabel ++ [b]) := by
        have := (bytesAt_append (d := l) hb1).2
        exact this
      have hn : (UInt8.ofNat l.length).toNat = l.length := by rw [UInt8.toNat_ofNat']; omega
      have hne : UInt8.ofNat l.length ≠ 0 := by
        intro hc
        have := congrArg UInt8.toNat hc
        rw [hn] at this
        have h00 : (0 : UInt8).toNat = 0 := rfl
        omega
      unfold specWalk at hw
      simp only [hb0, hne, if_false, hn, hl.2, if_true] at hw
      split at hw
      · rename_i hin
        cases h2 : specWalk msg f (a + l.length + 1) cs with
        | none => rw [h2] at hw; cases hw
        | some r =>
          obtain ⟨ls', k'⟩ := r
          rw [h2] at hw
          simp only [Option.some.injEq, Prod.mk.injEq] at hw
          have := ih (a + 1 + l.length) f ls' k' (fun x hx => hwf x (List.mem_cons_of_mem _ hx)) hb2
            (by rw [show a + 1 + l.length = a + l.length + 1 by omega]; exact h2)
          rw [encLen_cons, ← hw.1, List.flatten_cons, List.length_append]
          have he : (msg.extract a (a + l.length + 1)).toList.length = l.length + 1 := by
            simp; omega
          omega
      · cases hw

theorem physical_chunk (msg : Bytes) (b : UInt8) : ∀ (ls : List Label) (pos fuel : Nat) (acc : List Nat),
    LabelsWF ls → BytesAt msg pos (ls.flatMap WName.encLabel ++ [b]) →
    (b = 0 ∨ (isPtr b = true ∧ ∃ b2, msg[pos + encLen ls + 1]? = some b2)) → ls.length < fuel →
    ∃ r, Message.physical msg fuel pos acc = some r := by
  intro ls
  induction ls with
  | nil =>
    intro pos fuel acc _ hb hc hf
    obtain ⟨f, rfl⟩ : ∃ f, fuel = f + 1 := ⟨fuel - 1, by simp at hf; omega⟩
    have h0 : msg[pos]? = some b := by simpa using hb 0 (by simp)
    rcases hc with rfl | ⟨hp, b2, h2⟩
    · exact ⟨((pos :: acc).reverse, none), by simp [Message.physical, h0]⟩
    · have hsp : specIsPtr b := (isPtr_iff b).mp hp
      unfold specIsPtr at hsp
      have hne : b ≠ 0 := by
        intro hc; subst hc
        have : (0 : UInt8).toNat = 0 := rfl
        omega
      simp only [encLen_nil, Nat.add_zero] at h2
      unfold Message.physical
      simp only [h0, hne, if_false, h2]
      rw [if_neg (by omega), if_pos hsp]
      exact ⟨_, rfl⟩
  | cons l ls ih =>
    intro pos fuel acc hok hb hc hf
    obtain ⟨f, rfl⟩ : ∃ f, fuel = f + 1 := ⟨fuel - 1, by simp at hf; omega⟩
    have hl := hok l List.mem_cons_self
    have hb' : BytesAt msg pos (WName.encLabel l ++ (ls.flatMap WName.encLabel ++ [b])) := by
      simpa [List.flatMap_cons, List.append_assoc] using hb
    obtain ⟨b1, b2⟩ := bytesAt_append hb'
    have h0 : msg[pos]? = some (UInt8.ofNat l.length) := by
      have := b1 0 (by simp [WName.encLabel])
      simpa [WName.encLabel] using this
    have hlen : (WName.encLabel l).length = l.length + 1 := by simp [WName.encLabel]
    rw [hlen] at b2
    have hne : UInt8.ofNat l.length ≠ 0 := by
      intro hc
      have := congrArg UInt8.toNat hc
      rw [encLabel_len_toNat hl.2] at this
      have h00 : (0 : UInt8).toNat = 0 := rfl
      omega
    obtain ⟨r, hr⟩ := ih (pos + l.length + 1) f (pos :: acc) (fun x hx => hok x (List.mem_cons_of_mem _ hx))
      (by rw [show pos + l.length + 1 = pos + (l.length + 1) by omega]; exact b2)
      (by
        rcases hc with h | ⟨hp, b2', h2⟩
        · exact Or.inl h
        · refine Or.inr ⟨hp, b2', ?_⟩
          rw [encLen_cons] at h2
          rw [show pos + l.length + 1 + encLen ls + 1 = pos + (1 + l.length + encLen ls) + 1 by omega]
          exact h2)
      (by simp at hf; omega)
    refine ⟨r, ?_⟩
    unfold Message.physical
    simp only [h0, hne, if_false, encLabel_len_toNat hl.2, hl.2, if_true]
    exact hr

/-- what the physical walk finds where literal labels are followed by a root label or a pointer:
    the starts of those labels (and of the root label), and the pointer -/
theorem physical_inv (msg : Bytes) (b : UInt8) : ∀ (ls : List Label) (pos fuel : Nat) (acc : List Nat)
    (r : List Nat × Option (Nat × Nat)),
    LabelsWF ls → BytesAt msg pos (ls.flatMap WName.encLabel ++ [b]) → (b = 0 ∨ isPtr b = true) →
    Message.physical msg fuel pos acc = some r →
    r.1 = acc.reverse ++ chunkLabs pos ls b ∧ (b = 0 → r.2 = none) ∧
      (isPtr b = true → ∃ b2, msg[pos + encLen ls + 1]? = some b2 ∧ r.2 = some (pos + encLen ls, ptrOf b b2)) := by
  intro ls
  induction ls with
  | nil =>
    intro pos fuel acc r _ hb hc h
    obtain ⟨f, rfl⟩ : ∃ f, fuel = f + 1 := by
      cases fuel with
      | zero => simp [Message.physical] at h
      | succ f => exact ⟨f, rfl⟩
    have h0 : msg[pos]? = some b := by simpa using hb 0 (by simp)
    rcases hc with rfl | hp
    · simp only [Message.physical, h0, if_true] at h
      cases h
      refine ⟨by simp [chunkLabs, labelStartsFrom], fun _ => rfl, fun hx => absurd hx (by decide)⟩
    · have hsp : specIsPtr b := (isPtr_iff b).mp hp
      have hsp' := hsp
      unfold specIsPtr at hsp'
      have hne : b ≠ 0 := by
        intro hc; subst hc
        have : (0 : UInt8).toNat = 0 := rfl
        omega
      unfold Message.physical at h
      simp only [h0, hne, if_false] at h
      rw [if_neg (by omega), if_pos hsp'] at h
      cases h2 : msg[pos + 1]? with
      | none => rw [h2] at h; cases h
      | some b2 =>
        rw [h2] at h
        cases h
        refine ⟨by simp [chunkLabs, labelStartsFrom, hne], fun hx => absurd hx hne, fun _ => ⟨b2, by simpa using h2, ?_⟩⟩
        simp only [encLen_nil, Nat.add_zero]
        rw [ptrOf_eq b b2 hsp]; rfl
  | cons l ls ih =>
    intro pos fuel acc r hok hb hc h
    obtain ⟨f, rfl⟩ : ∃ f, fuel = f + 1 := by
      cases fuel with
      | zero => simp [Message.physical] at h
      | succ f => exact ⟨f, rfl⟩
    have hl := hok l List.mem_cons_self
    have hb' : BytesAt msg pos (WName.encLabel l ++ (ls.flatMap WName.encLabel ++ [b])) := by
      simpa [List.flatMap_cons, List.append_assoc] using hb
    obtain ⟨b1, b2⟩ := bytesAt_append hb'
    have h0 : msg[pos]? = some (UInt8.ofNat l.length) := by
      have := b1 0 (by simp [WName.encLabel])
      simpa [WName.encLabel] using this
    have hlen : (WName.encLabel l).length = l.length + 1 := by simp [WName.encLabel]
    rw [hlen] at b2
    have hne : UInt8.ofNat l.length ≠ 0 := label_len_ne_zero hl
    unfold Message.physical at h
    simp only [h0, hne, if_false, encLabel_len_toNat hl.2, hl.2, if_true] at h
    obtain ⟨e1, e2, e3⟩ := ih (pos + l.length + 1) f (pos :: acc) r (fun x hx => hok x (List.mem_cons_of_mem _ hx))
      (by rw [show pos + l.length + 1 = pos + (l.length + 1) by omega]; exact b2) hc h
    refine ⟨?_, e2, fun hp => ?_⟩
    · rw [e1]
      simp only [chunkLabs, labelStartsFrom, List.reverse_cons, List.append_assoc, List.cons_append,
        List.nil_append, encLen_cons]
      rw [show pos + l.length + 1 + encLen ls = pos + (1 + l.length + encLen ls) by omega]
    · obtain ⟨b2', x1, x2⟩ := e3 hp
      refine ⟨b2', ?_, ?_⟩
      · rw [encLen_cons, show pos + (1 + l.length + encLen ls) + 1 = pos + l.length + 1 + encLen ls + 1 by omega]
        exact x1
      · rw [x2, encLen_cons, show pos + l.length + 1 + encLen ls = pos + (1 + l.length + encLen ls) by omega]

/-- a decoded name occurrence is the name at the position `pr.1`, of the item with index `pr.2`,
    described as the physical walk finds it; inside RDATA that must not be compressed it has no
    pointer -/
def Occ (msg : Bytes) (pr : Nat × Nat) (o : Message.NameOcc) : Prop :=
  o.start = pr.1 ∧ o.item = pr.2 ∧ Message.physical msg 130 pr.1 [] = some (o.labelStarts, o.ptr) ∧
  (o.place = .rdataUncompressible → o.ptr = none)

theorem decodeNameAt_occ {msg : Bytes} {a : Nat} {place : Message.Where} {item : Nat} {w : List UInt8} {k : Nat}
    {occ : Message.NameOcc} (h : Message.decodeNameAt msg a place item = some (w, k, occ)) :
    occ.start = a ∧ occ.item = item ∧ occ.place = place ∧
      Message.physical msg 130 a [] = some (occ.labelStarts, occ.ptr) := by
  unfold Message.decodeNameAt at h
  split at h
  · rename_i w' x k' ls p h1 h2
    simp only [Option.some.injEq, Prod.mk.injEq] at h
    obtain ⟨_, _, h3⟩ := h
    subst h3
    exact ⟨rfl, rfl, rfl, h2⟩
  · cases h

/-- **an item holding a name is read by the specification's decoder** as a name that equals the
    name given up to ASCII case (octet for octet outside `Standard` mode), occupying the `k`
    octets of the item -/
theorem decodeNameAt_item {s : State} {a k : Nat} {m : CMode} {n : WName} (hw : WInv s) (hit : Item s a k)
    (hnm : NameIs s a m n) (place : Message.Where) (item : Nat) :
    ∃ w occ, Message.decodeNameAt (s.octets.extract 0 s.cursor) a place item = some (w, k, occ) ∧
      w.map lowerU8 = n.wire.map lowerU8 ∧ (m ≠ .standard → w = n.wire) := by
  obtain ⟨w, hd, hc, hx⟩ := item_decodes_name hw hit hnm
  obtain ⟨_, ⟨pre, b, hwf, hb, hk⟩, hle⟩ := hit
  have hcs : s.cursor ≤ s.octets.size := Nat.le_trans hw.cur_av hw.av_size
  have hsz := extract_size s.octets s.cursor hcs
  have hlen : (pre.flatMap WName.encLabel ++ [b]).length = encLen pre + 1 := by simp [encLen]
  have hbm : BytesAt (s.octets.extract 0 s.cursor) a (pre.flatMap WName.encLabel ++ [b]) :=
    bytesAt_extract_prefix hcs hb (by rw [hlen]; rcases hk with ⟨_, e⟩ | ⟨_, e⟩ <;> omega)
  -- the chunk is short: it is part of a name of at most 255 octets
  have hpl : pre.length < 130 := by
    have hd' := hd
    unfold specDecodeName at hd'
    cases hwk : specWalk (s.octets.extract 0 s.cursor)
        ((s.octets.extract 0 s.cursor).size * (s.octets.extract 0 s.cursor).size +
          (s.octets.extract 0 s.cursor).size + 2) a a with
    | none => rw [hwk] at hd'; cases hd'
    | some r =>
      obtain ⟨ls, k2⟩ := r
      rw [hwk] at hd'
      simp only at hd'
      split at hd'
      · rename_i h255
        have := specWalk_chunk_len _ a b pre a _ ls k2 hwf hbm hwk
        have h2 := flatMap_enc_length_ge2 pre hwf
        unfold encLen at this
        omega
      · cases hd'
  obtain ⟨r, hr⟩ := physical_chunk (s.octets.extract 0 s.cursor) b pre a 130 [] hwf hbm (by
    rcases hk with ⟨h0, _⟩ | ⟨hp, e⟩
    · exact Or.inl h0
    · refine Or.inr ⟨hp, ?_⟩
      have hi : a + encLen pre + 1 < (s.octets.extract 0 s.cursor).size := by rw [hsz]; omega
      exact ⟨(s.octets.extract 0 s.cursor)[a + encLen pre + 1], Array.getElem?_eq_getElem hi⟩) hpl
  unfold Message.decodeNameAt
  rw [hd, hr]
  exact ⟨w, _, rfl, hc, hx⟩

/-! ### RDATA -/

/-- a decoded RDATA field is the field given: octets equal, names equal up to ASCII case (octet for
    octet if `exact`) -/
inductive FieldMatch (exact : Prop) : Message.Field → Message.Field → Prop
  | name {g d : List UInt8} (h1 : g.map lowerU8 = d.map lowerU8) (h2 : exact → g = d) :
      FieldMatch exact (.name g) (.name d)
  | bytes (b : List UInt8) : FieldMatch exact (.bytes b) (.bytes b)

theorem all2_snoc {α β : Type} {R : α → β → Prop} {as : List α} {bs : List β} {a : α} {b : β}
    (h : All2 R as bs) (hab : R a b) : All2 R (as ++ [a]) (bs ++ [b]) :=
  h.append (.cons hab .nil)

/-- **RDATA reads back within a record**: where the parts of an RDATA lie (`RdAt`) the
    specification's decoder, expanding along the RFC layout, reads the fields of the RDATA given -/
theorem decodeFields_rdAt (s : State) (hw : WInv s) (item : Nat) (m : CMode) (stop : Nat)
    (hstop : stop ≤ s.cursor) :
    ∀ (lay : List Message.Lay) (rd : List UInt8) (pos : Nat) (fs : List Message.Field) (ns : List Message.NameOcc)
      (ps : List Nat),
    RdAt s m (lay.map layToComp) rd pos stop ps →
    ∃ gf df nl, Message.givenFields lay rd = some gf ∧
      Message.decodeFields (s.octets.extract 0 s.cursor) item stop lay pos fs ns = some (fs.reverse ++ df, ns.reverse ++ nl) ∧
      All2 (FieldMatch (m ≠ .standard)) gf df ∧
      All2 (Occ (s.octets.extract 0 s.cursor)) (ps.map (·, item)) nl := by
  have hcs : s.cursor ≤ s.octets.size := Nat.le_trans hw.cur_av hw.av_size
  intro lay
  induction lay with
  | nil =>
    intro rd pos fs ns ps h
    simp only [List.map_nil, RdAt] at h
    obtain ⟨hb, he, hps⟩ := h
    subst hps
    refine ⟨[.bytes rd], [.bytes rd], [], rfl, ?_, .cons (.bytes rd) .nil, .nil⟩
    have hbm := bytesAt_extract_prefix hcs hb (by omega)
    unfold Message.decodeFields
    rw [if_pos (by omega), he, bytesAt_extract hbm]
    simp
  | cons l lay ih =>
    intro rd pos fs ns ps h
    cases l with
    | fixed n =>
      simp only [List.map_cons, layToComp, RdAt] at h
      obtain ⟨hn, hb, hrest⟩ := h
      have hle := rdAt_le hrest
      have htl : (rd.take n).length = n := by simp; omega
      have hbm := bytesAt_extract_prefix hcs hb (by rw [htl]; omega)
      have hex : ((s.octets.extract 0 s.cursor).extract pos (pos + n)).toList = rd.take n := by
        have := bytesAt_extract hbm; rw [htl] at this; exact this
      obtain ⟨gf, df, nl, hg, hd, hm, hocc⟩ := ih (rd.drop n) (pos + n) (.bytes (rd.take n) :: fs) ns ps hrest
      refine ⟨.bytes (rd.take n) :: gf, .bytes (rd.take n) :: df, nl, ?_, ?_, .cons (.bytes _) hm, hocc⟩
      · unfold Message.givenFields
        rw [if_neg (by omega), hg]; rfl
      · unfold Message.decodeFields
        rw [if_pos (by omega), hex, hd]
        simp
    | cname =>
      simp only [List.map_cons, layToComp, RdAt] at h
      obtain ⟨n, rest, k, hp, hit, hnm, ps', hps, hrest⟩ := h
      subst hps
      have hle := rdAt_le hrest
      have hc := parse_content hp
      have hwf := parse_wf hp
      subst hc
      obtain ⟨w, occ, hocc, hcase, hex⟩ := decodeNameAt_item hw hit hnm .rdataCompressible item
      obtain ⟨o1, o2, o3, o4⟩ := decodeNameAt_occ hocc
      obtain ⟨gf, df, nl, hg, hd, hm, hoccs⟩ := ih rest (pos + k) (.name w :: fs) (occ :: ns) ps' hrest
      refine ⟨.name n.wire :: gf, .name w :: df, occ :: nl, ?_, ?_, .cons (.name hcase.symm (fun h => (hex h).symm)) hm,
        .cons ⟨o1, o2, o4, fun hx => by rw [o3] at hx; cases hx⟩ hoccs⟩
      · unfold Message.givenFields
        rw [takeName_wire n hwf rest]
        simp only [hg]; rfl
      · unfold Message.decodeFields
        simp only [hocc]
        rw [if_pos (by omega), hd]
        simp
    | uname =>
      simp only [List.map_cons, layToComp, RdAt] at h
      obtain ⟨n, rest, hp, hb, ps', hps, hrest⟩ := h
      subst hps
      have hle := rdAt_le hrest
      have hc := parse_content hp
      have hwf := parse_wf hp
      subst hc
      have hbm := bytesAt_extract_prefix hcs hb (by omega)
      obtain ⟨occ, hocc⟩ := decodeNameAt_wire (s.octets.extract 0 s.cursor) n hwf pos .rdataUncompressible item hbm
      obtain ⟨o1, o2, o3, o4⟩ := decodeNameAt_occ hocc
      have hnone : occ.ptr = none :=
        (physical_inv _ 0 n.labels pos 130 [] _ (fun l hl => hwf.1 l hl) (by simpa [WName.wire] using hbm)
          (Or.inl rfl) o4).2.1 rfl
      obtain ⟨gf, df, nl, hg, hd, hm, hoccs⟩ := ih rest (pos + n.wire.length) (.name n.wire :: fs) (occ :: ns) ps' hrest
      refine ⟨.name n.wire :: gf, .name n.wire :: df, occ :: nl, ?_, ?_, .cons (.name rfl (fun _ => rfl)) hm,
        .cons ⟨o1, o2, o4, fun _ => hnone⟩ hoccs⟩
      · unfold Message.givenFields
        rw [takeName_wire n hwf rest]
        simp only [hg]; rfl
      · unfold Message.decodeFields
        simp only [hocc]
        rw [if_pos (by omega), hd]
        simp


theorem fieldMatch_norm {ex : Prop} : ∀ {a b : List Message.Field}, All2 (FieldMatch ex) a b →
    All2 (FieldMatch ex) (Message.normFields a) (Message.normFields b) := by
  intro a b h
  induction h with
  | nil => exact .nil
  | cons hh _ ih =>
    cases hh with
    | name h1 h2 =>
      simp only [Message.normFields]
      exact .cons (.name h1 h2) ih
    | bytes x =>
      cases x with
      | nil => simp only [Message.normFields]; exact ih
      | cons c cs =>
        simp only [Message.normFields]
        rename_i ra rb _
        generalize Message.normFields ra = na at ih ⊢
        generalize Message.normFields rb = nb at ih ⊢
        cases ih with
        | nil => exact .cons (.bytes _) .nil
        | cons hx tx =>
          cases hx with
          | name h1 h2 => exact .cons (.bytes _) (.cons (.name h1 h2) tx)
          | bytes y => exact .cons (.bytes _) tx

/-- the RDATA of one record reads back: fields as the specification reads the RDATA given -/
theorem decodeRdata_rdAt (s : State) (hw : WInv s) (item : Nat) (m : CMode) (ty cls ty' cls' : Nat)
    (rd : List UInt8) (p len : Nat) (ts : List CompType) (hct : componentTypes cls ty = some ts)
    (hlay : Message.layoutOf ty' cls' = Message.layoutOf ty cls)
    {ps : List Nat} (h : RdAt s m ts rd p (p + len) ps) (hstop : p + len ≤ s.cursor) :
    ∃ gf df ns, Message.givenRdata ty cls rd = some gf ∧
      Message.decodeRdata (s.octets.extract 0 s.cursor) item ty' cls' p len = some (df, ns) ∧
      All2 (FieldMatch (m ≠ .standard)) gf df ∧
      All2 (Occ (s.octets.extract 0 s.cursor)) (ps.map (·, item)) ns := by
  rw [componentTypes_layout] at hct
  simp only [Option.some.injEq] at hct
  subst hct
  obtain ⟨gf, df, ns', hg, hd, hm, hocc⟩ :=
    decodeFields_rdAt s hw item m (p + len) hstop (Message.layoutOf ty cls) rd p [] [] ps h
  refine ⟨Message.normFields gf, Message.normFields df, ns', by simp [Message.givenRdata, hg], ?_, fieldMatch_norm hm,
    hocc⟩
  unfold Message.decodeRdata
  simp only [hlay, hd, List.reverse_nil, List.nil_append]

/-- **RDATA names read back within a record**, in every compression mode: after a successful
    `add_rr` (message of at most 65535 octets so far) the record starts at the old cursor with an
    owner of `k` octets, RDLENGTH holds the number of octets after it, and the specification's
    decoder, expanding those octets along the RFC layout of the type, reads the fields of the RDATA
    given — embedded names decompressed, equal to those given up to ASCII case (octet for octet
    outside `Standard` mode), all other octets as given -/
theorem addRr_rdata_round_trip (hint : Hint) (owner : WName) (ty cls ttl : Nat) (rd : List UInt8) (s s' : State)
    (hw : WInv s) (hl : PtrLogOK s) (hwf : owner.WF) (hh : HintOK s hint owner)
    (h : addRr hint owner ty cls ttl rd s = (.ok (), s')) (hle : s'.cursor ≤ 65535) (item : Nat) :
    ∃ k len gf df ns, s.cursor + k + 10 + len = s'.cursor ∧
      (∃ w n, specDecodeName (s'.octets.extract 0 s'.cursor) s.cursor = some (w, n, k)) ∧
      be16 s'.octets (s.cursor + k + 8) = len ∧
      Message.givenRdata ty cls rd = some gf ∧
      Message.decodeRdata (s'.octets.extract 0 s'.cursor) item ty cls (s.cursor + k + 10) len = some (df, ns) ∧
      All2 (FieldMatch (s.mode ≠ .standard)) gf df := by
  obtain ⟨_, hok⟩ := sp_addRr (track := s.hv = some []) (s0 := s) (names := []) hint owner ty cls ttl rd hwf s
    ⟨[], _, none, recSt_init hw hl, hh⟩
  obtain ⟨p, hrec⟩ := hok () s' h
  obtain ⟨it, hch, hr, hm, _⟩ := addRr_itemC hint owner ty cls ttl rd s s' hw hl hwf hh h hle
  obtain ⟨ha, ⟨hit, _, _, hb, ts, hct, hrd⟩, hend⟩ := hch
  simp only [RChainC] at hend
  rw [hr] at hct hrd
  simp only at hct hrd
  rw [hm] at hrd
  obtain ⟨gf, df, ns, hg, hd, hfm, _⟩ := decodeRdata_rdAt s' hrec.winv item s.mode ty cls ty cls rd
    (it.a + it.k + 10) it.rdlen ts hct rfl hrd (by omega)
  rw [ha] at hit hb hd hend
  obtain ⟨w, n, hdn⟩ := item_decodes hrec.winv hit
  exact ⟨it.k, it.rdlen, gf, df, ns, hend, ⟨w, n, hdn⟩, hb, hg, hd, hfm⟩

/-! ### records and questions -/

theorem be32_of_bytesAt_mod {msg : Bytes} {pos n : Nat} (h : BytesAt msg pos (u32be n)) :
    be32 msg pos = n % 4294967296 := by
  have h0 := bytesAt_getD h (i := 0) (by simp [u32be])
  have h1 := bytesAt_getD h (i := 1) (by simp [u32be])
  have h2 := bytesAt_getD h (i := 2) (by simp [u32be])
  have h3 := bytesAt_getD h (i := 3) (by simp [u32be])
  simp only [Nat.add_zero] at h0
  unfold be32
  rw [h0, h1, h2, h3]
  simp only [u32be, List.getElem_cons_zero, List.getElem_cons_succ, UInt8.toNat_ofNat']
  omega

/-- a decoded record is the record given: owner, TYPE, CLASS, TTL and the RDATA field by field -/
def MRecMatch (it : RItC) (dr : Message.Record) : Prop :=
  dr.owner.map lowerU8 = it.r.owner.wire.map lowerU8 ∧ (it.m ≠ .standard → dr.owner = it.r.owner.wire) ∧
  dr.type = it.r.ty % 65536 ∧ dr.cls = it.r.cls % 65536 ∧ dr.ttl = it.r.ttl % 4294967296 ∧
  ∃ gf, Message.givenRdata it.r.ty it.r.cls it.r.rdata = some gf ∧
    All2 (FieldMatch (it.m ≠ .standard)) gf dr.rdata

def MQMatch (it : QItC) (dq : Message.Question) : Prop :=
  dq.qname.map lowerU8 = it.q.qname.wire.map lowerU8 ∧ (it.m ≠ .standard → dq.qname = it.q.qname.wire) ∧
  dq.qtype = it.q.qtype % 65536 ∧ dq.qclass = it.q.qclass % 65536

/-- TYPE and CLASS are 16-bit values, as far as the RDATA layout is concerned -/
def LayoutStable (r : RRec) : Prop :=
  Message.layoutOf (r.ty % 65536) (r.cls % 65536) = Message.layoutOf r.ty r.cls

/-- the name positions of the questions, with the index of the question -/
def qPairs (i : Nat) : List QItC → List (Nat × Nat)
  | [] => []
  | it :: r => (it.a, i) :: qPairs (i + 1) r

/-- the name positions of the records (owner, then the names inside the RDATA), with the index of
    the record -/
def rPairs (i : Nat) : List RItC → List (Nat × Nat)
  | [] => []
  | it :: r => ((it.a :: it.ps).map (·, i)) ++ rPairs (i + 1) r

theorem rPairs_append (i : Nat) (x y : List RItC) : rPairs i (x ++ y) = rPairs i x ++ rPairs (i + x.length) y := by
  induction x generalizing i with
  | nil => simp [rPairs]
  | cons a r ih =>
    simp only [List.cons_append, rPairs, ih, List.length_cons, List.append_assoc]
    rw [show i + 1 + r.length = i + (r.length + 1) by omega]

theorem decodeQuestionsM_chainC (s : State) (hw : WInv s) :
    ∀ (qs : List QItC) (p e : Nat), QChainC s qs p e → e ≤ s.cursor →
      ∀ (acc : List Message.Question) (a : Message.Acc),
      ∃ l a', Message.decodeQuestions (s.octets.extract 0 s.cursor) qs.length p acc a =
          some (e, acc.reverse ++ l, a') ∧ All2 MQMatch qs l ∧
          a'.extents = (qs.map fun it => (it.a, it.a + it.k + 4)).reverse ++ a.extents ∧
          a'.item = a.item + qs.length ∧
          ∃ nl, a'.names = nl.reverse ++ a.names ∧ All2 (Occ (s.octets.extract 0 s.cursor)) (qPairs a.item qs) nl := by
  have hcs : s.cursor ≤ s.octets.size := Nat.le_trans hw.cur_av hw.av_size
  have hsz := extract_size s.octets s.cursor hcs
  intro qs
  induction qs with
  | nil =>
    intro p e h _ acc a
    simp only [QChainC] at h
    subst h
    exact ⟨[], a, by simp [Message.decodeQuestions], .nil, by simp, rfl, [], rfl, .nil⟩
  | cons x r ih =>
    intro p e h he acc a
    obtain ⟨h1, ⟨hit, hnm, hby⟩, h3⟩ := h
    subst h1
    have hle := qchainC_le h3
    obtain ⟨w, occ, hd, hcase, hex⟩ := decodeNameAt_item hw hit hnm .qname a.item
    have hl2 : ∀ y, (u16be y).length = 2 := fun _ => rfl
    obtain ⟨b1, b2⟩ := bytesAt_append hby
    rw [hl2] at b2
    have e1 : be16 (s.octets.extract 0 s.cursor) (x.a + x.k) = x.q.qtype % 65536 :=
      be16_of_bytesAt_mod (bytesAt_extract_prefix hcs b1 (by rw [hl2]; omega))
    have e2 : be16 (s.octets.extract 0 s.cursor) (x.a + x.k + 2) = x.q.qclass % 65536 :=
      be16_of_bytesAt_mod (bytesAt_extract_prefix hcs b2 (by rw [hl2]; omega))
    obtain ⟨o1, o2, o3, o4⟩ := decodeNameAt_occ hd
    obtain ⟨l, a', hl, hfa, hext, hitem, nl, hnl, hocc⟩ := ih _ _ h3 he (⟨w, x.q.qtype % 65536, x.q.qclass % 65536⟩ :: acc)
      { extents := (x.a, x.a + x.k + 4) :: a.extents, names := occ :: a.names, item := a.item + 1 }
    refine ⟨⟨w, x.q.qtype % 65536, x.q.qclass % 65536⟩ :: l, a', ?_, .cons ⟨hcase, hex, rfl, rfl⟩ hfa,
      by rw [hext]; simp, by rw [hitem]; simp; omega, occ :: nl, by rw [hnl]; simp,
      .cons ⟨o1, o2, o4, fun hx => by rw [o3] at hx; cases hx⟩ hocc⟩
    simp only [List.length_cons, Message.decodeQuestions, hd]
    rw [if_pos (by rw [hsz]; omega), e1, e2, hl]
    simp

theorem decodeRecordsM_chainC (s : State) (hw : WInv s) :
    ∀ (rs : List RItC) (p e : Nat), RChainC s rs p e → e ≤ s.cursor → (∀ it ∈ rs, LayoutStable it.r) →
      ∀ n, n ≤ rs.length → ∀ (acc : List Message.Record) (a : Message.Acc),
      ∃ l p' a', Message.decodeRecords (s.octets.extract 0 s.cursor) n p acc a = some (p', acc.reverse ++ l, a') ∧
        All2 MRecMatch (rs.take n) l ∧ RChainC s (rs.drop n) p' e ∧
        a'.extents = ((rs.take n).map fun it => (it.a, it.a + it.k + 10 + it.rdlen)).reverse ++ a.extents ∧
        a'.item = a.item + n ∧
        ∃ nl, a'.names = nl.reverse ++ a.names ∧
          All2 (Occ (s.octets.extract 0 s.cursor)) (rPairs a.item (rs.take n)) nl := by
  have hcs : s.cursor ≤ s.octets.size := Nat.le_trans hw.cur_av hw.av_size
  have hsz := extract_size s.octets s.cursor hcs
  intro rs
  induction rs with
  | nil =>
    intro p e h _ _ n hn acc a
    have : n = 0 := by simpa using hn
    subst this
    exact ⟨[], p, a, by simp [Message.decodeRecords], .nil, h, by simp, rfl, [], rfl, .nil⟩
  | cons x r ih =>
    intro p e h he hst n hn acc a
    cases n with
    | zero => exact ⟨[], p, a, by simp [Message.decodeRecords], .nil, h, by simp, rfl, [], rfl, .nil⟩
    | succ n =>
      obtain ⟨h1, ⟨hit, hnm, hby, hb, ts, hct, hrd⟩, h4⟩ := h
      subst h1
      obtain ⟨w, occ, hd, hcase, hex⟩ := decodeNameAt_item hw hit hnm .owner a.item
      have hle := rchainC_le h4
      have hl2 : ∀ y, (u16be y).length = 2 := fun _ => rfl
      obtain ⟨b12, b3⟩ := bytesAt_append hby
      obtain ⟨b1, b2⟩ := bytesAt_append b12
      simp only [List.length_append, hl2] at b2 b3
      have e1 : be16 (s.octets.extract 0 s.cursor) (x.a + x.k) = x.r.ty % 65536 :=
        be16_of_bytesAt_mod (bytesAt_extract_prefix hcs b1 (by rw [hl2]; omega))
      have e2 : be16 (s.octets.extract 0 s.cursor) (x.a + x.k + 2) = x.r.cls % 65536 :=
        be16_of_bytesAt_mod (bytesAt_extract_prefix hcs b2 (by rw [hl2]; omega))
      have e3 : be32 (s.octets.extract 0 s.cursor) (x.a + x.k + 4) = x.r.ttl % 4294967296 :=
        be32_of_bytesAt_mod (bytesAt_extract_prefix hcs (by rw [show x.a + x.k + 4 = x.a + x.k + (2 + 2) by omega]; exact b3)
          (by show _ + 4 ≤ _; omega))
      have e8 : be16 (s.octets.extract 0 s.cursor) (x.a + x.k + 8) = x.rdlen := by
        rw [be16_extract _ _ _ hcs (by omega)]; exact hb
      obtain ⟨o1, o2, o3, o4⟩ := decodeNameAt_occ hd
      obtain ⟨gf, df, ns, hgf, hdf, hfm, hoccr⟩ := decodeRdata_rdAt s hw a.item x.m x.r.ty x.r.cls (x.r.ty % 65536)
        (x.r.cls % 65536) x.r.rdata (x.a + x.k + 10) x.rdlen ts hct (hst x List.mem_cons_self) hrd (by omega)
      obtain ⟨l, p', a', hl, hfa, hch, hext, hitem, nl, hnl, hocc⟩ := ih _ _ h4 he (fun it hx => hst it (List.mem_cons_of_mem _ hx)) n
        (by simpa using hn) (⟨w, x.r.ty % 65536, x.r.cls % 65536, x.r.ttl % 4294967296, df⟩ :: acc)
        { extents := (x.a, x.a + x.k + 10 + x.rdlen) :: a.extents,
          names := ns.reverse ++ (occ :: a.names), item := a.item + 1 }
      refine ⟨⟨w, x.r.ty % 65536, x.r.cls % 65536, x.r.ttl % 4294967296, df⟩ :: l, p', a', ?_,
        .cons ⟨hcase, hex, rfl, rfl, rfl, gf, hgf, hfm⟩ (by simpa using hfa), by simpa using hch,
        by rw [hext]; simp, by rw [hitem]; simp; omega, (occ :: ns) ++ nl, by rw [hnl]; simp, ?occs⟩
      case occs =>
        simp only [List.take_succ_cons, rPairs]
        exact All2.append (.cons ⟨o1, o2, o4, fun hx => by rw [o3] at hx; cases hx⟩ hoccr) (by simpa using hocc)
      simp only [Message.decodeRecords, hd]
      rw [if_pos (by rw [hsz]; omega)]
      simp only [e1, e2, e3, e8]
      rw [if_pos (by rw [hsz]; omega)]
      simp only [hdf, hl]
      simp


/-- where a question / record ends -/
def qEnd (it : QItC) : Nat := it.a + it.k + 4
def rEnd (it : RItC) : Nat := it.a + it.k + 10 + it.rdlen

/-! ### the whole message -/

theorem layoutStable_of_lt {r : RRec} (h1 : r.ty < 65536) (h2 : r.cls < 65536) : LayoutStable r := by
  unfold LayoutStable; rw [Nat.mod_eq_of_lt h1, Nat.mod_eq_of_lt h2]

theorem layoutStable_opt (e : Option Edns) : ∀ r ∈ optRecs' e, LayoutStable r := by
  intro r hr
  cases e with
  | none => cases hr
  | some e =>
    simp only [optRecs', List.mem_singleton] at hr
    subst hr
    have h41 : T_OPT = 41 := by decide +kernel
    unfold LayoutStable Message.layoutOf
    simp [h41]

theorem layoutStable_tsig (t : Option Tsig) (mac : Option (List UInt8)) : ∀ r ∈ tsigRecs t mac, LayoutStable r := by
  intro r hr
  cases t with
  | none => cases hr
  | some t =>
    simp only [tsigRecs, List.mem_singleton] at hr
    subst hr
    have h250 : T_TSIG = 250 := by decide +kernel
    unfold LayoutStable Message.layoutOf
    simp [h250]

/-- what the pointer audit needs to know about the final buffer `sF` of `finish`: the message is
    its octets below the cursor, the chains lie there, every recorded label start is the first
    octet of a label of a name of the chains, and the decoder's name occurrences are the names at
    the name positions of the chains, in order -/
def FinAudit (s : State) (m : Bytes) (d : Message.Decoded) (qs : List QItC) (rs : List RItC) : Prop :=
  ∃ sF : State, m = sF.octets.extract 0 sF.cursor ∧ WInv sF ∧ QChainC sF qs 12 s.rrStart ∧
    RChainC sF rs s.rrStart sF.cursor ∧ Labs sF s.rrStart qs rs ∧
    All2 (Occ m) (qPairs 0 qs ++ rPairs qs.length rs) d.names

/-- **C12 (d) in every compression mode.** From a valid writer state whose layout holds the questions
    and records `b` (of 16-bit types and classes): whatever `finish` returns (if at most 65535
    octets) is read by the specification's RFC 1035 decoder as a message with the header octets of
    the writer and — section by section, in order — the questions and records given followed by the
    OPT and TSIG records: names (owners, QNAMEs and the names inside RDATA, decompressed) equal to
    those given up to ASCII case, octet for octet when written outside `Standard` mode; TYPE, CLASS,
    TTL and all other RDATA octets as given. -/
theorem finish_refines (macFn : Tsig → List UInt8 → List UInt8) (s : State) (b : Body) (mb : MBody) (hI : I s)
    (hL : CLay P s b mb) (hT : ∀ r ∈ b.an ++ b.ns ++ b.ar, LayoutStable r)
    (m : Bytes) (mac : Option (List UInt8)) (hf : finish s macFn = .ok (m, mac)) (hsz : m.size ≤ 65535) :
    ∃ (d : Message.Decoded) (qs : List QItC) (ian ins iar : List RItC), Message.specDecodeMsg m = some d ∧
      d.msg.header = specHeader s.octets ∧
      qs.map (·.q) = b.qs ∧ ian.map (·.r) = b.an ∧ ins.map (·.r) = b.ns ∧
      iar.map (·.r) = b.ar ++ optRecs' s.edns ++ tsigRecs s.tsig mac ∧
      All2 MQMatch qs d.msg.questions ∧ All2 MRecMatch ian d.msg.answers ∧
      All2 MRecMatch ins d.msg.authorities ∧ All2 MRecMatch iar d.msg.additionals ∧
      (∀ it ∈ qs, P it.m) ∧ (∀ it ∈ ian ++ ins ++ iar, P it.m) ∧
      qs.map (·.m) = mb.qs ∧ ian.map (·.m) = mb.an ∧ ins.map (·.m) = mb.ns ∧
      iar.map (·.m) = mb.ar ++ (optRecs' s.edns).map (fun _ => s.mode) ++
        (tsigRecs s.tsig mac).map (fun _ => s.mode) ∧
      d.extents.map (·.2) = qs.map qEnd ++ (ian ++ ins ++ iar).map rEnd ∧
      ∃ rs0 ex, ian ++ ins ++ iar = rs0 ++ ex ∧ QChainC s qs 12 s.rrStart ∧ RChainC s rs0 s.rrStart s.cursor ∧
        FinAudit s m d qs (ian ++ ins ++ iar) := by
  unfold finish at hf
  cases hw : finishWithMac macFn s with
  | mk r sF =>
    rw [hw] at hf
    cases r with
    | err e => cases hf
    | panic => cases hf
    | ok p =>
      obtain ⟨len, mc⟩ := p
      simp only [Out.ok.injEq, Prod.mk.injEq] at hf
      obtain ⟨hm, hmc⟩ := hf
      subst hmc
      obtain ⟨hlim, hlc, hszF⟩ := finishWithMac_len macFn s hI.inv len mc sF hw
      have hls := hI.inv.lim_size
      have hcF : sF.cursor ≤ sF.octets.size := by omega
      have hmsz : m.size = sF.cursor := by rw [← hm, hlc]; exact extract_size _ _ hcF
      have hle : sF.cursor ≤ 65535 := by omega
      obtain ⟨wF, _, hhdr, hcnt, qs, rs, hq, hr, hqm, hrm, hqP, hrP, hqM, hrM, rs0, ex, hrs0, hq0, hr0, hlabF⟩ :=
        finishWithMac_finLayC macFn s b mb hI hL len mc sF hw hle
      rw [hlc] at hm
      subst hm
      have hsz' := extract_size sF.octets sF.cursor hcF
      have h12 : 12 ≤ sF.cursor := wF.c12
      have hl2 : ∀ x, (u16be x).length = 2 := fun _ => rfl
      obtain ⟨c123, c4⟩ := bytesAt_append hcnt
      obtain ⟨c12, c3⟩ := bytesAt_append c123
      obtain ⟨c1, c2⟩ := bytesAt_append c12
      simp only [List.length_append, hl2] at c2 c3 c4
      have e4 : be16 (sF.octets.extract 0 sF.cursor) 4 = s.qdcount := by
        rw [be16_extract _ _ _ hcF (by omega)]; exact be16_of_bytesAt c1 (by have := hI.inv.qd; omega)
      have e6 : be16 (sF.octets.extract 0 sF.cursor) 6 = s.ancount := by
        rw [be16_extract _ _ _ hcF (by omega)]; exact be16_of_bytesAt c2 (by have := hI.inv.an; omega)
      have e8 : be16 (sF.octets.extract 0 sF.cursor) 8 = s.nscount := by
        rw [be16_extract _ _ _ hcF (by omega)]; exact be16_of_bytesAt c3 (by have := hI.inv.ns; omega)
      have e10 : be16 (sF.octets.extract 0 sF.cursor) 10 = s.arcount := by
        rw [be16_extract _ _ _ hcF (by omega)]; exact be16_of_bytesAt c4 (by have := hI.inv.ar; omega)
      -- the lengths
      have hql : qs.length = s.qdcount := by
        have := congrArg List.length hqm; rw [List.length_map] at this; rw [this, hL.qd]
      have hpl : (optRecs' s.edns ++ tsigRecs s.tsig mc).length = pend s := by
        unfold pend
        cases s.edns <;> cases s.tsig <;> simp [optRecs', tsigRecs]
      have hrl : rs.length = s.ancount + s.nscount + s.arcount := by
        have := congrArg List.length hrm
        rw [List.length_map] at this
        rw [this, hL.an, hL.ns, hL.ar]
        simp only [List.length_append] at hpl ⊢
        omega
      have hrrle : s.rrStart ≤ sF.cursor := rchainC_le hr
      -- every record has a stable layout
      have hst : ∀ it ∈ rs, LayoutStable it.r := by
        intro it hx
        have hmem : it.r ∈ rs.map (·.r) := List.mem_map_of_mem hx
        rw [hrm] at hmem
        rcases List.mem_append.mp hmem with h1 | h1
        · exact hT _ (List.mem_append_left _ h1)
        · rcases List.mem_append.mp h1 with h2 | h2
          · rcases List.mem_append.mp h2 with h3 | h3
            · exact hT _ (List.mem_append_right _ h3)
            · exact layoutStable_opt _ _ h3
          · exact layoutStable_tsig _ _ _ h2
      -- questions
      obtain ⟨lq, a1, hdq, hmq, hx1, hi1, nlq, hnq, hoq⟩ := decodeQuestionsM_chainC sF wF qs 12 s.rrStart hq hrrle [] {}
      rw [hql] at hdq
      -- the sections of the given records
      obtain ⟨ha1, ha2⟩ := map_take_eq (·.r) rs (b.an ++ b.ns) (b.ar ++ optRecs' s.edns ++ tsigRecs s.tsig mc)
        (by rw [hrm]; try simp [List.append_assoc])
      obtain ⟨hb1, hb2⟩ := map_take_eq (·.r) (rs.take (b.an ++ b.ns).length) b.an b.ns ha1
      have hanl : b.an.length = s.ancount := hL.an.symm
      have hnsl : b.ns.length = s.nscount := hL.ns.symm
      obtain ⟨ml1, ml2, _⟩ := hL.ml
      obtain ⟨hm1, hm2⟩ := map_take_eq (·.m) rs (mb.an ++ mb.ns)
        (mb.ar ++ (optRecs' s.edns).map (fun _ => s.mode) ++ (tsigRecs s.tsig mc).map (fun _ => s.mode))
        (by rw [hrM]; try simp [List.append_assoc])
      obtain ⟨hn1, hn2⟩ := map_take_eq (·.m) (rs.take (mb.an ++ mb.ns).length) mb.an mb.ns hm1
      have hmanl : mb.an.length = s.ancount := by rw [ml1]; exact hanl
      have hmnsl : mb.ns.length = s.nscount := by rw [ml2]; exact hnsl
      -- the three record sections
      obtain ⟨la, p2, a2, hda, hma, hch2, hx2, hi2, nla, hna, hoa⟩ := decodeRecordsM_chainC sF wF _ _ _ hr (Nat.le_refl _) hst s.ancount
        (by omega) [] a1
      obtain ⟨ln, p3, a3, hdn, hmn, hch3, hx3, hi3, nln, hnn, hon⟩ := decodeRecordsM_chainC sF wF _ _ _ hch2 (Nat.le_refl _)
        (fun it hx => hst it (List.mem_of_mem_drop hx)) s.nscount (by rw [List.length_drop]; omega) [] a2
      obtain ⟨lr, p4, a4, hdr, hmr, hch4, hx4, _, nlr, hnr, hor⟩ := decodeRecordsM_chainC sF wF _ _ _ hch3 (Nat.le_refl _)
        (fun it hx => hst it (List.mem_of_mem_drop (List.mem_of_mem_drop hx))) s.arcount
        (by rw [List.length_drop, List.length_drop]; omega) [] a3
      have hnil : (((rs.drop s.ancount).drop s.nscount).drop s.arcount) = [] := by
        apply List.eq_nil_of_length_eq_zero
        rw [List.length_drop, List.length_drop, List.length_drop]; omega
      rw [hnil] at hch4
      have hp4 : p4 = sF.cursor := hch4
      have htk : ((rs.drop s.ancount).drop s.nscount).take s.arcount = (rs.drop s.ancount).drop s.nscount := by
        apply List.take_of_length_le
        rw [List.length_drop, List.length_drop]; omega
      rw [htk] at hmr hor
      simp only [List.reverse_nil, List.nil_append] at hdq hda hdn hdr
      -- the name occurrences
      have hnames : a4.names.reverse = nlq ++ (nla ++ (nln ++ nlr)) := by
        rw [hnr, hnn, hna, hnq]
        simp
      have hlt : (rs.take s.ancount).length = s.ancount := by rw [List.length_take]; omega
      have hlt2 : ((rs.drop s.ancount).take s.nscount).length = s.nscount := by
        rw [List.length_take, List.length_drop]; omega
      have hi1' : a1.item = qs.length := by rw [hi1]; show 0 + qs.length = _; omega
      have hpairs : rPairs qs.length rs = rPairs qs.length (rs.take s.ancount) ++
          (rPairs (qs.length + s.ancount) ((rs.drop s.ancount).take s.nscount) ++
            rPairs (qs.length + s.ancount + s.nscount) ((rs.drop s.ancount).drop s.nscount)) := by
        have hsplit : rs = rs.take s.ancount ++ ((rs.drop s.ancount).take s.nscount ++
            (rs.drop s.ancount).drop s.nscount) := by rw [List.take_append_drop, List.take_append_drop]
        conv => lhs; rw [hsplit]
        rw [rPairs_append, rPairs_append, hlt, hlt2]
      have hoccs : All2 (Occ (sF.octets.extract 0 sF.cursor)) (qPairs 0 qs ++ rPairs qs.length rs)
          a4.names.reverse := by
        rw [hnames, hpairs]
        rw [hi1'] at hoa
        rw [hi2, hi1'] at hon
        rw [hi3, hi2, hi1'] at hor
        exact All2.append hoq (All2.append hoa (All2.append hon hor))
      -- the header octets
      have hg : ∀ i, i < 4 → (sF.octets.extract 0 sF.cursor).getD i 0 = s.octets.getD i 0 := by
        intro i hi
        have h1 := extract_prefix_get sF.octets sF.cursor hcF i (by omega)
        have h2 := hhdr i hi
        have hsi : i < s.octets.size := by have := hI.inv.hdr; have := hI.inv.cur_av; have := hI.inv.av_lim; omega
        have hmi : i < (sF.octets.extract 0 sF.cursor).size := by rw [hsz']; omega
        rw [h2] at h1
        simp only [Array.getD, hsi, hmi, dite_true]
        rw [Array.getElem?_eq_getElem hmi, Array.getElem?_eq_getElem hsi] at h1
        exact Option.some.inj h1
      have hh : specHeader (sF.octets.extract 0 sF.cursor) = specHeader s.octets := by
        simp only [specHeader, be16, hg 0 (by omega), hg 1 (by omega), hg 2 (by omega), hg 3 (by omega)]
      refine ⟨⟨⟨specHeader (sF.octets.extract 0 sF.cursor), lq, la, ln, lr⟩, a4.extents.reverse, a4.names.reverse⟩,
        qs, rs.take s.ancount, (rs.drop s.ancount).take s.nscount, (rs.drop s.ancount).drop s.nscount, ?_, hh, hqm,
        ?_, ?_, ?_, hmq, hma, hmn, hmr, hqP, fun it hx => by
          rcases List.mem_append.mp hx with hx | hx
          · rcases List.mem_append.mp hx with hx | hx
            · exact hrP it (List.mem_of_mem_take hx)
            · exact hrP it (List.mem_of_mem_drop (List.mem_of_mem_take hx))
          · exact hrP it (List.mem_of_mem_drop (List.mem_of_mem_drop hx)), hqM, ?_, ?_, ?_, ?_,
        rs0, ex, by rw [← hrs0, List.append_assoc, List.take_append_drop, List.take_append_drop], hq0, hr0, ?aud⟩
      case aud =>
        rw [List.append_assoc, List.take_append_drop, List.take_append_drop]
        exact ⟨sF, rfl, wF, hq, hr, hlabF, hoccs⟩
      · unfold Message.specDecodeMsg
        rw [if_neg (by rw [hsz']; omega)]
        simp only [e4, e6, e8, e10, hdq, hda, hdn, hdr]
        rw [if_pos (by rw [hp4, hsz'])]
        simp [specHeader]
      · -- answers
        have : (rs.take (b.an ++ b.ns).length).take b.an.length = rs.take s.ancount := by
          rw [List.take_take, List.length_append, hanl]; congr 1; omega
        rw [← this]; exact hb1
      · -- authorities
        have : (rs.take (b.an ++ b.ns).length).drop b.an.length = (rs.drop s.ancount).take s.nscount := by
          rw [List.drop_take, List.length_append, hanl, hnsl]; congr 1; omega
        rw [← this]; exact hb2
      · -- additionals
        have : rs.drop (b.an ++ b.ns).length = (rs.drop s.ancount).drop s.nscount := by
          rw [List.drop_drop, List.length_append, hanl, hnsl]
        rw [← this]; exact ha2
      · -- the modes of the answers
        have : (rs.take (mb.an ++ mb.ns).length).take mb.an.length = rs.take s.ancount := by
          rw [List.take_take, List.length_append, hmanl]; congr 1; omega
        rw [← this]; exact hn1
      · have : (rs.take (mb.an ++ mb.ns).length).drop mb.an.length = (rs.drop s.ancount).take s.nscount := by
          rw [List.drop_take, List.length_append, hmanl, hmnsl]; congr 1; omega
        rw [← this]; exact hn2
      · have : rs.drop (mb.an ++ mb.ns).length = (rs.drop s.ancount).drop s.nscount := by
          rw [List.drop_drop, List.length_append, hmanl, hmnsl]
        rw [← this]; exact hm2
      · -- the extents
        show (a4.extents.reverse).map (·.2) = _
        rw [hx4, htk, hx3, hx2, hx1]
        simp only [List.reverse_append, List.reverse_reverse, List.map_append, List.map_map, List.append_nil,
          List.reverse_nil, List.nil_append, List.append_assoc]
        rfl


/-! ### stated on the questions and records given -/

/-- a decoded question is the question given (`ex`: names octet for octet) -/
def QuestionIs (ex : Prop) (q : QRec) (dq : Message.Question) : Prop :=
  dq.qname.map lowerU8 = q.qname.wire.map lowerU8 ∧ (ex → dq.qname = q.qname.wire) ∧
  dq.qtype = q.qtype % 65536 ∧ dq.qclass = q.qclass % 65536

/-- a decoded record is the record given: owner and the names inside RDATA (decompressed) equal to
    those given up to ASCII case — octet for octet if `ex` —, TYPE, CLASS, TTL and all other RDATA
    octets as given (`givenRdata`: the specification's reading of the RDATA octets given) -/
def RecordIs (ex : Prop) (r : RRec) (dr : Message.Record) : Prop :=
  dr.owner.map lowerU8 = r.owner.wire.map lowerU8 ∧ (ex → dr.owner = r.owner.wire) ∧
  dr.type = r.ty % 65536 ∧ dr.cls = r.cls % 65536 ∧ dr.ttl = r.ttl % 4294967296 ∧
  ∃ gf, Message.givenRdata r.ty r.cls r.rdata = some gf ∧ All2 (FieldMatch ex) gf dr.rdata

theorem fieldMatch_mono {e1 e2 : Prop} (h : e2 → e1) {a b : Message.Field} (hm : FieldMatch e1 a b) :
    FieldMatch e2 a b := by
  cases hm with
  | name h1 h2 => exact .name h1 (fun x => h2 (h x))
  | bytes x => exact .bytes x

theorem all2_mono {α β : Type} {R S : α → β → Prop} (h : ∀ a b, R a b → S a b) {as : List α} {bs : List β}
    (hm : All2 R as bs) : All2 S as bs := by
  induction hm with
  | nil => exact .nil
  | cons hr _ ih => exact .cons (h _ _ hr) ih

theorem all2_map_left {α β γ : Type} {R : γ → β → Prop} (f : α → γ) {S : α → β → Prop} :
    ∀ {as : List α} {bs : List β}, All2 S as bs → (∀ a ∈ as, ∀ b, S a b → R (f a) b) → All2 R (as.map f) bs := by
  intro as bs hm
  induction hm with
  | nil => intro _; exact .nil
  | cons hr _ ih =>
    intro h
    exact .cons (h _ List.mem_cons_self _ hr) (ih (fun a ha b hs => h a (List.mem_cons_of_mem _ ha) b hs))

theorem records_of_items {ex : Prop} {its : List RItC} {drs : List Message.Record} (h : All2 MRecMatch its drs)
    (hP : ∀ it ∈ its, ex → it.m ≠ .standard) : All2 (RecordIs ex) (its.map (·.r)) drs :=
  all2_map_left (·.r) h (fun it hit _ ⟨h1, h2, h3, h4, h5, gf, h6, h7⟩ =>
    ⟨h1, fun x => h2 (hP it hit x), h3, h4, h5, gf, h6, all2_mono (fun _ _ hf => fieldMatch_mono (hP it hit) hf) h7⟩)

theorem questions_of_items {ex : Prop} {its : List QItC} {dqs : List Message.Question} (h : All2 MQMatch its dqs)
    (hP : ∀ it ∈ its, ex → it.m ≠ .standard) : All2 (QuestionIs ex) (its.map (·.q)) dqs :=
  all2_map_left (·.q) h (fun it hit _ ⟨h1, h2, h3, h4⟩ => ⟨h1, fun x => h2 (hP it hit x), h3, h4⟩)

/-- pair every item given with the mode it was written in -/
theorem records_of_items_modes {its : List RItC} {drs : List Message.Record} (h : All2 MRecMatch its drs) :
    All2 (fun (x : CMode × RRec) dr => RecordIs (x.1 ≠ .standard) x.2 dr) ((its.map (·.m)).zip (its.map (·.r))) drs := by
  induction h with
  | nil => exact .nil
  | cons hr _ ih => exact .cons hr ih

theorem questions_of_items_modes {its : List QItC} {dqs : List Message.Question} (h : All2 MQMatch its dqs) :
    All2 (fun (x : CMode × QRec) dq => QuestionIs (x.1 ≠ .standard) x.2 dq) ((its.map (·.m)).zip (its.map (·.q))) dqs := by
  induction h with
  | nil => exact .nil
  | cons hr _ ih => exact .cons hr ih

/-- **C12 (d), every compression mode, item by item.** As `refines_all_modes` below, with every
    question and record compared in the compression mode that was in effect when it was written
    (`mrun`; the OPT and TSIG records: the mode in effect at `finish`): octet for octet unless that
    mode was `Standard`, up to ASCII case if it was. This is the comparison the executable
    specification `checkSegment` makes (`itemModes`). -/
theorem refines_item_modes (macFn : Tsig → List UInt8 → List UInt8) (hmac : MacLenOK macFn)
    (buf : Bytes) (limit : Nat) (s0 : State) (hnew : Writer.new buf limit = .ok s0) (mode : CMode)
    (ops : List Op) (ht : ∀ op ∈ ops, op.Typed) (hr : Respects { w := { s0 with mode := mode } } ops) :
    ∃ m mac, finish (run { w := { s0 with mode := mode } } ops).1.w macFn = .ok (m, mac) ∧ (m.size ≤ 65535 →
      ∃ d : Message.Decoded, Message.specDecodeMsg m = some d ∧
        d.msg.header = specHeader (run { w := { s0 with mode := mode } } ops).1.w.octets ∧
        All2 (fun (x : CMode × QRec) dq => QuestionIs (x.1 ≠ .standard) x.2 dq)
          ((mrun { w := { s0 with mode := mode } } {} ops).qs.zip
            (bodyRun {} ops (run { w := { s0 with mode := mode } } ops).2).qs) d.msg.questions ∧
        All2 (fun (x : CMode × RRec) dr => RecordIs (x.1 ≠ .standard) x.2 dr)
          ((mrun { w := { s0 with mode := mode } } {} ops).an.zip
            (bodyRun {} ops (run { w := { s0 with mode := mode } } ops).2).an) d.msg.answers ∧
        All2 (fun (x : CMode × RRec) dr => RecordIs (x.1 ≠ .standard) x.2 dr)
          ((mrun { w := { s0 with mode := mode } } {} ops).ns.zip
            (bodyRun {} ops (run { w := { s0 with mode := mode } } ops).2).ns) d.msg.authorities ∧
        All2 (fun (x : CMode × RRec) dr => RecordIs (x.1 ≠ .standard) x.2 dr)
          (((mrun { w := { s0 with mode := mode } } {} ops).ar ++
              (optRecs' (run { w := { s0 with mode := mode } } ops).1.w.edns).map
                (fun _ => (run { w := { s0 with mode := mode } } ops).1.w.mode) ++
              (tsigRecs (run { w := { s0 with mode := mode } } ops).1.w.tsig mac).map
                (fun _ => (run { w := { s0 with mode := mode } } ops).1.w.mode)).zip
            ((bodyRun {} ops (run { w := { s0 with mode := mode } } ops).2).ar ++
              optRecs' (run { w := { s0 with mode := mode } } ops).1.w.edns ++
              tsigRecs (run { w := { s0 with mode := mode } } ops).1.w.tsig mac)) d.msg.additionals) := by
  have hI0 : I { s0 with mode := mode } := (safe_setMode mode s0 (new_i buf limit s0 hnew)).2
  have hL0 : CLay (fun _ => True) { s0 with mode := mode } {} {} := clay_new buf limit s0 hnew mode trivial
  have hI := (run_I { w := { s0 with mode := mode } } ops hI0 hr).2
  have hL := clay_run { w := { s0 with mode := mode } } ops {} {} hI0 hL0 hr (fun _ _ => trivial)
  have hT := typed_run ops { w := { s0 with mode := mode } } {}
    ⟨(fun _ h => by cases h), (fun _ h => by cases h), (fun _ h => by cases h), (fun _ h => by cases h)⟩ ht
  generalize (run { w := { s0 with mode := mode } } ops).1.w = sF at hI hL ⊢
  generalize bodyRun {} ops (run { w := { s0 with mode := mode } } ops).2 = B at hL hT ⊢
  generalize mrun { w := { s0 with mode := mode } } {} ops = MB at hL ⊢
  obtain ⟨m, mac, hf⟩ := finish_ok macFn hmac sF hI
  refine ⟨m, mac, hf, fun hsz => ?_⟩
  have hst : ∀ r ∈ B.an ++ B.ns ++ B.ar, LayoutStable r := by
    intro r hx
    have hr : r.Typed := by
      rcases List.mem_append.mp hx with h1 | h1
      · rcases List.mem_append.mp h1 with h2 | h2
        · exact hT.an r h2
        · exact hT.ns r h2
      · exact hT.ar r h1
    exact layoutStable_of_lt hr.2.1 hr.2.2.1
  obtain ⟨d, qs, ian, ins, iar, hd, hh, hq, han, hns, har, mq, ma, mn, mr, _, _, hqM, haM, hnM, hrM, _⟩ :=
    finish_refines macFn sF B MB hI hL hst m mac hf hsz
  refine ⟨d, hd, hh, ?_, ?_, ?_, ?_⟩
  · rw [← hq, ← hqM]; exact questions_of_items_modes mq
  · rw [← han, ← haM]; exact records_of_items_modes ma
  · rw [← hns, ← hnM]; exact records_of_items_modes mn
  · rw [← har, ← hrM]; exact records_of_items_modes mr

/-- **C12 (d), every compression mode, for all sequences of calls.** From a fresh writer put into any
    mode, after any sequence of public calls (16-bit types and classes; hint contract respected) with
    any mode changes: `finish` succeeds and its message (if at most 65535 octets), read by the
    specification's RFC 1035 decoder, has the header octets of the writer and, section by section and
    in order, exactly the questions and records of the calls that succeeded (`bodyRun`: `clear_rrs`
    removes the records, a failed call adds nothing), then the OPT and TSIG records — names up to
    ASCII case, and octet for octet (`ex`) if neither the initial mode nor any mode set is `Standard`. -/
theorem refines_all_modes (macFn : Tsig → List UInt8 → List UInt8) (hmac : MacLenOK macFn)
    (buf : Bytes) (limit : Nat) (s0 : State) (hnew : Writer.new buf limit = .ok s0) (mode : CMode)
    (ops : List Op) (ht : ∀ op ∈ ops, op.Typed) (hr : Respects { w := { s0 with mode := mode } } ops)
    (ex : Prop) (hex : ex → mode ≠ .standard ∧ ∀ m, Op.setMode m ∈ ops → m ≠ .standard) :
    ∃ m mac, finish (run { w := { s0 with mode := mode } } ops).1.w macFn = .ok (m, mac) ∧ (m.size ≤ 65535 →
      ∃ d : Message.Decoded, Message.specDecodeMsg m = some d ∧
        d.msg.header = specHeader (run { w := { s0 with mode := mode } } ops).1.w.octets ∧
        All2 (QuestionIs ex) (bodyRun {} ops (run { w := { s0 with mode := mode } } ops).2).qs d.msg.questions ∧
        All2 (RecordIs ex) (bodyRun {} ops (run { w := { s0 with mode := mode } } ops).2).an d.msg.answers ∧
        All2 (RecordIs ex) (bodyRun {} ops (run { w := { s0 with mode := mode } } ops).2).ns d.msg.authorities ∧
        All2 (RecordIs ex) ((bodyRun {} ops (run { w := { s0 with mode := mode } } ops).2).ar ++
          optRecs' (run { w := { s0 with mode := mode } } ops).1.w.edns ++
          tsigRecs (run { w := { s0 with mode := mode } } ops).1.w.tsig mac) d.msg.additionals) := by
  have hI0 : I { s0 with mode := mode } := (safe_setMode mode s0 (new_i buf limit s0 hnew)).2
  have hL0 : CLay (fun m => ex → m ≠ .standard) { s0 with mode := mode } {} {} :=
    clay_new buf limit s0 hnew mode (fun x => (hex x).1)
  have hI := (run_I { w := { s0 with mode := mode } } ops hI0 hr).2
  have hL := clay_run { w := { s0 with mode := mode } } ops {} {} hI0 hL0 hr (fun m hm x => (hex x).2 m hm)
  have hT := typed_run ops { w := { s0 with mode := mode } } {}
    ⟨(fun _ h => by cases h), (fun _ h => by cases h), (fun _ h => by cases h), (fun _ h => by cases h)⟩ ht
  generalize (run { w := { s0 with mode := mode } } ops).1.w = sF at hI hL ⊢
  generalize bodyRun {} ops (run { w := { s0 with mode := mode } } ops).2 = B at hL hT ⊢
  obtain ⟨m, mac, hf⟩ := finish_ok macFn hmac sF hI
  refine ⟨m, mac, hf, fun hsz => ?_⟩
  have hst : ∀ r ∈ B.an ++ B.ns ++ B.ar, LayoutStable r := by
    intro r hx
    have hr : r.Typed := by
      rcases List.mem_append.mp hx with h1 | h1
      · rcases List.mem_append.mp h1 with h2 | h2
        · exact hT.an r h2
        · exact hT.ns r h2
      · exact hT.ar r h1
    exact layoutStable_of_lt hr.2.1 hr.2.2.1
  generalize mrun { w := { s0 with mode := mode } } {} ops = MB at hL
  obtain ⟨d, qs, ian, ins, iar, hd, hh, hq, han, hns, har, mq, ma, mn, mr, pq, pr, _⟩ :=
    finish_refines macFn sF B MB hI hL hst m mac hf hsz
  refine ⟨d, hd, hh, ?_, ?_, ?_, ?_⟩
  · rw [← hq]; exact questions_of_items mq pq
  · rw [← han]; exact records_of_items ma (fun it hx => pr it (List.mem_append_left _ (List.mem_append_left _ hx)))
  · rw [← hns]; exact records_of_items mn (fun it hx => pr it (List.mem_append_left _ (List.mem_append_right _ hx)))
  · rw [← har]; exact records_of_items mr (fun it hx => pr it (List.mem_append_right _ hx))


/-! ### sessions that never use `Standard` mode: the decoded message is exactly the message given -/

theorem fields_exact : ∀ {gf df : List Message.Field}, All2 (FieldMatch True) gf df → gf = df := by
  intro gf df h
  induction h with
  | nil => rfl
  | cons hh _ ih =>
    cases hh with
    | name h1 h2 => rw [h2 trivial, ih]
    | bytes x => rw [ih]

/-- what a record given means, TYPE/CLASS/TTL as 16/16/32-bit values -/
def normR (r : RRec) : Message.Record :=
  ⟨r.owner.wire, r.ty % 65536, r.cls % 65536, r.ttl % 4294967296, (Message.givenRdata r.ty r.cls r.rdata).getD []⟩

theorem recordIs_exact {r : RRec} {dr : Message.Record} (h : RecordIs True r dr) : dr = normR r := by
  obtain ⟨_, h2, h3, h4, h5, gf, h6, h7⟩ := h
  have := fields_exact h7
  cases dr with
  | mk o t c l f =>
    simp only at h2 h3 h4 h5 this
    simp only [normR, h6, Option.getD_some, h2 trivial, h3, h4, h5, this]

theorem all2_eq_map {α β : Type} {R : α → β → Prop} (f : α → β) (h : ∀ a b, R a b → b = f a) :
    ∀ {as : List α} {bs : List β}, All2 R as bs → bs = as.map f := by
  intro as bs hm
  induction hm with
  | nil => rfl
  | cons hr _ ih => rw [List.map_cons, ← ih, h _ _ hr]

theorem normR_typed {r : RRec} (h1 : r.ty < 65536) (h2 : r.cls < 65536) (h3 : r.ttl < 4294967296) :
    normR r = specR r := by
  simp only [normR, specR, Nat.mod_eq_of_lt h1, Nat.mod_eq_of_lt h2, Nat.mod_eq_of_lt h3]

theorem normR_opt (e : Option Edns) : (optRecs' e).map normR = (optRecs e).map specR := by
  cases e with
  | none => rfl
  | some e =>
    have h41 : T_OPT = 41 := by decide +kernel
    simp only [optRecs', optRecs, List.map_cons, List.map_nil, normR, specR, h41]
    have hg : ∀ c, Message.givenRdata 41 c [] = Message.givenRdata 41 (c % 65536) [] := by
      intro c; simp [Message.givenRdata, Message.layoutOf]
    rw [hg e.payload]
    simp

theorem normR_tsig (t : Option Tsig) (mac : Option (List UInt8)) :
    (tsigRecs t mac).map normR = (tsigRecs t mac).map specR := by
  cases t with
  | none => rfl
  | some t =>
    have h250 : T_TSIG = 250 := by decide +kernel
    have h255 : QC_ANY = 255 := by decide +kernel
    simp only [tsigRecs, List.map_cons, List.map_nil]
    rw [normR_typed (by simp [h250]) (by simp [h255]) (ttlFrom_lt 0)]

/-- **C12 (d) for sessions that never use `Standard` mode** (`CasePreserving`, `Disabled`, or any mix):
    the specification's decoder reads the finished message as *exactly* the abstract message of the
    calls that succeeded — the same statement as in `Disabled` mode (`disabled_refines`), now with
    compression -/
theorem refines_exact (macFn : Tsig → List UInt8 → List UInt8) (hmac : MacLenOK macFn)
    (buf : Bytes) (limit : Nat) (s0 : State) (hnew : Writer.new buf limit = .ok s0) (mode : CMode)
    (ops : List Op) (ht : ∀ op ∈ ops, op.Typed) (hr : Respects { w := { s0 with mode := mode } } ops)
    (hm0 : mode ≠ .standard) (hms : ∀ m, Op.setMode m ∈ ops → m ≠ .standard) :
    ∃ m mac, finish (run { w := { s0 with mode := mode } } ops).1.w macFn = .ok (m, mac) ∧ (m.size ≤ 65535 →
      ∃ d : Message.Decoded, Message.specDecodeMsg m = some d ∧
        d.msg = ⟨specHeader (run { w := { s0 with mode := mode } } ops).1.w.octets,
          (bodyRun {} ops (run { w := { s0 with mode := mode } } ops).2).qs.map specQ,
          (bodyRun {} ops (run { w := { s0 with mode := mode } } ops).2).an.map specR,
          (bodyRun {} ops (run { w := { s0 with mode := mode } } ops).2).ns.map specR,
          ((bodyRun {} ops (run { w := { s0 with mode := mode } } ops).2).ar ++
            optRecs (run { w := { s0 with mode := mode } } ops).1.w.edns ++
            tsigRecs (run { w := { s0 with mode := mode } } ops).1.w.tsig mac).map specR⟩) := by
  obtain ⟨m, mac, hf, hrest⟩ := refines_all_modes macFn hmac buf limit s0 hnew mode ops ht hr True
    (fun _ => ⟨hm0, hms⟩)
  have hT := typed_run ops { w := { s0 with mode := mode } } {}
    ⟨(fun _ h => by cases h), (fun _ h => by cases h), (fun _ h => by cases h), (fun _ h => by cases h)⟩ ht
  refine ⟨m, mac, hf, fun hsz => ?_⟩
  obtain ⟨d, hd, hh, mq, ma, mn, mr⟩ := hrest hsz
  generalize (run { w := { s0 with mode := mode } } ops).1.w = sF at *
  generalize bodyRun {} ops (run { w := { s0 with mode := mode } } ops).2 = B at *
  refine ⟨d, hd, ?_⟩
  have eq : d.msg.questions = B.qs.map specQ := by
    have := all2_eq_map (R := QuestionIs True) (fun q => (⟨q.qname.wire, q.qtype % 65536, q.qclass % 65536⟩ : Message.Question))
      (fun q dq ⟨_, h2, h3, h4⟩ => by cases dq; simp only at h2 h3 h4; rw [h2 trivial, h3, h4]) mq
    rw [this]
    apply List.map_congr_left
    intro q hq
    obtain ⟨_, h1, h2⟩ := hT.qs q hq
    simp only [specQ, Nat.mod_eq_of_lt h1, Nat.mod_eq_of_lt h2]
  have hsec : ∀ (l : List RRec) (dl : List Message.Record), (∀ r ∈ l, r.Typed) → All2 (RecordIs True) l dl →
      dl = l.map specR := by
    intro l dl hty h
    rw [all2_eq_map normR (fun _ _ hx => recordIs_exact hx) h]
    apply List.map_congr_left
    intro r hr
    obtain ⟨_, h1, h2, h3, _⟩ := hty r hr
    exact normR_typed h1 h2 h3
  have ean := hsec _ _ hT.an ma
  have ens := hsec _ _ hT.ns mn
  have ear : d.msg.additionals = (B.ar ++ optRecs sF.edns ++ tsigRecs sF.tsig mac).map specR := by
    rw [all2_eq_map normR (fun _ _ hx => recordIs_exact hx) mr]
    simp only [List.map_append]
    rw [normR_opt, normR_tsig]
    congr 2
    apply List.map_congr_left
    intro r hr
    obtain ⟨_, h1, h2, h3, _⟩ := hT.ar r hr
    exact normR_typed h1 h2 h3
  cases hdm : d.msg with
  | mk h q a n r =>
    rw [hdm] at hh eq ean ens ear
    simp only at hh eq ean ens ear
    rw [hh, eq, ean, ens, ear]


/-! ### sessions whose limit never exceeds the largest DNS message: no premise on the size -/

theorem limit_liftW {ss : Session} {f : M Unit} (h : (f ss.w).2.limit ≤ 65535) : (liftW ss f).2.w.limit ≤ 65535 := by
  rw [liftW_w]; exact h

theorem template_limit {s s' : State} {t : Template} (buf : Bytes) (ts : Option Tsig) (hI : I s)
    (ht : intoTemplate s = .ok t) (h' : tryFromTemplateImpl buf t ts = .ok s') (hl : s.limit ≤ 65535) :
    s'.limit ≤ 65535 := by
  have hi := hI.inv
  have h1 := hi.hdr; have h2 := hi.cur_av; have h3 := hi.av_lim; have h4 := hi.lim_size
  unfold intoTemplate at ht
  rw [if_neg (by omega), if_neg (by omega)] at ht
  cases ht
  unfold tryFromTemplateImpl at h'
  simp only at h'
  split at h'
  · cases h'
  · split at h'
    · cases h'
    · cases h'
      show min s.limit buf.size ≤ 65535
      omega

theorem retemplate_limit {ss : Session} (hI : I ss.w) (n : Nat) (fill : UInt8)
    (mk : Bytes → Template → Out WriterErr State) (hmk : MkOK mk) (hl : ss.w.limit ≤ 65535) :
    (retemplate ss n fill mk).2.w.limit ≤ 65535 := by
  obtain ⟨t, ht⟩ := intoTemplate_ok hI.inv
  unfold retemplate
  rw [ht]
  simp only []
  obtain ⟨sf, hsf⟩ := tryFromTemplate_fallback_ok fill hI.inv ht
  have hlf : sf.limit ≤ 65535 := template_limit _ t.tsig hI ht hsf hl
  cases hm : mk (Array.replicate n fill) t with
  | ok s' =>
    simp only []
    obtain ⟨ts, h1, _⟩ := hmk.1 _ _ _ hm
    exact template_limit _ ts hI ht h1 hl
  | err e => simp only []; rw [hsf]; exact hlf
  | panic => simp only []; rw [hsf]; exact hlf

theorem step_limit (ss : Session) (op : Op) (hI : I ss.w) (hop : OpOK ss op) (hl : ss.w.limit ≤ 65535)
    (hv : ∀ v, op = .setLimit v → v ≤ 65535) : (step ss op).2.w.limit ≤ 65535 := by
  cases op with
  | setId v => exact limit_liftW (call_limit (.setId v) ss.w trivial hl)
  | setQr b => exact limit_liftW (call_limit (.setBit Gen.QR_BYTE Gen.QR_MASK b) ss.w
      (show Gen.QR_BYTE < Gen.HEADER_SIZE by decide) hl)
  | setAa b => exact limit_liftW (call_limit (.setBit Gen.AA_BYTE Gen.AA_MASK b) ss.w
      (show Gen.AA_BYTE < Gen.HEADER_SIZE by decide) hl)
  | setTc b => exact limit_liftW (call_limit (.setBit Gen.TC_BYTE Gen.TC_MASK b) ss.w
      (show Gen.TC_BYTE < Gen.HEADER_SIZE by decide) hl)
  | setRd b => exact limit_liftW (call_limit (.setBit Gen.RD_BYTE Gen.RD_MASK b) ss.w
      (show Gen.RD_BYTE < Gen.HEADER_SIZE by decide) hl)
  | setRa b => exact limit_liftW (call_limit (.setBit Gen.RA_BYTE Gen.RA_MASK b) ss.w
      (show Gen.RA_BYTE < Gen.HEADER_SIZE by decide) hl)
  | setOpcode v => exact limit_liftW (call_limit (.setOpcode v) ss.w trivial hl)
  | setRcode v => exact limit_liftW (call_limit (.setRcode v) ss.w trivial hl)
  | setExtendedRcode v => exact limit_liftW (call_limit (.setExtendedRcode v) ss.w trivial hl)
  | setLimit v => exact limit_liftW (call_limit (.setLimit v) ss.w (hv v rfl) hl)
  | setMode m => exact limit_liftW (f := setCompressionMode m) hl
  | addQuestion n t c => exact limit_liftW (f := addQuestion n t c) (by rw [addQuestion_limit]; exact hl)
  | addRr sec hn o ty cls ttl rd hvs =>
    simp only [step]
    rw [withHv_w]
    exact call_limit (.addRr sec (resolveHint ss.hvs hn) o ty cls ttl rd) { ss.w with hv := hvs.map (hvGet ss.hvs) }
      ⟨hop.1, (hintOK_iff _ _ _).mpr hop.2⟩ hl
  | addRrset sec hn o ty cls ttl rds hvs =>
    simp only [step]
    rw [withHv_w]
    exact call_limit (.addRrset sec (resolveHint ss.hvs hn) o ty cls ttl rds) { ss.w with hv := hvs.map (hvGet ss.hvs) }
      ⟨hop.1, (hintOK_iff _ _ _).mpr hop.2⟩ hl
  | clearRrs => exact limit_liftW (f := clearRrs) hl
  | setEdns p => exact limit_liftW (call_limit (.setEdns p) ss.w trivial hl)
  | setTsig m rr => exact limit_liftW (call_limit (.setTsig m rr) ss.w hop hl)
  | updateTimeSigned t =>
    refine limit_liftW ?_
    unfold updateTimeSigned
    split <;> exact hl
  | template n fill => exact retemplate_limit hI n fill _ mkOK_tryFromTemplate hl
  | templateSubsequent n fill mac => exact retemplate_limit hI n fill _ (mkOK_subsequent mac) hl
  | getters => exact hl

theorem run_limit (ss : Session) (ops : List Op) (hI : I ss.w) (hr : Respects ss ops) (hl : ss.w.limit ≤ 65535)
    (hv : ∀ v, Op.setLimit v ∈ ops → v ≤ 65535) : (run ss ops).1.w.limit ≤ 65535 := by
  induction ops generalizing ss with
  | nil => exact hl
  | cons op ops ih =>
    obtain ⟨hop, hrest⟩ := hr
    obtain ⟨hnp, hI'⟩ := step_I ss op hI hop
    have hs' := step_limit ss op hI hop hl (fun v hx => hv v (by rw [hx]; exact List.mem_cons_self))
    have hv' : ∀ v, Op.setLimit v ∈ ops → v ≤ 65535 := fun v hx => hv v (List.mem_cons_of_mem _ hx)
    unfold run
    cases hs : step ss op with
    | mk r ss' =>
      rw [hs] at hnp hI' hrest hs'
      cases r with
      | panic => exact absurd rfl hnp
      | ok u =>
        simp only []
        have := ih ss' hI' hrest hs' hv'
        cases hrun : run ss' ops with
        | mk ss'' rs => rw [hrun] at this; exact this
      | err e =>
        simp only []
        have := ih ss' hI' hrest hs' hv'
        cases hrun : run ss' ops with
        | mk ss'' rs => rw [hrun] at this; exact this

/-- the finished message of a session whose limit was never above 65535 has at most 65535 octets -/
theorem session_size_le (macFn : Tsig → List UInt8 → List UInt8) (buf : Bytes) (limit : Nat) (s0 : State)
    (hnew : Writer.new buf limit = .ok s0) (hlim : limit ≤ 65535) (mode : CMode) (ops : List Op)
    (hr : Respects { w := { s0 with mode := mode } } ops) (hv : ∀ v, Op.setLimit v ∈ ops → v ≤ 65535)
    (m : Bytes) (mac : Option (List UInt8))
    (hf : finish (run { w := { s0 with mode := mode } } ops).1.w macFn = .ok (m, mac)) : m.size ≤ 65535 := by
  have hI0 : I { s0 with mode := mode } := (safe_setMode mode s0 (new_i buf limit s0 hnew)).2
  have hI := (run_I { w := { s0 with mode := mode } } ops hI0 hr).2
  have hl := run_limit { w := { s0 with mode := mode } } ops hI0 hr (new_limit buf limit s0 hnew hlim) hv
  have := finish_size_le_limit macFn _ hI.inv m mac hf
  omega


/-! ### the compression mode of a session, without reference to the model's state

  The writer's mode is changed by `set_compression_mode` only (`step_mode`), so the mode each item
  was written in (`mrun`) is a function of the initial mode, the calls and their results
  (`modesRun`). -/

def modeAfter (cur : CMode) : Op → CMode
  | .setMode m => m
  | _ => cur

theorem template_mode {s s' : State} {t : Template} (buf : Bytes) (ts : Option Tsig) (hI : I s)
    (ht : intoTemplate s = .ok t) (h' : tryFromTemplateImpl buf t ts = .ok s') : s'.mode = s.mode := by
  have hi := hI.inv
  have h1 := hi.hdr; have h2 := hi.cur_av; have h3 := hi.av_lim; have h4 := hi.lim_size
  unfold intoTemplate at ht
  rw [if_neg (by omega), if_neg (by omega)] at ht
  cases ht
  unfold tryFromTemplateImpl at h'
  simp only at h'
  split at h'
  · cases h'
  · split at h'
    · cases h'
    · cases h'; rfl

theorem retemplate_mode {ss : Session} (hI : I ss.w) (n : Nat) (fill : UInt8)
    (mk : Bytes → Template → Out WriterErr State) (hmk : MkOK mk) :
    (retemplate ss n fill mk).2.w.mode = ss.w.mode := by
  obtain ⟨t, ht⟩ := intoTemplate_ok hI.inv
  unfold retemplate
  rw [ht]
  simp only []
  obtain ⟨sf, hsf⟩ := tryFromTemplate_fallback_ok fill hI.inv ht
  have hlf : sf.mode = ss.w.mode := template_mode _ t.tsig hI ht hsf
  cases hm : mk (Array.replicate n fill) t with
  | ok s' =>
    simp only []
    obtain ⟨ts, h1, _⟩ := hmk.1 _ _ _ hm
    exact template_mode _ ts hI ht h1
  | err e => simp only []; rw [hsf]; exact hlf
  | panic => simp only []; rw [hsf]; exact hlf

theorem addRrOp_mode (sec : RrSection) (h : Hint) (o : WName) (ty cls ttl : Nat) (rd : List UInt8) (s : State) :
    (addRrOp sec h o ty cls ttl rd s).2.mode = s.mode := by
  have hc := addRrOp_cases sec h o ty cls ttl rd s
  cases hr : addRrOp sec h o ty cls ttl rd s with
  | mk r s' =>
    rw [hr] at hc
    cases r with
    | ok u => obtain ⟨s1, e, _, rfl⟩ := hc; rw [← e.mode]; cases sec <;> rfl
    | err e => exact hc.mode
    | panic => exact hc.mode

theorem addRrsetOp_mode (sec : RrSection) (h : Hint) (o : WName) (ty cls ttl : Nat) (rds : List (List UInt8))
    (s : State) : (addRrsetOp sec h o ty cls ttl rds s).2.mode = s.mode := by
  have hc := addRrsetOp_cases sec h o ty cls ttl rds s
  cases hr : addRrsetOp sec h o ty cls ttl rds s with
  | mk r s' =>
    rw [hr] at hc
    cases r with
    | ok u => obtain ⟨s1, n, e, _, rfl⟩ := hc; rw [← e.mode]; cases sec <;> rfl
    | err e => exact hc.mode
    | panic => exact hc.mode

theorem addQuestion_mode (qn : WName) (qt qc : Nat) (s : State) : (addQuestion qn qt qc s).2.mode = s.mode := by
  have hc := addQuestion_cases qn qt qc s
  cases hr : addQuestion qn qt qc s with
  | mk r s' =>
    rw [hr] at hc
    cases r with
    | ok u => obtain ⟨s1, e, _, rfl⟩ := hc; exact e.mode
    | err e => exact hc.mode
    | panic => exact hc.mode

/-- **only `set_compression_mode` changes the mode** -/
theorem step_mode (ss : Session) (op : Op) (hI : I ss.w) : (step ss op).2.w.mode = modeAfter ss.w.mode op := by
  have lw : ∀ {f : M Unit}, (∀ s, HdrOnly s (f s).2) → (liftW ss f).2.w.mode = ss.w.mode := fun hf => by
    rw [liftW_w]; exact (hf ss.w).mode
  cases op with
  | setId v => exact lw (hdrOnly_write _ _ (by show _ + 2 ≤ 12; decide))
  | setQr b' => exact lw (hdrOnly_setHdr _ _ (by decide))
  | setAa b' => exact lw (hdrOnly_setHdr _ _ (by decide))
  | setTc b' => exact lw (hdrOnly_setHdr _ _ (by decide))
  | setRd b' => exact lw (hdrOnly_setHdr _ _ (by decide))
  | setRa b' => exact lw (hdrOnly_setHdr _ _ (by decide))
  | setOpcode v => exact lw (hdrOnly_setHdr _ _ (by decide))
  | setRcode v => exact lw (hdrOnly_setRcode v)
  | setExtendedRcode v => exact lw (f := setExtendedRcode v) (hdrOnly_setExtendedRcode v)
  | setLimit v => exact lw (hdrOnly_setLimit v)
  | setMode m => show (liftW ss (setCompressionMode m)).2.w.mode = m; rw [liftW_w]; rfl
  | addQuestion n t c => show (liftW ss (addQuestion n t c)).2.w.mode = _; rw [liftW_w]; exact addQuestion_mode n t c ss.w
  | addRr sec hn o ty cls ttl rd hv =>
    simp only [step]
    rw [withHv_w]
    exact addRrOp_mode sec _ o ty cls ttl rd _
  | addRrset sec hn o ty cls ttl rds hv =>
    simp only [step]
    rw [withHv_w]
    exact addRrsetOp_mode sec _ o ty cls ttl rds _
  | clearRrs => show (liftW ss clearRrs).2.w.mode = _; rw [liftW_w]; rfl
  | setEdns p =>
    show (liftW ss (setEdns p)).2.w.mode = _
    rw [liftW_w]
    unfold setEdns
    repeat' split
    all_goals rfl
  | setTsig m rr =>
    show (liftW ss (setTsig m rr)).2.w.mode = _
    rw [liftW_w]
    unfold setTsig
    repeat' split
    all_goals rfl
  | updateTimeSigned t => exact lw (hdrOnly_updateTimeSigned t)
  | template n fill => exact retemplate_mode hI n fill _ mkOK_tryFromTemplate
  | templateSubsequent n fill mac => exact retemplate_mode hI n fill _ (mkOK_subsequent mac)
  | getters => rfl

/-- the mode each question / record was written in, from the initial mode, the calls and their
    results alone -/
def modesRun (cur : CMode) (mb : MBody) : List Op → List (Out WriterErr Unit) → MBody
  | op :: ops, r :: rs =>
    modesRun (modeAfter cur op) (if r = .ok () then mbodyStep cur mb op else mb) ops rs
  | _, _ => mb

theorem mrun_eq_modesRun (ss : Session) (ops : List Op) (mb : MBody) (hI : I ss.w) (hr : Respects ss ops) :
    mrun ss mb ops = modesRun ss.w.mode mb ops (run ss ops).2 := by
  induction ops generalizing ss mb with
  | nil => rfl
  | cons op ops ih =>
    obtain ⟨hop, hrest⟩ := hr
    obtain ⟨hnp, hI'⟩ := step_I ss op hI hop
    have hmode := step_mode ss op hI
    unfold mrun run
    cases hs : step ss op with
    | mk r ss' =>
      rw [hs] at hnp hI' hrest hmode
      cases r with
      | panic => exact absurd rfl hnp
      | ok u =>
        simp only [] at hmode ⊢
        have := ih ss' (mbodyStep ss.w.mode mb op) hI' hrest
        cases hrun : run ss' ops with
        | mk ss'' rs =>
          rw [hrun] at this
          simp only [modesRun, if_true]
          rw [this, hmode]
      | err e =>
        simp only [] at hmode ⊢
        have := ih ss' mb hI' hrest
        cases hrun : run ss' ops with
        | mk ss'' rs =>
          rw [hrun] at this
          simp only [modesRun, reduceCtorEq, if_false]
          rw [this, hmode]


theorem run_mode (ss : Session) (ops : List Op) (hI : I ss.w) (hr : Respects ss ops) :
    (run ss ops).1.w.mode = ops.foldl modeAfter ss.w.mode := by
  induction ops generalizing ss with
  | nil => rfl
  | cons op ops ih =>
    obtain ⟨hop, hrest⟩ := hr
    obtain ⟨hnp, hI'⟩ := step_I ss op hI hop
    have hmode := step_mode ss op hI
    unfold run
    cases hs : step ss op with
    | mk r ss' =>
      rw [hs] at hnp hI' hrest hmode
      cases r with
      | panic => exact absurd rfl hnp
      | ok u =>
        simp only [] at hmode ⊢
        have := ih ss' hI' hrest
        cases hrun : run ss' ops with
        | mk ss'' rs => rw [hrun] at this; simp only [List.foldl_cons]; rw [this, hmode]
      | err e =>
        simp only [] at hmode ⊢
        have := ih ss' hI' hrest
        cases hrun : run ss' ops with
        | mk ss'' rs => rw [hrun] at this; simp only [List.foldl_cons]; rw [this, hmode]

end QV.Writer
