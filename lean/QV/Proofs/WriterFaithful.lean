/-
  QV.Proofs.WriterFaithful — discharges `QV.ServerAnswer.WriterRdataFaithful` (C05's hypothesis on
  the writer): `add_*_rr(set)` succeeds only if, and reports `InvalidRdata` only if not, the
  specification's `renderable` holds of the RDATA. From the writer's `addRrOp_rdata` /
  `addRrsetOp_rdata` (acceptance ⟺ `rdataOK`) and: the implementation's component table is the
  specification's layout table up to the last name (`shape_table`).
-/
import QV.Proofs.ServerAnswer
import QV.Proofs.WriterRdata
import QV.Proofs.WriterV0

set_option linter.unusedSimpArgs false
namespace QV.ServerAnswer
open QV QV.Writer QV.Spec QV.Spec.Resolve

/-- a component list as a layout -/
def shapeOf : List CompType → List Field
  | [] => []
  | .compressibleName :: ts => .name :: shapeOf ts
  | .uncompressibleName :: ts => .name :: shapeOf ts
  | .fixedLen n :: ts => .fixed n :: shapeOf ts

theorem locatable_shapeOf : ∀ (ts : List CompType) (rd : List UInt8),
    locatable (shapeOf ts) rd = compsOK ts rd := by
  intro ts
  induction ts with
  | nil => intro rd; rfl
  | cons t ts ih =>
    intro rd
    cases t with
    | compressibleName =>
      simp only [shapeOf, locatable, compsOK, nameAt_eq]
      cases WName.parse rd with
      | none => rfl
      | some p => simp only [Option.map_some]; exact ih _
    | uncompressibleName =>
      simp only [shapeOf, locatable, compsOK, nameAt_eq]
      cases WName.parse rd with
      | none => rfl
      | some p => simp only [Option.map_some]; exact ih _
    | fixedLen n =>
      simp only [shapeOf, locatable, compsOK, ih]

/-- **the component table of the implementation is the layout table of the specification**, up to
    the last embedded name (what follows it is copied, not interpreted), for every class and type -/
theorem shape_table (c t : Nat) :
    (match layoutOf (fmtOf c t) with | some l => uptoLastName l | none => []) =
      shapeOf (V0.componentTypes c t) := by
  rw [V0.componentTypes_arms]
  unfold fmtOf
  by_cases h1 : t = 2 ∨ t = 3 ∨ t = 4 ∨ t = 5 ∨ t = 7 ∨ t = 8 ∨ t = 9 ∨ t = 12
  · rw [if_pos h1, if_pos h1]; simp [layoutOf, shapeOf, uptoLastName]
  rw [if_neg h1, if_neg h1]
  by_cases h2 : t = 1
  · subst h2
    by_cases h3 : c = 3
    · subst h3; simp [layoutOf, shapeOf, uptoLastName]
    · by_cases h4 : c = 1
      · subst h4; simp [layoutOf, shapeOf, uptoLastName]
      · simp [h3, h4, layoutOf, shapeOf, uptoLastName]
  by_cases h6 : t = 6
  · subst h6; simp [layoutOf, shapeOf, uptoLastName]
  by_cases h11 : t = 11
  · subst h11; by_cases hc : c = 1 <;> simp [hc, layoutOf, shapeOf, uptoLastName]
  by_cases h13 : t = 13
  · subst h13; simp [layoutOf, shapeOf, uptoLastName]
  by_cases h14 : t = 14
  · subst h14; simp [layoutOf, shapeOf, uptoLastName]
  by_cases h15 : t = 15
  · subst h15; simp [layoutOf, shapeOf, uptoLastName]
  by_cases h16 : t = 16
  · subst h16; simp [layoutOf, shapeOf, uptoLastName]
  by_cases h28 : t = 28
  · subst h28; by_cases hc : c = 1 <;> simp [hc, layoutOf, shapeOf, uptoLastName]
  by_cases h33 : t = 33
  · subst h33
    by_cases hc : c = 1
    · subst hc; simp [layoutOf, shapeOf, uptoLastName]
    · simp [hc, layoutOf, shapeOf, uptoLastName]
  by_cases h41 : t = 41
  · subst h41; simp [layoutOf, shapeOf, uptoLastName]
  by_cases h250 : t = 250
  · subst h250; simp [layoutOf, shapeOf, uptoLastName]
  simp [h2, h6, h11, h13, h14, h15, h16, h28, h33, h41, h250, layoutOf, shapeOf, uptoLastName]

/-- the specification's `renderable` is the writer's acceptance condition -/
theorem renderable_eq_rdataOK (c t : Nat) (rd : List UInt8) : renderable c t rd = rdataOK c t rd := by
  have hs := shape_table c t
  unfold renderable rdataOK
  rw [componentTypes_v0]
  simp only []
  rw [← locatable_shapeOf, ← hs]
  cases layoutOf (fmtOf c t) with
  | none => rfl
  | some l => rfl

/-- **`WriterRdataFaithful` holds** -/
theorem writerRdataFaithful : WriterRdataFaithful := by
  intro sec hint owner ty cls ttl w
  refine ⟨fun rds => ?_, fun rd => ?_⟩
  · have h := addRrsetOp_rdata sec hint owner ty cls ttl rds w
    have e : rds.all (renderable cls ty) = rds.all (rdataOK cls ty) := by
      congr 1; funext rd; exact renderable_eq_rdataOK cls ty rd
    rw [e]; exact h
  · have h := addRrOp_rdata sec hint owner ty cls ttl rd w
    rw [renderable_eq_rdataOK]; exact h

end QV.ServerAnswer
