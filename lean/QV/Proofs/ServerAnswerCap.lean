/-
  QV.Proofs.ServerAnswerCap — the errors the answer phase cannot meet (helpers of C05 at full
  strength): besides `Truncation` and `InvalidRdata`, `add_*_rr(set)` can fail with `OutOfOrder`
  and `CountOverflow`, and it can panic. None of these is reachable from the state in which
  `handle_query` is entered:

    * `OutOfOrder`     — the phase adds answer, then authority, then additional records
                         (`rank` of the writer's section never exceeds that of the next call);
    * `CountOverflow`  — every accepted record occupies at least 10 octets (`Nice 10 (addRr …)`)
                         below a limit of at most 65 535 octets, so a count stays below 6 556;
    * panics           — C01 (`handleNonAxfrQueryL_safe`): the handler does not panic, and a logged
                         panic is a panic of the handler (`CapJ`'s third clause).

  Part 1 is about the writer model alone (one judgement `Nice b f`: `f` keeps the section, fails
  only with `Truncation`/`InvalidRdata`, and advances the cursor by at least `b` on success);
  part 2 pushes `CapPre` through the answer phase of the server model (`CapJ m r r'`).
-/
import QV.Proofs.ServerAnswer
import QV.Proofs.ServerQuery
import QV.Proofs.WriterLayout

namespace QV.ServerAnswer
open QV QV.Writer QV.Server QV.Zone

/-! ## part 1: the writer -/

/-- `f` keeps the section, fails only with `Truncation` or `InvalidRdata`, and advances the
    cursor by at least `b` octets when it succeeds -/
def Nice {α} (b : Nat) (f : M α) : Prop :=
  ∀ s, (f s).2.sect = s.sect ∧
    (∀ e, (f s).1 = .err e → e = .Truncation ∨ e = .InvalidRdata) ∧
    (∀ a, (f s).1 = .ok a → s.cursor + b ≤ (f s).2.cursor)

theorem nice_mono {α} {b b' : Nat} {f : M α} (h : Nice b f) (hb : b' ≤ b) : Nice b' f := by
  intro s
  obtain ⟨h1, h2, h3⟩ := h s
  exact ⟨h1, h2, fun a ha => by have := h3 a ha; omega⟩

theorem nice_bind {α β} {b1 b2 : Nat} {f : M α} {g : α → M β} (hf : Nice b1 f) (hg : ∀ a, Nice b2 (g a)) :
    Nice (b1 + b2) (f >>= g) := by
  intro s
  obtain ⟨h1, h2, h3⟩ := hf s
  simp only [M.bind_apply]
  cases hfs : f s with
  | mk r s1 =>
    rw [hfs] at h1 h2 h3
    cases r with
    | ok a =>
      obtain ⟨g1, g2, g3⟩ := hg a s1
      simp only [] at h1 h3 ⊢
      refine ⟨by rw [g1, h1], g2, fun x hx => ?_⟩
      have := h3 a rfl
      have := g3 x hx
      omega
    | err e =>
      simp only [] at h1 h2 ⊢
      exact ⟨h1, fun e' he' => (by simp only [Out.err.injEq] at he'; subst he'; exact h2 e rfl), fun a ha => by cases ha⟩
    | panic => simp only [] at h1 ⊢; exact ⟨h1, fun e he => (by cases he), fun a ha => by cases ha⟩

theorem nice_bind_left {α β} {b : Nat} {f : M α} {g : α → M β} (hf : Nice b f) (hg : ∀ a, Nice 0 (g a)) :
    Nice b (f >>= g) := by
  have := nice_bind hf hg
  simpa using this

theorem nice_bind0 {α β} {b : Nat} {f : M α} {g : α → M β} (hf : Nice 0 f) (hg : ∀ a, Nice b (g a)) :
    Nice b (f >>= g) := by
  have := nice_bind hf hg
  simpa using this

theorem nice_pure {α} (a : α) : Nice 0 (pure a : M α) :=
  fun s => ⟨rfl, fun e he => (by cases he), fun x hx => by simp⟩
theorem nice_panic {α} {b : Nat} : Nice b (M.panic : M α) :=
  fun s => ⟨rfl, fun e he => (by cases he), fun x hx => by cases hx⟩
theorem nice_fail {α} (b : Nat) (e : WriterErr) (he : e = .Truncation ∨ e = .InvalidRdata) : Nice b (M.fail e : M α) :=
  fun s => ⟨rfl, fun e' h => (by simp only [M.fail_apply, Out.err.injEq] at h; rw [← h]; exact he),
    fun x hx => by cases hx⟩
theorem nice_gets {α} (f : State → α) : Nice 0 (M.gets f) :=
  fun s => ⟨rfl, fun e he => (by cases he), fun x hx => by simp⟩
theorem nice_modify (b : Nat) (f : State → State) (hs : ∀ s, (f s).sect = s.sect)
    (hc : ∀ s, s.cursor + b ≤ (f s).cursor) : Nice b (M.modify f) :=
  fun s => ⟨hs s, fun e he => (by cases he), fun x hx => by simpa using hc s⟩

theorem nice_gets_bind {α β} {b : Nat} {f : State → α} {g : α → M β} (hg : ∀ a, Nice b (g a)) :
    Nice b (M.gets f >>= g) := nice_bind0 (nice_gets f) hg

theorem nice_tryPush (d : List UInt8) : Nice d.length (tryPush d) := by
  intro s
  unfold tryPush
  split
  · exact ⟨rfl, fun e he => (by cases he), fun x hx => by cases hx⟩
  · split
    · split
      · exact ⟨rfl, fun e he => (by cases he), fun x hx => by simp⟩
      · exact ⟨rfl, fun e he => (by cases he), fun x hx => by cases hx⟩
    · exact ⟨rfl, fun e he => (by simp only [Out.err.injEq] at he; exact Or.inl he.symm), fun x hx => by cases hx⟩

theorem nice_write (pos : Nat) (d : List UInt8) : Nice 0 (write pos d) := by
  intro s
  unfold write
  split
  · exact ⟨rfl, fun e he => (by cases he), fun x hx => by simp⟩
  · exact ⟨rfl, fun e he => (by cases he), fun x hx => by cases hx⟩

theorem nice_setCtx (c : NameCtx) : Nice 0 (setCtx c) :=
  nice_modify 0 _ (fun _ => rfl) (fun _ => Nat.le_refl _)

theorem nice_ghostLabels (p : Nat) (l : List Label) (b : Bool) : Nice 0 (ghostLabels p l b) :=
  nice_modify 0 _ (fun _ => rfl) (fun _ => Nat.le_refl _)

theorem nice_hvPush (p : Option Nat) : Nice 0 (hvPush p) := by
  unfold hvPush
  refine nice_modify 0 _ (fun s => ?_) (fun s => ?_)
  · split
    · split <;> rfl
    · rfl
  · split
    · split <;> simp
    · simp

theorem nice_pushPointer (p : Nat) : Nice 0 (pushPointer p) := by
  unfold pushPointer
  refine nice_gets_bind fun ev => nice_bind0 (nice_mono (nice_tryPush _) (Nat.zero_le _)) fun _ => ?_
  exact nice_modify 0 _ (fun _ => rfl) (fun _ => Nat.le_refl _)

theorem nice_writeUncompressedName (n : WName) : Nice 0 (writeUncompressedName n) := by
  unfold writeUncompressedName
  exact nice_gets_bind fun cur => nice_bind0 (nice_mono (nice_tryPush _) (Nat.zero_le _)) fun _ =>
    nice_bind0 (nice_ghostLabels _ _ _) fun _ => nice_pure _

theorem nice_writeCompressedUnhintedName (n : WName) : Nice 0 (writeCompressedUnhintedName n) := by
  unfold writeCompressedUnhintedName
  refine nice_gets_bind fun d => nice_gets_bind fun cur => ?_
  cases d with
  | panic => exact nice_panic
  | err e => exact nice_panic
  | ok r =>
    cases r with
    | none => exact nice_writeUncompressedName n
    | some m =>
      simp only []
      split
      · exact nice_bind0 (nice_pushPointer _) fun _ => nice_pure _
      · exact nice_bind0 (nice_mono (nice_tryPush _) (Nat.zero_le _)) fun _ =>
          nice_bind0 (nice_ghostLabels _ _ _) fun _ => nice_bind0 (nice_pushPointer _) fun _ => nice_pure _

theorem nice_writeUnhintedName (n : WName) : Nice 0 (writeUnhintedName n) := by
  unfold writeUnhintedName
  refine nice_gets_bind fun mode => ?_
  split
  · exact nice_writeCompressedUnhintedName n
  · exact nice_writeUncompressedName n

theorem nice_pushHinted (p : Prior) : Nice 0 (pushHinted p) := by
  unfold pushHinted
  exact nice_bind0 (nice_pushPointer _) fun _ => nice_pure _

theorem nice_writeHintedName (h : Hint) (n : WName) : Nice 0 (writeHintedName h n) := by
  unfold writeHintedName
  refine nice_gets_bind fun mode => ?_
  split
  · exact nice_writeUncompressedName n
  · split
    · exact nice_writeCompressedUnhintedName n
    · cases h with
      | qname =>
        refine nice_gets_bind fun q => ?_
        cases q with
        | some q => exact nice_pushHinted q
        | none => exact nice_writeCompressedUnhintedName n
      | mostRecentOwner =>
        refine nice_gets_bind fun q => ?_
        cases q with
        | some q => exact nice_pushHinted q
        | none => exact nice_writeCompressedUnhintedName n
      | mostRecentNameInRdata =>
        refine nice_gets_bind fun q => ?_
        cases q with
        | some q => exact nice_pushHinted q
        | none => exact nice_writeCompressedUnhintedName n
      | explicit p =>
        refine nice_gets_bind fun cur => ?_
        split
        · exact nice_pushHinted _
        · exact nice_writeCompressedUnhintedName n
      | none => exact nice_writeCompressedUnhintedName n

theorem nice_writeComponents (ts : List CompType) (rd : List UInt8) : Nice 0 (writeComponents ts rd) := by
  induction ts generalizing rd with
  | nil =>
    unfold writeComponents
    split
    · exact nice_pure _
    · exact nice_mono (nice_tryPush _) (Nat.zero_le _)
  | cons t ts ih =>
    cases t with
    | compressibleName =>
      unfold writeComponents
      cases WName.parse rd with
      | none => exact nice_fail 0 _ (Or.inr rfl)
      | some p =>
        obtain ⟨n, rest⟩ := p
        exact nice_bind0 (nice_setCtx _) fun _ => nice_bind0 (nice_writeUnhintedName n) fun p =>
          nice_bind0 (nice_setCtx _) fun _ =>
          nice_bind0 (nice_modify 0 _ (fun _ => rfl) (fun _ => Nat.le_refl _)) fun _ =>
          nice_bind0 (nice_hvPush _) fun _ => ih rest
    | uncompressibleName =>
      unfold writeComponents
      cases WName.parse rd with
      | none => exact nice_fail 0 _ (Or.inr rfl)
      | some p =>
        obtain ⟨n, rest⟩ := p
        exact nice_bind0 (nice_setCtx _) fun _ => nice_bind0 (nice_writeUncompressedName n) fun p =>
          nice_bind0 (nice_setCtx _) fun _ =>
          nice_bind0 (nice_modify 0 _ (fun _ => rfl) (fun _ => Nat.le_refl _)) fun _ =>
          nice_bind0 (nice_hvPush _) fun _ => ih rest
    | fixedLen k =>
      unfold writeComponents
      split
      · exact nice_fail 0 _ (Or.inr rfl)
      · exact nice_bind0 (nice_mono (nice_tryPush _) (Nat.zero_le _)) fun _ => ih _

theorem nice_writeRdata (cls ty : Nat) (rd : List UInt8) : Nice 0 (writeRdata cls ty rd) := by
  unfold writeRdata
  cases componentTypes cls ty with
  | none => exact nice_panic
  | some ts => exact nice_writeComponents ts rd

/-- **every record occupies at least 10 octets** (type, class, TTL, RDLENGTH), keeps the section
    and fails only with `Truncation` / `InvalidRdata` -/
theorem nice_addRr (hint : Hint) (owner : WName) (ty cls ttl : Nat) (rd : List UInt8) :
    Nice 10 (addRr hint owner ty cls ttl rd) := by
  unfold addRr
  refine nice_bind0 (nice_setCtx _) fun _ => nice_bind0 (nice_writeHintedName hint owner) fun p =>
    nice_bind0 (nice_setCtx _) fun _ =>
    nice_bind0 (nice_modify 0 _ (fun _ => rfl) (fun _ => Nat.le_refl _)) fun _ => ?_
  have h2 : ∀ v, Nice 2 (tryPushU16 v) := fun v => by
    have := nice_tryPush (u16be v); simpa [tryPushU16, u16be] using this
  have h4 : ∀ v, Nice 4 (tryPushU32 v) := fun v => by
    have := nice_tryPush (u32be v); simpa [tryPushU32, u32be] using this
  have key : Nice (2 + (2 + (4 + 2))) (do
      tryPushU16 ty
      tryPushU16 cls
      tryPushU32 ttl
      let av ← M.gets (·.available)
      let rdlengthStart ← M.gets (·.cursor)
      if av < rdlengthStart then M.panic
      else if av - rdlengthStart < 2 then M.fail .Truncation
      else do
        M.modify fun s => { s with cursor := s.cursor + 2 }
        writeRdata cls ty rd
        let cur' ← M.gets (·.cursor)
        if cur' < rdlengthStart + 2 then M.panic
        else write rdlengthStart (u16be ((cur' - rdlengthStart - 2) % 65536)) : M Unit) := by
    refine nice_bind (h2 _) fun _ => nice_bind (h2 _) fun _ => nice_bind (h4 _) fun _ =>
      nice_gets_bind fun av => nice_gets_bind fun st => ?_
    split
    · exact nice_panic
    · split
      · exact nice_fail 2 _ (Or.inl rfl)
      · refine nice_bind_left
          (nice_modify 2 (fun s => { s with cursor := s.cursor + 2 }) (fun _ => rfl) (fun _ => Nat.le_refl _))
          (fun _ => nice_bind0 (nice_writeRdata cls ty rd) fun _ => nice_gets_bind fun cur' => ?_)
        split
        · exact nice_panic
        · exact nice_write _ _
  exact nice_mono key (by omega)

theorem nice_addRrset (owner : WName) (ty cls ttl : Nat) :
    ∀ (rds : List (List UInt8)) (hint : Hint) (n : Nat), Nice (10 * rds.length) (addRrset hint owner ty cls ttl rds n) := by
  intro rds
  induction rds with
  | nil => intro hint n; unfold addRrset; exact nice_pure _
  | cons rd rest ih =>
    intro hint n
    unfold addRrset
    refine nice_mono (nice_bind (nice_addRr hint owner ty cls ttl rd) fun _ => ih _ _) ?_
    simp only [List.length_cons]; omega

/-! ### the state in which no capacity error other than `Truncation` is possible -/

/-- sections in message order -/
def rank : Section → Nat
  | .question => 0
  | .answer => 1
  | .authority => 2
  | .additional => 3

def rrank : RrSection → Nat
  | .answer => 1
  | .authority => 2
  | .additional => 3

theorem rank_toSect (sec : RrSection) : rank (toSect sec) = rrank sec := by cases sec <;> rfl

/-- the records not yet written: the reserved OPT and TSIG records -/
def resv (s : State) : Nat := (if s.edns.isSome then 1 else 0) + (if s.tsig.isSome then 1 else 0)

/-- every counted record that has been written occupies at least 10 octets below the cursor -/
def CountInv (s : State) : Prop := 10 * (s.ancount + s.nscount + s.arcount) ≤ s.cursor + 10 * resv s

/-- the writer invariant (C12), a limit a message can have (at most 65 535 octets: the length
    field of TCP framing, the class field of OPT), the count invariant, and the section reached -/
def CapPre (s : State) (r : Nat) : Prop := Writer.Inv s ∧ s.limit ≤ 65535 ∧ CountInv s ∧ rank s.sect ≤ r

theorem CapPre.mono {s : State} {r r' : Nat} (h : CapPre s r) (hr : r ≤ r') : CapPre s r' :=
  ⟨h.1, h.2.1, h.2.2.1, Nat.le_trans h.2.2.2 hr⟩

theorem capPre_hv {s : State} {r : Nat} (v : Option HV) : CapPre { s with hv := v } r ↔ CapPre s r := by
  constructor
  · rintro ⟨h1, h2, h3, h4⟩
    refine ⟨?_, h2, h3, h4⟩
    have := inv_hv h1 s.hv
    exact this
  · rintro ⟨h1, h2, h3, h4⟩
    exact ⟨inv_hv h1 v, h2, h3, h4⟩

theorem capPre_same {s s' : State} {r : Nat} (h : CapPre s r) (e : Same s s') : CapPre s' r := by
  obtain ⟨h1, h2, h3, h4⟩ := h
  refine ⟨inv_of_same h1 e, by rw [e.limit]; exact h2, ?_, by rw [e.sect]; exact h4⟩
  unfold CountInv resv at h3 ⊢
  rw [e.an, e.ns, e.ar, e.cursor, e.edns, e.tsig]; exact h3

theorem changeSection_cases (sec : RrSection) (s : State) (h : rank s.sect ≤ rrank sec) :
    changeSection sec s = (.ok (), { s with sect := toSect sec }) := by
  unfold changeSection
  cases sec <;> cases hs : s.sect <;> simp_all [rank, rrank, toSect]
  all_goals (cases s; simp_all)

/-- the bound that keeps the counts small: below a 65 535-octet limit fewer than 6 556 records fit -/
theorem count_small {s s2 : State} (hi : Writer.Inv s) (hl : s.limit ≤ 65535) (hc : CountInv s) (e : Ext s s2)
    (n : Nat) (hg : s.cursor + 10 * n ≤ s2.cursor) (sec : RrSection) :
    n ≤ 65535 ∧ getCount sec s2 + n ≤ 65535 ∧
      10 * (s2.ancount + s2.nscount + s2.arcount + n) ≤ s2.cursor + 10 * resv s2 := by
  have h1 := e.avail hi.cur_av
  have h2 := hi.av_lim
  have hr : resv s ≤ 2 := by unfold resv; split <;> split <;> omega
  have hr2 : resv s2 = resv s := by unfold resv; rw [e.edns, e.tsig]
  unfold CountInv at hc
  have han := e.an; have hns := e.ns; have har := e.ar
  have hgc : getCount sec s2 ≤ s2.ancount + s2.nscount + s2.arcount := by
    cases sec <;> simp [getCount] <;> omega
  refine ⟨by omega, by omega, ?_⟩
  rw [hr2, han, hns, har]; omega

theorem capPre_setCount {s s2 : State} {k : Nat} (hi : Writer.Inv s) (hl : s.limit ≤ 65535) (hc : CountInv s)
    (e : Ext s s2) (n : Nat) (hg : s.cursor + 10 * n ≤ s2.cursor) (sec : RrSection)
    (hs : s2.sect = toSect sec) (hk : rrank sec ≤ k) :
    CapPre (setCount sec (getCount sec s2 + n) s2).2 k := by
  obtain ⟨h1, h2, h3⟩ := count_small hi hl hc e n hg sec
  have hi2 : Writer.Inv s2 := inv_of_ext hi e
  refine ⟨inv_setCount hi2 sec n h2, ?_, ?_, ?_⟩
  · cases sec <;> simp only [setCount, M.modify_apply] <;> rw [e.limit] <;> exact hl
  · have hres : resv (setCount sec (getCount sec s2 + n) s2).2 = resv s2 := by cases sec <;> rfl
    unfold CountInv
    rw [hres]
    cases sec <;> simp only [setCount, getCount, M.modify_apply] <;> omega
  · have : (setCount sec (getCount sec s2 + n) s2).2.sect = s2.sect := by
      cases sec <;> simp [setCount]
    rw [this, hs, rank_toSect]; exact hk

/-- **`add_*_rrset` from a state whose section is not past the call's**: the only errors are
    `Truncation` and `InvalidRdata`, and the state stays of that kind -/
theorem cap_addRrsetOp (sec : RrSection) (hint : Hint) (owner : WName) (ty cls ttl : Nat)
    (rds : List (List UInt8)) (s : State) (h : CapPre s (rrank sec)) :
    match addRrsetOp sec hint owner ty cls ttl rds s with
    | (.ok _, s') => CapPre s' (rrank sec)
    | (.err e, s') => (e = .Truncation ∨ e = .InvalidRdata) ∧ CapPre s' (rrank sec)
    | (.panic, _) => True := by
  obtain ⟨hi, hl, hc, hr⟩ := h
  unfold addRrsetOp
  rw [withRollback_apply]
  simp only [M.bind_apply]
  rw [changeSection_cases sec s hr]
  simp only []
  have e1 : Ext s { s with sect := toSect sec } := by constructor <;> simp
  have hn := nice_addRrset owner ty cls (ttlFrom ttl) rds hint 0 { s with sect := toSect sec }
  cases h2 : addRrset hint owner ty cls (ttlFrom ttl) rds 0 { s with sect := toSect sec } with
  | mk r2 s2 =>
    rw [h2] at hn
    obtain ⟨hs2, he2, hg2⟩ := hn
    have e2 : Ext s s2 := by
      have := frame_addRrset hint owner ty cls (ttlFrom ttl) rds 0 { s with sect := toSect sec }
      rw [h2] at this
      exact Ext.trans e1 this
    cases r2 with
    | err e => exact ⟨he2 e rfl, capPre_same ⟨hi, hl, hc, hr⟩ (same_restore e2)⟩
    | panic => trivial
    | ok n =>
      have hcount : n = 0 + rds.length := addRrset_count owner ty cls (ttlFrom ttl) rds hint 0 _ _ n h2
      have hg : s.cursor + 10 * n ≤ s2.cursor := by
        have := hg2 n rfl
        simp only [] at this
        omega
      obtain ⟨c1, c2, _⟩ := count_small hi hl hc e2 n hg sec
      simp only [M.gets_apply]
      rw [if_neg (by omega), if_neg (by omega)]
      exact capPre_setCount hi hl hc e2 n hg sec (by rw [hs2]) (Nat.le_refl _)

theorem cap_addRrOp (sec : RrSection) (hint : Hint) (owner : WName) (ty cls ttl : Nat)
    (rd : List UInt8) (s : State) (h : CapPre s (rrank sec)) :
    match addRrOp sec hint owner ty cls ttl rd s with
    | (.ok _, s') => CapPre s' (rrank sec)
    | (.err e, s') => (e = .Truncation ∨ e = .InvalidRdata) ∧ CapPre s' (rrank sec)
    | (.panic, _) => True := by
  obtain ⟨hi, hl, hc, hr⟩ := h
  unfold addRrOp
  rw [withRollback_apply]
  simp only [M.bind_apply]
  rw [changeSection_cases sec s hr]
  simp only []
  have e1 : Ext s { s with sect := toSect sec } := by constructor <;> simp
  have hn := nice_addRr hint owner ty cls (ttlFrom ttl) rd { s with sect := toSect sec }
  cases h2 : addRr hint owner ty cls (ttlFrom ttl) rd { s with sect := toSect sec } with
  | mk r2 s2 =>
    rw [h2] at hn
    obtain ⟨hs2, he2, hg2⟩ := hn
    have e2 : Ext s s2 := by
      have := frame_addRr hint owner ty cls (ttlFrom ttl) rd { s with sect := toSect sec }
      rw [h2] at this
      exact Ext.trans e1 this
    cases r2 with
    | err e => exact ⟨he2 e rfl, capPre_same ⟨hi, hl, hc, hr⟩ (same_restore e2)⟩
    | panic => trivial
    | ok u =>
      have hg : s.cursor + 10 * 1 ≤ s2.cursor := by
        have := hg2 u rfl
        simp only [] at this
        omega
      obtain ⟨c1, c2, _⟩ := count_small hi hl hc e2 1 hg sec
      simp only [M.gets_apply]
      rw [if_neg (by omega)]
      exact capPre_setCount hi hl hc e2 1 hg sec (by rw [hs2]) (Nat.le_refl _)

/-! ## part 2: the answer phase -/

/-- a logged call failed, if at all, with `Truncation` or `InvalidRdata` -/
def TIEv (e : Ev) : Prop := ∀ a, e = .add a → ∀ x, a.res = .err x → x = .Truncation ∨ x = .InvalidRdata

/-- the event does not record a panic (or a failed header operation) -/
def NoPanicEv (e : Ev) : Prop := e ≠ .bad ∧ ∀ a, e = .add a → a.res ≠ .panic

/-- `m`, entered with the writer in a `CapPre _ r` state: logs only calls whose errors are
    `Truncation`/`InvalidRdata`; logs a panic only if it panics itself; and leaves a
    `CapPre _ r'` state when it succeeds -/
def CapJ {α} (m : PM α) (r r' : Nat) : Prop :=
  ∀ ps : PS, CapPre ps.w r → ∃ evs, (m ps).2.log = ps.log ++ evs ∧ (∀ e ∈ evs, TIEv e) ∧
    ((m ps).1 ≠ .panic → ∀ e ∈ evs, NoPanicEv e) ∧ (∀ a, (m ps).1 = .ok a → CapPre (m ps).2.w r')

theorem CapJ.pure {α} (a : α) (r : Nat) : CapJ (Pure.pure a : PM α) r r := by
  intro ps h
  exact ⟨[], by simp [pure_def], by simp, by simp, fun x hx => by simpa [pure_def] using h⟩

theorem CapJ.fail {α} (e : PErr) (r r' : Nat) : CapJ (PM.fail e : PM α) r r' := by
  intro ps h
  exact ⟨[], by simp [PM.fail], by simp, by simp, fun x hx => by simp [PM.fail] at hx⟩

theorem CapJ.panic {α} (r r' : Nat) : CapJ (PM.panic : PM α) r r' := by
  intro ps h
  exact ⟨[], by simp [PM.panic], by simp, by simp, fun x hx => by simp [PM.panic] at hx⟩

theorem CapJ.weaken {α} {m : PM α} {r0 r r' r1 : Nat} (h : CapJ m r r') (h0 : r0 ≤ r) (h1 : r' ≤ r1) :
    CapJ m r0 r1 := by
  intro ps hp
  obtain ⟨evs, a, b, c, d⟩ := h ps (hp.mono h0)
  exact ⟨evs, a, b, c, fun x hx => (d x hx).mono h1⟩

theorem CapJ.bind {α β} {m : PM α} {f : α → PM β} {r r1 r2 : Nat}
    (h1 : CapJ m r r1) (h2 : ∀ a, CapJ (f a) r1 r2) : CapJ (m >>= f) r r2 := by
  intro ps hp
  obtain ⟨evs1, hl1, ht1, hn1, hc1⟩ := h1 ps hp
  rw [bind_def]
  rcases hm : m ps with ⟨(a | e | _), ps1⟩
  · rw [hm] at hl1 hn1 hc1
    obtain ⟨evs2, hl2, ht2, hn2, hc2⟩ := h2 a ps1 (hc1 a rfl)
    refine ⟨evs1 ++ evs2, ?_, ?_, ?_, hc2⟩
    · simp only [] at hl1 ⊢; rw [hl2, hl1, List.append_assoc]
    · intro e he
      rcases List.mem_append.mp he with h | h
      · exact ht1 e h
      · exact ht2 e h
    · intro hnp e he
      rcases List.mem_append.mp he with h | h
      · exact hn1 (by simp) e h
      · exact hn2 hnp e h
  · rw [hm] at hl1 hn1
    exact ⟨evs1, hl1, ht1, fun _ => hn1 (by simp), by intro x hx; simp at hx⟩
  · rw [hm] at hl1
    exact ⟨evs1, hl1, ht1, by intro h; simp at h, by intro x hx; simp at hx⟩

/-- a header operation: never an error, keeps the invariant, the limit, the counts and the section -/
structure HdrKeeps (m : M Unit) : Prop where
  total : Total m
  hdr : ∀ s, HdrOnly s (m s).2
  limit : ∀ s, (m s).2.limit = s.limit

theorem capPre_hdr {m : M Unit} (hk : HdrKeeps m) {s : State} {r : Nat} (h : CapPre s r) : CapPre (m s).2 r := by
  obtain ⟨h1, h2, h3, h4⟩ := h
  have k := hk.hdr s
  refine ⟨(hk.total s).2 h1, by rw [hk.limit]; exact h2, ?_, by rw [k.sect]; exact h4⟩
  unfold CountInv resv at h3 ⊢
  rw [k.an, k.ns, k.ar, k.cursor, k.edns, k.tsig]; exact h3

theorem setHdr_limit (i : Nat) (f : UInt8 → UInt8) (s : State) : (setHdr i f s).2.limit = s.limit := by
  unfold setHdr; split <;> rfl

theorem hdrKeeps_setBit (b m : Nat) (v : Bool) (hb : b < 12) : HdrKeeps (setBit b m v) :=
  ⟨total_setBit b m v, fun s => hdrOnly_setHdr b _ hb s, fun s => setHdr_limit b _ s⟩

theorem hdrKeeps_setRcode (v : Nat) : HdrKeeps (setRcode v) := by
  refine ⟨total_setRcode v, hdrOnly_setRcode v, fun s => ?_⟩
  unfold setRcode
  simp only [M.bind_apply]
  have := setHdr_limit Gen.RCODE_BYTE (fun b => (b &&& ~~~ (UInt8.ofNat Gen.RCODE_MASK)) ||| UInt8.ofNat v) s
  cases hs : setHdr Gen.RCODE_BYTE (fun b => (b &&& ~~~ (UInt8.ofNat Gen.RCODE_MASK)) ||| UInt8.ofNat v) s with
  | mk r s1 =>
    rw [hs] at this
    cases r with
    | ok u =>
      simp only [M.modify_apply]
      split <;> exact this
    | err e => exact this
    | panic => exact this

theorem CapJ.hdrOp (ev : Ev) (m : M Unit) (hk : HdrKeeps m) (hev : ev ≠ .bad) (hadd : ∀ a, ev ≠ .add a) (r : Nat) :
    CapJ (PM.hdrOp ev m) r r := by
  intro ps hp
  have hpost := capPre_hdr hk hp
  have htot := (hk.total ps.w).1
  unfold PM.hdrOp
  rcases h : m ps.w with ⟨(u | e | _), w'⟩
  · rw [h] at hpost
    refine ⟨[ev], by simp, ?_, ?_, fun x hx => by simpa using hpost⟩
    · intro e he a ha; simp only [List.mem_singleton] at he; subst he; exact absurd ha (hadd a)
    · intro _ e he; simp only [List.mem_singleton] at he; subst he
      exact ⟨hev, fun a ha => absurd ha (hadd a)⟩
  · exact absurd (by rw [h]) (htot e)
  · refine ⟨[.bad], by simp, ?_, by simp, by simp⟩
    intro e he a ha; simp only [List.mem_singleton] at he; subst he; cases ha

theorem CapJ.setAa (b : Bool) (r : Nat) : CapJ (PM.setAa b) r r :=
  CapJ.hdrOp _ _ (hdrKeeps_setBit _ _ _ (by decide)) (by simp) (by simp) r

theorem CapJ.setRcode (v : Nat) (r : Nat) : CapJ (PM.setRcode v) r r :=
  CapJ.hdrOp _ _ (hdrKeeps_setRcode v) (by simp) (by simp) r

/-- a logged record-adding call whose writer call satisfies the `cap_*` lemma -/
theorem CapJ.addCall (ev : AddEv) (m : M HV) (k : Nat)
    (hm : ∀ s, CapPre s k → match m s with
      | (.ok _, s') => CapPre s' k
      | (.err e, s') => (e = .Truncation ∨ e = .InvalidRdata) ∧ CapPre s' k
      | (.panic, _) => True) : CapJ (PM.addCall ev m) k k := by
  intro ps hp
  have h0 := hm ps.w hp
  unfold PM.addCall
  rcases h : m ps.w with ⟨(hv | e | _), w'⟩
  · rw [h] at h0
    refine ⟨[.add { ev with res := .ok () }], by simp, ?_, ?_, fun x hx => by simpa using h0⟩
    · intro e he a ha x hx; simp only [List.mem_singleton] at he; subst he; cases ha; cases hx
    · intro _ e he; simp only [List.mem_singleton] at he; subst he
      exact ⟨by simp, fun a ha => by cases ha; simp⟩
  · rw [h] at h0
    have hti : ∀ e' ∈ [Ev.add { ev with res := .err e }], TIEv e' := by
      intro e' he a ha x hx; simp only [List.mem_singleton] at he; subst he; cases ha
      simp only [Out.err.injEq] at hx; subst hx; exact h0.1
    have hnp : ∀ e' ∈ [Ev.add { ev with res := .err e }], NoPanicEv e' := by
      intro e' he; simp only [List.mem_singleton] at he; subst he
      exact ⟨by simp, fun a ha => by cases ha; simp⟩
    by_cases ht : ev.optional = true ∧ e = .Truncation
    · simp only []
      rw [if_pos ht]
      exact ⟨_, rfl, hti, fun _ => hnp, fun x hx => h0.2⟩
    · simp only []
      rw [if_neg ht]
      exact ⟨_, rfl, hti, fun _ => hnp, fun x hx => by cases hx⟩
  · refine ⟨[.add { ev with res := .panic }], by simp, ?_, by simp, by simp⟩
    intro e he a ha x hx; simp only [List.mem_singleton] at he; subst he; cases ha; cases hx

theorem cap_withHv {m : M Unit} {k : Nat}
    (hm : ∀ s, CapPre s k → match m s with
      | (.ok _, s') => CapPre s' k
      | (.err e, s') => (e = .Truncation ∨ e = .InvalidRdata) ∧ CapPre s' k
      | (.panic, _) => True) :
    ∀ s, CapPre s k → match Server.withHv [] m s with
      | (.ok _, s') => CapPre s' k
      | (.err e, s') => (e = .Truncation ∨ e = .InvalidRdata) ∧ CapPre s' k
      | (.panic, _) => True := by
  intro s hp
  have h0 := hm { s with hv := some [] } ((capPre_hv _).mpr hp)
  unfold Server.withHv
  rcases h : m { s with hv := some [] } with ⟨(u | e | _), s'⟩
  · rw [h] at h0; exact (capPre_hv _).mpr h0
  · rw [h] at h0; exact ⟨h0.1, (capPre_hv _).mpr h0.2⟩
  · trivial

theorem CapJ.addRrs (opt : Bool) (sec : RrSection) (hint : Hint) (owner : WName) (ty cls ttl : Nat)
    (rds : List (List UInt8)) : CapJ (PM.addRrs opt sec hint owner ty cls ttl rds) (rrank sec) (rrank sec) :=
  CapJ.addCall _ _ _ (cap_withHv (cap_addRrsetOp sec hint owner ty cls ttl rds))

theorem CapJ.addRr1 (sec : RrSection) (hint : Hint) (owner : WName) (ty cls ttl : Nat) (rd : List UInt8) :
    CapJ (PM.addRr1 sec hint owner ty cls ttl rd) (rrank sec) (rrank sec) := by
  unfold PM.addRr1
  exact CapJ.bind (CapJ.addCall _ _ _ (cap_withHv (cap_addRrOp sec hint owner ty cls ttl rd)))
    (fun _ => CapJ.pure () _)

/-! ### the functions of query.rs -/

theorem CapJ.readName (rd : List UInt8) (start : Nat) (r : Nat) : CapJ (readNameFromRdata rd start) r r := by
  unfold readNameFromRdata
  split
  · exact CapJ.fail _ _ _
  · split
    · exact CapJ.pure _ _
    · exact CapJ.fail _ _ _

theorem CapJ.aaaaPart (z : Zone.Zone) (hint : Hint) (owner : WName) (opt : Bool) (aaaa : Option Rrset) :
    CapJ (Server.addAaaa z hint owner opt aaaa) 3 3 := by
  unfold Server.addAaaa
  split
  · cases aaaa with
    | none => exact CapJ.pure () 3
    | some r => exact CapJ.bind (CapJ.addRrs opt .additional hint owner _ _ _ _) (fun _ => CapJ.pure () 3)
  · exact CapJ.pure () 3

theorem CapJ.addrs (z : Zone.Zone) (hint : Hint) (owner : WName) (sbc opt : Bool) :
    CapJ (addAdditionalAddresses z hint owner sbc opt) 3 3 := by
  unfold addAdditionalAddresses
  split
  · next a aaaa sos _ =>
    cases a with
    | none => exact CapJ.aaaaPart z hint owner opt aaaa
    | some r =>
      refine CapJ.bind (CapJ.addRrs opt .additional hint owner _ _ _ _) (fun o => ?_)
      cases o with
      | none => exact CapJ.pure () 3
      | some x => exact CapJ.aaaaPart z _ owner opt aaaa
  · exact CapJ.pure () 3
  · exact CapJ.pure () 3
  · exact CapJ.panic _ _

theorem CapJ.additionalLoop (z : Zone.Zone) (start : Nat) (hv : Option HV) (rds : List (List UInt8)) (idx : Nat) :
    CapJ (Server.additionalLoop z start hv rds idx) 3 3 := by
  induction rds generalizing idx with
  | nil => unfold Server.additionalLoop; exact CapJ.pure () 3
  | cons rd rest ih =>
    unfold Server.additionalLoop
    exact CapJ.bind (CapJ.readName rd start 3) (fun n =>
      CapJ.bind (CapJ.addrs z _ n false true) (fun _ => ih (idx + 1)))

theorem CapJ.additionalProcessing (z : Zone.Zone) (t : Nat) (s : Rrset) (hv : Option HV) :
    CapJ (doAdditionalSectionProcessing z t s hv) 3 3 := by
  unfold doAdditionalSectionProcessing
  split
  · exact CapJ.pure () 3
  · split
    · exact CapJ.additionalLoop z 0 hv s.rdatas 0
    · split
      · exact CapJ.additionalLoop z 2 hv s.rdatas 0
      · split
        · exact CapJ.additionalLoop z 6 hv s.rdatas 0
        · exact CapJ.pure () 3

theorem CapJ.readSoaMinimum (rd : List UInt8) (r : Nat) : CapJ (Server.readSoaMinimum rd) r r := by
  unfold Server.readSoaMinimum
  split
  · split
    · split
      · exact CapJ.fail _ _ _
      · dsimp only
        split
        · exact CapJ.pure _ _
        · exact CapJ.fail _ _ _
    · exact CapJ.fail _ _ _
  · exact CapJ.fail _ _ _

theorem CapJ.negativeSoa (z : Zone.Zone) : CapJ (addNegativeCachingSoa z) 2 2 := by
  unfold addNegativeCachingSoa
  split
  · exact CapJ.fail _ _ _
  · split
    · exact CapJ.fail _ _ _
    · exact CapJ.bind (CapJ.readSoaMinimum _ 2) (fun m => CapJ.addRr1 .authority _ _ _ _ _ _)

theorem CapJ.classifyNs (child : WName) (rds : List (List UInt8)) (idx : Nat) (r : Nat) :
    CapJ (Server.classifyNs child rds idx) r r := by
  induction rds generalizing idx with
  | nil => unfold Server.classifyNs; exact CapJ.pure _ _
  | cons rd rest ih =>
    unfold Server.classifyNs
    refine CapJ.bind (CapJ.readName rd 0 r) (fun n => CapJ.bind (ih (idx + 1)) (fun p => ?_))
    obtain ⟨g, a⟩ := p
    simp only []
    split
    · exact CapJ.pure _ _
    · exact CapJ.pure _ _

theorem CapJ.glueLoop (z : Zone.Zone) (hv : HV) (opt : Bool) (l : List (Nat × WName)) :
    CapJ (Server.glueLoop z hv opt l) 3 3 := by
  induction l with
  | nil => unfold Server.glueLoop; exact CapJ.pure () 3
  | cons p rest ih =>
    unfold Server.glueLoop
    exact CapJ.bind (CapJ.addrs z _ p.2 true opt) (fun _ => ih)

theorem CapJ.referral (z : Zone.Zone) (child : NameL.Name) (ns : Rrset) : CapJ (doReferral z child ns) 2 3 := by
  unfold doReferral
  refine CapJ.bind (CapJ.addRrs false .authority .none _ _ _ _ _) (fun hv =>
    CapJ.bind (CapJ.classifyNs _ ns.rdatas 0 2) (fun p => ?_))
  obtain ⟨g, a⟩ := p
  simp only []
  exact CapJ.weaken (CapJ.bind (CapJ.glueLoop z _ false g) (fun _ => CapJ.glueLoop z _ true a)) (by decide) (Nat.le_refl _)

theorem CapJ.followCname (z : Zone.Zone) (qname : WName) (qtype : Nat) :
    ∀ (fuel : Nat) (cn : Rrset) (os : List WName), CapJ (Server.followCname z qname qtype fuel cn os) 1 3 := by
  intro fuel
  induction fuel with
  | zero => intro cn os; unfold Server.followCname; exact CapJ.fail _ _ _
  | succ f ih =>
    intro cn os
    rw [Server.followCname]
    split
    · exact CapJ.fail _ _ _
    · split
      · split
        · exact CapJ.fail _ _ _
        · refine CapJ.bind (CapJ.addRr1 .answer _ _ _ _ _ _) (fun _ => ?_)
          split
          · exact CapJ.bind (CapJ.addRrs false .answer _ _ _ _ _ _)
              (fun hv => CapJ.weaken (CapJ.additionalProcessing z qtype _ hv) (by decide) (Nat.le_refl _))
          · split
            · exact ih _ _
            · exact CapJ.fail _ _ _
          · exact CapJ.weaken (CapJ.referral z _ _) (by decide) (Nat.le_refl _)
          · exact CapJ.weaken (CapJ.negativeSoa z) (by decide) (by decide)
          · exact CapJ.bind (CapJ.setRcode _ 1) (fun _ => CapJ.weaken (CapJ.negativeSoa z) (by decide) (by decide))
          · exact CapJ.weaken (CapJ.pure () 1) (Nat.le_refl _) (by decide)
          · exact CapJ.weaken (CapJ.pure () 1) (Nat.le_refl _) (by decide)
          · exact CapJ.panic _ _
      · exact CapJ.fail _ _ _

theorem CapJ.answer (z : Zone.Zone) (qname : WName) (qtype : Nat) : CapJ (Server.answer z qname qtype) 1 3 := by
  unfold Server.answer
  split
  · exact CapJ.bind (CapJ.setAa true 1) (fun _ => CapJ.bind (CapJ.addRrs false .answer _ _ _ _ _ _)
      (fun hv => CapJ.weaken (CapJ.additionalProcessing z qtype _ hv) (by decide) (Nat.le_refl _)))
  · unfold Server.doCname
    exact CapJ.bind (CapJ.setAa true 1) (fun _ => CapJ.followCname z qname qtype _ _ _)
  · exact CapJ.weaken (CapJ.referral z _ _) (by decide) (Nat.le_refl _)
  · exact CapJ.bind (CapJ.setAa true 1) (fun _ => CapJ.weaken (CapJ.negativeSoa z) (by decide) (by decide))
  · exact CapJ.bind (CapJ.setRcode _ 1) (fun _ => CapJ.bind (CapJ.setAa true 1)
      (fun _ => CapJ.weaken (CapJ.negativeSoa z) (by decide) (by decide)))
  · exact CapJ.panic _ _
  · exact CapJ.panic _ _
  · exact CapJ.panic _ _

theorem CapJ.answerAnyLoop (z : Zone.Zone) (qname : WName) (rrsets : List Rrset) (n : Nat) :
    CapJ (Server.answerAnyLoop z qname rrsets n) 1 1 := by
  induction rrsets generalizing n with
  | nil => unfold Server.answerAnyLoop; exact CapJ.pure _ _
  | cons r rest ih =>
    unfold Server.answerAnyLoop
    exact CapJ.bind (CapJ.addRrs false .answer _ _ _ _ _ _) (fun _ => ih (n + 1))

theorem CapJ.answerAny (z : Zone.Zone) (qname : WName) : CapJ (Server.answerAny z qname) 1 3 := by
  unfold Server.answerAny
  split
  · refine CapJ.bind (CapJ.setAa true 1) (fun _ => CapJ.bind (CapJ.answerAnyLoop z qname _ 0) (fun n => ?_))
    split
    · exact CapJ.weaken (CapJ.negativeSoa z) (by decide) (by decide)
    · exact CapJ.weaken (CapJ.pure () 1) (Nat.le_refl _) (by decide)
  · exact CapJ.weaken (CapJ.referral z _ _) (by decide) (Nat.le_refl _)
  · exact CapJ.bind (CapJ.setRcode _ 1) (fun _ => CapJ.bind (CapJ.setAa true 1)
      (fun _ => CapJ.weaken (CapJ.negativeSoa z) (by decide) (by decide)))
  · exact CapJ.panic _ _
  · exact CapJ.panic _ _
  · exact CapJ.panic _ _

theorem CapJ.inner (z : Zone.Zone) (qname : WName) (qtype : Nat) : CapJ (inner z qname qtype) 1 3 := by
  unfold ServerAnswer.inner
  split
  · exact CapJ.answerAny z qname
  · exact CapJ.answer z qname qtype

/-! ## part 3: `handle_non_axfr_query` — from "no Truncation" to "no capacity error" -/

/-- two or three header operations in a row that do not panic log exactly their events -/
theorem hdr3_quiet (e1 e2 e3 : Ev) (m1 m2 m3 : M Unit) (t1 : Total m1) (t2 : Total m2) (t3 : Total m3) (ps : PS)
    (hnp : ((do PM.hdrOp e1 m1; PM.hdrOp e2 m2; PM.hdrOp e3 m3 : PM Unit) ps).1 ≠ .panic) :
    ((do PM.hdrOp e1 m1; PM.hdrOp e2 m2; PM.hdrOp e3 m3 : PM Unit) ps).2.log = ps.log ++ [e1, e2, e3] ∧
    ((do PM.hdrOp e1 m1; PM.hdrOp e2 m2; PM.hdrOp e3 m3 : PM Unit) ps).1 = .ok () := by
  simp only [bind_def, PM.hdrOp] at hnp ⊢
  rcases h1 : m1 ps.w with ⟨(u | e | _), w1⟩
  · rw [h1] at hnp; simp only [] at hnp ⊢
    rcases h2 : m2 w1 with ⟨(u | e | _), w2⟩
    · rw [h2] at hnp; simp only [] at hnp ⊢
      rcases h3 : m3 w2 with ⟨(u | e | _), w3⟩
      · simp
      · exact absurd (by rw [h3]) ((t3 w2).1 e)
      · rw [h3] at hnp; simp at hnp
    · exact absurd (by rw [h2]) ((t2 w1).1 e)
    · rw [h2] at hnp; simp at hnp
  · exact absurd (by rw [h1]) ((t1 ps.w).1 e)
  · rw [h1] at hnp; simp at hnp

theorem hdr2_quiet (e1 e2 : Ev) (m1 m2 : M Unit) (t1 : Total m1) (t2 : Total m2) (ps : PS)
    (hnp : ((do PM.hdrOp e1 m1; PM.hdrOp e2 m2 : PM Unit) ps).1 ≠ .panic) :
    ((do PM.hdrOp e1 m1; PM.hdrOp e2 m2 : PM Unit) ps).2.log = ps.log ++ [e1, e2] ∧
    ((do PM.hdrOp e1 m1; PM.hdrOp e2 m2 : PM Unit) ps).1 = .ok () := by
  simp only [bind_def, PM.hdrOp] at hnp ⊢
  rcases h1 : m1 ps.w with ⟨(u | e | _), w1⟩
  · rw [h1] at hnp; simp only [] at hnp ⊢
    rcases h2 : m2 w1 with ⟨(u | e | _), w2⟩
    · simp
    · exact absurd (by rw [h2]) ((t2 w1).1 e)
    · rw [h2] at hnp; simp at hnp
  · exact absurd (by rw [h1]) ((t1 ps.w).1 e)
  · rw [h1] at hnp; simp at hnp

/-- the epilogue of `handle_non_axfr_query`, knowing only that the handler does not panic -/
theorem handle_log_np (z : Zone.Zone) (qname : WName) (qtype : Nat) (tr : Transport) (ps : PS)
    (hnp : (handleNonAxfrQueryL z qname qtype tr ps).1 ≠ .panic) :
    (handleNonAxfrQueryL z qname qtype tr ps).2.log
      = (inner z qname qtype ps).2.log ++ tailEvs tr (inner z qname qtype ps).1 ∧
    (inner z qname qtype ps).1 ≠ .panic := by
  have hin : (if qtype = QT "ANY" then answerAny z qname ps else Server.answer z qname qtype ps)
      = inner z qname qtype ps := by
    unfold inner; split <;> rfl
  unfold handleNonAxfrQueryL at hnp ⊢
  simp only [hin] at hnp ⊢
  rcases hr : inner z qname qtype ps with ⟨(u | e | _), ps1⟩
  · simp [tailEvs]
  · cases e with
    | servFail =>
      rw [hr] at hnp
      simp only [PM.setAa, PM.setRcode, PM.clearRrs, RC_SERVFAIL] at hnp ⊢
      have := hdr3_quiet (.aa false) (.rcode Spec.Resolve.SERVFAIL) .clear _ _ _ (total_setBit _ _ _) (total_setRcode _)
        total_clearRrs ps1 hnp
      simp only [tailEvs]
      exact ⟨this.1, by simp⟩
    | truncation =>
      rw [hr] at hnp
      by_cases htr : tr = Transport.tcp
      · simp only [htr, if_true, PM.setAa, PM.setRcode, PM.clearRrs, RC_SERVFAIL] at hnp ⊢
        have := hdr3_quiet .clear (.aa false) (.rcode Spec.Resolve.SERVFAIL) _ _ _ total_clearRrs (total_setBit _ _ _)
          (total_setRcode _) ps1 hnp
        simp only [tailEvs, if_true]
        exact ⟨this.1, by simp⟩
      · simp only [htr, if_false, PM.setTc, PM.clearRrs] at hnp ⊢
        have := hdr2_quiet .clear (.tc true) _ _ total_clearRrs (total_setBit _ _ _) ps1 hnp
        simp only [tailEvs, htr, if_false]
        exact ⟨this.1, by simp⟩
  · rw [hr] at hnp; simp at hnp

/-- **the state in which `handle_query` is entered** (reached from `Writer::new` with a limit of at
    most 65 535 octets by the header setters, `add_question`, `set_edns`, `set_limit`, `set_tsig`):
    the writer's invariants (C12/C13), the QNAME hint valid for `qname`, nothing but the question
    written, the count invariant -/
structure QueryReady (w : State) (qname : WName) : Prop where
  safe : Writer.I w
  hint : ServerSafety.HintOK Writer.Den w .qname qname
  sect : w.sect = .question
  limit : w.limit ≤ 65535
  count : CountInv w

theorem QueryReady.capPre {w : State} {qname : WName} (h : QueryReady w qname) : CapPre w 1 :=
  ⟨h.safe.inv, h.limit, h.count, by rw [h.sect]; decide⟩

/-- **no capacity error other than `Truncation`, no panic**: from a `QueryReady` state, for a zone
    the API can hold and a QNAME at or below its apex, a log without `Truncation` is a log without
    any capacity error -/
theorem noCapErr_of_noTruncation (z : Zone.Zone) (hz : ServerSafety.ZoneOK z) (qname : WName) (hq : qname.WF)
    (qtype : Nat) (tr : Transport) (hsub : z.apex <:+ fold qname) (w : State) (hw : QueryReady w qname)
    (hnt : ∀ a, Ev.add a ∈ (handleNonAxfrQueryL z qname qtype tr ⟨w, []⟩).2.log → a.res ≠ .err .Truncation) :
    NoCapErr (handleNonAxfrQueryL z qname qtype tr ⟨w, []⟩).2.log := by
  have hsafe := ServerSafety.handleNonAxfrQueryL_safe Writer.writerSafe z hz qname hq qtype tr hsub ⟨w, []⟩
    hw.safe hw.hint
  obtain ⟨hlog, hinp⟩ := handle_log_np z qname qtype tr ⟨w, []⟩ hsafe.1
  obtain ⟨evs, hl, hti, hnp, _⟩ := CapJ.inner z qname qtype ⟨w, []⟩ hw.capPre
  simp only [List.nil_append] at hl
  rw [hlog, hl] at hnt ⊢
  intro e he
  rcases List.mem_append.mp he with h | h
  · have h1 := hti e h
    have h2 := hnp hinp e h
    refine ⟨h2.1, fun a ha => ?_⟩
    subst ha
    rcases hr : a.res with u | x | _
    · exact Or.inl rfl
    · rcases h1 a rfl x hr with hx | hx
      · subst hx
        exact absurd hr (hnt a (List.mem_append_left _ h))
      · subst hx; exact Or.inr rfl
    · exact absurd hr (h2.2 a rfl)
  · -- the epilogue only logs header operations
    have : e = .aa false ∨ e = .rcode Spec.Resolve.SERVFAIL ∨ e = .clear ∨ e = .tc true := by
      rcases hr : (inner z qname qtype ⟨w, []⟩).1 with u | x | _
      · rw [hr] at h; simp [tailEvs] at h
      · rw [hr] at h
        cases x with
        | servFail =>
          simp only [tailEvs, List.mem_cons, List.not_mem_nil, or_false] at h
          rcases h with h | h | h
          · exact Or.inl h
          · exact Or.inr (Or.inl h)
          · exact Or.inr (Or.inr (Or.inl h))
        | truncation =>
          simp only [tailEvs] at h
          split at h
          · simp only [List.mem_cons, List.not_mem_nil, or_false] at h
            rcases h with h | h | h
            · exact Or.inr (Or.inr (Or.inl h))
            · exact Or.inl h
            · exact Or.inr (Or.inl h)
          · simp only [List.mem_cons, List.not_mem_nil, or_false] at h
            rcases h with h | h
            · exact Or.inr (Or.inr (Or.inl h))
            · exact Or.inr (Or.inr (Or.inr h))
      · rw [hr] at h; simp [tailEvs] at h
    rcases this with h | h | h | h <;> subst h <;> exact ⟨by simp, fun a ha => by cases ha⟩

/-! ## part 4: `QueryReady` is the state `handle_message` enters `handle_query` in

  `handle_message`: `Writer::new(buf, 512 | 65 535)`, the header setters, `add_question` (once,
  first), then the scan: `set_edns`, `set_limit(clamp(opt.class, 512, payload))` with a 16-bit
  `opt.class`, `set_extended_rcode`, `set_rcode`, `set_tsig`. Each of these keeps what
  `QueryReady` needs. -/

/-- what the calls other than `add_*` keep: the section, QDCOUNT, a limit within 65 535 (for
    `set_limit`: when the requested limit is), the count invariant -/
structure ScanKeeps (s s' : State) : Prop where
  sect : s'.sect = s.sect
  qd : s'.qdcount = s.qdcount
  limit : s.limit ≤ 65535 → s'.limit ≤ 65535
  count : CountInv s → CountInv s'

theorem ScanKeeps.refl (s : State) : ScanKeeps s s := ⟨rfl, rfl, id, id⟩

theorem scanKeeps_hdrOnly {s s' : State} (k : HdrOnly s s') (hl : s'.limit = s.limit) : ScanKeeps s s' := by
  refine ⟨k.sect, k.qd, fun h => by rw [hl]; exact h, fun h => ?_⟩
  unfold CountInv resv at h ⊢
  rw [k.an, k.ns, k.ar, k.cursor, k.edns, k.tsig]; exact h

theorem scanKeeps_setEdns (p : Nat) (s : State) : ScanKeeps s (setEdns p s).2 := by
  unfold setEdns
  split
  · exact ScanKeeps.refl s
  · split
    · exact ScanKeeps.refl s
    · split
      · exact ScanKeeps.refl s
      · next he _ _ =>
        refine ⟨rfl, rfl, id, fun h => ?_⟩
        have he' : s.edns.isSome = false := by simpa using he
        unfold CountInv resv at h ⊢
        simp only [he', Bool.false_eq_true, if_false, Option.isSome_some, if_true] at h ⊢
        omega

theorem scanKeeps_setTsig (m : TsigMode) (rr : TsigRr) (s : State) : ScanKeeps s (setTsig m rr s).2 := by
  unfold setTsig
  split
  · exact ScanKeeps.refl s
  · split
    · exact ScanKeeps.refl s
    · split
      · exact ScanKeeps.refl s
      · next he _ _ =>
        refine ⟨rfl, rfl, id, fun h => ?_⟩
        have he' : s.tsig.isSome = false := by simpa using he
        unfold CountInv resv at h ⊢
        simp only [he', Bool.false_eq_true, if_false, Option.isSome_some, if_true] at h ⊢
        omega

theorem scanKeeps_setLimit (v : Nat) (hv : v ≤ 65535) (s : State) : ScanKeeps s (setLimit v s).2 := by
  unfold setLimit
  split
  · dsimp only
    split
    · exact ScanKeeps.refl s
    · refine ⟨rfl, rfl, fun _ => ?_, fun h => h⟩
      show min v s.octets.size ≤ 65535
      omega
  · split
    · exact ScanKeeps.refl s
    · dsimp only
      split
      · exact ScanKeeps.refl s
      · split
        · exact ScanKeeps.refl s
        · next h1 _ h3 _ =>
          refine ⟨rfl, rfl, fun hl => ?_, fun h => h⟩
          show max v (s.cursor + s.limit - s.available) ≤ 65535
          omega

/-- the calls of the scan phase: all of `Call` except the two `add_*`; `set_limit` with a limit
    that a 16-bit field can hold -/
def ScanCall : ServerSafety.Call → Prop
  | .addRr .. => False
  | .addRrset .. => False
  | .setLimit v => v ≤ 65535
  | _ => True

/-- every call of the scan phase keeps `ScanKeeps` -/
theorem scanKeeps_call (c : ServerSafety.Call) (s : State)
    (hc : ScanCall c) : ScanKeeps s (c.run s).2 := by
  cases c with
  | setId v =>
    refine scanKeeps_hdrOnly (hdrOnly_write _ _ (by simp [u16be, Gen.ID_START]) s) ?_
    show (write Gen.ID_START (u16be v) s).2.limit = s.limit
    unfold write; split <;> rfl
  | setBit b m v =>
    show ScanKeeps s (setHdr b _ s).2
    unfold setHdr
    split
    · refine ⟨rfl, rfl, id, fun h => h⟩
    · exact ScanKeeps.refl s
  | setOpcode v => exact scanKeeps_hdrOnly (hdrOnly_setHdr _ _ (by decide) s) (setHdr_limit _ _ s)
  | setRcode v => exact scanKeeps_hdrOnly (hdrOnly_setRcode v s) ((hdrKeeps_setRcode v).limit s)
  | setExtendedRcode v =>
    refine scanKeeps_hdrOnly (hdrOnly_setExtendedRcode v s) ?_
    show (setExtendedRcode v s).2.limit = s.limit
    unfold setExtendedRcode
    simp only [M.bind_apply, M.gets_apply]
    cases s.edns with
    | none => rfl
    | some e =>
      simp only []
      split
      · rfl
      · simp only [M.bind_apply]
        have := setHdr_limit Gen.RCODE_BYTE (fun b => (b &&& ~~~ (UInt8.ofNat Gen.RCODE_MASK)) |||
              (UInt8.ofNat (v % 256) &&& UInt8.ofNat Gen.RCODE_MASK)) s
        cases hs : setHdr Gen.RCODE_BYTE (fun b => (b &&& ~~~ (UInt8.ofNat Gen.RCODE_MASK)) |||
              (UInt8.ofNat (v % 256) &&& UInt8.ofNat Gen.RCODE_MASK)) s with
        | mk r s1 =>
          rw [hs] at this
          cases r <;> simpa using this
  | setLimit v => exact scanKeeps_setLimit v hc s
  | setEdns p => exact scanKeeps_setEdns p s
  | setTsig m rr => exact scanKeeps_setTsig m rr s
  | addRr => exact absurd hc id
  | addRrset => exact absurd hc id

/-- the state before the question is added -/
structure PreQuestion (s : State) : Prop where
  safe : Writer.I s
  sect : s.sect = .question
  qd : s.qdcount = 0
  limit : s.limit ≤ 65535
  count : CountInv s

/-- `Writer::new` with a limit of at most 65 535 octets -/
theorem preQuestion_new (buf : Bytes) (limit : Nat) (hl : limit ≤ 65535) (s : State)
    (h : Writer.new buf limit = .ok s) : PreQuestion s := by
  have hi := Writer.writerSafe.new_I buf limit s hl h
  have h' := h
  unfold Writer.new at h'
  by_cases hlt : min limit buf.size < Gen.HEADER_SIZE
  · simp [hlt] at h'
  · simp only [hlt, if_false, Out.ok.injEq] at h'
    refine ⟨hi, ?_, ?_, ?_, ?_⟩
    · rw [← h']
    · rw [← h']
    · rw [← h']; show min limit buf.size ≤ 65535; omega
    · rw [← h']; unfold CountInv; simp

/-- the header setters keep it -/
theorem preQuestion_call (c : ServerSafety.Call) (s : State) (h : PreQuestion s) (hp : c.Pre Writer.Den s)
    (hc : ScanCall c) : PreQuestion (c.run s).2 := by
  have k := scanKeeps_call c s hc
  have := Writer.writerSafe.call c s h.safe hp
  exact ⟨this.2.1, by rw [k.sect]; exact h.sect, by rw [k.qd]; exact h.qd, k.limit h.limit, k.count h.count⟩

theorem nice_addQuestionBody (qn : WName) (qt qc : Nat) : Nice 0 (addQuestionBody qn qt qc) := by
  unfold addQuestionBody
  refine nice_bind0 (nice_setCtx _) fun _ => nice_bind0 (nice_writeUnhintedName qn) fun p =>
    nice_bind0 (nice_setCtx _) fun _ => nice_bind0 (nice_modify 0 _ (fun s => ?_) (fun s => ?_)) fun _ =>
    nice_bind0 (nice_mono (nice_tryPush _) (Nat.zero_le _)) fun _ => nice_mono (nice_tryPush _) (Nat.zero_le _)
  · split <;> rfl
  · split <;> simp

/-- **`add_question` makes the state `QueryReady`** -/
theorem queryReady_addQuestion (qn : WName) (qt qc : Nat) (hwf : qn.WF) (s s' : State) (h : PreQuestion s)
    (hok : addQuestion qn qt qc s = (.ok (), s')) : QueryReady s' qn := by
  obtain ⟨h1, h2, _, h4⟩ := Writer.writerSafe.addQuestion qn qt qc s h.safe hwf
  rw [hok] at h2 h4
  obtain ⟨s3, _, hb, hs'⟩ := addQuestion_ok_inv qn qt qc s s' hok
  have e3 : Ext s s3 := by have := frame_addQuestionBody qn qt qc s; rwa [hb] at this
  have hn := nice_addQuestionBody qn qt qc s
  rw [hb] at hn
  refine ⟨h2, h4 rfl h.sect h.qd, ?_, ?_, ?_⟩
  · rw [hs']; show s3.sect = _; rw [hn.1]; exact h.sect
  · rw [hs']; show s3.limit ≤ _; rw [e3.limit]; exact h.limit
  · have hc := h.count
    unfold CountInv resv at hc ⊢
    rw [hs']
    show 10 * (s3.ancount + s3.nscount + s3.arcount) ≤ s3.cursor + 10 * _
    simp only []
    rw [e3.an, e3.ns, e3.ar, e3.edns, e3.tsig]
    have := e3.cur
    omega

/-- the scan keeps it -/
theorem queryReady_call (c : ServerSafety.Call) (s : State) (qn : WName) (h : QueryReady s qn) (hp : c.Pre Writer.Den s)
    (hc : ScanCall c) : QueryReady (c.run s).2 qn := by
  have k := scanKeeps_call c s hc
  have := Writer.writerSafe.call c s h.safe hp
  exact ⟨this.2.1, ServerSafety.hintOK_qname_mono Writer.writerSafe h.hint this.2.2,
    by rw [k.sect]; exact h.sect, k.limit h.limit, k.count h.count⟩

end QV.ServerAnswer
