/-
  QV.Proofs.WriterShapeRun — the structural layout invariant `SLay` along whole sessions: every
  public call of the writer (templates included), for all sequences that respect the contract.
-/
import QV.Proofs.WriterSafe2
import QV.Proofs.WriterSession

namespace QV.Writer
open QV QV.Wire QV.Spec QV.ServerSafety

/-- a writer re-created from the template of `s`: same layout -/
theorem slay_template {s s' : State} {t : Template} (h : SLay s) (hI : I s) (buf : Bytes)
    (ts : Option Tsig) (hsome : ts.isSome = s.tsig.isSome)
    (ht : intoTemplate s = .ok t) (h' : tryFromTemplateImpl buf t ts = .ok s') : SLay s' := by
  have hi := hI.inv
  have h1 := hi.hdr; have h2 := hi.cur_av; have h3 := hi.av_lim; have h4 := hi.lim_size
  unfold intoTemplate at ht
  rw [if_neg (by omega), if_neg (by omega)] at ht
  cases ht
  unfold tryFromTemplateImpl at h'
  simp only [extract_toList_length _ _ (show s.cursor ≤ s.octets.size by omega)] at h'
  split at h'
  · cases h'
  · split at h'
    · cases h'
    · cases h'
      refine slay_congr h hI.winv hi.rr_hi ?_ rfl rfl (fun _ hg => hg) rfl rfl ?_ rfl
      · intro i _ hi'
        have := writeAt_get_in buf 0 (List.take s.cursor s.octets.toList) i (by simp; omega) (by simp; omega)
        simp only [Nat.zero_add] at this
        simp only [Array.toList_extract, List.extract_eq_take_drop, Nat.sub_zero, List.drop_zero]
        rw [this, List.getElem?_take]
        simp [hi']
      · unfold pend
        show _ + (if ts.isSome then 1 else 0) = _
        rw [hsome]

theorem slay_retemplate {ss : Session} (h : SLay ss.w) (hI : I ss.w) (n : Nat) (fill : UInt8)
    (mk : Bytes → Template → Out WriterErr State) (hmk : MkOK mk) :
    SLay (retemplate ss n fill mk).2.w := by
  obtain ⟨t, ht⟩ := intoTemplate_ok hI.inv
  have htt := intoTemplate_tsig ht
  unfold retemplate
  rw [ht]
  simp only []
  obtain ⟨sf, hsf⟩ := tryFromTemplate_fallback_ok fill hI.inv ht
  have hlf : SLay sf := slay_template h hI _ t.tsig (by rw [htt]) ht hsf
  cases hm : mk (Array.replicate n fill) t with
  | ok s' =>
    simp only []
    obtain ⟨ts, h1, h2⟩ := hmk.1 _ _ _ hm
    refine slay_template h hI _ ts ?_ ht h1
    rcases h2 with he | ⟨ts0, ts1, h0, h1', _⟩
    · rw [he, htt]
    · rw [h1', ← htt, h0]; rfl
  | err e => simp only []; rw [hsf]; exact hlf
  | panic => simp only []; rw [hsf]; exact hlf

theorem slay_liftW {ss : Session} {f : M Unit} (h : SLay (f ss.w).2) : SLay (liftW ss f).2.w := by
  unfold liftW
  cases hf : f ss.w with
  | mk r s1 => rw [hf] at h; exact h

theorem slay_setMode (m : CMode) (s : State) (h : SLay s) (hI : I s) : SLay (setCompressionMode m s).2 :=
  slay_congr h hI.winv hI.inv.rr_hi (fun _ _ _ => rfl) rfl rfl (fun _ hg => hg) rfl rfl rfl rfl

/-- **every public call keeps the structural layout**, whatever it returns -/
theorem slay_step (ss : Session) (op : Op) (hI : I ss.w) (h : SLay ss.w) (hop : OpOK ss op) :
    SLay (step ss op).2.w := by
  cases op with
  | setId v => exact slay_liftW (call_slay (.setId v) ss.w hI h trivial)
  | setQr b => exact slay_liftW (call_slay (.setBit Gen.QR_BYTE Gen.QR_MASK b) ss.w hI h
      (show Gen.QR_BYTE < Gen.HEADER_SIZE by decide))
  | setAa b => exact slay_liftW (call_slay (.setBit Gen.AA_BYTE Gen.AA_MASK b) ss.w hI h
      (show Gen.AA_BYTE < Gen.HEADER_SIZE by decide))
  | setTc b => exact slay_liftW (call_slay (.setBit Gen.TC_BYTE Gen.TC_MASK b) ss.w hI h
      (show Gen.TC_BYTE < Gen.HEADER_SIZE by decide))
  | setRd b => exact slay_liftW (call_slay (.setBit Gen.RD_BYTE Gen.RD_MASK b) ss.w hI h
      (show Gen.RD_BYTE < Gen.HEADER_SIZE by decide))
  | setRa b => exact slay_liftW (call_slay (.setBit Gen.RA_BYTE Gen.RA_MASK b) ss.w hI h
      (show Gen.RA_BYTE < Gen.HEADER_SIZE by decide))
  | setOpcode v => exact slay_liftW (call_slay (.setOpcode v) ss.w hI h trivial)
  | setRcode v => exact slay_liftW (call_slay (.setRcode v) ss.w hI h trivial)
  | setExtendedRcode v => exact slay_liftW (call_slay (.setExtendedRcode v) ss.w hI h trivial)
  | setLimit v => exact slay_liftW (slay_hdrOnly h hI (hdrOnly_setLimit v ss.w))
  | setMode m => exact slay_liftW (slay_setMode m ss.w h hI)
  | addQuestion n t c => exact slay_liftW (addQuestion_slay n t c ss.w hI h hop)
  | addRr sec hn o ty cls ttl rd hv =>
    simp only [step]
    rw [withHv_w]
    have hI0 := i_hv ss.w (hv.map (hvGet ss.hvs)) hI
    have h0 := slay_hv ss.w (hv.map (hvGet ss.hvs)) h hI
    have := call_slay (.addRr sec (resolveHint ss.hvs hn) o ty cls ttl rd) _ hI0 h0
      ⟨hop.1, (hintOK_iff _ _ _).mpr hop.2⟩
    have hIr := (addRrOp_full sec (resolveHint ss.hvs hn) o ty cls ttl rd _ hI0 hop.1 hop.2).2.1
    exact slay_hv _ none this hIr
  | addRrset sec hn o ty cls ttl rds hv =>
    simp only [step]
    rw [withHv_w]
    have hI0 := i_hv ss.w (hv.map (hvGet ss.hvs)) hI
    have h0 := slay_hv ss.w (hv.map (hvGet ss.hvs)) h hI
    have := call_slay (.addRrset sec (resolveHint ss.hvs hn) o ty cls ttl rds) _ hI0 h0
      ⟨hop.1, (hintOK_iff _ _ _).mpr hop.2⟩
    have hIr := (addRrsetOp_full sec (resolveHint ss.hvs hn) o ty cls ttl rds _ hI0 hop.1 hop.2).2.1
    exact slay_hv _ none this hIr
  | clearRrs => exact slay_liftW (slay_clearRrs ss.w h hI)
  | setEdns p => exact slay_liftW (slay_setEdns p ss.w h hI)
  | setTsig m rr => exact slay_liftW (slay_setTsig m rr ss.w h hI)
  | updateTimeSigned t => exact slay_liftW (slay_hdrOnly h hI (hdrOnly_updateTimeSigned t ss.w))
  | template n fill => exact slay_retemplate h hI n fill _ mkOK_tryFromTemplate
  | templateSubsequent n fill mac => exact slay_retemplate h hI n fill _ (mkOK_subsequent mac)
  | getters => exact h

/-- **for all sequences of calls that respect the contract** -/
theorem slay_run (ss : Session) (ops : List Op) (hI : I ss.w) (h : SLay ss.w) (hr : Respects ss ops) :
    SLay (run ss ops).1.w := by
  induction ops generalizing ss with
  | nil => exact h
  | cons op ops ih =>
    obtain ⟨hop, hrest⟩ := hr
    obtain ⟨hnp, hI'⟩ := step_I ss op hI hop
    have hs' := slay_step ss op hI h hop
    unfold run
    cases hs : step ss op with
    | mk r ss' =>
      rw [hs] at hnp hI' hrest hs'
      cases r with
      | panic => exact absurd rfl hnp
      | ok u =>
        simp only []
        have := ih ss' hI' hs' hrest
        cases hrun : run ss' ops with
        | mk ss'' rs => rw [hrun] at this; exact this
      | err e =>
        simp only []
        have := ih ss' hI' hs' hrest
        cases hrun : run ss' ops with
        | mk ss'' rs => rw [hrun] at this; exact this

end QV.Writer
