/-
  QV.Proofs.ScanTsig — `Rdata::read` for type TSIG accepts exactly the RDATA layout of RFC 8945 §4.2
  as the specification states it (`Spec.Server.tsigRdataOk`): `TsigFacts`, the one fact about RDATA
  the scan theorems need for the TSIG branch.

  The core is that `validate_uncompressed_name` (model, C14) and the executable spec decoder for
  uncompressed names (`specDecodeUncompressed`, fuel-based) agree on acceptance and length.
-/
import QV.Proofs.ScanRefine

namespace QV.ServerScan
open QV QV.Wire QV.Reader

theorem chunk_len (b : Bytes) (off l : Nat) (h : off + l + 1 ≤ b.size) :
    (b.extract off (off + l + 1)).toList.length = l + 1 := by
  simp; omega

/-- the model's uncompressed-name loop against the spec's executable walk -/
theorem uncomp_walk (b : Bytes) (off nl : Nat) : ∀ fuel, b.size - off < fuel →
    match uncompAux b false off nl with
    | .ok (e, _) => ∃ ls, Spec.specWalkU b fuel off = some ls ∧ ls.flatten.length = e - off ∧ off < e ∧
        e ≤ 255 ∧ e ≤ b.size
    | .err _ => Spec.specWalkU b fuel off = none ∨
        ∃ ls, Spec.specWalkU b fuel off = some ls ∧ off + ls.flatten.length > 255
    | .panic => False := by
  obtain ⟨c1, c2, c3⟩ := Wire.consts
  fun_induction uncompAux b false off nl
  all_goals intro fuel hf
  all_goals (obtain ⟨f, rfl⟩ : ∃ f, fuel = f + 1 := ⟨fuel - 1, by omega⟩)
  case case1 off nl hlt hl =>
    -- label too long
    left
    unfold Spec.specWalkU
    rw [Array.getElem?_eq_getElem hlt]
    have h0 : ¬ b[off] = 0 := by
      intro e; have : b[off].toNat = 0 := by rw [e]; rfl
      omega
    simp only [h0, if_false, show ¬ b[off].toNat ≤ 63 by omega]
  case case2 => simp_all
  case case3 off nl hlt hl htr hlen =>
    -- name too long at this label
    unfold Spec.specWalkU
    rw [Array.getElem?_eq_getElem hlt]
    by_cases h0 : b[off] = 0
    · have : b[off].toNat = 0 := by rw [h0]; rfl
      right
      refine ⟨[[0]], by simp [h0], ?_⟩
      simp; omega
    · simp only [h0, if_false, show b[off].toNat ≤ 63 by omega, if_true]
      cases hw : Spec.specWalkU b f (off + b[off].toNat + 1) with
      | none => left; rfl
      | some ls =>
        right
        have hin : off + b[off].toNat + 1 < b.size := by
          cases f with
          | zero => simp [Spec.specWalkU] at hw
          | succ f' =>
            unfold Spec.specWalkU at hw
            by_cases hh : off + b[off].toNat + 1 < b.size
            · exact hh
            · rw [Array.getElem?_eq_none (by omega)] at hw; cases hw
        refine ⟨_, rfl, ?_⟩
        simp only [List.flatten_cons, List.length_append, chunk_len b off b[off].toNat (by omega)]
        omega
  case case4 off nl hlt hl htr hlen h0 =>
    -- the root label
    unfold Spec.specWalkU
    rw [Array.getElem?_eq_getElem hlt]
    refine ⟨[[0]], by simp [h0], ?_⟩
    have : b[off].toNat = 0 := by rw [h0]; rfl
    simp; omega
  case case5 off nl hlt hl htr hlen h0 ih =>
    -- an ordinary label
    have hpos := toNat_pos_of_ne_zero _ h0
    have ih' := ih f (by omega)
    unfold Spec.specWalkU
    rw [Array.getElem?_eq_getElem hlt]
    simp only [h0, if_false, show b[off].toNat ≤ 63 by omega, if_true]
    cases hu : uncompAux b false (off + b[off].toNat + 1) (nl + 1) with
    | ok r =>
      obtain ⟨e, nl'⟩ := r
      rw [hu] at ih'
      simp only at ih' ⊢
      obtain ⟨ls, hw, hfl, h1, h2, h3⟩ := ih'
      rw [hw]
      refine ⟨_, rfl, ?_, by omega, h2, h3⟩
      simp only [List.flatten_cons, List.length_append, chunk_len b off b[off].toNat (by omega), hfl]
      omega
    | err x =>
      rw [hu] at ih'
      simp only at ih' ⊢
      rcases ih' with hw | ⟨ls, hw, hgt⟩
      · left; rw [hw]
      · right
        have hin : off + b[off].toNat + 1 < b.size := by
          cases f with
          | zero => simp [Spec.specWalkU] at hw
          | succ f' =>
            unfold Spec.specWalkU at hw
            by_cases hh : off + b[off].toNat + 1 < b.size
            · exact hh
            · rw [Array.getElem?_eq_none (by omega)] at hw; cases hw
        rw [hw]
        refine ⟨_, rfl, ?_⟩
        simp only [List.flatten_cons, List.length_append, chunk_len b off b[off].toNat (by omega)]
        omega
    | panic => rw [hu] at ih'; exact ih'
  case case6 off nl hlt =>
    left
    unfold Spec.specWalkU
    rw [Array.getElem?_eq_none (by omega)]

/-- `validate_uncompressed_name` agrees with the spec's uncompressed decoder on acceptance and length -/
theorem validate_spec (b : Bytes) :
    match validateUncompressed b false with
    | .ok alg => ∃ w n, Spec.specDecodeUncompressed b false = some (w, n) ∧ w.length = alg ∧ alg ≤ b.size
    | .err _ => Spec.specDecodeUncompressed b false = none
    | .panic => False := by
  have h := uncomp_walk b 0 0 (b.size + 1) (by omega)
  unfold validateUncompressed Spec.specDecodeUncompressed
  cases hu : uncompAux b false 0 0 with
  | ok r =>
    obtain ⟨e, nl⟩ := r
    rw [hu] at h
    obtain ⟨ls, hw, hfl, h1, h2, h3⟩ := h
    simp only [Bool.false_and, Bool.false_eq_true, if_false, hw]
    refine ⟨ls.flatten, ls.length, ?_, by omega, h3⟩
    rw [if_pos ⟨by omega, by omega, fun hh => hh.elim⟩]
  | err x =>
    rw [hu] at h
    simp only at h ⊢
    rcases h with hw | ⟨ls, hw, hgt⟩
    · rw [hw]
    · rw [hw]
      simp only
      rw [if_neg (fun hh => by have := hh.1; omega)]
  | panic => rw [hu] at h; exact h

/-- **`TsigFacts`**: `Rdata::read` for TSIG against the spec's RFC 8945 §4.2 layout -/
theorem tsigFacts : TsigFacts := by
  constructor
  intro c msg cur len h hm hl
  unfold Server.rdRead
  rw [read_tsig, withoutDecompression_eq _ _ _ _ h hm hl]
  generalize hrd : msg.extract cur (cur + len) = rd
  have hsz : rd.size = len := by rw [← hrd]; simp; omega
  have hv := validate_spec rd
  have hes : cur + len - cur = len := by omega
  unfold Spec.Server.tsigRdataOk
  rw [hrd, hes]
  cases hva : validateUncompressed rd false with
  | ok alg =>
    rw [hva] at hv
    obtain ⟨w, n, hsd, hwl, hle⟩ := hv
    rw [hsd]
    simp only [hwl, specField16_eq, hsz]
    have hmodel : Rdata.validateAsTsig rd =
        (if alg + 10 ≤ len then
          (if alg + be16 rd (alg + 8) + 16 ≤ len then
            (if alg + be16 rd (alg + 8) + be16 rd (alg + be16 rd (alg + 8) + 14) + 16 = len then .ok ()
             else .err .Other)
           else .err .Other)
         else .err .Other) := by
      unfold Rdata.validateAsTsig
      rw [hva]
      simp only [Rdata.liftName, Out.mapErr, hsz]
      rfl
    rw [hmodel]
    by_cases h1 : alg + 10 ≤ len
    · simp only [h1, if_true, show alg + 8 + 2 ≤ len by omega]
      by_cases h2 : alg + be16 rd (alg + 8) + 16 ≤ len
      · simp only [h2, if_true, show alg + be16 rd (alg + 8) + 14 + 2 ≤ len by omega]
        by_cases h3 : alg + be16 rd (alg + 8) + be16 rd (alg + be16 rd (alg + 8) + 14) + 16 = len
        · simp only [h3, if_true, beq_self_eq_true]
          refine ⟨rd.toList, rfl, ?_⟩
          obtain ⟨p, hp, hpl⟩ := (C14.C14_validate_ok_iff rd false alg).mp hva
          refine ⟨p, by simpa using hp, by simp; omega, rfl, ?_⟩
          rw [hpl]; exact h3
        · have : (alg + be16 rd (alg + 8) + be16 rd (alg + be16 rd (alg + 8) + 14) + 16 == len) = false := by
            simpa using h3
          simp only [h3, if_false, this, Bool.false_eq_true]
          exact ⟨_, rfl⟩
      · simp only [h2, if_false, show ¬ alg + be16 rd (alg + 8) + 14 + 2 ≤ len by omega, Bool.false_eq_true]
        exact ⟨_, rfl⟩
    · simp only [h1, if_false, show ¬ alg + 8 + 2 ≤ len by omega, Bool.false_eq_true]
      exact ⟨_, rfl⟩
  | err x =>
    rw [hva] at hv
    rw [hv]
    have : Rdata.validateAsTsig rd = .err (.InvalidName x) := by
      unfold Rdata.validateAsTsig; rw [hva]; rfl
    rw [this]
    simp only [Bool.false_eq_true, if_false]
    exact ⟨_, rfl⟩
  | panic => rw [hva] at hv; exact hv.elim

end QV.ServerScan
