/-
  QV.Proofs.WriterSafe2 — a second instance of the server's writer interface whose invariant also
  carries the structural layout (`SLay`), so that what the server hands to `finish` is known to
  decode: `writerSafeL`, and `finish_decodes` for it.
-/
import QV.Proofs.WriterDecodes

namespace QV.Writer
open QV QV.Wire QV.Spec QV.ServerSafety

/-- the writer invariant together with the structural layout -/
def IL (s : State) : Prop := I s ∧ SLay s

theorem call_slay (c : Call) (s : State) (hI : I s) (hL : SLay s) (hp : c.Pre Den s) : SLay (c.run s).2 := by
  have hnp := (call_safe c s hI hp).1
  cases c with
  | setId v => exact slay_hdrOnly hL hI (hdrOnly_write _ _ (by show _ + 2 ≤ 12; decide) s)
  | setBit b m v => exact slay_hdrOnly hL hI (hdrOnly_setHdr b _ hp s)
  | setOpcode v => exact slay_hdrOnly hL hI (hdrOnly_setHdr Gen.OPCODE_BYTE _ (by decide) s)
  | setRcode v => exact slay_hdrOnly hL hI (hdrOnly_setRcode v s)
  | setExtendedRcode v => exact slay_hdrOnly hL hI (hdrOnly_setExtendedRcode v s)
  | setLimit v => exact slay_hdrOnly hL hI (hdrOnly_setLimit v s)
  | setEdns p => exact slay_setEdns p s hL hI
  | setTsig m rr => exact slay_setTsig m rr s hL hI
  | addRr sec h o ty cls ttl rd =>
    have hc := addRrOp_cases sec h o ty cls ttl rd s
    show SLay (addRrOp sec h o ty cls ttl rd s).2
    change (addRrOp sec h o ty cls ttl rd s).1 ≠ .panic at hnp
    cases hr : addRrOp sec h o ty cls ttl rd s with
    | mk r s' =>
      rw [hr] at hc hnp
      cases r with
      | ok u => exact slay_addRrOp sec h o ty cls ttl rd s s' hI hL hp.1 ((hintOK_iff s h o).mp hp.2) hr
      | err e => exact slay_same hL hI hc
      | panic => exact absurd rfl hnp
  | addRrset sec h o ty cls ttl rds =>
    have hc := addRrsetOp_cases sec h o ty cls ttl rds s
    show SLay (addRrsetOp sec h o ty cls ttl rds s).2
    change (addRrsetOp sec h o ty cls ttl rds s).1 ≠ .panic at hnp
    cases hr : addRrsetOp sec h o ty cls ttl rds s with
    | mk r s' =>
      rw [hr] at hc hnp
      cases r with
      | ok u => exact slay_addRrsetOp sec h o ty cls ttl rds s s' hI hL hp.1 ((hintOK_iff s h o).mp hp.2) hr
      | err e => exact slay_same hL hI hc
      | panic => exact absurd rfl hnp

theorem addQuestion_slay (qn : WName) (qt qc : Nat) (s : State) (hI : I s) (hL : SLay s) (hwf : qn.WF) :
    SLay (addQuestion qn qt qc s).2 := by
  have hnp := (addQuestion_full qn qt qc s hI hwf).1
  have hc := addQuestion_cases qn qt qc s
  cases hr : addQuestion qn qt qc s with
  | mk r s' =>
    rw [hr] at hc hnp
    cases r with
    | ok u => exact slay_addQuestion qn qt qc s s' hI hL hwf hr
    | err e => exact slay_same hL hI hc
    | panic => exact absurd rfl hnp

theorem slay_hv (s : State) (v : Option HV) (h : SLay s) (hI : I s) : SLay { s with hv := v } :=
  slay_congr h hI.winv hI.inv.rr_hi (fun _ _ _ => rfl) rfl rfl (fun _ hg => hg) rfl rfl rfl rfl

/-- **the writer interface, with the layout in the invariant** -/
def writerSafeL : WriterSafe where
  I := IL
  Den := Writer.Den
  I_hv := fun s v h => ⟨writerSafe.I_hv s v h.1, slay_hv s v h.2 h.1⟩
  Den_hv := fun _ _ _ _ h => h
  new_I := fun buf limit s h => ⟨new_i buf limit s h, slay_new buf limit s h⟩
  call := fun c s h hp => by
    obtain ⟨a, b, d⟩ := call_safe c s h.1 hp
    exact ⟨a, ⟨b, call_slay c s h.1 h.2 hp⟩, d⟩
  addQuestion := fun qn qt qc s h hwf => by
    obtain ⟨a, b, c, d⟩ := writerSafe.addQuestion qn qt qc s h.1 hwf
    exact ⟨a, ⟨b, addQuestion_slay qn qt qc s h.1 h.2 hwf⟩, c, d⟩
  addRr_post := fun sec hint owner ty cls ttl rd s h => writerSafe.addRr_post sec hint owner ty cls ttl rd s h.1
  addRrset_post := fun sec hint owner ty cls ttl rds s h =>
    writerSafe.addRrset_post sec hint owner ty cls ttl rds s h.1
  clearRrs_I := fun s h => ⟨clearRrs_i s h.1, slay_clearRrs s h.2 h.1⟩
  finish := fun s macFn h => writerSafe.finish s macFn h.1

end QV.Writer
