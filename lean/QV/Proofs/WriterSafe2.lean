/-
  QV.Proofs.WriterSafe2 — a second instance of the server's writer interface whose invariant also
  carries the structural layout (`SLay`), so that what the server hands to `finish` is known to
  decode: `writerSafeL`, and `finish_decodes` for it.
-/
import QV.Proofs.WriterDecodes

namespace QV.Writer
open QV QV.Wire QV.Spec QV.ServerSafety

/-- the writer invariant together with the structural layout and "a DNS message is at most 65535
    octets" -/
def IL (s : State) : Prop := I s ∧ SLay s ∧ s.limit ≤ 65535

theorem setHdr_limit (i : Nat) (f : UInt8 → UInt8) (s : State) : (setHdr i f s).2.limit = s.limit := by
  unfold setHdr; split <;> rfl

theorem write_limit (pos : Nat) (d : List UInt8) (s : State) : (write pos d s).2.limit = s.limit := by
  unfold write; split <;> rfl

theorem setRcode_limit (v : Nat) (s : State) : (setRcode v s).2.limit = s.limit := by
  unfold setRcode
  simp only [M.bind_apply]
  have := setHdr_limit Gen.RCODE_BYTE (fun b => (b &&& ~~~ (UInt8.ofNat Gen.RCODE_MASK)) ||| UInt8.ofNat v) s
  cases hs : setHdr Gen.RCODE_BYTE (fun b => (b &&& ~~~ (UInt8.ofNat Gen.RCODE_MASK)) ||| UInt8.ofNat v) s with
  | mk r s1 =>
    rw [hs] at this
    cases r with
    | ok u => simp only [M.modify_apply]; split <;> exact this
    | err e => exact this
    | panic => exact this

theorem setExtendedRcode_limit (v : Nat) (s : State) : (setExtendedRcode v s).2.limit = s.limit := by
  unfold setExtendedRcode
  simp only [M.bind_apply, M.gets_apply]
  cases s.edns with
  | none => rfl
  | some e =>
    simp only []
    split
    · rfl
    · simp only [M.bind_apply]
      have := setHdr_limit Gen.RCODE_BYTE (fun b => (b &&& ~~~ (UInt8.ofNat Gen.RCODE_MASK)) |||
              (UInt8.ofNat (v % 256) &&& UInt8.ofNat Gen.RCODE_MASK)) s
      cases hs : setHdr Gen.RCODE_BYTE (fun b => (b &&& ~~~ (UInt8.ofNat Gen.RCODE_MASK)) |||
              (UInt8.ofNat (v % 256) &&& UInt8.ofNat Gen.RCODE_MASK)) s with
      | mk r s1 =>
        rw [hs] at this
        cases r with
        | ok u => exact this
        | err e => exact this
        | panic => exact this

theorem setLimit_limit (v : Nat) (s : State) (hv : v ≤ 65535) (hs : s.limit ≤ 65535) :
    (setLimit v s).2.limit ≤ 65535 := by
  unfold setLimit
  dsimp only
  repeat' split
  all_goals first
    | exact hs
    | (show min v _ ≤ 65535; omega)
    | (show max v _ ≤ 65535; omega)

theorem setEdns_limit (p : Nat) (s : State) : (setEdns p s).2.limit = s.limit := by
  unfold setEdns; repeat' split
  all_goals rfl

theorem setTsig_limit (m : TsigMode) (rr : TsigRr) (s : State) : (setTsig m rr s).2.limit = s.limit := by
  unfold setTsig; repeat' split
  all_goals rfl

theorem setCount_limit (sec : RrSection) (n : Nat) (s : State) : (setCount sec n s).2.limit = s.limit := by
  cases sec <;> rfl

theorem call_limit (c : Call) (s : State) (hp : c.Pre Den s) (hl : s.limit ≤ 65535) :
    (c.run s).2.limit ≤ 65535 := by
  cases c with
  | setId v => show (write _ _ s).2.limit ≤ _; rw [write_limit]; exact hl
  | setBit b m v => show (setHdr _ _ s).2.limit ≤ _; rw [setHdr_limit]; exact hl
  | setOpcode v => show (setHdr _ _ s).2.limit ≤ _; rw [setHdr_limit]; exact hl
  | setRcode v => show (setRcode v s).2.limit ≤ _; rw [setRcode_limit]; exact hl
  | setExtendedRcode v => show (setExtendedRcode v s).2.limit ≤ _; rw [setExtendedRcode_limit]; exact hl
  | setLimit v => exact setLimit_limit v s hp hl
  | setEdns p => show (setEdns p s).2.limit ≤ _; rw [setEdns_limit]; exact hl
  | setTsig m rr => show (setTsig m rr s).2.limit ≤ _; rw [setTsig_limit]; exact hl
  | addRr sec h o ty cls ttl rd =>
    have hc := addRrOp_cases sec h o ty cls ttl rd s
    show (addRrOp sec h o ty cls ttl rd s).2.limit ≤ _
    cases hr : addRrOp sec h o ty cls ttl rd s with
    | mk r s' =>
      rw [hr] at hc
      cases r with
      | ok u => obtain ⟨s1, e, _, rfl⟩ := hc; show (setCount _ _ s1).2.limit ≤ _; rw [setCount_limit, e.limit]; exact hl
      | err e => show s'.limit ≤ _; rw [hc.limit]; exact hl
      | panic => show s'.limit ≤ _; rw [hc.limit]; exact hl
  | addRrset sec h o ty cls ttl rds =>
    have hc := addRrsetOp_cases sec h o ty cls ttl rds s
    show (addRrsetOp sec h o ty cls ttl rds s).2.limit ≤ _
    cases hr : addRrsetOp sec h o ty cls ttl rds s with
    | mk r s' =>
      rw [hr] at hc
      cases r with
      | ok u => obtain ⟨s1, n, e, _, rfl⟩ := hc; show (setCount _ _ s1).2.limit ≤ _; rw [setCount_limit, e.limit]; exact hl
      | err e => show s'.limit ≤ _; rw [hc.limit]; exact hl
      | panic => show s'.limit ≤ _; rw [hc.limit]; exact hl

theorem addQuestion_limit (qn : WName) (qt qc : Nat) (s : State) : (addQuestion qn qt qc s).2.limit = s.limit := by
  have hc := addQuestion_cases qn qt qc s
  cases hr : addQuestion qn qt qc s with
  | mk r s' =>
    rw [hr] at hc
    cases r with
    | ok u => obtain ⟨s1, e, _, rfl⟩ := hc; exact e.limit
    | err e => exact hc.limit
    | panic => exact hc.limit

theorem new_limit (buf : Bytes) (limit : Nat) (s : State) (h : Writer.new buf limit = .ok s) (hl : limit ≤ 65535) :
    s.limit ≤ 65535 := by
  unfold Writer.new at h
  dsimp only at h
  split at h
  · cases h
  · have hs := congrArg State.limit (Out.ok.inj h)
    simp only at hs
    rw [← hs]; omega

theorem call_slay (c : Call) (s : State) (hI : I s) (hL : SLay s) (hp : c.Pre Den s) : SLay (c.run s).2 := by
  have hnp := (call_safe c s hI hp).1
  cases c with
  | setId v => exact slay_hdrOnly hL hI (hdrOnly_write _ _ (by show _ + 2 ≤ 12; decide) s)
  | setBit b m v => exact slay_hdrOnly hL hI (hdrOnly_setHdr b _ hp s)
  | setOpcode v => exact slay_hdrOnly hL hI (hdrOnly_setHdr Gen.OPCODE_BYTE _ (by decide) s)
  | setRcode v => exact slay_hdrOnly hL hI (hdrOnly_setRcode v s)
  | setExtendedRcode v => exact slay_hdrOnly hL hI (hdrOnly_setExtendedRcode v s)
  | setLimit v => exact slay_hdrOnly hL hI (hdrOnly_setLimit v s)
  | setEdns p => exact slay_setEdns p s hL hI
  | setTsig m rr => exact slay_setTsig m rr s hL hI
  | addRr sec h o ty cls ttl rd =>
    have hc := addRrOp_cases sec h o ty cls ttl rd s
    show SLay (addRrOp sec h o ty cls ttl rd s).2
    change (addRrOp sec h o ty cls ttl rd s).1 ≠ .panic at hnp
    cases hr : addRrOp sec h o ty cls ttl rd s with
    | mk r s' =>
      rw [hr] at hc hnp
      cases r with
      | ok u => exact slay_addRrOp sec h o ty cls ttl rd s s' hI hL hp.1 ((hintOK_iff s h o).mp hp.2) hr
      | err e => exact slay_same hL hI hc
      | panic => exact absurd rfl hnp
  | addRrset sec h o ty cls ttl rds =>
    have hc := addRrsetOp_cases sec h o ty cls ttl rds s
    show SLay (addRrsetOp sec h o ty cls ttl rds s).2
    change (addRrsetOp sec h o ty cls ttl rds s).1 ≠ .panic at hnp
    cases hr : addRrsetOp sec h o ty cls ttl rds s with
    | mk r s' =>
      rw [hr] at hc hnp
      cases r with
      | ok u => exact slay_addRrsetOp sec h o ty cls ttl rds s s' hI hL hp.1 ((hintOK_iff s h o).mp hp.2) hr
      | err e => exact slay_same hL hI hc
      | panic => exact absurd rfl hnp

theorem addQuestion_slay (qn : WName) (qt qc : Nat) (s : State) (hI : I s) (hL : SLay s) (hwf : qn.WF) :
    SLay (addQuestion qn qt qc s).2 := by
  have hnp := (addQuestion_full qn qt qc s hI hwf).1
  have hc := addQuestion_cases qn qt qc s
  cases hr : addQuestion qn qt qc s with
  | mk r s' =>
    rw [hr] at hc hnp
    cases r with
    | ok u => exact slay_addQuestion qn qt qc s s' hI hL hwf hr
    | err e => exact slay_same hL hI hc
    | panic => exact absurd rfl hnp

theorem slay_hv (s : State) (v : Option HV) (h : SLay s) (hI : I s) : SLay { s with hv := v } :=
  slay_congr h hI.winv hI.inv.rr_hi (fun _ _ _ => rfl) rfl rfl (fun _ hg => hg) rfl rfl rfl rfl

/-- **the writer interface, with the layout in the invariant** -/
def writerSafeL : WriterSafe where
  I := IL
  Den := Writer.Den
  I_hv := fun s v h => ⟨writerSafe.I_hv s v h.1, slay_hv s v h.2.1 h.1, h.2.2⟩
  Den_hv := fun _ _ _ _ h => h
  new_I := fun buf limit s hl h => ⟨new_i buf limit s h, slay_new buf limit s h, new_limit buf limit s h hl⟩
  call := fun c s h hp => by
    obtain ⟨a, b, d⟩ := call_safe c s h.1 hp
    exact ⟨a, ⟨b, call_slay c s h.1 h.2.1 hp, call_limit c s hp h.2.2⟩, d⟩
  addQuestion := fun qn qt qc s h hwf => by
    obtain ⟨a, b, c, d⟩ := writerSafe.addQuestion qn qt qc s h.1 hwf
    exact ⟨a, ⟨b, addQuestion_slay qn qt qc s h.1 h.2.1 hwf, by rw [addQuestion_limit]; exact h.2.2⟩, c, d⟩
  addRr_post := fun sec hint owner ty cls ttl rd s h => writerSafe.addRr_post sec hint owner ty cls ttl rd s h.1
  addRrset_post := fun sec hint owner ty cls ttl rds s h =>
    writerSafe.addRrset_post sec hint owner ty cls ttl rds s h.1
  clearRrs_I := fun s h => ⟨clearRrs_i s h.1, slay_clearRrs s h.2.1 h.1, h.2.2⟩
  finish := fun s macFn h => writerSafe.finish s macFn h.1

end QV.Writer
