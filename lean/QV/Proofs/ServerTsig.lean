/-
  QV.Proofs.ServerTsig — lemmas behind property C10 (the TSIG branch of the server model):
  `set_tsig_or_truncate`, the decision table of `tsigProcess`, the response MAC, frame lemmas for the
  scan of the request, the split of `handle_message_with_context` into scan phase and opcode
  dispatch, the authenticated-TSIG invariant, and the room available over TCP.
-/
import QV.Model.Server
import QV.Proofs.WriterV0
import QV.Proofs.Wire
import QV.Proofs.Tsig
namespace QV.ServerTsig
open QV QV.Server QV.Writer

theorem rc_noerror : RC "NOERROR" = 0 := by decide
theorem rc_formerr : RC "FORMERR" = 1 := by decide
theorem rc_notauth : RC "NOTAUTH" = 9 := by decide
theorem xrc_badkey : XRC "BADKEY" = 17 := by decide
theorem xrc_badsig : XRC "BADVERSBADSIG" = 16 := by decide
theorem xrc_badtime : XRC "BADTIME" = 18 := by decide
theorem xrc_noerror : XRC "NOERROR" = 0 := by decide
theorem xr_badtime : XR_BADTIME = 18 := by decide

theorem rcode_bits (rc : Nat) (h : rc < 16) : ∀ b : UInt8,
    (((b &&& ~~~ (UInt8.ofNat Gen.RCODE_MASK)) ||| UInt8.ofNat rc) &&& UInt8.ofNat Gen.RCODE_MASK).toNat = rc := by
  have : rc = 0 ∨ rc = 1 ∨ rc = 2 ∨ rc = 3 ∨ rc = 4 ∨ rc = 5 ∨ rc = 6 ∨ rc = 7 ∨ rc = 8 ∨ rc = 9 ∨ rc = 10 ∨ rc = 11 ∨ rc = 12 ∨ rc = 13 ∨ rc = 14 ∨ rc = 15 := by omega
  rcases this with h|h|h|h|h|h|h|h|h|h|h|h|h|h|h|h <;> subst h <;> (apply QV.Wire.forall_uint8; decide +kernel)

theorem tc_bits : ∀ b : UInt8, ((b ||| UInt8.ofNat Gen.TC_MASK) &&& UInt8.ofNat Gen.TC_MASK != 0) = true := by
  apply QV.Wire.forall_uint8; decide +kernel

/-- the writer state changed in the header octets only (and possibly the stored upper RCODE bits) -/
structure HeaderOnly (s s' : State) : Prop where
  cursor : s'.cursor = s.cursor
  available : s'.available = s.available
  limit : s'.limit = s.limit
  rrStart : s'.rrStart = s.rrStart
  sect : s'.sect = s.sect
  qdcount : s'.qdcount = s.qdcount
  ancount : s'.ancount = s.ancount
  nscount : s'.nscount = s.nscount
  arcount : s'.arcount = s.arcount
  tsig : s'.tsig = s.tsig
  edns : s'.edns.isSome = s.edns.isSome
  size : s'.octets.size = s.octets.size

theorem HeaderOnly.refl (s : State) : HeaderOnly s s := ⟨rfl, rfl, rfl, rfl, rfl, rfl, rfl, rfl, rfl, rfl, rfl, rfl⟩

theorem HeaderOnly.trans {a b c : State} (h1 : HeaderOnly a b) (h2 : HeaderOnly b c) : HeaderOnly a c :=
  ⟨h2.cursor.trans h1.cursor, h2.available.trans h1.available, h2.limit.trans h1.limit, h2.rrStart.trans h1.rrStart,
   h2.sect.trans h1.sect, h2.qdcount.trans h1.qdcount, h2.ancount.trans h1.ancount, h2.nscount.trans h1.nscount,
   h2.arcount.trans h1.arcount, h2.tsig.trans h1.tsig, h2.edns.trans h1.edns, h2.size.trans h1.size⟩

/-- `set_rcode` on a buffer that holds a header: never fails, header-only, and the RCODE reads back -/
theorem setRcode_spec (rc : Nat) (hrc : rc < 16) (s : State) (hs : 12 ≤ s.octets.size) :
    ∃ s', setRcode rc s = (.ok (), s') ∧ HeaderOnly s s' ∧ getRcode s' = rc ∧
      (∀ i, i ≠ Gen.RCODE_BYTE → hdr s' i = hdr s i) := by
  have h3 : Gen.RCODE_BYTE < s.octets.size := by simp [Gen.RCODE_BYTE]; omega
  unfold setRcode setHdr
  simp only [bind, h3, dite_true, M.modify]
  refine ⟨_, rfl, ?_, ?_, ?_⟩
  · cases he : s.edns <;> constructor <;> simp [he]
  · cases he : s.edns <;> simp [getRcode, hdr, Gen.RCODE_BYTE] <;>
      simpa [Gen.RCODE_BYTE] using rcode_bits rc hrc _
  · intro i hi
    cases he : s.edns <;> simp [hdr, Ne.symm hi]

/-- `set_tc(true)` -/
theorem setTc_spec (s : State) (hs : 12 ≤ s.octets.size) :
    ∃ s', setTc true s = (.ok (), s') ∧ HeaderOnly s s' ∧ getBit s' Gen.TC_BYTE Gen.TC_MASK = true ∧
      s'.edns = s.edns ∧ (∀ i, i ≠ Gen.TC_BYTE → hdr s' i = hdr s i) := by
  have h2 : Gen.TC_BYTE < s.octets.size := by simp [Gen.TC_BYTE]; omega
  unfold setTc setBit setHdr
  simp only [h2, dite_true]
  refine ⟨_, rfl, ?_, ?_, rfl, ?_⟩
  · constructor <;> simp
  · simp [getBit, hdr, Gen.TC_BYTE]
    simpa [Gen.TC_BYTE] using tc_bits _
  · intro i hi
    simp [hdr, Ne.symm hi]

/-- what `set_tsig` reserves: `signed_len` / `unsigned_len` -/
def reservedLen : TsigMode → TsigRr → Nat
  | .request a _, rr => signedLen rr a
  | .response a _ _, rr => signedLen rr a
  | .subsequent a _ _, rr => signedLen rr a
  | .unsigned n, rr => unsignedLen rr n

/-- the state after a successful `set_tsig` -/
def withTsig (s : State) (mode : TsigMode) (rr : TsigRr) : State :=
  { s with arcount := s.arcount + 1, available := s.available - reservedLen mode rr,
           tsig := some ⟨mode, reservedLen mode rr, rr⟩ }

/-- the condition under which `set_tsig` succeeds -/
def TsigFits (s : State) (mode : TsigMode) (rr : TsigRr) : Prop :=
  s.tsig = none ∧ s.cursor + reservedLen mode rr ≤ s.available ∧ s.arcount + 1 ≤ 65535

instance (s : State) (mode : TsigMode) (rr : TsigRr) : Decidable (TsigFits s mode rr) := by
  unfold TsigFits; infer_instance

theorem setTsig_eq (mode : TsigMode) (rr : TsigRr) (s : State) :
    setTsig mode rr s =
      if s.tsig.isSome then (.err .AlreadyTsig, s)
      else if s.cursor + reservedLen mode rr > s.available then (.err .Truncation, s)
      else if s.arcount + 1 > 65535 then (.err .CountOverflow, s)
      else (.ok (), withTsig s mode rr) := by
  cases mode <;> rfl

theorem setTsig_fits (mode : TsigMode) (rr : TsigRr) (s : State) (h : TsigFits s mode rr) :
    setTsig mode rr s = (.ok (), withTsig s mode rr) := by
  obtain ⟨h0, h1, h2⟩ := h
  rw [setTsig_eq, if_neg (by simp [h0]), if_neg (by omega), if_neg (by omega)]

theorem setTsig_nofit (mode : TsigMode) (rr : TsigRr) (s : State) (h : ¬ TsigFits s mode rr) :
    ∃ e, setTsig mode rr s = (.err e, s) := by
  rw [setTsig_eq]
  by_cases h0 : s.tsig.isSome
  · exact ⟨.AlreadyTsig, by simp [h0]⟩
  · by_cases h1 : s.cursor + reservedLen mode rr > s.available
    · exact ⟨.Truncation, by simp [h0, h1]⟩
    · by_cases h2 : s.arcount + 1 > 65535
      · exact ⟨.CountOverflow, by simp [h0, h1, h2]⟩
      · exfalso; apply h
        refine ⟨?_, by omega, by omega⟩
        cases ht : s.tsig <;> simp_all

/-- **`set_tsig_or_truncate`, the RR fits**: it is recorded, ARCOUNT counts it, its room is reserved -/
theorem setTsigOrTruncate_fits (mode : TsigMode) (rr : TsigRr) (s : State) (h : TsigFits s mode rr) :
    setTsigOrTruncate mode rr s = (.ok true, withTsig s mode rr) := by
  unfold setTsigOrTruncate; rw [setTsig_fits mode rr s h]

/-- **`set_tsig_or_truncate`, the RR does not fit** (the repair of D03): no panic, no TSIG, TC set,
    RCODE NOERROR; nothing but the header changes -/
theorem setTsigOrTruncate_nofit (mode : TsigMode) (rr : TsigRr) (s : State) (hs : 12 ≤ s.octets.size)
    (h : ¬ TsigFits s mode rr) :
    ∃ s', setTsigOrTruncate mode rr s = (.ok false, s') ∧ HeaderOnly s s' ∧ getRcode s' = 0 ∧
      getBit s' Gen.TC_BYTE Gen.TC_MASK = true := by
  obtain ⟨e, he⟩ := setTsig_nofit mode rr s h
  obtain ⟨s1, h1, f1, r1, _⟩ := setRcode_spec 0 (by omega) s hs
  obtain ⟨s2, h2, f2, t2, _, k2⟩ := setTc_spec s1 (by rw [f1.size]; exact hs)
  refine ⟨s2, ?_, f1.trans f2, ?_, t2⟩
  · unfold setTsigOrTruncate; rw [he]
    simp only [rc_noerror, bind, h1, h2]; rfl
  · have := k2 Gen.RCODE_BYTE (by decide)
    unfold getRcode at *; rw [this]; exact r1

/-- `set_tsig_or_truncate` never panics on a writer whose buffer holds a header -/
theorem setTsigOrTruncate_no_panic (mode : TsigMode) (rr : TsigRr) (s : State) (hs : 12 ≤ s.octets.size) :
    (setTsigOrTruncate mode rr s).1 ≠ .panic := by
  by_cases h : TsigFits s mode rr
  · rw [setTsigOrTruncate_fits mode rr s h]; simp
  · obtain ⟨s', h', _⟩ := setTsigOrTruncate_nofit mode rr s hs h
    rw [h']; simp

/-! ### the decision table of the TSIG branch -/

/-- what `PreparedTsigRr::new_from_read(tsig_rr, now, TSIG_FUDGE, error)` yields for key name `kn` -/
def prepOf (kn : WName) (r : Tsig.ReadTsigRr) (nowT : Tsig.TimeSigned) (error : Nat) : TsigRr :=
  ⟨kn, if error = 18 then (Tsig.ReadTsigRr.timeSigned r).asSlice else nowT.asSlice, 300,
   (Tsig.ReadTsigRr.originalId r).toNat, error, nowT.asSlice⟩

theorem preparedFromRead_eq (kn : WName) (r : Tsig.ReadTsigRr) (nowT : Tsig.TimeSigned) (error : Nat)
    (hkn : WName.parse r.keyName = some (kn, [])) :
    preparedFromRead r nowT error = some (prepOf kn r nowT error) := by
  unfold preparedFromRead prepOf
  rw [hkn]; simp [xrc_badtime, Gen.TSIG_FUDGE]

/-- the observable effect of one TSIG reply on the writer: RCODE `rc` is set; then either the TSIG RR
    (`mode`, `rr`) is recorded and the step returns `res`, or — it does not fit — the response
    degrades to TC / NOERROR without TSIG and the step returns `none` (stop) -/
def Responds (s : State) (rc : Nat) (mode : TsigMode) (rr : TsigRr) (res : Option Reader.Reader)
    (out : Out WriterErr (Option Reader.Reader) × State) : Prop :=
  ∃ s1, HeaderOnly s s1 ∧ getRcode s1 = rc ∧ (∀ i, i ≠ Gen.RCODE_BYTE → hdr s1 i = hdr s i) ∧
    ((TsigFits s mode rr ∧ out = (.ok res, withTsig s1 mode rr)) ∨
     (¬ TsigFits s mode rr ∧ ∃ s', out = (.ok none, s') ∧ HeaderOnly s s' ∧ getRcode s' = 0 ∧
        getBit s' Gen.TC_BYTE Gen.TC_MASK = true))

theorem tsigFits_congr {s s1 : State} (h : HeaderOnly s s1) (mode : TsigMode) (rr : TsigRr) :
    TsigFits s1 mode rr ↔ TsigFits s mode rr := by
  unfold TsigFits; rw [h.tsig, h.cursor, h.available, h.arcount]

theorem respond_tail (s : State) (hs : 12 ≤ s.octets.size) (rc : Nat) (hrc : rc < 16) (mode : TsigMode)
    (rr : TsigRr) (b : Bool) (r' : Reader.Reader) :
    Responds s rc mode rr (if b then some r' else none)
      ((do setRcode rc
           let added ← setTsigOrTruncate mode rr
           if added && b then pure (some r') else pure none : M (Option Reader.Reader)) s) := by
  obtain ⟨s1, h1, f1, r1, k1⟩ := setRcode_spec rc hrc s hs
  refine ⟨s1, f1, r1, k1, ?_⟩
  by_cases hf : TsigFits s mode rr
  · left
    refine ⟨hf, ?_⟩
    have hf1 := (tsigFits_congr f1 mode rr).mpr hf
    simp only [bind, h1, setTsigOrTruncate_fits mode rr s1 hf1]
    cases b <;> rfl
  · right
    refine ⟨hf, ?_⟩
    have hf1 : ¬ TsigFits s1 mode rr := fun h => hf ((tsigFits_congr f1 mode rr).mp h)
    obtain ⟨s', h', f', r0, tc⟩ := setTsigOrTruncate_nofit mode rr s1 (by rw [f1.size]; exact hs) hf1
    refine ⟨s', ?_, f1.trans f', r0, tc⟩
    simp only [bind, h1, h']
    rfl

theorem tsigBadKey_spec (s : State) (hs : 12 ≤ s.octets.size) (r : Tsig.ReadTsigRr) (nowT : Tsig.TimeSigned)
    (kn an : WName) (hkn : WName.parse r.keyName = some (kn, [])) (han : WName.parse r.algorithm = some (an, [])) :
    Responds s 9 (.unsigned an) (prepOf kn r nowT 17) none (tsigBadKey r nowT s) := by
  unfold tsigBadKey
  rw [rc_notauth, xrc_badkey]
  obtain ⟨s1, h1, f1, r1, k1⟩ := setRcode_spec 9 (by omega) s hs
  refine ⟨s1, f1, r1, k1, ?_⟩
  by_cases hf : TsigFits s (.unsigned an) (prepOf kn r nowT 17)
  · left
    refine ⟨hf, ?_⟩
    have hf1 := (tsigFits_congr f1 _ _).mpr hf
    simp only [bind, h1, han, preparedFromRead_eq kn r nowT _ hkn, setTsigOrTruncate_fits _ _ s1 hf1]
    rfl
  · right
    refine ⟨hf, ?_⟩
    have hf1 : ¬ TsigFits s1 (.unsigned an) (prepOf kn r nowT 17) := fun h => hf ((tsigFits_congr f1 _ _).mp h)
    obtain ⟨s', h', f', r0, tc⟩ := setTsigOrTruncate_nofit _ _ s1 (by rw [f1.size]; exact hs) hf1
    refine ⟨s', ?_, f1.trans f', r0, tc⟩
    simp only [bind, h1, han, preparedFromRead_eq kn r nowT _ hkn, h']
    rfl

/-- `verify_tsig_and_write_tsig_rr` for each outcome of `verify_request` -/
theorem tsigVerifyAndWrite_spec (hm : Tsig.Algorithm → Tsig.Octets → Tsig.Octets → Tsig.Octets)
    (s : State) (hs : 12 ≤ s.octets.size) (r : Tsig.ReadTsigRr) (msg : List UInt8) (alg : Hmac.Alg)
    (secret : List UInt8) (nowT : Tsig.TimeSigned) (r' : Reader.Reader) (kn : WName)
    (hkn : WName.parse r.keyName = some (kn, [])) :
    match Tsig.verifyRequest hm r msg alg secret nowT with
    | .ok () => Responds s 0 (.response (toWriterAlg alg) (Tsig.ReadTsigRr.mac r) secret) (prepOf kn r nowT 0) (some r')
                  (tsigVerifyAndWrite hm r msg alg secret nowT r' s)
    | .err .FormErr => Responds s 1 (.unsigned (algName (toWriterAlg alg))) (prepOf kn r nowT 16) none
                  (tsigVerifyAndWrite hm r msg alg secret nowT r' s)
    | .err .BadSig => Responds s 9 (.unsigned (algName (toWriterAlg alg))) (prepOf kn r nowT 16) none
                  (tsigVerifyAndWrite hm r msg alg secret nowT r' s)
    | .err .BadTime => Responds s 9 (.response (toWriterAlg alg) (Tsig.ReadTsigRr.mac r) secret) (prepOf kn r nowT 18) none
                  (tsigVerifyAndWrite hm r msg alg secret nowT r' s)
    | .panic => (tsigVerifyAndWrite hm r msg alg secret nowT r' s).1 = .panic := by
  unfold tsigVerifyAndWrite
  rcases hv : Tsig.verifyRequest hm r msg alg secret nowT with u | e | _
  · cases u
    simp only [tsigReply, preparedFromRead_eq kn r nowT _ hkn, rc_noerror, xrc_noerror]
    have := respond_tail s hs 0 (by omega) (.response (toWriterAlg alg) (Tsig.ReadTsigRr.mac r) secret) (prepOf kn r nowT 0) true r'
    simpa using this
  · cases e
    · simp only [tsigReply, preparedFromRead_eq kn r nowT _ hkn, rc_noerror, rc_notauth, xrc_badsig]
      have := respond_tail s hs 9 (by omega) (.unsigned (algName (toWriterAlg alg))) (prepOf kn r nowT 16) false r'
      simpa using this
    · simp only [tsigReply, preparedFromRead_eq kn r nowT _ hkn, rc_noerror, rc_notauth, xrc_badtime]
      have := respond_tail s hs 9 (by omega) (.response (toWriterAlg alg) (Tsig.ReadTsigRr.mac r) secret) (prepOf kn r nowT 18) false r'
      simpa using this
    · simp only [tsigReply, preparedFromRead_eq kn r nowT _ hkn, rc_noerror, rc_formerr, xrc_badsig]
      have := respond_tail s hs 1 (by omega) (.unsigned (algName (toWriterAlg alg))) (prepOf kn r nowT 16) false r'
      simpa using this
  · simp [tsigReply]

/-- **The decision table of the TSIG branch**, in the code's precedence: unknown algorithm ⇒
    BADKEY; key unknown or configured for another algorithm ⇒ BADKEY; then whatever
    `verify_request` says: FORMERR (MAC size), BADSIG, BADTIME, or authenticated. -/
theorem tsigProcess_table (hm : Tsig.Algorithm → Tsig.Octets → Tsig.Octets → Tsig.Octets) (keys : List Key)
    (s : State) (hs : 12 ≤ s.octets.size) (r : Tsig.ReadTsigRr) (msg : List UInt8)
    (nowT : Tsig.TimeSigned) (r' : Reader.Reader) (kn an : WName)
    (hkn : WName.parse r.keyName = some (kn, [])) (han : WName.parse r.algorithm = some (an, [])) :
    let out := tsigProcess hm keys nowT r msg r' s
    match Tsig.Algorithm.fromName r.algorithm with
    | none => Responds s 9 (.unsigned an) (prepOf kn r nowT 17) none out
    | some alg =>
      match findKey keys r.keyName alg with
      | none => Responds s 9 (.unsigned an) (prepOf kn r nowT 17) none out
      | some key =>
        match Tsig.verifyRequest hm r msg alg key.secret nowT with
        | .ok () => Responds s 0 (.response (toWriterAlg alg) (Tsig.ReadTsigRr.mac r) key.secret) (prepOf kn r nowT 0) (some r') out
        | .err .FormErr => Responds s 1 (.unsigned (algName (toWriterAlg alg))) (prepOf kn r nowT 16) none out
        | .err .BadSig => Responds s 9 (.unsigned (algName (toWriterAlg alg))) (prepOf kn r nowT 16) none out
        | .err .BadTime => Responds s 9 (.response (toWriterAlg alg) (Tsig.ReadTsigRr.mac r) key.secret) (prepOf kn r nowT 18) none out
        | .panic => out.1 = .panic := by
  intro out
  unfold out tsigProcess
  cases ha : Tsig.Algorithm.fromName r.algorithm with
  | none => exact tsigBadKey_spec s hs r nowT kn an hkn han
  | some alg =>
    dsimp only
    cases hk : findKey keys r.keyName alg with
    | none => exact tsigBadKey_spec s hs r nowT kn an hkn han
    | some key => exact tsigVerifyAndWrite_spec hm s hs r msg alg key.secret nowT r' kn hkn

open QV.Tsig in
theorem fromName_some (n : Octets) (alg : Algorithm) (h : Algorithm.fromName n = some alg) : lowerName n = alg.name := by
  unfold Algorithm.fromName at h
  by_cases h1 : lowerName n = hmacSha1Name
  · rw [if_pos h1] at h; cases h; exact h1
  · by_cases h2 : lowerName n = hmacSha256Name
    · rw [if_neg h1, if_pos h2] at h; cases h; exact h2
    · rw [if_neg h1, if_neg h2] at h; cases h

/-- `findKey`: the key map has an entry under that name, and it is for that algorithm -/
theorem findKey_some_iff (keys : List Key) (kn : List UInt8) (alg : Hmac.Alg) (key : Key) :
    findKey keys kn alg = some key ↔ keys.find? (fun k => k.name == kn) = some key ∧ key.alg = alg := by
  unfold findKey
  cases h : keys.find? (fun k => k.name == kn) with
  | none => simp
  | some k =>
    by_cases ha : k.alg = alg
    · simp [ha]; intro e; subst e; exact ha
    · simp [ha]; intro e; subst e; exact ha

theorem Responds.some_inv {s : State} {rc : Nat} {mode : TsigMode} {rr : TsigRr} {res : Option Reader.Reader}
    {out : Out WriterErr (Option Reader.Reader) × State} (h : Responds s rc mode rr res out)
    {x : Reader.Reader} {s' : State} (ho : out = (.ok (some x), s')) :
    res = some x ∧ TsigFits s mode rr ∧ ∃ s1, HeaderOnly s s1 ∧ getRcode s1 = rc ∧ s' = withTsig s1 mode rr := by
  obtain ⟨s1, f1, r1, _, h⟩ := h
  rcases h with ⟨hf, h⟩ | ⟨_, s2, h, _⟩
  · rw [ho] at h
    injection h with ha hb
    injection ha with ha
    exact ⟨ha.symm, hf, s1, f1, r1, hb⟩
  · rw [ho] at h
    injection h with ha _
    injection ha with ha
    cases ha

theorem Responds.none_out {s : State} {rc : Nat} {mode : TsigMode} {rr : TsigRr}
    {out : Out WriterErr (Option Reader.Reader) × State} (h : Responds s rc mode rr none out) :
    ∃ s', out = (.ok none, s') := by
  obtain ⟨s1, _, _, _, h⟩ := h
  rcases h with ⟨_, h⟩ | ⟨_, s2, h, _⟩
  · exact ⟨_, h⟩
  · exact ⟨_, h⟩

/-! ### the response MAC -/

open QV.Tsig

theorem asSlice_ofList (l : Octets) (h : l.length = 6) : (TimeSigned.ofList l).asSlice = l := by
  match l, h with
  | [a, b, c, d, e, f], _ => rfl

theorem toUnix_ofList (l : Octets) (h : l.length = 6) : (TimeSigned.ofList l).toUnix = Spec.Tsig.nat48 l := by
  match l, h with
  | [a, b, c, d, e, f], _ =>
    simp [TimeSigned.ofList, TimeSigned.toUnix, Spec.Tsig.nat48]
    omega

theorem canonName_lower (kl : List Octets) (h : ∀ l ∈ kl, l.map Spec.Tsig.lower = l) :
    Spec.Tsig.canonName kl = (⟨kl⟩ : WName).wire := by
  unfold Spec.Tsig.canonName WName.wire
  congr 1
  induction kl with
  | nil => rfl
  | cons a t ih =>
    simp only [List.flatMap_cons]
    rw [ih (fun l hl => h l (List.mem_cons_of_mem _ hl)), h a (List.mem_cons_self ..)]
    rfl

/-- labels of the algorithm's name (RFC 8945 §6) -/
def algLabels : Hmac.Alg → List Octets
  | .HmacSha1 => (Spec.Tsig.algorithms.getD 0 ([], 0)).1
  | .HmacSha256 => (Spec.Tsig.algorithms.getD 1 ([], 0)).1

theorem canonName_algLabels (alg : Hmac.Alg) : Spec.Tsig.canonName (algLabels alg) = Algorithm.name alg := by
  cases alg <;> decide

theorem ofNat16_eq_iff (a b : Nat) (ha : a < 65536) (hb : b < 65536) : UInt16.ofNat a = UInt16.ofNat b ↔ a = b := by
  constructor
  · intro h
    have := congrArg UInt16.toNat h
    simp [UInt16.toNat_ofNat'] at this
    omega
  · intro h; rw [h]

/-- the RFC 8945 variables of the response TSIG recorded in the writer -/
def respVars (rr : TsigRr) (alg : Hmac.Alg) : Spec.Tsig.Vars :=
  { keyName := rr.keyName.labels, algName := algLabels alg, timeSigned := Spec.Tsig.nat48 rr.timeSigned,
    fudge := rr.fudge, error := rr.error, other := if rr.error = 18 then rr.serverTime else [] }

def ofWriterAlg : Writer.Alg → Hmac.Alg
  | .hmacSha1 => .HmacSha1
  | .hmacSha256 => .HmacSha256

/-- a prepared TSIG RR as `new_from_read` builds it: lower-case key name, 48-bit times, 16-bit fields -/
structure RrWF (rr : TsigRr) : Prop where
  lower : ∀ l ∈ rr.keyName.labels, l.map Spec.Tsig.lower = l
  time : rr.timeSigned.length = 6
  server : rr.serverTime.length = 6
  fudge : rr.fudge < 65536
  origId : rr.originalId < 65536
  error : rr.error < 65536

/-- the `PreparedTsigRr` the writer hands to `sign_response` -/
def prepW (rr : TsigRr) : PreparedTsigRr :=
  { keyName := rr.keyName.wire, timeSigned := TimeSigned.ofList rr.timeSigned,
    fudge := UInt16.ofNat rr.fudge, originalId := UInt16.ofNat rr.originalId,
    error := UInt16.ofNat rr.error, serverTime := TimeSigned.ofList rr.serverTime }

theorem macFnWith_response (hm : Algorithm → Octets → Octets → Octets) (ts : Writer.Tsig) (message : List UInt8)
    (alg : Writer.Alg) (requestMac key : List UInt8) (hmode : ts.mode = .response alg requestMac key) :
    macFnWith hm ts message =
      match signResponse (ε := Unit) hm (prepW ts.rr) message requestMac (ofWriterAlg alg) key with
      | .ok (_, mac) => mac
      | _ => [] := by
  unfold macFnWith
  rw [hmode]
  cases alg <;> rfl

theorem prepW_abstracts (rr : TsigRr) (wf : RrWF rr) (alg : Hmac.Alg) :
    Abstracts ((prepW rr).vars (Algorithm.name alg)) (respVars rr alg) := by
  constructor
  · show rr.keyName.wire = _
    rw [respVars, canonName_lower _ wf.lower]
  · show Algorithm.name _ = _
    rw [respVars, canonName_algLabels]
  · rfl
  · rfl
  · show (TimeSigned.ofList rr.timeSigned).toUnix = _
    rw [toUnix_ofList _ wf.time]; rfl
  · show (UInt16.ofNat rr.fudge).toNat = _
    simp [respVars, UInt16.toNat_ofNat']; have := wf.fudge; omega
  · show (UInt16.ofNat rr.error).toNat = _
    simp [respVars, UInt16.toNat_ofNat']; have := wf.error; omega
  · show PreparedTsigRr.other _ = _
    unfold PreparedTsigRr.other respVars BADTIME prepW
    dsimp only
    have h18 : Gen.XRCODE_BADTIME = 18 := by decide
    rw [h18]
    by_cases he : rr.error = 18
    · rw [if_pos he, if_pos (by rw [he]), asSlice_ofList _ wf.server]
    · rw [if_neg he, if_neg]
      intro h
      exact he ((ofNat16_eq_iff _ _ wf.error (by omega)).mp h)

theorem macFnWith_eq_rfc (hm : Algorithm → Octets → Octets → Octets) (ts : Writer.Tsig) (message : List UInt8)
    (alg : Writer.Alg) (requestMac key : List UInt8) (hmode : ts.mode = .response alg requestMac key)
    (wf : RrWF ts.rr) (hreq : requestMac.length ≤ 65535) (hmsg : MsgOk message)
    (hlen : ∀ d, (hm (ofWriterAlg alg) key d).length ≤ 65000) :
    macFnWith hm ts message =
      hm (ofWriterAlg alg) key
        (Spec.Tsig.digestInput .response message ts.rr.originalId (respVars ts.rr (ofWriterAlg alg)) requestMac) := by
  rw [macFnWith_response hm ts message alg requestMac key hmode]
  have hid : (prepW ts.rr).originalId.toNat = ts.rr.originalId := by
    simp [prepW, UInt16.toNat_ofNat']; have := wf.origId; omega
  have := signMode_eq (ε := Unit) hm .response (prepW ts.rr) message requestMac (ofWriterAlg alg) key
    (respVars ts.rr (ofWriterAlg alg)) (prepW_abstracts ts.rr wf _) (hlen _)
  have hs : signMode (ε := Unit) hm .response (prepW ts.rr) message requestMac (ofWriterAlg alg) key =
      signResponse hm (prepW ts.rr) message requestMac (ofWriterAlg alg) key := rfl
  rw [hs, if_pos ⟨hreq, hmsg⟩] at this
  rw [this, hid]

/-! ### the scan writes no record -/

/-- what the scan of the request never touches: the record area of the response -/
structure ScanFrame (s s' : State) : Prop where
  cursor : s'.cursor = s.cursor
  rrStart : s'.rrStart = s.rrStart
  sect : s'.sect = s.sect
  qdcount : s'.qdcount = s.qdcount
  ancount : s'.ancount = s.ancount
  nscount : s'.nscount = s.nscount
  size : s'.octets.size = s.octets.size

theorem ScanFrame.refl (s : State) : ScanFrame s s := ⟨rfl, rfl, rfl, rfl, rfl, rfl, rfl⟩
theorem ScanFrame.trans {a b c : State} (h1 : ScanFrame a b) (h2 : ScanFrame b c) : ScanFrame a c :=
  ⟨h2.cursor.trans h1.cursor, h2.rrStart.trans h1.rrStart, h2.sect.trans h1.sect, h2.qdcount.trans h1.qdcount,
   h2.ancount.trans h1.ancount, h2.nscount.trans h1.nscount, h2.size.trans h1.size⟩
theorem HeaderOnly.scanFrame {s s' : State} (h : HeaderOnly s s') : ScanFrame s s' :=
  ⟨h.cursor, h.rrStart, h.sect, h.qdcount, h.ancount, h.nscount, h.size⟩

/-- a writer operation that leaves the record area alone, whatever its outcome -/
def Fr {α} (m : M α) : Prop := ∀ s, ScanFrame s (m s).2

theorem Fr.pure {α} (a : α) : Fr (pure a : M α) := fun s => ScanFrame.refl s

theorem Fr.bind {α β} {x : M α} {f : α → M β} (hx : Fr x) (hf : ∀ a, Fr (f a)) : Fr (x >>= f) := by
  intro s
  show ScanFrame s ((match x s with
    | (.ok a, s') => f a s'
    | (.err e, s') => (.err e, s')
    | (.panic, s') => (.panic, s')).2)
  have h1 := hx s
  rcases hxs : x s with ⟨r, s1⟩
  rw [hxs] at h1
  cases r with
  | ok a => exact h1.trans (hf a s1)
  | err e => exact h1
  | panic => exact h1

theorem Fr.setHdr (i : Nat) (f : UInt8 → UInt8) : Fr (setHdr i f) := by
  intro s; unfold Writer.setHdr
  split
  · constructor <;> simp
  · exact ScanFrame.refl s

theorem Fr.modify (f : State → State) (h : ∀ s, ScanFrame s (f s)) : Fr (M.modify f) := fun s => h s

theorem Fr.setRcode (rc : Nat) : Fr (setRcode rc) := by
  unfold Writer.setRcode
  apply Fr.bind (Fr.setHdr _ _)
  intro _
  apply Fr.modify
  intro s; cases h : s.edns <;> constructor <;> simp

theorem Fr.setTc (v : Bool) : Fr (setTc v) := Fr.setHdr _ _

theorem Fr.setEdns (p : Nat) : Fr (setEdns p) := by
  intro s; unfold Writer.setEdns
  split
  · exact ScanFrame.refl s
  · split
    · exact ScanFrame.refl s
    · split
      · exact ScanFrame.refl s
      · constructor <;> simp

theorem Fr.setLimit (n : Nat) : Fr (setLimit n) := by
  intro s; unfold Writer.setLimit
  dsimp only
  repeat' split
  all_goals first | exact ScanFrame.refl s | (constructor <;> simp)

theorem Fr.setExtendedRcode (raw : Nat) : Fr (setExtendedRcode raw) := by
  intro s; rw [Writer.setExtendedRcode_v0]; unfold Writer.V0.setExtendedRcode
  split
  · split
    · exact ScanFrame.refl s
    · have h := Fr.setHdr Gen.RCODE_BYTE (fun b => (b &&& ~~~ (UInt8.ofNat Gen.RCODE_MASK)) |||
              (UInt8.ofNat (raw % 256) &&& UInt8.ofNat Gen.RCODE_MASK)) s
      split
      · rename_i s' heq
        rw [heq] at h
        exact ⟨h.cursor, h.rrStart, h.sect, h.qdcount, h.ancount, h.nscount, h.size⟩
      · rename_i r hne
        exact h
  · exact ScanFrame.refl s

theorem Fr.unwrap {α} {m : M α} (h : Fr m) : Fr (Writer.unwrap m) := by
  intro s; unfold Writer.unwrap
  have := h s
  split
  · rename_i e s' heq; rw [heq] at this; exact this
  · exact this

theorem Fr.setTsig (mode : TsigMode) (rr : TsigRr) : Fr (setTsig mode rr) := by
  intro s; rw [setTsig_eq]
  repeat' split
  all_goals first | exact ScanFrame.refl s | (constructor <;> simp [withTsig])

theorem Fr.setTsigOrTruncate (mode : TsigMode) (rr : TsigRr) : Fr (setTsigOrTruncate mode rr) := by
  intro s; unfold Server.setTsigOrTruncate
  have h := Fr.setTsig mode rr s
  split
  · rename_i s' heq; rw [heq] at h; exact h
  · rename_i e s' heq; rw [heq] at h
    refine h.trans ?_
    exact (Fr.bind (Fr.setRcode _) (fun _ => Fr.bind (Fr.setTc _) (fun _ => Fr.pure _))) s'
  · rename_i s' heq; rw [heq] at h; exact h

theorem Fr.panic {α} : Fr (M.panic : M α) := fun s => ScanFrame.refl s

theorem Fr.const {α} (r : Out WriterErr α) : Fr (fun s => (r, s)) := fun s => ScanFrame.refl s

theorem Fr.tsigBadKey (r : ReadTsigRr) (nowT : TimeSigned) : Fr (tsigBadKey r nowT) := by
  unfold Server.tsigBadKey
  apply Fr.bind (Fr.setRcode _)
  intro _
  split
  · exact Fr.bind (Fr.setTsigOrTruncate _ _) (fun _ => Fr.pure _)
  · exact Fr.panic

theorem Fr.tsigVerifyAndWrite (hm : Algorithm → Octets → Octets → Octets) (r : ReadTsigRr) (msg : List UInt8)
    (alg : Hmac.Alg) (secret : List UInt8) (nowT : TimeSigned) (r' : Reader.Reader) :
    Fr (tsigVerifyAndWrite hm r msg alg secret nowT r') := by
  intro s
  unfold Server.tsigVerifyAndWrite
  split
  · split
    · refine (Fr.bind (Fr.setRcode _) (fun _ => Fr.bind (Fr.setTsigOrTruncate _ _) (fun added => ?_))) s
      split
      · exact Fr.pure _
      · exact Fr.pure _
    · exact ScanFrame.refl s
  · exact ScanFrame.refl s

theorem Fr.tsigProcess (hm : Algorithm → Octets → Octets → Octets) (keys : List Key) (nowT : TimeSigned)
    (r : ReadTsigRr) (msg : List UInt8) (r' : Reader.Reader) : Fr (tsigProcess hm keys nowT r msg r') := by
  unfold Server.tsigProcess
  split
  · exact Fr.tsigBadKey _ _
  · split
    · exact Fr.tsigBadKey _ _
    · exact Fr.tsigVerifyAndWrite _ _ _ _ _ _ _

theorem Fr.formErr {α} (a : α) : Fr (Writer.setRcode (RC "FORMERR") >>= fun _ => (Pure.pure a : M α)) :=
  Fr.bind (Fr.setRcode _) (fun _ => Fr.pure _)

theorem Fr.handleTsig (cfg : Cfg) (now : Nat) (p : Reader.PeekRr) (raw : Nat) : Fr (handleTsig cfg now p raw) := by
  intro s
  unfold Server.handleTsig
  repeat' split
  all_goals first
    | exact ScanFrame.refl s
    | exact Fr.formErr _ s
    | exact Fr.tsigProcess _ _ _ _ _ _ s

/-- the tail of the OPT arm of the scan (`set_limit`, `validate_opt`, continue) -/
theorem Fr.optTail (tr : Transport) (lim : Nat) (c1 c2 : Prop) [Decidable c1] [Decidable c2]
    (k : M (Option ScanSt)) (hk : Fr k) :
    Fr (do
      if tr = Transport.udp then Writer.setLimit lim else Pure.pure ()
      if c1 then do
        Writer.unwrap (Writer.setExtendedRcode (XRC "FORMERR"))
        Pure.pure none
      else if c2 then do
        Writer.unwrap (Writer.setExtendedRcode (XRC "BADVERSBADSIG"))
        Pure.pure none
      else k : M (Option ScanSt)) := by
  by_cases htr : tr = Transport.udp <;> by_cases h1 : c1 <;> by_cases h2 : c2 <;>
    simp only [htr, h1, h2, if_true, if_false] <;>
    first
      | exact Fr.bind (Fr.setLimit _) (fun _ => Fr.bind (Fr.unwrap (Fr.setExtendedRcode _)) (fun _ => Fr.pure _))
      | exact Fr.bind (Fr.pure _) (fun _ => Fr.bind (Fr.unwrap (Fr.setExtendedRcode _)) (fun _ => Fr.pure _))
      | exact Fr.bind (Fr.unwrap (Fr.setExtendedRcode _)) (fun _ => Fr.pure _)
      | exact Fr.bind (Fr.setLimit _) (fun _ => hk)
      | exact Fr.bind (Fr.pure _) (fun _ => hk)
      | exact hk

/-- **the scan of the additional section writes no record**, whatever it finds and however it ends -/
theorem Fr.scanAr (cfg : Cfg) (tr : Transport) (now arcount : Nat) :
    ∀ (n index : Nat) (st : ScanSt), Fr (scanAr cfg tr now arcount n index st) := by
  intro n
  induction n with
  | zero => intro index st; unfold Server.scanAr; exact Fr.pure _
  | succ n ih =>
    intro index st s
    unfold Server.scanAr
    split
    · rename_i p hp
      split
      · split
        · split
          · exact Fr.formErr _ s
          · have hE := Fr.setEdns cfg.payload s
            split
            · rename_i s1 heq; rw [heq] at hE
              split
              · split
                · exact hE.trans (Fr.optTail tr _ _ _ _ (ih _ _) s1)
                · exact hE.trans (Fr.formErr _ s1)
                · exact hE
              · exact hE
            · rename_i e s1 heq; rw [heq] at hE
              exact hE.trans ((Fr.bind (Fr.setRcode _) (fun _ => Fr.pure _)) s1)
            · rename_i s1 heq; rw [heq] at hE; exact hE
        · split
          · split
            · exact Fr.formErr _ s
            · split
              · rename_i raw hraw
                have hT := Fr.handleTsig cfg now p raw s
                split
                · rename_i r' s1 heq; rw [heq] at hT; exact hT.trans (ih _ _ s1)
                · rename_i s1 heq; rw [heq] at hT; exact hT
                · rename_i e s1 heq; rw [heq] at hT; exact hT
                · rename_i s1 heq; rw [heq] at hT; exact hT
              · exact ScanFrame.refl s
          · exact ih _ _ s
      · exact ScanFrame.refl s
    · exact Fr.formErr _ s
    · exact ScanFrame.refl s


/-! ### scan phase and dispatch -/

/-- `handle_message_with_context` up to (not including) the opcode dispatch: question, pre-scan of
    answer + authority, scan of the additional section (OPT, TSIG), end-of-message test.
    Same text as the first part of `Server.handleWithContext`; `handleWithContext_eq` ties them. -/
def scanPhase (cfg : Cfg) (tr : Transport) (now : Nat) (r0 : Reader.Reader) : M ScanEnd := fun s =>
  match Reader.qdcount r0, Reader.ancount r0, Reader.nscount r0, Reader.arcount r0, Reader.opcode r0 with
  | .ok qd, .ok an, .ok ns, .ok ar, .ok _ =>
    let qres : Option (Option (WName × Nat × Nat) × Reader.Reader) × Bool × Option Nat :=
      if qd = 0 then (some (none, r0), true, none)
      else if qd = 1 then
        match Reader.readQuestion r0 with
        | (.ok q, r1) =>
          match WName.parse q.qname with
          | some (qn, []) => (some (some (qn, q.qtype, q.qclass), r1), true, none)
          | _ => (none, true, some 255)
        | (.err _, _) => (none, true, some (RC "FORMERR"))
        | (.panic, _) => (none, true, some 255)
      else (none, false, none)
    match qres with
    | (none, false, _) => (.ok ScanEnd.noResponse, s)
    | (none, true, some 255) => (.panic, s)
    | (none, true, rc) => (do setRcode (rc.getD 0); pure ScanEnd.stop) s
    | (some (question, r1), _, _) =>
      let addQ : M Bool := match question with
        | some (qn, qt, qc) => fun s =>
          match addQuestion qn qt qc s with
          | (.ok (), s') => (.ok true, s')
          | (.err _, s') => (do setRcode (RC "SERVFAIL"); pure false) s'
          | (.panic, s') => (.panic, s')
        | none => pure true
      (do
        let okQ ← addQ
        if !okQ then pure ScanEnd.stop
        else
          let r2 := Reader.setMark r1
          match scanAnNs (an + ns) r2 with
          | none => do setRcode (RC "FORMERR"); pure ScanEnd.stop
          | some r3 => do
            let st ← scanAr cfg tr now ar ar 0 { r := r3 }
            match st with
            | none => pure ScanEnd.stop
            | some st' =>
              if !Reader.atEom st'.r then do setRcode (RC "FORMERR"); pure ScanEnd.stop
              else pure (ScanEnd.proceed question)) s
  | _, _, _, _, _ => (.panic, s)

/-- the opcode dispatch of `handle_message_with_context`; result = `send_response` -/
def dispatch (cfg : Cfg) (tr : Transport) (opcode : Nat) : ScanEnd → M Bool
  | .stop => pure true
  | .noResponse => pure false
  | .proceed question => do
    if opcode = 0 then handleQuery cfg question tr else setRcode (RC "NOTIMP")
    pure true

/-- sequencing of the two phases (the `bind` of the writer monad, spelled out) -/
def andThen {α β} (r : Out WriterErr α × State) (f : α → M β) : Out WriterErr β × State :=
  match r with
  | (.ok a, s') => f a s'
  | (.err e, s') => (.err e, s')
  | (.panic, s') => (.panic, s')

theorem tail_eq (cfg : Cfg) (tr : Transport) (now an ns ar opcode : Nat) (question : Option (WName × Nat × Nat))
    (r1 : Reader.Reader) (addQ : M Bool) (s : State) :
    (do
        let okQ ← addQ
        if !okQ then pure true
        else
          let r2 := Reader.setMark r1
          match scanAnNs (an + ns) r2 with
          | none => do setRcode (RC "FORMERR"); pure true
          | some r3 => do
            let st ← scanAr cfg tr now ar ar 0 { r := r3 }
            match st with
            | none => pure true
            | some st' =>
              if !Reader.atEom st'.r then do setRcode (RC "FORMERR"); pure true
              else do
                if opcode = 0 then handleQuery cfg question tr else setRcode (RC "NOTIMP")
                pure true : M Bool) s =
      andThen ((do
        let okQ ← addQ
        if !okQ then pure ScanEnd.stop
        else
          let r2 := Reader.setMark r1
          match scanAnNs (an + ns) r2 with
          | none => do setRcode (RC "FORMERR"); pure ScanEnd.stop
          | some r3 => do
            let st ← scanAr cfg tr now ar ar 0 { r := r3 }
            match st with
            | none => pure ScanEnd.stop
            | some st' =>
              if !Reader.atEom st'.r then do setRcode (RC "FORMERR"); pure ScanEnd.stop
              else pure (ScanEnd.proceed question) : M ScanEnd) s) (dispatch cfg tr opcode) := by
  simp only [bind]
  rcases hq : addQ s with ⟨rq, s1⟩
  rcases rq with okQ | e | _
  · cases okQ
    · simp [andThen, dispatch, pure]
    · simp only [Bool.not_true, Bool.false_eq_true, if_false]
      rcases hs : scanAnNs (an + ns) (Reader.setMark r1) with _ | r3
      · simp only [bind]
        rcases hr : setRcode (RC "FORMERR") s1 with ⟨rr, s2⟩
        rcases rr with u | e | _ <;> simp [andThen, dispatch, pure]
      · simp only [bind]
        rcases hsc : scanAr cfg tr now ar ar 0 { r := r3 } s1 with ⟨rs, s2⟩
        rcases rs with st | e | _
        · cases st with
          | none => simp [andThen, dispatch, pure]
          | some st' =>
            by_cases he : Reader.atEom st'.r
            · simp [he, andThen, dispatch, pure, bind]
            · rcases hr : setRcode (RC "FORMERR") s2 with ⟨rr, s3⟩
              rcases rr with u | e | _ <;> simp [he, hr, andThen, dispatch, pure, bind]
        · simp [andThen]
        · simp [andThen]
  · simp [andThen]
  · simp [andThen]

theorem handleWithContext_eq (cfg : Cfg) (tr : Transport) (now : Nat) (r0 : Reader.Reader) (s : State) :
    handleWithContext cfg tr now r0 s =
      andThen (scanPhase cfg tr now r0 s) (dispatch cfg tr ((Reader.opcode r0).toOption.getD 0)) := by
  unfold handleWithContext scanPhase
  rcases hqd : Reader.qdcount r0 with qd | e | _
  · rcases han : Reader.ancount r0 with an | e | _
    · rcases hns : Reader.nscount r0 with ns | e | _
      · rcases har : Reader.arcount r0 with ar | e | _
        · rcases hop : Reader.opcode r0 with opcode | e | _
          · simp only [Out.toOption, Option.getD]
            by_cases h0 : qd = 0
            · simp only [h0, if_true]
              exact tail_eq cfg tr now an ns ar opcode none r0 _ s
            · by_cases h1 : qd = 1
              · simp only [h0, h1, if_true, if_false]
                rcases hrq : Reader.readQuestion r0 with ⟨rq, r1⟩
                rcases rq with q | e | _
                · rcases hp : WName.parse q.qname with _ | ⟨qn, rest⟩
                  · simp [hp, andThen]
                  · cases rest with
                    | nil =>
                      simp only [hp]
                      exact tail_eq cfg tr now an ns ar opcode (some (qn, q.qtype, q.qclass)) r1 _ s
                    | cons a t => simp [hp, andThen]
                · simp only [bind]
                  rcases hr : setRcode 1 s with ⟨rr, s3⟩
                  rcases rr with u | e | _ <;> simp [hr, andThen, dispatch, pure, rc_formerr]
                · simp [andThen]
              · simp [h0, h1, andThen, dispatch, pure]
          · simp [andThen]
          · simp [andThen]
        · simp [andThen]
        · simp [andThen]
      · simp [andThen]
      · simp [andThen]
    · simp [andThen]
    · simp [andThen]
  · simp [andThen]
  · simp [andThen]

/-! ### writing the question -/

theorem writeAt_size (a : Bytes) (pos : Nat) (d : List UInt8) : (writeAt a pos d).size = a.size := by
  induction d generalizing a pos with
  | nil => rfl
  | cons b bs ih => unfold writeAt; rw [ih]; simp

/-- what writing the question leaves alone -/
structure QFrame (s s' : State) : Prop where
  rrStart : s'.rrStart = s.rrStart
  sect : s'.sect = s.sect
  qdcount : s'.qdcount = s.qdcount
  ancount : s'.ancount = s.ancount
  nscount : s'.nscount = s.nscount
  arcount : s'.arcount = s.arcount
  available : s'.available = s.available
  limit : s'.limit = s.limit
  tsig : s'.tsig = s.tsig
  edns : s'.edns = s.edns
  size : s'.octets.size = s.octets.size
  cursor : s.cursor ≤ s'.cursor

theorem QFrame.refl (s : State) : QFrame s s := ⟨rfl, rfl, rfl, rfl, rfl, rfl, rfl, rfl, rfl, rfl, rfl, Nat.le_refl _⟩
theorem QFrame.trans {a b c : State} (h1 : QFrame a b) (h2 : QFrame b c) : QFrame a c :=
  ⟨h2.rrStart.trans h1.rrStart, h2.sect.trans h1.sect, h2.qdcount.trans h1.qdcount, h2.ancount.trans h1.ancount,
   h2.nscount.trans h1.nscount, h2.arcount.trans h1.arcount, h2.available.trans h1.available,
   h2.limit.trans h1.limit, h2.tsig.trans h1.tsig, h2.edns.trans h1.edns, h2.size.trans h1.size,
   Nat.le_trans h1.cursor h2.cursor⟩

/-- frame + how far the cursor may have moved: at most `k` octets -/
def QF {α} (k : Nat) (m : M α) : Prop := ∀ s, QFrame s (m s).2 ∧ (m s).2.cursor ≤ s.cursor + k

theorem QF.mono {α} {k k' : Nat} {m : M α} (h : QF k m) (hk : k ≤ k') : QF k' m :=
  fun s => ⟨(h s).1, Nat.le_trans (h s).2 (by omega)⟩

theorem QF.pure {α} (a : α) : QF 0 (Pure.pure a : M α) := fun s => ⟨QFrame.refl s, Nat.le_refl _⟩

theorem QF.bind {α β} {k1 k2 : Nat} {x : M α} {f : α → M β} (hx : QF k1 x) (hf : ∀ a, QF k2 (f a)) :
    QF (k1 + k2) (x >>= f) := by
  intro s
  have h1 := hx s
  show QFrame s ((match x s with
    | (.ok a, s') => f a s'
    | (.err e, s') => (.err e, s')
    | (.panic, s') => (.panic, s')).2) ∧ _
  show _ ∧ ((match x s with
    | (.ok a, s') => f a s'
    | (.err e, s') => (.err e, s')
    | (.panic, s') => (.panic, s')).2).cursor ≤ _
  rcases hxs : x s with ⟨r, s1⟩
  rw [hxs] at h1
  cases r with
  | ok a => exact ⟨h1.1.trans (hf a s1).1, by have := (hf a s1).2; have := h1.2; simp only at *; omega⟩
  | err e => exact ⟨h1.1, by have := h1.2; simp only at *; omega⟩
  | panic => exact ⟨h1.1, by have := h1.2; simp only at *; omega⟩

theorem QF.write (pos : Nat) (d : List UInt8) : QF 0 (write pos d) := by
  intro s; unfold Writer.write
  split
  · exact ⟨by constructor <;> simp [writeAt_size], by simp⟩
  · exact ⟨QFrame.refl s, Nat.le_refl _⟩

theorem QF.tryPush (d : List UInt8) : QF d.length (tryPush d) := by
  intro s; rw [Writer.tryPush_v0]; unfold Writer.V0.tryPush
  split
  · exact ⟨QFrame.refl s, by simp⟩
  · split
    · have h := QF.write s.cursor d s
      split
      · rename_i s' heq; rw [heq] at h
        exact ⟨⟨h.1.rrStart, h.1.sect, h.1.qdcount, h.1.ancount, h.1.nscount, h.1.arcount, h.1.available,
          h.1.limit, h.1.tsig, h.1.edns, h.1.size, by have := h.1.cursor; simp only at *; omega⟩,
          by have := h.2; simp only at *; omega⟩
      · rename_i r hne
        exact ⟨h.1, by have := h.2; omega⟩
    · exact ⟨QFrame.refl s, by simp⟩

theorem QF.modify (f : State → State) (h : ∀ s, QFrame s (f s) ∧ (f s).cursor ≤ s.cursor) : QF 0 (M.modify f) :=
  fun s => ⟨(h s).1, by have := (h s).2; simp only [M.modify] at *; omega⟩

theorem QF.ghostLabels (pos : Nat) (ls : List Label) (b : Bool) : QF 0 (ghostLabels pos ls b) := by
  unfold Writer.ghostLabels
  apply QF.modify
  intro s; exact ⟨by constructor <;> simp, by simp⟩

theorem QF.setCtx (c : NameCtx) : QF 0 (setCtx c) := by
  unfold Writer.setCtx
  apply QF.modify
  intro s; exact ⟨by constructor <;> simp, by simp⟩

theorem QF.pushPointer (p : Nat) : QF 2 (pushPointer p) := by
  intro s; rw [Writer.pushPointer_v0]; unfold Writer.V0.pushPointer
  have h := QF.tryPush (u16be (49152 + p)) s
  have hl : (u16be (49152 + p)).length = 2 := by simp [u16be]
  rw [hl] at h
  unfold Writer.tryPushU16
  split
  · rename_i s' heq; rw [heq] at h
    exact ⟨⟨h.1.rrStart, h.1.sect, h.1.qdcount, h.1.ancount, h.1.nscount, h.1.arcount, h.1.available,
      h.1.limit, h.1.tsig, h.1.edns, h.1.size, h.1.cursor⟩, h.2⟩
  · rename_i r hne; exact h

theorem QF.writeUncompressedName (n : WName) : QF n.wire.length (writeUncompressedName n) := by
  intro s; rw [Writer.writeUncompressedName_v0]; unfold Writer.V0.writeUncompressedName
  have h := QF.tryPush n.wire s
  dsimp only
  split
  · rename_i s' heq; rw [heq] at h
    have g := QF.ghostLabels s.cursor n.labels true s'
    exact ⟨h.1.trans g.1, by have := h.2; have := g.2; simp only at *; omega⟩
  · rename_i e s' heq; rw [heq] at h; exact h
  · rename_i s' heq; rw [heq] at h; exact h

theorem wireTo_length_le (n : WName) (k : Nat) : (n.wireTo k).length ≤ n.wire.length := by
  unfold WName.wireTo
  split
  · exact Nat.le_refl _
  · unfold WName.wire
    have : ∀ (l : List Label) (k : Nat), ((l.take k).flatMap WName.encLabel).length ≤ (l.flatMap WName.encLabel).length := by
      intro l
      induction l with
      | nil => intro k; simp
      | cons a t ih =>
        intro k
        cases k with
        | zero => simp
        | succ k => simp only [List.take_succ_cons, List.flatMap_cons, List.length_append]; have := ih k; omega
    have := this n.labels k
    simp only [List.length_append]; omega

theorem QF.writeCompressedUnhintedName (n : WName) : QF (n.wire.length + 2) (writeCompressedUnhintedName n) := by
  intro s; rw [Writer.writeCompressedUnhintedName_v0]; unfold Writer.V0.writeCompressedUnhintedName
  split
  · exact ⟨QFrame.refl s, by simp⟩
  · exact ⟨QFrame.refl s, by simp⟩
  · exact (QF.mono (QF.writeUncompressedName n) (by omega)) s
  · rename_i m hm
    split
    · have h := QF.pushPointer m.priorPointer s
      split
      · rename_i s' heq; rw [heq] at h; exact ⟨h.1, by have := h.2; simp only at *; omega⟩
      · rename_i e s' heq; rw [heq] at h; exact ⟨h.1, by have := h.2; simp only at *; omega⟩
      · rename_i s' heq; rw [heq] at h; exact ⟨h.1, by have := h.2; simp only at *; omega⟩
    · dsimp only
      have h := QF.tryPush (n.wireTo m.startColumn) s
      have hl := wireTo_length_le n m.startColumn
      split
      · rename_i s1 heq; rw [heq] at h
        have g := QF.ghostLabels s.cursor (n.labels.take m.startColumn) false s1
        have p := QF.pushPointer m.priorPointer (Writer.ghostLabels s.cursor (n.labels.take m.startColumn) false s1).2
        have f12 := h.1.trans g.1
        split
        · rename_i s3 heq3; rw [heq3] at p
          exact ⟨f12.trans p.1, by have := h.2; have := g.2; have := p.2; simp only at *; omega⟩
        · rename_i e s3 heq3; rw [heq3] at p
          exact ⟨f12.trans p.1, by have := h.2; have := g.2; have := p.2; simp only at *; omega⟩
        · rename_i s3 heq3; rw [heq3] at p
          exact ⟨f12.trans p.1, by have := h.2; have := g.2; have := p.2; simp only at *; omega⟩
      · rename_i e s1 heq; rw [heq] at h; exact ⟨h.1, by have := h.2; simp only at *; omega⟩
      · rename_i s1 heq; rw [heq] at h; exact ⟨h.1, by have := h.2; simp only at *; omega⟩

theorem QF.writeUnhintedName (n : WName) : QF (n.wire.length + 2) (writeUnhintedName n) := by
  intro s; rw [Writer.writeUnhintedName_v0]; unfold Writer.V0.writeUnhintedName
  split
  · exact QF.writeCompressedUnhintedName n s
  · exact (QF.mono (QF.writeUncompressedName n) (by omega)) s

theorem QF.get : QF 0 (M.get) := fun s => ⟨QFrame.refl s, Nat.le_refl _⟩

theorem QF.tryPushU16 (v : Nat) : QF 2 (tryPushU16 v) := by
  have := QF.tryPush (u16be v)
  have hl : (u16be v).length = 2 := by simp [u16be]
  rw [hl] at this; exact this

/-- the body of `add_question` inside `with_rollback` -/
theorem QF.questionBlock (qname : WName) (qtype qclass : Nat) :
    QF (qname.wire.length + 6) (do
        Writer.setCtx .qname
        let p ← Writer.writeUnhintedName qname
        Writer.setCtx .none
        let st ← M.get
        if st.qdcount = 0 then M.modify fun s => { s with qname := p }
        Writer.tryPushU16 qtype
        Writer.tryPushU16 qclass : M Unit) := by
  refine QF.mono (QF.bind (QF.setCtx _) fun _ => QF.bind (QF.writeUnhintedName qname) fun p =>
    QF.bind (QF.setCtx _) fun _ => QF.bind QF.get fun st => (?_ : QF 4 _)) (by omega)
  by_cases h : st.qdcount = 0
  · simp only [h, if_true]
    exact QF.mono (QF.bind (QF.modify _ (fun s => ⟨by constructor <;> simp, by simp⟩)) fun _ =>
      QF.bind (QF.tryPushU16 _) fun _ => QF.tryPushU16 _) (by omega)
  · simp only [h, if_false]
    first
      | exact QF.mono (QF.bind (QF.pure _) fun _ => QF.bind (QF.tryPushU16 _) fun _ => QF.tryPushU16 _) (by omega)
      | exact QF.mono (QF.bind (QF.tryPushU16 _) fun _ => QF.tryPushU16 _) (by omega)

/-- what every step before the TSIG step keeps: the room for the TSIG RR and the record counts -/
structure Room (s s' : State) : Prop where
  sect : s'.sect = s.sect
  ancount : s'.ancount = s.ancount
  nscount : s'.nscount = s.nscount
  arcount : s'.arcount = s.arcount
  available : s'.available = s.available
  limit : s'.limit = s.limit
  tsig : s'.tsig = s.tsig
  edns : s'.edns = s.edns
  size : s'.octets.size = s.octets.size

theorem QFrame.room {s s' : State} (h : QFrame s s') : Room s s' :=
  ⟨h.sect, h.ancount, h.nscount, h.arcount, h.available, h.limit, h.tsig, h.edns, h.size⟩

/-- **`add_question`**: on success the record area starts right after the question, which takes at
    most `name + 6` octets (`+ 2`: a compression pointer the question never needs); on failure the
    cursor is rolled back. -/
theorem addQuestion_spec (qn : WName) (qt qc : Nat) (s : State) :
    (∀ s', addQuestion qn qt qc s = (.ok (), s') →
        Room s s' ∧ s'.rrStart = s'.cursor ∧ s'.cursor ≤ s.cursor + qn.wire.length + 6) ∧
    (∀ e s', addQuestion qn qt qc s = (.err e, s') →
        Room s s' ∧ s'.cursor = s.cursor ∧ s'.rrStart = s.rrStart) := by
  rw [Writer.addQuestion_v0]; unfold Writer.V0.addQuestion
  have triv : Room s s := ⟨rfl, rfl, rfl, rfl, rfl, rfl, rfl, rfl, rfl⟩
  split
  · exact ⟨(fun s' h => by cases h), (fun e s' h => by cases h; exact ⟨triv, rfl, rfl⟩)⟩
  · split
    · exact ⟨(fun s' h => by cases h), (fun e s' h => by cases h; exact ⟨triv, rfl, rfl⟩)⟩
    · have hb := QF.questionBlock qn qt qc s
      unfold Writer.withRollback
      generalize (Writer.setCtx NameCtx.qname >>= _) s = res at hb ⊢
      rcases res with ⟨r, s1⟩
      rcases r with u | e | _
      · refine ⟨(fun s' h => ?_), (fun e s' h => by cases h)⟩
        cases h
        exact ⟨⟨hb.1.sect, hb.1.ancount, hb.1.nscount, hb.1.arcount, hb.1.available, hb.1.limit, hb.1.tsig,
          hb.1.edns, hb.1.size⟩, rfl, by have := hb.2; simp only at *; omega⟩
      · refine ⟨(fun s' h => by cases h), (fun e' s' h => ?_)⟩
        cases h
        exact ⟨⟨rfl, hb.1.ancount, hb.1.nscount, hb.1.arcount, hb.1.available, hb.1.limit, hb.1.tsig,
          hb.1.edns, hb.1.size⟩, rfl, hb.1.rrStart⟩
      · exact ⟨(fun s' h => by cases h), (fun e s' h => by cases h)⟩

/-! ### the continuing path of the scan -/

/-- the OPT arm continues only through `set_limit` (UDP) and a valid OPT -/
theorem optTail_some (tr : Transport) (lim : Nat) (c1 c2 : Prop) [Decidable c1] [Decidable c2]
    (k : M (Option ScanSt)) (s1 : State) (st' : ScanSt) (s' : State)
    (h : (do
      if tr = Transport.udp then Writer.setLimit lim else Pure.pure ()
      if c1 then do
        Writer.unwrap (Writer.setExtendedRcode (XRC "FORMERR"))
        Pure.pure none
      else if c2 then do
        Writer.unwrap (Writer.setExtendedRcode (XRC "BADVERSBADSIG"))
        Pure.pure none
      else k : M (Option ScanSt)) s1 = (.ok (some st'), s')) :
    ∃ s2, ((tr = Transport.udp ∧ Writer.setLimit lim s1 = (.ok (), s2)) ∨ (tr ≠ Transport.udp ∧ s2 = s1)) ∧
      k s2 = (.ok (some st'), s') := by
  by_cases htr : tr = Transport.udp <;> by_cases h1 : c1 <;> by_cases h2 : c2 <;>
    simp only [htr, h1, h2, ↓reduceIte, bind] at h
  all_goals first
    | exact ⟨s1, Or.inr ⟨htr, rfl⟩, h⟩
    | (split at h
       · first
         | (rename_i a s2 heq; exact ⟨s2, Or.inl ⟨htr, heq⟩, h⟩)
         | (simp [Pure.pure] at h; done)
         | (split at h <;> first | (cases h; done) | (simp [Pure.pure] at h; done))
       · cases h
       · cases h)

theorem stop_not_some {α} (m : M Unit) (s : State) (x : α) (s' : State) :
    (m >>= fun _ => (Pure.pure none : M (Option α))) s ≠ (.ok (some x), s') := by
  simp only [bind]
  intro h
  split at h <;> simp [Pure.pure] at h

/-- induction principle for the *continuing* path of the scan of the additional section: a property
    kept by a successful `set_edns`, `set_limit` and by a TSIG step that lets the scan go on holds
    when the scan completes -/
theorem scanAr_some (cfg : Cfg) (tr : Transport) (now arcount : Nat) (P : State → Prop)
    (hE : ∀ s s1, P s → setEdns cfg.payload s = (.ok (), s1) → P s1)
    (hL : ∀ l s s1, P s → setLimit l s = (.ok (), s1) → P s1)
    (hT : ∀ p raw s r' s1, P s → handleTsig cfg now p raw s = (.ok (some r'), s1) → P s1) :
    ∀ (n index : Nat) (st : ScanSt) (s : State) (st' : ScanSt) (s' : State), P s →
      scanAr cfg tr now arcount n index st s = (.ok (some st'), s') → P s' := by
  intro n
  induction n with
  | zero =>
    intro index st s st' s' hp h
    unfold Server.scanAr at h
    cases h; exact hp
  | succ n ih =>
    intro index st s st' s' hp h
    unfold Server.scanAr at h
    split at h
    · rename_i p hpk
      split at h
      · split at h
        · split at h
          · exact absurd h (stop_not_some _ _ _ _)
          · split at h
            · rename_i s1 heq
              have hp1 := hE s s1 hp heq
              split at h
              · split at h
                · obtain ⟨s2, hs2, hk⟩ := optTail_some tr _ _ _ _ s1 st' s' h
                  have hp2 : P s2 := by
                    rcases hs2 with ⟨_, hl⟩ | ⟨_, rfl⟩
                    · exact hL _ s1 s2 hp1 hl
                    · exact hp1
                  exact ih _ _ s2 st' s' hp2 hk
                · exact absurd h (stop_not_some _ _ _ _)
                · cases h
              · cases h
            · exact absurd h (stop_not_some _ _ _ _)
            · cases h
        · split at h
          · split at h
            · exact absurd h (stop_not_some _ _ _ _)
            · split at h
              · rename_i raw hraw
                split at h
                · rename_i r' s1 heq
                  exact ih _ _ s1 st' s' (hT p raw s r' s1 hp heq) h
                · cases h
                · cases h
                · cases h
              · cases h
          · exact ih _ _ s st' s' hp h
      · cases h
    · exact absurd h (stop_not_some _ _ _ _)
    · cases h

/-! ### a TSIG step that lets the scan go on is an authenticated one -/

theorem preparedFromRead_none (r : ReadTsigRr) (nowT : TimeSigned) (e : Nat)
    (h : ∀ kn, WName.parse r.keyName ≠ some (kn, [])) : preparedFromRead r nowT e = none := by
  unfold preparedFromRead
  split
  · rename_i kn heq; exact absurd heq (h kn)
  · rfl

theorem tsigBadKey_not_some (r : ReadTsigRr) (nowT : TimeSigned) (s : State) (x : Reader.Reader) (s' : State) :
    tsigBadKey r nowT s ≠ (.ok (some x), s') := by
  unfold Server.tsigBadKey
  simp only [bind]
  intro h
  split at h
  · rename_i u s1 heq
    rcases ha : WName.parse r.algorithm with _ | ⟨an, rest⟩
    · simp [ha, M.panic] at h
    · rcases hp : preparedFromRead r nowT (XRC "BADKEY") with _ | prep
      · cases rest <;> simp [ha, hp, M.panic] at h
      · cases rest with
        | nil =>
          simp only [ha, hp] at h
          split at h <;> simp [Pure.pure] at h
        | cons a t => simp [ha, hp, M.panic] at h
  · cases h
  · cases h

theorem tsigVerifyAndWrite_some (hm : Algorithm → Octets → Octets → Octets) (s : State) (hs : 12 ≤ s.octets.size)
    (r : ReadTsigRr) (msg : List UInt8) (alg : Hmac.Alg) (secret : List UInt8) (nowT : TimeSigned)
    (r' x : Reader.Reader) (s' : State)
    (h : tsigVerifyAndWrite hm r msg alg secret nowT r' s = (.ok (some x), s')) :
    ∃ kn s1, WName.parse r.keyName = some (kn, []) ∧ verifyRequest hm r msg alg secret nowT = .ok () ∧ x = r' ∧
      TsigFits s (.response (toWriterAlg alg) r.mac secret) (prepOf kn r nowT 0) ∧ HeaderOnly s s1 ∧
      getRcode s1 = 0 ∧ s' = withTsig s1 (.response (toWriterAlg alg) r.mac secret) (prepOf kn r nowT 0) := by
  by_cases hk : ∃ kn, WName.parse r.keyName = some (kn, [])
  · obtain ⟨kn, hkn⟩ := hk
    have tbl := tsigVerifyAndWrite_spec hm s hs r msg alg secret nowT r' kn hkn
    rcases hv : verifyRequest hm r msg alg secret nowT with u | e | _
    · cases u
      rw [hv] at tbl; dsimp only at tbl
      obtain ⟨hx, hf, s1, f1, r1, hs'⟩ := tbl.some_inv h
      cases hx
      exact ⟨kn, s1, hkn, rfl, rfl, hf, f1, r1, hs'⟩
    · rw [hv] at tbl
      cases e <;> dsimp only at tbl <;> (obtain ⟨s2, h2⟩ := tbl.none_out; rw [h] at h2; cases h2)
    · rw [hv] at tbl; dsimp only at tbl
      rw [h] at tbl; cases tbl
  · have hn : ∀ kn, WName.parse r.keyName ≠ some (kn, []) := fun kn hkn => hk ⟨kn, hkn⟩
    unfold Server.tsigVerifyAndWrite at h
    split at h
    · rw [preparedFromRead_none r nowT _ hn] at h
      cases h
    · cases h

/-- the witness of an authenticated request kept with the writer state: the TSIG recorded for the
    response stems from a `verify_request` that succeeded under a configured key of the right algorithm -/
def Authenticated (hm : Algorithm → Octets → Octets → Octets) (keys : List Key) (nowT : TimeSigned) (s : State) : Prop :=
  ∃ (ts : Writer.Tsig) (r : ReadTsigRr) (msg : List UInt8) (alg : Hmac.Alg) (key : Key) (kn : WName),
    s.tsig = some ts ∧ Algorithm.fromName r.algorithm = some alg ∧ findKey keys r.keyName alg = some key ∧
    verifyRequest hm r msg alg key.secret nowT = .ok () ∧
    ts.mode = .response (toWriterAlg alg) r.mac key.secret ∧ ts.rr = prepOf kn r nowT 0 ∧ getRcode s = 0

theorem tsigProcess_some (hm : Algorithm → Octets → Octets → Octets) (keys : List Key) (s : State)
    (hs : 12 ≤ s.octets.size) (r : ReadTsigRr) (msg : List UInt8) (nowT : TimeSigned) (r' x : Reader.Reader)
    (s' : State) (h : tsigProcess hm keys nowT r msg r' s = (.ok (some x), s')) :
    s.tsig = none ∧ Authenticated hm keys nowT s' ∧ s'.octets.size = s.octets.size := by
  unfold Server.tsigProcess at h
  cases ha : Algorithm.fromName r.algorithm with
  | none =>
    simp only [ha] at h
    exact absurd h (tsigBadKey_not_some _ _ _ _ _)
  | some alg =>
    simp only [ha] at h
    cases hk : findKey keys r.keyName alg with
    | none =>
      simp only [hk] at h
      exact absurd h (tsigBadKey_not_some _ _ _ _ _)
    | some key =>
      simp only [hk] at h
      obtain ⟨kn, s1, hkn, hv, _, hf, f1, r1, hs'⟩ := tsigVerifyAndWrite_some hm s hs r msg alg key.secret nowT r' x s' h
      subst hs'
      exact ⟨hf.1, ⟨⟨_, _, _⟩, r, msg, alg, key, kn, rfl, ha, hk, hv, rfl, rfl, r1⟩, f1.size⟩

theorem handleTsig_some (cfg : Cfg) (now : Nat) (p : Reader.PeekRr) (raw : Nat) (s : State)
    (hs : 12 ≤ s.octets.size) (x : Reader.Reader) (s' : State)
    (h : handleTsig cfg now p raw s = (.ok (some x), s')) :
    ∃ nowT, TimeSigned.tryFromUnix now = some nowT ∧ s.tsig = none ∧
      Authenticated realHmac cfg.keys nowT s' ∧ s'.octets.size = s.octets.size := by
  unfold Server.handleTsig at h
  split at h
  · split at h
    · split at h
      · exact absurd h (stop_not_some _ _ _ _)
      · split at h
        · exact absurd h (stop_not_some _ _ _ _)
        · cases h
        · cases h
        · split at h
          · cases h
          · rename_i nowT hnow
            obtain ⟨h0, ha, hsz⟩ := tsigProcess_some realHmac cfg.keys s hs _ _ nowT _ x s' h
            exact ⟨nowT, hnow, h0, ha, hsz⟩
    · exact absurd h (stop_not_some _ _ _ _)
    · cases h
  · cases h

/-- the state of the TSIG bookkeeping while the scan goes on: nothing recorded yet, or the record of
    an authenticated request -/
def TsigClean (cfg : Cfg) (now : Nat) (s : State) : Prop :=
  12 ≤ s.octets.size ∧
  (s.tsig = none ∨ ∃ nowT, TimeSigned.tryFromUnix now = some nowT ∧ Authenticated realHmac cfg.keys nowT s)

theorem Authenticated.congr {hm : Algorithm → Octets → Octets → Octets} {keys : List Key} {nowT : TimeSigned}
    {s s' : State} (h : Authenticated hm keys nowT s) (ht : s'.tsig = s.tsig) (ho : s'.octets = s.octets) :
    Authenticated hm keys nowT s' := by
  obtain ⟨ts, r, msg, alg, key, kn, h1, h2, h3, h4, h5, h6, h7⟩ := h
  refine ⟨ts, r, msg, alg, key, kn, ht.trans h1, h2, h3, h4, h5, h6, ?_⟩
  unfold getRcode hdr at *; rw [ho]; exact h7

theorem TsigClean.congr {cfg : Cfg} {now : Nat} {s s' : State} (h : TsigClean cfg now s) (ht : s'.tsig = s.tsig)
    (ho : s'.octets = s.octets) : TsigClean cfg now s' := by
  refine ⟨by rw [ho]; exact h.1, ?_⟩
  rcases h.2 with h0 | ⟨nowT, hn, ha⟩
  · left; exact ht.trans h0
  · right; exact ⟨nowT, hn, ha.congr ht ho⟩

/-- **if the scan of the additional section completes, any TSIG it recorded is that of an
    authenticated request** -/
theorem scanAr_tsigClean (cfg : Cfg) (tr : Transport) (now arcount : Nat) (n index : Nat) (st : ScanSt)
    (s : State) (st' : ScanSt) (s' : State) (hp : TsigClean cfg now s)
    (h : scanAr cfg tr now arcount n index st s = (.ok (some st'), s')) : TsigClean cfg now s' := by
  refine scanAr_some cfg tr now arcount (TsigClean cfg now) ?_ ?_ ?_ n index st s st' s' hp h
  · intro s s1 hp heq
    unfold Writer.setEdns at heq
    split at heq
    · cases heq
    · split at heq
      · cases heq
      · split at heq
        · cases heq
        · cases heq; exact hp.congr rfl rfl
  · intro l s s1 hp heq
    unfold Writer.setLimit at heq
    dsimp only at heq
    repeat' split at heq
    all_goals first | (cases heq; done) | (cases heq; exact hp.congr rfl rfl)
  · intro p raw s r' s1 hp heq
    obtain ⟨nowT, hn, _, ha, hsz⟩ := handleTsig_some cfg now p raw s hp.1 r' s1 heq
    exact ⟨by rw [hsz]; exact hp.1, Or.inr ⟨nowT, hn, ha⟩⟩

/-! ### the scan phase as a whole -/

/-- header and question only: no resource record has been written or counted -/
def NoRecords (s : State) : Prop := s.cursor = s.rrStart ∧ s.ancount = 0 ∧ s.nscount = 0

theorem NoRecords.of_frame {s s' : State} (h : NoRecords s) (f : ScanFrame s s') : NoRecords s' :=
  ⟨by rw [f.cursor, f.rrStart]; exact h.1, by rw [f.ancount]; exact h.2.1, by rw [f.nscount]; exact h.2.2⟩

theorem setRcode_frame (rc : Nat) (s : State) (r : Out WriterErr Unit) (s' : State)
    (h : setRcode rc s = (r, s')) : ScanFrame s s' := by
  have := Fr.setRcode rc s; rw [h] at this; exact this

theorem scanTail_post (cfg : Cfg) (tr : Transport) (now an ns ar : Nat) (question : Option (WName × Nat × Nat))
    (r1 : Reader.Reader) (addQ : M Bool) (s : State)
    (hq : ∀ r s1, addQ s = (r, s1) → r ≠ .panic → NoRecords s1 ∧ s1.tsig = none ∧ 12 ≤ s1.octets.size)
    (out : Out WriterErr ScanEnd) (s' : State)
    (h : (do
        let okQ ← addQ
        if !okQ then pure ScanEnd.stop
        else
          let r2 := Reader.setMark r1
          match scanAnNs (an + ns) r2 with
          | none => do setRcode (RC "FORMERR"); pure ScanEnd.stop
          | some r3 => do
            let st ← scanAr cfg tr now ar ar 0 { r := r3 }
            match st with
            | none => pure ScanEnd.stop
            | some st' =>
              if !Reader.atEom st'.r then do setRcode (RC "FORMERR"); pure ScanEnd.stop
              else pure (ScanEnd.proceed question) : M ScanEnd) s = (out, s'))
    (hnp : out ≠ .panic) :
    NoRecords s' ∧ (∀ q, out = .ok (ScanEnd.proceed q) → TsigClean cfg now s') := by
  simp only [bind] at h
  rcases hqa : addQ s with ⟨rq, s1⟩
  rw [hqa] at h
  rcases rq with okQ | e | _
  · obtain ⟨n1, t1, z1⟩ := hq _ _ hqa (by simp)
    cases okQ
    · simp [pure] at h; obtain ⟨rfl, rfl⟩ := h
      exact ⟨n1, fun q hq => by cases hq⟩
    · simp only [Bool.not_true, Bool.false_eq_true, if_false] at h
      rcases hsn : scanAnNs (an + ns) (Reader.setMark r1) with _ | r3
      · simp only [hsn, bind] at h
        rcases hr : setRcode (RC "FORMERR") s1 with ⟨rr, s2⟩
        have f := setRcode_frame _ _ _ _ hr
        rw [hr] at h
        rcases rr with u | e | _ <;> simp [pure] at h <;> obtain ⟨rfl, rfl⟩ := h
        · exact ⟨n1.of_frame f, fun q hq => by cases hq⟩
        · exact ⟨n1.of_frame f, fun q hq => by cases hq⟩
        · exact absurd rfl hnp
      · simp only [hsn, bind] at h
        rcases hsc : scanAr cfg tr now ar ar 0 { r := r3 } s1 with ⟨rs, s2⟩
        have f : ScanFrame s1 s2 := by have := Fr.scanAr cfg tr now ar ar 0 { r := r3 } s1; rw [hsc] at this; exact this
        rw [hsc] at h
        rcases rs with st | e | _
        · cases st with
          | none =>
            simp [pure] at h; obtain ⟨rfl, rfl⟩ := h
            exact ⟨n1.of_frame f, fun q hq => by cases hq⟩
          | some st' =>
            have hc := scanAr_tsigClean cfg tr now ar ar 0 _ s1 st' s2 ⟨z1, Or.inl t1⟩ hsc
            by_cases he : Reader.atEom st'.r
            · simp [he, pure] at h; obtain ⟨rfl, rfl⟩ := h
              exact ⟨n1.of_frame f, fun q _ => hc⟩
            · rcases hr : setRcode (RC "FORMERR") s2 with ⟨rr, s3⟩
              have f2 := setRcode_frame _ _ _ _ hr
              rcases rr with u | e | _ <;> simp [he, hr, pure, bind] at h <;> obtain ⟨rfl, rfl⟩ := h
              · exact ⟨(n1.of_frame f).of_frame f2, fun q hq => by cases hq⟩
              · exact ⟨(n1.of_frame f).of_frame f2, fun q hq => by cases hq⟩
              · exact absurd rfl hnp
        · simp at h; obtain ⟨rfl, rfl⟩ := h
          exact ⟨n1.of_frame f, fun q hq => by cases hq⟩
        · simp at h; obtain ⟨rfl, rfl⟩ := h
          exact absurd rfl hnp
  · obtain ⟨n1, _, _⟩ := hq _ _ hqa (by simp)
    simp at h; obtain ⟨rfl, rfl⟩ := h
    exact ⟨n1, fun q hq => by cases hq⟩
  · simp at h; obtain ⟨rfl, rfl⟩ := h
    exact absurd rfl hnp

theorem addQ_post (qn : WName) (qt qc : Nat) (s : State) (hn : NoRecords s) (ht : s.tsig = none)
    (hs : 12 ≤ s.octets.size) (r : Out WriterErr Bool) (s1 : State)
    (h : (match addQuestion qn qt qc s with
          | (.ok (), s') => (.ok true, s')
          | (.err _, s') => (do setRcode (RC "SERVFAIL"); pure false : M Bool) s'
          | (.panic, s') => (.panic, s')) = (r, s1)) (hnp : r ≠ .panic) :
    NoRecords s1 ∧ s1.tsig = none ∧ 12 ≤ s1.octets.size := by
  obtain ⟨hok, herr⟩ := addQuestion_spec qn qt qc s
  rcases ha : addQuestion qn qt qc s with ⟨ra, s2⟩
  rw [ha] at h
  rcases ra with u | e | _
  · cases u
    simp only at h; obtain ⟨rfl, rfl⟩ := h
    obtain ⟨rm, h1, _⟩ := hok _ ha
    exact ⟨⟨h1.symm, by rw [rm.ancount]; exact hn.2.1, by rw [rm.nscount]; exact hn.2.2⟩,
      by rw [rm.tsig]; exact ht, by rw [rm.size]; exact hs⟩
  · obtain ⟨rm, h1, h2⟩ := herr _ _ ha
    have hs2 : 12 ≤ s2.octets.size := by rw [rm.size]; exact hs
    obtain ⟨s3, h3, f3, _, _⟩ := setRcode_spec (RC "SERVFAIL") (by decide) s2 hs2
    simp only [bind, h3, pure] at h
    obtain ⟨rfl, rfl⟩ := h
    have n2 : NoRecords s2 := ⟨by rw [h1, h2]; exact hn.1, by rw [rm.ancount]; exact hn.2.1, by rw [rm.nscount]; exact hn.2.2⟩
    exact ⟨n2.of_frame f3.scanFrame, by rw [f3.tsig, rm.tsig]; exact ht, by rw [f3.size]; exact hs2⟩
  · simp only at h; obtain ⟨rfl, rfl⟩ := h
    exact absurd rfl hnp

/-- **The scan phase never writes a record, and proceeds to the opcode dispatch only with a clean
    TSIG state**: starting from a writer that holds a header only, whatever the request, the phase
    ends (unless it panics) with header + question only, and if it hands over to the dispatch, the
    TSIG recorded — if any — is that of an authenticated request. -/
theorem scanPhase_post (cfg : Cfg) (tr : Transport) (now : Nat) (r0 : Reader.Reader) (s : State)
    (hn : NoRecords s) (ht : s.tsig = none) (hs : 12 ≤ s.octets.size)
    (out : Out WriterErr ScanEnd) (s' : State) (h : scanPhase cfg tr now r0 s = (out, s')) (hnp : out ≠ .panic) :
    NoRecords s' ∧ (∀ q, out = .ok (ScanEnd.proceed q) → TsigClean cfg now s') := by
  unfold scanPhase at h
  split at h
  · rename_i qd an ns ar opcode hqd han hns har hop
    by_cases h0 : qd = 0
    · simp only [h0, if_true] at h
      refine scanTail_post cfg tr now an ns ar none r0 _ s ?_ out s' h hnp
      intro r s1 hr _
      cases hr
      exact ⟨hn, ht, hs⟩
    · by_cases h1 : qd = 1
      · simp only [h0, h1, if_true, if_false] at h
        rcases hrq : Reader.readQuestion r0 with ⟨rq, r1⟩
        rw [hrq] at h
        rcases rq with q | e | _
        · rcases hp : WName.parse q.qname with _ | ⟨qn, rest⟩
          · simp [hp] at h; exact absurd h.1.symm hnp
          · cases rest with
            | nil =>
              simp only [hp] at h
              refine scanTail_post cfg tr now an ns ar (some (qn, q.qtype, q.qclass)) r1 _ s ?_ out s' h hnp
              intro r s1 hr hnp1
              exact addQ_post qn q.qtype q.qclass s hn ht hs r s1 hr hnp1
            | cons a t => simp [hp] at h; exact absurd h.1.symm hnp
        · simp only [bind] at h
          rcases hr : setRcode 1 s with ⟨rr, s3⟩
          have f := setRcode_frame _ _ _ _ hr
          rcases rr with u | e | _ <;> simp [hr, pure, rc_formerr] at h <;> obtain ⟨rfl, rfl⟩ := h
          · exact ⟨hn.of_frame f, fun q hq => by cases hq⟩
          · exact ⟨hn.of_frame f, fun q hq => by cases hq⟩
          · exact absurd rfl hnp
        · simp at h; exact absurd h.1.symm hnp
      · simp [h0, h1] at h
        obtain ⟨rfl, rfl⟩ := h
        exact ⟨hn, fun q hq => by cases hq⟩
  · cases h; exact absurd rfl hnp


/-! ### room for the TSIG RR -/

theorem parse_wire_le (b : List UInt8) (n : WName) (rest : List UInt8) (h : WName.parse b = some (n, rest)) :
    n.wire.length ≤ 255 := by
  unfold WName.parse at h
  split at h
  · dsimp only at h
    split at h
    · rename_i hle; cases h; simpa [Gen.MAX_WIRE_LEN] using hle
    · cases h
  · cases h

theorem algName_wire_le (a : Writer.Alg) : (algName a).wire.length ≤ 255 := by cases a <;> decide +kernel

/-- room for any TSIG RR the server may want to add: 255 + 255 octets of names, 26 + 6 fixed, 32 MAC -/
def TsigRoom (s : State) : Prop := s.tsig = none ∧ s.arcount ≤ 1 ∧ s.cursor + 574 ≤ s.available

theorem tsigFits_unsigned (s : State) (h : TsigRoom s) (kn an : WName) (hk : kn.wire.length ≤ 255)
    (ha : an.wire.length ≤ 255) (r : ReadTsigRr) (nowT : TimeSigned) (e : Nat) :
    TsigFits s (.unsigned an) (prepOf kn r nowT e) := by
  obtain ⟨h0, h1, h2⟩ := h
  refine ⟨h0, ?_, by omega⟩
  simp only [reservedLen, unsignedLen, prepOf]
  by_cases he : e = XR_BADTIME <;> simp only [he, ↓reduceIte] <;> omega

theorem tsigFits_response (s : State) (h : TsigRoom s) (kn : WName) (hk : kn.wire.length ≤ 255)
    (a : Writer.Alg) (mac key : List UInt8) (r : ReadTsigRr) (nowT : TimeSigned) (e : Nat) :
    TsigFits s (.response a mac key) (prepOf kn r nowT e) := by
  obtain ⟨h0, h1, h2⟩ := h
  refine ⟨h0, ?_, by omega⟩
  have := algName_wire_le a
  have ho : algOutputSize a ≤ 32 := by cases a <;> decide
  simp only [reservedLen, signedLen, unsignedLen, prepOf]
  by_cases he : e = XR_BADTIME <;> simp only [he, ↓reduceIte] <;> omega

/-! ### over TCP the TSIG RR always fits -/

def TcClear (s : State) : Prop := getBit s Gen.TC_BYTE Gen.TC_MASK = false

/-- only the RCODE octet of the header (and the stored upper RCODE bits) changed -/
structure RcodeOnly (s s' : State) : Prop where
  ho : HeaderOnly s s'
  hdr : ∀ i, i ≠ Gen.RCODE_BYTE → Writer.hdr s' i = Writer.hdr s i

theorem RcodeOnly.refl (s : State) : RcodeOnly s s := ⟨HeaderOnly.refl s, fun _ _ => rfl⟩

theorem RcodeOnly.tc {s s' : State} (h : RcodeOnly s s') (ht : TcClear s) : TcClear s' := by
  unfold TcClear getBit at *
  rw [h.hdr Gen.TC_BYTE (by decide)]; exact ht

theorem setRcode_rcodeOnly (rc : Nat) (s : State) : RcodeOnly s (setRcode rc s).2 := by
  unfold Writer.setRcode Writer.setHdr
  by_cases h3 : Gen.RCODE_BYTE < s.octets.size
  · simp only [bind, h3, dite_true, M.modify]
    refine ⟨?_, ?_⟩
    · cases he : s.edns <;> constructor <;> simp [he]
    · intro i hi
      cases he : s.edns <;> simp [Writer.hdr, Ne.symm hi]
  · simp only [bind, h3, dite_false]
    exact RcodeOnly.refl s

theorem setExtendedRcode_rcodeOnly (raw : Nat) (s : State) : RcodeOnly s (Writer.unwrap (setExtendedRcode raw) s).2 := by
  rw [Writer.setExtendedRcode_v0]; unfold Writer.unwrap Writer.V0.setExtendedRcode Writer.setHdr
  cases he : s.edns with
  | none => exact RcodeOnly.refl s
  | some e =>
    by_cases hr : raw > 4095
    · simp only [hr, if_true]; exact RcodeOnly.refl s
    · by_cases h3 : Gen.RCODE_BYTE < s.octets.size
      · simp only [hr, if_false, h3, dite_true]
        refine ⟨by constructor <;> simp [he], ?_⟩
        intro i hi
        simp [Writer.hdr, Ne.symm hi]
      · simp only [hr, if_false, h3, dite_false]
        exact RcodeOnly.refl s

/-- what a TSIG step leaves behind when there is room: the TSIG recorded, nothing truncated -/
def TsigAdded (s s' : State) : Prop :=
  TcClear s' ∧ s'.octets.size = s.octets.size ∧ s'.cursor = s.cursor ∧ s'.tsig.isSome = true

theorem Responds.added {s : State} {rc : Nat} {mode : TsigMode} {rr : TsigRr} {res : Option Reader.Reader}
    {out : Out WriterErr (Option Reader.Reader) × State} (h : Responds s rc mode rr res out)
    (hf : TsigFits s mode rr) (ht : TcClear s) : TsigAdded s out.2 := by
  obtain ⟨s1, f1, _, k1, h⟩ := h
  rcases h with ⟨_, h⟩ | ⟨hnf, _⟩
  · rw [h]
    refine ⟨?_, f1.size, f1.cursor, rfl⟩
    have : TcClear s1 := (RcodeOnly.tc ⟨f1, k1⟩ ht)
    exact this
  · exact absurd hf hnf

theorem tsigBadKey_tcp (s : State) (hs : 12 ≤ s.octets.size) (hroom : TsigRoom s) (ht : TcClear s)
    (r : ReadTsigRr) (nowT : TimeSigned) (hnp : (tsigBadKey r nowT s).1 ≠ .panic) :
    TsigAdded s (tsigBadKey r nowT s).2 := by
  rcases hka : WName.parse r.algorithm with _ | ⟨an, rest⟩
  · exfalso; apply hnp
    obtain ⟨s1, h1, _⟩ := setRcode_spec (RC "NOTAUTH") (by decide) s hs
    simp [Server.tsigBadKey, bind, h1, hka, M.panic]
  · rcases hkk : preparedFromRead r nowT (XRC "BADKEY") with _ | prep
    · exfalso; apply hnp
      obtain ⟨s1, h1, _⟩ := setRcode_spec (RC "NOTAUTH") (by decide) s hs
      cases rest <;> simp [Server.tsigBadKey, bind, h1, hka, hkk, M.panic]
    · cases rest with
      | cons a t =>
        exfalso; apply hnp
        obtain ⟨s1, h1, _⟩ := setRcode_spec (RC "NOTAUTH") (by decide) s hs
        simp [Server.tsigBadKey, bind, h1, hka, hkk, M.panic]
      | nil =>
        -- the key name parsed, too
        have hkn : ∃ kn, WName.parse r.keyName = some (kn, []) := by
          apply Classical.byContradiction
          intro hno
          rw [preparedFromRead_none r nowT _ (fun kn hk => hno ⟨kn, hk⟩)] at hkk
          cases hkk
        obtain ⟨kn, hkn⟩ := hkn
        exact (tsigBadKey_spec s hs r nowT kn an hkn hka).added
          (tsigFits_unsigned s hroom kn an (parse_wire_le _ _ _ hkn) (parse_wire_le _ _ _ hka) r nowT 17) ht

theorem tsigVerifyAndWrite_tcp (hm : Algorithm → Octets → Octets → Octets) (s : State) (hs : 12 ≤ s.octets.size)
    (hroom : TsigRoom s) (ht : TcClear s) (r : ReadTsigRr) (msg : List UInt8) (alg : Hmac.Alg)
    (secret : List UInt8) (nowT : TimeSigned) (r' : Reader.Reader)
    (hnp : (tsigVerifyAndWrite hm r msg alg secret nowT r' s).1 ≠ .panic) :
    TsigAdded s (tsigVerifyAndWrite hm r msg alg secret nowT r' s).2 := by
  by_cases hk : ∃ kn, WName.parse r.keyName = some (kn, [])
  · obtain ⟨kn, hkn⟩ := hk
    have hkl := parse_wire_le _ _ _ hkn
    have tbl := tsigVerifyAndWrite_spec hm s hs r msg alg secret nowT r' kn hkn
    rcases hv : verifyRequest hm r msg alg secret nowT with u | e | _
    · cases u
      rw [hv] at tbl
      exact tbl.added (tsigFits_response s hroom kn hkl _ _ _ r nowT 0) ht
    · rw [hv] at tbl
      cases e <;> dsimp only at tbl
      · exact tbl.added (tsigFits_unsigned s hroom kn _ hkl (algName_wire_le _) r nowT 16) ht
      · exact tbl.added (tsigFits_response s hroom kn hkl _ _ _ r nowT 18) ht
      · exact tbl.added (tsigFits_unsigned s hroom kn _ hkl (algName_wire_le _) r nowT 16) ht
    · rw [hv] at tbl
      exact absurd tbl hnp
  · exfalso; apply hnp
    have hn : ∀ kn, WName.parse r.keyName ≠ some (kn, []) := fun kn hkn => hk ⟨kn, hkn⟩
    unfold Server.tsigVerifyAndWrite
    split
    · rw [preparedFromRead_none r nowT _ hn]
    · rfl

theorem tsigProcess_tcp (hm : Algorithm → Octets → Octets → Octets) (keys : List Key) (s : State)
    (hs : 12 ≤ s.octets.size) (hroom : TsigRoom s) (ht : TcClear s) (r : ReadTsigRr) (msg : List UInt8)
    (nowT : TimeSigned) (r' : Reader.Reader) (hnp : (tsigProcess hm keys nowT r msg r' s).1 ≠ .panic) :
    TsigAdded s (tsigProcess hm keys nowT r msg r' s).2 := by
  unfold Server.tsigProcess at hnp ⊢
  cases ha : Algorithm.fromName r.algorithm with
  | none =>
    simp only [ha] at hnp ⊢
    exact tsigBadKey_tcp s hs hroom ht r nowT hnp
  | some alg =>
    simp only [ha] at hnp ⊢
    cases hk : findKey keys r.keyName alg with
    | none =>
      simp only [hk] at hnp ⊢
      exact tsigBadKey_tcp s hs hroom ht r nowT hnp
    | some key =>
      simp only [hk] at hnp ⊢
      exact tsigVerifyAndWrite_tcp hm s hs hroom ht r msg alg key.secret nowT r' hnp

/-- TCP: nothing but the OPT reservation has been taken from the 65535 octets -/
def RoomT (s : State) : Prop :=
  s.tsig = none ∧ ((s.edns.isSome = false ∧ s.available = 65535 ∧ s.arcount = 0) ∨
                   (s.edns.isSome = true ∧ s.available = 65524 ∧ s.arcount = 1))

/-- invariant of the scan over TCP at record index `i` of `ar`: nothing truncated, the question is
    short, and either the TSIG RR has been recorded (then the scan is past the last record) or
    there is still room for it -/
def TcpInv (ar i : Nat) (s : State) : Prop :=
  12 ≤ s.octets.size ∧ TcClear s ∧ s.cursor ≤ 273 ∧ ((s.tsig.isSome = true ∧ ar ≤ i) ∨ RoomT s)

theorem RoomT.tsigRoom {s : State} (h : RoomT s) (hc : s.cursor ≤ 273) : TsigRoom s := by
  obtain ⟨h0, h | h⟩ := h
  · exact ⟨h0, by omega, by omega⟩
  · exact ⟨h0, by omega, by omega⟩

theorem TcpInv.mono {ar i j : Nat} {s : State} (h : TcpInv ar i s) (hij : i ≤ j) : TcpInv ar j s := by
  obtain ⟨a, b, c, d⟩ := h
  refine ⟨a, b, c, ?_⟩
  rcases d with ⟨d1, d2⟩ | d
  · exact Or.inl ⟨d1, by omega⟩
  · exact Or.inr d

theorem TcpInv.rcodeOnly {ar i : Nat} {s s' : State} (h : TcpInv ar i s) (f : RcodeOnly s s') : TcpInv ar i s' := by
  obtain ⟨a, b, c, d⟩ := h
  refine ⟨by rw [f.ho.size]; exact a, f.tc b, by rw [f.ho.cursor]; exact c, ?_⟩
  rcases d with ⟨d1, d2⟩ | ⟨d0, d⟩
  · exact Or.inl ⟨by rw [f.ho.tsig]; exact d1, d2⟩
  · refine Or.inr ⟨by rw [f.ho.tsig]; exact d0, ?_⟩
    rw [f.ho.edns, f.ho.available, f.ho.arcount]; exact d

theorem TcpInv.setEdns {ar i : Nat} {s : State} (p : Nat) (h : TcpInv ar i s) : TcpInv ar i (setEdns p s).2 := by
  unfold Writer.setEdns
  split
  · exact h
  · split
    · exact h
    · split
      · exact h
      · rename_i he _ _
        obtain ⟨a, b, c, d⟩ := h
        refine ⟨a, b, c, ?_⟩
        rcases d with ⟨d1, d2⟩ | ⟨d0, d⟩
        · exact Or.inl ⟨d1, d2⟩
        · refine Or.inr ⟨d0, Or.inr ?_⟩
          rcases d with ⟨e1, e2, e3⟩ | ⟨e1, _, _⟩
          · simp only [Option.isSome_some, true_and]
            simp only [Gen.OPT_RECORD_SIZE]; omega
          · exact absurd e1 he

theorem handleTsig_tcp (cfg : Cfg) (now : Nat) (p : Reader.PeekRr) (raw ar : Nat) (har : 1 ≤ ar) (s : State)
    (h : TcpInv ar (ar - 1) s) (hnp : (handleTsig cfg now p raw s).1 ≠ .panic) :
    TcpInv ar ar (handleTsig cfg now p raw s).2 := by
  have hstop : TcpInv ar ar ((Writer.setRcode (RC "FORMERR") >>= fun _ => (Pure.pure none : M (Option Reader.Reader))) s).2 := by
    have f := setRcode_rcodeOnly (RC "FORMERR") s
    have := (h.mono (by omega : ar - 1 ≤ ar)).rcodeOnly f
    simp only [bind]
    split <;> rename_i heq <;> rw [heq] at this <;> exact this
  have hsame : TcpInv ar ar s := h.mono (by omega)
  revert hnp
  unfold Server.handleTsig
  rcases h1 : p.messageToRr with m | e | _ <;> (try dsimp only)
  · rcases h2 : Reader.PeekRr.parse rdRead p with ⟨pr, r'⟩
    rcases pr with rr | e | _ <;> (try dsimp only)
    · by_cases h3 : raw ≠ 0
      · rw [if_pos h3]; exact fun _ => hstop
      · rw [if_neg h3]
        rcases h4 : ReadTsigRr.tryFrom rr.owner rr.rrType rr.cls rr.ttl rr.rdata with t | e | _ <;> (try dsimp only)
        · rcases h5 : TimeSigned.tryFromUnix now with _ | nowT <;> (try dsimp only)
          · exact fun _ => hsame
          · intro hnp
            obtain ⟨a, b, c, d⟩ := h
            rcases d with ⟨_, d2⟩ | d
            · omega
            · obtain ⟨t1, t2, t3, t4⟩ := tsigProcess_tcp realHmac cfg.keys s a (d.tsigRoom c) b t m.toList nowT r' hnp
              exact ⟨by rw [t2]; exact a, t1, by rw [t3]; exact c, Or.inl ⟨t4, Nat.le_refl _⟩⟩
        · cases e <;> (try dsimp only)
          · exact fun _ => hstop
          · exact fun _ => hsame
        · exact fun _ => hsame
    · exact fun _ => hstop
    · exact fun _ => hsame
  · exact fun _ => hsame
  · exact fun _ => hsame

theorem stop_tcp {α} {ar i : Nat} {s : State} (h : TcpInv ar i s) (hi : i ≤ ar) (rc : Nat) :
    TcpInv ar ar ((Writer.setRcode rc >>= fun _ => (Pure.pure none : M (Option α))) s).2 := by
  have f := setRcode_rcodeOnly rc s
  have := (h.mono hi).rcodeOnly f
  simp only [bind]
  split <;> rename_i heq <;> rw [heq] at this <;> exact this

theorem xstop_tcp {α} {ar i : Nat} {s : State} (h : TcpInv ar i s) (hi : i ≤ ar) (raw : Nat) :
    TcpInv ar ar ((Writer.unwrap (Writer.setExtendedRcode raw) >>= fun _ => (Pure.pure none : M (Option α))) s).2 := by
  have f := setExtendedRcode_rcodeOnly raw s
  have := (h.mono hi).rcodeOnly f
  simp only [bind]
  split <;> rename_i heq <;> rw [heq] at this <;> exact this

theorem optTail_tcp (lim : Nat) (c1 c2 : Prop) [Decidable c1] [Decidable c2] (k : M (Option ScanSt))
    (ar i : Nat) (hi : i ≤ ar) (s1 : State) (h : TcpInv ar i s1)
    (hk : (k s1).1 ≠ .panic → TcpInv ar ar (k s1).2) :
    ((do
      if Transport.tcp = Transport.udp then Writer.setLimit lim else Pure.pure ()
      if c1 then do
        Writer.unwrap (Writer.setExtendedRcode (XRC "FORMERR"))
        Pure.pure none
      else if c2 then do
        Writer.unwrap (Writer.setExtendedRcode (XRC "BADVERSBADSIG"))
        Pure.pure none
      else k : M (Option ScanSt)) s1).1 ≠ .panic →
    TcpInv ar ar ((do
      if Transport.tcp = Transport.udp then Writer.setLimit lim else Pure.pure ()
      if c1 then do
        Writer.unwrap (Writer.setExtendedRcode (XRC "FORMERR"))
        Pure.pure none
      else if c2 then do
        Writer.unwrap (Writer.setExtendedRcode (XRC "BADVERSBADSIG"))
        Pure.pure none
      else k : M (Option ScanSt)) s1).2 := by
  have htr : ¬ (Transport.tcp = Transport.udp) := by decide
  by_cases h1 : c1 <;> by_cases h2 : c2 <;> simp only [htr, h1, h2, ↓reduceIte, bind, Pure.pure]
  · exact fun _ => xstop_tcp h hi _
  · exact fun _ => xstop_tcp h hi _
  · exact fun _ => xstop_tcp h hi _
  · exact hk

/-- **over TCP the scan of the additional section never truncates**: with 65535 octets and a
    question of at most 261 octets there is room for OPT and any TSIG RR (≤ 542 octets), so
    `set_tsig_or_truncate` always takes its first branch and TC stays clear -/
theorem scanAr_tcp (cfg : Cfg) (now ar : Nat) :
    ∀ (n index : Nat) (st : ScanSt) (s : State), index + n = ar → TcpInv ar index s →
      (scanAr cfg .tcp now ar n index st s).1 ≠ .panic → TcpInv ar ar (scanAr cfg .tcp now ar n index st s).2 := by
  intro n
  induction n with
  | zero =>
    intro index st s hsum h _
    unfold Server.scanAr
    exact h.mono (by omega)
  | succ n ih =>
    intro index st s hsum h
    have hi : index ≤ ar := by omega
    have hsame : TcpInv ar ar s := h.mono hi
    unfold Server.scanAr
    rcases h1 : Reader.peekRr st.r with p | e | _ <;> (try dsimp only)
    · rcases h2 : p.rrType with t | e | _ <;> (try dsimp only)
      · by_cases hopt : t = T "OPT"
        · rw [if_pos hopt]
          by_cases hseen : st.seenOpt
          · rw [if_pos hseen]; exact fun _ => stop_tcp h hi _
          · rw [if_neg hseen]
            have hE := TcpInv.setEdns (ar := ar) (i := index) cfg.payload h
            rcases h3 : setEdns cfg.payload s with ⟨re, s1⟩
            rw [h3] at hE
            rcases re with u | e | _ <;> (try dsimp only)
            · rcases h4 : p.rawTtl with raw | e | _ <;> (try dsimp only)
              · rcases h5 : Reader.PeekRr.parse rdRead p with ⟨pr, r'⟩
                rcases pr with opt | e | _ <;> (try dsimp only)
                · exact optTail_tcp _ _ _ _ ar index hi s1 hE (ih (index + 1) _ s1 (by omega) (hE.mono (by omega)))
                · exact fun _ => stop_tcp hE hi _
                · exact fun _ => hE.mono hi
              · exact fun _ => hE.mono hi
              · exact fun _ => hE.mono hi
            · exact fun _ => stop_tcp hE hi _
            · exact fun _ => hE.mono hi
        · rw [if_neg hopt]
          by_cases htsig : t = T "TSIG"
          · rw [if_pos htsig]
            by_cases hidx : index ≠ ar - 1
            · rw [if_pos hidx]; exact fun _ => stop_tcp h hi _
            · rw [if_neg hidx]
              have hidx' : index = ar - 1 := Classical.not_not.mp hidx
              rcases h4 : p.rawTtl with raw | e | _ <;> (try dsimp only)
              · have hT := handleTsig_tcp cfg now p raw ar (by omega) s (hidx' ▸ h)
                rcases h6 : handleTsig cfg now p raw s with ⟨rt, s1⟩
                rw [h6] at hT
                rcases rt with o | e | _ <;> (try dsimp only)
                · cases o with
                  | none => exact fun _ => hT (by simp)
                  | some r' =>
                    dsimp only
                    exact ih (index + 1) _ s1 (by omega) ((hT (by simp)).mono (by omega)) |> fun f hnp => f hnp
                · exact fun _ => hT (by simp)
                · exact fun hnp => absurd rfl hnp
              · exact fun _ => hsame
              · exact fun _ => hsame
          · rw [if_neg htsig]
            exact ih (index + 1) _ s (by omega) (h.mono (by omega))
      · exact fun _ => hsame
      · exact fun _ => hsame
    · exact fun _ => stop_tcp h hi _
    · exact fun _ => hsame

/-! ### writing the question does not touch what lies below the cursor (in particular the header) -/

theorem writeAt_low (a : Bytes) (pos : Nat) (d : List UInt8) (i : Nat) (hi : i < pos) :
    (writeAt a pos d).getD i 0 = a.getD i 0 := by
  induction d generalizing a pos with
  | nil => rfl
  | cons b bs ih =>
    unfold writeAt
    rw [ih _ _ (by omega)]
    have hne : pos ≠ i := by omega
    simp only [Array.getD_eq_getD_getElem?, Array.getElem?_setIfInBounds_ne hne]

/-- the cursor only advances and the octets below the old cursor are unchanged -/
def Low (s s' : State) : Prop := s.cursor ≤ s'.cursor ∧ ∀ i, i < s.cursor → s'.octets.getD i 0 = s.octets.getD i 0

theorem Low.refl (s : State) : Low s s := ⟨Nat.le_refl _, fun _ _ => rfl⟩
theorem Low.trans {a b c : State} (h1 : Low a b) (h2 : Low b c) : Low a c :=
  ⟨Nat.le_trans h1.1 h2.1, fun i hi => (h2.2 i (by have := h1.1; omega)).trans (h1.2 i hi)⟩

def LW {α} (m : M α) : Prop := ∀ s, Low s (m s).2

theorem LW.pure {α} (a : α) : LW (Pure.pure a : M α) := fun s => Low.refl s

theorem LW.bind {α β} {x : M α} {f : α → M β} (hx : LW x) (hf : ∀ a, LW (f a)) : LW (x >>= f) := by
  intro s
  show Low s ((match x s with
    | (.ok a, s') => f a s'
    | (.err e, s') => (.err e, s')
    | (.panic, s') => (.panic, s')).2)
  have h1 := hx s
  rcases hxs : x s with ⟨r, s1⟩
  rw [hxs] at h1
  cases r with
  | ok a => exact h1.trans (hf a s1)
  | err e => exact h1
  | panic => exact h1

theorem LW.tryPush (d : List UInt8) : LW (tryPush d) := by
  intro s; rw [Writer.tryPush_v0]; unfold Writer.V0.tryPush Writer.write
  by_cases h1 : s.available < s.cursor
  · rw [if_pos h1]; exact Low.refl s
  · rw [if_neg h1]
    by_cases h2 : s.available - s.cursor ≥ d.length
    · rw [if_pos h2]
      by_cases h3 : s.cursor + d.length ≤ s.octets.size
      · rw [if_pos h3]
        exact ⟨by simp, fun i hi => writeAt_low _ _ _ i hi⟩
      · rw [if_neg h3]; exact Low.refl s
    · rw [if_neg h2]; exact Low.refl s

theorem LW.modify (f : State → State) (h : ∀ s, (f s).cursor = s.cursor ∧ (f s).octets = s.octets) : LW (M.modify f) :=
  fun s => ⟨by simp [M.modify, (h s).1], fun i _ => by simp [M.modify, (h s).2]⟩

theorem LW.ghostLabels (pos : Nat) (ls : List Label) (b : Bool) : LW (ghostLabels pos ls b) :=
  LW.modify _ (fun _ => ⟨rfl, rfl⟩)

theorem LW.setCtx (c : NameCtx) : LW (setCtx c) := LW.modify _ (fun _ => ⟨rfl, rfl⟩)

theorem LW.pushPointer (p : Nat) : LW (pushPointer p) := by
  intro s; rw [Writer.pushPointer_v0]; unfold Writer.V0.pushPointer Writer.tryPushU16
  have h := LW.tryPush (u16be (49152 + p)) s
  split
  · rename_i s' heq; rw [heq] at h; exact h
  · rename_i r hne; exact h

theorem LW.writeUncompressedName (n : WName) : LW (writeUncompressedName n) := by
  intro s; rw [Writer.writeUncompressedName_v0]; unfold Writer.V0.writeUncompressedName
  have h := LW.tryPush n.wire s
  dsimp only
  split
  · rename_i s' heq; rw [heq] at h
    exact h.trans (LW.ghostLabels s.cursor n.labels true s')
  · rename_i e s' heq; rw [heq] at h; exact h
  · rename_i s' heq; rw [heq] at h; exact h

theorem LW.writeCompressedUnhintedName (n : WName) : LW (writeCompressedUnhintedName n) := by
  intro s; rw [Writer.writeCompressedUnhintedName_v0]; unfold Writer.V0.writeCompressedUnhintedName
  split
  · exact Low.refl s
  · exact Low.refl s
  · exact LW.writeUncompressedName n s
  · rename_i m hm
    split
    · have h := LW.pushPointer m.priorPointer s
      split
      · rename_i s' heq; rw [heq] at h; exact h
      · rename_i e s' heq; rw [heq] at h; exact h
      · rename_i s' heq; rw [heq] at h; exact h
    · dsimp only
      have h := LW.tryPush (n.wireTo m.startColumn) s
      split
      · rename_i s1 heq; rw [heq] at h
        have g := LW.ghostLabels s.cursor (n.labels.take m.startColumn) false s1
        have p := LW.pushPointer m.priorPointer (Writer.ghostLabels s.cursor (n.labels.take m.startColumn) false s1).2
        have f12 := h.trans g
        split
        · rename_i s3 heq3; rw [heq3] at p; exact f12.trans p
        · rename_i e s3 heq3; rw [heq3] at p; exact f12.trans p
        · rename_i s3 heq3; rw [heq3] at p; exact f12.trans p
      · rename_i e s1 heq; rw [heq] at h; exact h
      · rename_i s1 heq; rw [heq] at h; exact h

theorem LW.writeUnhintedName (n : WName) : LW (writeUnhintedName n) := by
  intro s; rw [Writer.writeUnhintedName_v0]; unfold Writer.V0.writeUnhintedName
  split
  · exact LW.writeCompressedUnhintedName n s
  · exact LW.writeUncompressedName n s

theorem LW.questionBlock (qname : WName) (qtype qclass : Nat) :
    LW (do
        Writer.setCtx .qname
        let p ← Writer.writeUnhintedName qname
        Writer.setCtx .none
        let st ← M.get
        if st.qdcount = 0 then M.modify fun s => { s with qname := p }
        Writer.tryPushU16 qtype
        Writer.tryPushU16 qclass : M Unit) := by
  refine LW.bind (LW.setCtx _) fun _ => LW.bind (LW.writeUnhintedName qname) fun p =>
    LW.bind (LW.setCtx _) fun _ => LW.bind (fun s => Low.refl s) fun st => ?_
  by_cases h : st.qdcount = 0
  · simp only [h, if_true]
    exact LW.bind (LW.modify _ (fun _ => ⟨rfl, rfl⟩)) fun _ => LW.bind (LW.tryPush _) fun _ => LW.tryPush _
  · simp only [h, if_false]
    first
      | exact LW.bind (LW.pure _) fun _ => LW.bind (LW.tryPush _) fun _ => LW.tryPush _
      | exact LW.bind (LW.tryPush _) fun _ => LW.tryPush _

/-- `add_question` leaves the octets below the cursor (the header) alone, whatever its outcome -/
theorem addQuestion_low (qn : WName) (qt qc : Nat) (s : State) (i : Nat) (hi : i < s.cursor) :
    (addQuestion qn qt qc s).2.octets.getD i 0 = s.octets.getD i 0 := by
  rw [Writer.addQuestion_v0]; unfold Writer.V0.addQuestion
  split
  · rfl
  · split
    · rfl
    · have hb := LW.questionBlock qn qt qc s
      unfold Writer.withRollback
      generalize (Writer.setCtx NameCtx.qname >>= _) s = res at hb ⊢
      rcases res with ⟨r, s1⟩
      rcases r with u | e | _ <;> exact hb.2 i hi

/-- a writer as `handle_message` sets it up over TCP: header only, 65535 octets, nothing reserved -/
def FreshTcp (s : State) : Prop := 12 ≤ s.octets.size ∧ TcClear s ∧ s.cursor = 12 ∧ RoomT s

theorem addQ_tcp (ar : Nat) (qn : WName) (hq : qn.wire.length ≤ 255) (qt qc : Nat) (s : State) (hf : FreshTcp s)
    (r : Out WriterErr Bool) (s1 : State)
    (h : (match addQuestion qn qt qc s with
          | (.ok (), s') => (.ok true, s')
          | (.err _, s') => (do setRcode (RC "SERVFAIL"); pure false : M Bool) s'
          | (.panic, s') => (.panic, s')) = (r, s1)) (hnp : r ≠ .panic) : TcpInv ar 0 s1 := by
  obtain ⟨hsz, htc, hcur, hroom⟩ := hf
  obtain ⟨hok, herr⟩ := addQuestion_spec qn qt qc s
  have hlow := addQuestion_low qn qt qc s Gen.TC_BYTE (by rw [hcur]; decide)
  rcases ha : addQuestion qn qt qc s with ⟨ra, s2⟩
  rw [ha] at h hlow
  have htc2 : TcClear s2 := by
    unfold TcClear getBit Writer.hdr at *
    rw [hlow]; exact htc
  have hroom2 : Room s s2 → RoomT s2 := fun rm => by
    obtain ⟨h0, hd⟩ := hroom
    refine ⟨by rw [rm.tsig]; exact h0, ?_⟩
    rw [rm.edns, rm.available, rm.arcount]; exact hd
  rcases ra with u | e | _
  · cases u
    simp only at h; obtain ⟨rfl, rfl⟩ := h
    obtain ⟨rm, _, hc⟩ := hok _ ha
    exact ⟨by rw [rm.size]; exact hsz, htc2, by omega, Or.inr (hroom2 rm)⟩
  · obtain ⟨rm, h1, _⟩ := herr _ _ ha
    have inv2 : TcpInv ar 0 s2 := ⟨by rw [rm.size]; exact hsz, htc2, by omega, Or.inr (hroom2 rm)⟩
    have f := setRcode_rcodeOnly (RC "SERVFAIL") s2
    have inv3 := inv2.rcodeOnly f
    simp only [bind] at h
    rcases hr : setRcode (RC "SERVFAIL") s2 with ⟨rr, s3⟩
    rw [hr] at h inv3
    rcases rr with u | e | _ <;> simp [pure] at h <;> obtain ⟨rfl, rfl⟩ := h
    · exact inv3
    · exact inv3
    · exact absurd rfl hnp
  · simp only at h; obtain ⟨rfl, rfl⟩ := h
    exact absurd rfl hnp

theorem TcpInv.tc {ar i : Nat} {s : State} (h : TcpInv ar i s) : TcClear s := h.2.1

theorem scanTail_tcp (cfg : Cfg) (now an ns ar : Nat) (question : Option (WName × Nat × Nat))
    (r1 : Reader.Reader) (addQ : M Bool) (s : State)
    (hq : ∀ r s1, addQ s = (r, s1) → r ≠ .panic → TcpInv ar 0 s1)
    (out : Out WriterErr ScanEnd) (s' : State)
    (h : (do
        let okQ ← addQ
        if !okQ then pure ScanEnd.stop
        else
          let r2 := Reader.setMark r1
          match scanAnNs (an + ns) r2 with
          | none => do setRcode (RC "FORMERR"); pure ScanEnd.stop
          | some r3 => do
            let st ← scanAr cfg .tcp now ar ar 0 { r := r3 }
            match st with
            | none => pure ScanEnd.stop
            | some st' =>
              if !Reader.atEom st'.r then do setRcode (RC "FORMERR"); pure ScanEnd.stop
              else pure (ScanEnd.proceed question) : M ScanEnd) s = (out, s'))
    (hnp : out ≠ .panic) : TcClear s' := by
  simp only [bind] at h
  rcases hqa : addQ s with ⟨rq, s1⟩
  rw [hqa] at h
  rcases rq with okQ | e | _
  · have i1 := hq _ _ hqa (by simp)
    cases okQ
    · simp [pure] at h; obtain ⟨rfl, rfl⟩ := h
      exact i1.tc
    · simp only [Bool.not_true, Bool.false_eq_true, if_false] at h
      rcases hsn : scanAnNs (an + ns) (Reader.setMark r1) with _ | r3
      · simp only [hsn, bind] at h
        have f := setRcode_rcodeOnly (RC "FORMERR") s1
        rcases hr : setRcode (RC "FORMERR") s1 with ⟨rr, s2⟩
        rw [hr] at h f
        rcases rr with u | e | _ <;> simp [pure] at h <;> obtain ⟨rfl, rfl⟩ := h
        · exact f.tc i1.tc
        · exact f.tc i1.tc
        · exact absurd rfl hnp
      · simp only [hsn, bind] at h
        have hsc := scanAr_tcp cfg now ar ar 0 { r := r3 } s1 (by omega) i1
        rcases hs2 : scanAr cfg .tcp now ar ar 0 { r := r3 } s1 with ⟨rs, s2⟩
        rw [hs2] at h hsc
        rcases rs with st | e | _
        · have i2 := hsc (by simp)
          cases st with
          | none =>
            simp [pure] at h; obtain ⟨rfl, rfl⟩ := h
            exact i2.tc
          | some st' =>
            by_cases he : Reader.atEom st'.r
            · simp [he, pure] at h; obtain ⟨rfl, rfl⟩ := h
              exact i2.tc
            · have f := setRcode_rcodeOnly (RC "FORMERR") s2
              rcases hr : setRcode (RC "FORMERR") s2 with ⟨rr, s3⟩
              rw [hr] at f
              rcases rr with u | e | _ <;> simp [he, hr, pure, bind] at h <;> obtain ⟨rfl, rfl⟩ := h
              · exact f.tc i2.tc
              · exact f.tc i2.tc
              · exact absurd rfl hnp
        · have i2 := hsc (by simp)
          simp at h; obtain ⟨rfl, rfl⟩ := h
          exact i2.tc
        · simp at h; obtain ⟨rfl, rfl⟩ := h
          exact absurd rfl hnp
  · have i1 := hq _ _ hqa (by simp)
    simp at h; obtain ⟨rfl, rfl⟩ := h
    exact i1.tc
  · simp at h; obtain ⟨rfl, rfl⟩ := h
    exact absurd rfl hnp

/-- **Over TCP the scan phase never sets TC**: from the writer `handle_message` sets up over TCP,
    whatever the request and the key set, the TSIG RR of every reply fits
    (question ≤ 12 + 255 + 6, OPT 11, TSIG RR ≤ 255 + 255 + 64 < 65535), so the truncation
    branch of `set_tsig_or_truncate` is never taken. -/
theorem scanPhase_tcp (cfg : Cfg) (now : Nat) (r0 : Reader.Reader) (s : State) (hf : FreshTcp s)
    (out : Out WriterErr ScanEnd) (s' : State) (h : scanPhase cfg .tcp now r0 s = (out, s')) (hnp : out ≠ .panic) :
    TcClear s' := by
  have hinv : ∀ ar, TcpInv ar 0 s := fun ar => ⟨hf.1, hf.2.1, by rw [hf.2.2.1]; omega, Or.inr hf.2.2.2⟩
  unfold scanPhase at h
  split at h
  · rename_i qd an ns ar opcode hqd han hns har hop
    by_cases h0 : qd = 0
    · simp only [h0, if_true] at h
      refine scanTail_tcp cfg now an ns ar none r0 _ s ?_ out s' h hnp
      intro r s1 hr _
      cases hr
      exact hinv ar
    · by_cases h1 : qd = 1
      · simp only [h0, h1, if_true, if_false] at h
        rcases hrq : Reader.readQuestion r0 with ⟨rq, r1⟩
        rw [hrq] at h
        rcases rq with q | e | _
        · rcases hp : WName.parse q.qname with _ | ⟨qn, rest⟩
          · simp [hp] at h; exact absurd h.1.symm hnp
          · cases rest with
            | nil =>
              simp only [hp] at h
              refine scanTail_tcp cfg now an ns ar (some (qn, q.qtype, q.qclass)) r1 _ s ?_ out s' h hnp
              intro r s1 hr hnp1
              exact addQ_tcp ar qn (parse_wire_le _ _ _ hp) q.qtype q.qclass s hf r s1 hr hnp1
            | cons a t => simp [hp] at h; exact absurd h.1.symm hnp
        · simp only [bind] at h
          have f := setRcode_rcodeOnly 1 s
          rcases hr : setRcode 1 s with ⟨rr, s3⟩
          rw [hr] at f
          rcases rr with u | e | _ <;> simp [hr, pure, rc_formerr] at h <;> obtain ⟨rfl, rfl⟩ := h
          · exact f.tc hf.2.1
          · exact f.tc hf.2.1
          · exact absurd rfl hnp
        · simp at h; exact absurd h.1.symm hnp
      · simp [h0, h1] at h
        obtain ⟨rfl, rfl⟩ := h
        exact hf.2.1
  · cases h; exact absurd rfl hnp


/-- the prepared RR of every row of the decision table is well formed in the sense of `RrWF` as soon
    as the key name is in lower case (it is a `LowercaseName`) -/
theorem prepOf_wf (kn : WName) (r : ReadTsigRr) (nowT : TimeSigned) (e : Nat)
    (hl : ∀ l ∈ kn.labels, l.map Spec.Tsig.lower = l) (he : e < 65536) : RrWF (prepOf kn r nowT e) := by
  refine ⟨hl, ?_, rfl, (by show 300 < 65536; omega), UInt16.toNat_lt _, he⟩
  show (if e = 18 then _ else _ : List UInt8).length = 6
  split <;> rfl

end QV.ServerTsig
